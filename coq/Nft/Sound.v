(** * NFT: the checker is sound for the model.

    [model_trace] is what an implementation that behaves exactly like the model would show
    (the observations of [Nft/Check.v] computed from the model state, balances listed for a
    fixed duplicate-free list of actors and every existing class).  [model_passes_check]:
    on every such trace — for every history whose recipients are among the actors — the
    checker answers (-1, -1, 0): no divergence and no violated clause.  Hence an alarm of the
    C14 check always means that the implementation's observations differ from the model's. *)
From Irismod Require Import Nft.Model Nft.Check Nft.Proofs.

(** ** generic list / map facts *)
Section MapFacts.
  Context {K V : Type} `{EqDec K}.
  Implicit Types (m : amap K V) (k : K).

  Lemma In_get k v m : NoDup (keys m) -> In (k, v) m -> get k m = Some v.
  Proof.
    induction m as [|[k0 v0] m IH]; simpl; [tauto|]. intros Hnd Hin.
    inversion Hnd as [|? ? Hnotin Hnd']; subst.
    destruct Hin as [Heq|Hin].
    - inversion Heq; subst. destruct (eq_dec k k); congruence.
    - destruct (eq_dec k k0) as [->|Hne]; [|apply IH; assumption].
      exfalso. apply Hnotin. change (In k0 (map fst m)). apply in_map_iff. exists (k0, v). auto.
  Qed.

  Lemma NoDup_keys_del k m : NoDup (keys m) -> NoDup (keys (del k m)).
  Proof. intros Hnd. rewrite keys_del. apply NoDup_filter. exact Hnd. Qed.

  Lemma get_map_values {W} (f : K -> V -> W) k m :
    get k (map (fun '(k0, v) => (k0, f k0 v)) m) = match get k m with Some v => Some (f k v) | None => None end.
  Proof.
    induction m as [|[k0 v0] m IH]; simpl; [reflexivity|].
    destruct (eq_dec k k0) as [->|Hne]; [reflexivity|exact IH].
  Qed.

  Lemma keys_map_values {W} (f : K -> V -> W) m : keys (map (fun '(k0, v) => (k0, f k0 v)) m) = keys m.
  Proof. unfold keys. rewrite map_map. apply map_ext. intros [k0 v0]. reflexivity. Qed.
End MapFacts.

Lemma nodupb_true {A} `{EqDec A} (l : list A) : NoDup l -> nodupb l = true.
Proof.
  induction 1 as [|x l Hx Hnd IH]; simpl; [reflexivity|]. rewrite IH, Bool.andb_true_r.
  apply Bool.negb_true_iff. destruct (existsb (eqb x) l) eqn:He; [|reflexivity].
  apply existsb_eqb_In in He. contradiction.
Qed.

Lemma map_eqb_refl {K V} `{EqDec K} `{EqDec V} (m : amap K V) : NoDup (keys m) -> map_eqb m m = true.
Proof.
  intros Hnd. unfold map_eqb. rewrite Bool.andb_diag. apply forallb_forall. intros [k v] Hin.
  apply eqb_true_iff. apply In_get; assumption.
Qed.

Lemma getz_In {K} `{EqDec K} (k : K) v (m : amap K Z) : NoDup (keys m) -> In (k, v) m -> getz k m = v.
Proof. intros Hnd Hin. unfold getz. rewrite (In_get k v m Hnd Hin). reflexivity. Qed.

Lemma zmap_eqb_refl {K} `{EqDec K} (m : amap K Z) : NoDup (keys m) -> zmap_eqb m m = true.
Proof.
  intros Hnd. unfold zmap_eqb. rewrite Bool.andb_diag. apply forallb_forall. intros [k v] Hin.
  apply Z.eqb_eq. apply getz_In; assumption.
Qed.

Lemma set_eqb_refl {A} `{EqDec A} (l : list A) : set_eqb l l = true.
Proof.
  unfold set_eqb. rewrite Bool.andb_diag. apply forallb_forall. intros x Hin. apply existsb_eqb_In. exact Hin.
Qed.

Lemma count_map {A B} (f : A -> B) (p : B -> bool) l : count p (map f l) = count (fun x => p (f x)) l.
Proof. induction l as [|x l IH]; [reflexivity|]. simpl. rewrite !count_cons, IH. reflexivity. Qed.

Lemma count_zero {A} (p : A -> bool) l : (forall x, In x l -> p x = false) -> count p l = 0.
Proof.
  induction l as [|x l IH]; intros Hp; [reflexivity|]. rewrite count_cons, IH, (Hp x); [reflexivity|left; reflexivity|].
  intros y Hy. apply Hp. right. exact Hy.
Qed.

Lemma NoDup_map_inj {A B} (f : A -> B) l :
  (forall x y, In x l -> In y l -> f x = f y -> x = y) -> NoDup l -> NoDup (map f l).
Proof.
  intros Hinj Hnd. induction Hnd as [|x l Hx Hnd IH]; simpl; constructor.
  - intros Hin. apply in_map_iff in Hin. destruct Hin as (y & Hfy & Hy).
    assert (y = x) by (apply Hinj; [right; exact Hy|left; reflexivity|exact Hfy]). subst. contradiction.
  - apply IH. intros a b Ha Hb. apply Hinj; right; assumption.
Qed.

Lemma NoDup_same_length {A} (l1 l2 : list A) :
  NoDup l1 -> NoDup l2 -> incl l1 l2 -> incl l2 l1 -> length l1 = length l2.
Proof.
  intros H1 H2 I1 I2. apply Nat.le_antisymm; apply NoDup_incl_length; assumption.
Qed.

(** ** the model's own observations *)
Definition owner_or (s : state) (k : cid * tid) : addr :=
  match get k (owners s) with Some a => a | None => -1 end.
Definition obs_tokens (s : state) : list ((cid * tid) * (addr * tmeta)) :=
  map (fun '(k, m) => (k, (owner_or s k, m))) (nfts s).

Lemma get_obs_tokens s k :
  get k (obs_tokens s) = match get k (nfts s) with Some m => Some (owner_or s k, m) | None => None end.
Proof. unfold obs_tokens. apply (get_map_values (fun k0 m => (owner_or s k0, m))). Qed.
Lemma keys_obs_tokens s : keys (obs_tokens s) = keys (nfts s).
Proof. unfold obs_tokens. apply (keys_map_values (fun k0 m => (owner_or s k0, m))). Qed.

Section Sound.
  Variable actors : list addr.
  Hypothesis actors_nodup : NoDup actors.

  Definition obs_bal (s : state) : list ((addr * cid) * Z) :=
    flat_map (fun c => map (fun a => ((a, c), balance s a c)) actors) (keys (classes s)).

  Definition obs_of (s : state) (code : Z) : obs :=
    mkObs code (classes s) (obs_tokens s) (supply s) (obs_bal s) (index s) false.

  Fixpoint model_trace (s : state) (steps : list step) : case :=
    match steps with
    | [] => []
    | st :: rest => (st, obs_of (next s st) (if ok s st then 0 else 1)) :: model_trace (next s st) rest
    end.

  (** every recipient named in the history is one of the actors *)
  Definition step_covered (st : step) : Prop :=
    match st with
    | Msg (Mint _ _ _ _ _ _ _ r) | Msg (Transfer _ _ _ _ _ _ _ r) => In r actors
    | _ => True
    end.

  (** what the checker needs beyond [Inv] *)
  Definition Inv2 (s : state) : Prop :=
    NoDup (keys (classes s)) /\ NoDup (keys (owners s)) /\ NoDup (keys (supply s))
    /\ (forall a c t, In (a, c, t) (index s) -> In a actors).

  Lemma Inv2_init : Inv2 init.
  Proof. unfold Inv2, init. simpl. repeat split; try constructor. intros a c t []. Qed.

  Lemma in_idx_add e x l : In e (idx_add x l) -> e = x \/ In e l.
  Proof.
    unfold idx_add. destruct (existsb (eqb x) l); [auto|]. rewrite in_app_iff. simpl. intros [H|[H|[]]]; auto.
  Qed.
  Lemma in_idx_del e x l : In e (idx_del x l) -> In e l.
  Proof. unfold idx_del. rewrite filter_In. tauto. Qed.

  Lemma Inv2_step s msg s' : Inv2 s -> step_covered (Msg msg) -> exec_msg s msg = Some s' -> Inv2 s'.
  Proof.
    intros (Hc & Ho & Hs & Hcov) Hst He.
    destruct msg as [a c0 mr ur d0 o0|a c0 t0 n u h d r|a c0 t0 n u h d|a c0 t0 n u h d r|a c0 t0|a c0 r]; simpl in He, Hst.
    - apply issue_ok in He. destruct He as (_ & _ & _ & ->). unfold Inv2. simpl.
      split; [apply keys_set_NoDup; exact Hc|]. auto.
    - apply mint_ok in He. destruct He as (cl & _ & _ & _ & _ & _ & ->). unfold Inv2. simpl.
      split; [exact Hc|]. split; [apply keys_set_NoDup; exact Ho|]. split; [apply keys_set_NoDup; exact Hs|].
      intros a1 c1 t1 Hin. apply in_idx_add in Hin. destruct Hin as [Heq|Hin]; [inversion Heq; subst; exact Hst|eapply Hcov; exact Hin].
    - apply edit_ok in He. destruct He as (cl & _ & _ & _ & [[_ ->]|(m0 & _ & ->)]); unfold Inv2; simpl; auto.
    - apply transfer_ok in He. destruct He as (cl & m0 & _ & _ & Hown & _ & _ & Hs').
      assert (Hgoal : forall s1, owners s1 = owners s -> index s1 = index s -> classes s1 = classes s -> supply s1 = supply s ->
                Inv2 (transfer_state c0 t0 r s1)).
      { intros s1 E1 E2 E3 E4. unfold Inv2, transfer_state, get_owner. simpl. rewrite E1, E2, E3, E4, Hown. simpl.
        split; [exact Hc|]. split; [apply keys_set_NoDup, NoDup_keys_del; exact Ho|]. split; [exact Hs|].
        intros a1 c1 t1 Hin. apply in_idx_add in Hin. destruct Hin as [Heq|Hin]; [inversion Heq; subst; exact Hst|].
        apply in_idx_del in Hin. eapply Hcov; exact Hin. }
      destruct Hs' as [[_ ->]| ->]; apply Hgoal; reflexivity.
    - apply burn_ok in He. destruct He as (Hown & _ & ->). unfold Inv2, burn_state, get_owner. simpl. rewrite Hown. simpl.
      split; [exact Hc|]. split; [apply NoDup_keys_del; exact Ho|]. split; [apply keys_set_NoDup; exact Hs|].
      intros a1 c1 t1 Hin. apply in_idx_del in Hin. eapply Hcov; exact Hin.
    - apply handover_ok in He. destruct He as (cl & _ & _ & _ & ->). unfold Inv2. simpl.
      split; [apply keys_set_NoDup; exact Hc|]. auto.
  Qed.

  Lemma in_obs_bal s a c v : In ((a, c), v) (obs_bal s) <-> In c (keys (classes s)) /\ In a actors /\ v = balance s a c.
  Proof.
    unfold obs_bal. rewrite in_flat_map. split.
    - intros (c0 & Hc0 & Hin). apply in_map_iff in Hin. destruct Hin as (a0 & Heq & Ha0). inversion Heq; subst. auto.
    - intros (Hc & Ha & ->). exists c. split; [exact Hc|]. apply in_map_iff. exists a. auto.
  Qed.

  Lemma owner_of_existing s k m : Inv s -> get k (nfts s) = Some m -> get k (owners s) = Some (owner_or s k).
  Proof.
    intros (_ & _ & Hiff & _) Hm. unfold owner_or.
    destruct (present_iff _ _ (Hiff k)) as [a Ha]; [congruence|]. rewrite Ha. reflexivity.
  Qed.

  Lemma index_class_exists s a c t : Inv s -> In (a, c, t) (index s) -> In c (keys (classes s)).
  Proof.
    intros ((_ & Hidx) & _ & Hiff & _ & _ & Hcls & _) Hin. apply get_in_keys. apply (Hcls c t).
    apply Hiff. apply Hidx in Hin. congruence.
  Qed.

  (** *** correspondence: the model agrees with its own observations *)
  Lemma corr_sound s st : Inv (next s st) -> Inv2 (next s st) ->
    corr_step s (next s st) st (obs_of (next s st) (if ok s st then 0 else 1)) = true.
  Proof.
    set (s' := next s st). intros HI (Hc & Ho & Hs & Hcov).
    pose proof HI as ((Hndx & Hidx) & Hnd & Hiff & _).
    unfold corr_step, obs_of. cbn [o_code o_classes o_tokens o_supply o_bal o_owned o_invbroken].
    rewrite Z.eqb_refl, (map_eqb_refl _ Hc), (zmap_eqb_refl _ Hs), set_eqb_refl. simpl.
    rewrite !Bool.andb_true_r.
    assert (E1 : map (fun '(k, (_, m)) => (k, m)) (obs_tokens s') = nfts s').
    { unfold obs_tokens. rewrite map_map. rewrite <- (map_id (nfts s')) at 2. apply map_ext. intros [k m]. reflexivity. }
    rewrite E1, (map_eqb_refl _ Hnd). simpl.
    assert (E2 : map (fun '(k, (a, _)) => (k, a)) (obs_tokens s') = map (fun '(k, m) => (k, (fun k0 (_ : tmeta) => owner_or s' k0) k m)) (nfts s')).
    { unfold obs_tokens. rewrite map_map. apply map_ext. intros [k m]. reflexivity. }
    rewrite E2.
    apply andb_true_intro. split; [apply andb_true_intro; split|].
    - unfold map_eqb. apply andb_true_intro. split; apply forallb_forall.
      + intros [k a] Hin. apply in_map_iff in Hin. destruct Hin as ([k0 m] & Heq & Hin). inversion Heq; subst.
        apply eqb_true_iff. apply (owner_of_existing s' k m HI). apply In_get; assumption.
      + intros [k a] Hin. apply eqb_true_iff. rewrite (get_map_values (fun k0 (_ : tmeta) => owner_or s' k0)).
        pose proof (In_get k a _ Ho Hin) as Hg.
        destruct (get k (nfts s')) as [m|] eqn:Hm.
        * rewrite (owner_of_existing s' k m HI Hm) in Hg. congruence.
        * exfalso. assert (Hx : get k (nfts s') <> None) by (apply Hiff; congruence). congruence.
    - apply forallb_forall. intros [[a c] v] Hin. apply in_obs_bal in Hin. destruct Hin as (_ & _ & ->). apply Z.eqb_refl.
    - apply forallb_forall. intros [[a c] t] Hin. apply has_true. apply get_in_keys.
      change (In (a, c) (map fst (obs_bal s'))). apply in_map_iff. exists ((a, c), balance s' a c). split; [reflexivity|].
      apply in_obs_bal. split; [eapply index_class_exists; eassumption|]. split; [eapply Hcov; eassumption|reflexivity].
  Qed.

  (** *** the model's observations of tokens *)
  Lemma tok_some s k a m : get k (nfts s) = Some m -> get k (owners s) = Some a -> get k (obs_tokens s) = Some (a, m).
  Proof. intros Hm Ha. rewrite get_obs_tokens, Hm. unfold owner_or. rewrite Ha. reflexivity. Qed.
  Lemma tok_none s k : get k (nfts s) = None -> get k (obs_tokens s) = None.
  Proof. intros Hm. rewrite get_obs_tokens, Hm. reflexivity. Qed.
  Lemma in_obs_tokens s k a m : Inv s -> In (k, (a, m)) (obs_tokens s) ->
    get k (nfts s) = Some m /\ get k (owners s) = Some a.
  Proof.
    intros HI Hin. pose proof HI as (_ & Hnd & _).
    unfold obs_tokens in Hin. apply in_map_iff in Hin. destruct Hin as ([k0 m0] & Heq & Hin). inversion Heq; subst.
    assert (Hm : get k (nfts s) = Some m) by (apply In_get; assumption).
    split; [exact Hm|]. apply (owner_of_existing s k m HI Hm).
  Qed.
  Lemma has_obs_tokens s k : has k (obs_tokens s) = has k (nfts s).
  Proof. unfold has. rewrite get_obs_tokens. destruct (get k (nfts s)); reflexivity. Qed.

  (** *** clause 1 *)
  Lemma p_owner_sound s code : Inv s -> Inv2 s -> p_owner (obs_of s code) = true.
  Proof.
    intros HI (Hc & Ho & Hs & Hcov). pose proof HI as ((Hndx & Hidx) & Hnd & Hiff & _ & _ & Hcls & Hrng).
    unfold p_owner, obs_of, otok. cbn [o_tokens o_owned o_classes].
    rewrite keys_obs_tokens, (nodupb_true _ Hnd), (nodupb_true _ Hndx), (nodupb_true _ Hc). simpl.
    apply andb_true_intro. split; apply forallb_forall.
    - intros [[c t] [a m]] Hin. destruct (in_obs_tokens s (c, t) a m HI Hin) as [Hm Ha].
      apply andb_true_intro. split; [apply andb_true_intro; split|].
      + apply Z.leb_le. apply (Hrng (c, t)). exact Ha.
      + apply existsb_eqb_In. apply Hidx. exact Ha.
      + apply has_true. apply (Hcls c t). congruence.
    - intros [[a c] t] Hin. apply Hidx in Hin.
      destruct (get (c, t) (nfts s)) as [m|] eqn:Hm.
      + rewrite (tok_some s (c, t) a m Hm Hin). apply Z.eqb_refl.
      + exfalso. assert (Hx : get (c, t) (nfts s) <> None) by (apply Hiff; congruence). congruence.
  Qed.

  (** *** clause 2 *)
  Lemma n_of_class_eq s code c : n_of_class (obs_of s code) c = n_tokens s c.
  Proof.
    unfold n_of_class, n_tokens, obs_of, obs_tokens, keys. cbn [o_tokens]. rewrite !count_map.
    apply count_ext. intros [[c' t'] m] _. reflexivity.
  Qed.

  Lemma NoDup_app_disjoint {A} (l1 l2 : list A) :
    NoDup l1 -> NoDup l2 -> (forall x, In x l1 -> ~ In x l2) -> NoDup (l1 ++ l2).
  Proof.
    intros H1 H2 Hd. induction H1 as [|x l1 Hx H1 IH]; simpl; [exact H2|]. constructor.
    - rewrite in_app_iff. intros [Hin|Hin]; [contradiction|]. apply (Hd x); [left; reflexivity|exact Hin].
    - apply IH. intros y Hy. apply Hd. right. exact Hy.
  Qed.

  Lemma keys_obs_bal_nodup s : NoDup (keys (classes s)) -> NoDup (keys (obs_bal s)).
  Proof.
    unfold obs_bal. generalize (keys (classes s)). intros cs Hnd.
    induction Hnd as [|c cs Hc Hnd IH]; simpl; [constructor|].
    unfold keys in *. rewrite map_app. apply NoDup_app_disjoint.
    - rewrite map_map. simpl. apply NoDup_map_inj; [|exact actors_nodup]. intros x y _ _ Heq. congruence.
    - exact IH.
    - intros [a c'] Hin Hin2. rewrite map_map in Hin. simpl in Hin. apply in_map_iff in Hin.
      destruct Hin as (a0 & Heq & _). inversion Heq; subst.
      apply in_map_iff in Hin2. destruct Hin2 as ([[a1 c1] v1] & Heq2 & Hin2). simpl in Heq2. inversion Heq2; subst.
      apply in_flat_map in Hin2. destruct Hin2 as (c2 & Hc2 & Hin2). apply in_map_iff in Hin2.
      destruct Hin2 as (a2 & Heq3 & _). inversion Heq3; subst. contradiction.
  Qed.

  Lemma bal_block s c : NoDup (keys (classes s)) -> In c (keys (classes s)) ->
    zsum (map snd (filter (fun '((_, c'), _) => c' =? c) (obs_bal s))) = zsum (map (fun a => balance s a c) actors).
  Proof.
    unfold obs_bal. generalize (keys (classes s)). intros cs Hnd Hin.
    induction Hnd as [|c0 cs Hc0 Hnd IH]; simpl; [destruct Hin|].
    rewrite filter_app, map_app, zsum_app.
    assert (Hblock : forall c1, filter (fun '((_, c'), _) => c' =? c) (map (fun a => ((a, c1), balance s a c1)) actors)
                                = if c1 =? c then map (fun a => ((a, c1), balance s a c1)) actors else []).
    { intros c1. generalize actors. intros l0. induction l0 as [|a l IHl]; simpl; [destruct (c1 =? c); reflexivity|].
      rewrite IHl. destruct (c1 =? c); reflexivity. }
    rewrite Hblock.
    destruct (Z.eq_dec c0 c) as [->|Hne].
    - rewrite Z.eqb_refl, map_map. simpl.
      match goal with |- _ + zsum (map snd ?X) = _ => assert (Hrest : X = []) end.
      { clear IH Hin. induction cs as [|c1 cs IHcs]; simpl; [reflexivity|].
        rewrite filter_app, Hblock.
        assert (Hf : c1 =? c = false) by (apply Z.eqb_neq; intros ->; apply Hc0; left; reflexivity).
        rewrite Hf. simpl. apply IHcs; [intros Hx; apply Hc0; right; exact Hx|]. inversion Hnd; assumption. }
      rewrite Hrest. simpl. lia.
    - assert (Hf : c0 =? c = false) by (apply Z.eqb_neq; exact Hne). rewrite Hf. simpl.
      apply IH. destruct Hin; [contradiction|assumption].
  Qed.

  Definition tid_of (e : addr * cid * tid) : tid := let '(_, _, t) := e in t.

  Lemma balance_eq_owned s code a c : Inv s -> balance s a c = n_of_owner (obs_of s code) a c.
  Proof.
    intros HI. pose proof HI as ((Hndx & Hidx) & Hnd & Hiff & _).
    rewrite (balance_count s a c HI).
    unfold n_of_owner, obs_of, obs_tokens. cbn [o_tokens]. rewrite count_map.
    set (P := fun e : addr * cid * tid => (addr_of e =? a) && (cls_of e =? c)).
    match goal with |- _ = count ?q _ => set (Q := q) end.
    assert (HQ : forall c' t' m, Q ((c', t'), m) = (c' =? c) && (owner_or s (c', t') =? a)) by (intros; reflexivity).
    unfold count. f_equal.
    rewrite <- (map_length (fun e => (cls_of e, tid_of e)) (filter P (index s))).
    rewrite <- (map_length fst (filter Q (nfts s))).
    apply NoDup_same_length.
    - apply NoDup_map_inj; [|apply NoDup_filter; exact Hndx].
      intros [[a1 c1] t1] [[a2 c2] t2] H1 H2 Heq. apply filter_In in H1, H2. destruct H1 as [_ H1], H2 as [_ H2].
      unfold P in H1, H2. simpl in *. apply andb_prop in H1, H2. destruct H1 as [H1 _], H2 as [H2 _].
      apply Z.eqb_eq in H1, H2. inversion Heq. congruence.
    - apply NoDup_map_inj; [|apply NoDup_filter; clear -Hnd; induction (nfts s) as [|[k v] m IH]; simpl in *; [constructor|];
                              inversion Hnd as [|? ? Hx Hnd']; subst; constructor; [|apply IH; exact Hnd'];
                              intros Hin; apply Hx; change (In k (map fst m)); apply in_map_iff; exists (k, v); auto].
      intros [k1 m1] [k2 m2] H1 H2 Heq. apply filter_In in H1, H2. destruct H1 as [H1 _], H2 as [H2 _]. simpl in Heq. subst k2.
      f_equal. pose proof (In_get k1 m1 _ Hnd H1). pose proof (In_get k1 m2 _ Hnd H2). congruence.
    - intros [c1 t1] Hin. apply in_map_iff in Hin. destruct Hin as ([[a2 c2] t2] & Heq & Hin). simpl in Heq. inversion Heq; subst.
      apply filter_In in Hin. destruct Hin as [Hin HP]. unfold P in HP. simpl in HP. apply andb_prop in HP. destruct HP as [Ha Hc].
      apply Z.eqb_eq in Ha, Hc. subst. apply Hidx in Hin.
      destruct (get (c, t1) (nfts s)) as [m|] eqn:Hm.
      + apply in_map_iff. exists ((c, t1), m). split; [reflexivity|]. apply filter_In. split; [apply get_In; exact Hm|].
        rewrite HQ. unfold owner_or. rewrite Hin, !Z.eqb_refl. reflexivity.
      + exfalso. assert (Hx : get (c, t1) (nfts s) <> None) by (apply Hiff; congruence). congruence.
    - intros [c1 t1] Hin. apply in_map_iff in Hin. destruct Hin as ([[c2 t2] m] & Heq & Hin). simpl in Heq. inversion Heq; subst.
      apply filter_In in Hin. destruct Hin as [Hin HQ']. rewrite HQ in HQ'. apply andb_prop in HQ'. destruct HQ' as [Hc Ha].
      apply Z.eqb_eq in Ha, Hc. subst c1.
      pose proof (In_get (c, t1) m _ Hnd Hin) as Hm. pose proof (owner_of_existing s (c, t1) m HI Hm) as Ho. rewrite Ha in Ho.
      apply in_map_iff. exists (a, c, t1). split; [reflexivity|]. apply filter_In. split; [apply Hidx; exact Ho|].
      unfold P. simpl. rewrite !Z.eqb_refl. reflexivity.
  Qed.

  Lemma p_supply_sound s code : Inv s -> Inv2 s -> (forall c, n_tokens s c < two64) ->
    p_supply (obs_of s code) = true.
  Proof.
    intros HI (Hc & Ho & Hs & Hcov) Hsmall. pose proof HI as (_ & Hnd & Hiff & Hsupm & Hidx & Hcls & _).
    assert (Hsup : forall c, total_supply s c = n_tokens s c).
    { intros c. rewrite Hsupm. apply Z.mod_small. split; [apply count_nonneg|apply Hsmall]. }
    unfold p_supply. rewrite !Bool.andb_true_iff. repeat split.
    - apply forallb_forall. intros [c cl] Hin. rewrite n_of_class_eq.
      assert (Hck : In c (keys (classes s))) by (change (In c (map fst (classes s))); apply in_map_iff; exists (c, cl); auto).
      apply andb_true_intro. split; apply Z.eqb_eq.
      + apply Hsup.
      + unfold obs_of. cbn [o_bal]. rewrite (bal_block s c Hc Hck).
        destruct (supply_lemma s HI) as (_ & _ & _ & _ & Hsum). rewrite (Hsum c actors actors_nodup); [reflexivity|].
        intros a t Hin2. eapply Hcov. exact Hin2.
    - apply forallb_forall. intros [c v] Hin. unfold obs_of in *. cbn [o_supply o_classes] in *.
      destruct (has c (classes s)) eqn:Hh; [reflexivity|]. simpl. apply Z.eqb_eq.
      rewrite <- (getz_In c v _ Hs Hin). change (getz c (supply s)) with (total_supply s c). rewrite Hsup.
      apply count_zero. intros [c' t'] Hk. simpl. apply Z.eqb_neq. intros ->.
      apply has_false in Hh. apply get_in_keys in Hk. apply (Hcls c t') in Hk. congruence.
    - apply forallb_forall. intros [[a c] v] Hin. unfold obs_of in Hin. cbn [o_bal] in Hin. apply in_obs_bal in Hin.
      destruct Hin as (_ & _ & ->). apply Z.eqb_eq. apply balance_eq_owned. exact HI.
    - unfold obs_of. cbn [o_bal]. apply nodupb_true. apply keys_obs_bal_nodup. exact Hc.
  Qed.

  (** *** what a successful message did, as needed by the step clauses *)
  Lemma get_set_ne_None {K V} `{EqDec K} (k k0 : K) (v : V) m : get k0 (set k v m) <> None -> k0 = k \/ get k0 m <> None.
  Proof. rewrite get_set. destruct (eq_dec k0 k); auto. Qed.

  Lemma classes_backward s msg s' c : exec_msg s msg = Some s' ->
    get c (classes s') <> None ->
    get c (classes s) <> None \/ (exists a mr ur d o, msg = IssueDenom a c mr ur d o).
  Proof.
    intros He Hc.
    destruct msg as [a c0 mr ur d0 o0|a c0 t0 n u h d r|a c0 t0 n u h d|a c0 t0 n u h d r|a c0 t0|a c0 r]; simpl in He.
    - apply issue_ok in He. destruct He as (_ & _ & _ & ->). simpl in Hc. apply get_set_ne_None in Hc.
      destruct Hc as [->|Hc]; [right; do 5 eexists; reflexivity|left; exact Hc].
    - apply mint_ok in He. destruct He as (cl & _ & _ & _ & _ & _ & ->). left. exact Hc.
    - apply edit_ok in He. destruct He as (cl & _ & _ & _ & [[_ ->]|(m0 & _ & ->)]); left; exact Hc.
    - apply transfer_ok in He. destruct He as (cl & m0 & _ & _ & _ & _ & _ & [[_ ->]| ->]); left; exact Hc.
    - apply burn_ok in He. destruct He as (_ & _ & ->). left. exact Hc.
    - apply handover_ok in He. destruct He as (cl & Hc0 & _ & _ & ->). simpl in Hc. apply get_set_ne_None in Hc.
      left. destruct Hc as [->|Hc]; [congruence|exact Hc].
  Qed.

  Lemma tokens_backward s msg s' k : exec_msg s msg = Some s' ->
    get k (nfts s') <> None ->
    get k (nfts s) <> None \/ (exists a n u h d r, msg = Mint a (fst k) (snd k) n u h d r).
  Proof.
    intros He Hk.
    destruct msg as [a c0 mr ur d0 o0|a c0 t0 n u h d r|a c0 t0 n u h d|a c0 t0 n u h d r|a c0 t0|a c0 r]; simpl in He.
    - apply issue_ok in He. destruct He as (_ & _ & _ & ->). left. exact Hk.
    - apply mint_ok in He. destruct He as (cl & _ & _ & _ & _ & _ & ->). simpl in Hk. apply get_set_ne_None in Hk.
      destruct Hk as [->|Hk]; [right; do 6 eexists; reflexivity|left; exact Hk].
    - apply edit_ok in He. destruct He as (cl & _ & _ & _ & [[_ ->]|(m0 & Hm0 & ->)]); [left; exact Hk|].
      simpl in Hk. apply get_set_ne_None in Hk. left. destruct Hk as [->|Hk]; [congruence|exact Hk].
    - apply transfer_ok in He. destruct He as (cl & m0 & _ & Hm0 & _ & _ & _ & [[_ ->]| ->]); [left; exact Hk|].
      simpl in Hk. apply get_set_ne_None in Hk. left. destruct Hk as [->|Hk]; [congruence|exact Hk].
    - apply burn_ok in He. destruct He as (_ & _ & ->). simpl in Hk. rewrite get_del in Hk.
      left. destruct (eq_dec k (c0, t0)); [congruence|exact Hk].
    - apply handover_ok in He. destruct He as (cl & _ & _ & _ & ->). left. exact Hk.
  Qed.

  Lemma transfer_effect s a c t n u h d r s' : exec_msg s (Transfer a c t n u h d r) = Some s' ->
    exists m, get (c, t) (nfts s) = Some m /\ get (c, t) (owners s) = Some a
              /\ get (c, t) (nfts s') = Some (apply_changes m n u h d) /\ get (c, t) (owners s') = Some r.
  Proof.
    simpl. intros He. apply transfer_ok in He. destruct He as (cl & m & _ & Hm & Ha & _ & _ & [[Hch ->]| ->]); exists m; simpl.
    - rewrite (apply_nochange m n u h d Hch), get_set_same. auto.
    - rewrite !get_set_same. auto.
  Qed.

  Lemma edit_effect s a c t n u h d s' : Inv s -> exec_msg s (Edit a c t n u h d) = Some s' ->
    exists m, get (c, t) (nfts s) = Some m /\ get (c, t) (owners s) = Some a
              /\ get (c, t) (nfts s') = Some (apply_changes m n u h d) /\ get (c, t) (owners s') = Some a.
  Proof.
    intros (_ & _ & Hiff & _). simpl. intros He. apply edit_ok in He.
    destruct He as (cl & _ & _ & Ha & [[Hch ->]|(m & Hm & ->)]).
    - destruct (get (c, t) (nfts s)) as [m|] eqn:Hm.
      + exists m. rewrite (apply_nochange m n u h d Hch). auto.
      + exfalso. assert (Hx : get (c, t) (nfts s) <> None) by (apply Hiff; congruence). congruence.
    - exists m. simpl. rewrite get_set_same. auto.
  Qed.

  Lemma burn_effect s a c t s' : exec_msg s (Burn a c t) = Some s' ->
    get (c, t) (owners s) = Some a /\ get (c, t) (nfts s) <> None /\ get (c, t) (nfts s') = None.
  Proof.
    simpl. intros He. apply burn_ok in He. destruct He as (Ha & Hm & ->). simpl. rewrite get_del_same. auto.
  Qed.

  Lemma creator_with cl r : c_creator (c_with_creator cl r) = r.
  Proof. destruct cl as [[[[a m] u] d] o]. reflexivity. Qed.

  (** *** clauses 5, 4, 3, 6, 7 on two consecutive model observations *)
  Notation code_of s st := (if ok s st then 0 else 1).

  Lemma quiet_code s st : next s st = s /\ (st = Block \/ ok s st = false) ->
    st = Block \/ okk (obs_of (next s st) (code_of s st)) = false.
  Proof. intros [_ [Hb|Hf]]; [left; exact Hb|right]. unfold okk, obs_of. cbn [o_code]. rewrite Hf. reflexivity. Qed.

  Lemma in_tokens_has s k v : In (k, v) (obs_tokens s) -> has k (obs_tokens s) = true.
  Proof.
    intros Hin. apply has_true. apply get_in_keys. change (In k (map fst (obs_tokens s))). apply in_map_iff. exists (k, v). auto.
  Qed.
  Lemma in_classes_has s c cl : In (c, cl) (classes s) -> has c (classes s) = true.
  Proof.
    intros Hin. apply has_true. apply get_in_keys. change (In c (map fst (classes s))). apply in_map_iff. exists (c, cl). auto.
  Qed.

  Lemma p_frozen_sound s st c0 : Inv s ->
    p_frozen (obs_of s c0) (obs_of (next s st) (code_of s st)) = true.
  Proof.
    intros HI. unfold p_frozen, oclass, otok, obs_of. cbn [o_tokens o_classes].
    apply forallb_forall. intros [[c t] [a m]] Hin. destruct (in_obs_tokens s (c, t) a m HI Hin) as [Hm Ha].
    destruct (get c (classes s)) as [cl|] eqn:Hc; [|reflexivity]. destruct (c_updr cl) eqn:Hu; [|reflexivity].
    destruct (next_cases s st) as [[Hn _]|(msg & s' & -> & He & Hn & _)]; rewrite Hn.
    - rewrite (tok_some s (c, t) a m Hm Ha). apply eqb_refl.
    - destruct (frozen_step s msg s' c t cl m HI He Hc Hu Hm) as [Hm'|(a' & _ & _ & Hm')].
      + rewrite get_obs_tokens, Hm'. apply eqb_refl.
      + rewrite (tok_none s' (c, t) Hm'). reflexivity.
  Qed.

  Lemma tokens_subset_quiet s : forallb (fun '(k, _) => has k (obs_tokens s)) (obs_tokens s) = true.
  Proof. apply forallb_forall. intros [k v] Hin. eapply in_tokens_has. exact Hin. Qed.

  Lemma tokens_subset_step s msg s' : exec_msg s msg = Some s' ->
    (forall a c t n u h d r, msg <> Mint a c t n u h d r) ->
    forallb (fun '(k, _) => has k (obs_tokens s)) (obs_tokens s') = true.
  Proof.
    intros He Hnm. apply forallb_forall. intros [k v] Hin. rewrite has_obs_tokens. apply has_true.
    assert (Hk : get k (nfts s') <> None).
    { apply in_tokens_has in Hin. rewrite has_obs_tokens in Hin. apply has_true. exact Hin. }
    destruct (tokens_backward s msg s' k He Hk) as [H1|(a & n & u & h & d & r & Heq)]; [exact H1|].
    exfalso. eapply Hnm. exact Heq.
  Qed.

  Lemma p_mint_sound s st c0 : Inv s -> Inv (next s st) ->
    p_mint (obs_of s c0) (obs_of (next s st) (code_of s st)) st = true.
  Proof.
    intros HI HI'. unfold p_mint.
    destruct (next_cases s st) as [Hq|(msg & s' & -> & He & Hn & Hok)].
    - pose proof (quiet_code s st Hq) as Hk. destruct Hq as [Hn _]. rewrite Hn in *.
      assert (Hsub := tokens_subset_quiet s).
      destruct st as [[a c mr ur d o|a c t n u h d r|a c t n u h d|a c t n u h d r|a c t|a c r]|]; try exact Hsub.
      destruct Hk as [Hk|Hk]; [discriminate|]. rewrite Hk. exact Hsub.
    - rewrite Hn, Hok in *.
      destruct msg as [a c mr ur d o|a c t n u h d r|a c t n u h d|a c t n u h d r|a c t|a c r];
        try (apply (tokens_subset_step s _ s' He); intros; discriminate).
      change (okk (obs_of s' 0)) with true. cbv iota.
      destruct (mint_lemma s a c t n u h d r s' He) as ((cl & Hc & Hr) & Hfree & Hm' & Ho' & Hframe & _).
      unfold oclass, otok, obs_of. cbn [o_classes o_tokens]. rewrite Hc.
      rewrite has_obs_tokens. unfold has at 1. rewrite Hfree. simpl.
      rewrite (tok_some s' (c, t) r (n, u, h, d) Hm' Ho'), eqb_refl. simpl.
      rewrite !Bool.andb_true_r.
      apply andb_true_intro. split.
      + destruct (c_mintr cl) eqn:Hmr; [|reflexivity]. simpl. apply Z.eqb_eq. apply Hr. reflexivity.
      + apply forallb_forall. intros [k v] Hin. destruct (eq_dec k (c, t)) as [->|Hne].
        * rewrite eqb_refl. apply Bool.orb_true_r.
        * apply Bool.orb_true_iff. left. rewrite has_obs_tokens. apply has_true.
          apply in_tokens_has in Hin. rewrite has_obs_tokens in Hin. apply has_true in Hin.
          destruct (Hframe k Hne) as [E _]. rewrite <- E. exact Hin.
  Qed.

  Lemma p_auth_sound s st c0 : Inv s -> Inv (next s st) ->
    p_auth (obs_of s c0) (obs_of (next s st) (code_of s st)) st = true.
  Proof.
    intros HI HI'. unfold p_auth. apply andb_true_intro. split.
    - (* the step itself *)
      destruct (next_cases s st) as [Hq|(msg & s' & -> & He & Hn & Hok)].
      + pose proof (quiet_code s st Hq) as Hk. destruct Hk as [->|Hk]; [reflexivity|]. rewrite Hk. reflexivity.
      + rewrite Hn, Hok. change (okk (obs_of s' 0)) with true. cbv iota.
        destruct msg as [a c mr ur d o|a c t n u h d r|a c t n u h d|a c t n u h d r|a c t|a c r]; try reflexivity;
          unfold otok, obs_of; cbn [o_tokens].
        * destruct (edit_effect s a c t n u h d s' HI He) as (m & Hm & Ha & Hm' & Ha').
          rewrite (tok_some s (c, t) a m Hm Ha), (tok_some s' (c, t) a _ Hm' Ha'), Z.eqb_refl, eqb_refl. reflexivity.
        * destruct (transfer_effect s a c t n u h d r s' He) as (m & Hm & Ha & Hm' & Ha').
          rewrite (tok_some s (c, t) a m Hm Ha), (tok_some s' (c, t) r _ Hm' Ha'), Z.eqb_refl, eqb_refl. reflexivity.
        * destruct (burn_effect s a c t s' He) as (Ha & Hm & Hm').
          destruct (get (c, t) (nfts s)) as [m|] eqn:Hg; [|congruence].
          rewrite (tok_some s (c, t) a m Hg Ha), Z.eqb_refl, has_obs_tokens. unfold has. rewrite Hm'. reflexivity.
    - (* every token of the previous observation *)
      apply forallb_forall. intros [[c t] [a m]] Hin. unfold obs_of in Hin. cbn [o_tokens] in Hin.
      destruct (in_obs_tokens s (c, t) a m HI Hin) as [Hm Ha].
      destruct (next_cases s st) as [[Hn _]|(msg & s' & -> & He & Hn & Hok)]; rewrite Hn; unfold otok at 1, obs_of at 1; cbn [o_tokens].
      + rewrite (tok_some s (c, t) a m Hm Ha), Z.eqb_refl, eqb_refl. reflexivity.
      + rewrite Hok. change (okk (obs_of s' 0)) with true.
        destruct (token_step s msg s' c t m a He Hm Ha) as [[H1 H2]|[(n & u & h & d & r & -> & H1 & H2)|[(n & u & h & d & -> & H1 & H2)|(-> & H1 & H2)]]].
        * rewrite (tok_some s' (c, t) a m H1 H2), Z.eqb_refl, eqb_refl. reflexivity.
        * rewrite (tok_some s' (c, t) r _ H1 H2), !Z.eqb_refl, eqb_refl. simpl. rewrite !Bool.orb_true_r. reflexivity.
        * rewrite (tok_some s' (c, t) a _ H1 H2), !Z.eqb_refl, eqb_refl. simpl. rewrite !Bool.orb_true_r. reflexivity.
        * rewrite (tok_none s' (c, t) H1), !Z.eqb_refl. reflexivity.
  Qed.

  Lemma classes_subset_quiet s : forallb (fun '(c', _) => has c' (classes s)) (classes s) = true.
  Proof. apply forallb_forall. intros [c cl] Hin. eapply in_classes_has. exact Hin. Qed.

  Lemma classes_subset_step s msg s' : exec_msg s msg = Some s' ->
    (forall a c mr ur d o, msg <> IssueDenom a c mr ur d o) ->
    forallb (fun '(c', _) => has c' (classes s)) (classes s') = true.
  Proof.
    intros He Hni. apply forallb_forall. intros [c cl] Hin. apply has_true.
    assert (Hc : get c (classes s') <> None) by (apply has_true; eapply in_classes_has; exact Hin).
    destruct (classes_backward s msg s' c He Hc) as [H1|(a & mr & ur & d & o & Heq)]; [exact H1|].
    exfalso. eapply Hni. exact Heq.
  Qed.

  Lemma p_class_sound s st c0 : Inv2 s ->
    p_class (obs_of s c0) (obs_of (next s st) (code_of s st)) st = true.
  Proof.
    intros (Hcn & _). unfold p_class. apply andb_true_intro. split; [apply andb_true_intro; split|].
    - (* every class of the previous observation *)
      apply forallb_forall. intros [c cl] Hin. unfold obs_of in Hin. cbn [o_classes] in Hin.
      pose proof (In_get c cl _ Hcn Hin) as Hc.
      destruct (next_cases s st) as [[Hn _]|(msg & s' & -> & He & Hn & Hok)]; rewrite Hn; unfold oclass at 1, obs_of at 1; cbn [o_classes].
      + rewrite Hc, eqb_refl, Z.eqb_refl. reflexivity.
      + rewrite Hok. change (okk (obs_of s' 0)) with true.
        destruct (class_step s msg s' c cl He Hc) as [Hc'|(r & -> & Hc')]; rewrite Hc'.
        * rewrite eqb_refl, Z.eqb_refl. reflexivity.
        * rewrite with_creator_twice, eqb_refl, creator_with, !Z.eqb_refl. simpl. apply Bool.orb_true_r.
    - (* a hand-over *)
      destruct (next_cases s st) as [Hq|(msg & s' & -> & He & Hn & Hok)].
      + pose proof (quiet_code s st Hq) as Hk. destruct Hk as [->|Hk]; [reflexivity|].
        destruct st as [[a c mr ur d o|a c t n u h d r|a c t n u h d|a c t n u h d r|a c t|a c r]|]; try reflexivity.
        rewrite Hk. reflexivity.
      + rewrite Hn, Hok. change (okk (obs_of s' 0)) with true.
        destruct msg as [a c mr ur d o|a c t n u h d r|a c t n u h d|a c t n u h d r|a c t|a c r]; try reflexivity.
        cbv iota. simpl in He. apply handover_ok in He. destruct He as (cl & Hc & Ha & _ & ->).
        unfold oclass, obs_of. cbn [o_classes]. simpl. rewrite Hc, get_set_same, creator_with, Ha, !Z.eqb_refl. reflexivity.
    - (* an issue, or no new class *)
      destruct (next_cases s st) as [Hq|(msg & s' & -> & He & Hn & Hok)].
      + pose proof (quiet_code s st Hq) as Hk. destruct Hq as [Hn _]. rewrite Hn in *.
        assert (Hsub := classes_subset_quiet s).
        destruct st as [[a c mr ur d o|a c t n u h d r|a c t n u h d|a c t n u h d r|a c t|a c r]|]; try exact Hsub.
        destruct Hk as [Hk|Hk]; [discriminate|]. rewrite Hk. exact Hsub.
      + rewrite Hn, Hok.
        destruct msg as [a c mr ur d o|a c t n u h d r|a c t n u h d|a c t n u h d r|a c t|a c r];
          try (apply (classes_subset_step s _ s' He); intros; discriminate).
        change (okk (obs_of s' 0)) with true. cbv iota.
        destruct (issue_lemma s a c mr ur d o s' He) as (Hfree & Hc' & Hframe & _).
        unfold oclass, obs_of. cbn [o_classes]. unfold has at 1. rewrite Hfree, Hc', eqb_refl. simpl.
        apply forallb_forall. intros [c' cl'] Hin. destruct (Z.eq_dec c' c) as [->|Hne].
        * rewrite Z.eqb_refl. apply Bool.orb_true_r.
        * apply Bool.orb_true_iff. left. apply has_true. rewrite <- (Hframe c' Hne). apply has_true. eapply in_classes_has. exact Hin.
  Qed.

  Lemma p_frame_sound s st c0 : Inv s -> Inv2 s ->
    p_frame (obs_of s c0) (obs_of (next s st) (code_of s st)) st = true.
  Proof.
    intros (_ & Hnd & _) (Hc & _ & Hs & _). unfold p_frame.
    destruct (next_cases s st) as [Hq|(msg & s' & -> & He & Hn & Hok)].
    - destruct Hq as [Hn _]. rewrite Hn. unfold obs_of at 2 3 4 5 6 7 8 9. cbn [o_classes o_tokens o_supply o_owned].
      rewrite (map_eqb_refl _ Hc), (zmap_eqb_refl _ Hs), set_eqb_refl.
      rewrite map_eqb_refl by (rewrite keys_obs_tokens; exact Hnd). apply Bool.orb_true_r.
    - rewrite Hn, Hok. reflexivity.
  Qed.

  (** *** the checker on a model trace *)
  Lemma prop_sound s st c0 : Inv s -> Inv2 s -> Inv (next s st) -> Inv2 (next s st) ->
    (forall c, n_tokens (next s st) c < two64) ->
    prop_step (obs_of s c0) (obs_of (next s st) (code_of s st)) st = 0.
  Proof.
    intros HI HI2 HI' HI2' Hsmall. unfold prop_step.
    rewrite (p_owner_sound _ _ HI' HI2'), (p_supply_sound _ _ HI' HI2' Hsmall), (p_frozen_sound s st c0 HI),
      (p_mint_sound s st c0 HI HI'), (p_auth_sound s st c0 HI HI'), (p_class_sound s st c0 HI2), (p_frame_sound s st c0 HI HI2).
    reflexivity.
  Qed.

  Lemma Inv2_next s st : Inv2 s -> step_covered st -> Inv2 (next s st).
  Proof.
    intros HI2 Hcov. destruct (next_cases s st) as [[-> _]|(msg & s' & -> & He & -> & _)]; [exact HI2|].
    exact (Inv2_step s msg s' HI2 Hcov He).
  Qed.

  (** the supply counter of the x/nft keeper is a uint64: the clause "supply = number of tokens" is
      evaluated on integers, so the trace must be short enough for the counter not to have wrapped *)
  Lemma check_sound steps : forall s c0 i n, Inv s -> Inv2 s -> Forall step_covered steps ->
    (forall c, n_tokens s c <= n) -> n + Z.of_nat (length steps) < two64 ->
    check_from s (obs_of s c0) (model_trace s steps) i (-1) (-1) 0 = (-1, -1, 0).
  Proof.
    induction steps as [|st rest IH]; intros s c0 i n HI HI2 Hcov Hb Hlen; [reflexivity|].
    inversion Hcov as [|? ? Hst Hrest]; subst.
    cbn [length] in Hlen. rewrite Nat2Z.inj_succ in Hlen.
    pose proof (step_inv s st HI) as HI'. pose proof (Inv2_next s st HI2 Hst) as HI2'.
    assert (Hb' : forall c, n_tokens (next s st) c <= n + 1).
    { intros c. pose proof (n_tokens_next s st c). specialize (Hb c). lia. }
    assert (Hsmall : forall c, n_tokens (next s st) c < two64) by (intros c; specialize (Hb' c); lia).
    cbn [model_trace check_from].
    rewrite (corr_sound s st HI' HI2'), (prop_sound s st c0 HI HI2 HI' HI2' Hsmall). simpl.
    apply (IH _ _ _ (n + 1)); auto. lia.
  Qed.

  Lemma model_passes_check_lemma steps : Forall step_covered steps -> Z.of_nat (length steps) < two64 ->
    check_case (model_trace init steps) = (-1, -1, 0).
  Proof.
    intros Hcov Hlen. unfold check_case. change obs0 with (obs_of init 0).
    apply (check_sound steps init 0 0 0); [apply Inv_init|apply Inv2_init|exact Hcov| |lia].
    intros c. unfold n_tokens, count, init. simpl. lia.
  Qed.
End Sound.
