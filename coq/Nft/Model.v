(** * NFT module: executable model
    (modules/nft/keeper/{nft,denom,msg_server,collection}.go, types/{msgs,validation}.go, and
    the embedded SDK keeper cosmossdk.io/x/nft/keeper/{nft,class}.go)

    The irismod keeper is a thin layer over the SDK's x/nft keeper, which owns the store:
    class records, NFT records, an owner record per NFT, an index (owner, class) -> NFT ids
    and a per-class supply counter.  The SDK keeper is *modelled* here (section "x/nft keeper":
    mint fails if the id exists, burn deletes, transfer re-binds the owner record and the
    index), its agreement with the real one is part of the correspondence.  The irismod
    metadata travel in the [Any] data fields of the SDK records: for a class (creator, schema,
    mint_restricted, update_restricted, data), for an NFT (name, data).

    Vocabulary.  Class ids: [c > 0] a well-formed id that is not reserved, [c = 0] a string
    that fails [ValidateDenomID], [c < 0] a well-formed id that starts with a reserved keyword
    ("ibc/...", "peg...", "tibc-..."): it passes the id check of every message except
    issue-denom (and mint for "ibc/"), so no such class ever exists.  Token ids: [t > 0]
    well-formed, [t <= 0] failing [ValidateTokenID].  Addresses: [a >= 0] a valid bech32
    address (actor index), negative = empty / not an address.  Strings (names, URIs, hashes,
    data) are interned: [0] = "", [1] = "[do-not-modify]", [n >= 2] a string that is valid
    JSON, [-1] a string longer than 256 bytes that is not JSON, other negatives a short string
    that is not JSON. *)
From Irismod Require Export Base.Prelude.

Definition two64 : Z := 18446744073709551616.
(** Go's unchecked [supply + 1] / [supply - 1] on the uint64 counter of the x/nft keeper
    (incrTotalSupply / decrTotalSupply): both wrap *)
Definition uinc (a : Z) : Z := (a + 1) mod two64.
Definition udec (a : Z) : Z := (a - 1) mod two64.

Definition getz {K} `{EqDec K} (k : K) (m : amap K Z) : Z :=
  match get k m with Some v => v | None => 0 end.

Definition cid := Z.
Definition tid := Z.
Definition addr := Z.

(** types/validation.go: DoNotModify, Modified, Modify *)
Definition dnm : Z := 1.
Definition modified (x : Z) : bool := negb (x =? dnm).
Definition modify (origin target : Z) : Z := if target =? dnm then origin else target.

(** token record: name, uri, uri_hash, data (nft.NFT{Uri, UriHash, Data: Any(NFTMetadata{Name, Data})}) *)
Definition tmeta := (Z * Z * Z * Z)%type.
(** class record: creator, mint_restricted, update_restricted, data, other fields
    (name, schema, symbol, description, uri, uri_hash) *)
Definition class := (addr * bool * bool * Z * list Z)%type.
Definition c_creator (c : class) : addr := let '(a, _, _, _, _) := c in a.
Definition c_mintr (c : class) : bool := let '(_, m, _, _, _) := c in m.
Definition c_updr (c : class) : bool := let '(_, _, u, _, _) := c in u.
Definition c_with_creator (c : class) (a : addr) : class := let '(_, m, u, d, o) := c in (a, m, u, d, o).

Record state := mkState {
  classes : amap cid class;                 (* x/nft ClassKey *)
  nfts    : amap (cid * tid) tmeta;         (* x/nft NFTKey: class, id -> NFT *)
  owners  : amap (cid * tid) addr;          (* x/nft OwnerKey: class, id -> owner *)
  index   : list (addr * cid * tid);        (* x/nft NFTOfClassByOwnerKey: owner, class, id -> placeholder *)
  supply  : amap cid Z                      (* x/nft ClassTotalSupply *)
}.

Definition init : state := mkState [] [] [] [] [].

Definition with_classes s x := mkState x (nfts s) (owners s) (index s) (supply s).
Definition with_nfts s x := mkState (classes s) x (owners s) (index s) (supply s).
Definition with_owners s x := mkState (classes s) (nfts s) x (index s) (supply s).
Definition with_index s x := mkState (classes s) (nfts s) (owners s) x (supply s).
Definition with_supply s x := mkState (classes s) (nfts s) (owners s) (index s) x.

(** ** x/nft keeper (modelled) *)

Definition has_class (s : state) (c : cid) : bool := has c (classes s).
Definition has_nft (s : state) (c : cid) (t : tid) : bool := has (c, t) (nfts s).
(** GetOwner: [None] stands for the empty address returned when nothing is stored *)
Definition get_owner (s : state) (c : cid) (t : tid) : option addr := get (c, t) (owners s).
Definition total_supply (s : state) (c : cid) : Z := getz c (supply s).

(** a KV store holds a key once: [Set] of a present key changes nothing here (the value is a placeholder) *)
Definition idx_add (e : addr * cid * tid) (l : list (addr * cid * tid)) :=
  if existsb (eqb e) l then l else l ++ [e].
Definition idx_del (e : addr * cid * tid) (l : list (addr * cid * tid)) :=
  filter (fun x => negb (eqb x e)) l.

(** setOwner: owner record + index entry *)
Definition set_owner (c : cid) (t : tid) (a : addr) (s : state) : state :=
  with_index (with_owners s (set (c, t) a (owners s))) (idx_add (a, c, t) (index s)).
(** deleteOwner (called with the owner read by GetOwner) *)
Definition delete_owner (c : cid) (t : tid) (o : option addr) (s : state) : state :=
  with_index (with_owners s (del (c, t) (owners s)))
             (match o with Some a => idx_del (a, c, t) (index s) | None => index s end).

(** Mint: class must exist, id must be free; setNFT, setOwner, incrTotalSupply ([supply + 1],
    unchecked in Go: modelled with the wrap-around at 2^64) *)
Definition nk_mint (c : cid) (t : tid) (m : tmeta) (a : addr) (s : state) : option state :=
  if negb (has_class s c) then None
  else if has_nft s c t then None
  else
    let s1 := with_nfts s (set (c, t) m (nfts s)) in
    let s2 := set_owner c t a s1 in
    Some (with_supply s2 (set c (uinc (total_supply s2 c)) (supply s2))).

(** Burn: class and NFT must exist; delete the NFT, deleteOwner(GetOwner), decrTotalSupply *)
Definition nk_burn (c : cid) (t : tid) (s : state) : option state :=
  if negb (has_class s c) then None
  else if negb (has_nft s c t) then None
  else
    let o := get_owner s c t in
    let s1 := with_nfts s (del (c, t) (nfts s)) in
    let s2 := delete_owner c t o s1 in
    Some (with_supply s2 (set c (udec (total_supply s2 c)) (supply s2))).

(** Update: class and NFT must exist; setNFT *)
Definition nk_update (c : cid) (t : tid) (m : tmeta) (s : state) : option state :=
  if negb (has_class s c) then None
  else if negb (has_nft s c t) then None
  else Some (with_nfts s (set (c, t) m (nfts s))).

(** Transfer: class and NFT must exist; deleteOwner(GetOwner), setOwner(receiver) *)
Definition nk_transfer (c : cid) (t : tid) (a : addr) (s : state) : option state :=
  if negb (has_class s c) then None
  else if negb (has_nft s c t) then None
  else Some (set_owner c t a (delete_owner c t (get_owner s c t) s)).

(** SaveClass / UpdateClass *)
Definition nk_save_class (c : cid) (cl : class) (s : state) : option state :=
  if has_class s c then None else Some (with_classes s (set c cl (classes s))).
Definition nk_update_class (c : cid) (cl : class) (s : state) : option state :=
  if has_class s c then Some (with_classes s (set c cl (classes s))) else None.

(** views computed by the SDK keeper *)
(** GetNFTsOfClassByOwner / GetBalance: index entries of (owner, class) whose NFT exists *)
Definition owned_by (s : state) (a : addr) (c : cid) : list tid :=
  map (fun e : addr * cid * tid => snd e)
      (filter (fun '(a', c', t') => (a' =? a) && (c' =? c) && has_nft s c' t') (index s)).
Definition balance (s : state) (a : addr) (c : cid) : Z := Z.of_nat (length (owned_by s a c)).
(** GetNFTsOfClass *)
Definition tokens_of (s : state) (c : cid) : list tid :=
  map (fun k : cid * tid => snd k) (filter (fun k : cid * tid => fst k =? c) (keys (nfts s))).

(** ** irismod keeper *)

(** nft.go Authorize: sender equals GetOwner (senders are never the empty address) *)
Definition authorize (s : state) (c : cid) (t : tid) (a : addr) : bool :=
  match get_owner s c t with Some o => o =? a | None => false end.

Definition addr_ok (a : addr) : bool := 0 <=? a.
Definition denom_ok (c : cid) : bool := negb (c =? 0).           (* ValidateDenomID *)
Definition token_ok (t : tid) : bool := 0 <? t.                  (* ValidateTokenID *)
Definition uri_ok (u : Z) : bool := negb (u =? -1).              (* ValidateTokenURI: at most 256 bytes *)
Definition json_or_empty (d : Z) : bool := (d =? 0) || (2 <=? d). (* len = 0 or gjson.Valid *)
Definition json_or_empty_or_dnm (d : Z) : bool := 0 <=? d.

Inductive msg :=
| IssueDenom (sender : addr) (c : cid) (mintr updr : bool) (data : Z) (other : list Z)
| Mint (sender : addr) (c : cid) (t : tid) (name uri uri_hash data : Z) (recipient : addr)
| Edit (sender : addr) (c : cid) (t : tid) (name uri uri_hash data : Z)
| Transfer (sender : addr) (c : cid) (t : tid) (name uri uri_hash data : Z) (recipient : addr)
| Burn (sender : addr) (c : cid) (t : tid)
| TransferDenom (sender : addr) (c : cid) (recipient : addr).

(** MsgIssueDenom.ValidateBasic (id well-formed and not reserved, sender, data) +
    msgServer.IssueDenom + SaveDenom *)
Definition issue_denom (s : state) (a : addr) (c : cid) (mintr updr : bool) (data : Z) (other : list Z) : option state :=
  if (0 <? c) && addr_ok a && json_or_empty data then
    nk_save_class c (a, mintr, updr, data, other) s
  else None.

(** MsgMintNFT.ValidateBasic + msgServer.MintNFT + SaveNFT *)
Definition mint (s : state) (a : addr) (c : cid) (t : tid) (name uri uri_hash data : Z) (r : addr) : option state :=
  if addr_ok a && addr_ok r && denom_ok c && uri_ok uri && json_or_empty data && token_ok t then
    match get c (classes s) with
    | None => None                                                     (* GetDenomInfo *)
    | Some cl =>
        if c_mintr cl && negb (c_creator cl =? a) then None            (* mint restriction *)
        else nk_mint c t (name, uri, uri_hash, data) r s
    end
  else None.

Definition changes (name uri uri_hash data : Z) : bool :=
  modified uri || modified uri_hash || modified name || modified data.

Definition apply_changes (m : tmeta) (name uri uri_hash data : Z) : tmeta :=
  let '(n0, u0, h0, d0) := m in (modify n0 name, modify u0 uri, modify h0 uri_hash, modify d0 data).

(** MsgEditNFT.ValidateBasic + msgServer.EditNFT + UpdateNFT *)
Definition edit (s : state) (a : addr) (c : cid) (t : tid) (name uri uri_hash data : Z) : option state :=
  if addr_ok a && denom_ok c && uri_ok uri && json_or_empty_or_dnm data && token_ok t then
    match get c (classes s) with
    | None => None
    | Some cl =>
        if c_updr cl then None                                         (* nobody can update *)
        else if negb (authorize s c t a) then None
        else if negb (changes name uri uri_hash data) then Some s
        else
          match get (c, t) (nfts s) with
          | None => None
          | Some m => nk_update c t (apply_changes m name uri uri_hash data) s
          end
    end
  else None.

(** MsgTransferNFT.ValidateBasic (with the URI length check added by
    "fix: nft MsgTransferNFT validates the token URI length": before it a transfer could store an
    over-long URI, which genesis validation rejects) + msgServer.TransferNFT + TransferOwnership *)
Definition transfer (s : state) (a : addr) (c : cid) (t : tid) (name uri uri_hash data : Z) (r : addr) : option state :=
  if denom_ok c && addr_ok a && addr_ok r && uri_ok uri && json_or_empty_or_dnm data && token_ok t then
    match get (c, t) (nfts s) with
    | None => None
    | Some m =>
        if negb (authorize s c t a) then None
        else
          match get c (classes s) with
          | None => None
          | Some cl =>
              let ch := changes name uri uri_hash data in
              if c_updr cl && ch then None
              else if negb ch then nk_transfer c t r s
              else
                match nk_update c t (apply_changes m name uri uri_hash data) s with
                | None => None
                | Some s1 => nk_transfer c t r s1
                end
          end
    end
  else None.

(** MsgBurnNFT.ValidateBasic + msgServer.BurnNFT + RemoveNFT *)
Definition burn (s : state) (a : addr) (c : cid) (t : tid) : option state :=
  if addr_ok a && denom_ok c && token_ok t then
    if authorize s c t a then nk_burn c t s else None
  else None.

(** MsgTransferDenom.ValidateBasic + msgServer.TransferDenom + TransferDenomOwner *)
Definition transfer_denom (s : state) (a : addr) (c : cid) (r : addr) : option state :=
  if addr_ok a && addr_ok r && denom_ok c then
    match get c (classes s) with
    | None => None
    | Some cl =>
        if c_creator cl =? a then nk_update_class c (c_with_creator cl r) s else None
    end
  else None.

Definition exec_msg (s : state) (m : msg) : option state :=
  match m with
  | IssueDenom a c mr ur d o => issue_denom s a c mr ur d o
  | Mint a c t n u h d r => mint s a c t n u h d r
  | Edit a c t n u h d => edit s a c t n u h d
  | Transfer a c t n u h d r => transfer s a c t n u h d r
  | Burn a c t => burn s a c t
  | TransferDenom a c r => transfer_denom s a c r
  end.

(** a step of a history: one message as its own transaction (atomic: on an error the state is
    the one before), or a block boundary (the module has no begin/end blocker) *)
Inductive step := Msg (m : msg) | Block.

Definition exec_step (s : state) (st : step) : option state :=
  match st with Msg m => exec_msg s m | Block => Some s end.
Definition next (s : state) (st : step) : state :=
  match exec_step s st with Some s' => s' | None => s end.
Definition ok (s : state) (st : step) : bool :=
  match exec_step s st with Some _ => true | None => false end.

Fixpoint run (s : state) (steps : list step) : state :=
  match steps with [] => s | st :: rest => run (next s st) rest end.

(** did the [n]-th step of a history succeed? *)
Definition ok_at (s : state) (steps : list step) (n : nat) : bool :=
  ok (run s (firstn n steps)) (nth n steps Block).

(** counting *)
Definition count {A} (p : A -> bool) (l : list A) : Z := Z.of_nat (length (filter p l)).
(** number of stored NFTs of class [c] *)
Definition n_tokens (s : state) (c : cid) : Z := count (fun k : cid * tid => fst k =? c) (keys (nfts s)).
(** number of index entries of class [c] *)
Definition n_index (s : state) (c : cid) : Z := count (fun '(_, c', _) => c' =? c) (index s).
