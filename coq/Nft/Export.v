(** * NFT: the export view of the model state and what a genesis validator may rely on.

    [Keeper.ExportGenesis] = [GetCollections] (modules/nft/keeper/{genesis,collection}.go): every
    class of the x/nft keeper with its NFTs, each NFT with its owner (the x/nft owner record) and
    its metadata.  This file states that view over the model state of [Nft/Model.v] and proves, for
    every reachable state, the facts [types.ValidateGenesis] / [InitGenesis] and the C12 model
    ([Genesis/Nft.v], invariant [invb]) need:

    - class ids are pairwise distinct, NFT ids are pairwise distinct within a class, every NFT is
      exported under an existing class (no orphans);
    - class ids and NFT ids are well-formed ([ValidateDenomID], [ValidateTokenID] accept them) and no
      class id is a reserved keyword;
    - every NFT has an owner, the owner is a valid address (never "missing owner"), the same one the
      owner record and the owner index report;
    - every NFT's URI passes [ValidateTokenURI] — this one was FALSE before
      "fix: nft MsgTransferNFT validates the token URI length": a transfer could write a 257-byte
      URI, and [InitGenesis] of the chain's own export then panicked in [ValidateGenesis] (C12);
    - every class creator is a valid address ([InitGenesis] parses it and panics otherwise);
    - the supply counter of a class = number of its exported NFTs modulo 2^64 — the counter is a
      uint64 that the x/nft keeper increments unchecked; [Nft/Proofs.v: r_supply_no_wrap] shows it
      has not wrapped after fewer than 2^64 steps — which is what [SaveCollection] rebuilds by minting
      the NFTs one by one.

    Order of the lists (store key order in Go) is not part of this view. *)
From Irismod Require Import Nft.Model Nft.Check Nft.Proofs Nft.Sound.

(** ** the export view *)
Definition nfts_of (s : state) (c : cid) : list (tid * (addr * tmeta)) :=
  map (fun e : (cid * tid) * (addr * tmeta) => (snd (fst e), snd e))
      (filter (fun e : (cid * tid) * (addr * tmeta) => fst (fst e) =? c) (obs_tokens s)).

(** Collections: (class id, class record), its NFTs (id, (owner, (name, uri, uri_hash, data))) *)
Definition export_collections (s : state) : list ((cid * class) * list (tid * (addr * tmeta))) :=
  map (fun c => (c, nfts_of s (fst c))) (classes s).

Definition meta_uri (m : tmeta) : Z := let '(_, u, _, _) := m in u.

(** ** the invariant behind the export (beyond [Inv] and [IdInv]) *)
Definition XInv (s : state) : Prop :=
  NoDup (keys (classes s))
  /\ (forall c cl, get c (classes s) = Some cl -> 0 <= c_creator cl)
  /\ (forall k m, get k (nfts s) = Some m -> uri_ok (meta_uri m) = true).

Lemma XInv_init : XInv init.
Proof. unfold XInv, init. simpl. repeat split; try constructor; intros; discriminate. Qed.

Lemma uri_modify u0 u : uri_ok u0 = true -> uri_ok u = true -> uri_ok (modify u0 u) = true.
Proof. unfold modify. destruct (u =? dnm); auto. Qed.

Lemma apply_changes_uri m n u h d : uri_ok (meta_uri m) = true -> uri_ok u = true ->
  uri_ok (meta_uri (apply_changes m n u h d)) = true.
Proof. destruct m as [[[n0 u0] h0] d0]. simpl. apply uri_modify. Qed.

Lemma mint_uri s a c t n u h d r s' : mint s a c t n u h d r = Some s' -> uri_ok u = true.
Proof.
  unfold mint. destruct (addr_ok a && addr_ok r && denom_ok c && uri_ok u && json_or_empty d && token_ok t) eqn:Hv; [|discriminate].
  intros _. apply andb_prop in Hv. destruct Hv as [Hv _]. apply andb_prop in Hv. destruct Hv as [Hv _].
  apply andb_prop in Hv. destruct Hv as [_ Hu]. exact Hu.
Qed.
Lemma edit_uri s a c t n u h d s' : edit s a c t n u h d = Some s' -> uri_ok u = true.
Proof.
  unfold edit. destruct (addr_ok a && denom_ok c && uri_ok u && json_or_empty_or_dnm d && token_ok t) eqn:Hv; [|discriminate].
  intros _. apply andb_prop in Hv. destruct Hv as [Hv _]. apply andb_prop in Hv. destruct Hv as [Hv _].
  apply andb_prop in Hv. destruct Hv as [_ Hu]. exact Hu.
Qed.
Lemma transfer_uri s a c t n u h d r s' : transfer s a c t n u h d r = Some s' -> uri_ok u = true.
Proof.
  unfold transfer. destruct (denom_ok c && addr_ok a && addr_ok r && uri_ok u && json_or_empty_or_dnm d && token_ok t) eqn:Hv; [|discriminate].
  intros _. apply andb_prop in Hv. destruct Hv as [Hv _]. apply andb_prop in Hv. destruct Hv as [Hv _].
  apply andb_prop in Hv. destruct Hv as [_ Hu]. exact Hu.
Qed.

Lemma XInv_step s msg s' : XInv s -> exec_msg s msg = Some s' -> XInv s'.
Proof.
  intros (Hnd & Hcr & Huri) He.
  destruct msg as [a c0 mr ur d0 o0|a c0 t0 n u h d r|a c0 t0 n u h d|a c0 t0 n u h d r|a c0 t0|a c0 r]; simpl in He.
  - apply issue_ok in He. destruct He as (_ & Ha & _ & ->). unfold XInv. simpl.
    split; [apply keys_set_NoDup; exact Hnd|]. split; [|exact Huri].
    intros c cl. rewrite get_set. destruct (eq_dec c c0) as [_|_]; [|apply Hcr]. intros Heq. inversion Heq; subst. exact Ha.
  - pose proof (mint_uri _ _ _ _ _ _ _ _ _ _ He) as Hu.
    apply mint_ok in He. destruct He as (cl & _ & _ & _ & _ & _ & ->). unfold XInv. simpl.
    split; [exact Hnd|]. split; [exact Hcr|].
    intros k m. rewrite get_set. destruct (eq_dec k (c0, t0)) as [_|_]; [|apply Huri]. intros Heq. inversion Heq; subst. exact Hu.
  - pose proof (edit_uri _ _ _ _ _ _ _ _ _ He) as Hu.
    apply edit_ok in He. destruct He as (cl & _ & _ & _ & [[_ ->]|(m0 & Hm0 & ->)]); [repeat split; assumption|].
    unfold XInv. simpl. split; [exact Hnd|]. split; [exact Hcr|].
    intros k m. rewrite get_set. destruct (eq_dec k (c0, t0)) as [_|_]; [|apply Huri]. intros Heq. inversion Heq; subst.
    apply apply_changes_uri; [eapply Huri; exact Hm0|exact Hu].
  - pose proof (transfer_uri _ _ _ _ _ _ _ _ _ _ He) as Hu.
    apply transfer_ok in He. destruct He as (cl & m0 & _ & Hm0 & _ & _ & _ & [[_ ->]| ->]); [repeat split; assumption|].
    unfold XInv. simpl. split; [exact Hnd|]. split; [exact Hcr|].
    intros k m. rewrite get_set. destruct (eq_dec k (c0, t0)) as [_|_]; [|apply Huri]. intros Heq. inversion Heq; subst.
    apply apply_changes_uri; [eapply Huri; exact Hm0|exact Hu].
  - apply burn_ok in He. destruct He as (_ & _ & ->). unfold XInv. simpl.
    split; [exact Hnd|]. split; [exact Hcr|].
    intros k m. rewrite get_del. destruct (eq_dec k (c0, t0)); [discriminate|apply Huri].
  - apply handover_ok in He. destruct He as (cl & Hc & _ & Hr & ->). unfold XInv. simpl.
    split; [apply keys_set_NoDup; exact Hnd|]. split; [|exact Huri].
    intros c cl'. rewrite get_set. destruct (eq_dec c c0) as [_|_]; [|apply Hcr]. intros Heq. inversion Heq; subst.
    destruct cl as [[[[a0 m0] u0] d0] o0]. exact Hr.
Qed.

Lemma Reachable_XInv s : Reachable s -> XInv s.
Proof.
  intros [steps ->]. pose proof XInv_init as H0. revert H0. generalize init.
  induction steps as [|st rest IH]; intros s0 H0; simpl; [exact H0|].
  apply IH. destruct (next_cases s0 st) as [[-> _]|(msg & s' & _ & He & -> & _)]; [exact H0|].
  exact (XInv_step s0 msg s' H0 He).
Qed.

(** ** the facts, stated on the export view *)
Lemma in_nfts_of s c t a m : In (t, (a, m)) (nfts_of s c) -> In ((c, t), (a, m)) (obs_tokens s).
Proof.
  unfold nfts_of. intros Hin. apply in_map_iff in Hin. destruct Hin as ([[c0 t0] v] & Heq & Hin).
  apply filter_In in Hin. destruct Hin as [Hin Hc]. simpl in *. apply Z.eqb_eq in Hc. subst c0. inversion Heq; subst. exact Hin.
Qed.

Lemma nfts_of_ids s c : map fst (nfts_of s c) = map snd (filter (fun k : cid * tid => fst k =? c) (keys (nfts s))).
Proof.
  unfold nfts_of, obs_tokens, keys. induction (nfts s) as [|[[c0 t0] m] l IH]; simpl; [reflexivity|].
  destruct (c0 =? c); simpl; [f_equal|]; exact IH.
Qed.

Lemma NoDup_map_snd_filter (c : cid) (ks : list (cid * tid)) : NoDup ks ->
  NoDup (map snd (filter (fun k : cid * tid => fst k =? c) ks)).
Proof.
  intros Hnd. apply NoDup_map_inj; [|apply NoDup_filter; exact Hnd].
  intros [c1 t1] [c2 t2] H1 H2 Heq. apply filter_In in H1, H2. destruct H1 as [_ H1], H2 as [_ H2]. simpl in *.
  apply Z.eqb_eq in H1, H2. congruence.
Qed.

Theorem export_wellformed :
  forall s : state, Reachable s ->
    let cs := export_collections s in
    (* class ids pairwise distinct, NFT ids pairwise distinct within a class *)
    NoDup (map (fun c => fst (fst c)) cs)
    /\ (forall c, In c cs -> NoDup (map fst (snd c)))
    (* every class: id well-formed and not reserved, creator an address, supply = number of its NFTs *)
    /\ (forall c cl ts, In ((c, cl), ts) cs ->
          0 < c /\ 0 <= c_creator cl /\ total_supply s c = Z.of_nat (length ts) mod two64)
    (* every NFT: id well-formed, owner an address and the one the owner record and the owner index
       report, URI within the bound *)
    /\ (forall c cl ts t a m, In ((c, cl), ts) cs -> In (t, (a, m)) ts ->
          0 < t /\ 0 <= a /\ uri_ok (meta_uri m) = true
          /\ get (c, t) (nfts s) = Some m /\ get_owner s c t = Some a /\ In (a, c, t) (index s))
    (* no orphans: every stored NFT is exported under its class *)
    /\ (forall c t, get (c, t) (nfts s) <> None ->
          exists cl, In ((c, cl), nfts_of s c) cs /\ In t (map fst (nfts_of s c))).
Proof.
  intros s Hr. pose proof (Reachable_Inv s Hr) as HI. pose proof (Reachable_IdInv s Hr) as [Hidc Hidt].
  pose proof (Reachable_XInv s Hr) as (Hndc & Hcr & Huri).
  pose proof HI as ((_ & Hidx) & Hnd & Hiff & Hsup & _ & Hcls & Hrng).
  cbv zeta. unfold export_collections.
  split.
  { rewrite map_map. simpl. exact Hndc. }
  split.
  { intros c Hin. apply in_map_iff in Hin. destruct Hin as (c0 & <- & _). simpl.
    rewrite nfts_of_ids. apply NoDup_map_snd_filter. exact Hnd. }
  split.
  { intros c cl ts Hin. apply in_map_iff in Hin. destruct Hin as ([c0 cl0] & Heq & Hin). inversion Heq; subst. clear Heq.
    pose proof (In_get _ _ _ Hndc Hin) as Hg.
    split; [apply Hidc; congruence|]. split; [eapply Hcr; exact Hg|].
    simpl. rewrite Hsup. unfold n_tokens, count.
    rewrite <- (map_length fst (nfts_of s c)), nfts_of_ids, map_length. reflexivity. }
  split.
  { intros c cl ts t a m Hin Ht. apply in_map_iff in Hin. destruct Hin as ([c0 cl0] & Heq & Hin). inversion Heq; subst. clear Heq.
    simpl in Ht. apply in_nfts_of in Ht. destruct (in_obs_tokens s (c, t) a m HI Ht) as [Hm Ha].
    split; [apply (Hidt c t); congruence|]. split; [apply (Hrng (c, t)); exact Ha|].
    split; [eapply Huri; exact Hm|]. split; [exact Hm|]. split; [exact Ha|]. apply Hidx. exact Ha. }
  intros c t Hm. pose proof (Hcls c t Hm) as Hc.
  destruct (get c (classes s)) as [cl|] eqn:Hg; [|congruence].
  exists cl. split.
  - apply in_map_iff. exists (c, cl). split; [reflexivity|]. apply get_In. exact Hg.
  - rewrite nfts_of_ids. apply in_map_iff. exists (c, t). split; [reflexivity|].
    apply filter_In. split; [apply get_in_keys; exact Hm|]. simpl. apply Z.eqb_refl.
Qed.
Print Assumptions export_wellformed.

(** before the fix the URI clause was refutable: in the model WITHOUT the URI check in transfer
    (as the code was) the history issue; mint; transfer-with-over-long-URI reaches a state whose
    exported NFT has a URI that [ValidateTokenURI] rejects.  The history is kept in
    corpus/C14/seeds.jsonl; with the check the last step is rejected: *)
Example long_uri_transfer_rejected :
  let steps := [ Msg (IssueDenom 0 1 false false 0 [2; 0; 0; 0; 0; 0]); Msg (Mint 1 1 1 2 3 0 0 1);
                 Msg (Transfer 1 1 1 1 (-1) 1 1 2) ] in
  ok_at init steps 2 = false
  /\ export_collections (run init steps) = [((1, (0, false, false, 0, [2; 0; 0; 0; 0; 0])), [(1, (1, (2, 3, 0, 0)))])].
Proof. vm_compute. split; reflexivity. Qed.
