(** * NFT: lemmas and invariants behind Props/C14.v *)
From Irismod Require Import Nft.Model.

(** ** association lists *)
Section AMapMore.
  Context {K V : Type} `{EqDec K}.
  Implicit Types (m : amap K V) (k : K).

  Lemma has_true k m : has k m = true <-> get k m <> None.
  Proof. unfold has. destruct (get k m); split; intros; congruence. Qed.
  Lemma has_false k m : has k m = false <-> get k m = None.
  Proof. unfold has. destruct (get k m); split; intros; congruence. Qed.

  Lemma get_in_keys k m : get k m <> None <-> In k (keys m).
  Proof.
    induction m as [|[k0 v0] m IH]; simpl; [tauto|].
    destruct (eq_dec k k0) as [->|Hk].
    - split; intros; [left; reflexivity|discriminate].
    - rewrite IH. split; [tauto|]. intros [Heq|Hin]; [congruence|exact Hin].
  Qed.

  Lemma keys_set_present k v m : get k m <> None -> keys (set k v m) = keys m.
  Proof.
    induction m as [|[k0 v0] m IH]; simpl; [congruence|].
    destruct (eq_dec k k0) as [->|Hk]; simpl; [reflexivity|].
    intros Hg. f_equal. exact (IH Hg).
  Qed.

  Lemma keys_set_absent k v m : get k m = None -> keys (set k v m) = keys m ++ [k].
  Proof.
    induction m as [|[k0 v0] m IH]; simpl; [reflexivity|].
    destruct (eq_dec k k0) as [->|Hk]; simpl; [discriminate|].
    intros Hg. f_equal. exact (IH Hg).
  Qed.

  Lemma keys_del k m : keys (del k m) = filter (fun x => negb (eqb x k)) (keys m).
  Proof.
    induction m as [|[k0 v0] m IH]; simpl; [reflexivity|].
    destruct (eq_dec k k0) as [->|Hk]; simpl.
    - rewrite eqb_refl. simpl. exact IH.
    - assert (Hne : eqb k0 k = false) by (apply eqb_false_iff; congruence).
      rewrite Hne. simpl. f_equal. exact IH.
  Qed.

  Lemma get_set k k' v m : get k' (set k v m) = if eq_dec k' k then Some v else get k' m.
  Proof.
    destruct (eq_dec k' k) as [->|Hne]; [apply get_set_same|apply get_set_other; exact Hne].
  Qed.
  Lemma get_del k k' m : get k' (del k m) = if eq_dec k' k then None else get k' m.
  Proof.
    destruct (eq_dec k' k) as [->|Hne]; [apply get_del_same|apply get_del_other; exact Hne].
  Qed.
End AMapMore.

(** ** counting *)
Section Count.
  Context {A : Type} `{EqDec A}.
  Implicit Types (p : A -> bool) (l : list A).

  Definition b2z (b : bool) : Z := if b then 1 else 0.

  Lemma count_nil p : count p [] = 0. Proof. reflexivity. Qed.
  Lemma count_cons p x l : count p (x :: l) = b2z (p x) + count p l.
  Proof.
    unfold count, b2z. cbn [filter]. destruct (p x); [cbn [length]; rewrite Nat2Z.inj_succ|]; lia.
  Qed.
  Lemma count_app p l1 l2 : count p (l1 ++ l2) = count p l1 + count p l2.
  Proof.
    induction l1 as [|x l1 IH]; [rewrite count_nil; simpl; lia|].
    rewrite <- app_comm_cons, !count_cons, IH. lia.
  Qed.
  Lemma count_nonneg p l : 0 <= count p l.
  Proof. unfold count. lia. Qed.

  Lemma filter_neq_notin x l : ~ In x l -> filter (fun y => negb (eqb y x)) l = l.
  Proof.
    induction l as [|y l IH]; simpl; [reflexivity|]. intros Hn.
    assert (Hne : eqb y x = false) by (apply eqb_false_iff; intros ->; apply Hn; left; reflexivity).
    rewrite Hne. simpl. f_equal. apply IH. tauto.
  Qed.

  Lemma count_remove p x l : NoDup l -> In x l ->
    count p (filter (fun y => negb (eqb y x)) l) = count p l - b2z (p x).
  Proof.
    induction l as [|y l IH]; simpl; [tauto|]. intros Hnd Hin.
    inversion Hnd as [|? ? Hnotin Hnd']; subst.
    destruct (eq_dec y x) as [->|Hne].
    - rewrite eqb_refl. simpl. rewrite (filter_neq_notin x l Hnotin), count_cons. lia.
    - assert (Hf : eqb y x = false) by (apply eqb_false_iff; exact Hne).
      rewrite Hf. simpl. rewrite !count_cons, IH; [lia|exact Hnd'|]. destruct Hin; [congruence|assumption].
  Qed.

  Lemma in_filter_neq x y l : In y (filter (fun z => negb (eqb z x)) l) <-> In y l /\ y <> x.
  Proof.
    rewrite filter_In. split; intros [H1 H2]; split; auto.
    - intros ->. rewrite eqb_refl in H2. discriminate.
    - apply Bool.negb_true_iff, eqb_false_iff. exact H2.
  Qed.

  Lemma existsb_eqb_In x l : existsb (eqb x) l = true <-> In x l.
  Proof.
    rewrite existsb_exists. split.
    - intros [y [Hin Heq]]. apply (proj1 (eqb_true_iff x y)) in Heq. subst. exact Hin.
    - intros Hin. exists x. split; [exact Hin|apply eqb_refl].
  Qed.
End Count.

Lemma count_ext {A} (p q : A -> bool) l : (forall x, In x l -> p x = q x) -> count p l = count q l.
Proof.
  induction l as [|x l IH]; intros Hpq; [reflexivity|].
  rewrite !count_cons, IH, (Hpq x); [reflexivity|left; reflexivity|]. intros y Hy. apply Hpq. right. exact Hy.
Qed.

Lemma rejected_changes_nothing s st : ok s st = false -> next s st = s.
Proof. unfold ok, next. destruct (exec_step s st); [discriminate|reflexivity]. Qed.

(** ** the owner records and the owner index *)
Definition OwnInv (s : state) : Prop :=
  NoDup (index s)
  /\ (forall a c t, In (a, c, t) (index s) <-> get (c, t) (owners s) = Some a).

Definition cls_of (e : addr * cid * tid) : cid := let '(_, c, _) := e in c.
Lemma n_index_eq s c : n_index s c = count (fun e => cls_of e =? c) (index s).
Proof. unfold n_index. apply count_ext. intros [[a c'] t] _. reflexivity. Qed.

Lemma delete_owner_spec s c t o :
  OwnInv s -> get (c, t) (owners s) = Some o ->
  let s1 := delete_owner c t (Some o) s in
  OwnInv s1
  /\ get (c, t) (owners s1) = None
  /\ (forall k, k <> (c, t) -> get k (owners s1) = get k (owners s))
  /\ (forall c', n_index s1 c' = n_index s c' - b2z (c =? c'))
  /\ nfts s1 = nfts s /\ classes s1 = classes s /\ supply s1 = supply s.
Proof.
  intros [Hnd Hidx] Hget. cbv zeta. unfold delete_owner. simpl.
  assert (Hin : In (o, c, t) (index s)) by (apply Hidx; exact Hget).
  split; [split|].
  - simpl. unfold idx_del. apply NoDup_filter. exact Hnd.
  - intros a c' t'. simpl. unfold idx_del. rewrite in_filter_neq, Hidx, get_del.
    destruct (eq_dec (c', t') (c, t)) as [Heq|Hne].
    + inversion Heq; subst. split; [|discriminate]. intros [Hg Hn]. exfalso. apply Hn. congruence.
    + split; [tauto|]. intros Hg. split; [exact Hg|]. intros Heq. apply Hne. congruence.
  - split; [apply get_del_same|].
    split; [intros k Hk; apply get_del_other; exact Hk|].
    split; [|auto].
    intros c'. rewrite !n_index_eq. simpl. unfold idx_del.
    rewrite count_remove by assumption. simpl. rewrite Z.eqb_sym. reflexivity.
Qed.

Lemma NoDup_snoc {A} (x : A) l : NoDup l -> ~ In x l -> NoDup (l ++ [x]).
Proof.
  intros Hnd Hn. induction Hnd as [|y l Hy Hnd IH]; simpl.
  - constructor; [simpl; tauto|constructor].
  - constructor.
    + rewrite in_app_iff. simpl. intros [H1|[H2|[]]]; [contradiction|]. subst. apply Hn. left. reflexivity.
    + apply IH. intros Hin. apply Hn. right. exact Hin.
Qed.

Lemma set_owner_spec s c t a :
  OwnInv s -> get (c, t) (owners s) = None ->
  let s1 := set_owner c t a s in
  OwnInv s1
  /\ get (c, t) (owners s1) = Some a
  /\ (forall k, k <> (c, t) -> get k (owners s1) = get k (owners s))
  /\ (forall c', n_index s1 c' = n_index s c' + b2z (c =? c'))
  /\ nfts s1 = nfts s /\ classes s1 = classes s /\ supply s1 = supply s.
Proof.
  intros [Hnd Hidx] Hget. cbv zeta. unfold set_owner. simpl.
  assert (Hnin : ~ In (a, c, t) (index s)) by (intros Hin; apply Hidx in Hin; congruence).
  assert (Hadd : idx_add (a, c, t) (index s) = index s ++ [(a, c, t)]).
  { unfold idx_add. destruct (existsb (eqb (a, c, t)) (index s)) eqn:He; [|reflexivity].
    apply existsb_eqb_In in He. contradiction. }
  rewrite Hadd.
  split; [split|].
  - simpl. apply NoDup_snoc; assumption.
  - intros a' c' t'. simpl. rewrite in_app_iff, Hidx, get_set. simpl.
    destruct (eq_dec (c', t') (c, t)) as [Heq|Hne].
    + inversion Heq; subst. split.
      * intros [Hg|[He|[]]]; [congruence|]. inversion He; reflexivity.
      * intros Hs. inversion Hs; subst. right. left. reflexivity.
    + split.
      * intros [Hg|[He|[]]]; [exact Hg|]. inversion He; subst. exfalso. apply Hne. reflexivity.
      * intros Hg. left. exact Hg.
  - split; [apply get_set_same|].
    split; [intros k Hk; apply get_set_other; exact Hk|].
    split; [|auto].
    intros c'. rewrite !n_index_eq. simpl. rewrite count_app, count_cons, count_nil. simpl. lia.
Qed.

Lemma getz_set {K} `{EqDec K} (k k' : K) v (m : amap K Z) :
  getz k' (set k v m) = if eq_dec k' k then v else getz k' m.
Proof. unfold getz. rewrite get_set. destruct (eq_dec k' k); reflexivity. Qed.

(** ** the invariant of the x/nft stores *)
Definition Inv (s : state) : Prop :=
  OwnInv s
  /\ NoDup (keys (nfts s))
  /\ (forall k, get k (nfts s) <> None <-> get k (owners s) <> None)
  /\ (forall c, total_supply s c = n_tokens s c)
  /\ (forall c, n_index s c = n_tokens s c)
  /\ (forall c t, get (c, t) (nfts s) <> None -> get c (classes s) <> None)
  /\ (forall k a, get k (owners s) = Some a -> 0 <= a).

Lemma Inv_init : Inv init.
Proof.
  unfold Inv, OwnInv, init. simpl. repeat split; try constructor; try tauto; try discriminate; try congruence.
Qed.

Definition mint_state c t m a s :=
  let s2 := set_owner c t a (with_nfts s (set (c, t) m (nfts s))) in
  with_supply s2 (set c (total_supply s2 c + 1) (supply s2)).
Definition burn_state c t s :=
  let s2 := delete_owner c t (get_owner s c t) (with_nfts s (del (c, t) (nfts s))) in
  with_supply s2 (set c (udec (total_supply s2 c)) (supply s2)).
Definition transfer_state c t a s := set_owner c t a (delete_owner c t (get_owner s c t) s).

Lemma nk_mint_unfold c t m a s s' : nk_mint c t m a s = Some s' ->
  get c (classes s) <> None /\ get (c, t) (nfts s) = None /\ s' = mint_state c t m a s.
Proof.
  unfold nk_mint, has_class, has_nft. destruct (has c (classes s)) eqn:Hc; simpl; [|discriminate].
  destruct (has (c, t) (nfts s)) eqn:Ht; [discriminate|]. intros Heq. inversion Heq.
  apply has_true in Hc. apply has_false in Ht. auto.
Qed.
Lemma nk_burn_unfold c t s s' : nk_burn c t s = Some s' ->
  get c (classes s) <> None /\ get (c, t) (nfts s) <> None /\ s' = burn_state c t s.
Proof.
  unfold nk_burn, has_class, has_nft. destruct (has c (classes s)) eqn:Hc; simpl; [|discriminate].
  destruct (has (c, t) (nfts s)) eqn:Ht; simpl; [|discriminate]. intros Heq. inversion Heq.
  apply has_true in Hc. apply has_true in Ht. auto.
Qed.
Lemma nk_update_unfold c t m s s' : nk_update c t m s = Some s' ->
  get c (classes s) <> None /\ get (c, t) (nfts s) <> None /\ s' = with_nfts s (set (c, t) m (nfts s)).
Proof.
  unfold nk_update, has_class, has_nft. destruct (has c (classes s)) eqn:Hc; simpl; [|discriminate].
  destruct (has (c, t) (nfts s)) eqn:Ht; simpl; [|discriminate]. intros Heq. inversion Heq.
  apply has_true in Hc. apply has_true in Ht. auto.
Qed.
Lemma nk_transfer_unfold c t a s s' : nk_transfer c t a s = Some s' ->
  get c (classes s) <> None /\ get (c, t) (nfts s) <> None /\ s' = transfer_state c t a s.
Proof.
  unfold nk_transfer, has_class, has_nft. destruct (has c (classes s)) eqn:Hc; simpl; [|discriminate].
  destruct (has (c, t) (nfts s)) eqn:Ht; simpl; [|discriminate]. intros Heq. inversion Heq.
  apply has_true in Hc. apply has_true in Ht. auto.
Qed.

Lemma absent_iff {A B} (x : option A) (y : option B) : (x <> None <-> y <> None) -> x = None -> y = None.
Proof. destruct x, y; intros [H1 H2] Hx; try reflexivity; try discriminate. exfalso. apply H2; [discriminate|reflexivity]. Qed.
Lemma present_iff {A B} (x : option A) (y : option B) : (x <> None <-> y <> None) -> x <> None -> exists v, y = Some v.
Proof. destruct y as [v|]; intros [H1 _] Hx; [exists v; reflexivity|]. exfalso. apply (H1 Hx). reflexivity. Qed.

Lemma n_tokens_set_absent s k m c' :
  get k (nfts s) = None ->
  count (fun k0 : cid * tid => fst k0 =? c') (keys (set k m (nfts s))) = n_tokens s c' + b2z (fst k =? c').
Proof. intros Hg. rewrite keys_set_absent by exact Hg. rewrite count_app, count_cons, count_nil. unfold n_tokens. lia. Qed.

Lemma mint_inv c t m a s : Inv s -> 0 <= a -> get c (classes s) <> None -> get (c, t) (nfts s) = None ->
  Inv (mint_state c t m a s).
Proof.
  intros (HO & Hnd & Hiff & Hsup & Hidx & Hcls & Hrng) Ha Hc Ht.
  set (s1 := with_nfts s (set (c, t) m (nfts s))).
  assert (HO1 : OwnInv s1) by exact HO.
  assert (Hown : get (c, t) (owners s1) = None) by (apply (absent_iff _ _ (Hiff (c, t))); exact Ht).
  destruct (set_owner_spec s1 c t a HO1 Hown) as (HO2 & Hg2 & Hf2 & Hn2 & Hnf2 & Hcl2 & Hsp2).
  unfold mint_state. fold s1. set (s2 := set_owner c t a s1) in *. clearbody s2.
  unfold Inv. simpl.
  split; [exact HO2|].
  split; [rewrite Hnf2; simpl; apply keys_set_NoDup; exact Hnd|].
  split.
  { intros k. rewrite Hnf2. simpl. rewrite get_set. destruct (eq_dec k (c, t)) as [->|Hne].
    - rewrite Hg2. split; discriminate.
    - rewrite (Hf2 k Hne). apply Hiff. }
  split.
  { intros c'. unfold total_supply, n_tokens. simpl. rewrite getz_set, Hnf2, Hsp2. simpl.
    rewrite n_tokens_set_absent by exact Ht. simpl. fold (total_supply s c'). fold (total_supply s c).
    destruct (eq_dec c' c) as [->|Hne].
    - rewrite Z.eqb_refl, Hsup. simpl. lia.
    - assert (Hf : c =? c' = false) by (apply Z.eqb_neq; congruence). rewrite Hf, Hsup. simpl. lia. }
  split.
  { intros c'. unfold n_tokens. cbn [nfts with_supply]. rewrite Hnf2. simpl. rewrite n_tokens_set_absent by exact Ht.
    change (n_index (with_supply s2 (set c (total_supply s2 c + 1) (supply s2))) c') with (n_index s2 c').
    rewrite Hn2. change (n_index s1 c') with (n_index s c'). rewrite Hidx. simpl. lia. }
  split.
  { intros c' t'. rewrite Hnf2, Hcl2. simpl. rewrite get_set. destruct (eq_dec (c', t') (c, t)) as [Heq|Hne].
    - inversion Heq; subst. intros _. exact Hc.
    - apply Hcls. }
  intros k a'. destruct (eq_dec k (c, t)) as [->|Hne].
  - rewrite Hg2. intros Heq. inversion Heq; subst. exact Ha.
  - rewrite (Hf2 k Hne). apply Hrng.
Qed.

Lemma burn_inv c t s : Inv s -> get (c, t) (nfts s) <> None -> Inv (burn_state c t s).
Proof.
  intros (HO & Hnd & Hiff & Hsup & Hidx & Hcls & Hrng) Ht.
  destruct (present_iff _ _ (Hiff (c, t)) Ht) as [o Ho].
  set (s1 := with_nfts s (del (c, t) (nfts s))).
  assert (HO1 : OwnInv s1) by exact HO.
  assert (Ho1 : get (c, t) (owners s1) = Some o) by exact Ho.
  destruct (delete_owner_spec s1 c t o HO1 Ho1) as (HO2 & Hg2 & Hf2 & Hn2 & Hnf2 & Hcl2 & Hsp2).
  unfold burn_state. unfold get_owner. rewrite Ho. fold s1.
  set (s2 := delete_owner c t (Some o) s1) in *. clearbody s2.
  assert (Hin : In (c, t) (keys (nfts s))) by (apply get_in_keys; exact Ht).
  assert (Hcnt : forall c', count (fun k0 : cid * tid => fst k0 =? c') (keys (del (c, t) (nfts s))) = n_tokens s c' - b2z (c =? c')).
  { intros c'. rewrite keys_del. unfold n_tokens. rewrite count_remove by assumption. reflexivity. }
  unfold Inv. simpl.
  split; [exact HO2|].
  split; [rewrite Hnf2; simpl; rewrite keys_del; apply NoDup_filter; exact Hnd|].
  split.
  { intros k. rewrite Hnf2. simpl. rewrite get_del. destruct (eq_dec k (c, t)) as [->|Hne].
    - rewrite Hg2. tauto.
    - rewrite (Hf2 k Hne). apply Hiff. }
  split.
  { intros c'. unfold total_supply, n_tokens. simpl. rewrite getz_set, Hnf2, Hsp2. simpl.
    rewrite Hcnt. fold (total_supply s c'). fold (total_supply s c).
    destruct (eq_dec c' c) as [->|Hne].
    - rewrite Z.eqb_refl, Hsup. simpl.
      pose proof (count_nonneg (fun k0 : cid * tid => fst k0 =? c) (keys (del (c, t) (nfts s)))) as Hnn.
      rewrite Hcnt, Z.eqb_refl in Hnn. simpl in Hnn. unfold udec.
      destruct (n_tokens s c =? 0) eqn:Hz; [apply Z.eqb_eq in Hz; lia|lia].
    - assert (Hf : c =? c' = false) by (apply Z.eqb_neq; congruence). rewrite Hf, Hsup. simpl. lia. }
  split.
  { intros c'. unfold n_tokens. cbn [nfts with_supply]. rewrite Hnf2. simpl. rewrite Hcnt.
    change (n_index (with_supply s2 (set c (udec (total_supply s2 c)) (supply s2))) c') with (n_index s2 c').
    rewrite Hn2. change (n_index s1 c') with (n_index s c'). rewrite Hidx. reflexivity. }
  split.
  { intros c' t'. rewrite Hnf2, Hcl2. simpl. rewrite get_del. destruct (eq_dec (c', t') (c, t)) as [Heq|Hne].
    - congruence.
    - apply Hcls. }
  intros k a'. destruct (eq_dec k (c, t)) as [->|Hne].
  - rewrite Hg2. discriminate.
  - rewrite (Hf2 k Hne). apply Hrng.
Qed.

Lemma transfer_inv c t a s : Inv s -> 0 <= a -> get (c, t) (nfts s) <> None -> Inv (transfer_state c t a s).
Proof.
  intros (HO & Hnd & Hiff & Hsup & Hidx & Hcls & Hrng) Ha Ht.
  destruct (present_iff _ _ (Hiff (c, t)) Ht) as [o Ho].
  destruct (delete_owner_spec s c t o HO Ho) as (HO1 & Hg1 & Hf1 & Hn1 & Hnf1 & Hcl1 & Hsp1).
  unfold transfer_state, get_owner. rewrite Ho.
  set (s1 := delete_owner c t (Some o) s) in *. clearbody s1.
  destruct (set_owner_spec s1 c t a HO1 Hg1) as (HO2 & Hg2 & Hf2 & Hn2 & Hnf2 & Hcl2 & Hsp2).
  set (s2 := set_owner c t a s1) in *. clearbody s2.
  unfold Inv.
  split; [exact HO2|].
  split; [rewrite Hnf2, Hnf1; exact Hnd|].
  split.
  { intros k. rewrite Hnf2, Hnf1. destruct (eq_dec k (c, t)) as [->|Hne].
    - rewrite Hg2. split; [discriminate|]. intros _. exact Ht.
    - rewrite (Hf2 k Hne), (Hf1 k Hne). apply Hiff. }
  split.
  { intros c'. unfold total_supply, n_tokens. rewrite Hsp2, Hsp1, Hnf2, Hnf1. apply Hsup. }
  split.
  { intros c'. rewrite Hn2, Hn1. unfold n_tokens. rewrite Hnf2, Hnf1. fold (n_tokens s c'). rewrite Hidx. lia. }
  split.
  { intros c' t'. rewrite Hnf2, Hnf1, Hcl2, Hcl1. apply Hcls. }
  intros k a'. destruct (eq_dec k (c, t)) as [->|Hne].
  - rewrite Hg2. intros Heq. inversion Heq; subst. exact Ha.
  - rewrite (Hf2 k Hne), (Hf1 k Hne). apply Hrng.
Qed.

Lemma update_inv c t m s : Inv s -> get (c, t) (nfts s) <> None -> Inv (with_nfts s (set (c, t) m (nfts s))).
Proof.
  intros (HO & Hnd & Hiff & Hsup & Hidx & Hcls & Hrng) Ht.
  unfold Inv. simpl.
  split; [exact HO|].
  split; [apply keys_set_NoDup; exact Hnd|].
  split.
  { intros k. rewrite get_set. destruct (eq_dec k (c, t)) as [->|Hne]; [|apply Hiff].
    split; [|discriminate]. intros _. apply Hiff. exact Ht. }
  split; [intros c'; unfold total_supply, n_tokens; simpl; rewrite keys_set_present by exact Ht; apply Hsup|].
  split; [intros c'; unfold n_tokens; simpl; rewrite keys_set_present by exact Ht; apply Hidx|].
  split; [|exact Hrng].
  intros c' t'. rewrite get_set. destruct (eq_dec (c', t') (c, t)) as [Heq|Hne]; [|apply Hcls].
  inversion Heq; subst. intros _. apply (Hcls c t). exact Ht.
Qed.

Lemma class_inv c cl s : Inv s -> Inv (with_classes s (set c cl (classes s))).
Proof.
  intros (HO & Hnd & Hiff & Hsup & Hidx & Hcls & Hrng).
  unfold Inv. simpl. repeat (split; [assumption|]). split; [|exact Hrng].
  intros c' t' Hg. rewrite get_set. destruct (eq_dec c' c); [discriminate|]. apply (Hcls c' t'). exact Hg.
Qed.

(** ** what a successful message did *)
Lemma authorize_spec s c t a : authorize s c t a = true <-> get (c, t) (owners s) = Some a.
Proof.
  unfold authorize, get_owner. destruct (get (c, t) (owners s)) as [o|]; [|split; discriminate].
  rewrite Z.eqb_eq. split; congruence.
Qed.

Lemma addr_ok_spec a : addr_ok a = true <-> 0 <= a.
Proof. unfold addr_ok. apply Z.leb_le. Qed.

Ltac split_andb H :=
  repeat match type of H with
         | _ && _ = true => let H1 := fresh "Hv" in apply andb_prop in H; destruct H as [H H1]
         end;
  repeat match goal with Ha : addr_ok _ = true |- _ => apply addr_ok_spec in Ha end.

Lemma issue_ok s a c mr ur d o s' : issue_denom s a c mr ur d o = Some s' ->
  0 < c /\ 0 <= a /\ get c (classes s) = None /\ s' = with_classes s (set c (a, mr, ur, d, o) (classes s)).
Proof.
  unfold issue_denom. destruct ((0 <? c) && addr_ok a && json_or_empty d) eqn:Hv; [|discriminate].
  split_andb Hv. unfold nk_save_class, has_class. destruct (has c (classes s)) eqn:Hc; [discriminate|].
  intros Heq. inversion Heq. apply has_false in Hc. apply Z.ltb_lt in Hv. auto.
Qed.

Lemma mint_ok s a c t n u h d r s' : mint s a c t n u h d r = Some s' ->
  exists cl, get c (classes s) = Some cl /\ (c_mintr cl = true -> c_creator cl = a)
             /\ get (c, t) (nfts s) = None /\ 0 <= a /\ 0 <= r /\ s' = mint_state c t (n, u, h, d) r s.
Proof.
  unfold mint. destruct (addr_ok a && addr_ok r && denom_ok c && uri_ok u && json_or_empty d && token_ok t) eqn:Hv; [|discriminate].
  split_andb Hv. destruct (get c (classes s)) as [cl|] eqn:Hc; [|discriminate].
  destruct (c_mintr cl && negb (c_creator cl =? a)) eqn:Hm; [discriminate|].
  intros Hk. apply nk_mint_unfold in Hk. destruct Hk as (_ & Ht & ->).
  exists cl. split; [reflexivity|]. split.
  { intros Hr. rewrite Hr in Hm. simpl in Hm. apply Bool.negb_false_iff, Z.eqb_eq in Hm. exact Hm. }
  auto.
Qed.

Lemma apply_nochange m n u h d : changes n u h d = false -> apply_changes m n u h d = m.
Proof.
  unfold changes, modified, apply_changes, modify. destruct m as [[[n0 u0] h0] d0]. intros Hc.
  apply Bool.orb_false_iff in Hc. destruct Hc as [Hc Hd].
  apply Bool.orb_false_iff in Hc. destruct Hc as [Hc Hn].
  apply Bool.orb_false_iff in Hc. destruct Hc as [Hu Hh].
  apply Bool.negb_false_iff in Hu, Hh, Hn, Hd. rewrite Hu, Hh, Hn, Hd. reflexivity.
Qed.

Lemma edit_ok s a c t n u h d s' : edit s a c t n u h d = Some s' ->
  exists cl, get c (classes s) = Some cl /\ c_updr cl = false /\ get (c, t) (owners s) = Some a
    /\ ((changes n u h d = false /\ s' = s)
        \/ (exists m, get (c, t) (nfts s) = Some m
                      /\ s' = with_nfts s (set (c, t) (apply_changes m n u h d) (nfts s)))).
Proof.
  unfold edit. destruct (addr_ok a && denom_ok c && uri_ok u && json_or_empty_or_dnm d && token_ok t) eqn:Hv; [|discriminate].
  destruct (get c (classes s)) as [cl|] eqn:Hc; [|discriminate].
  destruct (c_updr cl) eqn:Hu; [discriminate|].
  destruct (authorize s c t a) eqn:Ha; simpl; [|discriminate]. apply authorize_spec in Ha.
  destruct (changes n u h d) eqn:Hch; simpl.
  - destruct (get (c, t) (nfts s)) as [m|] eqn:Hm; [|discriminate].
    intros Hk. apply nk_update_unfold in Hk. destruct Hk as (_ & _ & ->).
    exists cl. repeat split; auto. right. exists m. auto.
  - intros Heq. inversion Heq; subst. exists cl. repeat split; auto.
Qed.

Lemma transfer_ok s a c t n u h d r s' : transfer s a c t n u h d r = Some s' ->
  exists cl m, get c (classes s) = Some cl /\ get (c, t) (nfts s) = Some m /\ get (c, t) (owners s) = Some a
    /\ 0 <= r /\ (c_updr cl = true -> changes n u h d = false)
    /\ ((changes n u h d = false /\ s' = transfer_state c t r s)
        \/ (s' = transfer_state c t r (with_nfts s (set (c, t) (apply_changes m n u h d) (nfts s))))).
Proof.
  unfold transfer. destruct (denom_ok c && addr_ok a && addr_ok r && json_or_empty_or_dnm d && token_ok t) eqn:Hv; [|discriminate].
  split_andb Hv.
  destruct (get (c, t) (nfts s)) as [m|] eqn:Hm; [|discriminate].
  destruct (authorize s c t a) eqn:Ha; simpl; [|discriminate]. apply authorize_spec in Ha.
  destruct (get c (classes s)) as [cl|] eqn:Hc; [|discriminate].
  destruct (c_updr cl && changes n u h d) eqn:Hr; [discriminate|].
  assert (Hupd : c_updr cl = true -> changes n u h d = false) by (intros Hu; rewrite Hu in Hr; exact Hr).
  destruct (changes n u h d) eqn:Hch; simpl.
  - destruct (nk_update c t (apply_changes m n u h d) s) as [s1|] eqn:Hk; [|discriminate].
    apply nk_update_unfold in Hk. destruct Hk as (_ & _ & ->).
    intros Hk. apply nk_transfer_unfold in Hk. destruct Hk as (_ & _ & ->).
    exists cl, m. repeat split; auto.
  - intros Hk. apply nk_transfer_unfold in Hk. destruct Hk as (_ & _ & ->).
    exists cl, m. repeat split; auto.
Qed.

Lemma burn_ok s a c t s' : burn s a c t = Some s' ->
  get (c, t) (owners s) = Some a /\ get (c, t) (nfts s) <> None /\ s' = burn_state c t s.
Proof.
  unfold burn. destruct (addr_ok a && denom_ok c && token_ok t); [|discriminate].
  destruct (authorize s c t a) eqn:Ha; [|discriminate]. apply authorize_spec in Ha.
  intros Hk. apply nk_burn_unfold in Hk. destruct Hk as (_ & Ht & ->). auto.
Qed.

Lemma handover_ok s a c r s' : transfer_denom s a c r = Some s' ->
  exists cl, get c (classes s) = Some cl /\ c_creator cl = a /\ 0 <= r
             /\ s' = with_classes s (set c (c_with_creator cl r) (classes s)).
Proof.
  unfold transfer_denom. destruct (addr_ok a && addr_ok r && denom_ok c) eqn:Hv; [|discriminate].
  split_andb Hv.
  destruct (get c (classes s)) as [cl|] eqn:Hc; [|discriminate].
  destruct (c_creator cl =? a) eqn:Ha; [|discriminate]. apply Z.eqb_eq in Ha.
  unfold nk_update_class, has_class, has. rewrite Hc. intros Heq. inversion Heq. exists cl. auto.
Qed.

(** ** the invariant is preserved *)
Lemma exec_msg_inv s msg s' : Inv s -> exec_msg s msg = Some s' -> Inv s'.
Proof.
  intros HI. destruct msg as [a c mr ur d o|a c t n u h d r|a c t n u h d|a c t n u h d r|a c t|a c r]; simpl; intros He.
  - apply issue_ok in He. destruct He as (_ & _ & _ & ->). apply class_inv. exact HI.
  - apply mint_ok in He. destruct He as (cl & Hc & _ & Ht & _ & Hr & ->).
    apply mint_inv; auto. congruence.
  - apply edit_ok in He. destruct He as (cl & Hc & _ & Ho & [[_ ->]|(m & Hm & ->)]); [exact HI|].
    apply update_inv; [exact HI|congruence].
  - apply transfer_ok in He. destruct He as (cl & m & Hc & Hm & Ho & Hr & _ & [[_ ->]| ->]).
    + apply transfer_inv; auto. congruence.
    + apply transfer_inv; auto.
      * apply update_inv; [exact HI|congruence].
      * simpl. rewrite get_set_same. discriminate.
  - apply burn_ok in He. destruct He as (_ & Ht & ->). apply burn_inv; assumption.
  - apply handover_ok in He. destruct He as (cl & _ & _ & _ & ->). apply class_inv. exact HI.
Qed.

Lemma step_inv s st : Inv s -> Inv (next s st).
Proof.
  intros HI. unfold next. destruct st as [m|]; simpl; [|exact HI].
  destruct (exec_msg s m) as [s'|] eqn:He; [|exact HI]. exact (exec_msg_inv s m s' HI He).
Qed.

Lemma run_inv steps : forall s, Inv s -> Inv (run s steps).
Proof. induction steps as [|st rest IH]; intros s HI; simpl; [exact HI|]. apply IH, step_inv, HI. Qed.

Definition Reachable (s : state) : Prop := exists steps, s = run init steps.
Lemma Reachable_Inv s : Reachable s -> Inv s.
Proof. intros [steps ->]. apply run_inv, Inv_init. Qed.
