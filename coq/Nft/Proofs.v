(** * NFT: lemmas and invariants behind Props/C14.v *)
From Irismod Require Import Nft.Model.

(** ** association lists *)
Section AMapMore.
  Context {K V : Type} `{EqDec K}.
  Implicit Types (m : amap K V) (k : K).

  Lemma has_true k m : has k m = true <-> get k m <> None.
  Proof. unfold has. destruct (get k m); split; intros; congruence. Qed.
  Lemma has_false k m : has k m = false <-> get k m = None.
  Proof. unfold has. destruct (get k m); split; intros; congruence. Qed.

  Lemma get_in_keys k m : get k m <> None <-> In k (keys m).
  Proof.
    induction m as [|[k0 v0] m IH]; simpl; [tauto|].
    destruct (eq_dec k k0) as [->|Hk].
    - split; intros; [left; reflexivity|discriminate].
    - rewrite IH. split; [tauto|]. intros [Heq|Hin]; [congruence|exact Hin].
  Qed.

  Lemma keys_set_present k v m : get k m <> None -> keys (set k v m) = keys m.
  Proof.
    induction m as [|[k0 v0] m IH]; simpl; [congruence|].
    destruct (eq_dec k k0) as [->|Hk]; simpl; [reflexivity|].
    intros Hg. f_equal. exact (IH Hg).
  Qed.

  Lemma keys_set_absent k v m : get k m = None -> keys (set k v m) = keys m ++ [k].
  Proof.
    induction m as [|[k0 v0] m IH]; simpl; [reflexivity|].
    destruct (eq_dec k k0) as [->|Hk]; simpl; [discriminate|].
    intros Hg. f_equal. exact (IH Hg).
  Qed.

  Lemma keys_del k m : keys (del k m) = filter (fun x => negb (eqb x k)) (keys m).
  Proof.
    induction m as [|[k0 v0] m IH]; simpl; [reflexivity|].
    destruct (eq_dec k k0) as [->|Hk]; simpl.
    - rewrite eqb_refl. simpl. exact IH.
    - assert (Hne : eqb k0 k = false) by (apply eqb_false_iff; congruence).
      rewrite Hne. simpl. f_equal. exact IH.
  Qed.

  Lemma get_set k k' v m : get k' (set k v m) = if eq_dec k' k then Some v else get k' m.
  Proof.
    destruct (eq_dec k' k) as [->|Hne]; [apply get_set_same|apply get_set_other; exact Hne].
  Qed.
  Lemma get_del k k' m : get k' (del k m) = if eq_dec k' k then None else get k' m.
  Proof.
    destruct (eq_dec k' k) as [->|Hne]; [apply get_del_same|apply get_del_other; exact Hne].
  Qed.
End AMapMore.

(** ** counting *)
Section Count.
  Context {A : Type} `{EqDec A}.
  Implicit Types (p : A -> bool) (l : list A).

  Definition b2z (b : bool) : Z := if b then 1 else 0.

  Lemma count_nil p : count p [] = 0. Proof. reflexivity. Qed.
  Lemma count_cons p x l : count p (x :: l) = b2z (p x) + count p l.
  Proof.
    unfold count, b2z. cbn [filter]. destruct (p x); [cbn [length]; rewrite Nat2Z.inj_succ|]; lia.
  Qed.
  Lemma count_app p l1 l2 : count p (l1 ++ l2) = count p l1 + count p l2.
  Proof.
    induction l1 as [|x l1 IH]; [rewrite count_nil; simpl; lia|].
    rewrite <- app_comm_cons, !count_cons, IH. lia.
  Qed.
  Lemma count_nonneg p l : 0 <= count p l.
  Proof. unfold count. lia. Qed.

  Lemma filter_neq_notin x l : ~ In x l -> filter (fun y => negb (eqb y x)) l = l.
  Proof.
    induction l as [|y l IH]; simpl; [reflexivity|]. intros Hn.
    assert (Hne : eqb y x = false) by (apply eqb_false_iff; intros ->; apply Hn; left; reflexivity).
    rewrite Hne. simpl. f_equal. apply IH. tauto.
  Qed.

  Lemma count_remove p x l : NoDup l -> In x l ->
    count p (filter (fun y => negb (eqb y x)) l) = count p l - b2z (p x).
  Proof.
    induction l as [|y l IH]; simpl; [tauto|]. intros Hnd Hin.
    inversion Hnd as [|? ? Hnotin Hnd']; subst.
    destruct (eq_dec y x) as [->|Hne].
    - rewrite eqb_refl. simpl. rewrite (filter_neq_notin x l Hnotin), count_cons. lia.
    - assert (Hf : eqb y x = false) by (apply eqb_false_iff; exact Hne).
      rewrite Hf. simpl. rewrite !count_cons, IH; [lia|exact Hnd'|]. destruct Hin; [congruence|assumption].
  Qed.

  Lemma in_filter_neq x y l : In y (filter (fun z => negb (eqb z x)) l) <-> In y l /\ y <> x.
  Proof.
    rewrite filter_In. split; intros [H1 H2]; split; auto.
    - intros ->. rewrite eqb_refl in H2. discriminate.
    - apply Bool.negb_true_iff, eqb_false_iff. exact H2.
  Qed.

  Lemma existsb_eqb_In x l : existsb (eqb x) l = true <-> In x l.
  Proof.
    rewrite existsb_exists. split.
    - intros [y [Hin Heq]]. apply (proj1 (eqb_true_iff x y)) in Heq. subst. exact Hin.
    - intros Hin. exists x. split; [exact Hin|apply eqb_refl].
  Qed.
End Count.

Lemma count_ext {A} (p q : A -> bool) l : (forall x, In x l -> p x = q x) -> count p l = count q l.
Proof.
  induction l as [|x l IH]; intros Hpq; [reflexivity|].
  rewrite !count_cons, IH, (Hpq x); [reflexivity|left; reflexivity|]. intros y Hy. apply Hpq. right. exact Hy.
Qed.

Lemma rejected_changes_nothing s st : ok s st = false -> next s st = s.
Proof. unfold ok, next. destruct (exec_step s st); [discriminate|reflexivity]. Qed.

(** ** the owner records and the owner index *)
Definition OwnInv (s : state) : Prop :=
  NoDup (index s)
  /\ (forall a c t, In (a, c, t) (index s) <-> get (c, t) (owners s) = Some a).

Definition cls_of (e : addr * cid * tid) : cid := let '(_, c, _) := e in c.
Lemma n_index_eq s c : n_index s c = count (fun e => cls_of e =? c) (index s).
Proof. unfold n_index. apply count_ext. intros [[a c'] t] _. reflexivity. Qed.

Lemma delete_owner_spec s c t o :
  OwnInv s -> get (c, t) (owners s) = Some o ->
  let s1 := delete_owner c t (Some o) s in
  OwnInv s1
  /\ get (c, t) (owners s1) = None
  /\ (forall k, k <> (c, t) -> get k (owners s1) = get k (owners s))
  /\ (forall c', n_index s1 c' = n_index s c' - b2z (c =? c'))
  /\ nfts s1 = nfts s /\ classes s1 = classes s /\ supply s1 = supply s.
Proof.
  intros [Hnd Hidx] Hget. cbv zeta. unfold delete_owner. simpl.
  assert (Hin : In (o, c, t) (index s)) by (apply Hidx; exact Hget).
  split; [split|].
  - simpl. unfold idx_del. apply NoDup_filter. exact Hnd.
  - intros a c' t'. simpl. unfold idx_del. rewrite in_filter_neq, Hidx, get_del.
    destruct (eq_dec (c', t') (c, t)) as [Heq|Hne].
    + inversion Heq; subst. split; [|discriminate]. intros [Hg Hn]. exfalso. apply Hn. congruence.
    + split; [tauto|]. intros Hg. split; [exact Hg|]. intros Heq. apply Hne. congruence.
  - split; [apply get_del_same|].
    split; [intros k Hk; apply get_del_other; exact Hk|].
    split; [|auto].
    intros c'. rewrite !n_index_eq. simpl. unfold idx_del.
    rewrite count_remove by assumption. simpl. rewrite Z.eqb_sym. reflexivity.
Qed.

Lemma NoDup_snoc {A} (x : A) l : NoDup l -> ~ In x l -> NoDup (l ++ [x]).
Proof.
  intros Hnd Hn. induction Hnd as [|y l Hy Hnd IH]; simpl.
  - constructor; [simpl; tauto|constructor].
  - constructor.
    + rewrite in_app_iff. simpl. intros [H1|[H2|[]]]; [contradiction|]. subst. apply Hn. left. reflexivity.
    + apply IH. intros Hin. apply Hn. right. exact Hin.
Qed.

Lemma set_owner_spec s c t a :
  OwnInv s -> get (c, t) (owners s) = None ->
  let s1 := set_owner c t a s in
  OwnInv s1
  /\ get (c, t) (owners s1) = Some a
  /\ (forall k, k <> (c, t) -> get k (owners s1) = get k (owners s))
  /\ (forall c', n_index s1 c' = n_index s c' + b2z (c =? c'))
  /\ nfts s1 = nfts s /\ classes s1 = classes s /\ supply s1 = supply s.
Proof.
  intros [Hnd Hidx] Hget. cbv zeta. unfold set_owner. simpl.
  assert (Hnin : ~ In (a, c, t) (index s)) by (intros Hin; apply Hidx in Hin; congruence).
  assert (Hadd : idx_add (a, c, t) (index s) = index s ++ [(a, c, t)]).
  { unfold idx_add. destruct (existsb (eqb (a, c, t)) (index s)) eqn:He; [|reflexivity].
    apply existsb_eqb_In in He. contradiction. }
  rewrite Hadd.
  split; [split|].
  - simpl. apply NoDup_snoc; assumption.
  - intros a' c' t'. simpl. rewrite in_app_iff, Hidx, get_set. simpl.
    destruct (eq_dec (c', t') (c, t)) as [Heq|Hne].
    + inversion Heq; subst. split.
      * intros [Hg|[He|[]]]; [congruence|]. inversion He; reflexivity.
      * intros Hs. inversion Hs; subst. right. left. reflexivity.
    + split.
      * intros [Hg|[He|[]]]; [exact Hg|]. inversion He; subst. exfalso. apply Hne. reflexivity.
      * intros Hg. left. exact Hg.
  - split; [apply get_set_same|].
    split; [intros k Hk; apply get_set_other; exact Hk|].
    split; [|auto].
    intros c'. rewrite !n_index_eq. simpl. rewrite count_app, count_cons, count_nil. simpl. lia.
Qed.

Lemma getz_set {K} `{EqDec K} (k k' : K) v (m : amap K Z) :
  getz k' (set k v m) = if eq_dec k' k then v else getz k' m.
Proof. unfold getz. rewrite get_set. destruct (eq_dec k' k); reflexivity. Qed.

(** ** the invariant of the x/nft stores *)
Definition Inv (s : state) : Prop :=
  OwnInv s
  /\ NoDup (keys (nfts s))
  /\ (forall k, get k (nfts s) <> None <-> get k (owners s) <> None)
  /\ (forall c, total_supply s c = n_tokens s c mod two64)
  /\ (forall c, n_index s c = n_tokens s c)
  /\ (forall c t, get (c, t) (nfts s) <> None -> get c (classes s) <> None)
  /\ (forall k a, get k (owners s) = Some a -> 0 <= a).

Lemma Inv_init : Inv init.
Proof.
  unfold Inv, OwnInv, init. simpl. repeat split; try constructor; try tauto; try discriminate; try congruence.
Qed.

Definition mint_state c t m a s :=
  let s2 := set_owner c t a (with_nfts s (set (c, t) m (nfts s))) in
  with_supply s2 (set c (uinc (total_supply s2 c)) (supply s2)).
Definition burn_state c t s :=
  let s2 := delete_owner c t (get_owner s c t) (with_nfts s (del (c, t) (nfts s))) in
  with_supply s2 (set c (udec (total_supply s2 c)) (supply s2)).
Definition transfer_state c t a s := set_owner c t a (delete_owner c t (get_owner s c t) s).

Lemma nk_mint_unfold c t m a s s' : nk_mint c t m a s = Some s' ->
  get c (classes s) <> None /\ get (c, t) (nfts s) = None /\ s' = mint_state c t m a s.
Proof.
  unfold nk_mint, has_class, has_nft. destruct (has c (classes s)) eqn:Hc; simpl; [|discriminate].
  destruct (has (c, t) (nfts s)) eqn:Ht; [discriminate|]. intros Heq. inversion Heq.
  apply has_true in Hc. apply has_false in Ht. auto.
Qed.
Lemma nk_burn_unfold c t s s' : nk_burn c t s = Some s' ->
  get c (classes s) <> None /\ get (c, t) (nfts s) <> None /\ s' = burn_state c t s.
Proof.
  unfold nk_burn, has_class, has_nft. destruct (has c (classes s)) eqn:Hc; simpl; [|discriminate].
  destruct (has (c, t) (nfts s)) eqn:Ht; simpl; [|discriminate]. intros Heq. inversion Heq.
  apply has_true in Hc. apply has_true in Ht. auto.
Qed.
Lemma nk_update_unfold c t m s s' : nk_update c t m s = Some s' ->
  get c (classes s) <> None /\ get (c, t) (nfts s) <> None /\ s' = with_nfts s (set (c, t) m (nfts s)).
Proof.
  unfold nk_update, has_class, has_nft. destruct (has c (classes s)) eqn:Hc; simpl; [|discriminate].
  destruct (has (c, t) (nfts s)) eqn:Ht; simpl; [|discriminate]. intros Heq. inversion Heq.
  apply has_true in Hc. apply has_true in Ht. auto.
Qed.
Lemma nk_transfer_unfold c t a s s' : nk_transfer c t a s = Some s' ->
  get c (classes s) <> None /\ get (c, t) (nfts s) <> None /\ s' = transfer_state c t a s.
Proof.
  unfold nk_transfer, has_class, has_nft. destruct (has c (classes s)) eqn:Hc; simpl; [|discriminate].
  destruct (has (c, t) (nfts s)) eqn:Ht; simpl; [|discriminate]. intros Heq. inversion Heq.
  apply has_true in Hc. apply has_true in Ht. auto.
Qed.

Lemma absent_iff {A B} (x : option A) (y : option B) : (x <> None <-> y <> None) -> x = None -> y = None.
Proof. destruct x, y; intros [H1 H2] Hx; try reflexivity; try discriminate. exfalso. apply H2; [discriminate|reflexivity]. Qed.
Lemma present_iff {A B} (x : option A) (y : option B) : (x <> None <-> y <> None) -> x <> None -> exists v, y = Some v.
Proof. destruct y as [v|]; intros [H1 _] Hx; [exists v; reflexivity|]. exfalso. apply (H1 Hx). reflexivity. Qed.

Lemma n_tokens_set_absent s k m c' :
  get k (nfts s) = None ->
  count (fun k0 : cid * tid => fst k0 =? c') (keys (set k m (nfts s))) = n_tokens s c' + b2z (fst k =? c').
Proof. intros Hg. rewrite keys_set_absent by exact Hg. rewrite count_app, count_cons, count_nil. unfold n_tokens. lia. Qed.

Lemma mint_inv c t m a s : Inv s -> 0 <= a -> get c (classes s) <> None -> get (c, t) (nfts s) = None ->
  Inv (mint_state c t m a s).
Proof.
  intros (HO & Hnd & Hiff & Hsup & Hidx & Hcls & Hrng) Ha Hc Ht.
  set (s1 := with_nfts s (set (c, t) m (nfts s))).
  assert (HO1 : OwnInv s1) by exact HO.
  assert (Hown : get (c, t) (owners s1) = None) by (apply (absent_iff _ _ (Hiff (c, t))); exact Ht).
  destruct (set_owner_spec s1 c t a HO1 Hown) as (HO2 & Hg2 & Hf2 & Hn2 & Hnf2 & Hcl2 & Hsp2).
  unfold mint_state. fold s1. set (s2 := set_owner c t a s1) in *. clearbody s2.
  unfold Inv. simpl.
  split; [exact HO2|].
  split; [rewrite Hnf2; simpl; apply keys_set_NoDup; exact Hnd|].
  split.
  { intros k. rewrite Hnf2. simpl. rewrite get_set. destruct (eq_dec k (c, t)) as [->|Hne].
    - rewrite Hg2. split; discriminate.
    - rewrite (Hf2 k Hne). apply Hiff. }
  split.
  { intros c'. unfold total_supply, n_tokens. simpl. rewrite getz_set, Hnf2, Hsp2. simpl.
    rewrite n_tokens_set_absent by exact Ht. simpl. fold (total_supply s c'). fold (total_supply s c).
    destruct (eq_dec c' c) as [->|Hne].
    - rewrite Z.eqb_refl, Hsup. unfold uinc, b2z. rewrite Z.add_mod_idemp_l by (unfold two64; lia). reflexivity.
    - assert (Hf : c =? c' = false) by (apply Z.eqb_neq; congruence). rewrite Hf, Hsup. unfold b2z. rewrite Z.add_0_r. reflexivity. }
  split.
  { intros c'. unfold n_tokens. cbn [nfts with_supply]. rewrite Hnf2. simpl. rewrite n_tokens_set_absent by exact Ht.
    change (n_index (with_supply s2 (set c (uinc (total_supply s2 c)) (supply s2))) c') with (n_index s2 c').
    rewrite Hn2. change (n_index s1 c') with (n_index s c'). rewrite Hidx. simpl. lia. }
  split.
  { intros c' t'. rewrite Hnf2, Hcl2. simpl. rewrite get_set. destruct (eq_dec (c', t') (c, t)) as [Heq|Hne].
    - inversion Heq; subst. intros _. exact Hc.
    - apply Hcls. }
  intros k a'. destruct (eq_dec k (c, t)) as [->|Hne].
  - rewrite Hg2. intros Heq. inversion Heq; subst. exact Ha.
  - rewrite (Hf2 k Hne). apply Hrng.
Qed.

Lemma burn_inv c t s : Inv s -> get (c, t) (nfts s) <> None -> Inv (burn_state c t s).
Proof.
  intros (HO & Hnd & Hiff & Hsup & Hidx & Hcls & Hrng) Ht.
  destruct (present_iff _ _ (Hiff (c, t)) Ht) as [o Ho].
  set (s1 := with_nfts s (del (c, t) (nfts s))).
  assert (HO1 : OwnInv s1) by exact HO.
  assert (Ho1 : get (c, t) (owners s1) = Some o) by exact Ho.
  destruct (delete_owner_spec s1 c t o HO1 Ho1) as (HO2 & Hg2 & Hf2 & Hn2 & Hnf2 & Hcl2 & Hsp2).
  unfold burn_state. unfold get_owner. rewrite Ho. fold s1.
  set (s2 := delete_owner c t (Some o) s1) in *. clearbody s2.
  assert (Hin : In (c, t) (keys (nfts s))) by (apply get_in_keys; exact Ht).
  assert (Hcnt : forall c', count (fun k0 : cid * tid => fst k0 =? c') (keys (del (c, t) (nfts s))) = n_tokens s c' - b2z (c =? c')).
  { intros c'. rewrite keys_del. unfold n_tokens. rewrite count_remove by assumption. reflexivity. }
  unfold Inv. simpl.
  split; [exact HO2|].
  split; [rewrite Hnf2; simpl; rewrite keys_del; apply NoDup_filter; exact Hnd|].
  split.
  { intros k. rewrite Hnf2. simpl. rewrite get_del. destruct (eq_dec k (c, t)) as [->|Hne].
    - rewrite Hg2. tauto.
    - rewrite (Hf2 k Hne). apply Hiff. }
  split.
  { intros c'. unfold total_supply, n_tokens. simpl. rewrite getz_set, Hnf2, Hsp2. simpl.
    rewrite Hcnt. fold (total_supply s c'). fold (total_supply s c).
    destruct (eq_dec c' c) as [->|Hne].
    - rewrite Z.eqb_refl, Hsup. unfold udec, b2z. rewrite Zminus_mod_idemp_l. reflexivity.
    - assert (Hf : c =? c' = false) by (apply Z.eqb_neq; congruence). rewrite Hf, Hsup. unfold b2z. rewrite Z.sub_0_r. reflexivity. }
  split.
  { intros c'. unfold n_tokens. cbn [nfts with_supply]. rewrite Hnf2. simpl. rewrite Hcnt.
    change (n_index (with_supply s2 (set c (udec (total_supply s2 c)) (supply s2))) c') with (n_index s2 c').
    rewrite Hn2. change (n_index s1 c') with (n_index s c'). rewrite Hidx. reflexivity. }
  split.
  { intros c' t'. rewrite Hnf2, Hcl2. simpl. rewrite get_del. destruct (eq_dec (c', t') (c, t)) as [Heq|Hne].
    - congruence.
    - apply Hcls. }
  intros k a'. destruct (eq_dec k (c, t)) as [->|Hne].
  - rewrite Hg2. discriminate.
  - rewrite (Hf2 k Hne). apply Hrng.
Qed.

Lemma transfer_inv c t a s : Inv s -> 0 <= a -> get (c, t) (nfts s) <> None -> Inv (transfer_state c t a s).
Proof.
  intros (HO & Hnd & Hiff & Hsup & Hidx & Hcls & Hrng) Ha Ht.
  destruct (present_iff _ _ (Hiff (c, t)) Ht) as [o Ho].
  destruct (delete_owner_spec s c t o HO Ho) as (HO1 & Hg1 & Hf1 & Hn1 & Hnf1 & Hcl1 & Hsp1).
  unfold transfer_state, get_owner. rewrite Ho.
  set (s1 := delete_owner c t (Some o) s) in *. clearbody s1.
  destruct (set_owner_spec s1 c t a HO1 Hg1) as (HO2 & Hg2 & Hf2 & Hn2 & Hnf2 & Hcl2 & Hsp2).
  set (s2 := set_owner c t a s1) in *. clearbody s2.
  unfold Inv.
  split; [exact HO2|].
  split; [rewrite Hnf2, Hnf1; exact Hnd|].
  split.
  { intros k. rewrite Hnf2, Hnf1. destruct (eq_dec k (c, t)) as [->|Hne].
    - rewrite Hg2. split; [discriminate|]. intros _. exact Ht.
    - rewrite (Hf2 k Hne), (Hf1 k Hne). apply Hiff. }
  split.
  { intros c'. unfold total_supply, n_tokens. rewrite Hsp2, Hsp1, Hnf2, Hnf1. apply Hsup. }
  split.
  { intros c'. rewrite Hn2, Hn1. unfold n_tokens. rewrite Hnf2, Hnf1. fold (n_tokens s c'). rewrite Hidx. lia. }
  split.
  { intros c' t'. rewrite Hnf2, Hnf1, Hcl2, Hcl1. apply Hcls. }
  intros k a'. destruct (eq_dec k (c, t)) as [->|Hne].
  - rewrite Hg2. intros Heq. inversion Heq; subst. exact Ha.
  - rewrite (Hf2 k Hne), (Hf1 k Hne). apply Hrng.
Qed.

Lemma update_inv c t m s : Inv s -> get (c, t) (nfts s) <> None -> Inv (with_nfts s (set (c, t) m (nfts s))).
Proof.
  intros (HO & Hnd & Hiff & Hsup & Hidx & Hcls & Hrng) Ht.
  unfold Inv. simpl.
  split; [exact HO|].
  split; [apply keys_set_NoDup; exact Hnd|].
  split.
  { intros k. rewrite get_set. destruct (eq_dec k (c, t)) as [->|Hne]; [|apply Hiff].
    split; [|discriminate]. intros _. apply Hiff. exact Ht. }
  split; [intros c'; unfold total_supply, n_tokens; simpl; rewrite keys_set_present by exact Ht; apply Hsup|].
  split; [intros c'; unfold n_tokens; simpl; rewrite keys_set_present by exact Ht; apply Hidx|].
  split; [|exact Hrng].
  intros c' t'. rewrite get_set. destruct (eq_dec (c', t') (c, t)) as [Heq|Hne]; [|apply Hcls].
  inversion Heq; subst. intros _. apply (Hcls c t). exact Ht.
Qed.

Lemma class_inv c cl s : Inv s -> Inv (with_classes s (set c cl (classes s))).
Proof.
  intros (HO & Hnd & Hiff & Hsup & Hidx & Hcls & Hrng).
  unfold Inv. simpl. repeat (split; [assumption|]). split; [|exact Hrng].
  intros c' t' Hg. rewrite get_set. destruct (eq_dec c' c); [discriminate|]. apply (Hcls c' t'). exact Hg.
Qed.

(** ** what a successful message did *)
Lemma authorize_spec s c t a : authorize s c t a = true <-> get (c, t) (owners s) = Some a.
Proof.
  unfold authorize, get_owner. destruct (get (c, t) (owners s)) as [o|]; [|split; discriminate].
  rewrite Z.eqb_eq. split; congruence.
Qed.

Lemma addr_ok_spec a : addr_ok a = true <-> 0 <= a.
Proof. unfold addr_ok. apply Z.leb_le. Qed.

Ltac split_andb H :=
  repeat match type of H with
         | _ && _ = true => let H1 := fresh "Hv" in apply andb_prop in H; destruct H as [H H1]
         end;
  repeat match goal with Ha : addr_ok _ = true |- _ => apply addr_ok_spec in Ha end.

Lemma issue_ok s a c mr ur d o s' : issue_denom s a c mr ur d o = Some s' ->
  0 < c /\ 0 <= a /\ get c (classes s) = None /\ s' = with_classes s (set c (a, mr, ur, d, o) (classes s)).
Proof.
  unfold issue_denom. destruct ((0 <? c) && addr_ok a && json_or_empty d) eqn:Hv; [|discriminate].
  split_andb Hv. unfold nk_save_class, has_class. destruct (has c (classes s)) eqn:Hc; [discriminate|].
  intros Heq. inversion Heq. apply has_false in Hc. apply Z.ltb_lt in Hv. auto.
Qed.

Lemma mint_ok s a c t n u h d r s' : mint s a c t n u h d r = Some s' ->
  exists cl, get c (classes s) = Some cl /\ (c_mintr cl = true -> c_creator cl = a)
             /\ get (c, t) (nfts s) = None /\ 0 <= a /\ 0 <= r /\ s' = mint_state c t (n, u, h, d) r s.
Proof.
  unfold mint. destruct (addr_ok a && addr_ok r && denom_ok c && uri_ok u && json_or_empty d && token_ok t) eqn:Hv; [|discriminate].
  split_andb Hv. destruct (get c (classes s)) as [cl|] eqn:Hc; [|discriminate].
  destruct (c_mintr cl && negb (c_creator cl =? a)) eqn:Hm; [discriminate|].
  intros Hk. apply nk_mint_unfold in Hk. destruct Hk as (_ & Ht & ->).
  exists cl. split; [reflexivity|]. split.
  { intros Hr. rewrite Hr in Hm. simpl in Hm. apply Bool.negb_false_iff, Z.eqb_eq in Hm. exact Hm. }
  auto.
Qed.

Lemma apply_nochange m n u h d : changes n u h d = false -> apply_changes m n u h d = m.
Proof.
  unfold changes, modified, apply_changes, modify. destruct m as [[[n0 u0] h0] d0]. intros Hc.
  apply Bool.orb_false_iff in Hc. destruct Hc as [Hc Hd].
  apply Bool.orb_false_iff in Hc. destruct Hc as [Hc Hn].
  apply Bool.orb_false_iff in Hc. destruct Hc as [Hu Hh].
  apply Bool.negb_false_iff in Hu, Hh, Hn, Hd. rewrite Hu, Hh, Hn, Hd. reflexivity.
Qed.

Lemma edit_ok s a c t n u h d s' : edit s a c t n u h d = Some s' ->
  exists cl, get c (classes s) = Some cl /\ c_updr cl = false /\ get (c, t) (owners s) = Some a
    /\ ((changes n u h d = false /\ s' = s)
        \/ (exists m, get (c, t) (nfts s) = Some m
                      /\ s' = with_nfts s (set (c, t) (apply_changes m n u h d) (nfts s)))).
Proof.
  unfold edit. destruct (addr_ok a && denom_ok c && uri_ok u && json_or_empty_or_dnm d && token_ok t) eqn:Hv; [|discriminate].
  destruct (get c (classes s)) as [cl|] eqn:Hc; [|discriminate].
  destruct (c_updr cl) eqn:Hu; [discriminate|].
  destruct (authorize s c t a) eqn:Ha; simpl; [|discriminate]. apply authorize_spec in Ha.
  destruct (changes n u h d) eqn:Hch; simpl.
  - destruct (get (c, t) (nfts s)) as [m|] eqn:Hm; [|discriminate].
    intros Hk. apply nk_update_unfold in Hk. destruct Hk as (_ & _ & ->).
    exists cl. repeat split; auto. right. exists m. auto.
  - intros Heq. inversion Heq; subst. exists cl. repeat split; auto.
Qed.

Lemma transfer_ok s a c t n u h d r s' : transfer s a c t n u h d r = Some s' ->
  exists cl m, get c (classes s) = Some cl /\ get (c, t) (nfts s) = Some m /\ get (c, t) (owners s) = Some a
    /\ 0 <= r /\ (c_updr cl = true -> changes n u h d = false)
    /\ ((changes n u h d = false /\ s' = transfer_state c t r s)
        \/ (s' = transfer_state c t r (with_nfts s (set (c, t) (apply_changes m n u h d) (nfts s))))).
Proof.
  unfold transfer. destruct (denom_ok c && addr_ok a && addr_ok r && uri_ok u && json_or_empty_or_dnm d && token_ok t) eqn:Hv; [|discriminate].
  split_andb Hv.
  destruct (get (c, t) (nfts s)) as [m|] eqn:Hm; [|discriminate].
  destruct (authorize s c t a) eqn:Ha; simpl; [|discriminate]. apply authorize_spec in Ha.
  destruct (get c (classes s)) as [cl|] eqn:Hc; [|discriminate].
  destruct (c_updr cl && changes n u h d) eqn:Hr; [discriminate|].
  assert (Hupd : c_updr cl = true -> changes n u h d = false) by (intros Hu; rewrite Hu in Hr; exact Hr).
  destruct (changes n u h d) eqn:Hch; simpl.
  - destruct (nk_update c t (apply_changes m n u h d) s) as [s1|] eqn:Hk; [|discriminate].
    apply nk_update_unfold in Hk. destruct Hk as (_ & _ & ->).
    intros Hk. apply nk_transfer_unfold in Hk. destruct Hk as (_ & _ & ->).
    exists cl, m. repeat split; auto.
  - intros Hk. apply nk_transfer_unfold in Hk. destruct Hk as (_ & _ & ->).
    exists cl, m. repeat split; auto.
Qed.

Lemma burn_ok s a c t s' : burn s a c t = Some s' ->
  get (c, t) (owners s) = Some a /\ get (c, t) (nfts s) <> None /\ s' = burn_state c t s.
Proof.
  unfold burn. destruct (addr_ok a && denom_ok c && token_ok t); [|discriminate].
  destruct (authorize s c t a) eqn:Ha; [|discriminate]. apply authorize_spec in Ha.
  intros Hk. apply nk_burn_unfold in Hk. destruct Hk as (_ & Ht & ->). auto.
Qed.

Lemma handover_ok s a c r s' : transfer_denom s a c r = Some s' ->
  exists cl, get c (classes s) = Some cl /\ c_creator cl = a /\ 0 <= r
             /\ s' = with_classes s (set c (c_with_creator cl r) (classes s)).
Proof.
  unfold transfer_denom. destruct (addr_ok a && addr_ok r && denom_ok c) eqn:Hv; [|discriminate].
  split_andb Hv.
  destruct (get c (classes s)) as [cl|] eqn:Hc; [|discriminate].
  destruct (c_creator cl =? a) eqn:Ha; [|discriminate]. apply Z.eqb_eq in Ha.
  unfold nk_update_class, has_class, has. rewrite Hc. intros Heq. inversion Heq. exists cl. auto.
Qed.

(** ** the invariant is preserved *)
Lemma exec_msg_inv s msg s' : Inv s -> exec_msg s msg = Some s' -> Inv s'.
Proof.
  intros HI. destruct msg as [a c mr ur d o|a c t n u h d r|a c t n u h d|a c t n u h d r|a c t|a c r]; simpl; intros He.
  - apply issue_ok in He. destruct He as (_ & _ & _ & ->). apply class_inv. exact HI.
  - apply mint_ok in He. destruct He as (cl & Hc & _ & Ht & _ & Hr & ->).
    apply mint_inv; auto. congruence.
  - apply edit_ok in He. destruct He as (cl & Hc & _ & Ho & [[_ ->]|(m & Hm & ->)]); [exact HI|].
    apply update_inv; [exact HI|congruence].
  - apply transfer_ok in He. destruct He as (cl & m & Hc & Hm & Ho & Hr & _ & [[_ ->]| ->]).
    + apply transfer_inv; auto. congruence.
    + apply transfer_inv; auto.
      * apply update_inv; [exact HI|congruence].
      * simpl. rewrite get_set_same. discriminate.
  - apply burn_ok in He. destruct He as (_ & Ht & ->). apply burn_inv; assumption.
  - apply handover_ok in He. destruct He as (cl & _ & _ & _ & ->). apply class_inv. exact HI.
Qed.

Lemma step_inv s st : Inv s -> Inv (next s st).
Proof.
  intros HI. unfold next. destruct st as [m|]; simpl; [|exact HI].
  destruct (exec_msg s m) as [s'|] eqn:He; [|exact HI]. exact (exec_msg_inv s m s' HI He).
Qed.

Lemma run_inv steps : forall s, Inv s -> Inv (run s steps).
Proof. induction steps as [|st rest IH]; intros s HI; simpl; [exact HI|]. apply IH, step_inv, HI. Qed.

Definition Reachable (s : state) : Prop := exists steps, s = run init steps.
Lemma Reachable_Inv s : Reachable s -> Inv s.
Proof. intros [steps ->]. apply run_inv, Inv_init. Qed.

(** ** what a message can do to one token / one class *)
Lemma mint_state_fields c t m a s :
  nfts (mint_state c t m a s) = set (c, t) m (nfts s)
  /\ owners (mint_state c t m a s) = set (c, t) a (owners s)
  /\ classes (mint_state c t m a s) = classes s.
Proof. repeat split. Qed.
Lemma burn_state_fields c t s :
  nfts (burn_state c t s) = del (c, t) (nfts s)
  /\ owners (burn_state c t s) = del (c, t) (owners s)
  /\ classes (burn_state c t s) = classes s.
Proof. repeat split. Qed.
Lemma transfer_state_fields c t a s :
  nfts (transfer_state c t a s) = nfts s
  /\ owners (transfer_state c t a s) = set (c, t) a (del (c, t) (owners s))
  /\ classes (transfer_state c t a s) = classes s.
Proof. repeat split. Qed.

Lemma get_set_del {K V} `{EqDec K} (k k' : K) (v : V) m :
  get k' (set k v (del k m)) = if eq_dec k' k then Some v else get k' m.
Proof. rewrite get_set. destruct (eq_dec k' k) as [|Hne]; [reflexivity|]. apply get_del_other. exact Hne. Qed.

Lemma token_step s msg s' c t m o :
  exec_msg s msg = Some s' -> get (c, t) (nfts s) = Some m -> get (c, t) (owners s) = Some o ->
  (get (c, t) (nfts s') = Some m /\ get (c, t) (owners s') = Some o)
  \/ (exists n u h d r, msg = Transfer o c t n u h d r
        /\ get (c, t) (nfts s') = Some (apply_changes m n u h d) /\ get (c, t) (owners s') = Some r)
  \/ (exists n u h d, msg = Edit o c t n u h d
        /\ get (c, t) (nfts s') = Some (apply_changes m n u h d) /\ get (c, t) (owners s') = Some o)
  \/ (msg = Burn o c t /\ get (c, t) (nfts s') = None /\ get (c, t) (owners s') = None).
Proof.
  intros He Hm Ho.
  destruct msg as [a c0 mr ur d0 o0|a c0 t0 n u h d r|a c0 t0 n u h d|a c0 t0 n u h d r|a c0 t0|a c0 r]; simpl in He.
  - apply issue_ok in He. destruct He as (_ & _ & _ & ->). left. split; assumption.
  - apply mint_ok in He. destruct He as (cl & _ & _ & Ht & _ & _ & ->). left.
    assert (Hne : (c, t) <> (c0, t0)) by congruence.
    simpl. rewrite !get_set_other by exact Hne. split; assumption.
  - apply edit_ok in He. destruct He as (cl & _ & _ & Ha & [[_ ->]|(m0 & Hm0 & ->)]); [left; split; assumption|].
    destruct (eq_dec (c, t) (c0, t0)) as [Heq|Hne].
    + inversion Heq; subst c0 t0. right. right. left.
      assert (a = o) by congruence. assert (m0 = m) by congruence. subst a m0.
      exists n, u, h, d. simpl. rewrite get_set_same. auto.
    + left. simpl. rewrite get_set_other by exact Hne. split; assumption.
  - apply transfer_ok in He. destruct He as (cl & m0 & _ & Hm0 & Ha & _ & _ & Hs').
    destruct (eq_dec (c, t) (c0, t0)) as [Heq|Hne].
    + inversion Heq; subst c0 t0. right. left.
      assert (a = o) by congruence. assert (m0 = m) by congruence. subst a m0.
      exists n, u, h, d, r. split; [reflexivity|].
      destruct Hs' as [[Hch ->]| ->]; simpl.
      * rewrite (apply_nochange m n u h d Hch), get_set_same. auto.
      * rewrite !get_set_same. auto.
    + left. destruct Hs' as [[Hch ->]| ->]; simpl.
      * rewrite get_set_other, get_del_other by exact Hne. split; assumption.
      * rewrite !get_set_other, get_del_other by exact Hne. split; assumption.
  - apply burn_ok in He. destruct He as (Ha & _ & ->).
    destruct (eq_dec (c, t) (c0, t0)) as [Heq|Hne].
    + inversion Heq; subst c0 t0. right. right. right.
      assert (a = o) by congruence. subst a. simpl. rewrite !get_del_same. auto.
    + left. simpl. rewrite !get_del_other by exact Hne. split; assumption.
  - apply handover_ok in He. destruct He as (cl & _ & _ & _ & ->). left. split; assumption.
Qed.

Lemma class_step s msg s' c cl :
  exec_msg s msg = Some s' -> get c (classes s) = Some cl ->
  get c (classes s') = Some cl
  \/ (exists r, msg = TransferDenom (c_creator cl) c r /\ get c (classes s') = Some (c_with_creator cl r)).
Proof.
  intros He Hc.
  destruct msg as [a c0 mr ur d0 o0|a c0 t0 n u h d r|a c0 t0 n u h d|a c0 t0 n u h d r|a c0 t0|a c0 r]; simpl in He.
  - apply issue_ok in He. destruct He as (_ & _ & Hn & ->). left. simpl.
    rewrite get_set_other; [exact Hc|congruence].
  - apply mint_ok in He. destruct He as (cl0 & _ & _ & _ & _ & _ & ->). left. exact Hc.
  - apply edit_ok in He. destruct He as (cl0 & _ & _ & _ & [[_ ->]|(m0 & _ & ->)]); left; exact Hc.
  - apply transfer_ok in He. destruct He as (cl0 & m0 & _ & _ & _ & _ & _ & [[_ ->]| ->]); left; exact Hc.
  - apply burn_ok in He. destruct He as (_ & _ & ->). left. exact Hc.
  - apply handover_ok in He. destruct He as (cl0 & Hc0 & Ha & _ & ->). simpl.
    destruct (eq_dec c c0) as [->|Hne].
    + right. assert (cl0 = cl) by congruence. subst cl0. exists r. rewrite get_set_same. subst a. auto.
    + left. rewrite get_set_other by exact Hne. exact Hc.
Qed.

Lemma with_creator_twice cl r x : c_with_creator (c_with_creator cl r) x = c_with_creator cl x.
Proof. destruct cl as [[[[a m] u] d] o]. reflexivity. Qed.
Lemma same_static cl cl' : c_with_creator cl' 0 = c_with_creator cl 0 ->
  c_updr cl' = c_updr cl /\ c_mintr cl' = c_mintr cl.
Proof.
  destruct cl as [[[[a m] u] d] o], cl' as [[[[a' m'] u'] d'] o']. simpl. intros Heq. inversion Heq. auto.
Qed.

Lemma next_cases s st :
  (next s st = s /\ (st = Block \/ ok s st = false))
  \/ (exists msg s', st = Msg msg /\ exec_msg s msg = Some s' /\ next s st = s' /\ ok s st = true).
Proof.
  unfold next, ok. destruct st as [msg|]; simpl; [|left; auto].
  destruct (exec_msg s msg) as [s'|] eqn:He; [right; exists msg, s'; auto|left; auto].
Qed.

Lemma class_static steps : forall s c cl, get c (classes s) = Some cl ->
  exists cl', get c (classes (run s steps)) = Some cl' /\ c_with_creator cl' 0 = c_with_creator cl 0.
Proof.
  induction steps as [|st rest IH]; intros s c cl Hc; simpl; [exists cl; auto|].
  destruct (next_cases s st) as [[-> _]|(msg & s' & -> & He & -> & _)]; [apply IH; exact Hc|].
  destruct (class_step s msg s' c cl He Hc) as [Hc'|(r & _ & Hc')].
  - apply IH. exact Hc'.
  - destruct (IH s' c _ Hc') as (cl' & Hg & Hs). exists cl'. split; [exact Hg|].
    rewrite Hs. apply with_creator_twice.
Qed.

(** ** authority *)
Lemma only_owner_lemma s msg s' : exec_msg s msg = Some s' ->
  match msg with
  | Transfer a c t _ _ _ _ _ | Edit a c t _ _ _ _ | Burn a c t => get_owner s c t = Some a
  | _ => True
  end.
Proof.
  destruct msg as [a c0 mr ur d0 o0|a c0 t0 n u h d r|a c0 t0 n u h d|a c0 t0 n u h d r|a c0 t0|a c0 r]; simpl; intros He; auto.
  - apply edit_ok in He. destruct He as (cl & _ & _ & Ha & _). exact Ha.
  - apply transfer_ok in He. destruct He as (cl & m & _ & _ & Ha & _). exact Ha.
  - apply burn_ok in He. destruct He as (Ha & _). exact Ha.
Qed.

Lemma mint_lemma s a c t n u h d r s' : exec_msg s (Mint a c t n u h d r) = Some s' ->
  (exists cl, get c (classes s) = Some cl /\ (c_mintr cl = true -> c_creator cl = a))
  /\ get (c, t) (nfts s) = None
  /\ get (c, t) (nfts s') = Some (n, u, h, d) /\ get_owner s' c t = Some r
  /\ (forall k, k <> (c, t) -> get k (nfts s') = get k (nfts s) /\ get k (owners s') = get k (owners s))
  /\ classes s' = classes s.
Proof.
  simpl. intros He. apply mint_ok in He. destruct He as (cl & Hc & Hm & Ht & _ & _ & ->).
  split; [exists cl; auto|]. split; [exact Ht|]. unfold get_owner. simpl. rewrite !get_set_same.
  repeat split; auto; apply get_set_other; assumption.
Qed.

(** ** update-restricted classes *)
Lemma frozen_step s msg s' c t cl m :
  Inv s -> exec_msg s msg = Some s' ->
  get c (classes s) = Some cl -> c_updr cl = true -> get (c, t) (nfts s) = Some m ->
  get (c, t) (nfts s') = Some m
  \/ (exists a, msg = Burn a c t /\ get_owner s c t = Some a /\ get (c, t) (nfts s') = None).
Proof.
  intros HI He Hc Hu Hm.
  destruct HI as (_ & _ & Hiff & _).
  destruct (present_iff _ _ (Hiff (c, t))) as [o Ho]; [congruence|].
  destruct (token_step s msg s' c t m o He Hm Ho) as [[H1 _]|[(n & u & h & d & r & -> & H1 & _)|[(n & u & h & d & -> & H1 & _)|(-> & H1 & _)]]].
  - left. exact H1.
  - left. simpl in He. apply transfer_ok in He. destruct He as (cl0 & m0 & Hc0 & _ & _ & _ & Hch & _).
    assert (cl0 = cl) by congruence. subst cl0. rewrite (apply_nochange m n u h d (Hch Hu)) in H1. exact H1.
  - exfalso. simpl in He. apply edit_ok in He. destruct He as (cl0 & Hc0 & Hu0 & _).
    assert (cl0 = cl) by congruence. subst cl0. congruence.
  - right. exists o. auto.
Qed.

Definition burned_in (s : state) (steps : list step) (c : cid) (t : tid) : Prop :=
  exists pre a post, steps = pre ++ Msg (Burn a c t) :: post /\ ok (run s pre) (Msg (Burn a c t)) = true.

Lemma burned_in_cons s st rest c t : burned_in (next s st) rest c t -> burned_in s (st :: rest) c t.
Proof. intros (pre & a & post & -> & Hok). exists (st :: pre), a, post. split; [reflexivity|exact Hok]. Qed.

Lemma frozen_history steps : forall s c t cl m,
  Inv s -> get c (classes s) = Some cl -> c_updr cl = true -> get (c, t) (nfts s) = Some m ->
  ~ burned_in s steps c t ->
  get (c, t) (nfts (run s steps)) = Some m.
Proof.
  induction steps as [|st rest IH]; intros s c t cl m HI Hc Hu Hm Hnb; simpl; [exact Hm|].
  assert (Hnb' : ~ burned_in (next s st) rest c t) by (intros Hb; apply Hnb, burned_in_cons, Hb).
  destruct (next_cases s st) as [[Hn _]|(msg & s' & -> & He & Hn & Hok)]; rewrite Hn in *.
  - apply (IH s c t cl m); assumption.
  - destruct (frozen_step s msg s' c t cl m HI He Hc Hu Hm) as [Hm'|(a & -> & _ & _)].
    + destruct (class_step s msg s' c cl He Hc) as [Hc'|(r & _ & Hc')].
      * apply (IH s' c t cl m); auto. apply (exec_msg_inv s msg s'); assumption.
      * apply (IH s' c t (c_with_creator cl r) m); auto; [apply (exec_msg_inv s msg s'); assumption|].
        destruct cl as [[[[a0 m0] u0] d0] o0]. exact Hu.
    + exfalso. apply Hnb. exists [], a, rest. split; [reflexivity|exact Hok].
Qed.

(** ** ids *)
Lemma persists_until_burned steps : forall s c t,
  Inv s -> get (c, t) (nfts s) <> None -> ~ burned_in s steps c t ->
  get (c, t) (nfts (run s steps)) <> None.
Proof.
  induction steps as [|st rest IH]; intros s c t HI Hm Hnb; simpl; [exact Hm|].
  assert (Hnb' : ~ burned_in (next s st) rest c t) by (intros Hb; apply Hnb, burned_in_cons, Hb).
  destruct (next_cases s st) as [[Hn _]|(msg & s' & -> & He & Hn & Hok)]; rewrite Hn in *.
  - apply IH; assumption.
  - assert (HI' : Inv s') by (apply (exec_msg_inv s msg s'); assumption).
    destruct (get (c, t) (nfts s)) as [m|] eqn:Hg; [|congruence].
    destruct HI as (_ & _ & Hiff & _).
    destruct (present_iff _ _ (Hiff (c, t))) as [o Ho]; [congruence|].
    destruct (token_step s msg s' c t m o He Hg Ho) as [[H1 _]|[(n & u & h & d & r & _ & H1 & _)|[(n & u & h & d & _ & H1 & _)|(-> & _ & _)]]].
    + apply IH; auto. congruence.
    + apply IH; auto. congruence.
    + apply IH; auto. congruence.
    + exfalso. apply Hnb. exists [], o, rest. split; [reflexivity|exact Hok].
Qed.

Lemma class_persists steps s c : get c (classes s) <> None -> get c (classes (run s steps)) <> None.
Proof.
  destruct (get c (classes s)) as [cl|] eqn:Hc; [|congruence]. intros _.
  destruct (class_static steps s c cl Hc) as (cl' & Hg & _). congruence.
Qed.

(** ** supply = tokens = balances *)
Definition addr_of (e : addr * cid * tid) : addr := let '(a, _, _) := e in a.

Lemma balance_count s a c : Inv s ->
  balance s a c = count (fun e => (addr_of e =? a) && (cls_of e =? c)) (index s).
Proof.
  intros ((_ & Hidx) & _ & Hiff & _). unfold balance, owned_by. rewrite map_length.
  fold (count (fun '(a', c', t') => (a' =? a) && (c' =? c) && has_nft s c' t') (index s)).
  apply count_ext. intros [[a' c'] t'] Hin. simpl.
  assert (Hh : has_nft s c' t' = true).
  { apply has_true. apply Hiff. apply Hidx in Hin. congruence. }
  rewrite Hh, Bool.andb_true_r. reflexivity.
Qed.

Lemma zsum_map_zero {A} (l : list A) : zsum (map (fun _ => 0) l) = 0.
Proof. induction l; simpl; lia. Qed.
Lemma zsum_map_add {A} (f g : A -> Z) l : zsum (map (fun a => f a + g a) l) = zsum (map f l) + zsum (map g l).
Proof. induction l; simpl; lia. Qed.
Lemma zsum_indicator (x : Z) l : NoDup l -> In x l -> zsum (map (fun a => b2z (x =? a)) l) = 1.
Proof.
  induction l as [|y l IH]; simpl; [tauto|]. intros Hnd Hin. inversion Hnd as [|? ? Hny Hnd']; subst.
  destruct (Z.eq_dec x y) as [->|Hne].
  - rewrite Z.eqb_refl. change (b2z true) with 1.
    assert (Hz : zsum (map (fun a => b2z (y =? a)) l) = 0).
    { clear IH Hnd Hnd' Hin. induction l as [|z l IHl]; simpl; [reflexivity|].
      assert (Hf : y =? z = false) by (apply Z.eqb_neq; intros ->; apply Hny; left; reflexivity).
      rewrite Hf. simpl. apply IHl. intros Hin. apply Hny. right. exact Hin. }
    lia.
  - assert (Hf : x =? y = false) by (apply Z.eqb_neq; exact Hne). rewrite Hf. simpl.
    apply IH; [exact Hnd'|]. destruct Hin; [congruence|assumption].
Qed.

Lemma sum_count (l : list addr) idx c :
  NoDup l -> (forall e, In e idx -> cls_of e = c -> In (addr_of e) l) ->
  zsum (map (fun a => count (fun e => (addr_of e =? a) && (cls_of e =? c)) idx) l) = count (fun e => cls_of e =? c) idx.
Proof.
  intros Hnd. induction idx as [|e idx IH]; intros Hcov.
  - rewrite count_nil. apply zsum_map_zero.
  - rewrite count_cons.
    rewrite (map_ext _ (fun a => b2z ((addr_of e =? a) && (cls_of e =? c))
                                + count (fun e0 => (addr_of e0 =? a) && (cls_of e0 =? c)) idx))
      by (intros a; rewrite count_cons; reflexivity).
    rewrite zsum_map_add, IH by (intros e0 Hin; apply Hcov; right; exact Hin). f_equal.
    destruct (cls_of e =? c) eqn:Hc.
    + rewrite (map_ext _ (fun a => b2z (addr_of e =? a))) by (intros a; rewrite Bool.andb_true_r; reflexivity).
      apply zsum_indicator; [exact Hnd|]. apply Hcov; [left; reflexivity|]. apply Z.eqb_eq. exact Hc.
    + rewrite (map_ext _ (fun _ => 0)) by (intros a; rewrite Bool.andb_false_r; reflexivity).
      apply zsum_map_zero.
Qed.

Lemma supply_lemma s : Inv s ->
  (forall c, total_supply s c = n_tokens s c mod two64)
  /\ (forall c, n_tokens s c < two64 -> total_supply s c = n_tokens s c)
  /\ (forall c, n_index s c = n_tokens s c)
  /\ (forall c, n_tokens s c = Z.of_nat (length (tokens_of s c)))
  /\ (forall c (l : list addr), NoDup l -> (forall a t, In (a, c, t) (index s) -> In a l) ->
        zsum (map (fun a => balance s a c) l) = n_tokens s c).
Proof.
  intros HI. pose proof HI as (_ & _ & _ & Hsup & Hidx & _).
  split; [exact Hsup|].
  split; [intros c Hlt; rewrite Hsup; apply Z.mod_small; split; [apply count_nonneg|exact Hlt]|].
  split; [exact Hidx|].
  split; [intros c; unfold n_tokens, count, tokens_of; rewrite map_length; reflexivity|].
  intros c l Hnd Hcov. rewrite <- Hidx, n_index_eq.
  rewrite (map_ext _ (fun a => count (fun e => (addr_of e =? a) && (cls_of e =? c)) (index s)))
    by (intros a; apply balance_count; exact HI).
  apply sum_count; [exact Hnd|]. intros [[a c'] t] Hin Hc. simpl in *. subst c'. apply (Hcov a t). exact Hin.
Qed.

(** the number of NFTs of a class grows by at most one per step: the counter cannot have wrapped
    in a history of fewer than 2^64 steps *)
Lemma count_filter_le {A} (p q : A -> bool) l : count p (filter q l) <= count p l.
Proof.
  induction l as [|x l IH]; simpl; [lia|]. destruct (q x); rewrite ?count_cons; unfold b2z; destruct (p x); lia.
Qed.

Lemma n_tokens_step s msg s' c : exec_msg s msg = Some s' -> n_tokens s' c <= n_tokens s c + 1.
Proof.
  intros He.
  destruct msg as [a c0 mr ur d0 o0|a c0 t0 n u h d r|a c0 t0 n u h d|a c0 t0 n u h d r|a c0 t0|a c0 r]; simpl in He.
  - apply issue_ok in He. destruct He as (_ & _ & _ & ->). unfold n_tokens. simpl. lia.
  - apply mint_ok in He. destruct He as (cl & _ & _ & Ht & _ & _ & ->). unfold n_tokens at 1. simpl.
    rewrite n_tokens_set_absent by exact Ht. unfold b2z. destruct (fst (c0, t0) =? c); lia.
  - apply edit_ok in He. destruct He as (cl & _ & _ & _ & [[_ ->]|(m0 & Hm0 & ->)]); [lia|].
    unfold n_tokens. simpl. rewrite keys_set_present by congruence. lia.
  - apply transfer_ok in He. destruct He as (cl & m0 & _ & Hm0 & _ & _ & _ & [[_ ->]| ->]); unfold n_tokens; simpl; [lia|].
    rewrite keys_set_present by congruence. lia.
  - apply burn_ok in He. destruct He as (_ & _ & ->). unfold n_tokens. simpl. rewrite keys_del.
    pose proof (count_filter_le (fun k : cid * tid => fst k =? c) (fun x => negb (eqb x (c0, t0))) (keys (nfts s))). lia.
  - apply handover_ok in He. destruct He as (cl & _ & _ & _ & ->). unfold n_tokens. simpl. lia.
Qed.

Lemma n_tokens_next s st c : n_tokens (next s st) c <= n_tokens s c + 1.
Proof.
  unfold next. destruct st as [m|]; simpl; [|lia].
  destruct (exec_msg s m) as [s'|] eqn:He; [exact (n_tokens_step s m s' c He)|lia].
Qed.

Lemma n_tokens_run steps : forall s n, (forall c, n_tokens s c <= n) ->
  forall c, n_tokens (run s steps) c <= n + Z.of_nat (length steps).
Proof.
  induction steps as [|st rest IH]; intros s n Hb c; simpl; [specialize (Hb c); lia|].
  rewrite Zpos_P_of_succ_nat. specialize (IH (next s st) (n + 1)).
  assert (Hb' : forall c0, n_tokens (next s st) c0 <= n + 1) by (intros c0; pose proof (n_tokens_next s st c0); specialize (Hb c0); lia).
  specialize (IH Hb' c). lia.
Qed.

Lemma owner_unique_lemma s : Inv s ->
  NoDup (index s)
  /\ (forall a c t, In (a, c, t) (index s) <-> get_owner s c t = Some a)
  /\ (forall c t, has_nft s c t = true <-> exists a, get_owner s c t = Some a)
  /\ (forall a a' c t, In (a, c, t) (index s) -> In (a', c, t) (index s) -> a = a')
  /\ (forall c t a, get_owner s c t = Some a -> 0 <= a)
  /\ (forall c t, has_nft s c t = true -> has_class s c = true).
Proof.
  intros ((Hnd & Hidx) & _ & Hiff & _ & _ & Hcls & Hrng). unfold get_owner, has_nft, has_class.
  split; [exact Hnd|]. split; [exact Hidx|].
  split.
  { intros c t. rewrite has_true, (Hiff (c, t)). destruct (get (c, t) (owners s)) as [a|].
    - split; [intros _; exists a; reflexivity|discriminate].
    - split; [congruence|intros [a Ha]; discriminate]. }
  split; [intros a a' c t H1 H2; apply Hidx in H1, H2; congruence|].
  split; [intros c t a; apply Hrng|].
  intros c t. rewrite !has_true. apply Hcls.
Qed.

(** ** statements over reachable states (Props/C14.v) *)
Lemma Reachable_run s steps : Reachable s -> Reachable (run s steps).
Proof.
  intros [pre ->]. exists (pre ++ steps). clear. generalize init. induction pre as [|st pre IH]; intros s0; simpl; [reflexivity|apply IH].
Qed.

Lemma r_owner_unique s : Reachable s ->
  NoDup (index s)
  /\ (forall a c t, In (a, c, t) (index s) <-> get_owner s c t = Some a)
  /\ (forall c t, has_nft s c t = true <-> exists a, get_owner s c t = Some a)
  /\ (forall a a' c t, In (a, c, t) (index s) -> In (a', c, t) (index s) -> a = a')
  /\ (forall c t a, get_owner s c t = Some a -> 0 <= a)
  /\ (forall c t, has_nft s c t = true -> has_class s c = true).
Proof. intros Hr. apply owner_unique_lemma, Reachable_Inv, Hr. Qed.

Lemma r_supply s : Reachable s ->
  (forall c, total_supply s c = n_tokens s c mod two64)
  /\ (forall c, n_tokens s c < two64 -> total_supply s c = n_tokens s c)
  /\ (forall c, n_index s c = n_tokens s c)
  /\ (forall c, n_tokens s c = Z.of_nat (length (tokens_of s c)))
  /\ (forall c (l : list addr), NoDup l -> (forall a t, In (a, c, t) (index s) -> In a l) ->
        zsum (map (fun a => balance s a c) l) = n_tokens s c).
Proof. intros Hr. apply supply_lemma, Reachable_Inv, Hr. Qed.

Lemma r_supply_no_wrap steps c : Z.of_nat (length steps) < two64 ->
  n_tokens (run init steps) c <= Z.of_nat (length steps)
  /\ total_supply (run init steps) c = n_tokens (run init steps) c.
Proof.
  intros Hlen.
  assert (Hb : n_tokens (run init steps) c <= 0 + Z.of_nat (length steps)).
  { apply n_tokens_run. intros c0. unfold n_tokens, count, init. simpl. lia. }
  split; [lia|].
  destruct (supply_lemma (run init steps)) as (_ & Hs & _); [apply run_inv, Inv_init|]. apply Hs. lia.
Qed.

Lemma r_token_step s msg s' c t m o : Reachable s ->
  exec_msg s msg = Some s' -> get (c, t) (nfts s) = Some m -> get_owner s c t = Some o ->
  (get (c, t) (nfts s') = Some m /\ get_owner s' c t = Some o)
  \/ (exists n u h d r, msg = Transfer o c t n u h d r
        /\ get (c, t) (nfts s') = Some (apply_changes m n u h d) /\ get_owner s' c t = Some r)
  \/ (exists n u h d, msg = Edit o c t n u h d
        /\ get (c, t) (nfts s') = Some (apply_changes m n u h d) /\ get_owner s' c t = Some o)
  \/ (msg = Burn o c t /\ get (c, t) (nfts s') = None /\ get_owner s' c t = None).
Proof. intros _. apply token_step. Qed.

Lemma r_frozen s steps c t cl m : Reachable s ->
  get c (classes s) = Some cl -> c_updr cl = true -> get (c, t) (nfts s) = Some m ->
  ~ burned_in s steps c t ->
  get (c, t) (nfts (run s steps)) = Some m.
Proof. intros Hr. apply frozen_history, Reachable_Inv, Hr. Qed.

Lemma r_frozen_step s msg s' c t cl m : Reachable s -> exec_msg s msg = Some s' ->
  get c (classes s) = Some cl -> c_updr cl = true -> get (c, t) (nfts s) = Some m ->
  get (c, t) (nfts s') = Some m
  \/ (exists a, msg = Burn a c t /\ get_owner s c t = Some a /\ get (c, t) (nfts s') = None).
Proof. intros Hr. apply frozen_step, Reachable_Inv, Hr. Qed.

Lemma r_ids s steps c t : Reachable s -> get (c, t) (nfts s) <> None -> ~ burned_in s steps c t ->
  get (c, t) (nfts (run s steps)) <> None
  /\ (forall a n u h d r, exec_msg (run s steps) (Mint a c t n u h d r) = None).
Proof.
  intros Hr Hm Hnb.
  assert (Hp : get (c, t) (nfts (run s steps)) <> None) by (apply persists_until_burned; auto; apply Reachable_Inv, Hr).
  split; [exact Hp|]. intros a n u h d r.
  destruct (exec_msg (run s steps) (Mint a c t n u h d r)) as [s'|] eqn:He; [|reflexivity].
  apply mint_lemma in He. destruct He as (_ & Hn & _). congruence.
Qed.

Lemma issue_lemma s a c mr ur d o s' : exec_msg s (IssueDenom a c mr ur d o) = Some s' ->
  get c (classes s) = None /\ get c (classes s') = Some (a, mr, ur, d, o)
  /\ (forall c', c' <> c -> get c' (classes s') = get c' (classes s))
  /\ nfts s' = nfts s /\ owners s' = owners s.
Proof.
  simpl. intros He. apply issue_ok in He. destruct He as (_ & _ & Hn & ->). simpl.
  rewrite get_set_same. repeat split; auto. intros c' Hne. apply get_set_other. exact Hne.
Qed.

Lemma r_class_history s steps c cl : get c (classes s) = Some cl ->
  exists cl', get c (classes (run s steps)) = Some cl'
              /\ c_with_creator cl' 0 = c_with_creator cl 0
              /\ c_mintr cl' = c_mintr cl /\ c_updr cl' = c_updr cl
              /\ (forall a mr ur d o, exec_msg (run s steps) (IssueDenom a c mr ur d o) = None).
Proof.
  intros Hc. destruct (class_static steps s c cl Hc) as (cl' & Hg & Hs). exists cl'.
  destruct (same_static cl cl' Hs) as [Hu Hm]. repeat split; auto.
  intros a mr ur d o. destruct (exec_msg (run s steps) (IssueDenom a c mr ur d o)) as [s'|] eqn:He; [|reflexivity].
  apply issue_lemma in He. destruct He as (Hn & _). congruence.
Qed.

(** ** ids in use are well-formed *)
Definition IdInv (s : state) : Prop :=
  (forall c, get c (classes s) <> None -> 0 < c)
  /\ (forall c t, get (c, t) (nfts s) <> None -> 0 < t).

Lemma mint_token_ok s a c t n u h d r s' : mint s a c t n u h d r = Some s' -> 0 < t.
Proof.
  unfold mint. destruct (addr_ok a && addr_ok r && denom_ok c && uri_ok u && json_or_empty d && token_ok t) eqn:Hv; [|discriminate].
  intros _. apply andb_prop in Hv. destruct Hv as [_ Ht]. apply Z.ltb_lt. exact Ht.
Qed.

Lemma IdInv_step s msg s' : IdInv s -> exec_msg s msg = Some s' -> IdInv s'.
Proof.
  intros [Hc Ht] He.
  destruct msg as [a c0 mr ur d0 o0|a c0 t0 n u h d r|a c0 t0 n u h d|a c0 t0 n u h d r|a c0 t0|a c0 r]; simpl in He.
  - apply issue_ok in He. destruct He as (Hpos & _ & _ & ->). split; [|exact Ht].
    intros c. simpl. rewrite get_set. destruct (eq_dec c c0) as [->|_]; [intros _; exact Hpos|apply Hc].
  - pose proof (mint_token_ok _ _ _ _ _ _ _ _ _ _ He) as Hpos.
    apply mint_ok in He. destruct He as (cl & _ & _ & _ & _ & _ & ->). split; [exact Hc|].
    intros c t. simpl. rewrite get_set. destruct (eq_dec (c, t) (c0, t0)) as [Heq|_]; [|apply Ht].
    inversion Heq; subst. intros _. exact Hpos.
  - apply edit_ok in He. destruct He as (cl & _ & _ & _ & [[_ ->]|(m0 & Hm0 & ->)]); [split; assumption|].
    split; [exact Hc|]. intros c t. simpl. rewrite get_set. destruct (eq_dec (c, t) (c0, t0)) as [Heq|_]; [|apply Ht].
    inversion Heq; subst. intros _. apply (Ht c0 t0). congruence.
  - apply transfer_ok in He. destruct He as (cl & m0 & _ & Hm0 & _ & _ & _ & [[_ ->]| ->]); [split; assumption|].
    split; [exact Hc|]. intros c t. simpl. rewrite get_set. destruct (eq_dec (c, t) (c0, t0)) as [Heq|_]; [|apply Ht].
    inversion Heq; subst. intros _. apply (Ht c0 t0). congruence.
  - apply burn_ok in He. destruct He as (_ & _ & ->). split; [exact Hc|].
    intros c t. simpl. rewrite get_del. destruct (eq_dec (c, t) (c0, t0)); [congruence|apply Ht].
  - apply handover_ok in He. destruct He as (cl & Hc0 & _ & _ & ->). split; [|exact Ht].
    intros c. simpl. rewrite get_set. destruct (eq_dec c c0) as [->|_]; [|apply Hc].
    intros _. apply Hc. congruence.
Qed.

Lemma Reachable_IdInv s : Reachable s -> IdInv s.
Proof.
  intros [steps ->]. assert (H0 : IdInv init) by (split; intros; simpl in *; congruence).
  revert H0. generalize init. induction steps as [|st rest IH]; intros s0 H0; simpl; [exact H0|].
  apply IH. destruct (next_cases s0 st) as [[-> _]|(msg & s' & _ & He & -> & _)]; [exact H0|].
  exact (IdInv_step s0 msg s' H0 He).
Qed.

(** ** the owner is never locked out *)
Lemma owner_can_act s c t o : Reachable s ->
  get_owner s c t = Some o ->
  (exists s', exec_msg s (Burn o c t) = Some s')
  /\ (forall r, 0 <= r -> exists s', exec_msg s (Transfer o c t dnm dnm dnm dnm r) = Some s').
Proof.
  intros Hr Ho. pose proof (Reachable_IdInv s Hr) as [Hidc Hidt].
  apply Reachable_Inv in Hr. destruct Hr as (_ & _ & Hiff & _ & _ & Hcls & Hrng).
  unfold get_owner in Ho.
  assert (Ha : addr_ok o = true) by (apply addr_ok_spec; apply (Hrng (c, t)); exact Ho).
  assert (Hn : get (c, t) (nfts s) <> None) by (apply Hiff; congruence).
  assert (Hc : get c (classes s) <> None) by (apply (Hcls c t); exact Hn).
  assert (Hd : denom_ok c = true).
  { unfold denom_ok. apply Bool.negb_true_iff, Z.eqb_neq. specialize (Hidc c Hc). lia. }
  assert (Ht : token_ok t = true) by (apply Z.ltb_lt; apply (Hidt c t); exact Hn).
  assert (Hau : authorize s c t o = true) by (apply authorize_spec; exact Ho).
  assert (Hhc : has_class s c = true) by (apply has_true; exact Hc).
  assert (Hhn : has_nft s c t = true) by (apply has_true; exact Hn).
  split.
  - simpl. unfold burn. rewrite Ha, Hd, Ht, Hau. simpl. unfold nk_burn. rewrite Hhc, Hhn. simpl. eexists. reflexivity.
  - intros r Hr0. assert (Hra : addr_ok r = true) by (apply addr_ok_spec; exact Hr0).
    simpl. unfold transfer. rewrite Hd, Ha, Hra, Ht. simpl.
    destruct (get (c, t) (nfts s)) as [m|]; [|congruence]. rewrite Hau. simpl.
    destruct (get c (classes s)) as [cl|]; [|congruence].
    rewrite Bool.andb_false_r. simpl. unfold nk_transfer. rewrite Hhc, Hhn. simpl. eexists. reflexivity.
Qed.
