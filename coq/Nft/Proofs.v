(** * NFT: lemmas and invariants behind Props/C14.v *)
From Irismod Require Import Nft.Model.

(** ** association lists *)
Section AMapMore.
  Context {K V : Type} `{EqDec K}.
  Implicit Types (m : amap K V) (k : K).

  Lemma has_true k m : has k m = true <-> get k m <> None.
  Proof. unfold has. destruct (get k m); split; intros; congruence. Qed.
  Lemma has_false k m : has k m = false <-> get k m = None.
  Proof. unfold has. destruct (get k m); split; intros; congruence. Qed.

  Lemma get_in_keys k m : get k m <> None <-> In k (keys m).
  Proof.
    induction m as [|[k0 v0] m IH]; simpl; [tauto|].
    destruct (eq_dec k k0) as [->|Hk].
    - split; intros; [left; reflexivity|discriminate].
    - rewrite IH. split; [tauto|]. intros [Heq|Hin]; [congruence|exact Hin].
  Qed.

  Lemma keys_set_present k v m : get k m <> None -> keys (set k v m) = keys m.
  Proof.
    induction m as [|[k0 v0] m IH]; simpl; [congruence|].
    destruct (eq_dec k k0) as [->|Hk]; simpl; [reflexivity|].
    intros Hg. f_equal. exact (IH Hg).
  Qed.

  Lemma keys_set_absent k v m : get k m = None -> keys (set k v m) = keys m ++ [k].
  Proof.
    induction m as [|[k0 v0] m IH]; simpl; [reflexivity|].
    destruct (eq_dec k k0) as [->|Hk]; simpl; [discriminate|].
    intros Hg. f_equal. exact (IH Hg).
  Qed.

  Lemma keys_del k m : keys (del k m) = filter (fun x => negb (eqb x k)) (keys m).
  Proof.
    induction m as [|[k0 v0] m IH]; simpl; [reflexivity|].
    destruct (eq_dec k k0) as [->|Hk]; simpl.
    - rewrite eqb_refl. simpl. exact IH.
    - assert (Hne : eqb k0 k = false) by (apply eqb_false_iff; congruence).
      rewrite Hne. simpl. f_equal. exact IH.
  Qed.

  Lemma get_set k k' v m : get k' (set k v m) = if eq_dec k' k then Some v else get k' m.
  Proof.
    destruct (eq_dec k' k) as [->|Hne]; [apply get_set_same|apply get_set_other; exact Hne].
  Qed.
  Lemma get_del k k' m : get k' (del k m) = if eq_dec k' k then None else get k' m.
  Proof.
    destruct (eq_dec k' k) as [->|Hne]; [apply get_del_same|apply get_del_other; exact Hne].
  Qed.
End AMapMore.

(** ** counting *)
Section Count.
  Context {A : Type} `{EqDec A}.
  Implicit Types (p : A -> bool) (l : list A).

  Definition b2z (b : bool) : Z := if b then 1 else 0.

  Lemma count_nil p : count p [] = 0. Proof. reflexivity. Qed.
  Lemma count_cons p x l : count p (x :: l) = b2z (p x) + count p l.
  Proof. unfold count. simpl. destruct (p x); simpl; lia. Qed.
  Lemma count_app p l1 l2 : count p (l1 ++ l2) = count p l1 + count p l2.
  Proof. induction l1 as [|x l1 IH]; [unfold count; simpl; lia|]. simpl. rewrite !count_cons, IH. lia. Qed.
  Lemma count_nonneg p l : 0 <= count p l.
  Proof. unfold count. lia. Qed.

  Lemma filter_neq_notin x l : ~ In x l -> filter (fun y => negb (eqb y x)) l = l.
  Proof.
    induction l as [|y l IH]; simpl; [reflexivity|]. intros Hn.
    assert (Hne : eqb y x = false) by (apply eqb_false_iff; intros ->; apply Hn; left; reflexivity).
    rewrite Hne. simpl. f_equal. apply IH. tauto.
  Qed.

  Lemma count_remove p x l : NoDup l -> In x l ->
    count p (filter (fun y => negb (eqb y x)) l) = count p l - b2z (p x).
  Proof.
    induction l as [|y l IH]; simpl; [tauto|]. intros Hnd Hin.
    inversion Hnd as [|? ? Hnotin Hnd']; subst.
    destruct (eq_dec y x) as [->|Hne].
    - rewrite eqb_refl. simpl. rewrite (filter_neq_notin x l Hnotin), count_cons. lia.
    - assert (Hf : eqb y x = false) by (apply eqb_false_iff; exact Hne).
      rewrite Hf. simpl. rewrite !count_cons, IH; [lia|exact Hnd'|]. destruct Hin; [congruence|assumption].
  Qed.

  Lemma in_filter_neq x y l : In y (filter (fun z => negb (eqb z x)) l) <-> In y l /\ y <> x.
  Proof.
    rewrite filter_In. split; intros [H1 H2]; split; auto.
    - intros ->. rewrite eqb_refl in H2. discriminate.
    - apply Bool.negb_true_iff, eqb_false_iff. exact H2.
  Qed.

  Lemma existsb_eqb_In x l : existsb (eqb x) l = true <-> In x l.
  Proof.
    rewrite existsb_exists. split.
    - intros [y [Hin Heq]]. apply eqb_true_iff in Heq. subst. exact Hin.
    - intros Hin. exists x. split; [exact Hin|apply eqb_refl].
  Qed.
End Count.

Lemma count_ext {A} (p q : A -> bool) l : (forall x, In x l -> p x = q x) -> count p l = count q l.
Proof.
  induction l as [|x l IH]; intros Hpq; [reflexivity|].
  rewrite !count_cons, IH, (Hpq x); [reflexivity|left; reflexivity|]. intros y Hy. apply Hpq. right. exact Hy.
Qed.

Lemma rejected_changes_nothing s st : ok s st = false -> next s st = s.
Proof. unfold ok, next. destruct (exec_step s st); [discriminate|reflexivity]. Qed.

(** ** the owner records and the owner index *)
Definition OwnInv (s : state) : Prop :=
  NoDup (index s)
  /\ (forall a c t, In (a, c, t) (index s) <-> get (c, t) (owners s) = Some a).

Definition cls_of (e : addr * cid * tid) : cid := let '(_, c, _) := e in c.
Lemma n_index_eq s c : n_index s c = count (fun e => cls_of e =? c) (index s).
Proof. unfold n_index. apply count_ext. intros [[a c'] t] _. reflexivity. Qed.

Lemma delete_owner_spec s c t o :
  OwnInv s -> get (c, t) (owners s) = Some o ->
  let s1 := delete_owner c t (Some o) s in
  OwnInv s1
  /\ get (c, t) (owners s1) = None
  /\ (forall k, k <> (c, t) -> get k (owners s1) = get k (owners s))
  /\ (forall c', n_index s1 c' = n_index s c' - b2z (c =? c'))
  /\ nfts s1 = nfts s /\ classes s1 = classes s /\ supply s1 = supply s.
Proof.
  intros [Hnd Hidx] Hget. cbv zeta. unfold delete_owner. simpl.
  assert (Hin : In (o, c, t) (index s)) by (apply Hidx; exact Hget).
  split; [split|].
  - simpl. unfold idx_del. apply NoDup_filter. exact Hnd.
  - intros a c' t'. simpl. unfold idx_del. rewrite in_filter_neq, Hidx, get_del.
    destruct (eq_dec (c', t') (c, t)) as [Heq|Hne].
    + inversion Heq; subst. split; [|discriminate]. intros [Hg Hn]. exfalso. apply Hn. congruence.
    + split; [tauto|]. intros Hg. split; [exact Hg|]. intros Heq. apply Hne. congruence.
  - split; [apply get_del_same|].
    split; [intros k Hk; apply get_del_other; exact Hk|].
    split; [|auto].
    intros c'. rewrite !n_index_eq. simpl. unfold idx_del.
    rewrite count_remove by assumption. simpl. rewrite Z.eqb_sym. reflexivity.
Qed.

Lemma set_owner_spec s c t a :
  OwnInv s -> get (c, t) (owners s) = None ->
  let s1 := set_owner c t a s in
  OwnInv s1
  /\ get (c, t) (owners s1) = Some a
  /\ (forall k, k <> (c, t) -> get k (owners s1) = get k (owners s))
  /\ (forall c', n_index s1 c' = n_index s c' + b2z (c =? c'))
  /\ nfts s1 = nfts s /\ classes s1 = classes s /\ supply s1 = supply s.
Proof.
  intros [Hnd Hidx] Hget. cbv zeta. unfold set_owner. simpl.
  assert (Hnin : ~ In (a, c, t) (index s)) by (intros Hin; apply Hidx in Hin; congruence).
  assert (Hadd : idx_add (a, c, t) (index s) = index s ++ [(a, c, t)]).
  { unfold idx_add. destruct (existsb (eqb (a, c, t)) (index s)) eqn:He; [|reflexivity].
    apply existsb_eqb_In in He. contradiction. }
  rewrite Hadd.
  split; [split|].
  - simpl. apply NoDup_app_intro.
  - idtac.
Abort.
