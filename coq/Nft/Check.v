(** * NFT: correspondence check and the C14 trace predicate, evaluated by [vm_compute] on the
    cases the harness writes (one case = one history with what the real keeper showed after
    every step).  Depends on the model only. *)
From Irismod Require Export Nft.Model.

(** what the implementation showed after a step (class / token ids, addresses and strings are
    translated by the harness to the model's vocabulary) *)
Record obs := mkObs {
  o_code : Z;                                          (* 0 ok, 1 rejected, 2 abort *)
  o_classes : list (cid * class);                      (* Denoms query *)
  o_tokens : list ((cid * tid) * (addr * tmeta));      (* Collection query per class: owner, metadata *)
  o_supply : list (cid * Z);                           (* Supply query by class *)
  o_bal : list ((addr * cid) * Z);                     (* Supply query by (owner, class), every actor x class *)
  o_owned : list (addr * cid * tid);                   (* NFTsOfOwner query of every actor *)
  o_invbroken : bool                                   (* the module's own SupplyInvariant reports broken *)
}.

Definition obs0 : obs := mkObs 0 [] [] [] [] [] false.

Definition case := list (step * obs).

Section Maps.
  Context {K V : Type} `{EqDec K} `{EqDec V}.
  (** equal as finite maps *)
  Definition map_eqb (a b : amap K V) : bool :=
    forallb (fun '(k, v) => eqb (get k b) (Some v)) a && forallb (fun '(k, v) => eqb (get k a) (Some v)) b.
End Maps.
(** equal as maps into Z where an absent key means 0 *)
Definition zmap_eqb {K} `{EqDec K} (a b : amap K Z) : bool :=
  forallb (fun '(k, v) => getz k b =? v) a && forallb (fun '(k, v) => getz k a =? v) b.
(** equal as sets *)
Definition set_eqb {A} `{EqDec A} (a b : list A) : bool :=
  forallb (fun x => existsb (eqb x) b) a && forallb (fun x => existsb (eqb x) a) b.
Fixpoint nodupb {A} `{EqDec A} (l : list A) : bool :=
  match l with [] => true | x :: l' => negb (existsb (eqb x) l') && nodupb l' end.

(** ** correspondence of one step *)
Definition corr_step (s s' : state) (st : step) (o : obs) : bool :=
  (o_code o =? (if ok s st then 0 else 1))
  && map_eqb (o_classes o) (classes s')
  && map_eqb (map (fun '(k, (_, m)) => (k, m)) (o_tokens o)) (nfts s')
  && map_eqb (map (fun '(k, (a, _)) => (k, a)) (o_tokens o)) (owners s')
  && zmap_eqb (o_supply o) (supply s')
  && forallb (fun '((a, c), v) => v =? balance s' a c) (o_bal o)
  && forallb (fun '(a, c, _) => has (a, c) (o_bal o)) (index s')
  && set_eqb (o_owned o) (index s')
  && negb (o_invbroken o).

(** ** C14 on the implementation's own observations: [p] before the step, [o] after it *)
Definition otok (o : obs) (k : cid * tid) : option (addr * tmeta) := get k (o_tokens o).
Definition oclass (o : obs) (c : cid) : option class := get c (o_classes o).
Definition okk (o : obs) : bool := o_code o =? 0.

(** 1: every token has exactly one owner: the token list has no duplicate, every token's owner
    is an address, the owners' lists contain each token exactly once, under its owner; every
    token belongs to an existing class *)
Definition p_owner (o : obs) : bool :=
  nodupb (keys (o_tokens o)) && nodupb (o_owned o) && nodupb (keys (o_classes o))
  && forallb (fun '((c, t), (a, _)) => (0 <=? a) && existsb (eqb (a, c, t)) (o_owned o) && has c (o_classes o)) (o_tokens o)
  && forallb (fun '(a, c, t) => match otok o (c, t) with Some (a', _) => a' =? a | None => false end) (o_owned o).

(** 2: reported supply of a class = number of its tokens = sum of the owners' balances, and every
    owner's balance = number of tokens it owns *)
Definition n_of_class (o : obs) (c : cid) : Z := count (fun '((c', _), _) => c' =? c) (o_tokens o).
Definition n_of_owner (o : obs) (a : addr) (c : cid) : Z :=
  count (fun '((c', _), (a', _)) => (c' =? c) && (a' =? a)) (o_tokens o).
Definition p_supply (o : obs) : bool :=
  forallb (fun '(c, _) =>
             (getz c (o_supply o) =? n_of_class o c)
             && (zsum (map snd (filter (fun '((_, c'), _) => c' =? c) (o_bal o))) =? n_of_class o c)) (o_classes o)
  && forallb (fun '(c, v) => has c (o_classes o) || (v =? 0)) (o_supply o)
  && forallb (fun '((a, c), v) => v =? n_of_owner o a c) (o_bal o)
  && nodupb (keys (o_bal o))
  && negb (o_invbroken o).

(** 5: tokens of an update-restricted class never change their metadata *)
Definition p_frozen (p o : obs) : bool :=
  forallb (fun '((c, t), (_, m)) =>
             match oclass p c with
             | Some cl =>
                 if c_updr cl then
                   match otok o (c, t) with Some (_, m') => eqb m' m | None => true end
                 else true
             | None => true
             end) (o_tokens p).

(** 4: minting succeeds only into an existing class, for the creator if it is mint-restricted,
    only under an id not in use, and creates exactly the token asked for; nothing else creates
    a token *)
Definition p_mint (p o : obs) (st : step) : bool :=
  match st with
  | Msg (Mint a c t n u h d r) =>
      if okk o then
        match oclass p c with
        | Some cl => (negb (c_mintr cl) || (c_creator cl =? a))
        | None => false
        end
        && negb (has (c, t) (o_tokens p))
        && eqb (otok o (c, t)) (Some (r, (n, u, h, d)))
        && forallb (fun '(k, _) => has k (o_tokens p) || eqb k (c, t)) (o_tokens o)
      else forallb (fun '(k, _) => has k (o_tokens p)) (o_tokens o)
  | _ => forallb (fun '(k, _) => has k (o_tokens p)) (o_tokens o)
  end.

(** 3: transfer, edit and burn succeed only for the current owner and do exactly what was asked;
    a token's owner changes only by its owner's transfer, its metadata only by its owner's edit
    or transfer-with-changes, and it disappears only by its owner's burn *)
Definition p_auth (p o : obs) (st : step) : bool :=
  (if okk o then
     match st with
     | Msg (Transfer a c t n u h d r) =>
         match otok p (c, t) with
         | Some (a0, m) => (a0 =? a) && eqb (otok o (c, t)) (Some (r, apply_changes m n u h d))
         | None => false
         end
     | Msg (Edit a c t n u h d) =>
         match otok p (c, t) with
         | Some (a0, m) => (a0 =? a) && eqb (otok o (c, t)) (Some (a, apply_changes m n u h d))
         | None => false
         end
     | Msg (Burn a c t) =>
         match otok p (c, t) with
         | Some (a0, _) => (a0 =? a) && negb (has (c, t) (o_tokens o))
         | None => false
         end
     | _ => true
     end
   else true)
  && forallb (fun '((c, t), (a, m)) =>
       match otok o (c, t) with
       | None => match st with Msg (Burn a' c' t') => okk o && (a' =? a) && (c' =? c) && (t' =? t) | _ => false end
       | Some (a1, m1) =>
           ((a1 =? a)
            || match st with
               | Msg (Transfer a' c' t' _ _ _ _ r) => okk o && (a' =? a) && (c' =? c) && (t' =? t) && (r =? a1)
               | _ => false
               end)
           && (eqb m1 m
               || match st with
                  | Msg (Transfer a' c' t' n u h d _) | Msg (Edit a' c' t' n u h d) =>
                      okk o && (a' =? a) && (c' =? c) && (t' =? t) && eqb m1 (apply_changes m n u h d)
                  | _ => false
                  end)
       end) (o_tokens p).

(** 6: a class never disappears, its restriction flags and descriptive fields never change, its
    creator changes only by a hand-over sent by the current creator; an id is issued only once *)
Definition p_class (p o : obs) (st : step) : bool :=
  forallb (fun '(c, cl) =>
       match oclass o c with
       | None => false
       | Some cl' =>
           eqb (c_with_creator cl' 0) (c_with_creator cl 0)
           && ((c_creator cl' =? c_creator cl)
               || match st with
                  | Msg (TransferDenom a c' r) => okk o && (c' =? c) && (a =? c_creator cl) && (r =? c_creator cl')
                  | _ => false
                  end)
       end) (o_classes p)
  && match st with
     | Msg (TransferDenom a c r) =>
         if okk o then
           match oclass p c, oclass o c with
           | Some cl, Some cl' => (c_creator cl =? a) && (c_creator cl' =? r)
           | _, _ => false
           end
         else true
     | _ => true
     end
  && match st with
     | Msg (IssueDenom a c mr ur d oth) =>
         if okk o then
           negb (has c (o_classes p)) && eqb (oclass o c) (Some (a, mr, ur, d, oth))
           && forallb (fun '(c', _) => has c' (o_classes p) || (c' =? c)) (o_classes o)
         else forallb (fun '(c', _) => has c' (o_classes p)) (o_classes o)
     | _ => forallb (fun '(c', _) => has c' (o_classes p)) (o_classes o)
     end.

(** 7: a failed step and a block boundary change nothing *)
Definition p_frame (p o : obs) (st : step) : bool :=
  let quiet := negb (okk o) || match st with Block => true | _ => false end in
  negb quiet
  || (map_eqb (o_classes p) (o_classes o) && map_eqb (o_tokens p) (o_tokens o)
      && zmap_eqb (o_supply p) (o_supply o) && set_eqb (o_owned p) (o_owned o)).

(** first violated clause (0 = none) *)
Definition prop_step (p o : obs) (st : step) : Z :=
  if negb (p_owner o) then 1
  else if negb (p_supply o) then 2
  else if negb (p_frozen p o) then 5
  else if negb (p_mint p o st) then 4
  else if negb (p_auth p o st) then 3
  else if negb (p_class p o st) then 6
  else if negb (p_frame p o st) then 7
  else 0.

Fixpoint check_from (s : state) (p : obs) (c : case) (i : Z) (corr prop code : Z) : Z * Z * Z :=
  match c with
  | [] => (corr, prop, code)
  | (st, o) :: rest =>
      let s' := next s st in
      let corr' := if (corr <? 0) && negb (corr_step s s' st o) then i else corr in
      let cl := prop_step p o st in
      let '(prop', code') := if (prop <? 0) && negb (cl =? 0) then (i, cl) else (prop, code) in
      check_from s' o rest (i + 1) corr' prop' code'
  end.

(** (index of the first step where model and implementation differ or -1,
     index of the first step where C14 fails on the implementation's observations or -1,
     violated clause) *)
Definition check_case (c : case) : Z * Z * Z := check_from init obs0 c 0 (-1) (-1) 0.
