(** * Random: correspondence check and the C18 trace predicate, evaluated by [vm_compute] on
    the cases the harness writes.

    [corr]: the model (Model.v, with the hash table of the case as [sha]) is run on the
    operations and compared, after every step, with what the real keeper showed.

    [prop]: C18 itself, evaluated on the implementation's observations only.  It does not use
    the model: a small bookkeeping automaton derives from the operations (and from what the
    service module did, seen from outside) WHEN each request has to be fulfilled, and the
    clauses below are checked against the query results. *)
From Irismod Require Export Random.Spec.

(** what the service module did in a step, seen from outside the random keeper *)
Inductive svcfact :=
| SvcSeed (ctx seed : Z)   (* a provider's response carrying a 32-byte hex seed was accepted *)
| SvcNoSeed (ctx : Z)      (* a response without a usable seed was accepted (error result, malformed body) *)
| SvcExpired (ctx : Z)     (* the request batch expired unanswered *)
| SvcPaused (ctx : Z).     (* the consumer could not pay: the context was paused *)

Definition oread := option (Z * Z * list Z).   (* request tx hash, height, value string (character codes) *)

Record obs := mkObs {
  o_code : Z;                                  (* 0 ok, 1 rejected, 2 abort *)
  o_queue : list (Z * rid * request);          (* the whole pending queue: due key, id, request *)
  o_reads : list (rid * oread);                (* query by every id issued so far *)
  o_oracle : list (Z * option request);        (* oracle request under every context id issued so far *)
  o_svc : list svcfact
}.

Definition case := (list (hin * Z) * list (step * obs))%type.

(** ** correspondence *)
Definition show_result (r : result) : Z * Z * list Z := let '(txh, h, x) := r in (txh, h, render x).

Definition count_some {A} (l : list (Z * option A)) : Z :=
  Z.of_nat (length (filter (fun e => match snd e with Some _ => true | None => false end) l)).

(** a panic in a begin/end blocker halts the chain: both sides aborting is agreement, whatever
    the half-executed blocker left in the store *)
Definition corr_step (out : outcome) (s' : state) (st : step) (o : obs) : bool :=
  (match out with Abort => o_code o =? 2 | _ => false end) ||
  (match st with
   | Calls cs => if o_code o =? 1 then (match cs with [] => true | _ => false end)
                 else o_code o =? outcome_code out
   | _ => o_code o =? outcome_code out
   end)
  && (Z.of_nat (length (o_queue o)) =? Z.of_nat (length (queue s')))
  && forallb (fun '(d, id, r) => eqb (get (d, id) (queue s')) (Some r)) (o_queue o)
  && forallb (fun '(id, v) => eqb v (option_map show_result (get id (results s')))) (o_reads o)
  && forallb (fun '(ctx, v) => eqb v (get ctx (oracle s'))) (o_oracle o)
  && (count_some (o_oracle o) =? Z.of_nat (length (oracle s'))).

(** ** the property on the implementation's observations *)
Inductive pstatus :=
| PPending                       (* in the queue, not yet due *)
| PStarted                       (* oracle: the seed has been requested from the service *)
| PDone (t a : Z) (seed : option Z) (r : Z * Z * list Z)  (* fulfilled under this header/seed; first read *)
| PNoSeed                        (* oracle: answered without a seed: never fulfilled *)
| PDropped.                      (* oracle: failed / timed out: never fulfilled, forgotten *)

Record pitem := mkItem {
  i_rid : rid; i_due : Z; i_orc : bool; i_ctx : Z; i_st : pstatus
}.

Record pst := mkP { p_h : Z; p_t : Z; p_a : Z; p_items : list pitem; p_dups : list rid }.

Definition pinit : pst := mkP 1 1 0 [] [].

Definition memb {A} `{EqDec A} (x : A) (l : list A) : bool := existsb (eqb x) l.

(** a request the property makes a claim about: its requester made no other request in that
    block, and height + interval is a height (below 2^63) *)
Definition claimed (p : pst) (it : pitem) : bool := negb (memb (i_rid it) (p_dups p)) && (i_due it <? two63).

Definition wf_value (v : list Z) : bool :=
  match v with
  | 48 :: 46 :: ds => (Z.of_nat (length ds) =? 20) && forallb (fun d => (48 <=? d) && (d <=? 57)) ds
  | _ => false
  end.

Definition read_of (o : obs) (id : rid) : option oread := get id (o_reads o).

Definition set_status (it : pitem) (st : pstatus) : pitem := mkItem (i_rid it) (i_due it) (i_orc it) (i_ctx it) st.

(** clause codes:
    1 not fulfilled in the block following height+interval   2 a result exists although none is due (early / never)
    3 a result read back differs from the first read         4 value is not "0." followed by 20 decimal digits
    5 pending queue differs from the requests not yet due    6 equal (app hash, time, requester, seed) gave different values
    7 oracle: not fulfilled when the seed response arrived   8 oracle: state kept / result produced after failure or timeout
    9 what the queries show differs from the proven life cycle ([Spec.v], theorem request_life_cycle) *)

(** transitions; returns the new items and a clause code (0 = fine) *)
Definition fulfil (p : pst) (o : obs) (it : pitem) (t a : Z) (seed : option Z) (missing : Z) : pitem * Z :=
  match read_of o (i_rid it) with
  | Some (Some r) =>
      let '(_, _, v) := r in
      (set_status it (PDone t a seed r), if claimed p it && negb (wf_value v) then 4 else 0)
  | _ => (set_status it PDropped, if claimed p it then missing else 0)
  end.

Fixpoint first_code (l : list Z) : Z :=
  match l with [] => 0 | c :: l' => if c =? 0 then first_code l' else c end.

Definition on_begin (p : pst) (t a : Z) (started : list Z) (o : obs) : pst * Z :=
  let last := p_h p in
  let rs := map (fun it =>
    match i_st it with
    | PPending =>
        if i_due it =? last then
          if i_orc it then (set_status it (if memb (i_ctx it) started then PStarted else PDropped), 0)
          else fulfil p o it t a None 1
        else (it, 0)
    | _ => (it, 0)
    end) (p_items p) in
  (mkP (p_h p + 1) t a (map fst rs) (p_dups p), first_code (map snd rs)).

Definition on_fact (p : pst) (o : obs) (f : svcfact) : pst * Z :=
  let upd (ctx : Z) (g : pitem -> pitem * Z) :=
    let rs := map (fun it => match i_st it with
                             | PStarted => if i_ctx it =? ctx then g it else (it, 0)
                             | _ => (it, 0)
                             end) (p_items p) in
    (mkP (p_h p) (p_t p) (p_a p) (map fst rs) (p_dups p), first_code (map snd rs)) in
  match f with
  | SvcSeed ctx seed => upd ctx (fun it => fulfil p o it (p_t p) (p_a p) (Some seed) 7)
  | SvcNoSeed ctx => upd ctx (fun it => (set_status it PNoSeed, 0))
  | SvcExpired ctx | SvcPaused ctx => upd ctx (fun it => (set_status it PDropped, 0))
  end.

Fixpoint on_facts (p : pst) (o : obs) (fs : list svcfact) : pst * Z :=
  match fs with
  | [] => (p, 0)
  | f :: fs' => let '(p1, c1) := on_fact p o f in
                let '(p2, c2) := on_facts p1 o fs' in (p2, if c1 =? 0 then c2 else c1)
  end.

Definition on_req (p : pst) (c n : Z) (orc : bool) (svc : option Z) : pst :=
  let id := (p_h p, c) in
  let dups := if memb id (map i_rid (p_items p)) then id :: p_dups p else p_dups p in
  let ctx := match svc with Some x => x | None => -1 end in
  mkP (p_h p) (p_t p) (p_a p) (p_items p ++ [mkItem id (p_h p + n) orc ctx PPending]) dups.

(** the clauses that compare the bookkeeping with one observation *)
Definition item_code (p : pst) (o : obs) (it : pitem) : Z :=
  if negb (claimed p it) then 0 else
  let rd := read_of o (i_rid it) in
  let inq := existsb (fun '(d, id, _) => (d =? i_due it) && eqb id (i_rid it)) (o_queue o) in
  let inorc := match get (i_ctx it) (o_oracle o) with Some (Some _) => true | _ => false end in
  match i_st it with
  | PPending => if negb inq then 5 else match rd with Some None => 0 | _ => 2 end
  | PStarted => if inq then 5 else if negb inorc then 7 else match rd with Some None => 0 | _ => 2 end
  | PDone _ _ _ r => if inq then 5 else if i_orc it && inorc then 8
                     else match rd with Some (Some r') => if eqb r' r then 0 else 3 | _ => 3 end
  | PNoSeed => if inq then 5 else match rd with Some None => 0 | _ => 8 end
  | PDropped => if inq then 5 else if i_orc it && inorc then 8
                else match rd with Some None => 0 | _ => if i_orc it then 8 else 2 end
  end.

(** no queue entry under a claimed id other than the pending ones *)
Definition queue_code (p : pst) (o : obs) : Z :=
  if forallb (fun '(d, id, _) =>
       forallb (fun it => negb (eqb (i_rid it) id) || negb (claimed p it)
                          || match i_st it with PPending => d =? i_due it | _ => false end) (p_items p))
     (o_queue o) then 0 else 5.

Definition dep_key (it : pitem) : option (Z * Z * Z * option Z * list Z) :=
  match i_st it with
  | PDone t a seed (_, _, v) => Some (t, a, snd (i_rid it), seed, v)
  | _ => None
  end.

Fixpoint dep_ok (l : list (Z * Z * Z * option Z * list Z)) : bool :=
  match l with
  | [] => true
  | (t, a, c, sd, v) :: l' =>
      forallb (fun '(t', a', c', sd', v') =>
                 negb ((t =? t') && (a =? a') && (c =? c') && eqb sd sd') || eqb v v') l'
      && dep_ok l'
  end.

Definition dep_code (p : pst) : Z :=
  let ks := flat_map (fun it => if claimed p it then match dep_key it with Some k => [k] | None => [] end else [])
                     (p_items p) in
  if dep_ok ks then 0 else 6.

(** ** the proven life cycle, evaluated on the implementation's observations

    Every accepted request is followed by the automaton of [Spec.v] - the one
    [request_life_cycle] (Props/C18.v) proves of the model for every history - fed with the
    block headers and the callbacks the implementation received; after every step what the
    implementation's queries show must be what the phase shows ([view_ok], proved of the
    model's own state as [model_views_ok] in Proofs.v).  The hypotheses of the theorem are
    checked on the way: an item is followed only while its requester has asked at most once per
    block, no block had time 0, and its service context was given to no other request. *)
Record titem := mkT { t_r0 : request; t_d : Z; t_ph : phase; t_live : bool }.

Record tstate := mkTS {
  ts_items : list titem;
  ts_used : list Z;     (* requesters of well-formed requests in the current block *)
  ts_bad : list Z;      (* requesters that asked twice in some block *)
  ts_ok : bool;         (* no block with unix time 0 so far *)
  ts_ctxs : list Z      (* service contexts named by the oracle requests so far, accepted or not *)
}.

Definition tinit : tstate := mkTS [] [] [] true [].

Definition obs_pending (o : obs) (id : rid) : list Z :=
  map (fun e => fst (fst e)) (filter (fun e => eqb (snd (fst e)) id) (o_queue o)).

Definition view_ok (r0 : request) (d : Z) (ph : phase) (o : obs) : bool :=
  let id := req_id r0 in
  eqb (obs_pending o id) (view_pending d ph)
  && eqb (get id (o_reads o)) (Some (option_map show_result (view_result ph)))
  && match ph with
     | Started => eqb (get (q_ctx r0) (o_oracle o)) (Some (Some r0))
     | _ => forallb (fun e => match snd e with Some r => negb (eqb (req_id r) id) | None => true end) (o_oracle o)
     end.

Definition kill (it : titem) : titem := mkT (t_r0 it) (t_d it) (t_ph it) false.

Definition has_ctx (x : Z) (it : titem) : bool := q_oracle (t_r0 it) && (q_ctx (t_r0 it) =? x).

(** is the request still followed after the step?  The hypotheses of [request_life_cycle] are
    re-examined: its service context is named by no other oracle request, its requester does
    not ask twice in a block, no block has time 0 *)
Definition keep (ts : tstate) (st : step) (it : titem) : bool :=
  t_live it &&
  match st with
  | Req c n orc capok txh svc =>
      negb (match (if orc then svc else None) with Some x => has_ctx x it | None => false end)
      && negb (req_ok c capok orc svc && memb c (ts_used ts) && (q_consumer (t_r0 it) =? c))
  | Begin t _ _ => negb (t =? 0)
  | Calls _ => true
  end.

Definition follow (sha : hin -> Z) (s : state) (ts : tstate) (st : step) (it : titem) : titem :=
  mkT (t_r0 it) (t_d it) (spec_step sha (t_r0 it) (t_d it) s (t_ph it) st) (keep ts st it).

(** the tracker after a step ([s] = model state before it; [accepted]: the request was accepted) *)
Definition track_next (sha : hin -> Z) (s : state) (ts : tstate) (st : step) (accepted : bool) : tstate :=
  let items := map (follow sha s ts st) (ts_items ts) in
  match st with
  | Req c n orc capok txh svc =>
      let cx := if orc then svc else None in
      let seen := match cx with Some x => memb x (ts_ctxs ts) | None => false end in
      let ctxs := match cx with Some x => x :: ts_ctxs ts | None => ts_ctxs ts end in
      if req_ok c capok orc svc then
        let bad := if memb c (ts_used ts) then c :: ts_bad ts else ts_bad ts in
        let items := if accepted
                     then items ++ [mkT (new_req s c txh orc svc) (height s + n) Pending
                                        (ts_ok ts && negb (memb c bad) && negb seen && (0 <=? n))]
                     else items in
        mkTS items (c :: ts_used ts) bad (ts_ok ts) ctxs
      else mkTS items (ts_used ts) (ts_bad ts) (ts_ok ts) ctxs
  | Begin t _ _ => mkTS items [] (ts_bad ts) (ts_ok ts && negb (t =? 0)) (ts_ctxs ts)
  | Calls _ => mkTS items (ts_used ts) (ts_bad ts) (ts_ok ts) (ts_ctxs ts)
  end.

Definition views_code (ts : tstate) (o : obs) : Z :=
  if forallb (fun it => negb (t_live it) || view_ok (t_r0 it) (t_d it) (t_ph it) o) (ts_items ts) then 0 else 9.

(** new tracker state and clause code (0 or 9); [agree] = model and implementation agree on the
    outcome, which is not an abort *)
Definition track_step (sha : hin -> Z) (s : state) (ts : tstate) (st : step) (agree accepted : bool) (o : obs)
  : tstate * Z :=
  if negb agree
  then (mkTS (map kill (ts_items ts)) (ts_used ts) (ts_bad ts) false (ts_ctxs ts), 0)
  else let ts' := track_next sha s ts st accepted in (ts', views_code ts' o).

(** one step of the property check: new bookkeeping, clause code (0 = holds), halted *)
Definition prop_step (p : pst) (st : step) (o : obs) : pst * Z * bool :=
  if o_code o =? 2 then (p, 0, true) else
  let '(p1, c1) :=
    match st with
    | Req c n orc _ _ svc => if o_code o =? 0 then (on_req p c n orc svc, 0) else (p, 0)
    | Begin t a started => on_begin p t a started o
    | Calls _ => on_facts p o (o_svc o)
    end in
  let c2 := first_code (map (item_code p1 o) (p_items p1)) in
  (p1, first_code [c1; c2; queue_code p1 o; dep_code p1], false).

Fixpoint check_from (sha : hin -> Z) (s : state) (p : pst) (ts : tstate) (c : list (step * obs)) (i : Z)
         (corr prop code : Z) (halted : bool) : Z * Z * Z :=
  match c with
  | [] => (corr, prop, code)
  | (st, o) :: rest =>
      if halted then (corr, prop, code) else
      let '(out, s', _) := exec_step sha s st in
      let corr' := if (corr <? 0) && negb (corr_step out s' st o) then i else corr in
      let '(p', pc1, h1) := prop_step p st o in
      let agree := match st, o_code o with
                   | Calls [], 1 => true      (* a rejected foreign tx: no callback, nothing changes *)
                   | _, _ => (o_code o =? outcome_code out) && negb (o_code o =? 2)
                   end in
      let accepted := match out with Ok => true | _ => false end in
      let '(ts', pc2) := track_step sha s ts st agree accepted o in
      let pc := if pc1 =? 0 then pc2 else pc1 in
      let fresh := (prop <? 0) && negb (pc =? 0) in
      let h2 := match out with Abort => true | _ => false end in
      check_from sha s' p' ts' rest (i + 1) corr' (if fresh then i else prop) (if fresh then pc else code) (h1 || h2)
  end.

(** (index of the first diverging step or -1, index of the first step violating C18 or -1,
    violated clause) *)
Definition check_case (c : case) : Z * Z * Z :=
  let '(tbl, steps) := c in
  check_from (table_sha tbl) init pinit tinit steps 0 (-1) (-1) 0 false.

(** ** compressed cases

    The driver does not re-print what did not change: the queue and the oracle-request view are
    given only when they differ from the previous observation, the reads only where they differ
    (new ids included), and a value string of the expected shape is given as its numerator.
    [expand] rebuilds the full observations; [check_ccase] is [check_case] on them.
    [compress] is the encoder (the driver's, restated); [compressed_cases_lossless] (Props/C18.v):
    [expand obs0 (compress obs0 l) = l] for EVERY observation sequence. *)
Inductive vstr := VNum (x : Z) | VRaw (l : list Z).
Definition vdecode (v : vstr) : list Z := match v with VNum x => render x | VRaw l => l end.

Definition cread := option (Z * Z * vstr).
Definition dec_read (v : cread) : oread :=
  match v with Some (txh, h, s) => Some (txh, h, vdecode s) | None => None end.

Inductive creads :=
| CDelta (l : list (rid * cread))    (* the reads that differ from the previous observation *)
| CFull (l : list (rid * cread)).    (* all reads *)

Record cobs := mkC {
  c_code : Z;
  c_queue : option (list (Z * rid * request));
  c_reads : creads;
  c_oracle : option (list (Z * option request));
  c_svc : list svcfact
}.

Definition apply_reads (prev : list (rid * oread)) (l : list (rid * cread)) : list (rid * oread) :=
  fold_left (fun m e => set (fst e) (dec_read (snd e)) m) l prev.

Definition expand_obs (prev : obs) (c : cobs) : obs :=
  mkObs (c_code c)
        (match c_queue c with Some q => q | None => o_queue prev end)
        (match c_reads c with
         | CDelta l => apply_reads (o_reads prev) l
         | CFull l => map (fun e => (fst e, dec_read (snd e))) l
         end)
        (match c_oracle c with Some x => x | None => o_oracle prev end)
        (c_svc c).

Fixpoint expand (prev : obs) (l : list (step * cobs)) : list (step * obs) :=
  match l with
  | [] => []
  | (st, c) :: rest => let o := expand_obs prev c in (st, o) :: expand o rest
  end.

Definition obs0 : obs := mkObs 0 [] [] [] [].

Definition ccase := (list (hin * Z) * list (step * cobs))%type.

Definition check_ccase (c : ccase) : Z * Z * Z := check_case (fst c, expand obs0 (snd c)).

(** the encoder *)
Fixpoint undig (l : list Z) (acc : Z) : Z :=
  match l with [] => acc | ch :: l' => undig l' (10 * acc + (ch - 48)) end.

(** a string that is the rendering of its own digits is sent as that number *)
Definition enc_str (v : list Z) : vstr :=
  let x := undig (skipn 2 v) 0 in if eqb (render x) v then VNum x else VRaw v.

Definition enc_read (v : oread) : cread :=
  match v with Some (txh, h, s) => Some (txh, h, enc_str s) | None => None end.

Definition compress_obs (prev o : obs) : cobs :=
  let delta := flat_map (fun e => if eqb (get (fst e) (o_reads prev)) (Some (snd e)) then []
                                  else [(fst e, enc_read (snd e))]) (o_reads o) in
  mkC (o_code o)
      (if eqb (o_queue o) (o_queue prev) then None else Some (o_queue o))
      (if eqb (apply_reads (o_reads prev) delta) (o_reads o) then CDelta delta
       else CFull (map (fun e => (fst e, enc_read (snd e))) (o_reads o)))
      (if eqb (o_oracle o) (o_oracle prev) then None else Some (o_oracle o))
      (o_svc o).

Fixpoint compress (prev : obs) (l : list (step * obs)) : list (step * cobs) :=
  match l with
  | [] => []
  | (st, o) :: rest => (st, compress_obs prev o) :: compress o rest
  end.

Lemma vdecode_enc v : vdecode (enc_str v) = v.
Proof.
  unfold enc_str. destruct (eqb (render (undig (skipn 2 v) 0)) v) eqn:He; [|reflexivity].
  apply (proj1 (eqb_true_iff _ _)) in He. exact He.
Qed.

Lemma dec_enc_read v : dec_read (enc_read v) = v.
Proof. destruct v as [[[txh h] s]|]; simpl; [rewrite vdecode_enc|]; reflexivity. Qed.

Lemma expand_compress_obs prev o : expand_obs prev (compress_obs prev o) = o.
Proof.
  destruct o as [code q rd orc svc]. unfold expand_obs, compress_obs. cbn [c_code c_queue c_reads c_oracle c_svc o_code o_queue o_reads o_oracle o_svc].
  f_equal.
  - destruct (eqb q (o_queue prev)) eqn:He; [apply (proj1 (eqb_true_iff _ _)) in He; congruence|reflexivity].
  - match goal with |- context [eqb ?a rd] => destruct (eqb a rd) eqn:He end.
    + apply (proj1 (eqb_true_iff _ _)) in He. exact He.
    + rewrite map_map. rewrite <- (map_id rd) at 2. apply map_ext. intros [id v]. simpl. rewrite dec_enc_read. reflexivity.
  - destruct (eqb orc (o_oracle prev)) eqn:He; [apply (proj1 (eqb_true_iff _ _)) in He; congruence|reflexivity].
Qed.

Lemma expand_compress l : forall prev, expand prev (compress prev l) = l.
Proof.
  induction l as [|[st o] l IH]; intros prev; simpl; [reflexivity|].
  rewrite expand_compress_obs, IH. reflexivity.
Qed.
