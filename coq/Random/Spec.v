(** * Random: the life of one request as a four-phase automaton, and what each phase shows

    Executable; used by [Proofs.v] (where the model is proved to follow it for every request in
    every history: [life_lemma]) and by [Check.v] (where the implementation's observations are
    compared with it: the predicate evaluated there is the one the theorems are about). *)
From Irismod Require Export Random.Model.

Inductive phase :=
| Pending                 (* in the queue under the due height *)
| Started                 (* oracle: handed to the service, waiting for the seed *)
| Fulfilled (ev : event)  (* the result was written by this fulfilment *)
| Dropped.                (* oracle: the service failed; no result, nothing pending *)

(** the stored result of a fulfilment: request tx hash, height of the previous block, value *)
Definition result_of (ev : event) : result := (e_txh ev, e_block ev - 1, e_val ev).

(** a request message succeeds iff it is well-formed and, for an oracle request, the service
    module created a request context: a function of the step alone *)
Definition req_ok (c : Z) (capok orc : bool) (svc : option Z) : bool :=
  msg_ok c capok && (negb orc || match svc with Some _ => true | None => false end).

Definition new_req (s : state) (c txh : Z) (orc : bool) (svc : option Z) : request :=
  mkReq (height s) c txh orc (if orc then match svc with Some x => x | None => -1 end else -1).

Definition enq (s : state) (n : Z) (r : request) : state :=
  mkState (height s) (time s) (apph s) (set (due_key (height s) n, req_id r) r (queue s))
          (results s) (oracle s).


Section Spec.
  Variable sha : hin -> Z.
  Variable r0 : request.     (* the request: height, requester, tx hash, oracle?, service context *)

  (** one callback from the service module, under the header (hh, tt, aa) of the current block *)
  Definition spec_call (hh tt aa : Z) (ph : phase) (cl : call) : phase :=
    match ph with
    | Started =>
        match cl with
        | CallResp x dta =>
            if x =? q_ctx r0 then
              match dta with
              | CbSeed seed => Fulfilled (mkEv hh tt aa (req_id r0) (q_txh r0) (Some seed)
                                               (rand_val sha tt aa (q_consumer r0) (Some seed)))
              | CbBadBody => Started
              | _ => Dropped
              end
            else Started
        | CallState x ex => if (x =? q_ctx r0) && ex then Dropped else Started
        end
    | _ => ph
    end.

  Variable d : Z.            (* height + interval *)

  (** one step of the chain; [s] is the state before the step (only its header is read) *)
  Definition spec_step (s : state) (ph : phase) (st : step) : phase :=
    match ph, st with
    | Pending, Begin t a started =>
        if height s =? d then
          if q_oracle r0 then (if existsb (Z.eqb (q_ctx r0)) started then Started else Dropped)
          else Fulfilled (mkEv (d + 1) t a (req_id r0) (q_txh r0) None
                               (rand_val sha t a (q_consumer r0) None))
        else Pending
    | Started, Calls cs => fold_left (spec_call (height s) (time s) (apph s)) cs Started
    | _, _ => ph
    end.

  Fixpoint spec_run (s : state) (ph : phase) (steps : list step) : phase :=
    match steps with
    | [] => ph
    | st :: rest => spec_run (step_state sha s st) (spec_step s ph st) rest
    end.
End Spec.

(** what a phase shows: the due heights under which the id sits in the queue, the result read
    back by the id, the oracle request stored under the request's service context, and whether
    any oracle request with this id is stored at all *)
Definition view_pending (d : Z) (ph : phase) : list Z := match ph with Pending => [d] | _ => [] end.
Definition view_result (ph : phase) : option result :=
  match ph with Fulfilled ev => Some (result_of ev) | _ => None end.
Definition view_oracle (r0 : request) (ph : phase) : option request :=
  match ph with Started => Some r0 | _ => None end.
