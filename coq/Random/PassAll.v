(** * Random: the model passes the WHOLE property check on histories of plain requests

    For every history of plain (not oracle-seeded) requests that satisfies the hypotheses of the
    property (no block with time 0, no requester asking twice in a block), [Check.check_from]
    fed the model's own observations never reports a violation of C18: neither of the clauses 1-8
    (bookkeeping from outside) nor of clause 9 (proven life cycle). *)
From Irismod Require Import Random.Model Random.Spec Random.Check Random.Proofs Random.Sound Random.Pass.
Set Default Proof Using "Type".

Section PassAll.
  Variable sha : hin -> Z.

  Definition allP : Z -> bool := fun _ => true.

  Fixpoint plain (steps : list step) : Prop :=
    match steps with
    | [] => True
    | Req c n orc capok txh svc :: rest => orc = false /\ svc = None /\ 0 <= n /\ plain rest
    | _ :: rest => plain rest
    end.

  Lemma plain_app a b : plain (a ++ b) <-> plain a /\ plain b.
  Proof. induction a as [|st a IH]; simpl; [tauto|]. destruct st; rewrite ?IH; tauto. Qed.

  (** the model's trace: after every step the observation the driver would make of the model *)
  Fixpoint model_trace (s : state) (ts : tstate) (steps : list step) : list (step * obs) :=
    match steps with
    | [] => []
    | st :: rest =>
        let out := step_outcome sha s st in
        let s' := step_state sha s st in
        let ts' := track_next sha s ts st (accepted_of out) in
        (st, obs_of s' (outcome_code out) (ids_of ts') (ctxs_of ts') []) :: model_trace s' ts' rest
    end.

  (** what the proven life cycle says about a followed request, in the terms the clauses use *)
  Lemma item_views hist ts it : TInv sha hist ts -> In it (ts_items ts) -> t_live it = true ->
    let s := run sha init hist in
    let id := req_id (t_r0 it) in
    pending s id = view_pending (t_d it) (t_ph it)
    /\ query_random s id = view_result (t_ph it)
    /\ t_d it < two63
    /\ (forall ev, t_ph it = Fulfilled ev ->
          e_rid ev = id /\ e_val ev = rand_val sha (e_time ev) (e_app ev) (snd id) (e_seed ev)).
  Proof.
    intros [_ _ _ Hit] Hin Hl s id.
    destruct (Hit it Hin) as (pre & c & n & orc & capok & txh & svc & post & Hh & Hok & Hiv & Hr0 & Hd & Hph & Hlive).
    destruct (Hlive Hl) as (Hsane & Hn & Hcu).
    assert (Hd63 : height (run sha init pre) + n < two63).
    { unfold interval_ok in Hiv. apply andb_prop in Hiv. destruct Hiv as [_ H2]. apply Z.ltb_lt in H2. exact H2. }
    rewrite Hh in Hsane.
    assert (Hcu' : orc = true -> ctx_unused (new_req (run sha init pre) c txh orc svc) (pre ++ post)).
    { intros Ho. rewrite <- Hr0. apply Hcu. exact Ho. }
    destruct (life_view_lemma sha (Z.eqb c) pre post c n orc capok txh svc Hsane (Z.eqb_refl c) Hok Hn Hd63 Hcu')
      as (H1 & H2 & _ & H4).
    rewrite <- Hr0, <- Hd, <- Hph, <- Hh in H1, H2, H4. fold s id in H1, H2.
    split; [rewrite H1; destruct (t_ph it); reflexivity|].
    split; [rewrite H2; destruct (t_ph it); reflexivity|].
    split; [rewrite Hd; exact Hd63|].
    intros ev Hev. rewrite Hev in H4.
    assert (Hin' : In ev (filter (is_i (t_r0 it)) (events sha init hist))) by (rewrite H4; left; reflexivity).
    apply filter_In in Hin'. destruct Hin' as [Hine His].
    unfold is_i in His. apply (proj1 (eqb_true_iff _ _)) in His.
    rewrite <- Hh in Hsane.
    destruct (fulfilment_value_lemma sha (Z.eqb c) hist ev Hsane Hine) as (_ & Hv & _).
    split; [exact His|]. rewrite Hv, His. reflexivity.
  Qed.

  (** *** the bookkeeping of clauses 1-8 as a function of the tracker *)
  Definition status_of (ph : phase) : pstatus :=
    match ph with
    | Pending => PPending
    | Started => PStarted
    | Fulfilled ev => PDone (e_time ev) (e_app ev) (e_seed ev) (show_result (result_of ev))
    | Dropped => PDropped
    end.

  Definition pit (it : titem) : pitem :=
    mkItem (req_id (t_r0 it)) (t_d it) (q_oracle (t_r0 it)) (q_ctx (t_r0 it)) (status_of (t_ph it)).

  Definition mobs (s : state) (code : Z) (ts : tstate) : obs := obs_of s code (ids_of ts) (ctxs_of ts) [].

  Lemma read_mobs s code ts it : In it (ts_items ts) ->
    read_of (mobs s code ts) (req_id (t_r0 it)) = Some (option_map show_result (query_random s (req_id (t_r0 it)))).
  Proof.
    intros Hin. unfold read_of, mobs, obs_of, query_random. cbn [o_reads].
    apply (get_map_key (fun id => option_map show_result (get id (results s)))).
    unfold ids_of. apply in_map_iff. exists it. auto.
  Qed.

  Definition inq (q : list (Z * rid * request)) (d : Z) (id : rid) : bool :=
    existsb (fun '(d', id', _) => (d' =? d) && eqb id' id) q.

  Lemma inq_spec q d id :
    inq q d id = true <-> In d (map (fun e => fst (fst e)) (filter (fun e => eqb (snd (fst e)) id) q)).
  Proof.
    unfold inq. rewrite existsb_exists, in_map_iff. split.
    - intros ([[d' id'] r] & Hin & Hb). apply andb_prop in Hb. destruct Hb as [Hd Hi].
      apply Z.eqb_eq in Hd. exists ((d', id'), r). split; [exact Hd|]. apply filter_In. split; [exact Hin|exact Hi].
    - intros ([[d' id'] r] & Hd & Hin). apply filter_In in Hin. destruct Hin as [Hin Hi]. simpl in *.
      exists ((d', id'), r). split; [exact Hin|]. rewrite Hi, andb_true_r. apply Z.eqb_eq. exact Hd.
  Qed.

  Lemma inq_pending s d id : inq (queue s) d id = true <-> In d (pending s id).
  Proof. apply inq_spec. Qed.

  Lemma wf_value_render x : 0 <= x < precision -> wf_value (render x) = true.
  Proof.
    intros Hx. destruct (render_value x Hx) as (ds & Hr & Hlen & Hch & _). rewrite Hr. simpl.
    rewrite Hlen. simpl. apply forallb_forall. intros ch Hin.
    rewrite Forall_forall in Hch. specialize (Hch ch Hin). apply andb_true_intro. split; apply Z.leb_le; lia.
  Qed.

  (** a followed plain request, seen through the queries of the state it is in *)
  Record seen (s : state) (it : titem) : Prop := mkSeen {
    sn_plain : q_oracle (t_r0 it) = false;
    sn_phase : t_ph it = Pending \/ exists ev, t_ph it = Fulfilled ev;
    sn_pend : pending s (req_id (t_r0 it)) = view_pending (t_d it) (t_ph it);
    sn_res : query_random s (req_id (t_r0 it)) = view_result (t_ph it);
    sn_due : t_d it < two63;
    sn_val : forall ev, t_ph it = Fulfilled ev ->
               e_rid ev = req_id (t_r0 it)
               /\ e_val ev = rand_val sha (e_time ev) (e_app ev) (snd (req_id (t_r0 it))) (e_seed ev)
  }.

  Lemma claimed_pit p it : p_dups p = [] -> t_d it < two63 -> claimed p (pit it) = true.
  Proof. intros Hd Hlt. unfold claimed, pit. cbn [i_rid i_due]. rewrite Hd. simpl. apply Z.ltb_lt. exact Hlt. Qed.

  Lemma item_code_ok p s code ts it : p_dups p = [] -> In it (ts_items ts) -> seen s it ->
    item_code p (mobs s code ts) (pit it) = 0.
  Proof.
    intros Hd Hin [Hpl Hph Hpe Hre Hdue Hval].
    pose proof (claimed_pit p it Hd Hdue) as Hcl. pose proof (read_mobs s code ts it Hin) as Hrd.
    unfold pit in *. unfold item_code. cbn [i_rid i_due i_st i_orc i_ctx]. rewrite Hcl, Hrd, Hre. cbn [negb].
    change (existsb (fun '(d, id, _) => (d =? t_d it) && eqb id (req_id (t_r0 it))) (o_queue (mobs s code ts)))
      with (inq (queue s) (t_d it) (req_id (t_r0 it))).
    destruct Hph as [Hp|[ev Hp]]; rewrite Hp in *; cbn [status_of view_result option_map].
    - replace (inq (queue s) (t_d it) (req_id (t_r0 it))) with true; [reflexivity|].
      symmetry. apply inq_pending. rewrite Hpe. left. reflexivity.
    - replace (inq (queue s) (t_d it) (req_id (t_r0 it))) with false.
      + rewrite Hpl. cbn [andb]. rewrite eqb_refl. reflexivity.
      + symmetry. destruct (inq (queue s) (t_d it) (req_id (t_r0 it))) eqn:Hq; [|reflexivity].
        apply inq_pending in Hq. rewrite Hpe in Hq. destruct Hq.
  Qed.

  Lemma first_code_zero l : (forall c, In c l -> c = 0) -> first_code l = 0.
  Proof.
    induction l as [|c l IH]; intros Hall; simpl; [reflexivity|].
    rewrite (Hall c) by (left; reflexivity). simpl. apply IH. intros c' Hc'. apply Hall. right. exact Hc'.
  Qed.

  Lemma queue_code_ok p s code ts :
    p_items p = map pit (ts_items ts) -> (forall it, In it (ts_items ts) -> seen s it) ->
    queue_code p (mobs s code ts) = 0.
  Proof.
    intros Hitems Hseen. unfold queue_code.
    match goal with |- (if ?b then _ else _) = _ => assert (Hb : b = true); [|rewrite Hb; reflexivity] end.
    apply forallb_forall. intros [[d' id'] r] Hq. apply forallb_forall. intros pi Hpi.
    rewrite Hitems in Hpi. apply in_map_iff in Hpi. destruct Hpi as (it & <- & Hin).
    destruct (Hseen it Hin) as [Hpl Hph Hpe Hre Hdue Hval]. unfold pit at 1. cbn [i_rid].
    destruct (eqb (req_id (t_r0 it)) id') eqn:He; [|reflexivity]. cbn [negb orb].
    apply (proj1 (eqb_true_iff _ _)) in He. subst id'.
    assert (Hd' : In d' (pending s (req_id (t_r0 it)))).
    { apply inq_pending. unfold inq. apply existsb_exists. exists ((d', req_id (t_r0 it)), r).
      split; [exact Hq|]. rewrite Z.eqb_refl, eqb_refl. reflexivity. }
    rewrite Hpe in Hd'. apply orb_true_iff. right. unfold pit. cbn [i_st i_due].
    destruct Hph as [Hp|[ev Hp]]; rewrite Hp in *; simpl in Hd' |- *.
    - destruct Hd' as [<-|[]]. apply Z.eqb_refl.
    - destruct Hd'.
  Qed.

  Definition good_key (k : Z * Z * Z * option Z * list Z) : Prop :=
    let '(t, a, c, sd, v) := k in v = render (rand_val sha t a c sd).

  Lemma dep_ok_good l : (forall k, In k l -> good_key k) -> dep_ok l = true.
  Proof.
    induction l as [|[[[[t a] c] sd] v] l IH]; intros Hg; simpl; [reflexivity|].
    apply andb_true_intro. split; [|apply IH; intros k Hk; apply Hg; right; exact Hk].
    apply forallb_forall. intros [[[[t' a'] c'] sd'] v'] Hin.
    destruct ((t =? t') && (a =? a') && (c =? c') && eqb sd sd') eqn:He; [|reflexivity]. simpl.
    apply andb_prop in He. destruct He as [He Hs]. apply andb_prop in He. destruct He as [He Hc].
    apply andb_prop in He. destruct He as [Ht Ha].
    apply Z.eqb_eq in Ht. apply Z.eqb_eq in Ha. apply Z.eqb_eq in Hc. apply (proj1 (eqb_true_iff _ _)) in Hs. subst.
    pose proof (Hg _ (or_introl eq_refl)) as H1. pose proof (Hg _ (or_intror Hin)) as H2.
    simpl in H1, H2. rewrite H1, H2. apply eqb_refl.
  Qed.

  Lemma dep_code_ok p s ts :
    p_items p = map pit (ts_items ts) -> (forall it, In it (ts_items ts) -> seen s it) ->
    dep_code p = 0.
  Proof.
    intros Hitems Hseen. unfold dep_code.
    match goal with |- (if ?b then _ else _) = _ => assert (Hb : b = true); [|rewrite Hb; reflexivity] end.
    apply dep_ok_good. intros k Hk. apply in_flat_map in Hk. destruct Hk as (pi & Hpi & Hk).
    rewrite Hitems in Hpi. apply in_map_iff in Hpi. destruct Hpi as (it & <- & Hin).
    destruct (Hseen it Hin) as [Hpl Hph Hpe Hre Hdue Hval].
    destruct (claimed p (pit it)); [|destruct Hk].
    unfold dep_key, pit in Hk. cbn [i_st i_rid] in Hk.
    destruct Hph as [Hp|[ev Hp]]; rewrite Hp in Hk; cbn [status_of] in Hk; [destruct Hk|].
    unfold show_result, result_of in Hk. destruct Hk as [<-|[]].
    destruct (Hval ev Hp) as [_ Hv]. unfold good_key. rewrite Hv. reflexivity.
  Qed.

  (** *** the invariant tying the bookkeeping of clauses 1-8 to the tracker, on plain histories *)
  Record GInv (hist : list step) (ts : tstate) (p : pst) : Prop := mkGInv {
    g_t : TInv sha hist ts;
    g_live : forall it, In it (ts_items ts) ->
               t_live it = true /\ q_oracle (t_r0 it) = false
               /\ (t_ph it = Pending \/ exists ev, t_ph it = Fulfilled ev);
    g_ok : ts_ok ts = true;
    g_bad : ts_bad ts = [];
    g_h : p_h p = height (run sha init hist);
    g_tm : p_t p = time (run sha init hist);
    g_a : p_a p = apph (run sha init hist);
    g_dups : p_dups p = [];
    g_items : p_items p = map pit (ts_items ts)
  }.

  Lemma GInv_seen hist ts p : GInv hist ts p -> forall it, In it (ts_items ts) -> seen (run sha init hist) it.
  Proof.
    intros G it Hin. destruct (g_live _ _ _ G it Hin) as (Hl & Hpl & Hph).
    destruct (item_views hist ts it (g_t _ _ _ G) Hin Hl) as (H1 & H2 & H3 & H4).
    constructor; assumption.
  Qed.

  Lemma codes_zero hist ts p code : GInv hist ts p ->
    let o := mobs (run sha init hist) code ts in
    first_code [0; first_code (map (item_code p o) (p_items p)); queue_code p o; dep_code p] = 0.
  Proof.
    intros G o. pose proof (GInv_seen hist ts p G) as Hseen.
    apply first_code_zero. intros c [<-|[<-|[<-|[<-|[]]]]].
    - reflexivity.
    - apply first_code_zero. intros c Hc. apply in_map_iff in Hc. destruct Hc as (pi & <- & Hpi).
      rewrite (g_items _ _ _ G) in Hpi. apply in_map_iff in Hpi. destruct Hpi as (it & <- & Hin).
      apply item_code_ok; [exact (g_dups _ _ _ G)|exact Hin|apply Hseen; exact Hin].
    - apply queue_code_ok; [exact (g_items _ _ _ G)|exact Hseen].
    - apply (dep_code_ok p (run sha init hist) ts); [exact (g_items _ _ _ G)|exact Hseen].
  Qed.

  Lemma spec_step_req r0 d s ph c n orc capok txh svc :
    spec_step sha r0 d s ph (Req c n orc capok txh svc) = ph.
  Proof. destruct ph; reflexivity. Qed.

  Lemma spec_step_calls_plain r0 d s ph cs :
    ph = Pending \/ (exists ev, ph = Fulfilled ev) -> spec_step sha r0 d s ph (Calls cs) = ph.
  Proof. intros [->|[ev ->]]; reflexivity. Qed.

  Lemma spec_step_begin_plain r0 d s ph t a started : q_oracle r0 = false ->
    ph = Pending \/ (exists ev, ph = Fulfilled ev) ->
    let ph' := spec_step sha r0 d s ph (Begin t a started) in
    ph' = Pending \/ exists ev, ph' = Fulfilled ev.
  Proof.
    intros Hpl [->|[ev ->]]; cbn [spec_step].
    - destruct (height s =? d); [rewrite Hpl; right; eexists; reflexivity|left; reflexivity].
    - right. exists ev. reflexivity.
  Qed.

  (** a requester whose request was made in the current block is among the block's requesters *)
  Lemma used_keeps c post : forall s u, Base u s -> sane allP u post ->
    height (run sha s post) = height s -> In c u -> In c (used_after u post).
  Proof.
    induction post as [|st post IH]; intros s u Hb Hs Hh Hin; [exact Hin|].
    apply sane_cons in Hs. destruct Hs as [Hs1 Hs2].
    pose proof (step_height sha allP u s st Hb Hs1) as H1.
    pose proof (Base_step sha allP u s st Hb Hs1) as Hb1.
    pose proof (run_height sha allP post _ _ Hb1 Hs2) as H2. simpl in Hh.
    assert (Hsame : height (step_state sha s st) = height s) by lia.
    replace (used_after u (st :: post)) with (used_after (used_step u st) post) by (destruct st; reflexivity).
    apply (IH _ _ Hb1 Hs2); [simpl in Hh; lia|].
    destruct st as [c' n orc capok txh svc|t a started|cs]; unfold used_step; simpl.
    - destruct (req_ok c' capok orc svc); [right|]; exact Hin.
    - exfalso. destruct Hs1 as [Htz _]. unfold step_state, exec_step in Hsame.
      rewrite (begin_block_nz sha s t a started Htz) in Hsame. simpl in Hsame. lia.
    - exact Hin.
  Qed.

  Lemma fresh_id hist ts p c : GInv hist ts p -> sane allP [] hist ->
    ~ In c (used_after [] hist) ->
    memb (height (run sha init hist), c) (map i_rid (p_items p)) = false.
  Proof.
    intros G Hs Hnu. destruct (memb (height (run sha init hist), c) (map i_rid (p_items p))) eqn:Hm; [|reflexivity].
    exfalso. apply memb_In in Hm. rewrite (g_items _ _ _ G), map_map in Hm. apply in_map_iff in Hm.
    destruct Hm as (it & Hid & Hin). unfold pit in Hid. cbn [i_rid] in Hid.
    destruct (ti_items _ _ _ (g_t _ _ _ G) it Hin)
      as (pre & c' & n & orc & capok & txh & svc & post & Hh & Hok & Hiv & Hr0 & _).
    rewrite Hr0 in Hid. unfold new_req, req_id in Hid. simpl in Hid. inversion Hid as [[Hhh Hc]]. subst c'.
    apply Hnu. rewrite Hh in Hs |- *. rewrite used_after_app. simpl. rewrite Hok.
    apply sane_app in Hs. destruct Hs as [Hs1 Hs2]. apply sane_cons in Hs2. destruct Hs2 as [Hs2 Hs3].
    unfold used_step in Hs3. simpl in Hs3. rewrite Hok in Hs3.
    pose proof (Base_run sha allP pre [] init Base_init Hs1) as Hb.
    pose proof (Base_step sha allP _ _ _ Hb Hs2) as Hb1. unfold used_step in Hb1. simpl in Hb1. rewrite Hok in Hb1.
    apply (used_keeps c post _ _ Hb1 Hs3); [|left; reflexivity].
    rewrite Hh, run_app in Hhh. simpl in Hhh. rewrite <- Hhh.
    unfold step_state. rewrite exec_req, Hok, Hiv. reflexivity.
  Qed.

  Lemma keep_true hist ts p st : GInv hist ts p -> sane allP (used_after [] hist) [st] -> plain [st] ->
    forall it, In it (ts_items ts) -> keep ts st it = true.
  Proof.
    intros G Hs Hp it Hin. destruct (g_live _ _ _ G it Hin) as (Hl & _). unfold keep. rewrite Hl. simpl.
    destruct st as [c n orc capok txh svc|t a started|cs]; [| |reflexivity].
    - destruct Hp as (-> & -> & _). simpl in Hs. simpl.
      destruct (req_ok c capok false None) eqn:Hok; [|reflexivity]. destruct Hs as [Hnew _].
      replace (memb c (ts_used ts)) with false; [reflexivity|].
      symmetry. destruct (memb c (ts_used ts)) eqn:Hm; [|reflexivity]. exfalso.
      apply memb_In in Hm. rewrite (ti_used _ _ _ (g_t _ _ _ G)) in Hm. apply Hnew; [reflexivity|exact Hm].
    - destruct Hs as [Htz _]. apply negb_true_iff. apply Z.eqb_neq. exact Htz.
  Qed.

  Lemma pit_follow_same hist ts p st it : GInv hist ts p -> In it (ts_items ts) ->
    match st with Begin _ _ _ => False | _ => True end ->
    pit (follow sha (run sha init hist) ts st it) = pit it.
  Proof.
    intros G Hin Hst. destruct (g_live _ _ _ G it Hin) as (_ & _ & Hph).
    unfold pit, follow. cbn [t_r0 t_d t_ph]. destruct st as [c n orc capok txh svc|t a started|cs]; [|destruct Hst|].
    - rewrite spec_step_req. reflexivity.
    - rewrite (spec_step_calls_plain _ _ _ _ _ Hph). reflexivity.
  Qed.

  Lemma map_pit_follow hist ts p st : GInv hist ts p ->
    match st with Begin _ _ _ => False | _ => True end ->
    map pit (map (follow sha (run sha init hist) ts st) (ts_items ts)) = map pit (ts_items ts).
  Proof.
    intros G Hst. rewrite map_map. apply map_ext_in. intros it Hin. apply (pit_follow_same hist ts p st it G Hin Hst).
  Qed.

  Lemma follow_live hist ts p st it : GInv hist ts p -> sane allP (used_after [] hist) [st] -> plain [st] ->
    In it (ts_items ts) ->
    let it' := follow sha (run sha init hist) ts st it in
    t_live it' = true /\ q_oracle (t_r0 it') = false /\ (t_ph it' = Pending \/ exists ev, t_ph it' = Fulfilled ev).
  Proof.
    intros G Hs Hp Hin it'. destruct (g_live _ _ _ G it Hin) as (Hl & Hpl & Hph).
    unfold it', follow. cbn [t_live t_r0 t_ph]. split; [apply (keep_true hist ts p st G Hs Hp it Hin)|]. split; [exact Hpl|].
    destruct st as [c n orc capok txh svc|t a started|cs].
    - rewrite spec_step_req. exact Hph.
    - apply spec_step_begin_plain; assumption.
    - rewrite (spec_step_calls_plain _ _ _ _ _ Hph). exact Hph.
  Qed.

  (** requests and callbacks *)
  Lemma GInv_step_req hist ts p c n orc capok txh svc :
    let st := Req c n orc capok txh svc in
    GInv hist ts p -> sane allP [] (hist ++ [st]) -> plain [st] ->
    let s := run sha init hist in
    let out := step_outcome sha s st in
    let ts' := track_next sha s ts st (accepted_of out) in
    let o := mobs (run sha init (hist ++ [st])) (outcome_code out) ts' in
    exists p', prop_step p st o = (p', 0, false) /\ GInv (hist ++ [st]) ts' p'.
  Proof.
    intros st G Hs Hp s out ts' o. subst st.
    pose proof (TInv_step sha hist ts (Req c n orc capok txh svc) (g_t _ _ _ G)) as T'. fold s out ts' in T'.
    apply sane_snoc in Hs. destruct Hs as [Hs_h Hs_st].
    pose proof (follow_live hist ts p (Req c n orc capok txh svc)) as Hfl.
    destruct Hp as (Horc & Hsvc & Hn & _). subst orc svc.
    assert (Hout : out = if req_ok c capok false None then (if interval_ok (height s) n then Ok else Rej) else Rej).
    { unfold out, step_outcome. rewrite exec_req. destruct (req_ok c capok false None); [destruct (interval_ok (height s) n)|]; reflexivity. }
    assert (Hs' : run sha init (hist ++ [Req c n false capok txh None]) =
                  if req_ok c capok false None && interval_ok (height s) n then enq s n (new_req s c txh false None) else s).
    { rewrite run_snoc. fold s. unfold step_state. rewrite exec_req.
      destruct (req_ok c capok false None); [destruct (interval_ok (height s) n)|]; reflexivity. }
    assert (Hmemb : req_ok c capok false None = true -> memb c (ts_used ts) = false).
    { intros Hok. simpl in Hs_st. rewrite Hok in Hs_st. destruct Hs_st as [Hnew _].
      destruct (memb c (ts_used ts)) eqn:Hm; [|reflexivity]. exfalso. apply memb_In in Hm.
      rewrite (ti_used _ _ _ (g_t _ _ _ G)) in Hm. apply Hnew; [reflexivity|exact Hm]. }
    assert (Hplain_st : plain [Req c n false capok txh None]) by (simpl; auto).
    destruct (req_ok c capok false None && interval_ok (height s) n) eqn:Hacc.
    - (* accepted *)
      apply andb_prop in Hacc. destruct Hacc as [Hok Hiv]. rewrite Hok, Hiv in Hout.
      exists (on_req p c n false None).
      assert (G' : GInv (hist ++ [Req c n false capok txh None]) ts' (on_req p c n false None)).
      { unfold ts', track_next. rewrite Hout. cbn [accepted_of]. rewrite Hok, (Hmemb Hok).
        constructor; cbn [ts_items ts_ok ts_bad on_req p_h p_t p_a p_dups p_items].
        - unfold ts', track_next in T'. rewrite Hout in T'. cbn [accepted_of] in T'.
          rewrite Hok, (Hmemb Hok) in T'. exact T'.
        - intros it Hin. apply in_app_iff in Hin. destruct Hin as [Hin|[<-|[]]].
          + apply in_map_iff in Hin. destruct Hin as (it0 & <- & Hin0). apply (Hfl it0 G Hs_st Hplain_st Hin0).
          + cbn [t_live t_r0 t_ph]. rewrite (g_ok _ _ _ G), (g_bad _ _ _ G). simpl.
            split; [apply Z.leb_le; exact Hn|]. split; [reflexivity|left; reflexivity].
        - exact (g_ok _ _ _ G).
        - exact (g_bad _ _ _ G).
        - rewrite Hs'. rewrite ?Hok, ?Hiv. simpl. exact (g_h _ _ _ G).
        - rewrite Hs'. rewrite ?Hok, ?Hiv. simpl. exact (g_tm _ _ _ G).
        - rewrite Hs'. rewrite ?Hok, ?Hiv. simpl. exact (g_a _ _ _ G).
        - rewrite (g_h _ _ _ G).
          rewrite (fresh_id hist ts p c G Hs_h).
          + exact (g_dups _ _ _ G).
          + simpl in Hs_st. rewrite Hok in Hs_st. destruct Hs_st as [Hnew _]. apply Hnew. reflexivity.
        - unfold s. rewrite map_app, (map_pit_follow hist ts p (Req c n false capok txh None) G I), (g_items _ _ _ G), (g_h _ _ _ G). reflexivity. }
      split; [|exact G'].
      unfold prop_step. replace (o_code o) with 0 by (unfold o, mobs, obs_of; rewrite Hout; reflexivity).
      simpl (0 =? 2). cbn iota. simpl (0 =? 0). cbn iota.
      pose proof (codes_zero _ _ _ (outcome_code out) G') as Hz. cbv zeta in Hz. fold o in Hz. rewrite Hz. reflexivity.
    - (* rejected *)
      exists p.
      assert (Hrej : out = Rej).
      { rewrite Hout. destruct (req_ok c capok false None); [destruct (interval_ok (height s) n)|]; try reflexivity. discriminate. }
      assert (G' : GInv (hist ++ [Req c n false capok txh None]) ts' p).
      { assert (Hitems : ts_items ts' = map (follow sha s ts (Req c n false capok txh None)) (ts_items ts) /\ ts_ok ts' = true /\ ts_bad ts' = []).
        { unfold ts', track_next. rewrite Hrej. cbn [accepted_of].
          destruct (req_ok c capok false None) eqn:Hok; cbn [ts_items ts_ok ts_bad].
          - rewrite (Hmemb eq_refl). auto using (g_ok _ _ _ G), (g_bad _ _ _ G).
          - auto using (g_ok _ _ _ G), (g_bad _ _ _ G). }
        destruct Hitems as (Hi & Hokk & Hbad).
        constructor; try assumption.
        - intros it Hin. rewrite Hi in Hin. apply in_map_iff in Hin. destruct Hin as (it0 & <- & Hin0).
          apply (Hfl it0 G Hs_st Hplain_st Hin0).
        - rewrite Hs'. exact (g_h _ _ _ G).
        - rewrite Hs'. exact (g_tm _ _ _ G).
        - rewrite Hs'. exact (g_a _ _ _ G).
        - exact (g_dups _ _ _ G).
        - rewrite Hi. unfold s. rewrite (map_pit_follow hist ts p (Req c n false capok txh None) G I). exact (g_items _ _ _ G). }
      split; [|exact G'].
      unfold prop_step. replace (o_code o) with 1 by (unfold o, mobs, obs_of; rewrite Hrej; reflexivity).
      simpl (1 =? 2). cbn iota. simpl (1 =? 0). cbn iota.
      pose proof (codes_zero _ _ _ (outcome_code out) G') as Hz. cbv zeta in Hz. fold o in Hz. rewrite Hz. reflexivity.
  Qed.

  Lemma seen_item hist ts it : TInv sha hist ts -> In it (ts_items ts) ->
    t_live it = true -> q_oracle (t_r0 it) = false ->
    (t_ph it = Pending \/ exists ev, t_ph it = Fulfilled ev) -> seen (run sha init hist) it.
  Proof.
    intros T Hin Hl Hpl Hph. destruct (item_views hist ts it T Hin Hl) as (H1 & H2 & H3 & H4).
    constructor; assumption.
  Qed.

  Lemma GInv_step_calls hist ts p cs :
    let st := Calls cs in
    GInv hist ts p -> sane allP [] (hist ++ [st]) ->
    let s := run sha init hist in
    let out := step_outcome sha s st in
    let ts' := track_next sha s ts st (accepted_of out) in
    let o := mobs (run sha init (hist ++ [st])) (outcome_code out) ts' in
    exists p', prop_step p st o = (p', 0, false) /\ GInv (hist ++ [st]) ts' p'.
  Proof.
    intros st G Hs s out ts' o. subst st.
    pose proof (TInv_step sha hist ts (Calls cs) (g_t _ _ _ G)) as T'. fold s out ts' in T'.
    apply sane_snoc in Hs. destruct Hs as [Hs_h Hs_st].
    pose proof (Base_run sha allP hist [] init Base_init Hs_h) as Hb. fold s in Hb.
    assert (Hout : out = Ok).
    { unfold out, step_outcome, exec_step. rewrite (exec_calls_nz sha cs s (b_t _ _ Hb)). reflexivity. }
    assert (Hs' : run sha init (hist ++ [Calls cs]) = calls_state sha s cs).
    { rewrite run_snoc. fold s. unfold step_state, exec_step. rewrite (exec_calls_nz sha cs s (b_t _ _ Hb)). reflexivity. }
    destruct (calls_state_sub sha cs s) as (Hh & Ht & Ha & _).
    exists p.
    assert (G' : GInv (hist ++ [Calls cs]) ts' p).
    { constructor.
      - exact T'.
      - intros it Hin. unfold ts', track_next in Hin. cbn [ts_items] in Hin.
        apply in_map_iff in Hin. destruct Hin as (it0 & <- & Hin0).
        apply (follow_live hist ts p (Calls cs) it0 G Hs_st I Hin0).
      - exact (g_ok _ _ _ G).
      - exact (g_bad _ _ _ G).
      - rewrite Hs', Hh. exact (g_h _ _ _ G).
      - rewrite Hs', Ht. exact (g_tm _ _ _ G).
      - rewrite Hs', Ha. exact (g_a _ _ _ G).
      - exact (g_dups _ _ _ G).
      - unfold ts', track_next. cbn [ts_items]. unfold s.
        rewrite (map_pit_follow hist ts p (Calls cs) G I). exact (g_items _ _ _ G). }
    split; [|exact G'].
    unfold prop_step. replace (o_code o) with 0 by (unfold o, mobs, obs_of; rewrite Hout; reflexivity).
    simpl (0 =? 2). cbn iota.
    replace (o_svc o) with (@nil svcfact) by reflexivity. cbn [on_facts].
    pose proof (codes_zero _ _ _ (outcome_code out) G') as Hz. cbv zeta in Hz. fold o in Hz. rewrite Hz. reflexivity.
  Qed.

  (** the block boundary: the due plain requests are read back as fulfilled *)
  Definition begin_fn (p : pst) (o : obs) (t a : Z) (started : list Z) (it : pitem) : pitem * Z :=
    match i_st it with
    | PPending =>
        if i_due it =? p_h p then
          if i_orc it then (set_status it (if memb (i_ctx it) started then PStarted else PDropped), 0)
          else fulfil p o it t a None 1
        else (it, 0)
    | _ => (it, 0)
    end.

  Lemma on_begin_eq p t a started o :
    on_begin p t a started o =
    (mkP (p_h p + 1) t a (map fst (map (begin_fn p o t a started) (p_items p))) (p_dups p),
     first_code (map snd (map (begin_fn p o t a started) (p_items p)))).
  Proof. reflexivity. Qed.

  Lemma begin_item hist ts p t a started ts' code it :
    GInv hist ts p -> TInv sha (hist ++ [Begin t a started]) ts' ->
    In it (ts_items ts) ->
    let s := run sha init hist in
    let it' := follow sha s ts (Begin t a started) it in
    In it' (ts_items ts') -> t_live it' = true ->
    begin_fn p (mobs (run sha init (hist ++ [Begin t a started])) code ts') t a started (pit it) = (pit it', 0).
  Proof.
    intros G T' Hin s it' Hin' Hl'.
    destruct (g_live _ _ _ G it Hin) as (Hl & Hpl & Hph).
    assert (Hpl' : q_oracle (t_r0 it') = false) by exact Hpl.
    assert (Hph' : t_ph it' = Pending \/ exists ev, t_ph it' = Fulfilled ev).
    { unfold it', follow. cbn [t_ph]. apply spec_step_begin_plain; assumption. }
    pose proof (seen_item _ _ it' T' Hin' Hl' Hpl' Hph') as Hseen.
    pose proof (read_mobs (run sha init (hist ++ [Begin t a started])) code ts' it' Hin') as Hrd.
    rewrite (sn_res _ _ Hseen) in Hrd.
    unfold begin_fn, pit at 1 2 3 4. cbn [i_st i_due i_orc i_ctx]. rewrite (g_h _ _ _ G). fold s.
    destruct Hph as [Hp|[ev Hp]]; rewrite Hp; cbn [status_of].
    - destruct (Z.eqb_spec (t_d it) (height s)) as [Heq|Hne].
      + rewrite Hpl. unfold fulfil. cbn [i_rid pit]. 
        change (req_id (t_r0 it)) with (req_id (t_r0 it')). rewrite Hrd.
        unfold it', follow. cbn [t_ph t_r0 t_d]. rewrite Hp. cbn [spec_step].
        rewrite <- Heq, Z.eqb_refl, Hpl. cbn [view_result option_map show_result result_of e_txh e_block e_val].
        rewrite (wf_value_render _ (rand_val_range sha t a (q_consumer (t_r0 it)) None)).
        rewrite andb_false_r. unfold pit, set_status. cbn [i_rid i_due i_orc i_ctx t_r0 t_d t_ph status_of e_time e_app e_seed].
        reflexivity.
      + unfold it', follow, pit. cbn [t_ph t_r0 t_d]. rewrite Hp. cbn [spec_step].
        replace (height s =? t_d it) with false by (symmetry; apply Z.eqb_neq; congruence). reflexivity.
    - unfold it', follow, pit. cbn [t_ph t_r0 t_d]. rewrite Hp. reflexivity.
  Qed.

  Lemma GInv_step_begin hist ts p t a started :
    let st := Begin t a started in
    GInv hist ts p -> sane allP [] (hist ++ [st]) ->
    let s := run sha init hist in
    let out := step_outcome sha s st in
    let ts' := track_next sha s ts st (accepted_of out) in
    let o := mobs (run sha init (hist ++ [st])) (outcome_code out) ts' in
    exists p', prop_step p st o = (p', 0, false) /\ GInv (hist ++ [st]) ts' p'.
  Proof.
    intros st G Hs s out ts' o. subst st.
    pose proof (TInv_step sha hist ts (Begin t a started) (g_t _ _ _ G)) as T'. fold s out ts' in T'.
    apply sane_snoc in Hs. destruct Hs as [Hs_h Hs_st]. pose proof Hs_st as [Htz _].
    assert (Hout : out = Ok).
    { unfold out, step_outcome, exec_step. rewrite (begin_block_nz sha s t a started Htz). reflexivity. }
    assert (Hs' : height (run sha init (hist ++ [Begin t a started])) = height s + 1
                  /\ time (run sha init (hist ++ [Begin t a started])) = t
                  /\ apph (run sha init (hist ++ [Begin t a started])) = a).
    { rewrite run_snoc. fold s. unfold step_state, exec_step. rewrite (begin_block_nz sha s t a started Htz). auto. }
    destruct Hs' as (Hh & Ht & Ha).
    assert (Hitems : ts_items ts' = map (follow sha s ts (Begin t a started)) (ts_items ts)) by reflexivity.
    assert (Hlive : forall it, In it (ts_items ts) ->
              let it' := follow sha s ts (Begin t a started) it in
              t_live it' = true /\ q_oracle (t_r0 it') = false
              /\ (t_ph it' = Pending \/ exists ev, t_ph it' = Fulfilled ev)).
    { intros it Hin. apply (follow_live hist ts p (Begin t a started) it G Hs_st I Hin). }
    set (p' := mkP (p_h p + 1) t a (map pit (ts_items ts')) []).
    exists p'.
    assert (G' : GInv (hist ++ [Begin t a started]) ts' p').
    { constructor; cbn [p' p_h p_t p_a p_dups p_items]; auto.
      - intros it Hin. rewrite Hitems in Hin. apply in_map_iff in Hin. destruct Hin as (it0 & <- & Hin0).
        apply (Hlive it0 Hin0).
      - unfold ts', track_next. cbn [ts_ok]. rewrite (g_ok _ _ _ G). simpl.
        apply negb_true_iff. apply Z.eqb_neq. exact Htz.
      - exact (g_bad _ _ _ G).
      - rewrite Hh, (g_h _ _ _ G). reflexivity. }
    split; [|exact G'].
    unfold prop_step. replace (o_code o) with 0 by (unfold o, mobs, obs_of; rewrite Hout; reflexivity).
    simpl (0 =? 2). cbn iota. rewrite on_begin_eq, (g_items _ _ _ G), (g_dups _ _ _ G).
    assert (Hmap : map (begin_fn p o t a started) (map pit (ts_items ts))
                   = map (fun it => (pit (follow sha s ts (Begin t a started) it), 0)) (ts_items ts)).
    { rewrite map_map. apply map_ext_in. intros it Hin.
      apply (begin_item hist ts p t a started ts' (outcome_code out) it G T' Hin).
      - rewrite Hitems. apply in_map. exact Hin.
      - apply (Hlive it Hin). }
    rewrite Hmap, !map_map. cbn [fst snd].
    replace (map (fun it => pit (follow sha s ts (Begin t a started) it)) (ts_items ts)) with (map pit (ts_items ts'))
      by (rewrite Hitems, map_map; reflexivity).
    fold p'.
    replace (first_code (map (fun _ : titem => 0) (ts_items ts))) with 0
      by (symmetry; apply first_code_zero; intros c Hc; apply in_map_iff in Hc; destruct Hc as (? & <- & _); reflexivity).
    pose proof (codes_zero _ _ _ (outcome_code out) G') as Hz. cbv zeta in Hz. fold o in Hz. rewrite Hz. reflexivity.
  Qed.

  Lemma no_abort used s st : Base used s -> sane allP used [st] -> step_outcome sha s st <> Abort.
  Proof.
    intros Hb Hs. unfold step_outcome. destruct st as [c n orc capok txh svc|t a started|cs].
    - rewrite exec_req. destruct (req_ok c capok orc svc); [destruct (interval_ok (height s) n)|]; discriminate.
    - destruct Hs as [Htz _]. unfold exec_step. rewrite (begin_block_nz sha s t a started Htz). discriminate.
    - unfold exec_step. rewrite (exec_calls_nz sha cs s (b_t _ _ Hb)). discriminate.
  Qed.

  Lemma GInv_step hist ts p st :
    GInv hist ts p -> sane allP [] (hist ++ [st]) -> plain [st] ->
    let s := run sha init hist in
    let out := step_outcome sha s st in
    let ts' := track_next sha s ts st (accepted_of out) in
    let o := mobs (run sha init (hist ++ [st])) (outcome_code out) ts' in
    exists p', prop_step p st o = (p', 0, false) /\ GInv (hist ++ [st]) ts' p'.
  Proof.
    intros G Hs Hp. destruct st as [c n orc capok txh svc|t a started|cs].
    - apply (GInv_step_req hist ts p c n orc capok txh svc G Hs Hp).
    - apply (GInv_step_begin hist ts p t a started G Hs).
    - apply (GInv_step_calls hist ts p cs G Hs).
  Qed.

  Definition agree_of (st : step) (o : obs) (out : outcome) : bool :=
    match st, o_code o with
    | Calls [], 1 => true
    | _, _ => (o_code o =? outcome_code out) && negb (o_code o =? 2)
    end.

  Lemma agree_model st s' out ts' : out <> Abort -> agree_of st (mobs s' (outcome_code out) ts') out = true.
  Proof.
    intros Hna. unfold agree_of, mobs, obs_of. cbn [o_code].
    destruct out; [| |contradiction]; destruct st as [| |[|cl cs]]; reflexivity.
  Qed.

  (** *** the correspondence side: the model agrees with its own observations *)
  Record QI (s : state) : Prop := mkQI {
    qi_nodup : NoDup (keys (queue s));
    qi_plain : forall k r, In (k, r) (queue s) -> q_oracle r = false;
    qi_orc : oracle s = []
  }.

  Lemma NoDup_keys_filter {K V} (f : K * V -> bool) (m : list (K * V)) :
    NoDup (map fst m) -> NoDup (map fst (filter f m)).
  Proof.
    induction m as [|[k v] m IH]; simpl; intros Hnd; [constructor|].
    inversion Hnd as [|? ? Hni Hnd']; subst. destruct (f (k, v)); simpl; [|apply IH; exact Hnd'].
    constructor; [|apply IH; exact Hnd'].
    intros Hin. apply Hni. apply in_map_iff in Hin. destruct Hin as ([k' v'] & Hk & Hin). simpl in Hk. subst k'.
    apply filter_In in Hin. apply in_map_iff. exists (k, v'). split; [reflexivity|tauto].
  Qed.

  Lemma fold_fset_none {K V E} `{EqDec K} (pp : E -> bool) (kf : E -> K) (vf : E -> V) (l : list E) (m : amap K V) :
    (forall e, In e l -> pp e = false) -> fold_left (fset pp kf vf) l m = m.
  Proof.
    revert m. induction l as [|e l IH]; intros m Hall; simpl; [reflexivity|].
    unfold fset at 2. rewrite (Hall e) by (left; reflexivity). apply IH. intros e' He'. apply Hall. right. exact He'.
  Qed.

  Lemma QI_init : QI init.
  Proof. constructor; simpl; [constructor|intros k r []|reflexivity]. Qed.

  Lemma QI_step used s st : Base used s -> sane allP used [st] -> plain [st] -> QI s -> QI (step_state sha s st).
  Proof.
    intros Hb Hs Hp [Hnd Hpl Ho]. unfold step_state. destruct st as [c n orc capok txh svc|t a started|cs].
    - destruct Hp as (-> & -> & _). rewrite exec_req.
      destruct (req_ok c capok false None); [destruct (interval_ok (height s) n)|]; simpl; try (constructor; assumption).
      constructor; simpl; [apply keys_set_NoDup; exact Hnd| |exact Ho].
      intros k r Hin. apply in_set_inv in Hin. destruct Hin as [He|Hin]; [inversion He; reflexivity|apply (Hpl k r Hin)].
    - destruct Hs as [Htz _]. unfold exec_step. rewrite (begin_block_nz sha s t a started Htz). simpl.
      constructor; simpl.
      + apply NoDup_keys_filter. exact Hnd.
      + intros k r Hin. apply filter_In in Hin. apply (Hpl k r). tauto.
      + rewrite Ho. apply fold_fset_none. intros [k r] Hin. apply filter_In in Hin. destruct Hin as [Hin _].
        unfold pO. simpl. rewrite (Hpl k r Hin). reflexivity.
    - unfold exec_step. rewrite (exec_calls_nz sha cs s (b_t _ _ Hb)). simpl.
      destruct (calls_state_sub sha cs s) as (_ & _ & _ & Hq & Hos & _).
      constructor; rewrite ?Hq; auto.
      destruct (oracle (calls_state sha s cs)) as [|e l] eqn:Hoe; [reflexivity|].
      specialize (Hos e (or_introl eq_refl)). rewrite Ho in Hos. destruct Hos.
  Qed.

  Lemma get_nodup {K V} `{EqDec K} (m : amap K V) k v : NoDup (keys m) -> In (k, v) m -> get k m = Some v.
  Proof.
    induction m as [|[k0 v0] m IH]; simpl; intros Hnd Hin; [destruct Hin|].
    inversion Hnd as [|? ? Hni Hnd']; subst.
    destruct Hin as [He|Hin].
    - inversion He; subst. destruct (eq_dec k k); congruence.
    - destruct (eq_dec k k0) as [->|Hne]; [|apply IH; assumption].
      exfalso. apply Hni. apply in_map_iff. exists (k0, v). auto.
  Qed.

  Lemma corr_model s st ts' : QI (step_state sha s st) -> step_outcome sha s st <> Abort ->
    corr_step (step_outcome sha s st) (step_state sha s st) st
              (mobs (step_state sha s st) (outcome_code (step_outcome sha s st)) ts') = true.
  Proof.
    intros [Hnd Hpl Ho] Hna. unfold corr_step, mobs, obs_of.
    cbn [o_code o_queue o_reads o_oracle].
    apply orb_true_iff. right.
    repeat (apply andb_true_intro; split).
    - assert (Hc : outcome_code (step_outcome sha s st) =? outcome_code (step_outcome sha s st) = true) by apply Z.eqb_refl.
      destruct st as [c n orc capok txh svc|t a started|cs]; try exact Hc.
      assert (Hok : step_outcome sha s (Calls cs) = Ok).
      { unfold step_outcome, exec_step in *. destruct (exec_calls sha s cs) as [[? ?]|]; [reflexivity|]. simpl in Hna. congruence. }
      rewrite Hok. reflexivity.
    - apply Z.eqb_refl.
    - apply forallb_forall. intros [[d id] r] Hin. apply eqb_true_iff. apply get_nodup; assumption.
    - apply forallb_forall. intros [id v] Hin. apply in_map_iff in Hin. destruct Hin as (id' & He & _).
      inversion He; subst. apply eqb_refl.
    - apply forallb_forall. intros [x v] Hin. apply in_map_iff in Hin. destruct Hin as (x' & He & _).
      inversion He; subst. apply eqb_refl.
    - rewrite Ho. simpl. unfold count_some.
      rewrite (filter_nil_all _ (map (fun x => (x, @None request)) (ctxs_of ts'))); [reflexivity|].
      intros [x v] Hin. apply in_map_iff in Hin. destruct Hin as (x' & He & _). inversion He. reflexivity.
  Qed.

  (** *** [check_from] on the model's own trace *)
  Lemma check_from_model rest : forall hist ts p i,
    GInv hist ts p -> QI (run sha init hist) -> sane allP [] (hist ++ rest) -> plain (hist ++ rest) ->
    check_from sha (run sha init hist) p ts (model_trace (run sha init hist) ts rest) i (-1) (-1) 0 false
    = (-1, -1, 0).
  Proof.
    induction rest as [|st rest IH]; intros hist ts p i G Q Hs Hp.
    - reflexivity.
    - assert (Hs1 : sane allP [] (hist ++ [st])).
      { replace (hist ++ st :: rest) with ((hist ++ [st]) ++ rest) in Hs by (rewrite <- app_assoc; reflexivity).
        apply sane_app in Hs. tauto. }
      assert (Hp1 : plain [st]).
      { apply plain_app in Hp. destruct Hp as [_ Hp]. change (st :: rest) with ([st] ++ rest) in Hp.
        apply plain_app in Hp. tauto. }
      destruct (GInv_step hist ts p st G Hs1 Hp1) as (p' & Hprop & G').
      pose proof (proj1 (sane_snoc allP hist st) Hs1) as [Hs_h Hs_st].
      pose proof (Base_run sha allP hist [] init Base_init Hs_h) as Hb.
      pose proof (no_abort _ _ st Hb Hs_st) as Hna.
      pose proof (QI_step _ _ st Hb Hs_st Hp1 Q) as Q'.
      pose proof (corr_model (run sha init hist) st
                    (track_next sha (run sha init hist) ts st (accepted_of (step_outcome sha (run sha init hist) st))) Q' Hna) as Hcorr.
      cbn [model_trace check_from].
      unfold step_outcome, step_state in *.
      destruct (exec_step sha (run sha init hist) st) as [[out s'] evs] eqn:He. cbn [fst snd] in *.
      assert (Hs' : s' = run sha init (hist ++ [st])).
      { rewrite run_snoc. unfold step_state. rewrite He. reflexivity. }
      unfold mobs in Hcorr. rewrite Hcorr. cbn [negb andb].
      rewrite Hs' in *. fold (mobs (run sha init (hist ++ [st])) (outcome_code out)
                              (track_next sha (run sha init hist) ts st (accepted_of out))).
      rewrite Hprop.
      fold (agree_of st (mobs (run sha init (hist ++ [st])) (outcome_code out)
                              (track_next sha (run sha init hist) ts st (accepted_of out))) out).
      rewrite (agree_model st _ out _ Hna).
      change (match out with Ok => true | _ => false end) with (accepted_of out).
      unfold track_step. cbn [negb].
      pose proof (TInv_views sha _ _ (outcome_code out) [] (g_t _ _ _ G')) as Hv.
      unfold mobs. rewrite Hv. cbn [Z.eqb Z.ltb Z.compare andb negb orb].
      replace (match out with Abort => true | _ => false end) with false by (destruct out; [reflexivity|reflexivity|contradiction]).
      apply (IH (hist ++ [st]) _ p' (i + 1) G' Q').
      + rewrite <- app_assoc. exact Hs.
      + rewrite <- app_assoc. exact Hp.
  Qed.

  Lemma GInv_init : GInv [] tinit pinit.
  Proof. constructor; try reflexivity; [apply TInv_init|intros it []]. Qed.

  Lemma model_passes_check_lemma steps : sane allP [] steps -> plain steps ->
    check_from sha init pinit tinit (model_trace init tinit steps) 0 (-1) (-1) 0 false = (-1, -1, 0).
  Proof. intros Hs Hp. apply (check_from_model steps [] tinit pinit 0 GInv_init QI_init Hs Hp). Qed.
End PassAll.
