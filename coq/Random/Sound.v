(** * Random: the predicate the check evaluates on the implementation's observations
    ([Check.view_ok]: what the queries show is what the phase of the proven automaton shows) holds
    of the MODEL's own observations, for every request in every history satisfying the
    hypotheses of the property. *)
From Irismod Require Import Random.Model Random.Spec Random.Check Random.Proofs.

(** what the driver would observe of a model state: the whole queue, the result under every id
    of [ids], the oracle request under every context id of [ctxs] *)
Definition obs_of (s : state) (code : Z) (ids : list rid) (ctxs : list Z) (facts : list svcfact) : obs :=
  mkObs code (queue s)
        (map (fun id => (id, option_map show_result (get id (results s)))) ids)
        (map (fun x => (x, get x (oracle s))) ctxs)
        facts.

Lemma get_map_key {K V} `{EqDec K} (f : K -> V) (l : list K) (k : K) :
  In k l -> get k (map (fun x => (x, f x)) l) = Some (f k).
Proof.
  induction l as [|x l IH]; simpl; [tauto|].
  intros Hin. destruct (eq_dec k x) as [Heq|Hne].
  - subst. reflexivity.
  - apply IH. destruct Hin as [Hx|Hin]; [congruence|exact Hin].
Qed.

Lemma model_views_ok_lemma sha P pre post c n orc capok txh svc code ids ctxs facts :
  let s := run sha init pre in
  let r0 := new_req s c txh orc svc in
  let d := height s + n in
  let steps := pre ++ Req c n orc capok txh svc :: post in
  sane P [] steps -> P c = true -> req_ok c capok orc svc = true -> 0 <= n -> d < two63 ->
  (orc = true -> ctx_unused r0 (pre ++ post)) ->
  In (req_id r0) ids -> In (q_ctx r0) ctxs ->
  view_ok r0 d (spec_run sha r0 d (enq s n r0) Pending post)
          (obs_of (run sha init steps) code ids ctxs facts) = true.
Proof.
  intros s r0 d steps Hs HP Hok Hn Hd Hc Hid Hctx.
  destruct (life_view_lemma sha P pre post c n orc capok txh svc Hs HP Hok Hn Hd Hc) as (H1 & H2 & H3 & _).
  fold s r0 d steps in H1, H2, H3.
  set (ph := spec_run sha r0 d (enq s n r0) Pending post) in *.
  set (fin := run sha init steps) in *.
  unfold view_ok, obs_of, obs_pending. cbn [o_queue o_reads o_oracle].
  apply andb_true_intro. split; [apply andb_true_intro; split|].
  - apply eqb_true_iff. unfold pending in H1. rewrite H1. destruct ph; reflexivity.
  - apply eqb_true_iff. rewrite (get_map_key (fun id => option_map show_result (get id (results fin))) ids _ Hid).
    unfold query_random in H2. rewrite H2. destruct ph; reflexivity.
  - destruct ph as [| |ev|].
    + apply forallb_forall. intros [x v] Hin. apply in_map_iff in Hin. destruct Hin as (y & Hy & _).
      inversion Hy; subst x v. simpl. destruct (get y (oracle fin)) as [r|] eqn:Hg; [|reflexivity].
      apply negb_true_iff. apply eqb_false_iff. apply (H3 y r). apply get_In. exact Hg.
    + apply eqb_true_iff. rewrite (get_map_key (fun x => get x (oracle fin)) ctxs _ Hctx). rewrite H3. reflexivity.
    + apply forallb_forall. intros [x v] Hin. apply in_map_iff in Hin. destruct Hin as (y & Hy & _).
      inversion Hy; subst x v. simpl. destruct (get y (oracle fin)) as [r|] eqn:Hg; [|reflexivity].
      apply negb_true_iff. apply eqb_false_iff. apply (H3 y r). apply get_In. exact Hg.
    + apply forallb_forall. intros [x v] Hin. apply in_map_iff in Hin. destruct Hin as (y & Hy & _).
      inversion Hy; subst x v. simpl. destruct (get y (oracle fin)) as [r|] eqn:Hg; [|reflexivity].
      apply negb_true_iff. apply eqb_false_iff. apply (H3 y r). apply get_In. exact Hg.
Qed.
