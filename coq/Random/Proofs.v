(** * Random: proofs for C18 *)
From Irismod Require Import Random.Model.
From Coq Require Import ZifyBool.
Ltac Zify.zify_post_hook ::= Z.div_mod_to_equations.

(** ** the value is a 20-digit decimal in [0,1) *)
Lemma get_rand_range sha t a c seed x :
  get_rand sha t a c seed = Some x -> 0 <= x < precision.
Proof.
  unfold get_rand. destruct (t =? 0); [discriminate|].
  intros H; inversion H; subst. apply Z.mod_pos_bound. reflexivity.
Qed.
