(** * Random: proofs for C18

    Everything is proved for an arbitrary hash function [sha] (SHA-256 is an oracle) and for
    arbitrary histories (induction over the step list).

    - [rand_val_range], [render_*]: the value is a decimal in [0,1) with exactly 20 digits.
    - [event_value]: every fulfilment's value is [rand_val] of (block time, app hash, requester,
      oracle seed) of the block in which it happens: it depends on nothing else.
    - [track_run]: the life of ONE request (arbitrary; plain or oracle-seeded) inside an
      arbitrary history is the small automaton [spec_step]: pending in the queue until the
      begin block that follows height + interval, then fulfilled (plain), or handed to the
      service (oracle) and fulfilled when the seed arrives / dropped when the service reports
      failure; once fulfilled or dropped nothing ever changes under its id. *)
From Irismod Require Import Random.Model Random.Spec.

(** lemmas proved inside sections depend exactly on the section variables their statements mention *)
Set Default Proof Using "Type".

(** ** association lists *)
Section MapFacts.
  Context {K V : Type} `{EqDec K}.
  Implicit Types (m : amap K V).

  Lemma in_set_inv k v m e : In e (set k v m) -> e = (k, v) \/ In e m.
  Proof.
    induction m as [|[k0 v0] m IH]; simpl.
    - intros [He|[]]; left; congruence.
    - destruct (eq_dec k k0) as [->|Hk]; simpl.
      + intros [He|Hin]; [left; congruence|right; right; exact Hin].
      + intros [He|Hin]; [right; left; exact He|].
        destruct (IH Hin) as [He|Hin']; [left; exact He|right; right; exact Hin'].
  Qed.

  Lemma in_del_inv k m e : In e (del k m) -> In e m /\ fst e <> k.
  Proof.
    induction m as [|[k0 v0] m IH]; simpl; [tauto|].
    destruct (eq_dec k k0) as [->|Hk]; simpl.
    - intros Hin. destruct (IH Hin). tauto.
    - intros [He|Hin].
      + subst e. simpl. split; [left; reflexivity|congruence].
      + destruct (IH Hin). tauto.
  Qed.

  Lemma in_get k v m : In (k, v) m -> exists v', get k m = Some v'.
  Proof.
    induction m as [|[k0 v0] m IH]; simpl; [tauto|].
    intros [He|Hin]; destruct (eq_dec k k0) as [->|Hk]; eauto.
    congruence.
  Qed.

  Lemma get_none_in k m : get k m = None -> forall v, ~ In (k, v) m.
  Proof. intros Hg v Hin. destruct (in_get _ _ _ Hin) as [v' Hv]. congruence. Qed.

  (** folding conditional [set]s over a list *)
  Context {E : Type}.
  Variables (p : E -> bool) (kf : E -> K) (vf : E -> V).
  Definition fset m (e : E) : amap K V := if p e then set (kf e) (vf e) m else m.

  Lemma fset_in l : forall m x,
    In x (fold_left fset l m) -> In x m \/ exists e, In e l /\ p e = true /\ x = (kf e, vf e).
  Proof.
    induction l as [|e l IH]; simpl; intros m x Hin; [left; exact Hin|].
    destruct (IH _ _ Hin) as [Hm|[e' [He' Hx]]].
    - unfold fset in Hm. destruct (p e) eqn:Hp; [|left; exact Hm].
      destruct (in_set_inv _ _ _ _ Hm) as [Hx|Hm']; [|left; exact Hm'].
      right. exists e. auto.
    - right. exists e'. tauto.
  Qed.

  Lemma fset_keep l k : forall m,
    (forall e, In e l -> p e = true -> kf e <> k) -> get k (fold_left fset l m) = get k m.
  Proof.
    induction l as [|e l IH]; simpl; intros m Hno; [reflexivity|].
    rewrite IH by (intros e' He'; apply Hno; right; exact He').
    unfold fset. destruct (p e) eqn:Hp; [|reflexivity].
    apply get_set_other. intros Heq. apply (Hno e); auto.
  Qed.

  Lemma fset_set l k v : forall m,
    (forall e, In e l -> p e = true -> kf e = k -> vf e = v) ->
    (get k m = Some v \/ exists e, In e l /\ p e = true /\ kf e = k) ->
    get k (fold_left fset l m) = Some v.
  Proof.
    induction l as [|e l IH]; simpl; intros m Hv Hex.
    - destruct Hex as [Hg|[e [[] _]]]. exact Hg.
    - apply IH; [intros e' He'; apply Hv; right; exact He'|].
      unfold fset.
      destruct (p e) eqn:Hp.
      + destruct (eq_dec (kf e) k) as [Hk|Hk].
        * left. rewrite <- Hk at 1. rewrite (Hv e) by auto. subst k. apply get_set_same.
        * destruct Hex as [Hg|[e' [[He'|He'] [Hp' Hk']]]].
          -- left. rewrite get_set_other by congruence. exact Hg.
          -- subst e'. contradiction.
          -- right. exists e'. auto.
      + destruct Hex as [Hg|[e' [[He'|He'] [Hp' Hk']]]].
        * left. exact Hg.
        * subst e'. congruence.
        * right. exists e'. auto.
  Qed.
End MapFacts.

(** ** lists *)
Lemma filter_nil_all {A} (f : A -> bool) l : (forall x, In x l -> f x = false) -> filter f l = [].
Proof.
  induction l as [|x l IH]; simpl; intros Hall; [reflexivity|].
  rewrite (Hall x) by (left; reflexivity). apply IH. intros y Hy. apply Hall. right. exact Hy.
Qed.

Lemma filter_comm {A} (f g : A -> bool) l : filter f (filter g l) = filter g (filter f l).
Proof.
  induction l as [|x l IH]; simpl; [reflexivity|].
  destruct (g x) eqn:Hg; destruct (f x) eqn:Hf; simpl; rewrite ?Hg, ?Hf, IH; reflexivity.
Qed.

Lemma filter_nil_in {A} (f : A -> bool) l x : filter f l = [] -> In x l -> f x = false.
Proof.
  intros Hnil Hin. destruct (f x) eqn:Hf; [|reflexivity].
  assert (Hx : In x (filter f l)) by (apply filter_In; auto).
  rewrite Hnil in Hx. destruct Hx.
Qed.

Lemma filter_app_nil {A} (f : A -> bool) a b : filter f (a ++ b) = [] <-> filter f a = [] /\ filter f b = [].
Proof.
  rewrite filter_app. split.
  - intros Happ. apply app_eq_nil in Happ. exact Happ.
  - intros [-> ->]. reflexivity.
Qed.

(** ** the value *)
Lemma rand_val_range sha t a c seed : 0 <= rand_val sha t a c seed < precision.
Proof. unfold rand_val. apply Z.mod_pos_bound. reflexivity. Qed.

Lemma get_rand_range sha t a c seed x :
  get_rand sha t a c seed = Some x -> 0 <= x < precision.
Proof.
  unfold get_rand. destruct (t =? 0); [discriminate|].
  intros Hx; inversion Hx; subst. apply rand_val_range.
Qed.

Lemma get_rand_nz sha t a c seed : t <> 0 -> get_rand sha t a c seed = Some (rand_val sha t a c seed).
Proof. intros Ht. unfold get_rand. destruct (Z.eqb_spec t 0); [contradiction|reflexivity]. Qed.

(** rendering: [digits k x] are [k] decimal digit characters whose value is [x mod 10^k] *)
Fixpoint undigits (l : list Z) (acc : Z) : Z :=
  match l with [] => acc | dch :: l' => undigits l' (10 * acc + (dch - 48)) end.

Lemma digits_length k : forall x, length (digits k x) = k.
Proof. induction k as [|k IH]; simpl; intros x; [reflexivity|]. rewrite app_length, IH. simpl. lia. Qed.

Lemma digits_chars k : forall x, Forall (fun dch => 48 <= dch <= 57) (digits k x).
Proof.
  induction k as [|k IH]; cbn [digits]; intros x; [constructor|].
  apply Forall_app. split; [apply IH|].
  constructor; [|constructor]. pose proof (Z.mod_pos_bound x 10 eq_refl). cbv beta. lia.
Qed.

Lemma undigits_app a : forall b acc, undigits (a ++ b) acc = undigits b (undigits a acc).
Proof. induction a as [|x a IH]; simpl; intros b acc; [reflexivity|apply IH]. Qed.

Lemma undigits_digits k : forall x, 0 <= x -> undigits (digits k x) 0 = x mod 10 ^ Z.of_nat k.
Proof.
  induction k as [|k IH]; intros x Hx.
  - simpl. rewrite Z.mod_1_r. reflexivity.
  - cbn [digits]. rewrite undigits_app. cbn [undigits].
    rewrite IH by (apply Z.div_pos; lia).
    rewrite Nat2Z.inj_succ, Z.pow_succ_r by lia.
    assert (Hp : 0 < 10 ^ Z.of_nat k) by (apply Z.pow_pos_nonneg; lia).
    rewrite Z.rem_mul_r by lia. lia.
Qed.

Lemma render_value x : 0 <= x < precision ->
  exists ds, render x = 48 :: 46 :: ds /\ length ds = 20%nat
             /\ Forall (fun dch => 48 <= dch <= 57) ds /\ undigits ds 0 = x.
Proof.
  intros Hx. exists (digits rand_prec x). split; [reflexivity|].
  split; [apply digits_length|]. split; [apply digits_chars|].
  rewrite undigits_digits by lia. apply Z.mod_small. exact Hx.
Qed.

(** ** the model, step by step *)
Section Track.
  Variable sha : hin -> Z.

  Lemma exec_req s c n orc capok txh svc :
    exec_step sha s (Req c n orc capok txh svc) =
    if req_ok c capok orc svc then
      (if interval_ok (height s) n then (Ok, enq s n (new_req s c txh orc svc), []) else (Rej, s, []))
    else (Rej, s, []).
  Proof.
    unfold exec_step, req_ok, request_random, enq, new_req.
    destruct (msg_ok c capok); simpl; [|reflexivity].
    destruct (interval_ok (height s) n); simpl.
    - destruct orc; simpl; [|reflexivity]. destruct svc; reflexivity.
    - destruct orc; simpl; [|reflexivity]. destruct svc; reflexivity.
  Qed.

  (** *** begin block in closed form *)
  Definition pR (e : (Z * rid) * request) : bool := negb (q_oracle (snd e)).
  Definition kR (e : (Z * rid) * request) : rid := req_id (snd e).
  Definition vR (t a last : Z) (e : (Z * rid) * request) : result :=
    (q_txh (snd e), last, rand_val sha t a (q_consumer (snd e)) None).
  Definition pO (started : list Z) (e : (Z * rid) * request) : bool :=
    q_oracle (snd e) && existsb (Z.eqb (q_ctx (snd e))) started.
  Definition kO (e : (Z * rid) * request) : Z := q_ctx (snd e).
  Definition vO (e : (Z * rid) * request) : request := snd e.
  Definition fev (t a last : Z) (e : (Z * rid) * request) : list event :=
    if q_oracle (snd e) then []
    else [mkEv (last + 1) t a (req_id (snd e)) (q_txh (snd e)) None
               (rand_val sha t a (q_consumer (snd e)) None)].

  Lemma handle_due_fold t a last started : t <> 0 -> forall due res orc evs,
    fold_left (handle_due sha t a last started) due (Some (res, orc, evs)) =
    Some (fold_left (fset pR kR (vR t a last)) due res,
          fold_left (fset (pO started) kO vO) due orc,
          evs ++ flat_map (fev t a last) due).
  Proof.
    intros Ht. induction due as [|e due IH]; intros res orc evs.
    - simpl. rewrite app_nil_r. reflexivity.
    - cbn [fold_left flat_map].
      assert (Hstep : handle_due sha t a last started (Some (res, orc, evs)) e =
                      Some (fset pR kR (vR t a last) res e, fset (pO started) kO vO orc e,
                            evs ++ fev t a last e)).
      { unfold handle_due, fset, pR, pO, kR, kO, vR, vO, fev.
        destruct (q_oracle (snd e)); simpl.
        - destruct (existsb (Z.eqb (q_ctx (snd e))) started); rewrite app_nil_r; reflexivity.
        - rewrite (get_rand_nz sha t a _ None Ht). reflexivity. }
      rewrite Hstep, IH, <- app_assoc. reflexivity.
  Qed.

  Definition not_due (last : Z) (e : (Z * rid) * request) : bool := negb (is_due last e).

  Lemma begin_block_nz s t a started : t <> 0 ->
    let last := height s in
    let due := filter (is_due last) (queue s) in
    begin_block sha s t a started =
    Some (mkState (height s + 1) t a (filter (not_due last) (queue s))
                  (fold_left (fset pR kR (vR t a last)) due (results s))
                  (fold_left (fset (pO started) kO vO) due (oracle s)),
          flat_map (fev t a last) due).
  Proof.
    intros Ht last due. unfold begin_block. fold last. fold due.
    rewrite (handle_due_fold t a last started Ht). reflexivity.
  Qed.

  (** *** callbacks: total when the block time is not 0 *)
  Definition call_state (s : state) (cl : call) : state :=
    match cl with
    | CallResp x (CbSeed seed) =>
        match get x (oracle s) with
        | None => del_oracle s x
        | Some r => mkState (height s) (time s) (apph s) (queue s)
                            (set (req_id r) (q_txh r, height s - 1, rand_val sha (time s) (apph s) (q_consumer r) (Some seed))
                                 (results s))
                            (del x (oracle s))
        end
    | CallResp x CbBadBody => s
    | CallResp x _ => del_oracle s x
    | CallState x ex => if ex then del_oracle s x else s
    end.

  Definition call_events (s : state) (cl : call) : list event :=
    match cl with
    | CallResp x (CbSeed seed) =>
        match get x (oracle s) with
        | None => []
        | Some r => [mkEv (height s) (time s) (apph s) (req_id r) (q_txh r) (Some seed)
                          (rand_val sha (time s) (apph s) (q_consumer r) (Some seed))]
        end
    | _ => []
    end.

  Lemma exec_call_nz s cl : time s <> 0 -> exec_call sha s cl = Some (call_state s cl, call_events s cl).
  Proof.
    intros Ht. destruct cl as [x dta|x ex]; simpl; [|reflexivity].
    destruct dta; simpl; try reflexivity.
    destruct (get x (oracle s)) as [r|]; [|reflexivity].
    rewrite (get_rand_nz sha _ _ _ _ Ht). reflexivity.
  Qed.

  Lemma call_state_header s cl :
    height (call_state s cl) = height s /\ time (call_state s cl) = time s
    /\ apph (call_state s cl) = apph s /\ queue (call_state s cl) = queue s.
  Proof.
    destruct cl as [x dta|x ex]; simpl.
    - destruct dta; simpl; auto. destruct (get x (oracle s)); simpl; auto.
    - destruct ex; simpl; auto.
  Qed.

  Fixpoint calls_state (s : state) (cs : list call) : state :=
    match cs with [] => s | cl :: cs' => calls_state (call_state s cl) cs' end.
  Fixpoint calls_events (s : state) (cs : list call) : list event :=
    match cs with [] => [] | cl :: cs' => call_events s cl ++ calls_events (call_state s cl) cs' end.

  Lemma exec_calls_nz cs : forall s, time s <> 0 ->
    exec_calls sha s cs = Some (calls_state s cs, calls_events s cs).
  Proof.
    induction cs as [|cl cs IH]; intros s Ht; simpl; [reflexivity|].
    rewrite (exec_call_nz s cl Ht).
    rewrite IH by (destruct (call_state_header s cl) as (_ & -> & _); exact Ht).
    reflexivity.
  Qed.

  (** *** histories in which no block has time 0 and none of the requesters in [P] asks twice in
      one block ([used] = the requesters of the current block so far) *)
  Variable P : Z -> bool.

  Fixpoint sane (used : list Z) (steps : list step) : Prop :=
    match steps with
    | [] => True
    | Req c n orc capok txh svc :: rest =>
        if req_ok c capok orc svc then (P c = true -> ~ In c used) /\ sane (c :: used) rest
        else sane used rest
    | Begin t a started :: rest => t <> 0 /\ sane [] rest
    | Calls cs :: rest => sane used rest
    end.

  (** the requesters of the current block after a prefix *)
  Fixpoint used_after (used : list Z) (steps : list step) : list Z :=
    match steps with
    | [] => used
    | Req c n orc capok txh svc :: rest =>
        used_after (if req_ok c capok orc svc then c :: used else used) rest
    | Begin t a started :: rest => used_after [] rest
    | Calls cs :: rest => used_after used rest
    end.

  Lemma sane_app a : forall used b, sane used (a ++ b) <-> sane used a /\ sane (used_after used a) b.
  Proof.
    induction a as [|st a IH]; intros used b; simpl; [tauto|].
    destruct st as [c n orc capok txh svc|t ta started|cs].
    - destruct (req_ok c capok orc svc); rewrite IH; tauto.
    - rewrite IH; tauto.
    - apply IH.
  Qed.

  (** what every reachable state satisfies *)
  Record Base (used : list Z) (s : state) : Prop := mkBase {
    b_h : 1 <= height s;
    b_t : time s <> 0;
    b_q : forall k r, In (k, r) (queue s) ->
            snd k = req_id r /\ q_height r <= height s /\ (q_height r = height s -> In (q_consumer r) used);
    b_o : forall x r, In (x, r) (oracle s) -> q_height r < height s;
    b_r : forall id v, In (id, v) (results s) -> fst id < height s
  }.

  Lemma Base_init : Base [] init.
  Proof. constructor; simpl; try lia; intros; contradiction. Qed.

  Lemma calls_state_sub cs : forall s,
    height (calls_state s cs) = height s /\ time (calls_state s cs) = time s
    /\ apph (calls_state s cs) = apph s /\ queue (calls_state s cs) = queue s
    /\ (forall e, In e (oracle (calls_state s cs)) -> In e (oracle s))
    /\ (forall id v, In (id, v) (results (calls_state s cs)) ->
          In (id, v) (results s) \/ exists x r, In (x, r) (oracle s) /\ id = req_id r).
  Proof. clear P.
    induction cs as [|cl cs IH]; intros s; simpl.
    - repeat split; auto.
    - destruct (IH (call_state s cl)) as (Hh & Ht & Ha & Hq & Ho & Hr).
      destruct (call_state_header s cl) as (Hh1 & Ht1 & Ha1 & Hq1).
      assert (Ho1 : forall e, In e (oracle (call_state s cl)) -> In e (oracle s)).
      { intros e. destruct cl as [x dta|x ex]; simpl.
        - destruct dta; simpl; try (intros Hin; apply in_del_inv in Hin; tauto); auto.
          destruct (get x (oracle s)); simpl; intros Hin; apply in_del_inv in Hin; tauto.
        - destruct ex; simpl; auto. intros Hin; apply in_del_inv in Hin; tauto. }
      assert (Hr1 : forall id v, In (id, v) (results (call_state s cl)) ->
                 In (id, v) (results s) \/ exists x r, In (x, r) (oracle s) /\ id = req_id r).
      { intros id v. destruct cl as [x dta|x ex]; simpl.
        - destruct dta; simpl; auto.
          destruct (get x (oracle s)) as [r|] eqn:Hg; simpl; auto.
          intros Hin. apply in_set_inv in Hin. destruct Hin as [He|Hin]; [|left; exact Hin].
          right. exists x, r. split; [apply get_In; exact Hg|congruence].
        - destruct ex; simpl; auto. }
      repeat split; try congruence.
      + intros e He. apply Ho1, Ho, He.
      + intros id v Hin. destruct (Hr _ _ Hin) as [Hin'|(x & r & Hx & Hid)].
        * apply Hr1, Hin'.
        * right. exists x, r. split; [apply Ho1, Hx|exact Hid].
  Qed.

  Definition used_step (used : list Z) (st : step) : list Z := used_after used [st].

  Lemma in_filter_queue {f : (Z * rid) * request -> bool} {q k r} :
    In (k, r) (filter f q) -> In (k, r) q.
  Proof. intros Hin. apply filter_In in Hin. tauto. Qed.

  Lemma Base_step used s st : Base used s -> sane used [st] ->
    Base (used_step used st) (step_state sha s st).
  Proof.
    intros [Hh Ht Hq Ho Hr] Hs. unfold step_state, used_step.
    destruct st as [c n orc capok txh svc|t a started|cs]; simpl in Hs; cbn [used_after].
    - revert Hs. rewrite exec_req. destruct (req_ok c capok orc svc) eqn:Hok; intros Hs; simpl.
      + destruct Hs as [Hnew _]. destruct (interval_ok (height s) n); simpl.
        * constructor; simpl; auto.
          intros k r Hin. apply in_set_inv in Hin. destruct Hin as [He|Hin].
          -- inversion He; subst k r. simpl. repeat split; [lia|]. intros _. left. reflexivity.
          -- destruct (Hq _ _ Hin) as (H1 & H2 & H3). repeat split; auto;
             intros Heq; right; auto.
        * constructor; auto.
          intros k r Hin. destruct (Hq _ _ Hin) as (H1 & H2 & H3). repeat split; auto;
          intros Heq; right; auto.
      + constructor; auto.
    - destruct Hs as [Htz _]. unfold exec_step. rewrite (begin_block_nz s t a started Htz). simpl.
      constructor; simpl; try lia; auto.
      + intros k r Hin. apply in_filter_queue in Hin. destruct (Hq _ _ Hin) as (H1 & H2 & H3).
        repeat split; auto; lia.
      + intros x r Hin. apply fset_in in Hin. destruct Hin as [Hin|(e & He & _ & Hx)].
        * specialize (Ho _ _ Hin). lia.
        * inversion Hx; subst x r. destruct e as [k r]. apply in_filter_queue in He.
          destruct (Hq _ _ He) as (_ & H2 & _). unfold vO. simpl. lia.
      + intros id v Hin. apply fset_in in Hin. destruct Hin as [Hin|(e & He & _ & Hx)].
        * specialize (Hr _ _ Hin). lia.
        * inversion Hx; subst id v. destruct e as [k r]. apply in_filter_queue in He.
          destruct (Hq _ _ He) as (_ & H2 & _). unfold kR. simpl. lia.
    - unfold exec_step. rewrite (exec_calls_nz cs s Ht). simpl.
      destruct (calls_state_sub cs s) as (Hh' & Ht' & Ha' & Hq' & Ho' & Hr').
      constructor; try congruence.
      + rewrite Hq', Hh'. exact Hq.
      + rewrite Hh'. intros x r Hin. apply (Ho x r), Ho', Hin.
      + rewrite Hh'. intros id v Hin. destruct (Hr' _ _ Hin) as [Hin'|(x & r & Hx & Hid)].
        * apply (Hr _ _ Hin').
        * subst id. simpl. apply (Ho x r Hx).
  Qed.

  Lemma sane_cons used st rest : sane used (st :: rest) <-> sane used [st] /\ sane (used_step used st) rest.
  Proof. apply (sane_app [st] used rest). Qed.

  Lemma Base_run steps : forall used s, Base used s -> sane used steps ->
    Base (used_after used steps) (run sha s steps).
  Proof.
    induction steps as [|st steps IH]; intros used s Hb Hs; [exact Hb|].
    apply sane_cons in Hs. destruct Hs as [H1 H2].
    replace (used_after used (st :: steps)) with (used_after (used_step used st) steps)
      by (destruct st; reflexivity).
    simpl. apply IH; [apply Base_step; assumption|exact H2].
  Qed.

  (** *** every fulfilment's value is a function of (time, app hash, requester, seed) of its block *)
  Definition event_ok (hh tt aa : Z) (ev : event) : Prop :=
    e_block ev = hh /\ e_time ev = tt /\ e_app ev = aa
    /\ e_val ev = rand_val sha tt aa (snd (e_rid ev)) (e_seed ev).

  Lemma calls_events_ok cs : forall s ev, In ev (calls_events s cs) ->
    event_ok (height s) (time s) (apph s) ev.
  Proof.
    induction cs as [|cl cs IH]; intros s ev; simpl; [tauto|].
    rewrite in_app_iff. intros [Hin|Hin].
    - destruct cl as [x dta|x ex]; simpl in Hin; try contradiction.
      destruct dta; try contradiction.
      destruct (get x (oracle s)) as [r|]; [|contradiction].
      destruct Hin as [<-|[]]. repeat split.
    - destruct (call_state_header s cl) as (Hh & Ht & Ha & _).
      rewrite <- Hh, <- Ht, <- Ha. apply IH. exact Hin.
  Qed.

  Lemma step_events_ok used s st ev : Base used s -> sane used [st] ->
    In ev (step_events sha s st) ->
    let s' := step_state sha s st in
    event_ok (height s') (time s') (apph s') ev /\ time s' <> 0.
  Proof.
    intros Hb Hs. pose proof (Base_step used s st Hb Hs) as Hb'.
    unfold step_events, step_state in *.
    destruct st as [c n orc capok txh svc|t a started|cs]; simpl in Hs.
    - rewrite exec_req. destruct (req_ok c capok orc svc); [destruct (interval_ok (height s) n)|]; simpl; tauto.
    - destruct Hs as [Htz _]. unfold exec_step. rewrite (begin_block_nz s t a started Htz). simpl.
      intros Hin. split; [|exact Htz]. apply in_flat_map in Hin. destruct Hin as (e & _ & Hev).
      unfold fev in Hev. destruct (q_oracle (snd e)); [contradiction|].
      destruct Hev as [<-|[]]. repeat split.
    - unfold exec_step in *. rewrite (exec_calls_nz cs s (b_t _ _ Hb)) in *. simpl in *.
      intros Hin. destruct (calls_state_sub cs s) as (Hh' & Ht' & Ha' & _).
      rewrite Hh', Ht', Ha'. split; [apply calls_events_ok with cs; exact Hin|exact (b_t _ _ Hb)].
  Qed.

  (** a callback touches results only under ids of oracle requests, and only shrinks the oracle map *)
  Lemma call_oracle_sub s cl e : In e (oracle (call_state s cl)) -> In e (oracle s).
  Proof.
    destruct (calls_state_sub [cl] s) as (_ & _ & _ & _ & Ho & _). apply Ho.
  Qed.

  Lemma call_results_keep s cl (id : rid) :
    (forall x r, In (x, r) (oracle s) -> req_id r <> id) ->
    get id (results (call_state s cl)) = get id (results s).
  Proof.
    intros Hno. destruct cl as [x dta|x ex]; simpl.
    - destruct dta; simpl; auto.
      destruct (get x (oracle s)) as [r|] eqn:Hg; simpl; auto.
      apply get_set_other. intros Heq. apply (Hno x r); [apply get_In; exact Hg|congruence].
    - destruct ex; reflexivity.
  Qed.

  Lemma call_events_none s cl (id : rid) :
    (forall x r, In (x, r) (oracle s) -> req_id r <> id) ->
    filter (fun ev => eqb (e_rid ev) id) (call_events s cl) = [].
  Proof.
    intros Hno. destruct cl as [x dta|x ex]; simpl; try reflexivity. destruct dta; try reflexivity.
    destruct (get x (oracle s)) as [r|] eqn:Hg; [|reflexivity]. simpl.
    replace (eqb (req_id r) id) with false; [reflexivity|].
    symmetry. apply eqb_false_iff. apply (Hno x r). apply get_In. exact Hg.
  Qed.

  (** *** the life of one request *)
  Variables (r0 : request) (d : Z).
  Let i : rid := req_id r0.
  Let h : Z := q_height r0.
  Let c : Z := q_consumer r0.
  Let ctx : Z := q_ctx r0.

  (** the fulfilments of the tracked request produced by a phase change *)
  Definition new_events (ph ph' : phase) : list event :=
    match ph, ph' with
    | Fulfilled _, _ => []
    | _, Fulfilled ev => [ev]
    | _, _ => []
    end.

  Definition is_i (ev : event) : bool := eqb (e_rid ev) i.
  Definition key_i (e : (Z * rid) * request) : bool := eqb (snd (fst e)) i.

  (** how the phase shows in the state *)
  Definition R (used : list Z) (ph : phase) (s : state) : Prop :=
    match ph with
    | Pending =>
        h <= height s <= d /\ (height s = h -> In c used)
        /\ filter key_i (queue s) = [((d, i), r0)]
        /\ (forall x r, In (x, r) (oracle s) -> req_id r <> i)
        /\ get i (results s) = None
        /\ (q_oracle r0 = true ->
            (forall k r, In (k, r) (queue s) -> q_oracle r = true -> q_ctx r = ctx -> r = r0)
            /\ get ctx (oracle s) = None)
    | Started =>
        h < height s /\ q_oracle r0 = true
        /\ filter key_i (queue s) = []
        /\ get ctx (oracle s) = Some r0
        /\ (forall x r, In (x, r) (oracle s) -> req_id r = i -> x = ctx)
        /\ get i (results s) = None
        /\ (forall k r, In (k, r) (queue s) -> q_oracle r = true -> q_ctx r <> ctx)
    | Fulfilled ev =>
        h < height s
        /\ filter key_i (queue s) = []
        /\ (forall x r, In (x, r) (oracle s) -> req_id r <> i)
        /\ get i (results s) = Some (result_of ev)
    | Dropped =>
        h < height s
        /\ filter key_i (queue s) = []
        /\ (forall x r, In (x, r) (oracle s) -> req_id r <> i)
        /\ get i (results s) = None
    end.

  (** no other request is ever given the tracked request's service context *)
  Fixpoint ctx_unused (steps : list step) : Prop :=
    match steps with
    | [] => True
    | Req _ _ orc _ _ svc :: rest => (orc = true -> svc <> Some ctx) /\ ctx_unused rest
    | _ :: rest => ctx_unused rest
    end.

  Lemma key_i_set k v (q : amap (Z * rid) request) :
    snd k <> i -> filter key_i (set k v q) = filter key_i q.
  Proof.
    intros Hk. assert (Hf : key_i (k, v) = false) by (apply eqb_false_iff; exact Hk).
    induction q as [|[k0 v0] q IH]; simpl.
    - rewrite Hf. reflexivity.
    - destruct (eq_dec k k0) as [->|Hne]; simpl.
      + rewrite Hf. change (key_i (k0, v0)) with (key_i (k0, v)). rewrite Hf. reflexivity.
      + rewrite IH. reflexivity.
  Qed.

  Lemma key_i_set_new k v (q : amap (Z * rid) request) :
    snd k = i -> filter key_i q = [] -> filter key_i (set k v q) = [(k, v)].
  Proof.
    intros Hk. assert (Hf : key_i (k, v) = true) by (apply eqb_true_iff; exact Hk).
    induction q as [|[k0 v0] q IH]; simpl; intros Hnil.
    - rewrite Hf. reflexivity.
    - destruct (key_i (k0, v0)) eqn:Hk0; [discriminate|].
      destruct (eq_dec k k0) as [->|Hne]; simpl.
      + change (key_i (k0, v0)) with (key_i (k0, v)) in Hk0. congruence.
      + rewrite Hk0. apply IH. exact Hnil.
  Qed.

  Lemma key_i_in k r (q : amap (Z * rid) request) :
    In (k, r) q -> snd k = i -> In (k, r) (filter key_i q).
  Proof. intros Hin Hk. apply filter_In. split; [exact Hin|]. apply eqb_true_iff. exact Hk. Qed.

  Lemma key_i_nil k r (q : amap (Z * rid) request) :
    filter key_i q = [] -> In (k, r) q -> snd k <> i.
  Proof.
    intros Hnil Hin Hk. pose proof (key_i_in _ _ _ Hin Hk) as Hf. rewrite Hnil in Hf. destruct Hf.
  Qed.

  (** events of a begin block restricted to the tracked id *)
  Lemma fev_filter t a last (q : amap (Z * rid) request) :
    (forall k r, In (k, r) q -> snd k = req_id r) ->
    filter is_i (flat_map (fev t a last) q) = flat_map (fev t a last) (filter key_i q).
  Proof.
    induction q as [|[k r] q IH]; intros Hk; [reflexivity|].
    assert (Hkr : snd k = req_id r) by (apply Hk; left; reflexivity).
    cbn [flat_map filter]. rewrite filter_app.
    rewrite IH by (intros k' r' Hin; apply Hk; right; exact Hin).
    assert (Hhead : filter is_i (fev t a last (k, r)) = if key_i (k, r) then fev t a last (k, r) else []).
    { unfold fev, key_i, is_i. simpl. destruct (q_oracle r); simpl.
      - destruct (eqb (snd k) i); reflexivity.
      - rewrite <- Hkr. destruct (eqb (snd k) i); reflexivity. }
    rewrite Hhead. destruct (key_i (k, r)); reflexivity.
  Qed.

  Lemma is_due_tracked last r : 0 <= d < two64 -> 0 <= last <= d -> is_due last ((d, i), r) = (last =? d).
  Proof.
    intros Hd Hl. unfold is_due. simpl. rewrite Z.mod_small by (unfold two64 in *; lia).
    apply Z.eqb_sym.
  Qed.

  (** one callback *)
  Lemma R_call used s cl ph : Base used s -> R used ph s ->
    R used (spec_call sha r0 (height s) (time s) (apph s) ph cl) (call_state s cl)
    /\ filter is_i (call_events s cl) = new_events ph (spec_call sha r0 (height s) (time s) (apph s) ph cl).
  Proof. clear P.
    intros Hb HR.
    destruct (call_state_header s cl) as (Hh & Ht & Ha & Hq).
    (* facts common to all phases: the oracle shrinks, results change only at ids of oracle entries *)
    destruct ph as [| |ev0|]; simpl in HR |- *.
    - (* Pending: the request is in the queue, no callback concerns it *)
      destruct HR as (H1 & H2 & H3 & H4 & H5 & H6).
      split; [|apply call_events_none; exact H4].
      rewrite Hh, Hq. split; [exact H1|]. split; [exact H2|]. split; [exact H3|].
      split; [|split; [|intros Ho; destruct (H6 Ho) as [Hq6 Hg6]; split; [exact Hq6|]]].
      + intros x r Hin. apply (H4 x r). apply call_oracle_sub with cl. exact Hin.
      + rewrite call_results_keep by exact H4. exact H5.
      + assert (Hdel : forall x, get ctx (del x (oracle s)) = None).
        { intros x. destruct (Z.eq_dec x ctx) as [->|Hne]; [apply get_del_same|].
          rewrite get_del_other by congruence. exact Hg6. }
        destruct cl as [x dta|x ex]; simpl; auto.
        * destruct dta; simpl; auto. destruct (get x (oracle s)); simpl; auto.
        * destruct ex; simpl; auto.
    - (* Started *)
      destruct HR as (H1 & H2 & H3 & H4 & H5 & H6 & H7).
      assert (Hdel_other : forall x, x <> ctx ->
                get ctx (del x (oracle s)) = Some r0
                /\ (forall y r, In (y, r) (del x (oracle s)) -> req_id r = i -> y = ctx)).
      { intros x Hne. split; [rewrite get_del_other by congruence; exact H4|].
        intros y r Hin. apply in_del_inv in Hin. apply (H5 y r). tauto. }
      assert (Hdel_same : forall y r, In (y, r) (del ctx (oracle s)) -> req_id r <> i).
      { intros y r Hin Hid. apply in_del_inv in Hin. destruct Hin as [Hin Hne].
        apply Hne. simpl. apply (H5 y r Hin Hid). }
      destruct cl as [x dta|x ex]; simpl.
      + fold ctx; destruct (Z.eqb_spec x ctx) as [->|Hne].
        * destruct dta; simpl; rewrite ?H4; simpl.
          -- split; [|reflexivity]. repeat split; auto.
          -- split; [|reflexivity]. repeat split; auto.
          -- split; [|reflexivity]. repeat split; auto.
          -- split; [|unfold is_i; simpl; fold i; rewrite eqb_refl; reflexivity].
             repeat split; auto.
             unfold result_of. simpl. fold i. rewrite get_set_same. reflexivity.
        * destruct (Hdel_other x Hne) as [Hg Hu].
          destruct dta; simpl; try (split; [repeat split; auto|reflexivity]).
          destruct (get x (oracle s)) as [r|] eqn:Hgx; simpl.
          -- assert (Hrid : req_id r <> i).
             { intros Hid. apply Hne. apply (H5 x r); [apply get_In; exact Hgx|exact Hid]. }
             split; [repeat split; auto; rewrite get_set_other by congruence; exact H6|].
             unfold is_i. simpl. replace (eqb (req_id r) i) with false; [reflexivity|].
             symmetry. apply eqb_false_iff. exact Hrid.
          -- split; [repeat split; auto|reflexivity].
      + fold ctx; destruct (Z.eqb_spec x ctx) as [->|Hne]; simpl.
        * destruct ex; simpl; (split; [repeat split; auto|reflexivity]).
        * destruct (Hdel_other x Hne) as [Hg Hu].
          destruct ex; simpl; (split; [repeat split; auto|reflexivity]).
    - (* Fulfilled: nothing under the id changes any more *)
      destruct HR as (H1 & H2 & H3 & H4).
      split; [|apply call_events_none; exact H3].
      rewrite Hh, Hq. split; [exact H1|]. split; [exact H2|]. split.
      + intros x r Hin. apply (H3 x r). apply call_oracle_sub with cl. exact Hin.
      + rewrite call_results_keep by exact H3. exact H4.
    - (* Dropped *)
      destruct HR as (H1 & H2 & H3 & H4).
      split; [|apply call_events_none; exact H3].
      rewrite Hh, Hq. split; [exact H1|]. split; [exact H2|]. split.
      + intros x r Hin. apply (H3 x r). apply call_oracle_sub with cl. exact Hin.
      + rewrite call_results_keep by exact H3. exact H4.
  Qed.

  (** phases only move forward: a fulfilled or dropped request stays so *)
  Lemma spec_calls_stable hh tt aa cs ph :
    ph <> Started -> fold_left (spec_call sha r0 hh tt aa) cs ph = ph.
  Proof.
    intros Hne. induction cs as [|cl cs IH]; simpl; [reflexivity|].
    replace (spec_call sha r0 hh tt aa ph cl) with ph; [exact IH|].
    destruct ph; try reflexivity. contradiction.
  Qed.

  Lemma new_events_comp ph ph1 ph2 :
    (forall ev, ph = Fulfilled ev -> ph1 = Fulfilled ev) ->
    (forall ev, ph1 = Fulfilled ev -> ph2 = Fulfilled ev) ->
    new_events ph ph1 ++ new_events ph1 ph2 = new_events ph ph2.
  Proof.
    intros H1 H2. destruct ph as [| |ev|].
    - destruct ph1 as [| |ev1|]; try reflexivity. rewrite (H2 ev1 eq_refl). reflexivity.
    - destruct ph1 as [| |ev1|]; try reflexivity. rewrite (H2 ev1 eq_refl). reflexivity.
    - rewrite (H1 ev eq_refl). reflexivity.
    - destruct ph1 as [| |ev1|]; try reflexivity. rewrite (H2 ev1 eq_refl). reflexivity.
  Qed.

  Lemma Base_call used s cl : Base used s -> Base used (call_state s cl).
  Proof.
    intros [Hh Ht Hq Ho Hr].
    destruct (calls_state_sub [cl] s) as (Hh' & Ht' & Ha' & Hq' & Ho' & Hr'). simpl in *.
    constructor; try congruence.
    - rewrite Hq', Hh'. exact Hq.
    - rewrite Hh'. intros x r Hin. apply (Ho x r), Ho', Hin.
    - rewrite Hh'. intros id v Hin. destruct (Hr' _ _ Hin) as [Hin'|(x & r & Hx & Hid)].
      + apply (Hr _ _ Hin').
      + subst id. simpl. apply (Ho x r Hx).
  Qed.

  Lemma R_calls used cs : forall s ph, Base used s -> R used ph s ->
    R used (fold_left (spec_call sha r0 (height s) (time s) (apph s)) cs ph) (calls_state s cs)
    /\ filter is_i (calls_events s cs)
       = new_events ph (fold_left (spec_call sha r0 (height s) (time s) (apph s)) cs ph).
  Proof.
    induction cs as [|cl cs IH]; intros s ph Hb HR.
    - simpl. split; [exact HR|]. destruct ph; reflexivity.
    - destruct (R_call used s cl ph Hb HR) as [HR1 He1].
      destruct (call_state_header s cl) as (Hh & Ht & Ha & _).
      destruct (IH (call_state s cl) _ (Base_call used s cl Hb) HR1) as [HR2 He2].
      rewrite Hh, Ht, Ha in HR2, He2.
      cbn [fold_left calls_state calls_events]. split; [exact HR2|].
      rewrite filter_app, He1, He2. apply new_events_comp.
      + intros ev ->. reflexivity.
      + intros ev Hev. rewrite Hev. apply spec_calls_stable. discriminate.
  Qed.

  (** entries of the tracked id among those due *)
  Lemma due_i (q : amap (Z * rid) request) last e :
    (forall k r, In (k, r) q -> snd k = req_id r) ->
    In e (filter (is_due last) q) -> req_id (snd e) = i ->
    In e (filter (is_due last) (filter key_i q)).
  Proof.
    intros Hk Hin Hid. apply filter_In in Hin. destruct Hin as [Hin Hdue].
    apply filter_In. split; [|exact Hdue]. apply filter_In. split; [exact Hin|].
    destruct e as [k r]. unfold key_i. simpl. apply eqb_true_iff.
    rewrite (Hk k r Hin). exact Hid.
  Qed.

  (** a begin block in which no entry of the tracked id falls due leaves everything under
      that id alone *)
  Lemma begin_untouched used s t a started :
    Base used s ->
    filter (is_due (height s)) (filter key_i (queue s)) = [] ->
    let last := height s in
    let due := filter (is_due last) (queue s) in
    get i (fold_left (fset pR kR (vR t a last)) due (results s)) = get i (results s)
    /\ (forall x r, In (x, r) (fold_left (fset (pO started) kO vO) due (oracle s)) ->
          In (x, r) (oracle s) \/ (req_id r <> i /\ x = q_ctx r /\ q_oracle r = true /\ exists k, In (k, r) due))
    /\ filter is_i (flat_map (fev t a last) due) = [].
  Proof. clear d P.
    intros Hb Hnil. cbv zeta.
    set (due := filter (is_due (height s)) (queue s)).
    assert (Hk : forall k r, In (k, r) (queue s) -> snd k = req_id r).
    { intros k r Hin. apply (b_q _ _ Hb k r Hin). }
    assert (Hno : forall e, In e due -> req_id (snd e) <> i).
    { intros e He Hid. pose proof (due_i _ _ _ Hk He Hid) as Hf. rewrite Hnil in Hf. destruct Hf. }
    split; [|split].
    - apply fset_keep. intros e He _. apply Hno. exact He.
    - intros x r Hin. apply fset_in in Hin. destruct Hin as [Hin|(e & He & Hp & Hx)]; [left; exact Hin|].
      right. inversion Hx; subst x r. unfold vO, kO. split; [apply Hno; exact He|].
      split; [reflexivity|]. unfold pO in Hp. apply andb_prop in Hp. split; [tauto|].
      destruct e as [k r]. exists k. exact He.
    - rewrite fev_filter.
      + unfold due. rewrite filter_comm. rewrite Hnil. reflexivity.
      + intros k r Hin. apply Hk. apply in_filter_queue in Hin. exact Hin.
  Qed.

  Lemma R_step used s ph st : 0 <= d < two64 -> P c = true ->
    Base used s -> R used ph s -> sane used [st] -> (q_oracle r0 = true -> ctx_unused [st]) ->
    R (used_step used st) (spec_step sha r0 d s ph st) (step_state sha s st)
    /\ filter is_i (step_events sha s st) = new_events ph (spec_step sha r0 d s ph st).
  Proof.
    intros Hd HP Hb HR Hs Hc.
    assert (Hk : forall k r, In (k, r) (queue s) -> snd k = req_id r).
    { intros k r Hin. apply (b_q _ _ Hb k r Hin). }
    unfold step_state, step_events, used_step.
    destruct st as [c' n orc capok txh svc|t a started|cs].
    - (* a request: the phase does not change *)
      assert (Hph : spec_step sha r0 d s ph (Req c' n orc capok txh svc) = ph) by (destruct ph; reflexivity).
      rewrite Hph. rewrite exec_req. cbn [used_after]. simpl in Hs.
      destruct (req_ok c' capok orc svc) eqn:Hok; simpl;
        [|split; [exact HR|destruct ph; reflexivity]].
      destruct Hs as [Hnew _].
      destruct (interval_ok (height s) n); simpl;
        [|split; [|destruct ph; reflexivity];
          destruct ph; simpl in HR |- *; try exact HR;
          destruct HR as (H1 & H2 & H3); split; [exact H1|]; split; [intros Heq; right; auto|exact H3]].
      split; [|destruct ph; reflexivity].
      set (r' := new_req s c' txh orc svc).
      assert (Hctx' : q_oracle r0 = true -> q_oracle r' = true -> q_ctx r' <> ctx).
      { intros Ho Ho'. destruct (Hc Ho) as [Hsvc _]. unfold r', new_req in Ho' |- *. simpl in Ho' |- *.
        subst orc. specialize (Hsvc eq_refl). unfold req_ok in Hok. simpl in Hok.
        destruct svc as [y|]; [|rewrite andb_false_r in Hok; discriminate].
        intros Heq. apply Hsvc. congruence. }
      assert (Hkey : height s <> h \/ c' <> c -> snd (due_key (height s) n, req_id r') <> i).
      { unfold i, r', new_req, req_id. simpl. intros Hor Heq. inversion Heq. tauto. }
      destruct ph as [| |ev|]; simpl in HR |- *.
      + destruct HR as (H1 & H2 & H3 & H4 & H5 & H6).
        assert (Hne : snd (due_key (height s) n, req_id r') <> i).
        { apply Hkey. destruct (Z.eq_dec (height s) h) as [Heq|Hneq]; [right|left; exact Hneq].
          intros ->. apply Hnew; [exact HP|apply H2; exact Heq]. }
        split; [exact H1|]. split; [intros Heq; right; apply H2; exact Heq|].
        split; [rewrite key_i_set by exact Hne; exact H3|]. split; [exact H4|]. split; [exact H5|].
        intros Ho. destruct (H6 Ho) as [Hq6 Hg6]. split; [|exact Hg6].
        intros k r Hin Hor Hcr. apply in_set_inv in Hin. destruct Hin as [He|Hin].
        * inversion He; subst k r. exfalso. apply (Hctx' Ho Hor). exact Hcr.
        * apply (Hq6 k r Hin Hor Hcr).
      + destruct HR as (H1 & H2 & H3 & H4 & H5 & H6 & H7).
        assert (Hne : snd (due_key (height s) n, req_id r') <> i) by (apply Hkey; left; lia).
        split; [exact H1|]. split; [exact H2|].
        split; [rewrite key_i_set by exact Hne; exact H3|]. split; [exact H4|].
        split; [exact H5|]. split; [exact H6|].
        intros k r Hin Hor. apply in_set_inv in Hin. destruct Hin as [He|Hin].
        * inversion He; subst k r. apply (Hctx' H2 Hor).
        * apply (H7 k r Hin Hor).
      + destruct HR as (H1 & H2 & H3 & H4).
        assert (Hne : snd (due_key (height s) n, req_id r') <> i) by (apply Hkey; left; lia).
        split; [exact H1|]. split; [rewrite key_i_set by exact Hne; exact H2|]. split; assumption.
      + destruct HR as (H1 & H2 & H3 & H4).
        assert (Hne : snd (due_key (height s) n, req_id r') <> i) by (apply Hkey; left; lia).
        split; [exact H1|]. split; [rewrite key_i_set by exact Hne; exact H2|]. split; assumption.
    - (* the next block begins *)
      destruct Hs as [Htz _]. unfold exec_step. rewrite (begin_block_nz s t a started Htz).
      cbn [used_after fst snd].
      pose proof (b_h _ _ Hb) as Hh1.
      destruct ph as [| |ev|]; cbn [spec_step R] in HR |- *.
      + (* Pending *)
        destruct HR as (H1 & H2 & H3 & H4 & H5 & H6).
        assert (Hdue0 : is_due (height s) ((d, i), r0) = (height s =? d)) by (apply is_due_tracked; [exact Hd|lia]).
        destruct (Z.eqb_spec (height s) d) as [Heqd|Hned].
        * (* the block that follows height + interval *)
          assert (Hfd : filter (is_due (height s)) (filter key_i (queue s)) = [((d, i), r0)]).
          { rewrite H3. cbn [filter]. rewrite Hdue0. reflexivity. }
          assert (Hin0 : In ((d, i), r0) (filter (is_due (height s)) (queue s))).
          { apply filter_In. split; [|exact Hdue0].
            assert (Hin : In ((d, i), r0) (filter key_i (queue s))) by (rewrite H3; left; reflexivity).
            apply filter_In in Hin. tauto. }
          assert (Hone : forall e, In e (filter (is_due (height s)) (queue s)) ->
                                   req_id (snd e) = i -> e = ((d, i), r0)).
          { intros e He Hid. pose proof (due_i _ _ _ Hk He Hid) as Hf. rewrite Hfd in Hf.
            destruct Hf as [<-|[]]. reflexivity. }
          assert (Hqueue : filter key_i (filter (not_due (height s)) (queue s)) = []).
          { rewrite filter_comm, H3. cbn [filter]. unfold not_due. rewrite Hdue0. reflexivity. }
          assert (Hevs : filter is_i (flat_map (fev t a (height s)) (filter (is_due (height s)) (queue s)))
                         = fev t a (height s) ((d, i), r0)).
          { rewrite fev_filter.
            - rewrite filter_comm, Hfd. simpl. apply app_nil_r.
            - intros k r Hin. apply Hk. apply in_filter_queue in Hin. exact Hin. }
          destruct (q_oracle r0) eqn:Hor0.
          -- destruct (H6 eq_refl) as [Hq6 Hg6].
             assert (Hres : get i (fold_left (fset pR kR (vR t a (height s)))
                                     (filter (is_due (height s)) (queue s)) (results s)) = None).
             { rewrite fset_keep; [exact H5|]. intros e He Hp Hid.
               rewrite (Hone e He Hid) in Hp. unfold pR in Hp. simpl in Hp. rewrite Hor0 in Hp. discriminate. }
             assert (Hevs0 : filter is_i (flat_map (fev t a (height s)) (filter (is_due (height s)) (queue s))) = []).
             { rewrite Hevs. unfold fev. simpl. rewrite Hor0. reflexivity. }
             fold ctx; destruct (existsb (Z.eqb ctx) started) eqn:Hst.
             ++ (* handed to the service *)
                split; [|exact Hevs0]. cbn [R height queue oracle results].
                split; [lia|]. split; [exact Hor0|]. split; [exact Hqueue|].
                split; [|split; [|split; [exact Hres|]]].
                ** apply fset_set.
                   --- intros e He Hp Hkc. unfold vO. destruct e as [k r].
                       apply in_filter_queue in He. unfold pO in Hp. simpl in Hp, Hkc |- *.
                       apply andb_prop in Hp. apply (Hq6 k r He); tauto.
                   --- right. exists ((d, i), r0). split; [exact Hin0|].
                       unfold pO, kO. simpl. rewrite Hor0. fold ctx. rewrite Hst. auto.
                ** intros x r Hin Hid. apply fset_in in Hin.
                   destruct Hin as [Hin|(e & He & Hp & Hx)]; [exfalso; apply (H4 x r Hin Hid)|].
                   inversion Hx; subst x r. unfold vO in Hid. rewrite (Hone e He Hid). reflexivity.
                ** intros k r Hin Hor Hcr. apply filter_In in Hin. destruct Hin as [Hin Hnd].
                   pose proof (Hq6 k r Hin Hor Hcr) as ->.
                   assert (Hki : In (k, r0) (filter key_i (queue s))).
                   { apply key_i_in; [exact Hin|]. rewrite (Hk k r0 Hin). reflexivity. }
                   rewrite H3 in Hki. destruct Hki as [Hki|[]]. inversion Hki; subst k.
                   unfold not_due in Hnd. rewrite Hdue0 in Hnd. discriminate.
             ++ (* the service refused: dropped *)
                split; [|exact Hevs0]. cbn [R height queue oracle results].
                split; [lia|]. split; [exact Hqueue|]. split; [|exact Hres].
                intros x r Hin Hid. apply fset_in in Hin.
                destruct Hin as [Hin|(e & He & Hp & Hx)]; [apply (H4 x r Hin Hid)|].
                inversion Hx; subst x r. unfold vO in Hid. rewrite (Hone e He Hid) in Hp.
                unfold pO in Hp. simpl in Hp. fold ctx in Hp. rewrite Hst, andb_false_r in Hp. discriminate.
          -- (* a plain request: fulfilled here *)
             split.
             ++ cbn [R height queue oracle results]. split; [lia|]. split; [exact Hqueue|]. split.
                ** intros x r Hin Hid. apply fset_in in Hin.
                   destruct Hin as [Hin|(e & He & Hp & Hx)]; [apply (H4 x r Hin Hid)|].
                   inversion Hx; subst x r. unfold vO in Hid. rewrite (Hone e He Hid) in Hp.
                   unfold pO in Hp. simpl in Hp. rewrite Hor0 in Hp. discriminate.
                ** apply fset_set.
                   --- intros e He _ Hid. unfold kR in Hid. rewrite (Hone e He Hid).
                       unfold vR, result_of. simpl. fold c. rewrite Heqd. f_equal. f_equal. lia.
                   --- right. exists ((d, i), r0). split; [exact Hin0|].
                       unfold pR, kR. simpl. rewrite Hor0. auto.
             ++ rewrite Hevs. unfold fev. simpl. rewrite Hor0. fold i c. rewrite Heqd. reflexivity.
        * (* not yet due *)
          assert (Hfd : filter (is_due (height s)) (filter key_i (queue s)) = []).
          { rewrite H3. cbn [filter]. rewrite Hdue0. reflexivity. }
          destruct (begin_untouched used s t a started Hb Hfd) as (Hres & Horc & Hevs).
          split; [|exact Hevs]. cbn [R height queue oracle results].
          split; [lia|]. split; [intros Heq; lia|].
          split; [rewrite filter_comm, H3; cbn [filter]; unfold not_due; rewrite Hdue0; reflexivity|].
          split; [|split; [rewrite Hres; exact H5|]].
          -- intros x r Hin. destruct (Horc x r Hin) as [Hin'|(Hne & _)]; [apply (H4 x r Hin')|exact Hne].
          -- intros Ho. destruct (H6 Ho) as [Hq6 Hg6]. split.
             ++ intros k r Hin. apply in_filter_queue in Hin. apply (Hq6 k r Hin).
             ++ rewrite fset_keep; [exact Hg6|]. intros e He Hp Hkc.
                destruct e as [k r]. unfold pO, kO in Hp, Hkc. simpl in Hp, Hkc.
                apply andb_prop in Hp. pose proof He as He'. apply in_filter_queue in He'.
                assert (Hr : r = r0) by (apply (Hq6 k r He'); tauto). subst r.
                assert (Hf : In (k, r0) (filter (is_due (height s)) (filter key_i (queue s)))).
                { apply (due_i _ _ _ Hk He). reflexivity. }
                rewrite Hfd in Hf. destruct Hf.
      + (* Started *)
        destruct HR as (H1 & H2 & H3 & H4 & H5 & H6 & H7).
        assert (Hfd : filter (is_due (height s)) (filter key_i (queue s)) = []) by (rewrite H3; reflexivity).
        destruct (begin_untouched used s t a started Hb Hfd) as (Hres & Horc & Hevs).
        split; [|exact Hevs]. cbn [R height queue oracle results].
        split; [lia|]. split; [exact H2|]. split; [rewrite filter_comm, H3; reflexivity|].
        split; [|split; [|split; [rewrite Hres; exact H6|]]].
        * apply fset_set; [|left; exact H4].
          intros e He Hp Hkc. exfalso. destruct e as [k r]. apply in_filter_queue in He.
          unfold pO, kO in Hp, Hkc. simpl in Hp, Hkc. apply andb_prop in Hp.
          apply (H7 k r He); tauto.
        * intros x r Hin Hid. destruct (Horc x r Hin) as [Hin'|(Hne & _)]; [apply (H5 x r Hin' Hid)|contradiction].
        * intros k r Hin. apply in_filter_queue in Hin. apply (H7 k r Hin).
      + (* Fulfilled *)
        destruct HR as (H1 & H2 & H3 & H4).
        assert (Hfd : filter (is_due (height s)) (filter key_i (queue s)) = []) by (rewrite H2; reflexivity).
        destruct (begin_untouched used s t a started Hb Hfd) as (Hres & Horc & Hevs).
        split; [|exact Hevs]. cbn [R height queue oracle results].
        split; [lia|]. split; [rewrite filter_comm, H2; reflexivity|].
        split; [|rewrite Hres; exact H4].
        intros x r Hin. destruct (Horc x r Hin) as [Hin'|(Hne & _)]; [apply (H3 x r Hin')|exact Hne].
      + (* Dropped *)
        destruct HR as (H1 & H2 & H3 & H4).
        assert (Hfd : filter (is_due (height s)) (filter key_i (queue s)) = []) by (rewrite H2; reflexivity).
        destruct (begin_untouched used s t a started Hb Hfd) as (Hres & Horc & Hevs).
        split; [|exact Hevs]. cbn [R height queue oracle results].
        split; [lia|]. split; [rewrite filter_comm, H2; reflexivity|].
        split; [|rewrite Hres; exact H4].
        intros x r Hin. destruct (Horc x r Hin) as [Hin'|(Hne & _)]; [apply (H3 x r Hin')|exact Hne].
    - (* callbacks *)
      unfold exec_step. rewrite (exec_calls_nz cs s (b_t _ _ Hb)). cbn [used_after fst snd].
      destruct (R_calls used cs s ph Hb HR) as [HR' Hev'].
      assert (Hph : spec_step sha r0 d s ph (Calls cs) = fold_left (spec_call sha r0 (height s) (time s) (apph s)) cs ph).
      { destruct ph; cbn [spec_step]; try reflexivity; symmetry; apply spec_calls_stable; discriminate. }
      rewrite Hph. split; assumption.
  Qed.

  (** *** whole histories *)
  Lemma spec_step_fulfilled s ev st : spec_step sha r0 d s (Fulfilled ev) st = Fulfilled ev.
  Proof. destruct st; reflexivity. Qed.

  Lemma spec_run_fulfilled steps : forall s ev, spec_run sha r0 d s (Fulfilled ev) steps = Fulfilled ev.
  Proof.
    induction steps as [|st steps IH]; intros s ev; cbn [spec_run]; [reflexivity|].
    rewrite spec_step_fulfilled. apply IH.
  Qed.

  Lemma ctx_unused_cons st rest : ctx_unused (st :: rest) <-> ctx_unused [st] /\ ctx_unused rest.
  Proof. clear d P. destruct st; simpl; tauto. Qed.

  Lemma ctx_unused_app a b : ctx_unused (a ++ b) <-> ctx_unused a /\ ctx_unused b.
  Proof. clear d P.
    induction a as [|st a IH]; simpl; [tauto|].
    destruct st; simpl; rewrite ?IH; tauto.
  Qed.

  Lemma track_run : 0 <= d < two64 -> P c = true -> forall steps used s ph,
    Base used s -> R used ph s -> sane used steps -> (q_oracle r0 = true -> ctx_unused steps) ->
    R (used_after used steps) (spec_run sha r0 d s ph steps) (run sha s steps)
    /\ filter is_i (events sha s steps) = new_events ph (spec_run sha r0 d s ph steps).
  Proof.
    intros Hd HP. induction steps as [|st steps IH]; intros used s ph Hb HR Hs Hc.
    - simpl. split; [exact HR|]. destruct ph; reflexivity.
    - apply sane_cons in Hs. destruct Hs as [Hs1 Hs2].
      assert (Hc1 : q_oracle r0 = true -> ctx_unused [st]) by (intros Ho; apply (ctx_unused_cons st steps); auto).
      assert (Hc2 : q_oracle r0 = true -> ctx_unused steps) by (intros Ho; apply (ctx_unused_cons st steps); auto).
      destruct (R_step used s ph st Hd HP Hb HR Hs1 Hc1) as [HR1 He1].
      destruct (IH _ _ _ (Base_step used s st Hb Hs1) HR1 Hs2 Hc2) as [HR2 He2].
      replace (used_after used (st :: steps)) with (used_after (used_step used st) steps)
        by (destruct st; reflexivity).
      cbn [run events spec_run]. split; [exact HR2|].
      rewrite filter_app, He1, He2. apply new_events_comp.
      + intros ev ->. apply spec_step_fulfilled.
      + intros ev ->. apply spec_run_fulfilled.
  Qed.

  (** *** where tracking starts: the state right after the request was accepted *)
  Lemma track_start : 0 <= d < two64 -> P c = true -> forall used s c' n orc capok txh svc,
    Base used s -> sane used [Req c' n orc capok txh svc] -> req_ok c' capok orc svc = true ->
    r0 = new_req s c' txh orc svc -> 0 <= n -> d = height s + n ->
    (q_oracle r0 = true ->
       (forall k r, In (k, r) (queue s) -> q_oracle r = true -> q_ctx r <> ctx)
       /\ (forall y r, In (y, r) (oracle s) -> y <> ctx)) ->
    R (c' :: used) Pending (enq s n r0).
  Proof.
    intros Hd HP used s c' n orc capok txh svc Hb Hs Hok Hr0 Hn Hdd Hfresh. simpl in Hs. rewrite Hok in Hs. destruct Hs as [Hnew _].
    assert (Hh : h = height s) by (unfold h; rewrite Hr0; reflexivity).
    assert (Hcc : c = c') by (unfold c; rewrite Hr0; reflexivity).
    assert (Hi : i = (height s, c')) by (unfold i; rewrite Hr0; reflexivity).
    pose proof (b_h _ _ Hb) as Hh1.
    assert (Hkey : due_key (height s) n = d).
    { unfold due_key. rewrite <- Hdd. apply Z.mod_small. lia. }
    cbn [R enq height queue oracle results]. rewrite Hkey.
    split; [lia|]. split; [intros _; left; symmetry; exact Hcc|]. split; [|split; [|split]].
    - apply key_i_set_new; [reflexivity|]. apply filter_nil_all. intros [k r] Hin.
      unfold key_i. simpl. apply eqb_false_iff. intros Hki.
      destruct (b_q _ _ Hb k r Hin) as (Hkr & _ & Hu).
      rewrite Hkr, Hi in Hki. unfold req_id in Hki. inversion Hki as [[Hqh Hqc]].
      apply Hnew; [rewrite <- Hcc; exact HP|]. rewrite <- Hqc. apply Hu. exact Hqh.
    - intros x r Hin Hid. pose proof (b_o _ _ Hb x r Hin) as Hlt.
      rewrite Hi in Hid. unfold req_id in Hid. inversion Hid. lia.
    - destruct (get i (results s)) as [v|] eqn:Hg; [|reflexivity].
      apply get_In in Hg. pose proof (b_r _ _ Hb _ _ Hg) as Hlt. rewrite Hi in Hlt. simpl in Hlt. lia.
    - intros Ho. destruct (Hfresh Ho) as [Hfq Hfo]. split.
      + intros k r Hin Hor Hcr. apply in_set_inv in Hin. destruct Hin as [He|Hin]; [congruence|].
        exfalso. apply (Hfq k r Hin Hor Hcr).
      + destruct (get ctx (oracle s)) as [r|] eqn:Hg; [|reflexivity].
        apply get_In in Hg. exfalso. apply (Hfo _ _ Hg). reflexivity.
  Qed.

  (** a service context never given to another request is not in the state *)
  Definition CF (s : state) : Prop :=
    (forall k r, In (k, r) (queue s) -> q_oracle r = true -> q_ctx r <> ctx)
    /\ (forall y r, In (y, r) (oracle s) -> y <> ctx).

  Lemma CF_step used s st : Base used s -> sane used [st] -> ctx_unused [st] -> CF s -> CF (step_state sha s st).
  Proof. clear d.
    intros Hb Hs Hc [Hq Ho]. unfold step_state.
    destruct st as [c' n orc capok txh svc|t a started|cs].
    - rewrite exec_req. destruct (req_ok c' capok orc svc) eqn:Hok; simpl; [|split; assumption].
      destruct (interval_ok (height s) n); simpl; [|split; assumption].
      split; [|exact Ho]. intros k r Hin Hor. apply in_set_inv in Hin. destruct Hin as [He|Hin]; [|apply (Hq k r Hin Hor)].
      inversion He; subst k r. unfold new_req in Hor |- *. simpl in Hor |- *. subst orc.
      destruct Hc as [Hsvc _]. specialize (Hsvc eq_refl).
      unfold req_ok in Hok. simpl in Hok. destruct svc as [y|]; [|rewrite andb_false_r in Hok; discriminate].
      intros Heq. apply Hsvc. congruence.
    - destruct Hs as [Htz _]. unfold exec_step. rewrite (begin_block_nz s t a started Htz). simpl. split.
      + intros k r Hin. apply in_filter_queue in Hin. apply (Hq k r Hin).
      + intros y r Hin. apply fset_in in Hin. destruct Hin as [Hin|(e & He & Hp & Hx)]; [apply (Ho y r Hin)|].
        inversion Hx; subst y r. destruct e as [k r]. apply in_filter_queue in He.
        unfold pO in Hp. simpl in Hp. apply andb_prop in Hp. unfold kO. simpl. apply (Hq k r He). tauto.
    - unfold exec_step. rewrite (exec_calls_nz cs s (b_t _ _ Hb)). simpl.
      destruct (calls_state_sub cs s) as (_ & _ & _ & Hq' & Ho' & _). split.
      + rewrite Hq'. exact Hq.
      + intros y r Hin. apply (Ho y r). apply Ho'. exact Hin.
  Qed.

  Lemma CF_run steps : forall used s, Base used s -> sane used steps -> ctx_unused steps -> CF s ->
    CF (run sha s steps).
  Proof.
    induction steps as [|st steps IH]; intros used s Hb Hs Hc Hcf; [exact Hcf|].
    apply sane_cons in Hs. destruct Hs as [Hs1 Hs2]. apply ctx_unused_cons in Hc. destruct Hc as [Hc1 Hc2].
    simpl. apply (IH (used_step used st)); auto.
    - apply Base_step; assumption.
    - apply (CF_step used); assumption.
  Qed.

  (** a plain request: the phase in closed form *)
  Fixpoint nth_begin (k : nat) (steps : list step) : option (Z * Z) :=
    match steps with
    | [] => None
    | Begin t a _ :: rest => match k with O => Some (t, a) | S k' => nth_begin k' rest end
    | _ :: rest => nth_begin k rest
    end.

  Lemma spec_run_plain : q_oracle r0 = false -> forall steps used s,
    sane used steps -> height s <= d ->
    spec_run sha r0 d s Pending steps =
    match nth_begin (Z.to_nat (d - height s)) steps with
    | Some (t, a) => Fulfilled (mkEv (d + 1) t a i (q_txh r0) None (rand_val sha t a c None))
    | None => Pending
    end.
  Proof.
    intros Hor. induction steps as [|st steps IH]; intros used s Hs Hle; [reflexivity|].
    apply sane_cons in Hs. destruct Hs as [Hs1 Hs2].
    destruct st as [c' n orc capok txh svc|t a started|cs]; cbn [spec_run spec_step nth_begin].
    - assert (Hhs : height (step_state sha s (Req c' n orc capok txh svc)) = height s).
      { unfold step_state. rewrite exec_req.
        destruct (req_ok c' capok orc svc); [destruct (interval_ok (height s) n)|]; reflexivity. }
      rewrite (IH _ _ Hs2) by (rewrite Hhs; exact Hle). rewrite Hhs. reflexivity.
    - destruct Hs1 as [Htz _].
      assert (Hh' : height (step_state sha s (Begin t a started)) = height s + 1).
      { unfold step_state, exec_step. rewrite (begin_block_nz s t a started Htz). reflexivity. }
      destruct (Z.eqb_spec (height s) d) as [Heq|Hne].
      + rewrite Hor, spec_run_fulfilled. replace (d - height s) with 0 by lia. reflexivity.
      + rewrite (IH _ _ Hs2) by (rewrite Hh'; lia). rewrite Hh'.
        replace (Z.to_nat (d - height s)) with (S (Z.to_nat (d - (height s + 1)))) by lia.
        reflexivity.
    - assert (Hh' : height (step_state sha s (Calls cs)) = height s \/ True) by (right; exact I).
      destruct (exec_calls sha s cs) as [[s' evs]|] eqn:Hex.
      + assert (Hhs : height (step_state sha s (Calls cs)) = height s).
        { unfold step_state, exec_step. rewrite Hex. simpl.
          clear -Hex. revert s s' evs Hex. induction cs as [|cl cs IHc]; intros s s' evs Hex; simpl in Hex.
          - inversion Hex. reflexivity.
          - destruct (exec_call sha s cl) as [[s1 e1]|] eqn:Hc1; [|discriminate].
            destruct (exec_calls sha s1 cs) as [[s2 e2]|] eqn:Hc2; [|discriminate].
            inversion Hex; subst s' evs. rewrite (IHc _ _ _ Hc2).
            destruct cl as [x dta|x ex]; simpl in Hc1.
            + destruct dta; simpl in Hc1; try (inversion Hc1; reflexivity).
              destruct (get x (oracle s)); [|inversion Hc1; reflexivity].
              destruct (get_rand sha (time s) (apph s) (q_consumer r) (Some seed)); inversion Hc1; reflexivity.
            + inversion Hc1. destruct ex; reflexivity. }
        rewrite (IH _ _ Hs2) by (rewrite Hhs; exact Hle). rewrite Hhs. reflexivity.
      + assert (Hhs : step_state sha s (Calls cs) = s) by (unfold step_state, exec_step; rewrite Hex; reflexivity).
        rewrite Hhs. apply (IH _ _ Hs2 Hle).
  Qed.
End Track.

(** ** histories from the initial state *)
Section Top.
  Variable sha : hin -> Z.
  Variable P : Z -> bool.
  Notation sane := (sane P).

  Lemma run_app a : forall s b, run sha s (a ++ b) = run sha (run sha s a) b.
  Proof. induction a as [|st a IH]; intros s b; simpl; [reflexivity|apply IH]. Qed.

  Lemma events_app a : forall s b,
    events sha s (a ++ b) = events sha s a ++ events sha (run sha s a) b.
  Proof.
    induction a as [|st a IH]; intros s b; simpl; [reflexivity|].
    rewrite IH, app_assoc. reflexivity.
  Qed.

  Lemma used_after_app a : forall used b, used_after used (a ++ b) = used_after (used_after used a) b.
  Proof.
    induction a as [|st a IH]; intros used b; [reflexivity|].
    destruct st; simpl; apply IH.
  Qed.

  Lemma spec_run_app r0 d a : forall s ph b,
    spec_run sha r0 d s ph (a ++ b) = spec_run sha r0 d (run sha s a) (spec_run sha r0 d s ph a) b.
  Proof. induction a as [|st a IH]; intros s ph b; simpl; [reflexivity|apply IH]. Qed.

  Lemma step_height used s st : Base used s -> sane used [st] ->
    height s <= height (step_state sha s st).
  Proof.
    intros Hb Hs. unfold step_state. destruct st as [c n orc capok txh svc|t a started|cs].
    - rewrite exec_req. destruct (req_ok c capok orc svc); [destruct (interval_ok (height s) n)|]; simpl; lia.
    - destruct Hs as [Htz _]. unfold exec_step. rewrite (begin_block_nz sha s t a started Htz). simpl. lia.
    - unfold exec_step. rewrite (exec_calls_nz sha cs s (b_t _ _ Hb)). simpl.
      destruct (calls_state_sub sha cs s) as (Hh & _). lia.
  Qed.

  Lemma run_height steps : forall used s, Base used s -> sane used steps ->
    height s <= height (run sha s steps).
  Proof.
    induction steps as [|st steps IH]; intros used s Hb Hs; simpl; [lia|].
    apply sane_cons in Hs. destruct Hs as [Hs1 Hs2].
    pose proof (step_height used s st Hb Hs1).
    pose proof (IH _ _ (Base_step sha P used s st Hb Hs1) Hs2). lia.
  Qed.

  Lemma calls_events_src cs : forall s ev, In ev (calls_events sha s cs) ->
    exists x r, In (x, r) (oracle s) /\ e_rid ev = req_id r.
  Proof.
    induction cs as [|cl cs IH]; intros s ev; simpl; [tauto|].
    rewrite in_app_iff. intros [Hin|Hin].
    - destruct cl as [x dta|x ex]; simpl in Hin; try contradiction.
      destruct dta; try contradiction.
      destruct (get x (oracle s)) as [r|] eqn:Hg; [|contradiction].
      destruct Hin as [<-|[]]. exists x, r. split; [apply get_In; exact Hg|reflexivity].
    - destruct (IH _ _ Hin) as (x & r & Hx & Hid). exists x, r. split; [|exact Hid].
      apply call_oracle_sub with sha cl. exact Hx.
  Qed.

  (** a fulfilment is always of a request made in an earlier block *)
  Lemma step_events_old used s st ev : Base used s -> sane used [st] ->
    In ev (step_events sha s st) -> fst (e_rid ev) < height (step_state sha s st).
  Proof.
    intros Hb Hs. unfold step_events, step_state.
    destruct st as [c n orc capok txh svc|t a started|cs].
    - rewrite exec_req. destruct (req_ok c capok orc svc); [destruct (interval_ok (height s) n)|]; simpl; tauto.
    - destruct Hs as [Htz _]. unfold exec_step. rewrite (begin_block_nz sha s t a started Htz). simpl.
      intros Hin. apply in_flat_map in Hin. destruct Hin as ([k r] & He & Hev).
      unfold fev in Hev. simpl in Hev. destruct (q_oracle r); [contradiction|].
      destruct Hev as [<-|[]]. simpl. apply in_filter_queue in He.
      destruct (b_q _ _ Hb k r He) as (_ & Hle & _). lia.
    - unfold exec_step. rewrite (exec_calls_nz sha cs s (b_t _ _ Hb)). simpl.
      intros Hin. destruct (calls_events_src cs s ev Hin) as (x & r & Hx & Hid).
      destruct (calls_state_sub sha cs s) as (Hh & _). rewrite Hh, Hid. simpl.
      apply (b_o _ _ Hb x r Hx).
  Qed.

  Lemma events_old steps : forall used s ev, Base used s -> sane used steps ->
    In ev (events sha s steps) -> fst (e_rid ev) < height (run sha s steps).
  Proof.
    induction steps as [|st steps IH]; intros used s ev Hb Hs; simpl; [tauto|].
    apply sane_cons in Hs. destruct Hs as [Hs1 Hs2].
    pose proof (Base_step sha P used s st Hb Hs1) as Hb1.
    rewrite in_app_iff. intros [Hin|Hin].
    - pose proof (step_events_old used s st ev Hb Hs1 Hin).
      pose proof (run_height steps _ _ Hb1 Hs2). lia.
    - apply (IH _ _ _ Hb1 Hs2 Hin).
  Qed.

  (** every fulfilment in every history: its value is [rand_val] of its own block's time and
      app hash, its requester and its seed *)
  Lemma events_value steps : forall used s ev, Base used s -> sane used steps ->
    In ev (events sha s steps) ->
    e_time ev <> 0 /\ e_val ev = rand_val sha (e_time ev) (e_app ev) (snd (e_rid ev)) (e_seed ev).
  Proof.
    induction steps as [|st steps IH]; intros used s ev Hb Hs; simpl; [tauto|].
    apply sane_cons in Hs. destruct Hs as [Hs1 Hs2].
    rewrite in_app_iff. intros [Hin|Hin].
    - destruct (step_events_ok sha P used s st ev Hb Hs1 Hin) as [(Hb' & Ht' & Ha' & Hv) Hnz].
      rewrite Ht', Ha'. split; [exact Hnz|exact Hv].
    - apply (IH _ _ _ (Base_step sha P used s st Hb Hs1) Hs2 Hin).
  Qed.


  (** every result stored in a reachable state is in range *)
  Definition RInv (s : state) : Prop :=
    forall id txh hh x, In (id, (txh, hh, x)) (results s) -> 0 <= x < precision.

  Lemma RInv_call s cl : RInv s -> RInv (call_state sha s cl).
  Proof.
    intros Hr. destruct cl as [y dta|y ex]; simpl.
    - destruct dta; simpl; auto.
      destruct (get y (oracle s)) as [r|]; simpl; auto.
      intros id txh hh x Hin. apply in_set_inv in Hin. destruct Hin as [He|Hin]; [|apply (Hr _ _ _ _ Hin)].
      inversion He. apply rand_val_range.
    - destruct ex; simpl; auto.
  Qed.

  Lemma RInv_calls cs : forall s, RInv s -> RInv (calls_state sha s cs).
  Proof.
    induction cs as [|cl cs IH]; intros s Hr; simpl; [exact Hr|].
    apply IH. apply RInv_call. exact Hr.
  Qed.

  Lemma RInv_step used s st : Base used s -> sane used [st] -> RInv s -> RInv (step_state sha s st).
  Proof.
    intros Hb Hs Hr. unfold step_state. destruct st as [c n orc capok txh svc|t a started|cs].
    - rewrite exec_req. destruct (req_ok c capok orc svc); [destruct (interval_ok (height s) n)|]; simpl; exact Hr.
    - destruct Hs as [Htz _]. unfold exec_step. rewrite (begin_block_nz sha s t a started Htz). simpl.
      intros id txh hh x Hin. apply fset_in in Hin. destruct Hin as [Hin|(e & _ & _ & Hx)]; [apply (Hr _ _ _ _ Hin)|].
      inversion Hx. apply rand_val_range.
    - unfold exec_step. rewrite (exec_calls_nz sha cs s (b_t _ _ Hb)). simpl. apply RInv_calls. exact Hr.
  Qed.

  Lemma RInv_run steps : forall used s, Base used s -> sane used steps -> RInv s -> RInv (run sha s steps).
  Proof.
    induction steps as [|st steps IH]; intros used s Hb Hs Hr; [exact Hr|].
    apply sane_cons in Hs. destruct Hs as [Hs1 Hs2]. simpl.
    apply (IH (used_step used st)); [apply (Base_step sha P); assumption|exact Hs2|].
    apply (RInv_step used); assumption.
  Qed.

  Lemma stored_results_lemma steps id txh hh x :
    sane [] steps -> query_random (run sha init steps) id = Some (txh, hh, x) ->
    0 <= x < precision
    /\ exists ds, render x = 48 :: 46 :: ds /\ length ds = 20%nat
                  /\ Forall (fun ch => 48 <= ch <= 57) ds /\ undigits ds 0 = x.
  Proof.
    intros Hs Hq. unfold query_random in Hq. apply get_In in Hq.
    assert (Hx : 0 <= x < precision).
    { apply (RInv_run steps [] init Base_init Hs) with id txh hh; [|exact Hq]. intros ? ? ? ? []. }
    split; [exact Hx|apply render_value; exact Hx].
  Qed.


  (** *** one block, one header: fulfilments of the same block share (time, app hash) *)
  Lemma step_header_same used s st : Base used s -> sane used [st] ->
    height (step_state sha s st) = height s ->
    time (step_state sha s st) = time s /\ apph (step_state sha s st) = apph s.
  Proof.
    intros Hb Hs. unfold step_state. destruct st as [c n orc capok txh svc|t a started|cs].
    - rewrite exec_req. destruct (req_ok c capok orc svc); [destruct (interval_ok (height s) n)|]; simpl; auto.
    - destruct Hs as [Htz _]. unfold exec_step. rewrite (begin_block_nz sha s t a started Htz). simpl. lia.
    - unfold exec_step. rewrite (exec_calls_nz sha cs s (b_t _ _ Hb)). simpl.
      destruct (calls_state_sub sha cs s) as (_ & Ht & Ha & _). auto.
  Qed.

  Lemma events_header steps : forall used s ev, Base used s -> sane used steps ->
    In ev (events sha s steps) ->
    height s <= e_block ev /\ (e_block ev = height s -> e_time ev = time s /\ e_app ev = apph s).
  Proof.
    induction steps as [|st steps IH]; intros used s ev Hb Hs; simpl; [tauto|].
    apply sane_cons in Hs. destruct Hs as [Hs1 Hs2].
    pose proof (step_height used s st Hb Hs1) as Hh.
    pose proof (Base_step sha P used s st Hb Hs1) as Hb1.
    rewrite in_app_iff. intros [Hin|Hin].
    - destruct (step_events_ok sha P used s st ev Hb Hs1 Hin) as [(Hb' & Ht' & Ha' & _) _].
      split; [lia|]. intros Heq. rewrite Ht', Ha'. apply (step_header_same used s st Hb Hs1). lia.
    - destruct (IH _ _ _ Hb1 Hs2 Hin) as [Hle Hhd]. split; [lia|].
      intros Heq. assert (Hsame : height (step_state sha s st) = height s) by lia.
      destruct (step_header_same used s st Hb Hs1 Hsame) as [<- <-]. apply Hhd. lia.
  Qed.

  Lemma same_block_same_header steps : forall used s ev1 ev2, Base used s -> sane used steps ->
    In ev1 (events sha s steps) -> In ev2 (events sha s steps) -> e_block ev1 = e_block ev2 ->
    e_time ev1 = e_time ev2 /\ e_app ev1 = e_app ev2.
  Proof.
    induction steps as [|st steps IH]; intros used s ev1 ev2 Hb Hs; simpl; [tauto|].
    apply sane_cons in Hs. destruct Hs as [Hs1 Hs2].
    pose proof (Base_step sha P used s st Hb Hs1) as Hb1.
    rewrite !in_app_iff. intros [H1|H1] [H2|H2] Heq.
    - destruct (step_events_ok sha P used s st ev1 Hb Hs1 H1) as [(_ & -> & -> & _) _].
      destruct (step_events_ok sha P used s st ev2 Hb Hs1 H2) as [(_ & -> & -> & _) _]. auto.
    - destruct (step_events_ok sha P used s st ev1 Hb Hs1 H1) as [(Hb' & -> & -> & _) _].
      destruct (events_header steps _ _ ev2 Hb1 Hs2 H2) as [_ Hhd].
      destruct Hhd as [-> ->]; [congruence|auto].
    - destruct (step_events_ok sha P used s st ev2 Hb Hs1 H2) as [(Hb' & -> & -> & _) _].
      destruct (events_header steps _ _ ev1 Hb1 Hs2 H1) as [_ Hhd].
      destruct Hhd as [-> ->]; [congruence|auto].
    - apply (IH _ _ _ _ Hb1 Hs2 H1 H2 Heq).
  Qed.

  (** several requests fulfilled in one block: one header, and each value is computed from its
      OWN requester's address (and its own seed) *)
  Lemma same_block_own_address_lemma steps ev1 ev2 :
    sane [] steps -> In ev1 (events sha init steps) -> In ev2 (events sha init steps) ->
    e_block ev1 = e_block ev2 ->
    let t := e_time ev1 in let a := e_app ev1 in
    e_time ev2 = t /\ e_app ev2 = a
    /\ e_val ev1 = rand_val sha t a (snd (e_rid ev1)) (e_seed ev1)
    /\ e_val ev2 = rand_val sha t a (snd (e_rid ev2)) (e_seed ev2).
  Proof.
    intros Hs H1 H2 Heq t a.
    destruct (same_block_same_header steps [] init ev1 ev2 Base_init Hs H1 H2 Heq) as [Ht Ha].
    destruct (events_value steps [] init ev1 Base_init Hs H1) as [_ Hv1].
    destruct (events_value steps [] init ev2 Base_init Hs H2) as [_ Hv2].
    unfold t, a. rewrite Ht, Ha. rewrite Ht, Ha in Hv1. auto.
  Qed.

  (** *** the life of an arbitrary request in an arbitrary history *)
  Section Life.
    Variables (pre post : list step) (c n : Z) (orc capok : bool) (txh : Z) (svc : option Z).
    Let s := run sha init pre.
    Let r0 := new_req s c txh orc svc.
    Let d := height s + n.
    Let s1 := enq s n r0.
    Let steps := pre ++ Req c n orc capok txh svc :: post.

    Hypothesis Hsane : sane [] steps.
    Hypothesis HP : P c = true.
    Hypothesis Hok : req_ok c capok orc svc = true.
    Hypothesis Hn : 0 <= n.
    Hypothesis Hd : d < two63.
    Hypothesis Hctx : orc = true -> ctx_unused r0 (pre ++ post).

    Lemma life_lemma :
      let ph := spec_run sha r0 d s1 Pending post in
      R r0 d (used_after [] steps) ph (run sha init steps)
      /\ filter (is_i r0) (events sha init steps) = new_events Pending ph.
    Proof using All.
      intros ph.
      unfold steps in Hsane. apply sane_app in Hsane. destruct Hsane as [Hs_pre Hs_rest].
      apply sane_cons in Hs_rest. destruct Hs_rest as [Hs_req Hs_post].
      set (used1 := used_after [] pre) in *.
      assert (Hu : used_step used1 (Req c n orc capok txh svc) = c :: used1).
      { unfold used_step. simpl. rewrite Hok. reflexivity. }
      rewrite Hu in Hs_post.
      pose proof (Base_run sha P pre [] init Base_init Hs_pre) as Hb. fold s in Hb. fold used1 in Hb.
      pose proof (b_h _ _ Hb) as Hh1.
      assert (Hdr : 0 <= d < two64) by (unfold d, two63, two64 in *; lia).
      assert (Hiv : interval_ok (height s) n = true).
      { unfold interval_ok. fold d. unfold d, two63 in *.
        apply andb_true_intro. split; apply Z.ltb_lt; lia. }
      assert (Hor : q_oracle r0 = orc) by reflexivity.
      assert (Hcu : q_oracle r0 = true -> ctx_unused r0 pre /\ ctx_unused r0 post).
      { intros Ho. rewrite Hor in Ho. apply (proj1 (ctx_unused_app r0 pre post)). apply Hctx. exact Ho. }
      assert (HR1 : R r0 d (c :: used1) Pending s1).
      { apply (track_start P r0 d Hdr HP used1 s c n orc capok txh svc Hb Hs_req Hok eq_refl Hn eq_refl).
        intros Ho. destruct (Hcu Ho) as [Hcp _].
        assert (Hcf : CF r0 s).
        { apply (CF_run sha P r0 pre [] init Base_init Hs_pre Hcp).
          split; intros ? ? []. }
        exact Hcf. }
      assert (Hb1 : Base (c :: used1) s1).
      { pose proof (Base_step sha P used1 s _ Hb Hs_req) as Hb1. rewrite Hu in Hb1.
        unfold step_state in Hb1. rewrite exec_req, Hok, Hiv in Hb1. exact Hb1. }
      destruct (track_run sha P r0 d Hdr HP post (c :: used1) s1 Pending Hb1 HR1 Hs_post
                          (fun Ho => proj2 (Hcu Ho))) as [HR He].
      assert (Hrun : run sha init steps = run sha s1 post).
      { unfold steps. rewrite run_app. fold s. simpl. unfold step_state. rewrite exec_req, Hok, Hiv. reflexivity. }
      assert (Hused : used_after [] steps = used_after (c :: used1) post).
      { unfold steps. rewrite used_after_app. fold used1. simpl. rewrite Hok. reflexivity. }
      rewrite Hrun, Hused. split; [exact HR|].
      unfold steps. rewrite events_app. fold s. cbn [events].
      unfold step_events at 1, step_state. rewrite exec_req, Hok, Hiv. cbn [fst snd app].
      change (enq s n (new_req s c txh orc svc)) with s1.
      rewrite filter_app, He.
      rewrite (filter_nil_all (is_i r0) (events sha init pre)); [reflexivity|].
      intros ev Hin. pose proof (events_old pre [] init ev Base_init Hs_pre Hin) as Hlt. fold s in Hlt.
      unfold is_i. apply eqb_false_iff. intros Heq. rewrite Heq in Hlt. simpl in Hlt. lia.
    Qed.

    (** what the phase shows to the queries *)
    Lemma R_view used ph st :
      R r0 d used ph st ->
      pending st (req_id r0) = match ph with Pending => [d] | _ => [] end
      /\ query_random st (req_id r0) = match ph with Fulfilled ev => Some (result_of ev) | _ => None end
      /\ match ph with
         | Started => get (q_ctx r0) (oracle st) = Some r0
         | _ => forall x r, In (x, r) (oracle st) -> req_id r <> req_id r0
         end.
    Proof.
      unfold pending, query_random.
      change (fun e : Z * rid * request => eqb (snd (fst e)) (req_id r0)) with (key_i r0).
      destruct ph as [| |ev|]; simpl.
      - intros (_ & _ & H3 & H4 & H5 & _). rewrite H3. auto.
      - intros (_ & _ & H3 & H4 & _ & H6 & _). rewrite H3. auto.
      - intros (_ & H2 & H3 & H4). rewrite H2. auto.
      - intros (_ & H2 & H3 & H4). rewrite H2. auto.
    Qed.

    (** a plain request: pending until the begin block number [n+1] after it, fulfilled there
        from that block's header, exactly once *)
    Lemma plain_lemma : orc = false ->
      let fin := run sha init steps in
      let mine := filter (is_i r0) (events sha init steps) in
      match nth_begin (Z.to_nat n) post with
      | None => pending fin (req_id r0) = [d] /\ query_random fin (req_id r0) = None /\ mine = []
      | Some (t, a) =>
          let x := rand_val sha t a c None in
          pending fin (req_id r0) = [] /\ query_random fin (req_id r0) = Some (txh, d, x)
          /\ mine = [mkEv (d + 1) t a (req_id r0) txh None x]
      end.
    Proof using All.
      intros Horc fin mine. destruct life_lemma as [HR He].
      assert (Hs_post : sane (c :: used_after [] pre) post).
      { unfold steps in Hsane. apply sane_app in Hsane. destruct Hsane as [_ Hs_rest].
        apply sane_cons in Hs_rest. destruct Hs_rest as [_ Hs_post].
        unfold used_step in Hs_post. simpl in Hs_post. rewrite Hok in Hs_post. exact Hs_post. }
      assert (Hor : q_oracle r0 = false) by exact Horc.
      pose proof (spec_run_plain sha P r0 d Hor post _ s1 Hs_post) as Hsp.
      assert (Hle : height s1 <= d) by (unfold s1, d; simpl; lia).
      specialize (Hsp Hle). replace (d - height s1) with n in Hsp by (unfold s1, d; simpl; lia).
      destruct (R_view _ _ _ HR) as (Hp & Hq & _). fold fin in Hp, Hq. fold mine in He.
      rewrite Hsp in Hp, Hq, He.
      destruct (nth_begin (Z.to_nat n) post) as [[t a]|].
      - cbv zeta. rewrite Hp, Hq, He. unfold result_of. simpl.
        replace (d + 1 - 1) with d by lia. auto.
      - rewrite Hp, Hq, He. auto.
    Qed.
  End Life.

  (** once a result can be read under the id of a request, every longer history reads the same *)
  Lemma read_back_lemma pre post post' c n orc capok txh svc v :
    let s := run sha init pre in
    let r0 := new_req s c txh orc svc in
    let rq := Req c n orc capok txh svc in
    sane [] (pre ++ rq :: post ++ post') -> P c = true ->
    req_ok c capok orc svc = true -> 0 <= n -> height s + n < two63 ->
    (orc = true -> ctx_unused r0 (pre ++ post ++ post')) ->
    query_random (run sha init (pre ++ rq :: post)) (req_id r0) = Some v ->
    query_random (run sha init (pre ++ rq :: post ++ post')) (req_id r0) = Some v.
  Proof.
    intros s r0 rq Hs HP Hok Hn Hd Hc Hq.
    assert (Hs1 : sane [] (pre ++ rq :: post)).
    { rewrite app_comm_cons, app_assoc in Hs. apply sane_app in Hs. tauto. }
    assert (Hc1 : orc = true -> ctx_unused r0 (pre ++ post)).
    { intros Ho. specialize (Hc Ho). rewrite app_assoc in Hc. apply ctx_unused_app in Hc. tauto. }
    destruct (life_lemma pre post c n orc capok txh svc Hs1 HP Hok Hn Hd Hc1) as [HR1 _].
    destruct (life_lemma pre (post ++ post') c n orc capok txh svc Hs HP Hok Hn Hd Hc) as [HR2 _].
    apply R_view in HR1. destruct HR1 as (_ & Hq1 & _).
    apply R_view in HR2. destruct HR2 as (_ & Hq2 & _).
    fold s r0 rq in Hq1, Hq2. rewrite Hq1 in Hq. rewrite Hq2.
    rewrite spec_run_app.
    destruct (spec_run sha r0 (height s + n) (enq s n r0) Pending post) as [| |ev|]; try discriminate.
    rewrite spec_run_fulfilled. exact Hq.
  Qed.

  (** at most one fulfilment per request, in every history *)
  Lemma at_most_once_lemma pre post c n orc capok txh svc :
    let s := run sha init pre in
    let r0 := new_req s c txh orc svc in
    let steps := pre ++ Req c n orc capok txh svc :: post in
    sane [] steps -> P c = true -> req_ok c capok orc svc = true -> 0 <= n -> height s + n < two63 ->
    (orc = true -> ctx_unused r0 (pre ++ post)) ->
    (length (filter (is_i r0) (events sha init steps)) <= 1)%nat.
  Proof.
    intros s r0 steps Hs HP Hok Hn Hd Hc.
    destruct (life_lemma pre post c n orc capok txh svc Hs HP Hok Hn Hd Hc) as [_ He].
    fold s r0 steps in He. rewrite He.
    destruct (spec_run sha r0 (height s + n) (enq s n r0) Pending post); simpl; lia.
  Qed.

  (** two fulfilments - in the same or in different histories - under the same block time,
      app hash, requester and oracle seed have the same value *)
  Lemma same_inputs_same_value_lemma steps1 steps2 ev1 ev2 :
    sane [] steps1 -> sane [] steps2 ->
    In ev1 (events sha init steps1) -> In ev2 (events sha init steps2) ->
    e_time ev1 = e_time ev2 -> e_app ev1 = e_app ev2 ->
    snd (e_rid ev1) = snd (e_rid ev2) -> e_seed ev1 = e_seed ev2 ->
    e_val ev1 = e_val ev2.
  Proof.
    intros H1 H2 Hi1 Hi2 Ht Ha Hc Hsd.
    destruct (events_value steps1 [] init ev1 Base_init H1 Hi1) as [_ ->].
    destruct (events_value steps2 [] init ev2 Base_init H2 Hi2) as [_ ->].
    rewrite Ht, Ha, Hc, Hsd. reflexivity.
  Qed.

  Lemma fulfilment_value_lemma steps ev :
    sane [] steps -> In ev (events sha init steps) ->
    e_time ev <> 0
    /\ e_val ev = rand_val sha (e_time ev) (e_app ev) (snd (e_rid ev)) (e_seed ev)
    /\ 0 <= e_val ev < precision.
  Proof.
    intros Hs Hin. destruct (events_value steps [] init ev Base_init Hs Hin) as [Hnz Hv].
    split; [exact Hnz|]. split; [exact Hv|]. rewrite Hv. apply rand_val_range.
  Qed.
  (** the life of a request as the queries and the fulfilment log show it *)
  Lemma life_view_lemma pre post c n orc capok txh svc :
    let s := run sha init pre in
    let r0 := new_req s c txh orc svc in
    let d := height s + n in
    let steps := pre ++ Req c n orc capok txh svc :: post in
    sane [] steps -> P c = true -> req_ok c capok orc svc = true -> 0 <= n -> d < two63 ->
    (orc = true -> ctx_unused r0 (pre ++ post)) ->
    let ph := spec_run sha r0 d (enq s n r0) Pending post in
    let fin := run sha init steps in
    pending fin (req_id r0) = match ph with Pending => [d] | _ => [] end
    /\ query_random fin (req_id r0) = match ph with Fulfilled ev => Some (result_of ev) | _ => None end
    /\ match ph with
       | Started => get (q_ctx r0) (oracle fin) = Some r0
       | _ => forall x r, In (x, r) (oracle fin) -> req_id r <> req_id r0
       end
    /\ filter (is_i r0) (events sha init steps) = match ph with Fulfilled ev => [ev] | _ => [] end.
  Proof.
    intros s r0 d steps Hs HP Hok Hn Hd Hc ph fin.
    destruct (life_lemma pre post c n orc capok txh svc Hs HP Hok Hn Hd Hc) as [HR He].
    apply R_view in HR. destruct HR as (H1 & H2 & H3).
    fold s r0 d steps ph fin in H1, H2, H3, He.
    split; [exact H1|]. split; [exact H2|]. split; [exact H3|].
    rewrite He. destruct ph; reflexivity.
  Qed.

  (** the automaton, read off its definition *)
  Lemma spec_seed_fulfils r0 hh tt aa seed :
    spec_call sha r0 hh tt aa Started (CallResp (q_ctx r0) (CbSeed seed)) =
    Fulfilled (mkEv hh tt aa (req_id r0) (q_txh r0) (Some seed)
                    (rand_val sha tt aa (q_consumer r0) (Some seed))).
  Proof. unfold spec_call. rewrite Z.eqb_refl. reflexivity. Qed.

  Lemma spec_failure_drops r0 hh tt aa :
    spec_call sha r0 hh tt aa Started (CallResp (q_ctx r0) CbFail) = Dropped
    /\ spec_call sha r0 hh tt aa Started (CallResp (q_ctx r0) CbNoCtx) = Dropped
    /\ spec_call sha r0 hh tt aa Started (CallState (q_ctx r0) true) = Dropped.
  Proof. unfold spec_call. rewrite Z.eqb_refl. auto. Qed.

  Lemma spec_other_context_ignored r0 hh tt aa cl :
    match cl with CallResp x _ | CallState x _ => x <> q_ctx r0 end ->
    spec_call sha r0 hh tt aa Started cl = Started.
  Proof.
    destruct cl as [x dta|x ex]; intros Hne; unfold spec_call;
      destruct (Z.eqb_spec x (q_ctx r0)); try contradiction; reflexivity.
  Qed.

  Lemma spec_due_block r0 d s t a started : height s = d ->
    spec_step sha r0 d s Pending (Begin t a started) =
    if q_oracle r0 then (if existsb (Z.eqb (q_ctx r0)) started then Started else Dropped)
    else Fulfilled (mkEv (d + 1) t a (req_id r0) (q_txh r0) None (rand_val sha t a (q_consumer r0) None)).
  Proof. intros Hh. unfold spec_step. rewrite Hh, Z.eqb_refl. reflexivity. Qed.

  Lemma spec_not_due r0 d s st : height s <> d -> spec_step sha r0 d s Pending st = Pending.
  Proof.
    intros Hne. destruct st; try reflexivity. unfold spec_step.
    destruct (Z.eqb_spec (height s) d); [contradiction|reflexivity].
  Qed.

  Lemma spec_run_dropped r0 d steps : forall s, spec_run sha r0 d s Dropped steps = Dropped.
  Proof.
    induction steps as [|st steps IH]; intros s; cbn [spec_run]; [reflexivity|].
    replace (spec_step sha r0 d s Dropped st) with Dropped by (destruct st; reflexivity). apply IH.
  Qed.
End Top.
