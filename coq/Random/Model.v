(** * Random module: executable model
    (modules/random/{abci.go, keeper/keeper.go, keeper/service.go, keeper/msg_server.go,
     types/rng.go, types/request.go, types/msgs.go})

    State of the module: the pending queue (due height, request id) -> request, the results
    request id -> (request tx hash, height, value), and the oracle requests
    service context id -> request; plus the header of the current block (height, unix time,
    app hash), which the begin blocker and the response callback read.

    - The request id is [SHA256(be64 height ++ consumer)] (types/request.go GenerateRequestID).
      The hash is an identifier only: the model uses the pre-image [(height, consumer)]; the
      harness checks on every request that the real id is the SHA-256 of exactly that pre-image.
    - The PRNG (types/rng.go GetRand) hashes the app hash, the requester, the oracle seed and
      finally the big-endian bytes of a sum.  The four SHA-256 calls are a function parameter
      [sha : hin -> Z] of the model (digest read as a big-endian integer); every theorem holds
      for every [sha].  For execution [sha] is a finite table written by the harness, which
      recomputes the four inputs exactly as rng.go builds them.  The arithmetic (Euclidean
      division by the block timestamp, the sum, [mod 10^20], the 20-digit rendering) is the
      model's and is compared with the real result string.
    - The service module is the environment of the oracle path: what it returned to / called
      back into the random keeper (context id of RequestService, success of
      StartRequestContext, the invocations of HandlerResponse / HandlerStateChanged with their
      classified arguments) are inputs of the steps. *)
From Irismod Require Export Base.Prelude.

Definition two64 : Z := 18446744073709551616.
Definition two63 : Z := 9223372036854775808.
(** types/rng.go: [precision = 10^RandPrec], [RandPrec = 20] *)
Definition rand_prec : nat := 20.
Definition precision : Z := 100000000000000000000.

(** ** the hash oracle *)
Inductive hin :=
| HApp (a : Z)      (* SHA256(BlockHash): the app hash, interned *)
| HAddr (c : Z)     (* SHA256(TxInitiator): the requester's address bytes, by actor index *)
| HSeed (s : Z)     (* SHA256(OracleSeed): the 32 seed bytes, interned *)
| HSum (z : Z).     (* SHA256(seedSum.Bytes()): big-endian bytes of |z| *)

#[export] Instance EqDec_hin : EqDec hin.
Proof. intros x y. decide equality; apply Z.eq_dec. Defined.

(** ** requests, results *)
Definition rid := (Z * Z)%type.          (* pre-image of the request id: (height, consumer) *)

Record request := mkReq {
  q_height : Z;       (* height of the block in which the request was made *)
  q_consumer : Z;     (* actor index *)
  q_txh : Z;          (* SHA256(tx bytes), interned *)
  q_oracle : bool;
  q_ctx : Z           (* service context id, interned; -1 = "" *)
}.

#[export] Instance EqDec_request : EqDec request.
Proof. intros x y. decide equality; try apply Z.eq_dec; apply Bool.bool_dec. Defined.

(** types/request.go GenerateRequestID *)
Definition req_id (r : request) : rid := (q_height r, q_consumer r).

(** a stored random number: request tx hash, height, numerator of the value over 10^20
    (the stored string is [render] of it) *)
Definition result := (Z * Z * Z)%type.

Record state := mkState {
  height : Z;                         (* ctx.BlockHeight() *)
  time : Z;                           (* ctx.BlockHeader().Time.Unix() *)
  apph : Z;                           (* ctx.BlockHeader().AppHash, interned *)
  queue : amap (Z * rid) request;     (* RandomRequestQueueKey: (uint64 due height, id) -> request *)
  results : amap rid result;          (* RandomKey: id -> random *)
  oracle : amap Z request             (* OracleRandomRequestKey: service context id -> request *)
}.

Definition init : state := mkState 1 1 0 [] [] [].

(** a fulfilment: the block (height, time, app hash) in which it happened, the request, the
    oracle seed used (if any) and the value *)
Record event := mkEv {
  e_block : Z; e_time : Z; e_app : Z; e_rid : rid; e_txh : Z; e_seed : option Z; e_val : Z
}.

(** ** the PRNG, types/rng.go *)
Section WithHash.
  Variable sha : hin -> Z.

  (** Go [big.Int.Div] (Euclidean division), divisor non-zero *)
  Definition ediv (x y : Z) : Z := if 0 <? y then x / y else - (x / - y).

  (** PRNG.GetRand for [MakePRNG(appHash, t, consumer, seed, oracle)]: numerator of the
      result over 10^20; [None] = division by zero panic *)
  Definition rand_val (t a c : Z) (seed : option Z) : Z :=
    let seedBH := ediv (sha (HApp a)) t in
    let seedTI := ediv (sha (HAddr c)) t in
    let sum := t + seedBH + seedTI in
    let sum := match seed with Some sd => sum + ediv (sha (HSeed sd)) t | None => sum end in
    sha (HSum (Z.abs sum)) mod precision.

  Definition get_rand (t a c : Z) (seed : option Z) : option Z :=
    if t =? 0 then None else Some (rand_val t a c seed).

  (** ** messages *)

  (** MsgRequestRandom.ValidateBasic: the consumer is an address ([c >= 0]) and the fee cap is a
      valid coin set ([capok], decided by the SDK) *)
  Definition msg_ok (c : Z) (capok : bool) : bool := (0 <=? c) && capok.

  (** Keeper.RequestRandom: [destHeight := currentHeight + int64(blockInterval)], rejected if it
      wraps (see [interval_ok]), stored under [uint64(destHeight)]: together [(h + n) mod 2^64].  [svc] is what Keeper.RequestService
      returned for an oracle request ([None] = error). *)
  Definition due_key (h n : Z) : Z := (h + n) mod two64.

  (** the check added by "fix: random: reject a block interval whose destination height wraps
      below the current height": [int64(blockInterval) < 0 || destHeight < currentHeight] is an
      error; for [0 <= n < 2^64] and [1 <= h < 2^63] the request passes iff [n < 2^63] and
      [h + n < 2^63] (no int64 wrap) *)
  Definition interval_ok (h n : Z) : bool := (n <? two63) && (h + n <? two63).

  Definition request_random (s : state) (c n : Z) (orc : bool) (txh : Z) (svc : option Z)
    : option state :=
    let h := height s in
    let enq (r : request) :=
      mkState h (time s) (apph s) (set (due_key h n, req_id r) r (queue s)) (results s) (oracle s) in
    if negb (interval_ok h n) then None else
    if orc then
      match svc with
      | None => None
      | Some ctx => Some (enq (mkReq h c txh true ctx))
      end
    else Some (enq (mkReq h c txh false (-1))).

  (** ** begin blocker, abci.go BeginBlocker *)

  Definition is_due (last : Z) (e : (Z * rid) * request) : bool := fst (fst e) =? last mod two64.

  (** one queue entry of [lastBlockHeight]; [None] = panic *)
  Definition handle_due (t a last : Z) (started : list Z)
             (acc : option (amap rid result * amap Z request * list event)) (e : (Z * rid) * request)
    : option (amap rid result * amap Z request * list event) :=
    match acc with
    | None => None
    | Some (res, orc, evs) =>
        let r := snd e in
        if q_oracle r then
          (* StartRequestContext ok -> SetOracleRandRequest; dequeued either way *)
          if existsb (Z.eqb (q_ctx r)) started
          then Some (res, set (q_ctx r) r orc, evs)
          else Some (res, orc, evs)
        else
          match get_rand t a (q_consumer r) None with
          | None => None
          | Some x =>
              Some (set (req_id r) (q_txh r, last, x) res, orc,
                    evs ++ [mkEv (last + 1) t a (req_id r) (q_txh r) None x])
          end
    end.

  (** the block of height [height s + 1] begins with time [t] and app hash [a]; [started] are
      the service contexts StartRequestContext accepted *)
  Definition begin_block (s : state) (t a : Z) (started : list Z) : option (state * list event) :=
    let last := height s in                      (* lastBlockHeight = ctx.BlockHeight() - 1 *)
    let due := filter (is_due last) (queue s) in
    match fold_left (handle_due t a last started) due (Some (results s, oracle s, [])) with
    | None => None
    | Some (res, orc, evs) =>
        Some (mkState (height s + 1) t a (filter (fun e => negb (is_due last e)) (queue s)) res orc, evs)
    end.

  (** ** callbacks from the service module, keeper/service.go *)

  Inductive cbdata :=
  | CbFail              (* len(responseOutput) == 0 || err != nil *)
  | CbNoCtx             (* the service no longer knows the request context *)
  | CbBadBody           (* output body does not validate against RandomServiceSchemas *)
  | CbSeed (seed : Z).  (* body valid: "seed" is 64 hex digits = 32 bytes, interned *)

  Inductive call :=
  | CallResp (ctx : Z) (d : cbdata)            (* HandlerResponse *)
  | CallState (ctx : Z) (ctx_exists : bool).   (* HandlerStateChanged *)

  Definition del_oracle (s : state) (ctx : Z) : state :=
    mkState (height s) (time s) (apph s) (queue s) (results s) (del ctx (oracle s)).

  Definition handler_response (s : state) (ctx : Z) (d : cbdata) : option (state * list event) :=
    match d with
    | CbFail | CbNoCtx => Some (del_oracle s ctx, [])
    | CbBadBody =>
        (* request found: logs and returns WITHOUT deleting; not found: deleting is a no-op *)
        Some (s, [])
    | CbSeed seed =>
        match get ctx (oracle s) with
        | None => Some (del_oracle s ctx, [])
        | Some r =>
            match get_rand (time s) (apph s) (q_consumer r) (Some seed) with
            | None => None
            | Some x =>
                let last := height s - 1 in
                Some (mkState (height s) (time s) (apph s) (queue s)
                              (set (req_id r) (q_txh r, last, x) (results s))
                              (del ctx (oracle s)),
                      [mkEv (height s) (time s) (apph s) (req_id r) (q_txh r) (Some seed) x])
            end
        end
    end.

  Definition handler_state_changed (s : state) (ctx : Z) (ctx_exists : bool) : state :=
    if ctx_exists then del_oracle s ctx else s.

  Definition exec_call (s : state) (c : call) : option (state * list event) :=
    match c with
    | CallResp ctx d => handler_response s ctx d
    | CallState ctx ex => Some (handler_state_changed s ctx ex, [])
    end.

  Fixpoint exec_calls (s : state) (cs : list call) : option (state * list event) :=
    match cs with
    | [] => Some (s, [])
    | c :: cs' =>
        match exec_call s c with
        | None => None
        | Some (s1, e1) =>
            match exec_calls s1 cs' with
            | None => None
            | Some (s2, e2) => Some (s2, e1 ++ e2)
            end
        end
    end.

  (** ** steps and histories *)
  Inductive step :=
  | Req (c n : Z) (orc capok : bool) (txh : Z) (svc : option Z)   (* MsgRequestRandom as one tx *)
  | Begin (t a : Z) (started : list Z)                            (* next block begins *)
  | Calls (cs : list call).   (* callbacks committed by one service tx / by the service end blocker *)

  (** outcome, next state (unchanged unless [Ok]), fulfilments *)
  Definition exec_step (s : state) (st : step) : outcome * state * list event :=
    match st with
    | Req c n orc capok txh svc =>
        if msg_ok c capok then
          match request_random s c n orc txh svc with
          | Some s' => (Ok, s', [])
          | None => (Rej, s, [])
          end
        else (Rej, s, [])
    | Begin t a started =>
        match begin_block s t a started with
        | Some (s', evs) => (Ok, s', evs)
        | None => (Abort, s, [])
        end
    | Calls cs =>
        match exec_calls s cs with
        | Some (s', evs) => (Ok, s', evs)
        | None => (Abort, s, [])
        end
    end.

  Definition step_state (s : state) (st : step) : state := snd (fst (exec_step s st)).
  Definition step_events (s : state) (st : step) : list event := snd (exec_step s st).
  Definition step_outcome (s : state) (st : step) : outcome := fst (fst (exec_step s st)).

  Fixpoint run (s : state) (steps : list step) : state :=
    match steps with
    | [] => s
    | st :: rest => run (step_state s st) rest
    end.

  (** all fulfilments along a history, in order *)
  Fixpoint events (s : state) (steps : list step) : list event :=
    match steps with
    | [] => []
    | st :: rest => step_events s st ++ events (step_state s st) rest
    end.
End WithHash.

(** ** rendering: [big.Rat(x, 10^20).FloatString(20)] = "0." followed by 20 digits *)
Fixpoint digits (k : nat) (x : Z) : list Z :=
  match k with
  | O => []
  | S k' => digits k' (x / 10) ++ [48 + x mod 10]
  end.

Definition render (x : Z) : list Z := [48; 46] ++ digits rand_prec x.

(** ** queries *)
Definition query_random (s : state) (id : rid) : option result := get id (results s).
Definition pending (s : state) (id : rid) : list Z :=
  map (fun e => fst (fst e)) (filter (fun e => eqb (snd (fst e)) id) (queue s)).

(** the finite hash table used for execution: a miss yields -1 (never a digest) *)
Definition table_sha (tbl : list (hin * Z)) (i : hin) : Z :=
  match get i tbl with Some d => d | None => -1 end.
