(** * Random: the model passes the life-cycle check (clause 9), hypothesis tracking included

    For EVERY history - no hypothesis: the tracker of [Check.track_step] examines the hypotheses
    of [request_life_cycle] itself and stops following a request when one fails - the tracker,
    fed the model's own observations after every step, never reports clause 9.  So an alarm of
    clause 9 always means that the implementation showed something the model does not. *)
From Irismod Require Import Random.Model Random.Spec Random.Check Random.Proofs Random.Sound.
Set Default Proof Using "Type".

Lemma memb_In {A} `{EqDec A} (x : A) l : memb x l = true <-> In x l.
Proof.
  unfold memb. rewrite existsb_exists. split.
  - intros (y & Hy & He). apply (proj1 (eqb_true_iff _ _)) in He. subst. exact Hy.
  - intros Hin. exists x. split; [exact Hin|apply eqb_refl].
Qed.

Lemma memb_false {A} `{EqDec A} (x : A) l : memb x l = false -> ~ In x l.
Proof. intros Hm Hin. apply memb_In in Hin. congruence. Qed.

Section Pass.
  Variable sha : hin -> Z.

  Definition ids_of (ts : tstate) : list rid := map (fun it => req_id (t_r0 it)) (ts_items ts).
  Definition ctxs_of (ts : tstate) : list Z := map (fun it => q_ctx (t_r0 it)) (ts_items ts).
  Definition accepted_of (o : outcome) : bool := match o with Ok => true | _ => false end.

  (** what the tracker knows about one followed request after the history [hist] *)
  Definition item_ok (hist : list step) (it : titem) : Prop :=
    exists pre c n orc capok txh svc post,
      hist = pre ++ Req c n orc capok txh svc :: post
      /\ req_ok c capok orc svc = true /\ interval_ok (height (run sha init pre)) n = true
      /\ t_r0 it = new_req (run sha init pre) c txh orc svc
      /\ t_d it = height (run sha init pre) + n
      /\ t_ph it = spec_run sha (t_r0 it) (t_d it) (enq (run sha init pre) n (t_r0 it)) Pending post
      /\ (t_live it = true ->
          sane (Z.eqb c) [] hist /\ 0 <= n /\ (orc = true -> ctx_unused (t_r0 it) (pre ++ post))).

  Record TInv (hist : list step) (ts : tstate) : Prop := mkTInv {
    ti_used : ts_used ts = used_after [] hist;
    ti_sane : ts_ok ts = true -> forall c, ~ In c (ts_bad ts) -> sane (Z.eqb c) [] hist;
    ti_ctx : forall r0, ~ In (q_ctx r0) (ts_ctxs ts) -> ctx_unused r0 hist;
    ti_items : forall it, In it (ts_items ts) -> item_ok hist it
  }.

  Lemma TInv_init : TInv [] tinit.
  Proof. constructor; simpl; auto. intros it []. Qed.

  Lemma sane_snoc P hist st :
    sane P [] (hist ++ [st]) <-> sane P [] hist /\ sane P (used_after [] hist) [st].
  Proof. apply sane_app. Qed.

  Lemma ctx_unused_snoc r0 hist st :
    ctx_unused r0 (hist ++ [st]) <-> ctx_unused r0 hist /\ ctx_unused r0 [st].
  Proof. apply ctx_unused_app. Qed.

  Lemma run_snoc hist st : run sha init (hist ++ [st]) = step_state sha (run sha init hist) st.
  Proof. rewrite run_app. reflexivity. Qed.

  Lemma spec_run_snoc r0 d s1 post st :
    spec_run sha r0 d s1 Pending (post ++ [st]) =
    spec_step sha r0 d (run sha s1 post) (spec_run sha r0 d s1 Pending post) st.
  Proof. rewrite spec_run_app. reflexivity. Qed.

  (** an item stays described after one more step, whatever happens to its [live] flag, provided
      the flag is only kept where the hypotheses survive the step *)
  Lemma item_ok_step hist st it live' :
    item_ok hist it ->
    (live' = true -> t_live it = true
       /\ (forall c, q_consumer (t_r0 it) = c -> sane (Z.eqb c) (used_after [] hist) [st])
       /\ (q_oracle (t_r0 it) = true -> ctx_unused (t_r0 it) [st])) ->
    item_ok (hist ++ [st])
            (mkT (t_r0 it) (t_d it) (spec_step sha (t_r0 it) (t_d it) (run sha init hist) (t_ph it) st) live').
  Proof.
    intros (pre & c & n & orc & capok & txh & svc & post & Hh & Hok & Hiv & Hr0 & Hd & Hph & Hl) Hl'.
    exists pre, c, n, orc, capok, txh, svc, (post ++ [st]). cbn [t_r0 t_d t_ph t_live].
    assert (Hrun : run sha init hist = run sha (enq (run sha init pre) n (t_r0 it)) post).
    { rewrite Hh, run_app. simpl. unfold step_state. rewrite exec_req, Hok, Hiv. simpl. rewrite <- Hr0. reflexivity. }
    split; [rewrite Hh, <- app_assoc; reflexivity|]. split; [exact Hok|]. split; [exact Hiv|].
    split; [exact Hr0|]. split; [exact Hd|]. split.
    - rewrite spec_run_snoc, <- Hrun, <- Hph. reflexivity.
    - intros Hlive. destruct (Hl' Hlive) as (Hold & Hs & Hc). destruct (Hl Hold) as (Hsane & Hn & Hcu).
      split; [|split; [exact Hn|]].
      + apply sane_snoc. split; [exact Hsane|]. apply Hs. rewrite Hr0. reflexivity.
      + intros Ho. rewrite app_assoc. apply ctx_unused_snoc. split; [apply Hcu; exact Ho|].
        apply Hc. rewrite Hr0. exact Ho.
  Qed.

  Lemma sane_step_simple P used st :
    match st with
    | Req c n orc capok txh svc => req_ok c capok orc svc = true -> P c = true -> ~ In c used
    | Begin t _ _ => t <> 0
    | Calls _ => True
    end -> sane P used [st].
  Proof.
    destruct st as [c n orc capok txh svc|t a started|cs]; simpl; auto.
    destruct (req_ok c capok orc svc) eqn:Hok; auto.
  Qed.

  (** a request that is still followed after the step: the hypotheses survived it *)
  Lemma keep_sound hist ts st it : ts_used ts = used_after [] hist -> keep ts st it = true ->
    t_live it = true
    /\ (forall c, q_consumer (t_r0 it) = c -> sane (Z.eqb c) (used_after [] hist) [st])
    /\ (q_oracle (t_r0 it) = true -> ctx_unused (t_r0 it) [st]).
  Proof.
    intros Hu Hk. unfold keep in Hk. apply andb_prop in Hk. destruct Hk as [Hl Hk].
    split; [exact Hl|]. destruct st as [c n orc capok txh svc|t a started|cs].
    - apply andb_prop in Hk. destruct Hk as [Hc Hd]. apply negb_true_iff in Hc. apply negb_true_iff in Hd. split.
      + intros c0 Hc0. apply sane_step_simple. intros Hok Heq Hin.
        apply Z.eqb_eq in Heq. rewrite <- Hc0 in Heq.
        rewrite Hok, Heq, Z.eqb_refl in Hd. simpl in Hd. rewrite andb_true_r in Hd.
        apply memb_false in Hd. apply Hd. rewrite Hu. exact Hin.
      + intros Ho. simpl. split; [|exact I]. intros Horc Hs. subst orc. rewrite Hs in Hc.
        unfold has_ctx in Hc. rewrite Ho, Z.eqb_refl in Hc. discriminate.
    - apply negb_true_iff in Hk. split.
      + intros c0 _. apply sane_step_simple. apply Z.eqb_neq. exact Hk.
      + intros _. exact I.
    - split; [intros c0 _; exact I|intros _; exact I].
  Qed.

  (** one step of the tracker on the model's own trace *)
  Lemma TInv_step hist ts st :
    TInv hist ts ->
    TInv (hist ++ [st])
         (track_next sha (run sha init hist) ts st (accepted_of (step_outcome sha (run sha init hist) st))).
  Proof.
    intros [Hu Hsn Hcx Hit]. set (s := run sha init hist).
    assert (Hold : forall it, In it (map (follow sha s ts st) (ts_items ts)) -> item_ok (hist ++ [st]) it).
    { intros it Hin. apply in_map_iff in Hin. destruct Hin as (it0 & <- & Hin0).
      unfold follow. apply item_ok_step; [apply Hit; exact Hin0|].
      intros Hk. apply (keep_sound hist ts st it0 Hu Hk). }
    destruct st as [c n orc capok txh svc|t a started|cs]; cbn [track_next].
    - (* a request *)
      set (cx := if orc then svc else None).
      set (ctxs := match cx with Some x => x :: ts_ctxs ts | None => ts_ctxs ts end).
      assert (Hcx' : forall r0, ~ In (q_ctx r0) ctxs -> ctx_unused r0 (hist ++ [Req c n orc capok txh svc])).
      { intros r0 Hni. apply ctx_unused_snoc. split.
        - apply Hcx. intros Hin. apply Hni. unfold ctxs. destruct cx; [right|]; exact Hin.
        - simpl. split; [|exact I]. intros Ho Hs. apply Hni. unfold ctxs, cx. rewrite Ho, Hs. left. reflexivity. }
      destruct (req_ok c capok orc svc) eqn:Hok.
      + set (bad := if memb c (ts_used ts) then c :: ts_bad ts else ts_bad ts).
        assert (Hsn' : ts_ok ts = true -> forall c0, ~ In c0 bad ->
                       sane (Z.eqb c0) [] (hist ++ [Req c n orc capok txh svc])).
        { intros Hokk c0 Hni. apply sane_snoc. split.
          - apply Hsn; [exact Hokk|]. intros Hin. apply Hni. unfold bad. destruct (memb c (ts_used ts)); [right|]; exact Hin.
          - apply sane_step_simple. intros _ Heq Hin. apply Z.eqb_eq in Heq. subst c0.
            apply Hni. unfold bad. rewrite <- Hu in Hin. apply memb_In in Hin. rewrite Hin. left. reflexivity. }
        constructor; cbn [ts_used ts_ok ts_bad ts_ctxs ts_items].
        * rewrite used_after_app, <- Hu. simpl. rewrite Hok. reflexivity.
        * exact Hsn'.
        * exact Hcx'.
        * intros it Hin.
          destruct (accepted_of (step_outcome sha s (Req c n orc capok txh svc))) eqn:Hacc; [|apply Hold; exact Hin].
          apply in_app_iff in Hin. destruct Hin as [Hin|[<-|[]]]; [apply Hold; exact Hin|].
          (* the new request *)
          assert (Hiv : interval_ok (height s) n = true).
          { unfold step_outcome in Hacc. rewrite exec_req, Hok in Hacc.
            destruct (interval_ok (height s) n); [reflexivity|discriminate]. }
          exists hist, c, n, orc, capok, txh, svc, []. cbn [t_r0 t_d t_ph t_live].
          fold s. repeat (split; [reflexivity || assumption|]).
          intros Hl. apply andb_prop in Hl. destruct Hl as [Hl Hn]. apply andb_prop in Hl. destruct Hl as [Hl Hseen].
          apply andb_prop in Hl. destruct Hl as [Hokk Hbad].
          apply negb_true_iff in Hbad. apply negb_true_iff in Hseen. apply Z.leb_le in Hn.
          split; [apply Hsn'; [exact Hokk|apply memb_false; exact Hbad]|]. split; [exact Hn|].
          intros Ho. rewrite app_nil_r. apply Hcx. unfold new_req. simpl. rewrite Ho.
          unfold cx in Hseen. rewrite Ho in Hseen.
          unfold req_ok in Hok. rewrite Ho in Hok. simpl in Hok.
          destruct svc as [x|]; [|rewrite andb_false_r in Hok; discriminate].
          apply memb_false. exact Hseen.
      + constructor; cbn [ts_used ts_ok ts_bad ts_ctxs ts_items].
        * rewrite used_after_app, <- Hu. simpl. rewrite Hok. reflexivity.
        * intros Hokk c0 Hni. apply sane_snoc. split; [apply Hsn; assumption|].
          simpl. rewrite Hok. exact I.
        * exact Hcx'.
        * exact Hold.
    - (* a block boundary *)
      constructor; cbn [ts_used ts_ok ts_bad ts_ctxs ts_items].
      + rewrite used_after_app. reflexivity.
      + intros Hokk c0 Hni. apply andb_prop in Hokk. destruct Hokk as [Hokk Ht]. apply negb_true_iff in Ht.
        apply sane_snoc. split; [apply Hsn; assumption|]. apply sane_step_simple. apply Z.eqb_neq. exact Ht.
      + intros r0 Hni. apply ctx_unused_snoc. split; [apply Hcx; exact Hni|exact I].
      + exact Hold.
    - (* callbacks *)
      constructor; cbn [ts_used ts_ok ts_bad ts_ctxs ts_items].
      + rewrite used_after_app. simpl. exact Hu.
      + intros Hokk c0 Hni. apply sane_snoc. split; [apply Hsn; assumption|exact I].
      + intros r0 Hni. apply ctx_unused_snoc. split; [apply Hcx; exact Hni|exact I].
      + exact Hold.
  Qed.

  (** every followed request's views are what its phase shows: clause 9 stays silent *)
  Lemma TInv_views hist ts code facts :
    TInv hist ts ->
    views_code ts (obs_of (run sha init hist) code (ids_of ts) (ctxs_of ts) facts) = 0.
  Proof.
    intros [_ _ _ Hit]. unfold views_code.
    match goal with |- (if ?b then _ else _) = _ => assert (Hb : b = true); [|rewrite Hb; reflexivity] end.
    apply forallb_forall. intros it Hin.
    destruct (t_live it) eqn:Hl; [|reflexivity]. simpl.
    destruct (Hit it Hin) as (pre & c & n & orc & capok & txh & svc & post & Hh & Hok & Hiv & Hr0 & Hd & Hph & Hlive).
    destruct (Hlive Hl) as (Hsane & Hn & Hcu).
    assert (Hd63 : height (run sha init pre) + n < two63).
    { unfold interval_ok in Hiv. apply andb_prop in Hiv. destruct Hiv as [_ H2]. apply Z.ltb_lt in H2. exact H2. }
    rewrite Hph, Hd, Hr0, Hh. rewrite Hh in Hsane.
    apply (model_views_ok_lemma sha (Z.eqb c) pre post c n orc capok txh svc code (ids_of ts) (ctxs_of ts) facts
             Hsane (Z.eqb_refl c) Hok Hn Hd63).
    - intros Ho. rewrite <- Hr0. apply Hcu. exact Ho.
    - rewrite <- Hr0. unfold ids_of. apply in_map_iff. exists it. auto.
    - rewrite <- Hr0. unfold ctxs_of. apply in_map_iff. exists it. auto.
  Qed.

  (** the tracker along the model's own trace, as [check_from] drives it: until a step aborts *)
  Fixpoint model_life_check (s : state) (ts : tstate) (steps : list step) : bool :=
    match steps with
    | [] => true
    | st :: rest =>
        match step_outcome sha s st with
        | Abort => true
        | out =>
            let s' := step_state sha s st in
            let ts' := track_next sha s ts st (accepted_of out) in
            let o := obs_of s' (outcome_code out) (ids_of ts') (ctxs_of ts') [] in
            (snd (track_step sha s ts st true (accepted_of out) o) =? 0) && model_life_check s' ts' rest
        end
    end.

  Lemma model_life_check_from rest : forall hist ts, TInv hist ts ->
    model_life_check (run sha init hist) ts rest = true.
  Proof.
    induction rest as [|st rest IH]; intros hist ts Hinv; [reflexivity|].
    cbn [model_life_check].
    pose proof (TInv_step hist ts st Hinv) as Hinv'.
    destruct (step_outcome sha (run sha init hist) st) eqn:Hout; [| |reflexivity].
    - apply andb_true_intro. split.
      + unfold track_step. simpl negb. cbn [snd]. rewrite <- run_snoc.
        rewrite (TInv_views _ _ _ _ Hinv'). reflexivity.
      + rewrite <- run_snoc. apply IH. exact Hinv'.
    - apply andb_true_intro. split.
      + unfold track_step. simpl negb. cbn [snd]. rewrite <- run_snoc.
        rewrite (TInv_views _ _ _ _ Hinv'). reflexivity.
      + rewrite <- run_snoc. apply IH. exact Hinv'.
  Qed.

  Lemma model_passes_life_cycle_check_lemma steps : model_life_check init tinit steps = true.
  Proof. apply (model_life_check_from steps [] tinit TInv_init). Qed.
End Pass.
