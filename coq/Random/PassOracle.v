(** * Random: the model passes the whole check on histories WITH oracle-seeded requests

    ... provided the service environment is well-formed in the sense the real service module
    guarantees ([wf_env], a syntactic condition on the history): every service context is named
    by at most one oracle request, and no seed response is called back for a context that
    already received a response with a malformed body (a context gets at most one response).
    Then [check_from] - clauses 1-9, the oracle clauses 7 and 8 included - fed the model's own
    observations and the service facts that correspond to the callbacks, reports nothing. *)
From Irismod Require Import Random.Model Random.Spec Random.Check Random.Proofs Random.Sound Random.Pass Random.PassAll.
Set Default Proof Using "Type".

Section PassOracle.
  Variable sha : hin -> Z.

  (** the service facts (the driver's outside view) that correspond to the callbacks of a step *)
  Definition fact_of (cl : call) : list svcfact :=
    match cl with
    | CallResp x (CbSeed sd) => [SvcSeed x sd]
    | CallResp x CbBadBody => [SvcNoSeed x]
    | CallResp x _ => [SvcExpired x]
    | CallState x true => [SvcPaused x]
    | CallState x false => []
    end.

  Definition facts_of (st : step) : list svcfact :=
    match st with Calls cs => flat_map fact_of cs | _ => [] end.

  Definition mobsf (s : state) (code : Z) (ts : tstate) (facts : list svcfact) : obs :=
    obs_of s code (ids_of ts) (ctxs_of ts) facts.

  Fixpoint model_trace_o (s : state) (ts : tstate) (steps : list step) : list (step * obs) :=
    match steps with
    | [] => []
    | st :: rest =>
        let out := step_outcome sha s st in
        let s' := step_state sha s st in
        let ts' := track_next sha s ts st (accepted_of out) in
        (st, mobsf s' (outcome_code out) ts' (facts_of st)) :: model_trace_o s' ts' rest
    end.

  (** *** the well-formed service environment *)
  Fixpoint nos_calls (nos : list Z) (cs : list call) : list Z :=
    match cs with
    | [] => nos
    | CallResp x CbBadBody :: cs' => nos_calls (x :: nos) cs'
    | _ :: cs' => nos_calls nos cs'
    end.

  Fixpoint wf_calls (nos : list Z) (cs : list call) : Prop :=
    match cs with
    | [] => True
    | CallResp x (CbSeed _) :: cs' => ~ In x nos /\ wf_calls nos cs'
    | CallResp x CbBadBody :: cs' => wf_calls (x :: nos) cs'
    | _ :: cs' => wf_calls nos cs'
    end.

  Definition named_of (st : step) : option Z :=
    match st with Req _ _ orc _ _ svc => if orc then svc else None | _ => None end.

  (** [named]: the contexts named by oracle requests so far; [nos]: the contexts that received a
      malformed response so far *)
  Fixpoint wf_env (named nos : list Z) (steps : list step) : Prop :=
    match steps with
    | [] => True
    | st :: rest =>
        match st with
        | Req c n orc capok txh svc => 0 <= n /\ (orc = false -> svc = None)
        | Begin _ _ _ => True
        | Calls cs => wf_calls nos cs
        end
        /\ match named_of st with Some x => ~ In x named | None => True end
        /\ wf_env (match named_of st with Some x => x :: named | None => named end)
                  (match st with Calls cs => nos_calls nos cs | _ => nos end) rest
    end.

  Fixpoint named_after (named : list Z) (steps : list step) : list Z :=
    match steps with
    | [] => named
    | st :: rest => named_after (match named_of st with Some x => x :: named | None => named end) rest
    end.

  Fixpoint nos_after (nos : list Z) (steps : list step) : list Z :=
    match steps with
    | [] => nos
    | st :: rest => nos_after (match st with Calls cs => nos_calls nos cs | _ => nos end) rest
    end.

  Lemma wf_env_app a : forall named nos b,
    wf_env named nos (a ++ b) <-> wf_env named nos a /\ wf_env (named_after named a) (nos_after nos a) b.
  Proof.
    induction a as [|st a IH]; intros named nos b; simpl; [tauto|]. rewrite IH. tauto.
  Qed.

  Lemma named_after_app a : forall named b, named_after named (a ++ b) = named_after (named_after named a) b.
  Proof. induction a as [|st a IH]; intros; simpl; [reflexivity|apply IH]. Qed.

  Lemma nos_after_app a : forall nos b, nos_after nos (a ++ b) = nos_after (nos_after nos a) b.
  Proof. induction a as [|st a IH]; intros; simpl; [reflexivity|apply IH]. Qed.

  (** *** a followed request seen through the queries, oracle view included *)
  Record seenO (s : state) (ts : tstate) (it : titem) : Prop := mkSeenO {
    so_pend : pending s (req_id (t_r0 it)) = view_pending (t_d it) (t_ph it);
    so_res : query_random s (req_id (t_r0 it)) = view_result (t_ph it);
    so_due : t_d it < two63;
    so_val : forall ev, t_ph it = Fulfilled ev ->
               e_rid ev = req_id (t_r0 it)
               /\ e_val ev = rand_val sha (e_time ev) (e_app ev) (snd (req_id (t_r0 it))) (e_seed ev);
    so_orc : q_oracle (t_r0 it) = true ->
             get (q_ctx (t_r0 it)) (oracle s) = view_oracle (t_r0 it) (t_ph it);
    so_plain : q_oracle (t_r0 it) = false -> t_ph it = Pending \/ exists ev, t_ph it = Fulfilled ev
  }.

  Definition inorc_of (o : obs) (ctx : Z) : bool :=
    match get ctx (o_oracle o) with Some (Some _) => true | _ => false end.

  Lemma inorc_mobsf s code ts facts it : In it (ts_items ts) ->
    inorc_of (mobsf s code ts facts) (q_ctx (t_r0 it))
    = match get (q_ctx (t_r0 it)) (oracle s) with Some _ => true | None => false end.
  Proof.
    intros Hin. unfold inorc_of, mobsf, obs_of. cbn [o_oracle].
    rewrite (get_map_key (fun x => get x (oracle s)) (ctxs_of ts) (q_ctx (t_r0 it))).
    - destruct (get (q_ctx (t_r0 it)) (oracle s)); reflexivity.
    - unfold ctxs_of. apply in_map_iff. exists it. auto.
  Qed.

  Lemma read_mobsf s code ts facts it : In it (ts_items ts) ->
    read_of (mobsf s code ts facts) (req_id (t_r0 it))
    = Some (option_map show_result (query_random s (req_id (t_r0 it)))).
  Proof. intros Hin. exact (read_mobs s code ts it Hin). Qed.

  (** *** the bookkeeping of clauses 1-8 related to the tracker *)
  Definition srel (nos : list Z) (r0 : request) (ph : phase) (st : pstatus) : Prop :=
    match ph, st with
    | Pending, PPending => True
    | Started, PStarted => True
    | Started, PNoSeed => In (q_ctx r0) nos
    | Dropped, PDropped => True
    | Dropped, PNoSeed => True
    | Fulfilled ev, PDone t a sd r =>
        t = e_time ev /\ a = e_app ev /\ sd = e_seed ev /\ r = show_result (result_of ev)
    | _, _ => False
    end.

  Definition irel (nos : list Z) (it : titem) (pi : pitem) : Prop :=
    i_rid pi = req_id (t_r0 it) /\ i_due pi = t_d it /\ i_orc pi = q_oracle (t_r0 it)
    /\ i_ctx pi = q_ctx (t_r0 it) /\ srel nos (t_r0 it) (t_ph it) (i_st pi).

  Lemma claimed_rel p nos it pi : p_dups p = [] -> irel nos it pi -> t_d it < two63 -> claimed p pi = true.
  Proof.
    intros Hd (_ & Hdue & _) Hlt. unfold claimed. rewrite Hd, Hdue. simpl. apply Z.ltb_lt. exact Hlt.
  Qed.

  Lemma inq_false s d id : pending s id = [] -> inq (queue s) d id = false.
  Proof.
    intros Hp. destruct (inq (queue s) d id) eqn:Hq; [|reflexivity].
    apply inq_pending in Hq. rewrite Hp in Hq. destruct Hq.
  Qed.

  Lemma item_code_ok_o p s code ts facts nos it pi :
    p_dups p = [] -> In it (ts_items ts) -> seenO s ts it -> irel nos it pi ->
    item_code p (mobsf s code ts facts) pi = 0.
  Proof.
    intros Hd Hin [Hpe Hre Hdue Hval Horc Hplain] Hrel.
    pose proof (claimed_rel p nos it pi Hd Hrel Hdue) as Hcl.
    destruct Hrel as (Hrid & Hdu & Hor & Hcx & Hs).
    unfold item_code. rewrite Hcl. cbn [negb].
    rewrite Hrid, Hdu, Hcx, Hor.
    rewrite (read_mobsf s code ts facts it Hin), Hre.
    change (existsb (fun '(d, id, _) => (d =? t_d it) && eqb id (req_id (t_r0 it))) (o_queue (mobsf s code ts facts)))
      with (inq (queue s) (t_d it) (req_id (t_r0 it))).
    fold (inorc_of (mobsf s code ts facts) (q_ctx (t_r0 it))).
    rewrite (inorc_mobsf s code ts facts it Hin).
    destruct (t_ph it) as [| |ev|] eqn:Hp; destruct (i_st pi) as [| |t a sd r| |]; simpl in Hs; try contradiction;
      cbn [view_pending view_result view_oracle option_map] in *.
    - replace (inq (queue s) (t_d it) (req_id (t_r0 it))) with true; [reflexivity|].
      symmetry. apply inq_pending. rewrite Hpe. left. reflexivity.
    - rewrite (inq_false _ _ _ Hpe).
      destruct (q_oracle (t_r0 it)) eqn:Ho.
      + rewrite (Horc eq_refl). reflexivity.
      + exfalso. destruct (Hplain eq_refl) as [H|[ev H]]; discriminate.
    - rewrite (inq_false _ _ _ Hpe). reflexivity.
    - rewrite (inq_false _ _ _ Hpe). destruct Hs as (-> & -> & -> & ->).
      destruct (q_oracle (t_r0 it)) eqn:Ho.
      + rewrite (Horc eq_refl). cbn [andb]. rewrite eqb_refl. reflexivity.
      + cbn [andb]. rewrite eqb_refl. reflexivity.
    - rewrite (inq_false _ _ _ Hpe). reflexivity.
    - rewrite (inq_false _ _ _ Hpe).
      destruct (q_oracle (t_r0 it)) eqn:Ho.
      + rewrite (Horc eq_refl). reflexivity.
      + reflexivity.
  Qed.

  Lemma Forall2_in_r {A B} (R : A -> B -> Prop) l1 l2 y :
    Forall2 R l1 l2 -> In y l2 -> exists x, In x l1 /\ R x y.
  Proof.
    induction 1 as [|x y' l1 l2 Hr Hf IH]; intros Hin; [destruct Hin|].
    destruct Hin as [<-|Hin]; [exists x; split; [left; reflexivity|exact Hr]|].
    destruct (IH Hin) as (x' & Hx & Hr'). exists x'. split; [right; exact Hx|exact Hr'].
  Qed.

  Lemma queue_code_ok_o p s code ts facts nos :
    Forall2 (irel nos) (ts_items ts) (p_items p) -> (forall it, In it (ts_items ts) -> seenO s ts it) ->
    queue_code p (mobsf s code ts facts) = 0.
  Proof.
    intros Hrel Hseen. unfold queue_code.
    match goal with |- (if ?b then _ else _) = _ => assert (Hb : b = true); [|rewrite Hb; reflexivity] end.
    apply forallb_forall. intros [[d' id'] r] Hq. apply forallb_forall. intros pi Hpi.
    destruct (Forall2_in_r _ _ _ pi Hrel Hpi) as (it & Hin & (Hrid & Hdu & _ & _ & Hs)).
    destruct (Hseen it Hin) as [Hpe _ _ _ _ _].
    destruct (eqb (i_rid pi) id') eqn:He; [|reflexivity]. cbn [negb orb].
    apply (proj1 (eqb_true_iff _ _)) in He. subst id'.
    assert (Hd' : In d' (pending s (req_id (t_r0 it)))).
    { apply inq_pending. unfold inq. apply existsb_exists. exists ((d', i_rid pi), r).
      split; [exact Hq|]. rewrite Hrid, Z.eqb_refl, eqb_refl. reflexivity. }
    rewrite Hpe in Hd'. apply orb_true_iff. right.
    destruct (t_ph it); simpl in Hd'; try (destruct Hd'; fail).
    destruct Hd' as [<-|[]]. destruct (i_st pi); simpl in Hs; try contradiction. rewrite Hdu. apply Z.eqb_refl.
  Qed.

  Lemma dep_code_ok_o p s ts nos :
    Forall2 (irel nos) (ts_items ts) (p_items p) -> (forall it, In it (ts_items ts) -> seenO s ts it) ->
    dep_code p = 0.
  Proof.
    intros Hrel Hseen. unfold dep_code.
    match goal with |- (if ?b then _ else _) = _ => assert (Hb : b = true); [|rewrite Hb; reflexivity] end.
    apply (dep_ok_good sha). intros k Hk. apply in_flat_map in Hk. destruct Hk as (pi & Hpi & Hk).
    destruct (Forall2_in_r _ _ _ pi Hrel Hpi) as (it & Hin & (Hrid & _ & _ & _ & Hs)).
    destruct (Hseen it Hin) as [_ _ _ Hval _ _].
    destruct (claimed p pi); [|destruct Hk].
    unfold dep_key in Hk. destruct (i_st pi) as [| |t a sd r| |]; try (destruct Hk; fail).
    destruct (t_ph it) as [| |ev|] eqn:Hp; simpl in Hs; try contradiction.
    destruct Hs as (-> & -> & -> & ->). unfold show_result, result_of in Hk. destruct Hk as [<-|[]].
    destruct (Hval ev eq_refl) as [_ Hv]. unfold good_key. rewrite Hrid, Hv. reflexivity.
  Qed.

  Lemma codes_zero_o p s code ts facts nos :
    p_dups p = [] -> Forall2 (irel nos) (ts_items ts) (p_items p) ->
    (forall it, In it (ts_items ts) -> seenO s ts it) ->
    let o := mobsf s code ts facts in
    first_code [0; first_code (map (item_code p o) (p_items p)); queue_code p o; dep_code p] = 0.
  Proof.
    intros Hd Hrel Hseen o. apply first_code_zero. intros c [<-|[<-|[<-|[<-|[]]]]].
    - reflexivity.
    - apply first_code_zero. intros c Hc. apply in_map_iff in Hc. destruct Hc as (pi & <- & Hpi).
      destruct (Forall2_in_r _ _ _ pi Hrel Hpi) as (it & Hin & Hr).
      apply (item_code_ok_o p s code ts facts nos it pi Hd Hin (Hseen it Hin) Hr).
    - apply (queue_code_ok_o p s code ts facts nos Hrel Hseen).
    - apply (dep_code_ok_o p s ts nos Hrel Hseen).
  Qed.

  (** *** the invariant *)
  Definition octxs (l : list titem) : list Z :=
    flat_map (fun it => if q_oracle (t_r0 it) then [q_ctx (t_r0 it)] else []) l.

  Lemma octxs_in l it : In it l -> q_oracle (t_r0 it) = true -> In (q_ctx (t_r0 it)) (octxs l).
  Proof. intros Hin Ho. unfold octxs. apply in_flat_map. exists it. split; [exact Hin|]. rewrite Ho. left. reflexivity. Qed.

  Lemma octxs_uniq l : NoDup (octxs l) -> forall it1 it2, In it1 l -> In it2 l ->
    q_oracle (t_r0 it1) = true -> q_oracle (t_r0 it2) = true -> q_ctx (t_r0 it1) = q_ctx (t_r0 it2) -> it1 = it2.
  Proof.
    induction l as [|it l IH]; intros Hnd it1 it2 H1 H2 Ho1 Ho2 Hc; [destruct H1|].
    unfold octxs in Hnd. simpl in Hnd. fold (octxs l) in Hnd.
    destruct H1 as [<-|H1]; destruct H2 as [<-|H2]; [reflexivity| | |].
    - rewrite Ho1 in Hnd. simpl in Hnd. inversion Hnd as [|? ? Hni _]. exfalso. apply Hni.
      rewrite Hc. apply octxs_in; assumption.
    - rewrite Ho2 in Hnd. simpl in Hnd. inversion Hnd as [|? ? Hni _]. exfalso. apply Hni.
      rewrite <- Hc. apply octxs_in; assumption.
    - apply IH; try assumption. destruct (q_oracle (t_r0 it)); simpl in Hnd; [inversion Hnd; assumption|exact Hnd].
  Qed.

  Record OInv (hist : list step) (ts : tstate) (p : pst) : Prop := mkOInv {
    o_t : TInv sha hist ts;
    o_live : forall it, In it (ts_items ts) -> t_live it = true;
    o_ok : ts_ok ts = true;
    o_bad : ts_bad ts = [];
    o_h : p_h p = height (run sha init hist);
    o_tm : p_t p = time (run sha init hist);
    o_a : p_a p = apph (run sha init hist);
    o_dups : p_dups p = [];
    o_rel : Forall2 (irel (nos_after [] hist)) (ts_items ts) (p_items p);
    o_named : ts_ctxs ts = named_after [] hist;
    o_octx : forall x, In x (octxs (ts_items ts)) -> In x (ts_ctxs ts);
    o_uniq : NoDup (octxs (ts_items ts));
    o_oi : forall x r, In (x, r) (oracle (run sha init hist)) ->
             x = q_ctx r /\ q_oracle r = true /\ exists it, In it (ts_items ts) /\ t_r0 it = r;
    o_qi : forall k r, In (k, r) (queue (run sha init hist)) -> exists it, In it (ts_items ts) /\ t_r0 it = r;
    o_plain : forall it, In it (ts_items ts) -> q_oracle (t_r0 it) = false ->
                t_ph it = Pending \/ exists ev, t_ph it = Fulfilled ev
  }.

  (** the oracle-store view of a followed request *)
  Lemma item_oracle_view hist ts it : TInv sha hist ts -> In it (ts_items ts) -> t_live it = true ->
    match t_ph it with
    | Started => get (q_ctx (t_r0 it)) (oracle (run sha init hist)) = Some (t_r0 it)
    | _ => forall x r, In (x, r) (oracle (run sha init hist)) -> req_id r <> req_id (t_r0 it)
    end.
  Proof.
    intros [_ _ _ Hit] Hin Hl.
    destruct (Hit it Hin) as (pre & c & n & orc & capok & txh & svc & post & Hh & Hok & Hiv & Hr0 & Hd & Hph & Hlive).
    destruct (Hlive Hl) as (Hsane & Hn & Hcu).
    assert (Hd63 : height (run sha init pre) + n < two63).
    { unfold interval_ok in Hiv. apply andb_prop in Hiv. destruct Hiv as [_ H2]. apply Z.ltb_lt in H2. exact H2. }
    rewrite Hh in Hsane.
    assert (Hcu' : orc = true -> ctx_unused (new_req (run sha init pre) c txh orc svc) (pre ++ post)).
    { intros Ho. rewrite <- Hr0. apply Hcu. exact Ho. }
    destruct (life_view_lemma sha (Z.eqb c) pre post c n orc capok txh svc Hsane (Z.eqb_refl c) Hok Hn Hd63 Hcu')
      as (_ & _ & H3 & _).
    rewrite <- Hr0, <- Hd, <- Hph, <- Hh in H3. exact H3.
  Qed.

  Lemma seenO_build hist ts it : TInv sha hist ts -> In it (ts_items ts) -> t_live it = true ->
    NoDup (octxs (ts_items ts)) ->
    (forall x r, In (x, r) (oracle (run sha init hist)) ->
       x = q_ctx r /\ q_oracle r = true /\ exists it, In it (ts_items ts) /\ t_r0 it = r) ->
    (q_oracle (t_r0 it) = false -> t_ph it = Pending \/ exists ev, t_ph it = Fulfilled ev) ->
    seenO (run sha init hist) ts it.
  Proof.
    intros T Hin Hl Hu Hoi Hpl.
    destruct (item_views sha hist ts it T Hin Hl) as (H1 & H2 & H3 & H4).
    pose proof (item_oracle_view hist ts it T Hin Hl) as H5.
    constructor; try assumption.
    intros Ho. destruct (t_ph it) eqn:Hp; cbn [view_oracle]; try exact H5;
      (destruct (get (q_ctx (t_r0 it)) (oracle (run sha init hist))) as [r|] eqn:Hg; [|reflexivity]; exfalso;
       apply get_In in Hg; destruct (Hoi _ _ Hg) as (Hx & Hor & it2 & Hin2 & Hr2);
       assert (Heq : it = it2) by
         (apply (octxs_uniq _ Hu it it2 Hin Hin2 Ho); [rewrite Hr2; exact Hor|rewrite Hr2; exact Hx]);
       subst it2; apply (H5 _ _ Hg); rewrite Hr2; reflexivity).
  Qed.

  Lemma OInv_seen hist ts p : OInv hist ts p -> forall it, In it (ts_items ts) -> seenO (run sha init hist) ts it.
  Proof.
    intros O it Hin.
    apply (seenO_build hist ts it (o_t _ _ _ O) Hin (o_live _ _ _ O it Hin) (o_uniq _ _ _ O) (o_oi _ _ _ O)).
    apply (o_plain _ _ _ O it Hin).
  Qed.

  Lemma NoDup_app_snoc_ctx (l : list Z) x : NoDup l -> ~ In x l -> NoDup (l ++ [x]).
  Proof.
    induction l as [|y l IH]; simpl; intros Hnd Hni; [constructor; [intros []|constructor]|].
    inversion Hnd as [|? ? Hy Hnd']; subst. constructor.
    - rewrite in_app_iff. intros [H|[H|[]]]; [contradiction|]. apply Hni. left. symmetry. exact H.
    - apply IH; [exact Hnd'|]. intros H. apply Hni. right. exact H.
  Qed.

  Lemma Forall2_map_l {A A' B} (f : A -> A') (R : A -> B -> Prop) (R' : A' -> B -> Prop) l1 l2 :
    (forall x y, In x l1 -> R x y -> R' (f x) y) -> Forall2 R l1 l2 -> Forall2 R' (map f l1) l2.
  Proof.
    intros Himp Hf. induction Hf as [|x y l1 l2 Hr Hf IH]; simpl; constructor.
    - apply Himp; [left; reflexivity|exact Hr].
    - apply IH. intros x' y' Hin. apply Himp. right. exact Hin.
  Qed.

  Lemma irel_mono nos nos' it pi : (forall x, In x nos -> In x nos') -> irel nos it pi -> irel nos' it pi.
  Proof.
    intros Hsub (H1 & H2 & H3 & H4 & H5). repeat (split; [assumption|]).
    destruct (t_ph it); destruct (i_st pi); simpl in *; auto.
  Qed.

  Lemma octxs_follow s ts st l : octxs (map (follow sha s ts st) l) = octxs l.
  Proof. unfold octxs. induction l as [|it l IH]; simpl; [reflexivity|]. rewrite IH. reflexivity. Qed.

  Lemma keep_true_o hist ts p st : OInv hist ts p -> sane allP (used_after [] hist) [st] ->
    match named_of st with Some x => ~ In x (ts_ctxs ts) | None => True end ->
    forall it, In it (ts_items ts) -> keep ts st it = true.
  Proof.
    intros O Hs Hn it Hin. unfold keep. rewrite (o_live _ _ _ O it Hin). simpl.
    destruct st as [c n orc capok txh svc|t a started|cs]; [| |reflexivity].
    - simpl in Hn. apply andb_true_intro. split.
      + destruct (if orc then svc else None) as [x|]; [|reflexivity]. apply negb_true_iff.
        unfold has_ctx. destruct (q_oracle (t_r0 it)) eqn:Ho; [|reflexivity]. simpl.
        apply Z.eqb_neq. intros Heq. apply Hn. apply (o_octx _ _ _ O). rewrite <- Heq. apply octxs_in; assumption.
      + simpl in Hs. destruct (req_ok c capok orc svc) eqn:Hok; [|reflexivity]. destruct Hs as [Hnew _].
        replace (memb c (ts_used ts)) with false; [reflexivity|].
        symmetry. destruct (memb c (ts_used ts)) eqn:Hm; [|reflexivity]. exfalso.
        apply memb_In in Hm. rewrite (ti_used _ _ _ (o_t _ _ _ O)) in Hm. apply Hnew; [reflexivity|exact Hm].
    - destruct Hs as [Htz _]. apply negb_true_iff. apply Z.eqb_neq. exact Htz.
  Qed.

  Lemma fresh_id_o hist ts p c : OInv hist ts p -> sane allP [] hist ->
    ~ In c (used_after [] hist) ->
    memb (height (run sha init hist), c) (map i_rid (p_items p)) = false.
  Proof.
    intros O Hs Hnu. destruct (memb (height (run sha init hist), c) (map i_rid (p_items p))) eqn:Hm; [|reflexivity].
    exfalso. apply memb_In in Hm. apply in_map_iff in Hm. destruct Hm as (pi & Hid & Hpi).
    destruct (Forall2_in_r _ _ _ pi (o_rel _ _ _ O) Hpi) as (it & Hin & (Hrid & _)).
    rewrite Hrid in Hid.
    destruct (ti_items _ _ _ (o_t _ _ _ O) it Hin)
      as (pre & c' & n & orc & capok & txh & svc & post & Hh & Hok & Hiv & Hr0 & _).
    rewrite Hr0 in Hid. unfold new_req, req_id in Hid. simpl in Hid. inversion Hid as [[Hhh Hc]]. subst c'.
    apply Hnu. rewrite Hh in Hs |- *. rewrite used_after_app. simpl. rewrite Hok.
    apply sane_app in Hs. destruct Hs as [Hs1 Hs2]. apply sane_cons in Hs2. destruct Hs2 as [Hs2 Hs3].
    unfold used_step in Hs3. simpl in Hs3. rewrite Hok in Hs3.
    pose proof (Base_run sha allP pre [] init Base_init Hs1) as Hb.
    pose proof (Base_step sha allP _ _ _ Hb Hs2) as Hb1. unfold used_step in Hb1. simpl in Hb1. rewrite Hok in Hb1.
    apply (used_keeps sha c post _ _ Hb1 Hs3); [|left; reflexivity].
    rewrite Hh, run_app in Hhh. simpl in Hhh. rewrite <- Hhh.
    unfold step_state. rewrite exec_req, Hok, Hiv. reflexivity.
  Qed.

  (** the tracker after a request, by components *)
  Definition new_item (s : state) (ts : tstate) (c n : Z) (orc capok : bool) (txh : Z) (svc : option Z) : titem :=
    let cx := if orc then svc else None in
    let seen := match cx with Some x => memb x (ts_ctxs ts) | None => false end in
    let bad := if memb c (ts_used ts) then c :: ts_bad ts else ts_bad ts in
    mkT (new_req s c txh orc svc) (height s + n) Pending
        (ts_ok ts && negb (memb c bad) && negb seen && (0 <=? n)).

  Lemma tn_req s ts c n orc capok txh svc acc :
    let ts' := track_next sha s ts (Req c n orc capok txh svc) acc in
    ts_items ts' = map (follow sha s ts (Req c n orc capok txh svc)) (ts_items ts)
                   ++ (if req_ok c capok orc svc && acc then [new_item s ts c n orc capok txh svc] else [])
    /\ ts_ok ts' = ts_ok ts
    /\ ts_bad ts' = (if req_ok c capok orc svc && memb c (ts_used ts) then c :: ts_bad ts else ts_bad ts)
    /\ ts_ctxs ts' = (match (if orc then svc else None) with Some x => x :: ts_ctxs ts | None => ts_ctxs ts end).
  Proof.
    unfold track_next, new_item. cbv zeta.
    destruct (req_ok c capok orc svc); [destruct acc|]; cbn [ts_items ts_ok ts_bad ts_ctxs andb];
      rewrite ?app_nil_r; auto.
  Qed.

  Lemma OInv_step_req hist ts p c n orc capok txh svc :
    let st := Req c n orc capok txh svc in
    OInv hist ts p -> sane allP [] (hist ++ [st]) -> wf_env (named_after [] hist) (nos_after [] hist) [st] ->
    let s := run sha init hist in
    let out := step_outcome sha s st in
    let ts' := track_next sha s ts st (accepted_of out) in
    let o := mobsf (run sha init (hist ++ [st])) (outcome_code out) ts' (facts_of st) in
    exists p', prop_step p st o = (p', 0, false) /\ OInv (hist ++ [st]) ts' p'.
  Proof.
    intros st O Hs Hw s out ts' o. subst st.
    pose proof (TInv_step sha hist ts (Req c n orc capok txh svc) (o_t _ _ _ O)) as T'. fold s out ts' in T'.
    apply sane_snoc in Hs. destruct Hs as [Hs_h Hs_st].
    destruct Hw as ((Hn & Hsvc) & Hnamed & _). rewrite <- (o_named _ _ _ O) in Hnamed.
    pose proof (keep_true_o hist ts p (Req c n orc capok txh svc) O Hs_st Hnamed) as Hkeep.
    simpl in Hnamed.
    destruct (tn_req s ts c n orc capok txh svc (accepted_of out)) as (Hitems & Hokk & Hbad & Hctxs). fold ts' in Hitems, Hokk, Hbad, Hctxs.
    assert (Hout : out = if req_ok c capok orc svc then (if interval_ok (height s) n then Ok else Rej) else Rej).
    { unfold out, step_outcome. rewrite exec_req. destruct (req_ok c capok orc svc); [destruct (interval_ok (height s) n)|]; reflexivity. }
    assert (Hs' : run sha init (hist ++ [Req c n orc capok txh svc]) =
                  if req_ok c capok orc svc && interval_ok (height s) n then enq s n (new_req s c txh orc svc) else s).
    { rewrite run_snoc. fold s. unfold step_state. rewrite exec_req.
      destruct (req_ok c capok orc svc); [destruct (interval_ok (height s) n)|]; reflexivity. }
    assert (Hmemb : req_ok c capok orc svc = true -> memb c (ts_used ts) = false).
    { intros Hok. simpl in Hs_st. rewrite Hok in Hs_st. destruct Hs_st as [Hnew _].
      destruct (memb c (ts_used ts)) eqn:Hm; [|reflexivity]. exfalso. apply memb_In in Hm.
      rewrite (ti_used _ _ _ (o_t _ _ _ O)) in Hm. apply Hnew; [reflexivity|exact Hm]. }
    assert (Hbad' : ts_bad ts' = []).
    { rewrite Hbad. destruct (req_ok c capok orc svc) eqn:Hok; [rewrite (Hmemb eq_refl)|]; exact (o_bad _ _ _ O). }
    assert (Hacc : accepted_of out = req_ok c capok orc svc && interval_ok (height s) n).
    { rewrite Hout. destruct (req_ok c capok orc svc); [destruct (interval_ok (height s) n)|]; reflexivity. }
    assert (Hnos : nos_after [] (hist ++ [Req c n orc capok txh svc]) = nos_after [] hist).
    { rewrite nos_after_app. reflexivity. }
    assert (Hfollow_rel : Forall2 (irel (nos_after [] hist))
              (map (follow sha s ts (Req c n orc capok txh svc)) (ts_items ts)) (p_items p)).
    { apply (Forall2_map_l _ (irel (nos_after [] hist))); [|exact (o_rel _ _ _ O)].
      intros it pi _ Hr. unfold irel, follow in *. cbn [t_r0 t_d t_ph]. rewrite spec_step_req. exact Hr. }
    set (a := req_ok c capok orc svc && interval_ok (height s) n) in *.
    assert (Hra : req_ok c capok orc svc && accepted_of out = a).
    { rewrite Hacc. unfold a. destruct (req_ok c capok orc svc); reflexivity. }
    set (newp := if a then on_req p c n orc svc else p).
    exists newp.
    assert (Hnew_live : a = true -> t_live (new_item s ts c n orc capok txh svc) = true).
    { intros Ha. unfold a in Ha. apply andb_prop in Ha. destruct Ha as [Hok _].
      unfold new_item. cbv zeta. cbn [t_live]. rewrite (o_ok _ _ _ O), (Hmemb Hok), (o_bad _ _ _ O). simpl.
      replace (0 <=? n) with true by (symmetry; apply Z.leb_le; exact Hn). rewrite andb_true_r.
      revert Hnamed. destruct (if orc then svc else None) as [x|]; intros Hnamed; [|reflexivity]. apply negb_true_iff.
      destruct (memb x (ts_ctxs ts)) eqn:Hm; [|reflexivity]. exfalso. apply memb_In in Hm. apply Hnamed. exact Hm. }
    assert (O' : OInv (hist ++ [Req c n orc capok txh svc]) ts' newp).
    { constructor.
      - exact T'.
      - intros it Hin. rewrite Hitems, Hra in Hin. apply in_app_iff in Hin. destruct Hin as [Hin|Hin].
        + apply in_map_iff in Hin. destruct Hin as (it0 & <- & Hin0). unfold follow. cbn [t_live]. apply Hkeep. exact Hin0.
        + destruct a eqn:Ha; [|destruct Hin]. destruct Hin as [<-|[]]. apply Hnew_live. reflexivity.
      - rewrite Hokk. exact (o_ok _ _ _ O).
      - exact Hbad'.
      - rewrite Hs'. fold a. unfold newp. destruct a; simpl; exact (o_h _ _ _ O).
      - rewrite Hs'. fold a. unfold newp. destruct a; simpl; exact (o_tm _ _ _ O).
      - rewrite Hs'. fold a. unfold newp. destruct a; simpl; exact (o_a _ _ _ O).
      - unfold newp. destruct a eqn:Ha; [|exact (o_dups _ _ _ O)].
        unfold a in Ha. apply andb_prop in Ha. destruct Ha as [Hok _].
        unfold on_req. cbn [p_dups]. rewrite (o_h _ _ _ O). fold s.
        unfold s. rewrite (fresh_id_o hist ts p c O Hs_h); [exact (o_dups _ _ _ O)|].
        simpl in Hs_st. rewrite Hok in Hs_st. destruct Hs_st as [Hnew _]. apply Hnew. reflexivity.
      - rewrite Hnos, Hitems, Hra. unfold newp. destruct a eqn:Ha.
        + unfold on_req. cbn [p_items]. apply Forall2_app; [exact Hfollow_rel|]. constructor; [|constructor].
          unfold irel, new_item. cbv zeta. cbn [i_rid i_due i_orc i_ctx i_st t_r0 t_d t_ph srel].
          rewrite (o_h _ _ _ O). fold s. unfold new_req, req_id. simpl.
          repeat (split; [reflexivity|]). split; [|exact I].
          destruct orc; [reflexivity|]. rewrite (Hsvc eq_refl). reflexivity.
        + rewrite app_nil_r. exact Hfollow_rel.
      - rewrite Hctxs, named_after_app, <- (o_named _ _ _ O). reflexivity.
      - intros x Hx. rewrite Hitems in Hx. unfold octxs in Hx. rewrite flat_map_app in Hx. apply in_app_iff in Hx.
        rewrite Hctxs. destruct Hx as [Hx|Hx].
        + fold (octxs (map (follow sha s ts (Req c n orc capok txh svc)) (ts_items ts))) in Hx.
          rewrite octxs_follow in Hx. apply (o_octx _ _ _ O) in Hx.
          destruct (if orc then svc else None); [right|]; exact Hx.
        + rewrite Hra in Hx. destruct a eqn:Ha; [|destruct Hx].
          unfold a in Ha. apply andb_prop in Ha. destruct Ha as [Hok _].
          simpl in Hx. rewrite app_nil_r in Hx. unfold new_item in Hx. cbv zeta in Hx. cbn [t_r0] in Hx.
          unfold new_req in Hx. simpl in Hx. destruct orc; [|destruct Hx]. destruct Hx as [<-|[]].
          unfold req_ok in Hok. simpl in Hok. destruct svc as [x|]; [left; reflexivity|rewrite andb_false_r in Hok; discriminate].
      - rewrite Hitems. unfold octxs. rewrite flat_map_app.
        fold (octxs (map (follow sha s ts (Req c n orc capok txh svc)) (ts_items ts))). rewrite octxs_follow.
        rewrite Hra. destruct a eqn:Ha; [|simpl; rewrite app_nil_r; exact (o_uniq _ _ _ O)].
        unfold a in Ha. apply andb_prop in Ha. destruct Ha as [Hok _].
        simpl. rewrite app_nil_r. unfold new_item. cbv zeta. cbn [t_r0]. unfold new_req. simpl.
        destruct orc; [|rewrite app_nil_r; exact (o_uniq _ _ _ O)].
        unfold req_ok in Hok. simpl in Hok. destruct svc as [x|]; [|rewrite andb_false_r in Hok; discriminate].
        apply NoDup_app_snoc_ctx; [exact (o_uniq _ _ _ O)|]. simpl in Hnamed.
        intros Hx. apply Hnamed. apply (o_octx _ _ _ O). exact Hx.
      - intros x r Hin. rewrite Hs' in Hin. fold a in Hin.
        assert (Hin' : In (x, r) (oracle s)) by (destruct a; exact Hin).
        destruct (o_oi _ _ _ O x r Hin') as (H1 & H2 & it & Hit & Hr). split; [exact H1|]. split; [exact H2|].
        exists (follow sha s ts (Req c n orc capok txh svc) it). split; [|exact Hr].
        rewrite Hitems. apply in_app_iff. left. apply in_map. exact Hit.
      - intros k r Hin. rewrite Hs' in Hin. fold a in Hin. rewrite Hitems, Hra.
        destruct a eqn:Ha.
        + simpl in Hin. apply in_set_inv in Hin. destruct Hin as [He|Hin].
          * inversion He; subst k r. exists (new_item s ts c n orc capok txh svc).
            split; [apply in_app_iff; right; left; reflexivity|reflexivity].
          * destruct (o_qi _ _ _ O k r Hin) as (it & Hit & Hr).
            exists (follow sha s ts (Req c n orc capok txh svc) it). split; [|exact Hr].
            apply in_app_iff. left. apply in_map. exact Hit.
        + destruct (o_qi _ _ _ O k r Hin) as (it & Hit & Hr).
          exists (follow sha s ts (Req c n orc capok txh svc) it). split; [|exact Hr].
          apply in_app_iff. left. apply in_map. exact Hit.
      - intros it Hin Hpl. rewrite Hitems, Hra in Hin. apply in_app_iff in Hin. destruct Hin as [Hin|Hin].
        + apply in_map_iff in Hin. destruct Hin as (it0 & <- & Hin0). unfold follow in *. cbn [t_ph t_r0] in *.
          rewrite spec_step_req. apply (o_plain _ _ _ O it0 Hin0 Hpl).
        + destruct a; [|destruct Hin]. destruct Hin as [<-|[]]. left. reflexivity. }
    split; [|exact O'].
    unfold prop_step.
    assert (Hcode : o_code o = if a then 0 else 1).
    { unfold o, mobsf, obs_of. cbn [o_code]. rewrite Hout. unfold a.
      destruct (req_ok c capok orc svc); [destruct (interval_ok (height s) n)|]; reflexivity. }
    rewrite Hcode. unfold newp.
    pose proof (codes_zero_o newp _ (outcome_code out) ts' (facts_of (Req c n orc capok txh svc)) _
                  (o_dups _ _ _ O') (o_rel _ _ _ O') (OInv_seen _ _ _ O')) as Hz.
    cbv zeta in Hz. fold o in Hz. revert Hz. unfold newp. clear O'.
    destruct a; intros Hz; cbv beta iota;
      try (simpl (0 =? 2)); try (simpl (1 =? 2)); cbn iota; try (simpl (0 =? 0)); try (simpl (1 =? 0)); cbn iota;
      rewrite Hz; reflexivity.
  Qed.

  Lemma memb_Z x l : memb x l = existsb (Z.eqb x) l.
  Proof.
    unfold memb. induction l as [|y l IH]; simpl; [reflexivity|]. rewrite IH. f_equal.
    unfold eqb. destruct (eq_dec x y) as [->|Hne]; [symmetry; apply Z.eqb_refl|symmetry; apply Z.eqb_neq; exact Hne].
  Qed.

  Lemma irel_set_status nos it it' pi st' :
    irel nos it pi -> t_r0 it' = t_r0 it -> t_d it' = t_d it -> srel nos (t_r0 it) (t_ph it') st' ->
    irel nos it' (set_status pi st').
  Proof.
    intros (H1 & H2 & H3 & H4 & _) Hr Hd Hs. unfold irel, set_status. cbn [i_rid i_due i_orc i_ctx i_st].
    rewrite Hr, Hd. auto.
  Qed.

  (** the block boundary, item by item *)
  Lemma begin_item_o hist ts p t a started ts' code facts nos it pi :
    OInv hist ts p -> In it (ts_items ts) -> irel nos it pi ->
    let s := run sha init hist in
    let it' := follow sha s ts (Begin t a started) it in
    In it' (ts_items ts') -> seenO (run sha init (hist ++ [Begin t a started])) ts' it' ->
    exists pi',
      begin_fn p (mobsf (run sha init (hist ++ [Begin t a started])) code ts' facts) t a started pi = (pi', 0)
      /\ irel nos it' pi'.
  Proof.
    intros O Hin Hrel s it' Hin' Hseen.
    pose proof Hrel as (Hrid & Hdu & Hor & Hcx & Hs).
    pose proof (read_mobsf (run sha init (hist ++ [Begin t a started])) code ts' facts it' Hin') as Hrd.
    rewrite (so_res _ _ _ Hseen) in Hrd.
    unfold begin_fn. rewrite (o_h _ _ _ O). fold s.
    destruct (t_ph it) as [| |ev|] eqn:Hp; destruct (i_st pi) as [| |t0 a0 sd r| |] eqn:Hst; simpl in Hs; try contradiction.
    - (* pending *)
      rewrite Hdu. destruct (Z.eqb_spec (t_d it) (height s)) as [Heq|Hne].
      + rewrite Hor. destruct (q_oracle (t_r0 it)) eqn:Ho.
        * eexists. split; [reflexivity|]. apply (irel_set_status nos it it' pi _ Hrel eq_refl eq_refl).
          unfold it', follow. cbn [t_ph]. rewrite Hp. cbn [spec_step]. rewrite <- Heq, Z.eqb_refl, Ho, Hcx, memb_Z.
          destruct (existsb (Z.eqb (q_ctx (t_r0 it))) started); exact I.
        * unfold fulfil. rewrite Hrid. change (req_id (t_r0 it)) with (req_id (t_r0 it')). rewrite Hrd.
          unfold it', follow. cbn [t_ph t_r0 t_d]. rewrite Hp. cbn [spec_step].
          rewrite <- Heq, Z.eqb_refl, Ho. cbn [view_result option_map show_result result_of e_txh e_block e_val].
          rewrite (wf_value_render _ (rand_val_range sha t a (q_consumer (t_r0 it)) None)).
          rewrite andb_false_r. eexists. split; [reflexivity|].
          unfold irel, set_status. cbn [i_rid i_due i_orc i_ctx i_st t_r0 t_d t_ph srel e_time e_app e_seed].
          destruct Hrel as (R1 & R2 & R3 & R4 & _). repeat split; assumption || reflexivity.
      + exists pi. split; [reflexivity|]. unfold irel, it', follow. cbn [t_r0 t_d t_ph]. rewrite Hp. cbn [spec_step].
        replace (height s =? t_d it) with false by (symmetry; apply Z.eqb_neq; congruence).
        rewrite Hst. repeat (split; [assumption|]). exact I.
    - exists pi. split; [reflexivity|]. unfold irel, it', follow. cbn [t_r0 t_d t_ph]. rewrite Hp, Hst.
      repeat (split; [assumption|]). exact I.
    - exists pi. split; [reflexivity|]. unfold irel, it', follow. cbn [t_r0 t_d t_ph]. rewrite Hp, Hst.
      repeat (split; [assumption|]). exact Hs.
    - exists pi. split; [reflexivity|]. unfold irel, it', follow. cbn [t_r0 t_d t_ph]. rewrite Hp, Hst.
      repeat (split; [assumption|]). exact Hs.
    - exists pi. split; [reflexivity|]. unfold irel, it', follow. cbn [t_r0 t_d t_ph]. rewrite Hp, Hst.
      repeat (split; [assumption|]). exact I.
    - exists pi. split; [reflexivity|]. unfold irel, it', follow. cbn [t_r0 t_d t_ph]. rewrite Hp, Hst.
      repeat (split; [assumption|]). exact I.
  Qed.

  Lemma Forall2_step {A A' B} (R : A -> B -> Prop) (R' : A' -> B -> Prop) (g : A -> A') (f : B -> B * Z) l1 l2 :
    Forall2 R l1 l2 ->
    (forall x y, In x l1 -> R x y -> exists y', f y = (y', 0) /\ R' (g x) y') ->
    Forall2 R' (map g l1) (map fst (map f l2)) /\ first_code (map snd (map f l2)) = 0.
  Proof.
    intros Hf Hstep. induction Hf as [|x y l1 l2 Hr Hf IH]; simpl; [split; [constructor|reflexivity]|].
    destruct (Hstep x y (or_introl eq_refl) Hr) as (y' & Hy & Hr').
    destruct IH as [IH1 IH2]; [intros x' y0 Hin; apply Hstep; right; exact Hin|].
    rewrite Hy. simpl. split; [constructor; assumption|exact IH2].
  Qed.

  Lemma spec_step_begin_plain_o r0 d s ph t a started : q_oracle r0 = false ->
    ph = Pending \/ (exists ev, ph = Fulfilled ev) ->
    let ph' := spec_step sha r0 d s ph (Begin t a started) in
    ph' = Pending \/ exists ev, ph' = Fulfilled ev.
  Proof. apply spec_step_begin_plain. Qed.

  Lemma OInv_step_begin hist ts p t a started :
    let st := Begin t a started in
    OInv hist ts p -> sane allP [] (hist ++ [st]) ->
    let s := run sha init hist in
    let out := step_outcome sha s st in
    let ts' := track_next sha s ts st (accepted_of out) in
    let o := mobsf (run sha init (hist ++ [st])) (outcome_code out) ts' (facts_of st) in
    exists p', prop_step p st o = (p', 0, false) /\ OInv (hist ++ [st]) ts' p'.
  Proof.
    intros st O Hs s out ts' o. subst st.
    pose proof (TInv_step sha hist ts (Begin t a started) (o_t _ _ _ O)) as T'. fold s out ts' in T'.
    apply sane_snoc in Hs. destruct Hs as [Hs_h Hs_st]. pose proof Hs_st as [Htz _].
    assert (Hout : out = Ok).
    { unfold out, step_outcome, exec_step. rewrite (begin_block_nz sha s t a started Htz). reflexivity. }
    assert (Hs'eq : run sha init (hist ++ [Begin t a started]) =
              mkState (height s + 1) t a (filter (not_due (height s)) (queue s))
                (fold_left (fset pR kR (vR sha t a (height s))) (filter (is_due (height s)) (queue s)) (results s))
                (fold_left (fset (pO started) kO vO) (filter (is_due (height s)) (queue s)) (oracle s))).
    { rewrite run_snoc. fold s. unfold step_state, exec_step. rewrite (begin_block_nz sha s t a started Htz). reflexivity. }
    assert (Hitems : ts_items ts' = map (follow sha s ts (Begin t a started)) (ts_items ts)) by reflexivity.
    pose proof (keep_true_o hist ts p (Begin t a started) O Hs_st I) as Hkeep.
    assert (Hlive' : forall it, In it (ts_items ts') -> t_live it = true).
    { intros it Hin. rewrite Hitems in Hin. apply in_map_iff in Hin. destruct Hin as (it0 & <- & Hin0).
      unfold follow. cbn [t_live]. apply Hkeep. exact Hin0. }
    assert (Huniq' : NoDup (octxs (ts_items ts'))) by (rewrite Hitems, octxs_follow; exact (o_uniq _ _ _ O)).
    assert (Hqi' : forall k r, In (k, r) (queue (run sha init (hist ++ [Begin t a started]))) ->
                   exists it, In it (ts_items ts') /\ t_r0 it = r).
    { intros k r Hin. rewrite Hs'eq in Hin. cbn [queue] in Hin. apply filter_In in Hin. destruct Hin as [Hin _].
      destruct (o_qi _ _ _ O k r Hin) as (it & Hit & Hr).
      exists (follow sha s ts (Begin t a started) it). split; [exact (in_map (follow sha s ts (Begin t a started)) _ _ Hit)|exact Hr]. }
    assert (Hoi' : forall x r, In (x, r) (oracle (run sha init (hist ++ [Begin t a started]))) ->
                   x = q_ctx r /\ q_oracle r = true /\ exists it, In it (ts_items ts') /\ t_r0 it = r).
    { intros x r Hin. rewrite Hs'eq in Hin. cbn [oracle] in Hin. apply fset_in in Hin.
      destruct Hin as [Hin|(e & He & Hp & Hx)].
      - destruct (o_oi _ _ _ O x r Hin) as (H1 & H2 & it & Hit & Hr). split; [exact H1|]. split; [exact H2|].
        exists (follow sha s ts (Begin t a started) it). split; [exact (in_map (follow sha s ts (Begin t a started)) _ _ Hit)|exact Hr].
      - inversion Hx; subst x r. destruct e as [k r]. apply filter_In in He. destruct He as [He _].
        unfold pO in Hp. simpl in Hp. apply andb_prop in Hp. destruct Hp as [Hor _].
        unfold kO, vO. simpl. split; [reflexivity|]. split; [exact Hor|].
        destruct (o_qi _ _ _ O k r He) as (it & Hit & Hr).
        exists (follow sha s ts (Begin t a started) it). split; [exact (in_map (follow sha s ts (Begin t a started)) _ _ Hit)|exact Hr]. }
    assert (Hplain' : forall it, In it (ts_items ts') -> q_oracle (t_r0 it) = false ->
                      t_ph it = Pending \/ exists ev, t_ph it = Fulfilled ev).
    { intros it Hin Hpl. rewrite Hitems in Hin. apply in_map_iff in Hin. destruct Hin as (it0 & <- & Hin0).
      unfold follow in *. cbn [t_ph t_r0] in *. apply spec_step_begin_plain_o; [exact Hpl|].
      apply (o_plain _ _ _ O it0 Hin0 Hpl). }
    assert (Hseen' : forall it, In it (ts_items ts') -> seenO (run sha init (hist ++ [Begin t a started])) ts' it).
    { intros it Hin. apply (seenO_build _ ts' it T' Hin (Hlive' it Hin) Huniq' Hoi' (Hplain' it Hin)). }
    assert (Hnos : nos_after [] (hist ++ [Begin t a started]) = nos_after [] hist).
    { rewrite nos_after_app. reflexivity. }
    destruct (Forall2_step (irel (nos_after [] hist)) (irel (nos_after [] hist))
                (follow sha s ts (Begin t a started))
                (begin_fn p o t a started) _ _ (o_rel _ _ _ O)) as [Hrel' Hcodes].
    { intros it pi Hin Hr.
      apply (begin_item_o hist ts p t a started ts' (outcome_code out) (facts_of (Begin t a started)) _ it pi O Hin Hr).
      - rewrite Hitems. apply in_map. exact Hin.
      - apply Hseen'. rewrite Hitems. apply in_map. exact Hin. }
    set (p' := mkP (p_h p + 1) t a (map fst (map (begin_fn p o t a started) (p_items p))) []).
    exists p'.
    assert (O' : OInv (hist ++ [Begin t a started]) ts' p').
    { constructor; cbn [p' p_h p_t p_a p_dups p_items]; auto.
      - unfold ts', track_next. cbn [ts_ok]. rewrite (o_ok _ _ _ O). simpl.
        apply negb_true_iff. apply Z.eqb_neq. exact Htz.
      - exact (o_bad _ _ _ O).
      - rewrite Hs'eq, (o_h _ _ _ O). reflexivity.
      - rewrite Hs'eq. reflexivity.
      - rewrite Hs'eq. reflexivity.
      - rewrite Hnos, Hitems. exact Hrel'.
      - rewrite named_after_app. simpl. exact (o_named _ _ _ O).
      - intros x Hx. rewrite Hitems, octxs_follow in Hx. apply (o_octx _ _ _ O x Hx). }
    split; [|exact O'].
    unfold prop_step. replace (o_code o) with 0 by (unfold o, mobsf, obs_of; rewrite Hout; reflexivity).
    simpl (0 =? 2). cbn iota. rewrite on_begin_eq, (o_dups _ _ _ O). fold p'. rewrite Hcodes.
    pose proof (codes_zero_o p' _ (outcome_code out) ts' (facts_of (Begin t a started)) _
                  (o_dups _ _ _ O') (o_rel _ _ _ O') (OInv_seen _ _ _ O')) as Hz.
    cbv zeta in Hz. fold o in Hz. rewrite Hz. reflexivity.
  Qed.

  (** *** callbacks: the facts of a step, item by item *)
  Definition fact_fn (p : pst) (o : obs) (f : svcfact) (pi : pitem) : pitem * Z :=
    let go (x : Z) (g : pitem -> pitem * Z) :=
      match i_st pi with
      | PStarted => if i_ctx pi =? x then g pi else (pi, 0)
      | _ => (pi, 0)
      end in
    match f with
    | SvcSeed x sd => go x (fun it => fulfil p o it (p_t p) (p_a p) (Some sd) 7)
    | SvcNoSeed x => go x (fun it => (set_status it PNoSeed, 0))
    | SvcExpired x | SvcPaused x => go x (fun it => (set_status it PDropped, 0))
    end.

  Lemma on_fact_eq p o f :
    on_fact p o f =
    (mkP (p_h p) (p_t p) (p_a p) (map fst (map (fact_fn p o f) (p_items p))) (p_dups p),
     first_code (map snd (map (fact_fn p o f) (p_items p)))).
  Proof. destruct f; reflexivity. Qed.

  Definition call_fn (p : pst) (o : obs) (cl : call) (pi : pitem) : pitem * Z :=
    match fact_of cl with [] => (pi, 0) | f :: _ => fact_fn p o f pi end.

  Definition adv1 (hh tt aa : Z) (cl : call) (it : titem) : titem :=
    mkT (t_r0 it) (t_d it) (spec_call sha (t_r0 it) hh tt aa (t_ph it) cl) (t_live it).

  Definition nos1 (nos : list Z) (cl : call) : list Z := nos_calls nos [cl].
  Definition wf1 (nos : list Z) (cl : call) : Prop :=
    match cl with CallResp x (CbSeed _) => ~ In x nos | _ => True end.

  Lemma nos1_sub nos cl x : In x nos -> In x (nos1 nos cl).
  Proof. unfold nos1. destruct cl as [y [| | |sd]|y ex]; simpl; auto. Qed.

  Lemma call_item p o hh cl nos it pi :
    irel nos it pi -> p_dups p = [] -> t_d it < two63 -> wf1 nos cl ->
    (forall ev, spec_call sha (t_r0 it) hh (p_t p) (p_a p) (t_ph it) cl = Fulfilled ev ->
                t_ph it = Started ->
                read_of o (req_id (t_r0 it)) = Some (Some (show_result (result_of ev)))) ->
    exists pi', call_fn p o cl pi = (pi', 0) /\ irel (nos1 nos cl) (adv1 hh (p_t p) (p_a p) cl it) pi'.
  Proof.
    intros Hrel Hdups Hdue Hwf Hread.
    pose proof (claimed_rel p nos it pi Hdups Hrel Hdue) as Hcl.
    pose proof (irel_mono nos (nos1 nos cl) it pi (nos1_sub nos cl) Hrel) as Hrel1.
    destruct Hrel as (Hrid & Hdu & Hor & Hcx & Hs).
    assert (Hsame : forall st', i_st pi = st' -> t_ph it <> Started \/ st' <> PStarted ->
              spec_call sha (t_r0 it) hh (p_t p) (p_a p) (t_ph it) cl = t_ph it ->
              call_fn p o cl pi = (pi, 0) ->
              exists pi', call_fn p o cl pi = (pi', 0) /\ irel (nos1 nos cl) (adv1 hh (p_t p) (p_a p) cl it) pi').
    { intros st' _ _ Hph Hfn. exists pi. split; [exact Hfn|].
      destruct Hrel1 as (R1 & R2 & R3 & R4 & R5). unfold irel, adv1. cbn [t_r0 t_d t_ph]. rewrite Hph. auto. }
    assert (Hnofn : i_st pi <> PStarted -> call_fn p o cl pi = (pi, 0)).
    { intros Hne. unfold call_fn, fact_fn. destruct (fact_of cl) as [|f fs]; [reflexivity|].
      destruct f; destruct (i_st pi); try reflexivity; contradiction. }
    destruct (t_ph it) as [| |ev|] eqn:Hp; destruct (i_st pi) as [| |t0 a0 sd0 r0'| |] eqn:Hst; simpl in Hs; try contradiction.
    - (* Pending *) apply (Hsame PPending eq_refl); [left; discriminate|reflexivity|apply Hnofn; discriminate].
    - (* Started, PStarted *)
      assert (Tunch : forall pi0, pi0 = pi -> irel (nos1 nos cl) (mkT (t_r0 it) (t_d it) Started (t_live it)) pi0).
      { intros pi0 ->. destruct Hrel1 as (R1 & R2 & R3 & R4 & R5). unfold irel. cbn [t_r0 t_d t_ph]. rewrite Hst. auto. }
      destruct cl as [x [| | |sd]|x [|]]; unfold call_fn, fact_of, fact_fn, adv1, spec_call; cbn [t_r0 t_d t_ph];
        rewrite ?Hst, ?Hp, ?Hcx, ?(Z.eqb_sym (q_ctx (t_r0 it)) x);
        destruct (Z.eqb_spec x (q_ctx (t_r0 it))) as [Hx|Hx]; cbn [andb].
      + eexists. split; [reflexivity|]. apply (irel_set_status _ it _ pi _ Hrel1); [reflexivity|reflexivity|]. exact I.
      + eexists. split; [reflexivity|]. apply Tunch. reflexivity.
      + eexists. split; [reflexivity|]. apply (irel_set_status _ it _ pi _ Hrel1); [reflexivity|reflexivity|]. exact I.
      + eexists. split; [reflexivity|]. apply Tunch. reflexivity.
      + eexists. split; [reflexivity|]. apply (irel_set_status _ it _ pi _ Hrel1); [reflexivity|reflexivity|].
        cbn [t_ph srel]. unfold nos1. simpl. left. exact Hx.
      + eexists. split; [reflexivity|]. apply Tunch. reflexivity.
      + unfold fulfil. rewrite Hrid.
        assert (Hsp : spec_call sha (t_r0 it) hh (p_t p) (p_a p) Started (CallResp x (CbSeed sd)) =
                      Fulfilled (mkEv hh (p_t p) (p_a p) (req_id (t_r0 it)) (q_txh (t_r0 it)) (Some sd)
                                      (rand_val sha (p_t p) (p_a p) (q_consumer (t_r0 it)) (Some sd)))).
        { unfold spec_call. destruct (Z.eqb_spec x (q_ctx (t_r0 it))); [reflexivity|contradiction]. }
        rewrite (Hread _ Hsp eq_refl).
        cbn [show_result result_of e_txh e_block e_val].
        rewrite (wf_value_render _ (rand_val_range sha (p_t p) (p_a p) (q_consumer (t_r0 it)) (Some sd))).
        rewrite andb_false_r. eexists. split; [reflexivity|].
        apply (irel_set_status _ it _ pi _ Hrel1); [reflexivity|reflexivity|]. cbn [t_ph srel e_time e_app e_seed]. auto.
      + eexists. split; [reflexivity|]. apply Tunch. reflexivity.
      + eexists. split; [reflexivity|]. apply (irel_set_status _ it _ pi _ Hrel1); [reflexivity|reflexivity|]. exact I.
      + eexists. split; [reflexivity|]. apply Tunch. reflexivity.
      + eexists. split; [reflexivity|]. apply Tunch. reflexivity.
      + eexists. split; [reflexivity|]. apply Tunch. reflexivity.
    - (* Started, PNoSeed: the context already had its (malformed) response *)
      exists pi. split; [apply Hnofn; discriminate|].
      destruct Hrel1 as (R1 & R2 & R3 & R4 & R5). unfold irel, adv1. cbn [t_r0 t_d t_ph]. rewrite Hst.
      repeat (split; [assumption|]). rewrite Hp.
      destruct cl as [x dta|x ex]; unfold spec_call.
      + destruct (Z.eqb_spec x (q_ctx (t_r0 it))) as [Hx|Hx]; [|cbv beta iota; cbn [srel]; apply nos1_sub; exact Hs].
        destruct dta as [| | |sd]; cbv beta iota; cbn [srel]; try exact I; try (apply nos1_sub; exact Hs).
        exfalso. apply Hwf. rewrite Hx. exact Hs.
      + destruct ((x =? q_ctx (t_r0 it)) && ex); cbv beta iota; cbn [srel]; [exact I|apply nos1_sub; exact Hs].
    - (* Fulfilled *) apply (Hsame _ eq_refl); [left; discriminate|reflexivity|apply Hnofn; discriminate].
    - (* Dropped, PNoSeed *) apply (Hsame _ eq_refl); [left; discriminate|reflexivity|apply Hnofn; discriminate].
    - (* Dropped, PDropped *) apply (Hsame _ eq_refl); [left; discriminate|reflexivity|apply Hnofn; discriminate].
  Qed.

  Definition advs (hh tt aa : Z) (cs : list call) (it : titem) : titem :=
    mkT (t_r0 it) (t_d it) (fold_left (spec_call sha (t_r0 it) hh tt aa) cs (t_ph it)) (t_live it).

  Lemma wf_calls_cons nos cl cs : wf_calls nos (cl :: cs) -> wf1 nos cl /\ wf_calls (nos1 nos cl) cs.
  Proof. destruct cl as [x [| | |sd]|x ex]; simpl; tauto. Qed.

  Lemma nos_calls_cons nos cl cs : nos_calls nos (cl :: cs) = nos_calls (nos1 nos cl) cs.
  Proof. destruct cl as [x [| | |sd]|x ex]; reflexivity. Qed.

  Lemma map_fst_id {A} (l : list A) : map fst (map (fun x => (x, 0)) l) = l.
  Proof. induction l as [|x l IH]; simpl; [reflexivity|rewrite IH; reflexivity]. Qed.

  Lemma on_facts_calls hh tt aa o cs : forall l p nos,
    Forall2 (irel nos) l (p_items p) -> p_t p = tt -> p_a p = aa -> p_dups p = [] ->
    (forall it, In it l -> t_d it < two63) -> wf_calls nos cs ->
    (forall it, In it l -> forall ev,
       fold_left (spec_call sha (t_r0 it) hh tt aa) cs (t_ph it) = Fulfilled ev -> t_ph it <> Fulfilled ev ->
       read_of o (req_id (t_r0 it)) = Some (Some (show_result (result_of ev)))) ->
    exists pe, on_facts p o (flat_map fact_of cs) = (pe, 0)
               /\ p_h pe = p_h p /\ p_t pe = tt /\ p_a pe = aa /\ p_dups pe = []
               /\ Forall2 (irel (nos_calls nos cs)) (map (advs hh tt aa cs) l) (p_items pe).
  Proof.
    induction cs as [|cl cs IH]; intros l p nos Hrel Ht Ha Hd Hdue Hwf Hread.
    - exists p. simpl. repeat (split; [reflexivity || assumption|]).
      replace (map (advs hh tt aa []) l) with l; [exact Hrel|].
      rewrite <- (map_id l) at 1. apply map_ext. intros [r0 d ph lv]. reflexivity.
    - apply wf_calls_cons in Hwf. destruct Hwf as [Hwf1 Hwfs].
      destruct (Forall2_step (irel nos) (irel (nos1 nos cl)) (adv1 hh tt aa cl) (call_fn p o cl) l (p_items p) Hrel)
        as [Hrel1 Hc1].
      { intros it pi Hin Hr. subst tt aa. apply (call_item p o hh cl nos it pi Hr Hd (Hdue it Hin) Hwf1).
        intros ev Hsp Hst. apply (Hread it Hin ev).
        - simpl. rewrite Hsp. apply spec_calls_stable. discriminate.
        - rewrite Hst. discriminate. }
      set (p1 := mkP (p_h p) (p_t p) (p_a p) (map fst (map (call_fn p o cl) (p_items p))) (p_dups p)).
      destruct (IH (map (adv1 hh tt aa cl) l) p1 (nos1 nos cl) Hrel1 Ht Ha Hd) as (pe & He & H1 & H2 & H3 & H4 & H5).
      { intros it Hin. apply in_map_iff in Hin. destruct Hin as (it0 & <- & Hin0). apply (Hdue it0 Hin0). }
      { exact Hwfs. }
      { intros it Hin ev Hf Hne. apply in_map_iff in Hin. destruct Hin as (it0 & <- & Hin0).
        unfold adv1 in Hf, Hne |- *. cbn [t_r0 t_ph] in Hf, Hne |- *.
        destruct (t_ph it0) as [| |ev0|] eqn:Hp0.
        - apply (Hread it0 Hin0 ev); [rewrite Hp0; exact Hf|rewrite Hp0; discriminate].
        - apply (Hread it0 Hin0 ev); [rewrite Hp0; exact Hf|rewrite Hp0; discriminate].
        - exfalso. apply Hne. simpl in Hf |- *. rewrite spec_calls_stable in Hf by discriminate. simpl. exact Hf.
        - apply (Hread it0 Hin0 ev); [rewrite Hp0; exact Hf|rewrite Hp0; discriminate]. }
      exists pe. rewrite nos_calls_cons. split.
      + change (flat_map fact_of (cl :: cs)) with (fact_of cl ++ flat_map fact_of cs).
        destruct (fact_of cl) as [|f fs] eqn:Hf.
        * simpl. replace p with p1; [exact He|].
          unfold p1, call_fn. rewrite Hf. rewrite map_fst_id. destruct p; reflexivity.
        * assert (Hfs : fs = []) by (destruct cl as [x [| | |sd]|x [|]]; simpl in Hf; inversion Hf; reflexivity).
          subst fs. simpl. rewrite on_fact_eq.
          replace (fact_fn p o f) with (call_fn p o cl) by (unfold call_fn; rewrite Hf; reflexivity).
          fold p1. rewrite Hc1. rewrite He. reflexivity.
      + split; [exact H1|]. split; [exact H2|]. split; [exact H3|]. split; [exact H4|].
        rewrite map_map in H5. exact H5.
  Qed.

  Lemma spec_step_calls_fold r0 d s ph cs :
    spec_step sha r0 d s ph (Calls cs) = fold_left (spec_call sha r0 (height s) (time s) (apph s)) cs ph.
  Proof. destruct ph; cbn [spec_step]; try reflexivity; symmetry; apply spec_calls_stable; discriminate. Qed.

  Lemma follow_calls s ts cs it :
    follow sha s ts (Calls cs) it = advs (height s) (time s) (apph s) cs it.
  Proof. unfold follow, advs, keep. rewrite spec_step_calls_fold, andb_true_r. reflexivity. Qed.

  Lemma octxs_advs hh tt aa cs l : octxs (map (advs hh tt aa cs) l) = octxs l.
  Proof. unfold octxs. induction l as [|it l IH]; simpl; [reflexivity|]. rewrite IH. reflexivity. Qed.

  Lemma OInv_step_calls hist ts p cs :
    let st := Calls cs in
    OInv hist ts p -> sane allP [] (hist ++ [st]) -> wf_env (named_after [] hist) (nos_after [] hist) [st] ->
    let s := run sha init hist in
    let out := step_outcome sha s st in
    let ts' := track_next sha s ts st (accepted_of out) in
    let o := mobsf (run sha init (hist ++ [st])) (outcome_code out) ts' (facts_of st) in
    exists p', prop_step p st o = (p', 0, false) /\ OInv (hist ++ [st]) ts' p'.
  Proof.
    intros st O Hs Hw s out ts' o. subst st.
    pose proof (TInv_step sha hist ts (Calls cs) (o_t _ _ _ O)) as T'. fold s out ts' in T'.
    apply sane_snoc in Hs. destruct Hs as [Hs_h Hs_st]. destruct Hw as (Hwc & _ & _).
    pose proof (Base_run sha allP hist [] init Base_init Hs_h) as Hb. fold s in Hb.
    assert (Hout : out = Ok).
    { unfold out, step_outcome, exec_step. rewrite (exec_calls_nz sha cs s (b_t _ _ Hb)). reflexivity. }
    assert (Hs' : run sha init (hist ++ [Calls cs]) = calls_state sha s cs).
    { rewrite run_snoc. fold s. unfold step_state, exec_step. rewrite (exec_calls_nz sha cs s (b_t _ _ Hb)). reflexivity. }
    destruct (calls_state_sub sha cs s) as (Hh & Ht & Ha & Hq & Hosub & _).
    assert (Hitems : ts_items ts' = map (advs (height s) (time s) (apph s) cs) (ts_items ts)).
    { unfold ts', track_next. cbn [ts_items]. apply map_ext. intros it. apply follow_calls. }
    assert (Hlive' : forall it, In it (ts_items ts') -> t_live it = true).
    { intros it Hin. rewrite Hitems in Hin. apply in_map_iff in Hin. destruct Hin as (it0 & <- & Hin0).
      apply (o_live _ _ _ O it0 Hin0). }
    assert (Hoct : octxs (ts_items ts') = octxs (ts_items ts)).
    { rewrite Hitems. apply octxs_advs. }
    assert (Huniq' : NoDup (octxs (ts_items ts'))) by (rewrite Hoct; exact (o_uniq _ _ _ O)).
    assert (Hin_items : forall it, In it (ts_items ts) -> In (advs (height s) (time s) (apph s) cs it) (ts_items ts')).
    { intros it Hin. rewrite Hitems. apply in_map. exact Hin. }
    assert (Hqi' : forall k r, In (k, r) (queue (run sha init (hist ++ [Calls cs]))) ->
                   exists it, In it (ts_items ts') /\ t_r0 it = r).
    { intros k r Hin. rewrite Hs', Hq in Hin. destruct (o_qi _ _ _ O k r Hin) as (it & Hit & Hr).
      exists (advs (height s) (time s) (apph s) cs it). split; [apply Hin_items; exact Hit|exact Hr]. }
    assert (Hoi' : forall x r, In (x, r) (oracle (run sha init (hist ++ [Calls cs]))) ->
                   x = q_ctx r /\ q_oracle r = true /\ exists it, In it (ts_items ts') /\ t_r0 it = r).
    { intros x r Hin. rewrite Hs' in Hin. apply Hosub in Hin.
      destruct (o_oi _ _ _ O x r Hin) as (H1 & H2 & it & Hit & Hr). split; [exact H1|]. split; [exact H2|].
      exists (advs (height s) (time s) (apph s) cs it). split; [apply Hin_items; exact Hit|exact Hr]. }
    assert (Hplain' : forall it, In it (ts_items ts') -> q_oracle (t_r0 it) = false ->
                      t_ph it = Pending \/ exists ev, t_ph it = Fulfilled ev).
    { intros it Hin Hpl. rewrite Hitems in Hin. apply in_map_iff in Hin. destruct Hin as (it0 & <- & Hin0).
      unfold advs in *. cbn [t_ph t_r0] in *. pose proof (o_plain _ _ _ O it0 Hin0 Hpl) as Hph.
      rewrite <- spec_step_calls_fold with (d := t_d it0). rewrite (spec_step_calls_plain sha _ _ _ _ _ Hph). exact Hph. }
    assert (Hseen' : forall it, In it (ts_items ts') -> seenO (run sha init (hist ++ [Calls cs])) ts' it).
    { intros it Hin. apply (seenO_build _ ts' it T' Hin (Hlive' it Hin) Huniq' Hoi' (Hplain' it Hin)). }
    destruct (on_facts_calls (height s) (time s) (apph s) o cs (ts_items ts) p (nos_after [] hist)
                (o_rel _ _ _ O) (o_tm _ _ _ O) (o_a _ _ _ O) (o_dups _ _ _ O))
      as (pe & He & H1 & H2 & H3 & H4 & H5).
    { intros it Hin. apply (so_due _ _ _ (OInv_seen _ _ _ O it Hin)). }
    { exact Hwc. }
    { intros it Hin ev Hf _.
      pose proof (Hseen' _ (Hin_items it Hin)) as Hsn.
      pose proof (read_mobsf (run sha init (hist ++ [Calls cs])) (outcome_code out) ts' (facts_of (Calls cs)) _ (Hin_items it Hin)) as Hrd.
      rewrite (so_res _ _ _ Hsn) in Hrd. unfold advs in Hrd. cbn [t_r0 t_ph] in Hrd. rewrite Hf in Hrd. exact Hrd. }
    exists pe.
    assert (O' : OInv (hist ++ [Calls cs]) ts' pe).
    { constructor; auto.
      - exact (o_ok _ _ _ O).
      - exact (o_bad _ _ _ O).
      - rewrite H1, Hs', Hh. exact (o_h _ _ _ O).
      - rewrite H2, Hs', Ht. reflexivity.
      - rewrite H3, Hs', Ha. reflexivity.
      - rewrite Hitems, nos_after_app. exact H5.
      - rewrite named_after_app. simpl. exact (o_named _ _ _ O).
      - intros x Hx. rewrite Hoct in Hx. apply (o_octx _ _ _ O x Hx). }
    split; [|exact O'].
    unfold prop_step. replace (o_code o) with 0 by (unfold o, mobsf, obs_of; rewrite Hout; reflexivity).
    simpl (0 =? 2). cbn iota.
    replace (o_svc o) with (flat_map fact_of cs) by reflexivity. rewrite He.
    pose proof (codes_zero_o pe _ (outcome_code out) ts' (facts_of (Calls cs)) _
                  (o_dups _ _ _ O') (o_rel _ _ _ O') (OInv_seen _ _ _ O')) as Hz.
    cbv zeta in Hz. fold o in Hz. rewrite Hz. reflexivity.
  Qed.

  Lemma OInv_step hist ts p st :
    OInv hist ts p -> sane allP [] (hist ++ [st]) -> wf_env (named_after [] hist) (nos_after [] hist) [st] ->
    let s := run sha init hist in
    let out := step_outcome sha s st in
    let ts' := track_next sha s ts st (accepted_of out) in
    let o := mobsf (run sha init (hist ++ [st])) (outcome_code out) ts' (facts_of st) in
    exists p', prop_step p st o = (p', 0, false) /\ OInv (hist ++ [st]) ts' p'.
  Proof.
    intros O Hs Hw. destruct st as [c n orc capok txh svc|t a started|cs].
    - apply (OInv_step_req hist ts p c n orc capok txh svc O Hs Hw).
    - apply (OInv_step_begin hist ts p t a started O Hs).
    - apply (OInv_step_calls hist ts p cs O Hs Hw).
  Qed.

  Lemma OInv_init : OInv [] tinit pinit.
  Proof.
    constructor; try reflexivity; simpl; try (intros; contradiction).
    - apply TInv_init.
    - constructor.
    - constructor.
  Qed.

  (** the property side of [check_from] on the model's own trace, oracle requests included *)
  Lemma check_from_model_o rest : forall hist ts p i corr,
    OInv hist ts p -> sane allP [] (hist ++ rest) -> wf_env [] [] (hist ++ rest) ->
    exists corr',
      check_from sha (run sha init hist) p ts (model_trace_o (run sha init hist) ts rest) i corr (-1) 0 false
      = (corr', -1, 0).
  Proof.
    induction rest as [|st rest IH]; intros hist ts p i corr O Hs Hw.
    - exists corr. reflexivity.
    - assert (Hs1 : sane allP [] (hist ++ [st])).
      { replace (hist ++ st :: rest) with ((hist ++ [st]) ++ rest) in Hs by (rewrite <- app_assoc; reflexivity).
        apply sane_app in Hs. tauto. }
      assert (Hw1 : wf_env (named_after [] hist) (nos_after [] hist) [st]).
      { apply wf_env_app in Hw. destruct Hw as [_ Hw]. simpl in Hw |- *. tauto. }
      destruct (OInv_step hist ts p st O Hs1 Hw1) as (p' & Hprop & O').
      pose proof (proj1 (sane_snoc allP hist st) Hs1) as [Hs_h Hs_st].
      pose proof (Base_run sha allP hist [] init Base_init Hs_h) as Hb.
      pose proof (no_abort sha _ _ st Hb Hs_st) as Hna.
      cbn [model_trace_o check_from].
      unfold step_outcome, step_state in *.
      destruct (exec_step sha (run sha init hist) st) as [[out s'] evs] eqn:He. cbn [fst snd] in *.
      assert (Hs' : s' = run sha init (hist ++ [st])).
      { rewrite run_snoc. unfold step_state. rewrite He. reflexivity. }
      rewrite Hs'. rewrite Hprop.
      fold (agree_of st (mobsf (run sha init (hist ++ [st])) (outcome_code out)
                               (track_next sha (run sha init hist) ts st (accepted_of out)) (facts_of st)) out).
      replace (agree_of st (mobsf (run sha init (hist ++ [st])) (outcome_code out)
                               (track_next sha (run sha init hist) ts st (accepted_of out)) (facts_of st)) out)
        with true.
      2:{ symmetry. unfold agree_of, mobsf, obs_of. cbn [o_code].
          destruct out; [| |contradiction]; destruct st as [| |[|cl cs]]; reflexivity. }
      change (match out with Ok => true | _ => false end) with (accepted_of out).
      unfold track_step. cbn [negb].
      pose proof (TInv_views sha _ _ (outcome_code out) (facts_of st) (o_t _ _ _ O')) as Hv.
      unfold mobsf. rewrite Hv. cbn [Z.eqb Z.ltb Z.compare andb negb orb].
      replace (match out with Abort => true | _ => false end) with false by (destruct out; [reflexivity|reflexivity|contradiction]).
      apply (IH (hist ++ [st]) _ p' (i + 1) _ O').
      + rewrite <- app_assoc. exact Hs.
      + rewrite <- app_assoc. exact Hw.
  Qed.

  Lemma model_passes_check_oracle_lemma steps : sane allP [] steps -> wf_env [] [] steps ->
    exists corr,
      check_from sha init pinit tinit (model_trace_o init tinit steps) 0 (-1) (-1) 0 false = (corr, -1, 0).
  Proof. intros Hs Hw. apply (check_from_model_o steps [] tinit pinit 0 (-1) OInv_init Hs Hw). Qed.

  (** *** the correspondence side with oracle requests *)
  Fixpoint ctx_nonneg (steps : list step) : Prop :=
    match steps with
    | [] => True
    | st :: rest => match named_of st with Some x => 0 <= x | None => True end /\ ctx_nonneg rest
    end.

  Lemma ctx_nonneg_app a b : ctx_nonneg (a ++ b) <-> ctx_nonneg a /\ ctx_nonneg b.
  Proof. induction a as [|st a IH]; simpl; [tauto|]. rewrite IH. tauto. Qed.

  Lemma named_nonneg steps : forall named, (forall x, In x named -> 0 <= x) -> ctx_nonneg steps ->
    forall x, In x (named_after named steps) -> 0 <= x.
  Proof.
    induction steps as [|st steps IH]; intros named Hn Hc x Hx; simpl in *; [apply Hn; exact Hx|].
    destruct Hc as [Hc1 Hc2].
    apply (IH (match named_of st with Some z => z :: named | None => named end)); [|exact Hc2|exact Hx].
    intros y Hy. destruct (named_of st) as [z|]; [destruct Hy as [<-|Hy]; [exact Hc1|apply Hn; exact Hy]|apply Hn; exact Hy].
  Qed.

  Record KQ (s : state) : Prop := mkKQ {
    kq_queue : NoDup (keys (queue s));
    kq_oracle : NoDup (keys (oracle s))
  }.

  Lemma keys_del_NoDup {K V} `{EqDec K} (k : K) (m : amap K V) : NoDup (keys m) -> NoDup (keys (del k m)).
  Proof.
    induction m as [|[k0 v0] m IH]; simpl; intros Hnd; [constructor|].
    inversion Hnd as [|? ? Hni Hnd']; subst. destruct (eq_dec k k0); [apply IH; exact Hnd'|].
    simpl. constructor; [|apply IH; exact Hnd'].
    intros Hin. apply Hni. unfold keys in *. apply in_map_iff in Hin. destruct Hin as ([k1 v1] & Hk & Hin).
    apply in_del_inv in Hin. apply in_map_iff. exists (k1, v1). tauto.
  Qed.

  Lemma fold_fset_NoDup {K V E} `{EqDec K} (pp : E -> bool) (kf : E -> K) (vf : E -> V) (l : list E) :
    forall (m : amap K V), NoDup (keys m) -> NoDup (keys (fold_left (fset pp kf vf) l m)).
  Proof.
    induction l as [|e l IH]; intros m Hnd; simpl; [exact Hnd|]. apply IH.
    unfold fset. destruct (pp e); [apply keys_set_NoDup; exact Hnd|exact Hnd].
  Qed.

  Lemma KQ_call s cl : KQ s -> KQ (call_state sha s cl).
  Proof.
    intros [Hq Ho]. destruct cl as [x dta|x ex]; simpl.
    - destruct dta; simpl; try (constructor; simpl; [exact Hq|apply keys_del_NoDup; exact Ho]); try (constructor; assumption).
      destruct (get x (oracle s)); constructor; simpl; try exact Hq; apply keys_del_NoDup; exact Ho.
    - destruct ex; simpl; constructor; simpl; try assumption. apply keys_del_NoDup; exact Ho.
  Qed.

  Lemma KQ_calls cs : forall s, KQ s -> KQ (calls_state sha s cs).
  Proof. induction cs as [|cl cs IH]; intros s K; simpl; [exact K|]. apply IH. apply KQ_call. exact K. Qed.

  Lemma KQ_step used s st : Base used s -> sane allP used [st] -> KQ s -> KQ (step_state sha s st).
  Proof.
    intros Hb Hs [Hq Ho]. unfold step_state. destruct st as [c n orc capok txh svc|t a started|cs].
    - rewrite exec_req. destruct (req_ok c capok orc svc); [destruct (interval_ok (height s) n)|]; simpl;
        constructor; simpl; try assumption. apply keys_set_NoDup. exact Hq.
    - destruct Hs as [Htz _]. unfold exec_step. rewrite (begin_block_nz sha s t a started Htz). simpl.
      constructor; simpl; [apply NoDup_keys_filter; exact Hq|apply fold_fset_NoDup; exact Ho].
    - unfold exec_step. rewrite (exec_calls_nz sha cs s (b_t _ _ Hb)). simpl. apply KQ_calls. constructor; assumption.
  Qed.

  Lemma KQ_run steps : forall used s, Base used s -> sane allP used steps -> KQ s -> KQ (run sha s steps).
  Proof.
    induction steps as [|st steps IH]; intros used s Hb Hs K; [exact K|].
    apply sane_cons in Hs. destruct Hs as [Hs1 Hs2]. simpl.
    apply (IH (used_step used st)); [apply (Base_step sha allP); assumption|exact Hs2|apply (KQ_step used); assumption].
  Qed.

  Lemma KQ_init : KQ init.
  Proof. constructor; simpl; constructor. Qed.

  Definition has_key (orc : amap Z request) (x : Z) : bool :=
    match get x orc with Some _ => true | None => false end.

  Lemma has_key_in orc x : has_key orc x = true <-> In x (keys orc).
  Proof.
    unfold has_key. split.
    - destruct (get x orc) as [r|] eqn:Hg; [|discriminate]. intros _. apply get_In in Hg.
      unfold keys. apply in_map_iff. exists (x, r). auto.
    - intros Hin. unfold keys in Hin. apply in_map_iff in Hin. destruct Hin as ([x' r] & Hx & Hin). simpl in Hx. subst x'.
      destruct (in_get _ _ _ Hin) as (v' & ->). reflexivity.
  Qed.

  Lemma count_some_map orc L :
    count_some (map (fun x => (x, get x orc)) L) = Z.of_nat (length (filter (has_key orc) L)).
  Proof.
    unfold count_some. f_equal. induction L as [|x L IH]; simpl; [reflexivity|].
    unfold has_key at 1. destruct (get x orc); simpl; rewrite IH; reflexivity.
  Qed.

  Lemma filter_count_nodup (K M : list Z) (f : Z -> bool) :
    NoDup M -> NoDup K -> (forall x, In x K -> In x M) -> (forall x, f x = true <-> In x K) ->
    length (filter f M) = length K.
  Proof.
    intros HM HK Hsub Hf.
    assert (HA : NoDup (filter f M)) by (apply NoDup_filter; exact HM).
    apply Nat.le_antisymm.
    - apply NoDup_incl_length; [exact HA|]. intros x Hx. apply filter_In in Hx. apply Hf. tauto.
    - apply NoDup_incl_length; [exact HK|]. intros x Hx. apply filter_In. split; [apply Hsub; exact Hx|apply Hf; exact Hx].
  Qed.

  Lemma item_plain_ctx hist ts it : TInv sha hist ts -> In it (ts_items ts) ->
    q_oracle (t_r0 it) = false -> q_ctx (t_r0 it) = -1.
  Proof.
    intros [_ _ _ Hit] Hin Hpl.
    destruct (Hit it Hin) as (pre & c & n & orc & capok & txh & svc & post & _ & _ & _ & Hr0 & _).
    rewrite Hr0 in Hpl |- *. unfold new_req in *. simpl in *. rewrite Hpl. reflexivity.
  Qed.

  Lemma filter_ctxs_octxs orc (l : list titem) :
    (forall it, In it l -> q_oracle (t_r0 it) = false -> has_key orc (q_ctx (t_r0 it)) = false) ->
    filter (has_key orc) (map (fun it => q_ctx (t_r0 it)) l) = filter (has_key orc) (octxs l).
  Proof.
    induction l as [|it l IH]; intros Hpl; [reflexivity|].
    unfold octxs. simpl. fold (octxs l).
    rewrite filter_app, <- IH by (intros it' Hin; apply Hpl; right; exact Hin).
    destruct (q_oracle (t_r0 it)) eqn:Ho; simpl.
    - destruct (has_key orc (q_ctx (t_r0 it))); reflexivity.
    - rewrite (Hpl it (or_introl eq_refl) Ho). reflexivity.
  Qed.

  Lemma corr_model_o hist p st ts' :
    let s' := step_state sha (run sha init hist) st in
    OInv (hist ++ [st]) ts' p -> s' = run sha init (hist ++ [st]) -> KQ s' ->
    (forall x, In x (ts_ctxs ts') -> 0 <= x) ->
    step_outcome sha (run sha init hist) st <> Abort ->
    corr_step (step_outcome sha (run sha init hist) st) s' st
              (mobsf s' (outcome_code (step_outcome sha (run sha init hist) st)) ts' (facts_of st)) = true.
  Proof.
    intros s' O Hs' [Hq Ho] Hnn Hna. unfold corr_step, mobsf, obs_of.
    cbn [o_code o_queue o_reads o_oracle].
    apply orb_true_iff. right.
    repeat (apply andb_true_intro; split).
    - assert (Hc : outcome_code (step_outcome sha (run sha init hist) st) =? outcome_code (step_outcome sha (run sha init hist) st) = true) by apply Z.eqb_refl.
      destruct st as [c n orc capok txh svc|t a started|cs]; try exact Hc.
      assert (Hok : step_outcome sha (run sha init hist) (Calls cs) = Ok).
      { unfold step_outcome, exec_step in *. destruct (exec_calls sha (run sha init hist) cs) as [[? ?]|]; [reflexivity|]. simpl in Hna. congruence. }
      rewrite Hok. reflexivity.
    - apply Z.eqb_refl.
    - apply forallb_forall. intros [[d id] r] Hin. apply eqb_true_iff. apply get_nodup; assumption.
    - apply forallb_forall. intros [id v] Hin. apply in_map_iff in Hin. destruct Hin as (id' & He & _).
      inversion He; subst. apply eqb_refl.
    - apply forallb_forall. intros [x v] Hin. apply in_map_iff in Hin. destruct Hin as (x' & He & _).
      inversion He; subst. apply eqb_refl.
    - rewrite count_some_map. apply Z.eqb_eq. f_equal. unfold ctxs_of.
      assert (Hkeys : forall x, In x (keys (oracle s')) -> In x (octxs (ts_items ts'))).
      { intros x Hx. unfold keys in Hx. apply in_map_iff in Hx. destruct Hx as ([x' r] & Hxx & Hin). simpl in Hxx. subst x'.
        rewrite Hs' in Hin. destruct (o_oi _ _ _ O x r Hin) as (Hxr & Hor & it & Hit & Hr).
        rewrite Hxr, <- Hr. apply octxs_in; [exact Hit|rewrite Hr; exact Hor]. }
      rewrite filter_ctxs_octxs.
      + rewrite <- (map_length fst (oracle s')). fold (keys (oracle s')).
        apply (filter_count_nodup (keys (oracle s')) (octxs (ts_items ts')) (has_key (oracle s')));
          [exact (o_uniq _ _ _ O)|exact Ho|exact Hkeys|apply has_key_in].
      + intros it Hin Hpl. destruct (has_key (oracle s') (q_ctx (t_r0 it))) eqn:Hk; [|reflexivity]. exfalso.
        apply has_key_in in Hk. apply Hkeys in Hk. apply (o_octx _ _ _ O) in Hk. apply Hnn in Hk.
        rewrite (item_plain_ctx _ _ it (o_t _ _ _ O) Hin Hpl) in Hk. lia.
  Qed.

  (** the whole of [check_from] on the model's own trace, oracle requests included *)
  Lemma check_from_model_full rest : forall hist ts p i,
    OInv hist ts p -> sane allP [] (hist ++ rest) -> wf_env [] [] (hist ++ rest) -> ctx_nonneg (hist ++ rest) ->
    check_from sha (run sha init hist) p ts (model_trace_o (run sha init hist) ts rest) i (-1) (-1) 0 false
    = (-1, -1, 0).
  Proof.
    induction rest as [|st rest IH]; intros hist ts p i O Hs Hw Hc.
    - reflexivity.
    - assert (Hs1 : sane allP [] (hist ++ [st])).
      { replace (hist ++ st :: rest) with ((hist ++ [st]) ++ rest) in Hs by (rewrite <- app_assoc; reflexivity).
        apply sane_app in Hs. tauto. }
      assert (Hw1 : wf_env (named_after [] hist) (nos_after [] hist) [st]).
      { apply wf_env_app in Hw. destruct Hw as [_ Hw]. simpl in Hw |- *. tauto. }
      assert (Hc1 : ctx_nonneg (hist ++ [st])).
      { replace (hist ++ st :: rest) with ((hist ++ [st]) ++ rest) in Hc by (rewrite <- app_assoc; reflexivity).
        apply ctx_nonneg_app in Hc. tauto. }
      destruct (OInv_step hist ts p st O Hs1 Hw1) as (p' & Hprop & O').
      pose proof (proj1 (sane_snoc allP hist st) Hs1) as [Hs_h Hs_st].
      pose proof (Base_run sha allP hist [] init Base_init Hs_h) as Hb.
      pose proof (no_abort sha _ _ st Hb Hs_st) as Hna.
      pose proof (KQ_run (hist ++ [st]) [] init Base_init Hs1 KQ_init) as K'.
      assert (Hnn : forall x, In x (ts_ctxs (track_next sha (run sha init hist) ts st
                                    (accepted_of (step_outcome sha (run sha init hist) st)))) -> 0 <= x).
      { intros x Hx. rewrite (o_named _ _ _ O') in Hx.
        apply (named_nonneg (hist ++ [st]) [] (fun y Hy => match Hy with end) Hc1 x Hx). }
      pose proof (corr_model_o hist p' st _ O' (eq_sym (run_snoc sha hist st))) as Hcorr.
      cbv zeta in Hcorr. rewrite <- (run_snoc sha hist st) in Hcorr. specialize (Hcorr K' Hnn Hna).
      cbn [model_trace_o check_from].
      unfold step_outcome, step_state in *.
      destruct (exec_step sha (run sha init hist) st) as [[out s'] evs] eqn:He. cbn [fst snd] in *.
      assert (Hs' : s' = run sha init (hist ++ [st])).
      { rewrite run_snoc. unfold step_state. rewrite He. reflexivity. }
      rewrite Hs' in *. rewrite Hcorr. cbn [negb andb]. rewrite Hprop.
      fold (agree_of st (mobsf (run sha init (hist ++ [st])) (outcome_code out)
                               (track_next sha (run sha init hist) ts st (accepted_of out)) (facts_of st)) out).
      replace (agree_of st (mobsf (run sha init (hist ++ [st])) (outcome_code out)
                               (track_next sha (run sha init hist) ts st (accepted_of out)) (facts_of st)) out)
        with true.
      2:{ symmetry. unfold agree_of, mobsf, obs_of. cbn [o_code].
          destruct out; [| |contradiction]; destruct st as [| |[|cl cs]]; reflexivity. }
      change (match out with Ok => true | _ => false end) with (accepted_of out).
      unfold track_step. cbn [negb].
      pose proof (TInv_views sha _ _ (outcome_code out) (facts_of st) (o_t _ _ _ O')) as Hv.
      unfold mobsf. rewrite Hv. cbn [Z.eqb Z.ltb Z.compare andb negb orb].
      replace (match out with Abort => true | _ => false end) with false by (destruct out; [reflexivity|reflexivity|contradiction]).
      apply (IH (hist ++ [st]) _ p' (i + 1) O').
      + rewrite <- app_assoc. exact Hs.
      + rewrite <- app_assoc. exact Hw.
      + rewrite <- app_assoc. exact Hc.
  Qed.

  Lemma model_passes_check_oracle_full_lemma steps :
    sane allP [] steps -> wf_env [] [] steps -> ctx_nonneg steps ->
    check_from sha init pinit tinit (model_trace_o init tinit steps) 0 (-1) (-1) 0 false = (-1, -1, 0).
  Proof. intros Hs Hw Hc. apply (check_from_model_full steps [] tinit pinit 0 OInv_init Hs Hw Hc). Qed.
End PassOracle.
