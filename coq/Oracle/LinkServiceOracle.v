(** * Oracle <-> Service link, parts 2 and 3: from the service model's events to [run_wfb]

    Part 1 (LinkService.v) shows, on the service group's model, that the events a module sees
    (batch start, response callback, state callback) are well-formed w.r.t. the flag
    "module-owned and batch running".  Here:
    part 2: oracle events that are the image of such service events under an injective naming [nu]
      of service contexts by oracle context ids satisfy [sevs_wfb], and the oracle model's ghost
      [x_open] keeps mirroring the service flag;
    part 3: over every JOINT history (service steps with the oracle events derived from them,
      interleaved with oracle messages) the oracle projection satisfies [run_wfb] - the hypothesis
      of the C17 theorems about values. *)
From Irismod Require Import Oracle.Model Oracle.Check Oracle.ProofsList Oracle.Proofs.
From Irismod Require Service.Model Service.ProofsSched Service.ProofsBatch Service.ProofsModuleHist Oracle.LinkService.
From Coq Require Import ZifyBool.
Open Scope Z_scope.

Module S := Irismod.Service.Model.
Module L := Irismod.Oracle.LinkService.

(** ** Part 2 *)
Definition naming := S.ctxid -> option Z.
Definition injective (nu : naming) : Prop := forall i j c, nu i = Some c -> nu j = Some c -> i = j.

Definition lev_id (e : L.lev) : S.ctxid :=
  match e with L.LNew id => id | L.LDone id _ _ _ => id | L.LPause id => id end.

Inductive ev_match (nu : naming) : L.lev -> sev -> Prop :=
| m_new id c : nu id = Some c -> ev_match nu (L.LNew id) (SNewBatch c)
| m_done id c b n e bc bthr outs tol : nu id = Some c -> ev_match nu (L.LDone id b n e) (SDone c bc bthr outs tol)
| m_pause id c : nu id = Some c -> ev_match nu (L.LPause id) (SAutoPause c).

(** the oracle's events are the service events of the contexts it owns, in order *)
Inductive evs_match (nu : naming) : list L.lev -> list sev -> Prop :=
| mm_nil : evs_match nu [] []
| mm_skip e l l' : nu (lev_id e) = None -> evs_match nu l l' -> evs_match nu (e :: l) l'
| mm_cons e e' l l' : ev_match nu e e' -> evs_match nu l l' -> evs_match nu (e :: l) (e' :: l').

(** the oracle's ghost flag mirrors the tracked flag *)
Definition oagree (nu : naming) (open : S.ctxid -> bool) (os : state) : Prop :=
  forall id c x, nu id = Some c -> get c (ctxs os) = Some x -> x_open x = open id.

Definition sev_ctx (e : sev) : Z := match e with SNewBatch c => c | SDone c _ _ _ _ => c | SAutoPause c => c end.
Definition sev_flag (e : sev) : bool := match e with SNewBatch _ => true | _ => false end.

(** what a service event does to the ghost flags of the oracle model *)
Lemma do_sev_open os now e : Inv os ->
  forall c' x', get c' (ctxs (snd (do_sev os now e))) = Some x' ->
    exists x0, get c' (ctxs os) = Some x0
      /\ x_open x' = if c' =? sev_ctx e then sev_flag e else x_open x0.
Proof.
  intros HI c' x' Hg. destruct e as [c|c bc bthr outs tol|c]; cbn [sev_ctx sev_flag].
  - unfold do_sev in Hg. destruct (get c (ctxs os)) as [x|] eqn:Hx; cbn [snd] in Hg.
    + unfold set_ctx in Hg. cbn [ctxs] in Hg. destruct (Z.eq_dec c' c) as [->|Hne].
      * rewrite get_set_same in Hg. inversion Hg; subst x'. exists x. rewrite Z.eqb_refl. split; [exact Hx|reflexivity].
      * rewrite get_set_other in Hg by exact Hne. exists x'. destruct (c' =? c) eqn:E; [lia|]. split; [exact Hg|reflexivity].
    + exists x'. split; [exact Hg|]. destruct (c' =? c) eqn:E; [|reflexivity]. assert (c' = c) by lia. subst. congruence.
  - unfold do_sev in Hg. destruct (Inv_handler_response os now c outs HI) as (Hok & _ & _ & _ & Hcx & _).
    destruct (handler_response os now c outs) as [o s1]. cbn [fst snd] in *. subst o. cbn [snd] in Hg.
    unfold close_batch in Hg. rewrite Hcx in Hg. destruct (get c (ctxs os)) as [x|] eqn:Hx.
    + unfold set_ctx in Hg. cbn [ctxs] in Hg. rewrite Hcx in Hg. destruct (Z.eq_dec c' c) as [->|Hne].
      * rewrite get_set_same in Hg. inversion Hg; subst x'. exists x. rewrite Z.eqb_refl. split; [exact Hx|reflexivity].
      * rewrite get_set_other in Hg by exact Hne. exists x'. destruct (c' =? c) eqn:E; [lia|]. split; [exact Hg|reflexivity].
    + rewrite Hcx in Hg. exists x'. split; [exact Hg|]. destruct (c' =? c) eqn:E; [|reflexivity].
      assert (c' = c) by lia. subst. congruence.
  - destruct (get c (ctxs os)) as [x|] eqn:Hx.
    + destruct (ctx_has_feed os c x HI Hx) as (name & f & Hfb & _).
      rewrite (autopause_state os now c x name f Hx Hfb) in Hg. cbn [snd] in Hg. unfold upd_state in Hg. cbn [ctxs] in Hg.
      destruct (Z.eq_dec c' c) as [->|Hne].
      * rewrite get_set_same in Hg. inversion Hg; subst x'. exists x. rewrite Z.eqb_refl. split; [exact Hx|reflexivity].
      * rewrite get_set_other in Hg by exact Hne. exists x'. destruct (c' =? c) eqn:E; [lia|]. split; [exact Hg|reflexivity].
    + unfold do_sev in Hg. rewrite Hx in Hg. cbn [snd] in Hg. exists x'. split; [exact Hg|].
      destruct (c' =? c) eqn:E; [|reflexivity]. assert (c' = c) by lia. subst. congruence.
Qed.

Lemma ev_match_flag nu e e' : ev_match nu e e' ->
  nu (lev_id e) = Some (sev_ctx e') /\ forall open, L.ev_app open e = L.upd open (lev_id e) (sev_flag e').
Proof. intros H. destruct H; cbn; split; auto. Qed.

Lemma transfer nu now : injective nu -> forall evs evs', evs_match nu evs evs' ->
  forall open os, Inv os -> oagree nu open os -> L.evs_ok open evs ->
    sevs_wfb os now evs' = true /\ Inv (snd (do_sevs os now evs'))
    /\ oagree nu (L.evs_app open evs) (snd (do_sevs os now evs')).
Proof.
  intros Hinj evs evs' Hm. induction Hm as [|e l l' Hnone Hm IH|e e' l l' He Hm IH]; intros open os HI HA Hok.
  - simpl. split; [reflexivity|]. split; [exact HI|exact HA].
  - simpl in Hok. destruct Hok as [_ Hok]. unfold L.evs_app. simpl. apply IH; [exact HI| |exact Hok].
    intros id c x Hn Hg. rewrite (HA id c x Hn Hg).
    assert (Hne : id <> lev_id e) by (intros E; subst; congruence).
    destruct e; cbn [L.ev_app lev_id] in *; unfold L.upd;
      (destruct (eqb id _) eqn:E; [apply (proj1 (eqb_true_iff _ _)) in E; congruence|reflexivity]).
  - simpl in Hok. destruct Hok as [Hok1 Hok]. destruct (ev_match_flag nu e e' He) as [Hnu Happ].
    assert (Hw : sev_wfb os e' = true).
    { destruct He; try reflexivity. unfold sev_wfb. destruct (get c (ctxs os)) as [x|] eqn:Hx; [|reflexivity].
      rewrite (HA id c x H Hx). exact Hok1. }
    destruct (Inv_do_sev os now e' HI) as [Hfst HI1].
    assert (HA1 : oagree nu (L.ev_app open e) (snd (do_sev os now e'))).
    { intros id c x Hn Hg. destruct (do_sev_open os now e' HI c x Hg) as (x0 & Hx0 & Hfl). rewrite Hfl, Happ. unfold L.upd.
      destruct (c =? sev_ctx e') eqn:Ec.
      - assert (c = sev_ctx e') by lia. subst c. rewrite (Hinj id (lev_id e) _ Hn Hnu), eqb_refl. reflexivity.
      - destruct (eqb id (lev_id e)) eqn:Ei.
        + apply (proj1 (eqb_true_iff _ _)) in Ei. subst id. rewrite Hnu in Hn. inversion Hn. lia.
        + exact (HA id c x0 Hn Hx0). }
    simpl. rewrite Hw. cbn [andb].
    destruct (do_sev os now e') as [o1 s1] eqn:Ed. cbn [fst snd] in *. subst o1.
    unfold L.evs_app. simpl. exact (IH _ _ HI1 HA1 Hok).
Qed.

(** ** Part 3: joint histories *)

(** oracle messages do not touch the ghost flag of an existing context; a created context starts
    closed *)
Lemma op_open os now o : Inv os -> (forall evs, o <> OSvc evs) ->
  forall c x', get c (ctxs (exec_state os (now, o))) = Some x' ->
    (exists x0, get c (ctxs os) = Some x0 /\ x_open x' = x_open x0)
    \/ (c = next_ctx os /\ x_open x' = false).
Proof.
  intros HI Hno c x' Hg. unfold exec_state in Hg. destruct o; cbn [exec] in Hg.
  - unfold do_create in Hg. destruct (negb (create_basic a)); [left; eauto|].
    destruct (has (c_name a) (feeds os)); [left; eauto|]. destruct (negb (create_ctx_ok a)); [left; eauto|].
    cbn [snd] in Hg. unfold enqueue, set_feed in Hg. replace (PAUSED =? RUNNING) with false in Hg by reflexivity.
    cbn [ctxs] in Hg. destruct (Z.eq_dec c (next_ctx os)) as [->|Hne].
    + rewrite get_set_same in Hg. inversion Hg; subst x'. right. split; reflexivity.
    + rewrite get_set_other in Hg by exact Hne. left. eauto.
  - left. unfold do_start in Hg. destruct (sender <? 0); [eauto|].
    destruct (get name (feeds os)) as [f|]; [|eauto]. destruct (negb (sender =? f_creator f)); [eauto|].
    destruct (get (f_ctx f) (ctxs os)) as [x|] eqn:Hx; [|eauto]. destruct (x_state x =? RUNNING); [eauto|].
    destruct (negb (sender =? x_consumer x)); [eauto|]. destruct (negb (x_state x =? PAUSED)); [eauto|].
    cbn [snd] in Hg. rewrite start_state in Hg. unfold upd_state in Hg. cbn [ctxs] in Hg.
    destruct (Z.eq_dec c (f_ctx f)) as [->|Hne].
    + rewrite get_set_same in Hg. inversion Hg; subst x'. exists x. split; [exact Hx|reflexivity].
    + rewrite get_set_other in Hg by exact Hne. eauto.
  - left. unfold do_pause in Hg. destruct (sender <? 0); [eauto|].
    destruct (get name (feeds os)) as [f|]; [|eauto]. destruct (negb (sender =? f_creator f)); [eauto|].
    destruct (get (f_ctx f) (ctxs os)) as [x|] eqn:Hx; [|eauto]. destruct (negb (x_state x =? RUNNING)); [eauto|].
    destruct (negb (sender =? x_consumer x)); [eauto|].
    cbn [snd] in Hg. rewrite pause_state in Hg. unfold upd_state in Hg. cbn [ctxs] in Hg.
    destruct (Z.eq_dec c (f_ctx f)) as [->|Hne].
    + rewrite get_set_same in Hg. inversion Hg; subst x'. exists x. split; [exact Hx|reflexivity].
    + rewrite get_set_other in Hg by exact Hne. eauto.
  - left. destruct (do_edit_cases os a) as [[_ E]|(f & x & x0 & _ & _ & _ & Hx & Hu & _ & _ & _ & CE)].
    + rewrite E in Hg. eauto.
    + rewrite CE in Hg. destruct (update_ctx_frame x a x0 Hu) as (_ & _ & _ & _ & U5 & _).
      assert (Hc : ctxs (edit_result os a f x0) = set (f_ctx f) x0 (ctxs os)).
      { unfold edit_result. cbv zeta. destruct (0 <? e_lh a); reflexivity. }
      rewrite Hc in Hg. destruct (Z.eq_dec c (f_ctx f)) as [->|Hne].
      * rewrite get_set_same in Hg. inversion Hg; subst x'. exists x. split; [exact Hx|exact U5].
      * rewrite get_set_other in Hg by exact Hne. eauto.
  - left. eauto.
  - exfalso. eapply Hno. reflexivity.
  - left. eauto.
Qed.

(** one step of a joint history: either a step of the service module, with the oracle events the
    oracle received because of it, or a message of the oracle module itself (the keeper calls it
    makes into the service module - CreateRequestContext, Start/PauseRequestContext - are service
    steps [ModCreate], [ModStart], [ModPause] of their own, without events) *)
Inductive jstep :=
| JSvc (st : S.step) (now : Z) (evs' : list sev)
| JOp (now : Z) (o : op).

Definition oproj (j : jstep) : step :=
  match j with JSvc _ now evs' => (now, OSvc evs') | JOp now o => (now, o) end.

Definition japply (c : S.config) (ss : S.state) (j : jstep) : S.state :=
  match j with JSvc st _ _ => S.apply c ss st | JOp _ _ => ss end.

(** well-formedness of one joint step in the joint state:
    - the oracle events are the service step's events of the contexts named by [nu];
    - context ids are fresh in the service module (distinct transactions, distinct hashes);
    - an oracle message is not itself a batch of service events, and when it creates the context
      named [next_ctx], the service context carrying that name is not running a batch (it has just
      been created by the accompanying CreateRequestContext, or does not exist yet) *)
Definition jstep_wf (c : S.config) (nu : naming) (ss : S.state) (os : state) (j : jstep) : Prop :=
  match j with
  | JSvc st _ evs' => Irismod.Service.ProofsSched.fresh_ctx ss st /\ evs_match nu (L.step_events c ss st) evs'
  | JOp _ o => (forall evs, o <> OSvc evs)
               /\ (forall id, nu id = Some (next_ctx os) -> L.mbrun ss id = false)
  end.

Fixpoint jrun_wf (c : S.config) (nu : naming) (ss : S.state) (os : state) (jh : list jstep) : Prop :=
  match jh with
  | [] => True
  | j :: r => jstep_wf c nu ss os j /\ jrun_wf c nu (japply c ss j) (exec_state os (oproj j)) r
  end.

Lemma jstep_preserves c nu ss os j :
  injective nu -> Irismod.Service.ProofsBatch.SInv ss -> Inv os -> oagree nu (L.mbrun ss) os ->
  jstep_wf c nu ss os j ->
  step_wfb os (oproj j) = true
  /\ Irismod.Service.ProofsBatch.SInv (japply c ss j) /\ Inv (exec_state os (oproj j))
  /\ oagree nu (L.mbrun (japply c ss j)) (exec_state os (oproj j)).
Proof.
  intros Hinj HS HI HA Hwf. destruct j as [st now evs'|now o]; cbn [oproj japply jstep_wf] in *.
  - destruct Hwf as [Hfresh Hm].
    destruct (L.goodl_step c ss st Hfresh (proj2 HS) (L.mbrun ss) (fun i => eq_refl)) as [Hok Hag].
    destruct (transfer nu now Hinj _ _ Hm (L.mbrun ss) os HI HA Hok) as (Hw & HI' & HA').
    split; [exact Hw|]. split; [apply Irismod.Service.ProofsModuleHist.SInv_apply_m; assumption|].
    unfold exec_state. rewrite exec_svc by exact HI. cbn [snd]. split; [exact HI'|].
    intros id c0 x Hn Hg. rewrite (HA' id c0 x Hn Hg). apply Hag.
  - destruct Hwf as [Hno Hnew]. split; [unfold step_wfb; cbn [snd]; destruct o; try reflexivity; exfalso; eapply Hno; reflexivity|].
    split; [exact HS|]. split; [apply Inv_exec; exact HI|].
    intros id c0 x Hn Hg. destruct (op_open os now o HI Hno c0 x Hg) as [(x0 & Hx0 & E)|(E1 & E2)].
    + rewrite E. exact (HA id c0 x0 Hn Hx0).
    + subst c0. rewrite E2. symmetry. apply Hnew. exact Hn.
Qed.

Lemma jrun_preserves c nu : injective nu -> forall jh ss os,
  Irismod.Service.ProofsBatch.SInv ss -> Inv os -> oagree nu (L.mbrun ss) os -> jrun_wf c nu ss os jh ->
  run_wfb os (map oproj jh) = true.
Proof.
  intros Hinj jh. induction jh as [|j r IH]; intros ss os HS HI HA Hwf; [reflexivity|].
  destruct Hwf as [Hj Hr]. destruct (jstep_preserves c nu ss os j Hinj HS HI HA Hj) as (Hw & HS' & HI' & HA').
  cbn [map run_wfb]. rewrite Hw. cbn [andb]. exact (IH _ _ HS' HI' HA' Hr).
Qed.

(** [run_wfb], the hypothesis of the C17 theorems about values, holds of the oracle projection of
    every well-formed joint history of the service model and the oracle model, started from the
    two initial states: it is a consequence of the service model's invariant, no longer an
    assumption. *)
Theorem run_wfb_from_service_model :
  forall (c : S.config) (nu : naming) (h0 t0 : Z) (l0 : Irismod.Base.Bank.ledger) (jh : list jstep),
    injective nu -> jrun_wf c nu (S.init h0 t0 l0) init jh -> run_wfb init (map oproj jh) = true.
Proof.
  intros c nu h0 t0 l0 jh Hinj Hwf.
  apply (jrun_preserves c nu Hinj jh (S.init h0 t0 l0) init); try assumption.
  - apply Irismod.Service.ProofsBatch.SInv_init.
  - exact Inv_init.
  - intros id c0 x _ Hg. discriminate.
Qed.
