(** * Oracle <-> Service link: the hypothesis [run_wfb] of the C17 theorems, derived

    The oracle model (Oracle/Model.v) takes what the service module did to it as input events:
    [SNewBatch] (a batch was started), [SDone] (the response callback), [SAutoPause] (the state
    callback).  The C17 theorems about values assume [run_wfb]: a response callback arrives only
    while the context's batch is running.  Here that is PROVED of the service group's model
    (Service/Model.v) from its invariant [SInv] (Service/ProofsSched.v, ProofsBatch.v):

    part 1 (service side): the events of a service step are read off the service model's own ghost
      logs ([cblog]: every callback invocation; [g_batches]: every batch start); over every history
      in which context ids are fresh, every response callback of a module-owned context is preceded
      by a batch start of that context with no callback / pause in between ([events_wf_run]), and
      the "open" flag so tracked equals [x_mod && x_brun] of the stored context;
    part 2 (oracle side): oracle events that are the image of such service events under an
      injective naming of contexts satisfy [sevs_wfb], and the oracle's ghost [x_open] stays equal
      to the tracked flag;
    part 3: joint histories. *)
From Irismod Require Import Service.Model Service.Proofs Service.ProofsHist Service.ProofsSched Service.ProofsBatch
  Service.ProofsModuleHist.
From Coq Require Import ZifyBool.
Open Scope Z_scope.

(** ** Part 1: the service side *)

Inductive lev :=
| LNew (id : ctxid)                          (* InitiateRequests / SkipCurrentRequestBatch *)
| LDone (id : ctxid) (batch nouts errnil : Z) (* Callback -> response callback *)
| LPause (id : ctxid).                       (* OnRequestContextPaused -> state callback *)

Definition is_mod (s : state) (id : ctxid) : bool :=
  match get id (ctxs s) with Some x => x_mod x | None => false end.
(** the batch of a module-owned context is running *)
Definition mbrun (s : state) (id : ctxid) : bool :=
  match get id (ctxs s) with Some x => x_mod x && x_brun x | None => false end.

Definition cb_ev (e : cbev) : lev :=
  let '(k, id, b, n, err) := e in if k =? 0 then LDone id b n err else LPause id.
Definition gb_id (e : ctxid * Z * Z) : ctxid := fst (fst e).

(** what one atomic transition [s -> s'] of the service model emitted towards the owning modules:
    the new entries of the callback log, and the batch starts of module-owned contexts *)
Definition delta_events (s s' : state) : list lev :=
  map cb_ev (skipn (length (cblog s)) (cblog s'))
  ++ map (fun e => LNew (gb_id e)) (filter (fun e => is_mod s' (gb_id e)) (skipn (length (g_batches s)) (g_batches s'))).

(** the flag a module can track from the events alone *)
Definition upd (open : ctxid -> bool) (id : ctxid) (b : bool) : ctxid -> bool :=
  fun i => if eqb i id then b else open i.
Definition ev_ok (open : ctxid -> bool) (e : lev) : Prop :=
  match e with LDone id _ _ _ => open id = true | _ => True end.
Definition ev_app (open : ctxid -> bool) (e : lev) : ctxid -> bool :=
  match e with LNew id => upd open id true | LDone id _ _ _ => upd open id false | LPause id => upd open id false end.
Fixpoint evs_ok (open : ctxid -> bool) (evs : list lev) : Prop :=
  match evs with [] => True | e :: r => ev_ok open e /\ evs_ok (ev_app open e) r end.
Definition evs_app (open : ctxid -> bool) (evs : list lev) : ctxid -> bool := fold_left ev_app evs open.

Definition agree (open : ctxid -> bool) (s : state) : Prop := forall i, open i = mbrun s i.

(** a transition is good: its events are well-formed for the flag that agrees with the pre-state,
    and the updated flag agrees with the post-state *)
Definition good (s s' : state) : Prop :=
  forall open, agree open s ->
    evs_ok open (delta_events s s') /\ agree (evs_app open (delta_events s s')) s'.

Lemma evs_ok_app open a b : evs_ok open (a ++ b) <-> evs_ok open a /\ evs_ok (evs_app open a) b.
Proof.
  revert open. induction a as [|e a IH]; intros open; simpl; [tauto|]. rewrite IH. unfold evs_app. simpl. tauto.
Qed.
Lemma evs_app_app open a b : evs_app open (a ++ b) = evs_app (evs_app open a) b.
Proof. unfold evs_app. apply fold_left_app. Qed.

Lemma skipn_exact {A} (l d : list A) : skipn (length l) (l ++ d) = d.
Proof. induction l; simpl; auto. Qed.
Lemma skipn_self {A} (l : list A) : skipn (length l) l = [].
Proof. induction l; simpl; auto. Qed.

(** the four shapes of an atomic transition *)
Lemma good_silent s s' :
  cblog s' = cblog s -> g_batches s' = g_batches s -> (forall i, mbrun s' i = mbrun s i) -> good s s'.
Proof.
  intros C G M open A. unfold delta_events. rewrite C, G, !skipn_self. simpl. split; [exact I|].
  intros i. rewrite M. apply A.
Qed.

Lemma good_done s s' id b n e :
  cblog s' = cblog s ++ [(0, id, b, n, e)] -> g_batches s' = g_batches s ->
  mbrun s id = true -> (forall i, mbrun s' i = upd (mbrun s) id false i) -> good s s'.
Proof.
  intros C G Hb M open A. unfold delta_events. rewrite C, G, skipn_exact, skipn_self. simpl. split.
  - split; [rewrite A; exact Hb|exact I].
  - intros i. unfold evs_app. simpl. rewrite M. unfold upd. destruct (eqb i id); [reflexivity|apply A].
Qed.

Lemma good_pause s s' id b :
  cblog s' = cblog s ++ [(1, id, b, 0, 0)] -> g_batches s' = g_batches s ->
  (forall i, mbrun s' i = upd (mbrun s) id false i) -> good s s'.
Proof.
  intros C G M open A. unfold delta_events. rewrite C, G, skipn_exact, skipn_self. simpl. split; [tauto|].
  intros i. unfold evs_app. simpl. rewrite M. unfold upd. destruct (eqb i id); [reflexivity|apply A].
Qed.

Lemma good_new_mod s s' id b h :
  cblog s' = cblog s -> g_batches s' = g_batches s ++ [(id, b, h)] -> is_mod s' id = true ->
  (forall i, mbrun s' i = upd (mbrun s) id true i) -> good s s'.
Proof.
  intros C G Em M open A. unfold delta_events. rewrite C, G, skipn_exact, skipn_self. simpl.
  unfold gb_id. simpl. rewrite Em. simpl. split; [tauto|].
  intros i. unfold evs_app. simpl. rewrite M. unfold upd. destruct (eqb i id); [reflexivity|apply A].
Qed.

Lemma good_new_nonmod s s' id b h :
  cblog s' = cblog s -> g_batches s' = g_batches s ++ [(id, b, h)] -> is_mod s' id = false ->
  (forall i, mbrun s' i = mbrun s i) -> good s s'.
Proof.
  intros C G Em M open A. unfold delta_events. rewrite C, G, skipn_exact, skipn_self. simpl.
  unfold gb_id. simpl. rewrite Em. simpl. split; [exact I|]. intros i. rewrite M. apply A.
Qed.

Lemma mbrun_set s s' id x' i :
  ctxs s' = set id x' (ctxs s) -> mbrun s' i = if eqb i id then x_mod x' && x_brun x' else mbrun s i.
Proof.
  intros C. unfold mbrun. rewrite C. destruct (eqb i id) eqn:E.
  - apply (proj1 (eqb_true_iff _ _)) in E. subst. rewrite get_set_same. reflexivity.
  - apply (proj1 (eqb_false_iff _ _)) in E. rewrite get_set_other by exact E. reflexivity.
Qed.

Lemma mbrun_del_set s s' id x' i :
  ctxs s' = del id (set id x' (ctxs s)) -> mbrun s' i = if eqb i id then false else mbrun s i.
Proof.
  intros C. unfold mbrun. rewrite C. destruct (eqb i id) eqn:E.
  - apply (proj1 (eqb_true_iff _ _)) in E. subst. rewrite get_del_same. reflexivity.
  - apply (proj1 (eqb_false_iff _ _)) in E. rewrite get_del_other, get_set_other by exact E. reflexivity.
Qed.

(** a context rewritten (or created) without a change of "module-owned and running" *)
Lemma good_ctx_set s s' id x' :
  cblog s' = cblog s -> g_batches s' = g_batches s -> ctxs s' = set id x' (ctxs s) ->
  x_mod x' && x_brun x' = mbrun s id -> good s s'.
Proof.
  intros C G X E. apply good_silent; [exact C|exact G|]. intros i. rewrite (mbrun_set s s' id x' i X).
  destruct (eqb i id) eqn:Ei; [|reflexivity]. apply (proj1 (eqb_true_iff _ _)) in Ei. subst. exact E.
Qed.

Definition l_same (s s' : state) : Prop := ctxs s' = ctxs s /\ cblog s' = cblog s /\ g_batches s' = g_batches s.
Lemma good_same s s' : l_same s s' -> good s s'.
Proof.
  intros (X & C & G). apply good_silent; [exact C|exact G|]. intros i. unfold mbrun. rewrite X. reflexivity.
Qed.
Lemma good_refl s : good s s.
Proof. apply good_same. repeat split. Qed.

Ltac l_frame H := repeat dmn H; inversion H; subst; clear H; repeat split; reflexivity.

(** *** creation, pause, start, kill, update *)
Lemma good_create c s txh svc provs cons inok capd capa timeout rep freq total st thr md s' id :
  create_context c s txh svc provs cons inok capd capa timeout rep freq total st thr md = Some (s', id) ->
  ctx_at s (txh, iidx s) = None -> good s s'.
Proof.
  unfold create_context, ctx_at. intros H Hf.
  repeat dmn H; inversion H; subst s' id; clear H.
  all: eapply (good_ctx_set _ _ (txh, iidx s)); [reflexivity|reflexivity|reflexivity|];
       unfold mbrun; rewrite Hf; simpl; apply andb_false_r.
Qed.

Lemma good_pause_ctx s id cons s' : k_pause s id cons = Okk s' -> good s s'.
Proof.
  unfold k_pause. intros H. destruct (get id (ctxs s)) as [x|] eqn:Eg; [|discriminate].
  repeat dmn H. inversion H; subst.
  eapply (good_ctx_set _ _ id); [reflexivity|reflexivity|reflexivity|]. unfold mbrun. rewrite Eg. reflexivity.
Qed.
Lemma good_kill_ctx s id cons s' : k_kill s id cons = Okk s' -> good s s'.
Proof.
  unfold k_kill. intros H. destruct (get id (ctxs s)) as [x|] eqn:Eg; [|discriminate].
  repeat dmn H. inversion H; subst.
  eapply (good_ctx_set _ _ id); [reflexivity|reflexivity|reflexivity|]. unfold mbrun. rewrite Eg. reflexivity.
Qed.
Lemma good_start_ctx s id cons s' : k_start s id cons = Okk s' -> good s s'.
Proof.
  unfold k_start. intros H. destruct (get id (ctxs s)) as [x|] eqn:Eg; [|discriminate].
  repeat dmn H; inversion H; subst; clear H;
    (eapply (good_ctx_set _ _ id); [reflexivity|reflexivity|reflexivity|]; unfold mbrun; rewrite Eg; reflexivity).
Qed.
Lemma good_update_context c s id provs capd capa timeout freq total cons s' :
  update_context c s id provs capd capa timeout freq total cons = Okk s' -> good s s'.
Proof.
  unfold update_context. intros H.
  match type of H with (if negb ?g then _ else _) = _ => destruct g; [|discriminate] end.
  cbv beta iota zeta delta [negb] in H.
  destruct (check_authority s cons id true); [|discriminate]. cbv beta iota zeta delta [negb] in H.
  destruct (get id (ctxs s)) as [x|] eqn:Eg; [|discriminate].
  repeat dmn H; inversion H; subst; clear H;
    (eapply (good_ctx_set _ _ id); [reflexivity|reflexivity|reflexivity|]; unfold mbrun; rewrite Eg;
     repeat match goal with |- context [match ?g with _ => _ end] => destruct g end; reflexivity).
Qed.

(** *** a response *)
Lemma add_earned_fee_lsame c s prov fd fee s1 : add_earned_fee c s prov fd fee = Some s1 -> l_same s s1.
Proof. unfold add_earned_fee. intros H. l_frame H. Qed.

Lemma good_respond c s rid prov kind s' : respond c s rid prov kind = Okk s' -> BatchInv s -> good s s'.
Proof.
  intros H Hinv. unfold respond in H. destruct rid as [[[id batch] hh] ii].
  destruct ((0 <=? prov) && negb (kind =? 2)); cbv beta iota zeta delta [negb] in H; [|discriminate].
  match type of H with context [@get reqid request ?i ?k (reqs s)] =>
    destruct (@get reqid request i k (reqs s)) as [q|] eqn:Eq end; [|discriminate].
  destruct (get id (ctxs s)) as [x|] eqn:Ex; [|discriminate].
  destruct (q_prov q =? prov); cbv beta iota zeta delta [negb] in H; [|discriminate].
  destruct (q_active q) eqn:Ea; cbv beta iota zeta delta [negb] in H; [|discriminate].
  destruct (add_earned_fee c s prov (q_fd q) (q_fee q)) as [s1|] eqn:Ef; [|discriminate].
  destruct (add_earned_fee_lsame _ _ _ _ _ _ Ef) as (R1 & R2 & R3).
  (* the request is active: its context's batch is running *)
  destruct (b_act _ Hinv _ q Eq Ea) as (x0 & Hx0 & Hrun & _). simpl in Hx0. rewrite Ex in Hx0. inversion Hx0; subst x0.
  destruct (x_bresp (cx_bresp x (x_bresp x + 1)) =? x_breq (cx_bresp x (x_bresp x + 1))) eqn:Eb;
    [destruct (x_mod (cx_bresp x (x_bresp x + 1))) eqn:Em|]; inversion H; subst s'; clear H.
  - simpl in Em. eapply (good_done _ _ id (x_batch x)).
    + unfold callback. simpl. rewrite R1, Ex. simpl. rewrite R2. reflexivity.
    + unfold callback. simpl. rewrite R1, Ex. simpl. exact R3.
    + unfold mbrun. rewrite Ex, Em, Hrun. reflexivity.
    + intros i. erewrite mbrun_set; [|unfold callback; simpl; rewrite R1, Ex; simpl; rewrite R1; reflexivity].
      unfold upd. destruct (eqb i id); [simpl; apply andb_false_r|reflexivity].
  - simpl in Em. eapply (good_ctx_set _ _ id); simpl; [exact R2|exact R3|rewrite R1; reflexivity|].
    unfold mbrun. rewrite Ex. simpl. rewrite Em. reflexivity.
  - eapply (good_ctx_set _ _ id); simpl; [exact R2|exact R3|rewrite R1; reflexivity|].
    unfold mbrun. rewrite Ex. reflexivity.
Qed.

(** *** the expired-batch handler *)
Lemma slash_lsame c s svc prov : l_same s (slash c s svc prov).
Proof. unfold slash. repeat match goal with |- context [match ?g with _ => _ end] => destruct g end; repeat split. Qed.
Lemma l_same_trans s1 s2 s3 : l_same s1 s2 -> l_same s2 s3 -> l_same s1 s3.
Proof. intros (A & B & C) (D & E & F). repeat split; congruence. Qed.
Lemma expire_lsame c x s e : l_same s (expire_request c x s e).
Proof.
  destruct e as [rid q]. unfold expire_request. eapply l_same_trans; [apply (slash_lsame c s (x_svc x) (q_prov q))|].
  destruct (send _ _ _ _ _); repeat split.
Qed.
Lemma expire_fold_lsame c x : forall act s, l_same s (fold_left (expire_request c x) act s).
Proof.
  induction act as [|e act IH]; intros s; simpl; [repeat split|].
  eapply l_same_trans; [apply expire_lsame|apply IH].
Qed.

Lemma good_expired c s id : good s (expired_batch_handler c s id).
Proof.
  unfold expired_batch_handler. destruct (get id (ctxs s)) as [x|] eqn:Eg; [|apply good_refl].
  set (pr := if x_brun x then _ else (s, x)).
  assert (Hpr : ctxs (fst pr) = ctxs s /\ g_batches (fst pr) = g_batches s
                /\ x_mod (snd pr) = x_mod x /\ x_brun (snd pr) = false
                /\ ((x_mod x && x_brun x = true /\ cblog (fst pr) = cblog s ++ [(0, id, x_batch x, n_outputs (fst pr) id (x_batch x),
                                                                          if x_bthr x <=? n_outputs (fst pr) id (x_batch x) then 1 else 0)])
                    \/ (x_mod x && x_brun x = false /\ cblog (fst pr) = cblog s))).
  { subst pr. destruct (x_brun x) eqn:Eb.
    - set (act := filter _ (reqs s)). destruct (expire_fold_lsame c x act s) as (F1 & F2 & F3).
      destruct (x_mod x) eqn:Em; cbn [fst snd].
      + unfold callback. rewrite F1, Eg. simpl. rewrite F1, F2, F3.
        split; [reflexivity|]. split; [reflexivity|]. split; [exact Em|]. split; [reflexivity|].
        left. split; reflexivity.
      + rewrite F1, F2, F3. split; [reflexivity|]. split; [reflexivity|]. split; [exact Em|]. split; [reflexivity|].
        right. split; reflexivity.
    - cbn [fst snd]. split; [reflexivity|]. split; [reflexivity|]. split; [reflexivity|]. split; [exact Eb|].
      right. split; [apply andb_false_r|reflexivity]. }
  destruct pr as [s1 x1]. cbn [fst snd] in Hpr. destruct Hpr as (C1 & G1 & M1 & B1 & Hcb). cbv zeta.
  match goal with |- good s (with_reqs ?t (filter ?f (reqs ?t))) =>
    assert (Ht : cblog t = cblog s1 /\ g_batches t = g_batches s1
                 /\ (ctxs t = set id x1 (ctxs s) \/ ctxs t = del id (set id x1 (ctxs s)))) end.
  { destruct (Z.eqb_spec (x_state x1) 2) as [S2|S2]; destruct (Z.eqb_spec (x_state x1) 0) as [S0|S0]; [lia| | |];
      try destruct (x_rep x1 && _); simpl; rewrite ?C1; repeat split; auto. }
  destruct Ht as (Ct & Gt & Xt).
  match goal with |- good s (with_reqs ?t ?r) => set (tt := t) in *; set (rr := r) end.
  assert (Hm : forall i, mbrun (with_reqs tt rr) i = upd (mbrun s) id false i).
  { intros i. unfold upd. destruct Xt as [Xt|Xt].
    - rewrite (mbrun_set s _ id x1 i) by exact Xt. destruct (eqb i id); [rewrite B1; apply andb_false_r|reflexivity].
    - rewrite (mbrun_del_set s _ id x1 i) by exact Xt. reflexivity. }
  destruct Hcb as [(Hon & Hc)|(Hoff & Hc)].
  - eapply (good_done _ _ id); [simpl; rewrite Ct; exact Hc|simpl; rewrite Gt; exact G1| |exact Hm].
    unfold mbrun. rewrite Eg. exact Hon.
  - apply good_silent; [simpl; rewrite Ct; exact Hc|simpl; rewrite Gt; exact G1|].
    intros i. rewrite Hm. unfold upd. destruct (eqb i id) eqn:Ei; [|reflexivity].
    apply (proj1 (eqb_true_iff _ _)) in Ei. subst. unfold mbrun. rewrite Eg. symmetry. exact Hoff.
Qed.

(** *** the new-batch handler *)
Lemma good_new_handler s id : good s (new_batch_handler s id).
Proof.
  unfold new_batch_handler. destruct (get id (ctxs s)) as [x|] eqn:Eg; [|apply good_refl].
  assert (SK : good s (dequeue_new (skip_batch s id x) id)).
  { destruct (x_mod x) eqn:Em.
    - eapply (good_new_mod _ _ id); [reflexivity|reflexivity| |].
      + unfold is_mod. simpl. rewrite get_set_same. simpl. exact Em.
      + intros i. erewrite mbrun_set; [|simpl; reflexivity]. unfold upd. destruct (eqb i id); [simpl; rewrite Em; reflexivity|reflexivity].
    - eapply (good_new_nonmod _ _ id); [reflexivity|reflexivity| |].
      + unfold is_mod. simpl. rewrite get_set_same. simpl. exact Em.
      + intros i. erewrite mbrun_set; [|simpl; reflexivity]. destruct (eqb i id) eqn:Ei; [|reflexivity].
        apply (proj1 (eqb_true_iff _ _)) in Ei. subst. simpl. unfold mbrun. rewrite Eg, Em. reflexivity. }
  destruct (x_state x =? 0); [|apply good_same; repeat split].
  destruct (filter_provs s x (x_provs x)) as [ps|]; [|exact SK].
  cbv zeta. destruct ((0 <? Z.of_nat (length ps)) && (x_thr x <=? Z.of_nat (length ps))); [|exact SK].
  destruct (debit_all (led s) (x_cons x) (total_fees s x ps)) as [l|].
  - destruct (x_mod x) eqn:Em.
    + eapply (good_new_mod _ _ id); [reflexivity|reflexivity| |].
      * unfold is_mod. simpl. rewrite get_set_same. simpl. exact Em.
      * intros i. erewrite mbrun_set; [|simpl; reflexivity]. unfold upd. destruct (eqb i id); [simpl; rewrite Em; reflexivity|reflexivity].
    + eapply (good_new_nonmod _ _ id); [reflexivity|reflexivity| |].
      * unfold is_mod. simpl. rewrite get_set_same. simpl. exact Em.
      * intros i. erewrite mbrun_set; [|simpl; reflexivity]. destruct (eqb i id) eqn:Ei; [|reflexivity].
        apply (proj1 (eqb_true_iff _ _)) in Ei. subst. simpl. unfold mbrun. rewrite Eg, Em. reflexivity.
  - unfold on_paused. destruct (x_mod x) eqn:Em.
    + eapply (good_pause _ _ id (x_batch x)); [reflexivity|reflexivity|].
      intros i. erewrite mbrun_set; [|simpl; reflexivity]. unfold upd. destruct (eqb i id); [simpl; apply andb_false_r|reflexivity].
    + eapply (good_ctx_set _ _ id); [reflexivity|reflexivity|reflexivity|]. simpl. unfold mbrun. rewrite Eg, Em. reflexivity.
Qed.

(** *** composition: end of block, steps, histories *)
Definition goodl (s s' : state) (evs : list lev) : Prop :=
  forall open, agree open s -> evs_ok open evs /\ agree (evs_app open evs) s'.

Lemma goodl_of_good s s' : good s s' -> goodl s s' (delta_events s s').
Proof. intros H. exact H. Qed.

Lemma goodl_trans s1 s2 s3 e1 e2 : goodl s1 s2 e1 -> goodl s2 s3 e2 -> goodl s1 s3 (e1 ++ e2).
Proof.
  intros H1 H2 open A. destruct (H1 open A) as [O1 A1]. destruct (H2 _ A1) as [O2 A2].
  split; [apply evs_ok_app; split; assumption|rewrite evs_app_app; exact A2].
Qed.

Lemma goodl_nil_same s s' : l_same s s' -> goodl s s' [].
Proof.
  intros (X & _ & _) open A. split; [exact I|]. intros i. unfold evs_app. simpl. rewrite A. unfold mbrun. rewrite X. reflexivity.
Qed.

(** the events of a fold of handler calls, in the order of the calls *)
Fixpoint fold_events (f : state -> ctxid -> state) (ids : list ctxid) (s : state) : list lev :=
  match ids with
  | [] => []
  | id :: r => delta_events s (f s id) ++ fold_events f r (f s id)
  end.

Lemma goodl_fold f : (forall s id, good s (f s id)) ->
  forall ids s, goodl s (fold_left f ids s) (fold_events f ids s).
Proof.
  intros Hf ids. induction ids as [|id r IH]; intros s; simpl.
  - apply goodl_nil_same. repeat split.
  - eapply goodl_trans; [apply goodl_of_good; apply Hf|apply IH].
Qed.

Definition end_block_events (c : config) (s : state) : list lev :=
  let ids1 := due (height s) (expq s) in
  let s1 := fold_left (expired_batch_handler c) ids1 s in
  fold_events (expired_batch_handler c) ids1 s ++ fold_events new_batch_handler (due (height s1) (newq s1)) s1.

Lemma goodl_end_block c s dt : goodl s (end_block c s dt) (end_block_events c s).
Proof.
  unfold end_block, end_block_events. cbv zeta.
  set (s1 := fold_left (expired_batch_handler c) _ s).
  set (s2 := fold_left new_batch_handler _ s1).
  rewrite <- (app_nil_r (_ ++ _)). eapply goodl_trans; [|apply (goodl_nil_same s2); repeat split].
  eapply goodl_trans; [apply goodl_fold; intros; apply good_expired|apply goodl_fold; intros; apply good_new_handler].
Qed.

(** the events of one step of the service model *)
Definition step_events (c : config) (s : state) (st : step) : list lev :=
  match st with
  | EndBlock dt => if 0 <=? dt then end_block_events c s else []
  | _ => delta_events s (apply c s st)
  end.

Lemma good_exec_msg_plain c s txh m s' : exec_msg_plain c s txh m = Okk s' -> fresh_ctx s (Tx txh m) -> BatchInv s -> good s s'.
Proof.
  intros H Hf Hinv. destruct m; simpl in H.
  - unfold define in H. apply good_same. l_frame H.
  - unfold bind in H. apply good_same. l_frame H.
  - unfold update_binding in H. apply good_same. l_frame H.
  - unfold set_withdraw in H. apply good_same. l_frame H.
  - unfold enable in H. apply good_same. l_frame H.
  - unfold disable in H. apply good_same. l_frame H.
  - unfold refund_deposit in H. apply good_same. l_frame H.
  - unfold call in H. destruct (negb _); [discriminate|].
    destruct (create_context _ _ _ _ _ _ _ _ _ _ _ _ _ _ _ _) as [[s1 id]|] eqn:E; [|discriminate].
    inversion H; subst. eapply good_create; [exact E|exact Hf].
  - eapply good_respond; eassumption.
  - unfold msg_ctl in H. repeat dmn H. eapply good_pause_ctx; eassumption.
  - unfold msg_ctl in H. repeat dmn H. eapply good_start_ctx; eassumption.
  - unfold msg_ctl in H. repeat dmn H. eapply good_kill_ctx; eassumption.
  - eapply good_update_context; eassumption.
  - unfold withdraw in H. apply good_same. l_frame H.
Qed.

(** a call to a module-served service: a context that is NOT module-owned is created, served at
    once and stored completed; nothing is reported to a callback (Service.ProofsModuleHist.call_module_shape) *)
Lemma create_lshape c s txh svc provs cons inok capd capa timeout rep freq total st thr md s' id :
  create_context c s txh svc provs cons inok capd capa timeout rep freq total st thr md = Some (s', id) ->
  id = (txh, iidx s) /\ cblog s' = cblog s /\ g_batches s' = g_batches s
  /\ exists x, ctxs s' = set id x (ctxs s).
Proof.
  unfold create_context. intros H. repeat dmn H; inversion H; subst s' id; clear H;
    (split; [reflexivity|split; [reflexivity|split; [reflexivity|eexists; reflexivity]]]).
Qed.

Lemma good_call_module c s txh svc provs cons inok capd capa timeout rep freq total s' :
  call_module c s txh svc provs cons inok capd capa timeout rep freq total = Okk s' ->
  ctx_at s (txh, iidx s) = None -> good s s'.
Proof.
  intros H Hf.
  destruct (call_module_shape _ _ _ _ _ _ _ _ _ _ _ _ _ _ H)
    as (s1 & id & x & q' & E1 & Hid & Ex & _ & _ & Xm & _ & C & _ & _ & _ & _ & _ & _ & _ & _ & _ & G & L & _).
  destruct (create_lshape _ _ _ _ _ _ _ _ _ _ _ _ _ _ _ _ _ _ E1) as (_ & L1 & G1 & x0 & C1).
  apply good_silent; [congruence|congruence|].
  intros i. rewrite (mbrun_set s1 s' id (cx_state x 2) i C), (mbrun_set s s1 id x0 i C1).
  destruct (eqb i id) eqn:Ei; [|reflexivity].
  apply (proj1 (eqb_true_iff _ _)) in Ei. subst i. simpl. rewrite Xm. simpl.
  unfold mbrun. unfold ctx_at in Hf. rewrite Hid, Hf. reflexivity.
Qed.

Lemma good_exec_msg c s txh m s' : exec_msg c s txh m = Okk s' -> fresh_ctx s (Tx txh m) -> BatchInv s -> good s s'.
Proof.
  intros H Hf Hinv. destruct m; cbn [exec_msg] in H; try (eapply good_exec_msg_plain; eassumption).
  - revert H. destruct (module_served c svc); intros H; [discriminate|].
    eapply (good_exec_msg_plain c s txh (MBind svc prov depd depa pr qos optok owner)); eassumption.
  - revert H. destruct (module_served c svc); intros H.
    + eapply good_call_module; [exact H|exact Hf].
    + eapply (good_exec_msg_plain c s txh (MCall svc provs cons inok capd capa timeout rep freq total)); eassumption.
Qed.

Lemma goodl_step c s st : fresh_ctx s st -> BatchInv s -> goodl s (apply c s st) (step_events c s st).
Proof.
  intros Hf Hinv. unfold step_events, apply. destruct st; simpl exec_step.
  - destruct (exec_msg c s txh m) as [s'| |] eqn:E; try apply goodl_of_good; try apply good_refl.
    eapply good_exec_msg; eassumption.
  - destruct (0 <=? dt); [apply goodl_end_block|apply goodl_nil_same; repeat split].
  - apply goodl_of_good. apply good_same. repeat split.
  - apply goodl_of_good. destruct ((0 <=? from) && (0 <=? to)); [|apply good_refl].
    destruct (send _ _ _ _ _); [apply good_same; repeat split|apply good_refl].
  - apply goodl_of_good.
    destruct (create_context _ _ _ _ _ _ _ _ _ _ _ _ _ _ _ _) as [[s1 id]|] eqn:E1; [|apply good_refl].
    eapply good_create; [exact E1|exact Hf].
  - apply goodl_of_good. destruct (k_pause s id cons) eqn:E; try apply good_refl. eapply good_pause_ctx; exact E.
  - apply goodl_of_good. destruct (k_start s id cons) eqn:E; try apply good_refl. eapply good_start_ctx; exact E.
  - apply goodl_of_good. destruct (k_kill s id cons) eqn:E; try apply good_refl. eapply good_kill_ctx; exact E.
  - apply goodl_of_good. destruct (bind c s svc prov depd depa pr qos true owner) as [s'| |] eqn:E; try apply good_refl.
    unfold bind in E. apply good_same. l_frame E.
Qed.

Fixpoint run_events (c : config) (s : state) (steps : list step) : list lev :=
  match steps with
  | [] => []
  | st :: r => step_events c s st ++ run_events c (apply c s st) r
  end.

Lemma goodl_run c : forall steps s, fresh_history c s steps -> SInv s -> goodl s (run c s steps) (run_events c s steps).
Proof.
  induction steps as [|st r IH]; intros s Hf Hinv; simpl.
  - apply goodl_nil_same. repeat split.
  - destruct Hf as (F1 & F2). eapply goodl_trans; [apply goodl_step; [exact F1|exact (proj2 Hinv)]|].
    apply IH; [exact F2|apply SInv_apply_m; assumption].
Qed.

(** Over every history of the service model with fresh context ids: every response callback of a
    module-owned context finds the tracked flag open - a batch of that context was started and
    neither completed nor auto-paused since - and the flag always equals "module-owned and batch
    running" of the stored context. *)
Theorem service_events_wf c steps h0 t0 l0 :
  fresh_history c (init h0 t0 l0) steps ->
  let evs := run_events c (init h0 t0 l0) steps in
  evs_ok (fun _ => false) evs /\ agree (evs_app (fun _ => false) evs) (run c (init h0 t0 l0) steps).
Proof.
  intros Hf evs. apply (goodl_run c steps _ Hf (SInv_init h0 t0 l0)). intros i. reflexivity.
Qed.
