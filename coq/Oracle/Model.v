(** * Oracle module: executable model
    (modules/oracle/keeper/{keeper,feed,msg_server}.go, types/{aggregate,validation,msgs}.go)

    A feed owns one repeated request context of the service module.  The service module is
    abstracted to the sequence of things it really does to the oracle: it starts batches
    (batch counter + 1, threshold snapshot), it completes batches (the response callback
    [HandlerResponse] with the outputs of the valid responses) and it pauses a context whose
    consumer ran out of funds (the state callback [HandlerStateChanged]).  These arrive as
    [sev] events, recorded by the harness from the real service module.

    Numbers.  A response value is the decimal literal that was submitted, [m * 10^e]; the
    aggregate is computed on exact rationals and rounded to 8 decimals, half to even (this is
    what [strconv.FormatFloat(x,'f',8,64)] does on the exact binary value of [x]; the float64
    arithmetic in between is compared through a guard band, see Check.v). *)
From Irismod Require Export Base.Prelude.

(** ** Exact decimal / rational arithmetic *)
Definition dec := (Z * Z)%type.           (* mantissa, decimal exponent:  m * 10^e *)
Definition q := (Z * Z)%type.             (* numerator, denominator > 0 *)

Definition q_of_dec (d : dec) : q :=
  let '(m, e) := d in if 0 <=? e then (m * 10 ^ e, 1) else (m, 10 ^ (- e)).

Definition qlt (a b : q) : bool := fst a * snd b <? fst b * snd a.
Definition qadd (a b : q) : q := (fst a * snd b + fst b * snd a, snd a * snd b).
Definition qzero : q := (0, 1).

Fixpoint qsum (l : list q) : q :=
  match l with [] => qzero | x :: l' => qadd x (qsum l') end.

(** round to 8 decimals, half to even: the integer [r] with [r / 10^8] nearest to [a] *)
Definition scale8 : Z := 100000000.
Definition round8 (a : q) : Z :=
  let n := fst a * scale8 in
  let d := snd a in
  let fl := n / d in
  let r2 := 2 * (n mod d) in
  if r2 <? d then fl
  else if d <? r2 then fl + 1
  else if Z.even fl then fl else fl + 1.

(** types/aggregate.go Max: fold with [if maxNumber < f then maxNumber = f], started from
    -MaxFloat64 (since the commit "fix: oracle Max aggregate starts from -MaxFloat64"; before it
    the seed was SmallestNonzeroFloat64, a positive number, see [smallest_nonzero] in Proofs.v);
    Min: fold with [if minNum > f], started from MaxFloat64. *)
Fixpoint qmax_from (acc : q) (l : list q) : q :=
  match l with [] => acc | x :: l' => qmax_from (if qlt acc x then x else acc) l' end.
Fixpoint qmin_from (acc : q) (l : list q) : q :=
  match l with [] => acc | x :: l' => qmin_from (if qlt x acc then x else acc) l' end.

(** math.MaxFloat64 = 2^1024 - 2^971 *)
Definition max_float : q := (2 ^ 1024 - 2 ^ 971, 1).

Definition AGG_MAX : Z := 0.
Definition AGG_MIN : Z := 1.
Definition AGG_AVG : Z := 2.

Definition agg_max (l : list q) : q := qmax_from (- fst max_float, 1) l.
Definition agg_min (l : list q) : q := qmin_from max_float l.
Definition agg_avg (l : list q) : q :=
  let s := qsum l in (fst s, snd s * Z.of_nat (length l)).

(** the stored string, as an integer scaled by 10^8 *)
Definition aggregate (f : Z) (l : list q) : Z :=
  if f =? AGG_MAX then round8 (agg_max l)
  else if f =? AGG_MIN then round8 (agg_min l)
  else round8 (agg_avg l).

(** ** Response outputs: the body is a flat object; a field holds a number (given as number,
    numeric string or [true]) or something gjson's [Float()] maps to 0 (missing, null, text) *)
Definition output := list (Z * option dec).          (* field name (interned) -> value *)

Definition extract (path : Z) (o : output) : q :=
  match get path o with
  | Some (Some d) => q_of_dec d
  | _ => qzero
  end.

(** ** State *)
Definition RUNNING : Z := 0.
Definition PAUSED : Z := 1.
Definition COMPLETED : Z := 2.

Record feed := mkFeed { f_agg : Z; f_path : Z; f_lh : Z; f_ctx : Z; f_creator : Z }.

(** the part of a service request context the oracle reads or causes to change *)
Record sctx := mkCtx {
  x_consumer : Z; x_state : Z; x_thr : Z; x_nprov : Z; x_timeout : Z; x_freq : Z;
  x_bc : Z;      (* batch counter *)
  x_bthr : Z;    (* response threshold snapshot of the current batch *)
  x_open : bool  (* batch state = BATCH_RUNNING: the current batch has not been completed yet *)
}.

Definition ctx_with_state (x : sctx) (st : Z) : sctx :=
  mkCtx (x_consumer x) st (x_thr x) (x_nprov x) (x_timeout x) (x_freq x) (x_bc x) (x_bthr x) (x_open x).
Definition ctx_with_open (x : sctx) (b : bool) : sctx :=
  mkCtx (x_consumer x) (x_state x) (x_thr x) (x_nprov x) (x_timeout x) (x_freq x) (x_bc x) (x_bthr x) b.

Definition fval := (Z * Z)%type.                       (* data * 10^8, block time *)

Record state := mkState {
  feeds : amap Z feed;                     (* feed name -> feed            (prefix 0x01) *)
  byctx : amap Z Z;                        (* request context id -> name   (prefix 0x02) *)
  vals : amap Z (list (Z * fval));         (* name -> (batch counter, value), ascending keys (prefix 0x03) *)
  idx_run : list Z;                        (* names marked RUNNING          (prefix 0x04) *)
  idx_pau : list Z;                        (* names marked PAUSED           (prefix 0x05) *)
  ctxs : amap Z sctx;                      (* service module: request contexts *)
  next_ctx : Z
}.

Definition init : state := mkState [] [] [] [] [] [] 0.

(** sets of names *)
Definition smem (x : Z) (l : list Z) : bool := existsb (Z.eqb x) l.
Definition srem (x : Z) (l : list Z) : list Z := filter (fun y => negb (y =? x)) l.
Definition sadd (x : Z) (l : list Z) : list Z := if smem x l then l else x :: l.

(** ordered store of one feed's values: key = big-endian batch counter *)
Fixpoint vins (bc : Z) (v : fval) (l : list (Z * fval)) : list (Z * fval) :=
  match l with
  | [] => [(bc, v)]
  | (k, w) :: l' =>
      if bc <? k then (bc, v) :: l
      else if bc =? k then (bc, v) :: l'
      else (k, w) :: vins bc v l'
  end.

Definition feed_vals (s : state) (name : Z) : list (Z * fval) :=
  match get name (vals s) with Some l => l | None => [] end.

(** keeper.GetFeedValues: reverse iteration = newest first *)
Definition query_values (s : state) (name : Z) : list fval := map snd (rev (feed_vals s name)).

(** feed.go deleteOldestFeedValue: delete the first [delta] keys in ascending order *)
Definition delete_oldest (delta : Z) (l : list (Z * fval)) : list (Z * fval) :=
  if delta <=? 0 then l else skipn (Z.to_nat delta) l.

(** feed.go SetFeedValue *)
Definition set_feed_value (l : list (Z * fval)) (bc lh : Z) (v : fval) : list (Z * fval) :=
  let counter := Z.of_nat (length l) in
  let delta := counter - lh in
  vins bc v (delete_oldest (delta + 1) l).

(** feed.go Enqueue / dequeueAndEnqueue; GetFeedStatePrefixKey: RUNNING -> 0x04, any other -> 0x05 *)
Definition enqueue (s : state) (name st : Z) : state :=
  if st =? RUNNING
  then mkState (feeds s) (byctx s) (vals s) (sadd name (idx_run s)) (idx_pau s) (ctxs s) (next_ctx s)
  else mkState (feeds s) (byctx s) (vals s) (idx_run s) (sadd name (idx_pau s)) (ctxs s) (next_ctx s).
Definition dequeue (s : state) (name st : Z) : state :=
  if st =? RUNNING
  then mkState (feeds s) (byctx s) (vals s) (srem name (idx_run s)) (idx_pau s) (ctxs s) (next_ctx s)
  else mkState (feeds s) (byctx s) (vals s) (idx_run s) (srem name (idx_pau s)) (ctxs s) (next_ctx s).
Definition dequeue_enqueue (s : state) (name from to : Z) : state := enqueue (dequeue s name from) name to.

Definition set_ctx (s : state) (c : Z) (x : sctx) : state :=
  mkState (feeds s) (byctx s) (vals s) (idx_run s) (idx_pau s) (set c x (ctxs s)) (next_ctx s).
Definition set_vals (s : state) (name : Z) (l : list (Z * fval)) : state :=
  mkState (feeds s) (byctx s) (set name l (vals s)) (idx_run s) (idx_pau s) (ctxs s) (next_ctx s).
(** feed.go SetFeed: the feed and the reverse index *)
Definition set_feed (s : state) (name : Z) (f : feed) : state :=
  mkState (set name f (feeds s)) (set (f_ctx f) name (byctx s)) (vals s) (idx_run s) (idx_pau s) (ctxs s) (next_ctx s).

(** feed.go GetFeedByReqCtxID *)
Definition feed_by_ctx (s : state) (c : Z) : option (Z * feed) :=
  match get c (byctx s) with
  | Some name => match get name (feeds s) with Some f => Some (name, f) | None => None end
  | None => None
  end.

(** ** Operations *)
Definition MaxLatestHistory : Z := 100.
Definition MaxRequestTimeout : Z := 100.              (* service default parameter *)

Record create_args := mkCreate {
  c_name : Z; c_sender : Z;          (* sender = creator = consumer; -1: not an address *)
  c_agg : Z; c_path : Z; c_lh : Z;
  c_svc : bool;                      (* the service name is defined *)
  c_nprov : Z; c_dup : bool;         (* number of providers, duplicates among them *)
  c_thr : Z; c_timeout : Z; c_freq : Z
}.

Record edit_args := mkEdit {
  e_name : Z; e_sender : Z; e_lh : Z;
  e_nprov : Z; e_dup : bool;         (* 0 providers: keep *)
  e_thr : Z; e_timeout : Z; e_freq : Z
}.

(** what the service module did *)
Inductive sev :=
| SNewBatch (c : Z)                                   (* InitiateRequests / SkipCurrentRequestBatch *)
| SDone (c : Z) (bc bthr : Z) (outs : list output) (tol : Z)
                                                      (* CompleteBatch -> Callback; bc, bthr, tol: as reported
                                                         by the implementation / harness, used by Check.v only *)
| SAutoPause (c : Z).                                 (* OnRequestContextPaused *)

Inductive op :=
| OCreate (a : create_args)
| OStart (name sender : Z)
| OPause (name sender : Z)
| OEdit (a : edit_args)
| ODirect (name sender kind : Z)      (* a service Msg{Pause,Start,Kill,Update}RequestContext aimed at the feed's context *)
| OSvc (evs : list sev)               (* a respond-service transaction or an end-block of the service module *)
| OPrice (name code data : Z).        (* keeper.ModuleServiceRequest (the oracle price service) asked for feed [name];
                                         code, data: what the implementation answered, used by Check.v only *)

Definition uint64_of (x : Z) : Z := x mod 18446744073709551616.

(** MsgCreateFeed.ValidateBasic (feed/service names and description are always well-formed here) *)
Definition create_basic (a : create_args) : bool :=
  (1 <=? c_lh a) && (c_lh a <=? MaxLatestHistory)
  && (uint64_of (c_timeout a) <=? c_freq a)
  && negb (c_nprov a =? 0)
  && ((c_agg a =? AGG_MAX) || (c_agg a =? AGG_MIN) || (c_agg a =? AGG_AVG))
  && (0 <=? c_sender a)
  && negb ((negb (c_nprov a =? 0) && (c_nprov a <? c_thr a)) || (c_thr a <? 1)).

(** service CreateRequestContext called with moduleName = "oracle", repeated, total -1 *)
Definition create_ctx_ok (a : create_args) : bool :=
  negb (c_nprov a =? 0) && negb (c_dup a)
  && (0 <? c_timeout a)
  && negb ((0 <? c_freq a) && (c_freq a <? uint64_of (c_timeout a)))
  && (1 <=? c_thr a) && (c_thr a <=? c_nprov a)
  && c_svc a
  && (c_timeout a <=? MaxRequestTimeout).

(** keeper.CreateFeed *)
Definition do_create (s : state) (a : create_args) : outcome * state :=
  if negb (create_basic a) then (Rej, s) else
  if has (c_name a) (feeds s) then (Rej, s) else
  if negb (create_ctx_ok a) then (Rej, s) else
  let c := next_ctx s in
  let freq := if c_freq a =? 0 then c_timeout a else c_freq a in
  let x := mkCtx (c_sender a) PAUSED (c_thr a) (c_nprov a) (c_timeout a) freq 0 (c_thr a) false in
  let s1 := mkState (feeds s) (byctx s) (vals s) (idx_run s) (idx_pau s) (set c x (ctxs s)) (c + 1) in
  let s2 := set_feed s1 (c_name a) (mkFeed (c_agg a) (c_path a) (c_lh a) c (c_sender a)) in
  (Ok, enqueue s2 (c_name a) PAUSED).

(** keeper.StartFeed *)
Definition do_start (s : state) (name sender : Z) : outcome * state :=
  if sender <? 0 then (Rej, s) else
  match get name (feeds s) with
  | None => (Rej, s)
  | Some f =>
      if negb (sender =? f_creator f) then (Rej, s) else
      match get (f_ctx f) (ctxs s) with
      | None => (Rej, s)
      | Some x =>
          if x_state x =? RUNNING then (Rej, s) else
          (* service StartRequestContext: authority, then state must be PAUSED *)
          if negb (sender =? x_consumer x) then (Rej, s) else
          if negb (x_state x =? PAUSED) then (Rej, s) else
          let x' := ctx_with_state x RUNNING in
          (Ok, dequeue_enqueue (set_ctx s (f_ctx f) x') name PAUSED RUNNING)
      end
  end.

(** keeper.PauseFeed *)
Definition do_pause (s : state) (name sender : Z) : outcome * state :=
  if sender <? 0 then (Rej, s) else
  match get name (feeds s) with
  | None => (Rej, s)
  | Some f =>
      if negb (sender =? f_creator f) then (Rej, s) else
      match get (f_ctx f) (ctxs s) with
      | None => (Rej, s)
      | Some x =>
          if negb (x_state x =? RUNNING) then (Rej, s) else
          if negb (sender =? x_consumer x) then (Rej, s) else
          let x' := ctx_with_state x PAUSED in
          (Ok, dequeue_enqueue (set_ctx s (f_ctx f) x') name RUNNING PAUSED)
      end
  end.

(** MsgEditFeed.ValidateBasic *)
Definition edit_basic (a : edit_args) : bool :=
  ((e_lh a =? 0) || ((1 <=? e_lh a) && (e_lh a <=? MaxLatestHistory)))
  && ((e_timeout a =? 0) || (e_freq a =? 0) || (uint64_of (e_timeout a) <=? e_freq a))
  && ((e_thr a =? 0) || negb ((negb (e_nprov a =? 0) && (e_nprov a <? e_thr a)) || (e_thr a <? 1)))
  && (0 <=? e_sender a).

(** service UpdateRequestContext for a module-owned context (fee cap empty or valid, total -1) *)
Definition update_ctx (x : sctx) (a : edit_args) : option sctx :=
  if negb (e_sender a =? x_consumer x) then None else
  if x_state x =? COMPLETED then None else
  if e_dup a then None else
  if e_timeout a <? 0 then None else
  if negb (e_timeout a =? 0) && negb (e_freq a =? 0) && (e_freq a <? uint64_of (e_timeout a)) then None else
  let thr := if e_thr a =? 0 then x_thr x else e_thr a in
  let np := if e_nprov a =? 0 then x_nprov x else e_nprov a in
  if np <? thr then None else
  if MaxRequestTimeout <? e_timeout a then None else
  let timeout := if e_timeout a =? 0 then x_timeout x else e_timeout a in
  let freq := if e_freq a =? 0 then x_freq x else e_freq a in
  if freq <? uint64_of timeout then None else
  Some (mkCtx (x_consumer x) (x_state x) (if 0 <? thr then thr else x_thr x) np
              (if 0 <? timeout then timeout else x_timeout x)
              (if 0 <? freq then freq else x_freq x) (x_bc x) (x_bthr x) (x_open x)).

(** keeper.EditFeed *)
Definition do_edit (s : state) (a : edit_args) : outcome * state :=
  if negb (edit_basic a) then (Rej, s) else
  match get (e_name a) (feeds s) with
  | None => (Rej, s)
  | Some f =>
      if negb (e_sender a =? f_creator f) then (Rej, s) else
      match get (f_ctx f) (ctxs s) with
      | None => (Rej, s)
      | Some x =>
          match update_ctx x a with
          | None => (Rej, s)
          | Some x' =>
              let s1 := set_ctx s (f_ctx f) x' in
              if 0 <? e_lh a then
                let l := feed_vals s1 (e_name a) in
                let cnt := Z.of_nat (length l) in
                let s2 := if e_lh a <? cnt then set_vals s1 (e_name a) (delete_oldest (cnt - e_lh a) l) else s1 in
                (Ok, set_feed s2 (e_name a) (mkFeed (f_agg f) (f_path f) (e_lh a) (f_ctx f) (f_creator f)))
              else (Ok, set_feed s1 (e_name a) f)
          end
      end
  end.

(** keeper.HandlerResponse, called by service Callback with the outputs of the current batch and
    an error iff there are fewer outputs than the batch's threshold.
    [Abort]: [err.Error()] on a nil error (no outputs although the threshold is met). *)
Definition handler_response (s : state) (now c : Z) (outs : list output) : outcome * state :=
  match get c (ctxs s) with
  | None => (Ok, s)
  | Some x =>
      let err := Z.of_nat (length outs) <? x_bthr x in
      match outs with
      | [] => if err then (Ok, s) else (Abort, s)
      | _ =>
          if err then (Ok, s) else
          match feed_by_ctx s c with
          | None => (Ok, s)
          | Some (name, f) =>
              let data := map (extract (f_path f)) outs in
              let v := (aggregate (f_agg f) data, now) in
              (Ok, set_vals s name (set_feed_value (feed_vals s name) (x_bc x) (f_lh f) v))
          end
      end
  end.

(** keeper.HandlerStateChanged *)
Definition handler_state_changed (s : state) (c : Z) : state :=
  match get c (ctxs s) with
  | None => s
  | Some x =>
      match feed_by_ctx s c with
      | None => s
      | Some (name, _) =>
          if x_state x =? PAUSED then dequeue_enqueue s name RUNNING PAUSED
          else if x_state x =? RUNNING then dequeue_enqueue s name PAUSED RUNNING
          else s
      end
  end.

Definition close_batch (s : state) (c : Z) : state :=
  match get c (ctxs s) with
  | Some x => set_ctx s c (ctx_with_open x false)
  | None => s
  end.

Definition do_sev (s : state) (now : Z) (e : sev) : outcome * state :=
  match e with
  | SNewBatch c =>
      match get c (ctxs s) with
      | None => (Ok, s)
      | Some x => (Ok, set_ctx s c (mkCtx (x_consumer x) (x_state x) (x_thr x) (x_nprov x) (x_timeout x) (x_freq x)
                                          (x_bc x + 1) (x_thr x) true))
      end
  | SDone c _ _ outs _ =>
      (* service CompleteBatch: Callback, then BatchState = BATCHCOMPLETED *)
      match handler_response s now c outs with
      | (Ok, s1) => (Ok, close_batch s1 c)
      | r => r
      end
  | SAutoPause c =>
      match get c (ctxs s) with
      | None => (Ok, s)
      | Some x =>
          (* service OnRequestContextPaused: BatchState = BATCHCOMPLETED, State = PAUSED, state callback *)
          let s1 := set_ctx s c (ctx_with_open (ctx_with_state x PAUSED) false) in
          (Ok, handler_state_changed s1 c)
      end
  end.

(** the events of one transaction / end-block; an abort rolls everything back *)
Fixpoint do_sevs (s : state) (now : Z) (evs : list sev) : outcome * state :=
  match evs with
  | [] => (Ok, s)
  | e :: evs' =>
      match do_sev s now e with
      | (Ok, s1) => do_sevs s1 now evs'
      | (o, _) => (o, s)
      end
  end.

(** keeper.ModuleServiceRequest: the newest value of the feed, unless it is older than 5 minutes of
    BLOCK time (since "fix: oracle price service expires feed values by block time, not host
    clock").  Answer: (result code, data * 10^8 or 0): 400 feed not found, 401 no value, 402 all
    values expired, 200 with the rate. *)
Definition PRICE_TTL : Z := 300.
Definition price_answer (feed_exists : bool) (vals : list fval) (now : Z) : Z * Z :=
  if negb feed_exists then (400, 0) else
  match vals with
  | [] => (401, 0)
  | (d, ts) :: _ => if PRICE_TTL <? now - ts then (402, 0) else (200, d)
  end.
Definition price_request (s : state) (now name : Z) : Z * Z :=
  price_answer (has name (feeds s)) (query_values s name) now.

Definition step := (Z * op)%type.                     (* block time (unix seconds), operation *)

Definition exec (s : state) (st : step) : outcome * state :=
  let '(now, o) := st in
  match o with
  | OCreate a => do_create s a
  | OStart name sender => do_start s name sender
  | OPause name sender => do_pause s name sender
  | OEdit a => do_edit s a
  | ODirect _ _ _ => (Rej, s)       (* service msg server: CheckAuthority(..., checkModule = true) *)
  | OSvc evs => match do_sevs s now evs with (Ok, s') => (Ok, s') | (o', _) => (o', s) end
  | OPrice _ _ _ => (Ok, s)         (* a read *)
  end.

Definition exec_state (s : state) (st : step) : state := snd (exec s st).

Fixpoint run (s : state) (steps : list step) : state :=
  match steps with
  | [] => s
  | st :: rest => run (exec_state s st) rest
  end.
