(** * Oracle: the model's own trace passes the checker
    (the decidable predicates evaluated on the implementation's observations demand nothing
    that the proved model does not deliver) *)
From Irismod Require Import Oracle.Model Oracle.Check Oracle.ProofsList Oracle.Proofs.
From Coq Require Import ZifyBool.
Open Scope Z_scope.

(** what the harness would observe of the model state *)
Definition model_fobs (s : state) (name : Z) : fobs :=
  match get name (feeds s) with
  | Some f => mkFobs (Some (feed_proj f)) (query_values s name) (smem name (idx_run s)) (smem name (idx_pau s))
                     (match get (f_ctx f) (ctxs s) with Some x => Some (ctx_proj x) | None => None end)
  | None => mkFobs None (query_values s name) (smem name (idx_run s)) (smem name (idx_pau s)) None
  end.
Definition observe (names : list Z) (s : state) : list (Z * fobs) := map (fun n => (n, model_fobs s n)) names.

Fixpoint model_trace (names : list Z) (s : state) (steps : list step) : case :=
  match steps with
  | [] => []
  | st :: rest =>
      (st, mkObs (outcome_code (fst (exec s st))) (observe names (exec_state s st)))
        :: model_trace names (exec_state s st) rest
  end.

(** ** Hypotheses on the history *)

(** the service events carry the model's batch counter / threshold and complete running batches only *)
Fixpoint run_consistent (s : state) (h : list step) : bool :=
  match h with
  | [] => true
  | st :: h' => (match snd st with
                 | OSvc evs => sevs_consistent s (fst st) evs
                 | OPrice n code d => eqb (price_request s (fst st) n) (code, d)
                 | _ => true
                 end)
                && run_consistent (exec_state s st) h'
  end.

(** the response values are inside the float64 range (or the batch is not compared: tolerance < 0) *)
Definition output_ok (o : output) : Prop := forall k d, In (k, Some d) o -> in_range (q_of_dec d).
Definition sev_ok (e : sev) : Prop :=
  match e with SDone _ _ _ outs tol => tol < 0 \/ (forall o, In o outs -> output_ok o) | _ => True end.
(** ... and the price service is asked about observed feeds only *)
Definition step_ok (names : list Z) (st : step) : Prop :=
  match snd st with OSvc evs => Forall sev_ok evs | OPrice n _ _ => In n names | _ => True end.

Lemma qzero_in_range : in_range qzero.
Proof. split; vm_compute; reflexivity. Qed.

Lemma extract_in_range p o : output_ok o -> in_range (extract p o).
Proof.
  intros Ho. unfold extract. destruct (get p o) as [[d|]|] eqn:E; try apply qzero_in_range.
  apply (Ho p d). apply get_In. exact E.
Qed.

Lemma sevs_consistent_wfb now evs : forall s, sevs_consistent s now evs = true -> sevs_wfb s now evs = true.
Proof.
  induction evs as [|e evs IH]; intros s H; simpl in *; [reflexivity|].
  apply andb_prop in H. destruct H as [H1 H2]. rewrite (IH _ H2), andb_true_r.
  destruct e as [c|c bc bthr outs tol|c]; try reflexivity. unfold sev_wfb.
  destruct (get c (ctxs s)) as [x|]; [|discriminate]. apply andb_prop in H1. destruct H1 as [_ H1]. exact H1.
Qed.

Lemma run_consistent_wfb h : forall s, run_consistent s h = true -> run_wfb s h = true.
Proof.
  induction h as [|st h IH]; intros s H; simpl in *; [reflexivity|].
  apply andb_prop in H. destruct H as [H1 H2]. rewrite (IH _ H2), andb_true_r.
  unfold step_wfb. destruct (snd st); try reflexivity. apply sevs_consistent_wfb. exact H1.
Qed.

Lemma price_request_model s now name :
  price_request s now name
  = price_answer (match fo_feed (model_fobs s name) with Some _ => true | None => false end)
                 (fo_vals (model_fobs s name)) now.
Proof. unfold price_request, model_fobs, has. destruct (get name (feeds s)); reflexivity. Qed.

(** ** The checker's pieces on equal data *)
Lemma data_close_refl tol d : 0 <= tol \/ tol < 0 -> data_close tol d d = true.
Proof. intros _. unfold data_close. destruct (tol <? 0) eqn:E; [reflexivity|]. lia. Qed.

Lemma vals_corr_self t c m : vals_corr t c m (map snd m) = true.
Proof.
  induction m as [|[bc [d ts]] m IH]; simpl; [reflexivity|].
  rewrite data_close_refl by lia. rewrite Z.eqb_refl, IH. reflexivity.
Qed.

Lemma fobs_eqb_refl a : fobs_eqb a a = true.
Proof.
  unfold fobs_eqb. rewrite !Prelude.eqb_refl. destruct (fo_run a), (fo_pau a); reflexivity.
Qed.

Lemma match_vals_old l : match_vals (old_entries l) l = 0.
Proof.
  induction l as [|[d ts] l IH]; simpl; [reflexivity|].
  unfold data_close. simpl. replace (Z.abs (d - d) <=? 0) with true by lia. simpl.
  rewrite Z.eqb_refl. simpl. exact IH.
Qed.

Lemma match_vals_length E : forall l, match_vals E l = 0 -> length E = length l.
Proof.
  induction E as [|[[[d ts] tol] fr] E IH]; intros [|[d' ts'] l]; simpl; intros H; try reflexivity; try discriminate.
  destruct (negb (data_close tol d d')); [destruct fr; discriminate|].
  destruct (negb (ts =? ts')); [destruct fr; discriminate|]. f_equal. apply IH. exact H.
Qed.

Lemma match_vals_firstn k : forall E l, match_vals E l = 0 -> match_vals (firstn k E) (firstn k l) = 0.
Proof.
  induction k as [|k IH]; intros E l H; [reflexivity|].
  destruct E as [|[[[d ts] tol] fr] E]; destruct l as [|[d' ts'] l]; simpl in *; try reflexivity; try discriminate.
  destruct (negb (data_close tol d d')); [destruct fr; discriminate|].
  destruct (negb (ts =? ts')); [destruct fr; discriminate|]. apply IH. exact H.
Qed.

Lemma first_nonzero_zero l : Forall (fun x => x = 0) l -> first_nonzero l = 0.
Proof. induction l as [|x l IH]; intros H; simpl; [reflexivity|]. inversion H; subst. simpl. apply IH. assumption. Qed.

(** ** Correspondence of the model with itself *)
Lemma corr_feed_self t s name : Inv s -> corr_feed t s (name, model_fobs s name) = true.
Proof.
  intros HI. unfold corr_feed, model_fobs. destruct (get name (feeds s)) as [f|] eqn:Hf; cbn [fo_feed fo_vals fo_run fo_pau fo_ctx].
  - destruct (feed_ctx_known s name f HI Hf) as (x & Hx & _).
    rewrite Hx, !Prelude.eqb_refl. rewrite query_values_newest. unfold newest_first.
    rewrite vals_corr_self. destruct (smem name (idx_run s)), (smem name (idx_pau s)); reflexivity.
  - rewrite (no_feed_no_values s name HI Hf). destruct (unknown_feed_not_indexed s name HI Hf) as [R P].
    rewrite R, P. reflexivity.
Qed.

Lemma corr_feeds_self t s names : Inv s -> forallb (corr_feed t s) (observe names s) = true.
Proof.
  intros HI. unfold observe. induction names as [|n names IH]; [reflexivity|]. cbn [map forallb].
  rewrite corr_feed_self by exact HI. exact IH.
Qed.

(** ** The property predicate on the model's observations *)
Lemma mirror_ok_model s name : Inv s -> mirror_ok (model_fobs s name) = true.
Proof.
  intros HI. unfold mirror_ok, model_fobs. destruct (get name (feeds s)) as [f|] eqn:Hf; cbn [fo_feed fo_vals fo_run fo_pau fo_ctx].
  - destruct (feed_ctx_known s name f HI Hf) as (x & Hx & _ & R & P & _). rewrite Hx. unfold feed_proj, ctx_proj.
    rewrite R, P. destruct (x_state x =? RUNNING), (x_state x =? PAUSED); reflexivity.
  - destruct (unknown_feed_not_indexed s name HI Hf) as [R P]. rewrite R, P. reflexivity.
Qed.

(** the expected history of a feed across the service events of one step matches the model's *)
Lemma expect_sevs_model now name f evs : forall s E,
  Inv s -> KeysInv s -> sevs_consistent s now evs = true -> Forall sev_ok evs ->
  get name (feeds s) = Some f ->
  match_vals E (query_values s name) = 0 ->
  match_vals (expect_sevs (feed_proj f) now evs E) (query_values (snd (do_sevs s now evs)) name) = 0.
Proof.
  induction evs as [|e evs IH]; intros s E HI HK Hc Hok Hf HE; [exact HE|].
  simpl in Hc. apply andb_prop in Hc. destruct Hc as [Hc1 Hc2]. inversion Hok as [|? ? Hok1 Hok2]; subst.
  destruct (Inv_do_sev s now e HI) as [Hfst HI1].
  assert (Hw1 : sev_wfb s e = true).
  { pose proof (sevs_consistent_wfb now [e] s) as W. simpl in W. rewrite Hc1 in W. specialize (W eq_refl).
    rewrite andb_true_r in W. exact W. }
  pose proof (Keys_do_sev s now e HI HK Hw1) as HK1.
  assert (Hf1 : get name (feeds (snd (do_sev s now e))) = Some f) by (rewrite do_sev_feeds by exact HI; exact Hf).
  assert (Hgoal : forall E', match_vals E' (query_values (snd (do_sev s now e)) name) = 0 ->
            match_vals (expect_sevs (feed_proj f) now evs E')
                       (query_values (snd (do_sevs s now (e :: evs))) name) = 0).
  { intros E' HE'. simpl do_sevs. destruct (do_sev s now e) as [o1 s1] eqn:Ed. cbn [fst snd] in *. subst o1.
    apply IH; assumption. }
  destruct e as [c|c bc bthr outs tol|c].
  - simpl expect_sevs. apply Hgoal. rewrite sev_values_frame by (intros; discriminate). exact HE.
  - destruct (get c (ctxs s)) as [x|] eqn:Hx; [|discriminate].
    apply andb_prop in Hc1. destruct Hc1 as [Hc1 Hopen]. apply andb_prop in Hc1. destruct Hc1 as [Hbc Hbthr].
    destruct (ctx_has_feed s c x HI Hx) as (n0 & f0 & Hfb & Hf0 & Hcf0).
    destruct (batch_completion_lemma s now c bc bthr outs tol x n0 f0 HI HK Hx Hfb Hopen) as [Hoth Hme].
    cbv zeta in Hoth, Hme. destruct (inv_ctx s HI _ _ Hx) as (_ & _ & T2 & _).
    unfold expect_sevs; fold expect_sevs. unfold feed_proj at 1.
    destruct (c =? f_ctx f) eqn:Ec.
    + assert (n0 = name).
      { eapply (feed_ctx_inj s n0 f0 name f); eauto. lia. }
      subst n0. assert (f0 = f) by congruence. subst f0.
      assert (Hb : bthr = x_bthr x) by lia. subst bthr. cbn [andb].
      destruct (x_bthr x <=? Z.of_nat (length outs)) eqn:Emet; cbn [andb].
      * assert (Hpos : (0 <? Z.of_nat (length outs)) = true) by lia. rewrite Hpos.
        apply Hgoal. rewrite Hme. destruct outs as [|o outs]; [simpl in Hpos; lia|].
        cbn [match_vals]. 
        assert (Hd : data_close tol (spec_aggregate (f_agg f) (map (extract (f_path f)) (o :: outs)))
                       (aggregate (f_agg f) (map (extract (f_path f)) (o :: outs))) = true).
        { destruct Hok1 as [Hneg|Hall].
          - unfold data_close. destruct (tol <? 0) eqn:Et; [reflexivity|lia].
          - rewrite aggregate_is_spec by (apply extract_in_range; apply Hall; left; reflexivity).
            apply data_close_refl. lia. }
        rewrite Hd. cbn [negb]. rewrite Z.eqb_refl. cbn [negb].
        apply match_vals_firstn. exact HE.
      * replace ((0 <? Z.of_nat (length outs)) && false) with false by (destruct (0 <? Z.of_nat (length outs)); reflexivity).
        destruct (0 <? Z.of_nat (length outs)); apply Hgoal; rewrite Hme; exact HE.
    + cbn [andb]. apply Hgoal. rewrite Hoth; [exact HE|]. intros En. subst n0.
      assert (f0 = f) by congruence. subst f0. lia.
  - simpl expect_sevs. apply Hgoal. rewrite sev_values_frame by (intros; discriminate). exact HE.
Qed.

(** ** [prop_feed] in pieces *)
Definition stranger_of (po : fobs) (o : op) (name : Z) : bool :=
  match control_of o, fo_feed po with
  | Some (n, sender), Some (_, _, _, _, creator) => (n =? name) && negb (sender =? creator)
  | _, _ => false
  end.

Definition expected_of (po : fobs) (now : Z) (o : op) (code name : Z) : list ventry :=
  match o, fo_feed po with
  | OSvc evs, Some f => expect_sevs f now evs (old_entries (fo_vals po))
  | OEdit a, Some _ =>
      if (e_name a =? name) && (code =? 0) && (0 <? e_lh a)
      then firstn (Z.to_nat (e_lh a)) (old_entries (fo_vals po))
      else old_entries (fo_vals po)
  | _, _ => old_entries (fo_vals po)
  end.

Definition lh_ok_of (fo : fobs) : bool :=
  match fo_feed fo with
  | Some (_, _, lh, _, _) => Z.of_nat (length (fo_vals fo)) <=? lh
  | None => match fo_vals fo with [] => true | _ => false end
  end.

Lemma prop_feed_zero prev now o code name fo :
  let po := match Check.fobs_of prev name with Some p => p | None => empty_fobs end in
  mirror_ok fo = true ->
  stranger_of po o name && ((code =? 0) || negb (fobs_eqb po fo)) = false ->
  match_vals (expected_of po now o code name) (fo_vals fo) = 0 ->
  lh_ok_of fo = true ->
  prop_feed prev (now, o) code (name, fo) = 0.
Proof.
  intros po Hm Hs He Hl. pose proof (match_vals_length _ _ He) as Hlen.
  unfold prop_feed. fold po. rewrite Hm. cbn [negb]. cbv zeta.
  unfold stranger_of in Hs. rewrite Hs.
  unfold expected_of in He, Hlen. rewrite Hlen, Nat.eqb_refl. cbn [negb]. rewrite He. cbn [Z.eqb negb].
  unfold lh_ok_of in Hl. rewrite Hl. reflexivity.
Qed.

Lemma code_is_ok o : (outcome_code o =? 0) = is_ok o.
Proof. destruct o; reflexivity. Qed.

Lemma model_fobs_vals s name : fo_vals (model_fobs s name) = query_values s name.
Proof. unfold model_fobs. destruct (get name (feeds s)); reflexivity. Qed.

Lemma model_fobs_feed s name : fo_feed (model_fobs s name) = option_map feed_proj (get name (feeds s)).
Proof. unfold model_fobs. destruct (get name (feeds s)); reflexivity. Qed.

Definition step_consistent (s : state) (st : step) : bool :=
  match snd st with
  | OSvc evs => sevs_consistent s (fst st) evs
  | OPrice n code d => eqb (price_request s (fst st) n) (code, d)
  | _ => true
  end.

Lemma prop_feed_model names s prev st name :
  Inv s -> KeysInv s -> step_consistent s st = true -> step_ok names st ->
  (match Check.fobs_of prev name with Some p => p | None => empty_fobs end) = model_fobs s name ->
  prop_feed prev st (outcome_code (fst (exec s st))) (name, model_fobs (exec_state s st) name) = 0.
Proof.
  intros HI HK Hc Hok Hprev. destruct st as [now o].
  pose proof (Inv_exec s (now, o) HI) as HI'.
  apply prop_feed_zero; rewrite ?Hprev.
  - apply mirror_ok_model. exact HI'.
  - (* creator control *)
    unfold stranger_of. rewrite model_fobs_feed.
    destruct (control_of o) as [[n sender]|] eqn:Hco; [|reflexivity].
    destruct (get name (feeds s)) as [f|] eqn:Hf; [|reflexivity]. cbn [option_map feed_proj].
    destruct ((n =? name) && negb (sender =? f_creator f)) eqn:E; [|reflexivity].
    apply andb_prop in E. destruct E as [E1 E2]. assert (n = name) by lia. subst n.
    assert (Hrej : exec s (now, o) = (Rej, s)).
    { apply (stranger_rejected s now o name sender Hco). intros g Hg. assert (g = f) by congruence. subst g. lia. }
    unfold exec_state. rewrite Hrej. cbn [fst snd outcome_code]. rewrite fobs_eqb_refl. reflexivity.
  - (* values *)
    rewrite model_fobs_vals. unfold expected_of. rewrite model_fobs_feed, model_fobs_vals.
    destruct (get name (feeds s)) as [f|] eqn:Hf; cbn [option_map].
    + destruct o; unfold exec_state; cbn [exec].
      * rewrite create_values. apply match_vals_old.
      * rewrite start_values. apply match_vals_old.
      * rewrite pause_values. apply match_vals_old.
      * rewrite edit_values, code_is_ok. unfold edit_applies.
        destruct (e_name a =? name), (0 <? e_lh a), (is_ok (fst (do_edit s a))); cbn [andb];
          try apply match_vals_old. apply match_vals_firstn. apply match_vals_old.
      * apply match_vals_old.
      * change (match_vals (expect_sevs (feed_proj f) now evs (old_entries (query_values s name)))
                           (query_values (snd (exec s (now, OSvc evs))) name) = 0).
        rewrite exec_svc by exact HI. cbn [snd].
        apply expect_sevs_model; try assumption. apply match_vals_old.
      * apply match_vals_old.
    + rewrite (no_feed_no_values s name HI Hf).
      assert (Hq : query_values (exec_state s (now, o)) name = []).
      { destruct o; unfold exec_state; cbn [exec].
        - rewrite create_values. apply no_feed_no_values; assumption.
        - rewrite start_values. apply no_feed_no_values; assumption.
        - rewrite pause_values. apply no_feed_no_values; assumption.
        - rewrite edit_values, (no_feed_no_values s name HI Hf). destruct (edit_applies s a name); [apply firstn_nil|reflexivity].
        - apply no_feed_no_values; assumption.
        - change (query_values (snd (exec s (now, OSvc evs))) name = []).
          rewrite exec_svc by exact HI. cbn [snd]. apply no_feed_no_values.
          + apply Inv_do_sevs. exact HI.
          + rewrite do_sevs_feeds by exact HI. exact Hf.
        - apply no_feed_no_values; assumption. }
      rewrite Hq. destruct o; reflexivity.
  - (* bounded by latest-history *)
    unfold lh_ok_of. rewrite model_fobs_feed, model_fobs_vals.
    destruct (get name (feeds (exec_state s (now, o)))) as [f|] eqn:Hf; cbn [option_map feed_proj].
    + destruct (stored_at_most_lh _ name f HI' Hf) as [Hlen _]. cbv beta iota. apply Z.leb_le. exact Hlen.
    + rewrite (no_feed_no_values _ name HI' Hf). reflexivity.
Qed.

Lemma get_observe names s name : In name names -> Check.fobs_of (observe names s) name = Some (model_fobs s name).
Proof.
  unfold Check.fobs_of, observe. induction names as [|n names IH]; intros Hin; [destruct Hin|].
  cbn [map get]. destruct (eq_dec name n) as [->|Hne]; [reflexivity|].
  destruct Hin as [->|Hin]; [congruence|]. apply IH. exact Hin.
Qed.

Definition prev_ok (names : list Z) (prev : list (Z * fobs)) (s : state) : Prop :=
  forall name, In name names ->
    (match Check.fobs_of prev name with Some p => p | None => empty_fobs end) = model_fobs s name.

Lemma prop_step_model names s prev st :
  Inv s -> KeysInv s -> step_consistent s st = true -> step_ok names st -> prev_ok names prev s ->
  prop_step prev st (mkObs (outcome_code (fst (exec s st))) (observe names (exec_state s st))) = 0.
Proof.
  intros HI HK Hc Hok Hprev. unfold prop_step. cbn [o_code o_feeds].
  assert (Hp : price_prop prev st = 0).
  { unfold price_prop. destruct st as [now o]. cbn [snd fst] in *. destruct o; try reflexivity.
    unfold step_ok in Hok. cbn [snd] in Hok. unfold step_consistent in Hc. cbn [snd fst] in Hc.
    cbv zeta. rewrite (Hprev name Hok). rewrite price_request_model in Hc. rewrite Hc. reflexivity. }
  rewrite Hp. cbn [Z.eqb].
  apply first_nonzero_zero. unfold observe. rewrite map_map. apply Forall_forall. intros z Hz.
  apply in_map_iff in Hz. destruct Hz as (name & <- & Hin).
  apply (prop_feed_model names); try assumption. apply Hprev. exact Hin.
Qed.

Lemma corr_step_model names t s st :
  Inv s -> step_consistent s st = true ->
  corr_step t s st (mkObs (outcome_code (fst (exec s st))) (observe names (exec_state s st))) = true.
Proof.
  intros HI Hc. pose proof (Inv_exec s st HI) as HI'. unfold corr_step, exec_state in *.
  destruct st as [now o]. cbn [snd fst] in *. unfold step_consistent in Hc. cbn [snd fst] in Hc.
  destruct o.
  1-5: destruct (exec s _) as [oc s'] eqn:E; cbn [fst snd o_code o_feeds] in *;
       rewrite Z.eqb_refl; cbn [andb]; apply corr_feeds_self; exact HI'.
  1: rewrite exec_svc in * by exact HI; cbn [fst snd o_code o_feeds outcome_code] in *.
  - rewrite Hc. replace (eqb Ok Ok) with true by reflexivity. cbn [Z.eqb negb andb].
    apply corr_feeds_self. exact HI'.
  - cbn [exec fst snd o_code o_feeds outcome_code] in *.
    assert (Hp : price_corr t s now name code data = true).
    { unfold price_corr. apply (proj1 (Prelude.eqb_true_iff _ _)) in Hc. rewrite Hc. rewrite Z.eqb_refl. cbn [andb].
      destruct (get name (feeds s)); [|apply Z.eqb_refl].
      destruct (rev (feed_vals s name)) as [|[bc v] r]; [apply Z.eqb_refl|]. apply data_close_refl. lia. }
    rewrite Hp. cbn [Z.eqb andb]. apply corr_feeds_self. exact HI'.
Qed.

Lemma model_passes_check_from names steps : forall s t prev i,
  Inv s -> KeysInv s -> run_consistent s steps = true -> Forall (step_ok names) steps -> prev_ok names prev s ->
  check_from s t prev (model_trace names s steps) i (-1) (-1) 0 = (-1, -1, 0).
Proof.
  induction steps as [|st steps IH]; intros s t prev i HI HK Hc Hok Hprev; [reflexivity|].
  simpl in Hc. apply andb_prop in Hc. destruct Hc as [Hc1 Hc2]. inversion Hok as [|? ? Hok1 Hok2]; subst.
  cbn [model_trace check_from].
  rewrite corr_step_model by assumption.
  rewrite prop_step_model by assumption.
  cbn [negb andb Z.eqb Z.ltb]. replace (-1 <? 0) with true by reflexivity. cbn [andb negb].
  apply IH.
  - apply Inv_exec. exact HI.
  - apply Keys_exec; try assumption. unfold step_wfb. unfold step_consistent in Hc1.
    destruct (snd st); try reflexivity. apply sevs_consistent_wfb. exact Hc1.
  - exact Hc2.
  - exact Hok2.
  - intros name Hin. cbn [o_feeds]. rewrite get_observe by exact Hin. reflexivity.
Qed.

Lemma prev_ok_init names : prev_ok names [] init.
Proof. intros name _. reflexivity. Qed.

(** every history that is consistent with the service module's own bookkeeping and whose response
    values are in the float64 range: the model's trace passes both halves of the checker *)
Lemma model_passes_check_lemma (names : list Z) (steps : list step) :
  run_consistent init steps = true -> Forall (step_ok names) steps ->
  check_case (model_trace names init steps) = (-1, -1, 0).
Proof.
  intros Hc Hok. unfold check_case.
  apply model_passes_check_from; try assumption.
  - exact Inv_init.
  - exact KeysInv_init.
  - apply prev_ok_init.
Qed.

(** ** The compressed encoding of cases is lossless *)
Definition compress_feed (prev : list (Z * fobs)) (nf : Z * fobs) : Z * option fobs :=
  let '(n, fo) := nf in
  (n, if fobs_eqb fo (match get n prev with Some p => p | None => empty_fobs end) then None else Some fo).

Fixpoint compress_from (prev : list (Z * fobs)) (c : case) : ccase :=
  match c with
  | [] => []
  | (st, o) :: rest =>
      (st, mkCObs (o_code o) (map (compress_feed prev) (o_feeds o))) :: compress_from (o_feeds o) rest
  end.

Lemma fobs_eqb_eq a b : fobs_eqb a b = true -> a = b.
Proof.
  destruct a as [a1 a2 a3 a4 a5], b as [b1 b2 b3 b4 b5]. unfold fobs_eqb. cbn [fo_feed fo_vals fo_run fo_pau fo_ctx].
  intros H. apply andb_prop in H. destruct H as [H H5]. apply andb_prop in H. destruct H as [H H4].
  apply andb_prop in H. destruct H as [H H3]. apply andb_prop in H. destruct H as [H1 H2].
  apply (proj1 (Prelude.eqb_true_iff _ _)) in H1. apply (proj1 (Prelude.eqb_true_iff _ _)) in H2.
  apply (proj1 (Prelude.eqb_true_iff _ _)) in H5.
  apply Bool.eqb_prop in H3. apply Bool.eqb_prop in H4. subst. reflexivity.
Qed.

Lemma expand_compress_feed prev nf : expand_feed prev (compress_feed prev nf) = nf.
Proof.
  destruct nf as [n fo]. unfold compress_feed, expand_feed.
  destruct (fobs_eqb fo (match get n prev with Some p => p | None => empty_fobs end)) eqn:E; [|reflexivity].
  apply fobs_eqb_eq in E. rewrite E. reflexivity.
Qed.

Lemma expand_compress c : forall prev, expand_from prev (compress_from prev c) = c.
Proof.
  induction c as [|[st o] c IH]; intros prev; [reflexivity|]. cbn [compress_from expand_from co_code co_feeds].
  rewrite map_map.
  assert (E : map (fun x => expand_feed prev (compress_feed prev x)) (o_feeds o) = o_feeds o).
  { induction (o_feeds o) as [|nf l IHl]; [reflexivity|]. cbn [map]. rewrite expand_compress_feed, IHl. reflexivity. }
  rewrite E, IH. destruct o. reflexivity.
Qed.

Lemma model_passes_check_c_lemma (names : list Z) (steps : list step) :
  run_consistent init steps = true -> Forall (step_ok names) steps ->
  check_case_c (compress_from [] (model_trace names init steps)) = (-1, -1, 0).
Proof.
  intros Hc Hok. unfold check_case_c. rewrite expand_compress. apply model_passes_check_lemma; assumption.
Qed.
