(** * Oracle: invariants of the model and the C17 lemmas (induction over histories) *)
From Irismod Require Import Oracle.Model Oracle.Check Oracle.ProofsList.
From Coq Require Import ZifyBool QArith.
Open Scope Z_scope.

(** ** Sets of names *)
Lemma smem_cons x y l : smem x (y :: l) = (x =? y) || smem x l.
Proof. reflexivity. Qed.

Lemma smem_sadd_same x l : smem x (sadd x l) = true.
Proof.
  unfold sadd. destruct (smem x l) eqn:E; [exact E|]. rewrite smem_cons, Z.eqb_refl. reflexivity.
Qed.

Lemma smem_sadd_other x y l : y <> x -> smem y (sadd x l) = smem y l.
Proof.
  intros Hne. unfold sadd. destruct (smem x l); [reflexivity|]. rewrite smem_cons.
  destruct (y =? x) eqn:E; [lia|reflexivity].
Qed.

Lemma smem_srem_same x l : smem x (srem x l) = false.
Proof.
  unfold srem, smem. induction l as [|y l IH]; simpl; [reflexivity|].
  destruct (y =? x) eqn:E; simpl; [exact IH|]. rewrite IH. destruct (x =? y) eqn:E2; [lia|reflexivity].
Qed.

Lemma smem_srem_other x y l : y <> x -> smem y (srem x l) = smem y l.
Proof.
  intros Hne. unfold srem, smem. induction l as [|z l IH]; simpl; [reflexivity|].
  destruct (z =? x) eqn:E; simpl.
  - rewrite IH. destruct (y =? z) eqn:E2; [lia|reflexivity].
  - rewrite IH. reflexivity.
Qed.

(** ** The state invariant *)

(** what must hold of an existing feed: reverse index, context known and below the id counter,
    latest-history within its bounds and respected by the store, the context's consumer is the
    creator, and the running / paused index MIRRORS the state of the service context *)
Definition feed_ok (s : state) (name : Z) (f : feed) : Prop :=
  get (f_ctx f) (byctx s) = Some name
  /\ 1 <= f_lh f <= MaxLatestHistory
  /\ Z.of_nat (length (feed_vals s name)) <= f_lh f
  /\ exists x, get (f_ctx f) (ctxs s) = Some x
       /\ x_consumer x = f_creator f
       /\ smem name (idx_run s) = (x_state x =? RUNNING)
       /\ smem name (idx_pau s) = (x_state x =? PAUSED).

Definition nofeed_ok (s : state) (name : Z) : Prop :=
  feed_vals s name = [] /\ smem name (idx_run s) = false /\ smem name (idx_pau s) = false.

Definition ctx_ok (s : state) (c : Z) (x : sctx) : Prop :=
  c < next_ctx s /\ 1 <= x_thr x /\ 1 <= x_bthr x
  /\ (x_state x = RUNNING \/ x_state x = PAUSED)
  /\ exists name f, get name (feeds s) = Some f /\ f_ctx f = c.

Record Inv (s : state) : Prop := mkInv {
  inv_feed : forall name f, get name (feeds s) = Some f -> feed_ok s name f;
  inv_nofeed : forall name, get name (feeds s) = None -> nofeed_ok s name;
  inv_byctx : forall c name, get c (byctx s) = Some name ->
              exists f, get name (feeds s) = Some f /\ f_ctx f = c;
  inv_ctx : forall c x, get c (ctxs s) = Some x -> ctx_ok s c x
}.

Lemma Inv_init : Inv init.
Proof.
  constructor; simpl; try discriminate.
  intros name _. repeat split.
Qed.

Lemma feed_ctx_inj s n1 f1 n2 f2 :
  Inv s -> get n1 (feeds s) = Some f1 -> get n2 (feeds s) = Some f2 -> f_ctx f1 = f_ctx f2 -> n1 = n2.
Proof.
  intros HI H1 H2 Hc.
  destruct (inv_feed s HI _ _ H1) as (B1 & _). destruct (inv_feed s HI _ _ H2) as (B2 & _).
  rewrite Hc in B1. congruence.
Qed.

Lemma feed_by_ctx_spec s c name f :
  Inv s -> feed_by_ctx s c = Some (name, f) -> get name (feeds s) = Some f /\ f_ctx f = c.
Proof.
  intros HI. unfold feed_by_ctx. destruct (get c (byctx s)) as [n|] eqn:Hb; [|discriminate].
  destruct (get n (feeds s)) as [g|] eqn:Hg; [|discriminate]. intros Heq. inversion Heq; subst.
  destruct (inv_byctx s HI _ _ Hb) as (f0 & Hf0 & Hc). split; [exact Hg|]. congruence.
Qed.

Lemma feed_by_ctx_of_feed s name f :
  Inv s -> get name (feeds s) = Some f -> feed_by_ctx s (f_ctx f) = Some (name, f).
Proof.
  intros HI Hf. destruct (inv_feed s HI _ _ Hf) as (Hb & _).
  unfold feed_by_ctx. rewrite Hb, Hf. reflexivity.
Qed.

Lemma ctx_has_feed s c x : Inv s -> get c (ctxs s) = Some x ->
  exists name f, feed_by_ctx s c = Some (name, f) /\ get name (feeds s) = Some f /\ f_ctx f = c.
Proof.
  intros HI Hx. destruct (inv_ctx s HI _ _ Hx) as (_ & _ & _ & _ & name & f & Hf & Hc).
  exists name, f. subst c. split; [apply feed_by_ctx_of_feed; assumption|auto].
Qed.

(** ** Three ways a state changes *)

(** (1) the context of feed [name] and the two indexes change *)
Definition upd_state (s : state) (c : Z) (x' : sctx) (run' pau' : list Z) : state :=
  mkState (feeds s) (byctx s) (vals s) run' pau' (set c x' (ctxs s)) (next_ctx s).

Lemma Inv_upd s name f x x' run' pau' :
  Inv s -> get name (feeds s) = Some f -> get (f_ctx f) (ctxs s) = Some x ->
  x_consumer x' = x_consumer x -> 1 <= x_thr x' -> 1 <= x_bthr x' ->
  (x_state x' = RUNNING \/ x_state x' = PAUSED) ->
  smem name run' = (x_state x' =? RUNNING) -> smem name pau' = (x_state x' =? PAUSED) ->
  (forall n, n <> name -> smem n run' = smem n (idx_run s) /\ smem n pau' = smem n (idx_pau s)) ->
  Inv (upd_state s (f_ctx f) x' run' pau').
Proof.
  intros HI Hf Hx Hcons Hthr Hbthr Hst Hrun Hpau Hoth.
  constructor; unfold upd_state; cbn [feeds byctx vals idx_run idx_pau ctxs next_ctx].
  - intros n g Hg. destruct (inv_feed s HI _ _ Hg) as (B & L & Len & x0 & Hx0 & C0 & R0 & P0).
    unfold feed_ok, feed_vals. cbn [feeds byctx vals idx_run idx_pau ctxs next_ctx].
    split; [exact B|]. split; [exact L|]. split; [exact Len|].
    destruct (Z.eq_dec n name) as [->|Hne].
    + assert (g = f) by congruence. subst g. exists x'. rewrite get_set_same.
      repeat split; try assumption. rewrite Hcons. congruence.
    + assert (Hc : f_ctx g <> f_ctx f).
      { intros Hc. apply Hne. eapply feed_ctx_inj; eauto. }
      exists x0. rewrite get_set_other by exact Hc. destruct (Hoth n Hne) as [E1 E2].
      rewrite E1, E2. repeat split; assumption.
  - intros n Hn. destruct (inv_nofeed s HI _ Hn) as (V & R0 & P0).
    assert (Hne : n <> name) by congruence. destruct (Hoth n Hne) as [E1 E2].
    unfold nofeed_ok, feed_vals. cbn [feeds byctx vals idx_run idx_pau ctxs next_ctx].
    rewrite E1, E2. repeat split; assumption.
  - exact (inv_byctx s HI).
  - intros c x0 Hx0. unfold ctx_ok. cbn [feeds byctx vals idx_run idx_pau ctxs next_ctx].
    destruct (Z.eq_dec c (f_ctx f)) as [->|Hne].
    + rewrite get_set_same in Hx0. inversion Hx0; subst x0.
      destruct (inv_ctx s HI _ _ Hx) as (Hlt & _ & _ & _ & Hex). repeat split; assumption.
    + rewrite get_set_other in Hx0 by exact Hne. exact (inv_ctx s HI _ _ Hx0).
Qed.

(** (2) the stored values of feed [name] change, staying within latest-history *)
Lemma Inv_set_vals s name f l' :
  Inv s -> get name (feeds s) = Some f -> Z.of_nat (length l') <= f_lh f ->
  Inv (set_vals s name l').
Proof.
  intros HI Hf Hlen.
  assert (FV : forall n, feed_vals (set_vals s name l') n = if Z.eq_dec n name then l' else feed_vals s n).
  { intros n. unfold feed_vals, set_vals. cbn [vals]. destruct (Z.eq_dec n name) as [->|Hne].
    - rewrite get_set_same. reflexivity.
    - rewrite get_set_other by exact Hne. reflexivity. }
  constructor.
  - intros n g Hg. change (get n (feeds s) = Some g) in Hg.
    destruct (inv_feed s HI _ _ Hg) as (B & L & Len & Hex).
    unfold feed_ok. rewrite FV. split; [exact B|]. split; [exact L|]. split; [|exact Hex].
    destruct (Z.eq_dec n name) as [->|Hne]; [|exact Len]. assert (g = f) by congruence. subst g. exact Hlen.
  - intros n Hn. change (get n (feeds s) = None) in Hn. destruct (inv_nofeed s HI _ Hn) as (V & R0 & P0).
    unfold nofeed_ok. rewrite FV. destruct (Z.eq_dec n name) as [->|Hne]; [congruence|].
    repeat split; assumption.
  - exact (inv_byctx s HI).
  - exact (inv_ctx s HI).
Qed.

(** (3) the latest-history of feed [name] changes *)
Definition with_lh (f : feed) (lh : Z) : feed := mkFeed (f_agg f) (f_path f) lh (f_ctx f) (f_creator f).

Lemma Inv_set_feed s name f f' :
  Inv s -> get name (feeds s) = Some f ->
  f_ctx f' = f_ctx f -> f_creator f' = f_creator f ->
  1 <= f_lh f' <= MaxLatestHistory -> Z.of_nat (length (feed_vals s name)) <= f_lh f' ->
  Inv (set_feed s name f').
Proof.
  intros HI Hf Hc Hcr Hlh Hlen.
  destruct (inv_feed s HI _ _ Hf) as (Bf & _ & _ & xf & Hxf & Cf & Rf & Pf).
  assert (GB : forall c, get c (byctx (set_feed s name f')) = get c (byctx s)).
  { intros c. unfold set_feed. cbn [byctx]. rewrite Hc. destruct (Z.eq_dec c (f_ctx f)) as [->|Hne].
    - rewrite get_set_same. symmetry. exact Bf.
    - rewrite get_set_other by exact Hne. reflexivity. }
  assert (GF : forall n, get n (feeds (set_feed s name f')) = if Z.eq_dec n name then Some f' else get n (feeds s)).
  { intros n. unfold set_feed. cbn [feeds]. destruct (Z.eq_dec n name) as [->|Hne].
    - rewrite get_set_same. reflexivity.
    - rewrite get_set_other by exact Hne. reflexivity. }
  constructor.
  - intros n g Hg. rewrite GF in Hg. unfold feed_ok. rewrite GB.
    change (feed_vals (set_feed s name f') n) with (feed_vals s n).
    change (ctxs (set_feed s name f')) with (ctxs s).
    change (idx_run (set_feed s name f')) with (idx_run s).
    change (idx_pau (set_feed s name f')) with (idx_pau s).
    destruct (Z.eq_dec n name) as [->|Hne].
    + inversion Hg; subst g. rewrite Hc, Hcr. split; [exact Bf|]. split; [exact Hlh|]. split; [exact Hlen|].
      exists xf. repeat split; assumption.
    + exact (inv_feed s HI _ _ Hg).
  - intros n Hn. rewrite GF in Hn. destruct (Z.eq_dec n name) as [->|Hne]; [discriminate|].
    exact (inv_nofeed s HI _ Hn).
  - intros c n Hb. rewrite GB in Hb. destruct (inv_byctx s HI _ _ Hb) as (g & Hg & Hgc).
    rewrite GF. destruct (Z.eq_dec n name) as [->|Hne].
    + exists f'. split; [reflexivity|]. assert (g = f) by congruence. subst g. congruence.
    + exists g. split; assumption.
  - intros c x Hx. change (get c (ctxs s) = Some x) in Hx.
    destruct (inv_ctx s HI _ _ Hx) as (Hlt & T1 & T2 & St & n & g & Hg & Hgc).
    unfold ctx_ok. change (next_ctx (set_feed s name f')) with (next_ctx s).
    repeat split; try assumption.
    destruct (Z.eq_dec n name) as [->|Hne].
    + exists name, f'. rewrite GF. destruct (Z.eq_dec name name); [|congruence].
      split; [reflexivity|]. assert (g = f) by congruence. subst g. congruence.
    + exists n, g. rewrite GF. destruct (Z.eq_dec n name); [congruence|]. split; assumption.
Qed.

(** ** The operations preserve the invariant *)

Lemma create_basic_bounds a : create_basic a = true ->
  1 <= c_lh a <= MaxLatestHistory /\ 1 <= c_thr a.
Proof.
  unfold create_basic. intros H.
  apply andb_prop in H. destruct H as [H H7]. apply andb_prop in H. destruct H as [H H6].
  apply andb_prop in H. destruct H as [H H5]. apply andb_prop in H. destruct H as [H H4].
  apply andb_prop in H. destruct H as [H H3]. apply andb_prop in H. destruct H as [H1 H2].
  clear H3 H4 H5 H6. unfold MaxLatestHistory in *.
  destruct (c_thr a <? 1) eqn:E; [rewrite orb_true_r in H7; discriminate|]. lia.
Qed.

Lemma Inv_create s a : Inv s -> Inv (snd (do_create s a)).
Proof.
  intros HI. unfold do_create.
  destruct (create_basic a) eqn:Hb; [|exact HI]. cbn [negb].
  destruct (has (c_name a) (feeds s)) eqn:Hh; [exact HI|].
  destruct (create_ctx_ok a); [|exact HI]. cbn [negb snd].
  destruct (create_basic_bounds a Hb) as [Hlh Hthr].
  set (name := c_name a) in *. set (c := next_ctx s).
  set (x := mkCtx (c_sender a) PAUSED (c_thr a) (c_nprov a) (c_timeout a)
                  (if c_freq a =? 0 then c_timeout a else c_freq a) 0 (c_thr a) false).
  set (f := mkFeed (c_agg a) (c_path a) (c_lh a) c (c_sender a)).
  assert (Hn : get name (feeds s) = None).
  { unfold has in Hh. destruct (get name (feeds s)); [discriminate|reflexivity]. }
  destruct (inv_nofeed s HI _ Hn) as (Vn & Rn & Pn).
  assert (Hctx_lt : forall n g, get n (feeds s) = Some g -> f_ctx g < c).
  { intros n g Hg. destruct (inv_feed s HI _ _ Hg) as (_ & _ & _ & x0 & Hx0 & _).
    destruct (inv_ctx s HI _ _ Hx0) as (Hlt & _). exact Hlt. }
  assert (Hbc : get c (byctx s) = None).
  { destruct (get c (byctx s)) as [n|] eqn:E; [|reflexivity].
    destruct (inv_byctx s HI _ _ E) as (g & Hg & Hgc). specialize (Hctx_lt _ _ Hg). lia. }
  unfold enqueue, set_feed. cbn [feeds byctx vals idx_run idx_pau ctxs next_ctx].
  replace (PAUSED =? RUNNING) with false by reflexivity.
  cbn [feeds byctx vals idx_run idx_pau ctxs next_ctx f_ctx].
  fold name. fold c. fold x. fold f. change (f_ctx f) with c.
  constructor; cbn [feeds byctx vals idx_run idx_pau ctxs next_ctx].
  - intros n g Hg. unfold feed_ok, feed_vals. cbn [feeds byctx vals idx_run idx_pau ctxs next_ctx].
    destruct (Z.eq_dec n name) as [->|Hne].
    + rewrite get_set_same in Hg. inversion Hg; subst g. cbn [f f_ctx f_lh f_creator].
      rewrite !get_set_same. split; [reflexivity|]. split; [exact Hlh|].
      unfold feed_vals in Vn. rewrite Vn. split; [simpl; lia|].
      exists x. split; [reflexivity|]. split; [reflexivity|].
      rewrite Rn, smem_sadd_same. split; reflexivity.
    + rewrite get_set_other in Hg by exact Hne.
      destruct (inv_feed s HI _ _ Hg) as (B & L & Len & x0 & Hx0 & C0 & R0 & P0).
      pose proof (Hctx_lt _ _ Hg) as Hlt.
      rewrite !get_set_other by lia. split; [exact B|]. split; [exact L|]. split; [exact Len|].
      exists x0. rewrite smem_sadd_other by exact Hne. repeat split; assumption.
  - intros n Hg. destruct (Z.eq_dec n name) as [->|Hne]; [rewrite get_set_same in Hg; discriminate|].
    rewrite get_set_other in Hg by exact Hne. destruct (inv_nofeed s HI _ Hg) as (V & R0 & P0).
    unfold nofeed_ok, feed_vals. cbn [feeds byctx vals idx_run idx_pau ctxs next_ctx].
    rewrite smem_sadd_other by exact Hne. repeat split; assumption.
  - intros c0 n Hb0. destruct (Z.eq_dec c0 c) as [->|Hne].
    + rewrite get_set_same in Hb0. inversion Hb0; subst n. exists f. rewrite get_set_same. split; reflexivity.
    + rewrite get_set_other in Hb0 by exact Hne. destruct (inv_byctx s HI _ _ Hb0) as (g & Hg & Hgc).
      assert (n <> name) by congruence. exists g. rewrite get_set_other by assumption. split; assumption.
  - intros c0 x0 Hx0. unfold ctx_ok. cbn [feeds byctx vals idx_run idx_pau ctxs next_ctx].
    destruct (Z.eq_dec c0 c) as [->|Hne].
    + rewrite get_set_same in Hx0. inversion Hx0; subst x0. cbn [x x_thr x_bthr x_state].
      split; [lia|]. split; [exact Hthr|]. split; [exact Hthr|]. split; [right; reflexivity|].
      exists name, f. rewrite get_set_same. split; reflexivity.
    + rewrite get_set_other in Hx0 by exact Hne.
      destruct (inv_ctx s HI _ _ Hx0) as (Hlt & T1 & T2 & St & n & g & Hg & Hgc).
      split; [lia|]. repeat split; try assumption.
      assert (n <> name) by congruence. exists n, g. rewrite get_set_other by assumption. split; assumption.
Qed.

Lemma feed_ctx_known s name f : Inv s -> get name (feeds s) = Some f ->
  exists x, get (f_ctx f) (ctxs s) = Some x /\ x_consumer x = f_creator f
            /\ smem name (idx_run s) = (x_state x =? RUNNING) /\ smem name (idx_pau s) = (x_state x =? PAUSED)
            /\ 1 <= x_thr x /\ 1 <= x_bthr x /\ (x_state x = RUNNING \/ x_state x = PAUSED).
Proof.
  intros HI Hf. destruct (inv_feed s HI _ _ Hf) as (_ & _ & _ & x & Hx & C & R & P).
  destruct (inv_ctx s HI _ _ Hx) as (_ & T1 & T2 & St & _). exists x. repeat split; assumption.
Qed.

Lemma start_state s name f x :
  dequeue_enqueue (set_ctx s (f_ctx f) x) name PAUSED RUNNING
  = upd_state s (f_ctx f) x (sadd name (idx_run s)) (srem name (idx_pau s)).
Proof. reflexivity. Qed.

Lemma pause_state s name c x :
  dequeue_enqueue (set_ctx s c x) name RUNNING PAUSED
  = upd_state s c x (srem name (idx_run s)) (sadd name (idx_pau s)).
Proof. reflexivity. Qed.

Lemma Inv_start s name sender : Inv s -> Inv (snd (do_start s name sender)).
Proof.
  intros HI. unfold do_start. destruct (sender <? 0); [exact HI|].
  destruct (get name (feeds s)) as [f|] eqn:Hf; [|exact HI].
  destruct (negb (sender =? f_creator f)); [exact HI|].
  destruct (get (f_ctx f) (ctxs s)) as [x|] eqn:Hx; [|exact HI].
  destruct (x_state x =? RUNNING); [exact HI|].
  destruct (negb (sender =? x_consumer x)); [exact HI|].
  destruct (negb (x_state x =? PAUSED)); [exact HI|]. cbn [snd]. rewrite start_state.
  destruct (feed_ctx_known s name f HI Hf) as (x0 & Hx0 & C & R & P & T1 & T2 & St).
  assert (x0 = x) by congruence. subst x0.
  apply (Inv_upd s name f x _ _ _ HI Hf Hx); cbn [ctx_with_state x_consumer x_thr x_bthr x_state].
  - reflexivity.
  - exact T1.
  - exact T2.
  - left; reflexivity.
  - apply smem_sadd_same.
  - apply smem_srem_same.
  - intros n Hne. rewrite smem_sadd_other, smem_srem_other by exact Hne. split; reflexivity.
Qed.

Lemma Inv_pause s name sender : Inv s -> Inv (snd (do_pause s name sender)).
Proof.
  intros HI. unfold do_pause. destruct (sender <? 0); [exact HI|].
  destruct (get name (feeds s)) as [f|] eqn:Hf; [|exact HI].
  destruct (negb (sender =? f_creator f)); [exact HI|].
  destruct (get (f_ctx f) (ctxs s)) as [x|] eqn:Hx; [|exact HI].
  destruct (negb (x_state x =? RUNNING)); [exact HI|].
  destruct (negb (sender =? x_consumer x)); [exact HI|]. cbn [snd]. rewrite pause_state.
  destruct (feed_ctx_known s name f HI Hf) as (x0 & Hx0 & C & R & P & T1 & T2 & St).
  assert (x0 = x) by congruence. subst x0.
  apply (Inv_upd s name f x _ _ _ HI Hf Hx); cbn [ctx_with_state x_consumer x_thr x_bthr x_state].
  - reflexivity.
  - exact T1.
  - exact T2.
  - right; reflexivity.
  - apply smem_srem_same.
  - apply smem_sadd_same.
  - intros n Hne. rewrite smem_sadd_other, smem_srem_other by exact Hne. split; reflexivity.
Qed.

(** service UpdateRequestContext touches neither consumer, state nor the batch *)
Lemma update_ctx_frame x a x' : update_ctx x a = Some x' ->
  x_consumer x' = x_consumer x /\ x_state x' = x_state x /\ x_bc x' = x_bc x
  /\ x_bthr x' = x_bthr x /\ x_open x' = x_open x /\ (1 <= x_thr x -> 1 <= x_thr x')
  /\ e_sender a = x_consumer x.
Proof.
  unfold update_ctx. intros H.
  destruct (negb (e_sender a =? x_consumer x)) eqn:E0; [discriminate|].
  destruct (x_state x =? COMPLETED); [discriminate|].
  destruct (e_dup a); [discriminate|].
  destruct (e_timeout a <? 0); [discriminate|].
  destruct (negb (e_timeout a =? 0) && negb (e_freq a =? 0) && (e_freq a <? uint64_of (e_timeout a))); [discriminate|].
  cbv zeta in H.
  destruct ((if e_nprov a =? 0 then x_nprov x else e_nprov a) <? (if e_thr a =? 0 then x_thr x else e_thr a)); [discriminate|].
  destruct (MaxRequestTimeout <? e_timeout a); [discriminate|].
  destruct ((if e_freq a =? 0 then x_freq x else e_freq a) <? uint64_of (if e_timeout a =? 0 then x_timeout x else e_timeout a)); [discriminate|].
  inversion H; subst x'. cbn [x_consumer x_state x_bc x_bthr x_open x_thr].
  repeat split; try reflexivity; [|lia].
  intros Hthr. destruct (0 <? (if e_thr a =? 0 then x_thr x else e_thr a)) eqn:E; lia.
Qed.

Lemma set_ctx_upd s c x : set_ctx s c x = upd_state s c x (idx_run s) (idx_pau s).
Proof. reflexivity. Qed.

Lemma edit_basic_lh a : edit_basic a = true -> e_lh a = 0 \/ 1 <= e_lh a <= MaxLatestHistory.
Proof.
  unfold edit_basic, MaxLatestHistory. intros H.
  apply andb_prop in H. destruct H as [H _]. apply andb_prop in H. destruct H as [H _].
  apply andb_prop in H. destruct H as [H _]. lia.
Qed.

Lemma Inv_edit s a : Inv s -> Inv (snd (do_edit s a)).
Proof.
  intros HI. unfold do_edit. destruct (edit_basic a) eqn:Hb; [|exact HI]. cbn [negb].
  destruct (get (e_name a) (feeds s)) as [f|] eqn:Hf; [|exact HI].
  destruct (negb (e_sender a =? f_creator f)); [exact HI|].
  destruct (get (f_ctx f) (ctxs s)) as [x|] eqn:Hx; [|exact HI].
  destruct (update_ctx x a) as [x'|] eqn:Hu; [|exact HI].
  destruct (update_ctx_frame x a x' Hu) as (U1 & U2 & U3 & U4 & U5 & U6 & _).
  destruct (feed_ctx_known s _ f HI Hf) as (x0 & Hx0 & C & R & P & T1 & T2 & St).
  assert (x0 = x) by congruence. subst x0.
  set (name := e_name a) in *.
  assert (HI1 : Inv (set_ctx s (f_ctx f) x')).
  { rewrite set_ctx_upd. apply (Inv_upd s name f x _ _ _ HI Hf Hx).
    - exact U1.
    - auto.
    - lia.
    - rewrite U2. exact St.
    - rewrite U2. exact R.
    - rewrite U2. exact P.
    - intros n _. split; reflexivity. }
  assert (Hf1 : get name (feeds (set_ctx s (f_ctx f) x')) = Some f) by exact Hf.
  destruct (inv_feed _ HI1 _ _ Hf1) as (_ & L1 & Len1 & _).
  cbv zeta. destruct (0 <? e_lh a) eqn:Hpos; cbn [snd].
  - destruct (edit_basic_lh a Hb) as [H0|Hlh]; [lia|].
    set (s1 := set_ctx s (f_ctx f) x') in *. set (l := feed_vals s1 name) in *.
    destruct (e_lh a <? Z.of_nat (length l)) eqn:Htrim.
    + assert (HI2 : Inv (set_vals s1 name (delete_oldest (Z.of_nat (length l) - e_lh a) l))).
      { eapply Inv_set_vals; eauto.
        pose proof (delete_oldest_length (Z.of_nat (length l) - e_lh a) l). lia. }
      apply (Inv_set_feed _ name f (mkFeed (f_agg f) (f_path f) (e_lh a) (f_ctx f) (f_creator f)) HI2 Hf eq_refl eq_refl Hlh). cbn [f_lh].
      unfold feed_vals, set_vals. cbn [vals]. rewrite get_set_same.
      pose proof (delete_oldest_length (Z.of_nat (length l) - e_lh a) l). lia.
    + apply (Inv_set_feed _ name f (mkFeed (f_agg f) (f_path f) (e_lh a) (f_ctx f) (f_creator f)) HI1 Hf eq_refl eq_refl Hlh). cbn [f_lh]. fold l. lia.
  - apply (Inv_set_feed _ name f f HI1 Hf eq_refl eq_refl L1 Len1).
Qed.

(** the response callback: nothing but the values of the context's feed can change *)
Lemma handler_response_cases s now c outs : Inv s ->
  handler_response s now c outs = (Ok, s)
  \/ (exists x name f, get c (ctxs s) = Some x /\ feed_by_ctx s c = Some (name, f)
        /\ outs <> [] /\ (Z.of_nat (length outs) <? x_bthr x) = false
        /\ handler_response s now c outs
           = (Ok, set_vals s name (set_feed_value (feed_vals s name) (x_bc x) (f_lh f)
                                     (aggregate (f_agg f) (map (extract (f_path f)) outs), now)))).
Proof.
  intros HI. unfold handler_response.
  destruct (get c (ctxs s)) as [x|] eqn:Hx; [|left; reflexivity].
  destruct (inv_ctx s HI _ _ Hx) as (_ & _ & T2 & _).
  destruct (ctx_has_feed s c x HI Hx) as (name & f & Hfb & Hf & Hc).
  destruct outs as [|o outs].
  - simpl length. destruct (Z.of_nat 0 <? x_bthr x) eqn:E; [left; reflexivity|]. lia.
  - destruct (Z.of_nat (length (o :: outs)) <? x_bthr x) eqn:E; [left; reflexivity|].
    right. exists x, name, f. rewrite Hfb. repeat split; try assumption. discriminate.
Qed.

Lemma Inv_handler_response s now c outs : Inv s ->
  let r := handler_response s now c outs in
  fst r = Ok /\ Inv (snd r) /\ feeds (snd r) = feeds s /\ byctx (snd r) = byctx s /\ ctxs (snd r) = ctxs s
  /\ idx_run (snd r) = idx_run s /\ idx_pau (snd r) = idx_pau s /\ next_ctx (snd r) = next_ctx s.
Proof.
  intros HI. cbv zeta.
  destruct (handler_response_cases s now c outs HI) as [E|(x & name & f & Hx & Hfb & Hne & Hthr & E)]; rewrite E.
  - cbn [fst snd]. split; [reflexivity|]. split; [exact HI|]. repeat split.
  - cbn [fst snd]. split; [reflexivity|]. split; [|repeat split].
    destruct (feed_by_ctx_spec s c name f HI Hfb) as [Hf Hc].
    destruct (inv_feed s HI _ _ Hf) as (_ & L & _).
    eapply Inv_set_vals; eauto. apply set_feed_value_length. lia.
Qed.

Lemma close_batch_upd s c x : get c (ctxs s) = Some x ->
  close_batch s c = upd_state s c (ctx_with_open x false) (idx_run s) (idx_pau s).
Proof. intros H. unfold close_batch. rewrite H. reflexivity. Qed.

Lemma Inv_close_batch s c : Inv s -> Inv (close_batch s c).
Proof.
  intros HI. destruct (get c (ctxs s)) as [x|] eqn:Hx.
  - rewrite (close_batch_upd s c x Hx).
    destruct (ctx_has_feed s c x HI Hx) as (name & f & _ & Hf & Hc). subst c.
    destruct (feed_ctx_known s name f HI Hf) as (x0 & Hx0 & C & R & P & T1 & T2 & St).
    assert (x0 = x) by congruence. subst x0.
    apply (Inv_upd s name f x _ _ _ HI Hf Hx); cbn [ctx_with_open x_consumer x_thr x_bthr x_state]; try assumption.
    + reflexivity.
    + intros n _. split; reflexivity.
  - unfold close_batch. rewrite Hx. exact HI.
Qed.

Lemma autopause_state s now c x name f :
  get c (ctxs s) = Some x -> feed_by_ctx s c = Some (name, f) ->
  do_sev s now (SAutoPause c)
  = (Ok, upd_state s c (ctx_with_open (ctx_with_state x PAUSED) false)
                   (srem name (idx_run s)) (sadd name (idx_pau s))).
Proof.
  intros Hx Hfb. unfold do_sev. rewrite Hx. unfold handler_state_changed.
  set (x1 := ctx_with_open (ctx_with_state x PAUSED) false).
  assert (G1 : get c (ctxs (set_ctx s c x1)) = Some x1) by (unfold set_ctx; cbn [ctxs]; apply get_set_same).
  assert (G2 : feed_by_ctx (set_ctx s c x1) c = Some (name, f)) by exact Hfb.
  rewrite G1, G2. reflexivity.
Qed.

Lemma Inv_do_sev s now e : Inv s -> fst (do_sev s now e) = Ok /\ Inv (snd (do_sev s now e)).
Proof.
  intros HI. destruct e as [c|c bc bthr outs tol|c].
  - unfold do_sev. destruct (get c (ctxs s)) as [x|] eqn:Hx; [|split; [reflexivity|exact HI]].
    cbn [fst snd]. split; [reflexivity|]. rewrite set_ctx_upd.
    destruct (ctx_has_feed s c x HI Hx) as (name & f & _ & Hf & Hc). subst c.
    destruct (feed_ctx_known s name f HI Hf) as (x0 & Hx0 & C & R & P & T1 & T2 & St).
    assert (x0 = x) by congruence. subst x0.
    apply (Inv_upd s name f x _ _ _ HI Hf Hx); cbn [x_consumer x_thr x_bthr x_state]; try assumption.
    + reflexivity.
    + intros n _. split; reflexivity.
  - unfold do_sev. destruct (Inv_handler_response s now c outs HI) as (Hok & HI1 & _).
    destruct (handler_response s now c outs) as [o s1]. cbn [fst snd] in *. subst o.
    cbn [fst snd]. split; [reflexivity|]. apply Inv_close_batch. exact HI1.
  - destruct (get c (ctxs s)) as [x|] eqn:Hx.
    + destruct (ctx_has_feed s c x HI Hx) as (name & f & Hfb & Hf & Hc).
      rewrite (autopause_state s now c x name f Hx Hfb). cbn [fst snd]. split; [reflexivity|].
      subst c. destruct (feed_ctx_known s name f HI Hf) as (x0 & Hx0 & C & R & P & T1 & T2 & St).
      assert (x0 = x) by congruence. subst x0.
      apply (Inv_upd s name f x _ _ _ HI Hf Hx); cbn [ctx_with_open ctx_with_state x_consumer x_thr x_bthr x_state].
      * reflexivity.
      * exact T1.
      * exact T2.
      * right; reflexivity.
      * apply smem_srem_same.
      * apply smem_sadd_same.
      * intros n Hne. rewrite smem_sadd_other, smem_srem_other by exact Hne. split; reflexivity.
    + unfold do_sev. rewrite Hx. split; [reflexivity|exact HI].
Qed.

Lemma Inv_do_sevs now evs : forall s, Inv s -> fst (do_sevs s now evs) = Ok /\ Inv (snd (do_sevs s now evs)).
Proof.
  induction evs as [|e evs IH]; intros s HI; simpl; [split; [reflexivity|exact HI]|].
  destruct (Inv_do_sev s now e HI) as [Hok HI1].
  destruct (do_sev s now e) as [o s1]. cbn [fst snd] in *. subst o. apply IH. exact HI1.
Qed.

Lemma exec_svc s now evs : Inv s -> exec s (now, OSvc evs) = (Ok, snd (do_sevs s now evs)).
Proof.
  intros HI. unfold exec. destruct (Inv_do_sevs now evs s HI) as [Hok _].
  destruct (do_sevs s now evs) as [o s1]. cbn [fst snd] in *. subst o. reflexivity.
Qed.

Lemma Inv_exec s st : Inv s -> Inv (exec_state s st).
Proof.
  intros HI. unfold exec_state. destruct st as [now o]. destruct o.
  - apply Inv_create. exact HI.
  - apply Inv_start. exact HI.
  - apply Inv_pause. exact HI.
  - apply Inv_edit. exact HI.
  - exact HI.
  - rewrite exec_svc by exact HI. apply Inv_do_sevs. exact HI.
  - exact HI.
Qed.

Lemma Inv_run h : forall s, Inv s -> Inv (run s h).
Proof. induction h as [|st h IH]; intros s HI; simpl; [exact HI|]. apply IH. apply Inv_exec. exact HI. Qed.

(** no panic: [err.Error()] on a nil error cannot happen because batch thresholds are >= 1 *)
Lemma exec_no_abort s st : Inv s -> fst (exec s st) <> Abort.
Proof.
  intros HI. destruct st as [now o]. destruct o; cbn [exec].
  - unfold do_create. destruct (negb (create_basic a)); [discriminate|].
    destruct (has (c_name a) (feeds s)); [discriminate|]. destruct (negb (create_ctx_ok a)); discriminate.
  - unfold do_start. destruct (sender <? 0); [discriminate|]. destruct (get name (feeds s)); [|discriminate].
    destruct (negb (sender =? f_creator f)); [discriminate|]. destruct (get (f_ctx f) (ctxs s)); [|discriminate].
    destruct (x_state s0 =? RUNNING); [discriminate|]. destruct (negb (sender =? x_consumer s0)); [discriminate|].
    destruct (negb (x_state s0 =? PAUSED)); discriminate.
  - unfold do_pause. destruct (sender <? 0); [discriminate|]. destruct (get name (feeds s)); [|discriminate].
    destruct (negb (sender =? f_creator f)); [discriminate|]. destruct (get (f_ctx f) (ctxs s)); [|discriminate].
    destruct (negb (x_state s0 =? RUNNING)); [discriminate|]. destruct (negb (sender =? x_consumer s0)); discriminate.
  - unfold do_edit. destruct (negb (edit_basic a)); [discriminate|]. destruct (get (e_name a) (feeds s)); [|discriminate].
    destruct (negb (e_sender a =? f_creator f)); [discriminate|]. destruct (get (f_ctx f) (ctxs s)); [|discriminate].
    destruct (update_ctx s0 a); [|discriminate]. cbv zeta. destruct (0 <? e_lh a); discriminate.
  - discriminate.
  - change (fst (exec s (now, OSvc evs)) <> Abort). rewrite exec_svc by exact HI. discriminate.
  - discriminate.
Qed.

(** ** Batch counters: every stored key is below the current batch (or equal to it once the
    batch has been completed) *)
Definition batch_bound (x : sctx) : Z := x_bc x + (if x_open x then 0 else 1).

Definition KeysInv (s : state) : Prop :=
  forall name f x, get name (feeds s) = Some f -> get (f_ctx f) (ctxs s) = Some x ->
    keys_below (batch_bound x) (feed_vals s name).

Lemma KeysInv_init : KeysInv init.
Proof. intros name f x H. discriminate. Qed.

(** the service module completes a batch only while it is running (BatchState = BATCHRUNNING):
    the hypothesis on histories, checked on every run by [Check.sevs_consistent] *)
Definition sev_wfb (s : state) (e : sev) : bool :=
  match e with
  | SDone c _ _ _ _ => match get c (ctxs s) with Some x => x_open x | None => true end
  | _ => true
  end.
Fixpoint sevs_wfb (s : state) (now : Z) (evs : list sev) : bool :=
  match evs with
  | [] => true
  | e :: evs' => sev_wfb s e && sevs_wfb (snd (do_sev s now e)) now evs'
  end.
Definition step_wfb (s : state) (st : step) : bool :=
  match snd st with OSvc evs => sevs_wfb s (fst st) evs | _ => true end.
Fixpoint run_wfb (s : state) (h : list step) : bool :=
  match h with
  | [] => true
  | st :: h' => step_wfb s st && run_wfb (exec_state s st) h'
  end.

Lemma Keys_upd s name f x x' run' pau' :
  Inv s -> KeysInv s -> get name (feeds s) = Some f -> get (f_ctx f) (ctxs s) = Some x ->
  batch_bound x <= batch_bound x' ->
  KeysInv (upd_state s (f_ctx f) x' run' pau').
Proof.
  intros HI HK Hf Hx Hb n g x0. unfold upd_state, feed_vals. cbn [feeds ctxs vals]. intros Hg Hx0.
  destruct (Z.eq_dec n name) as [->|Hne].
  - assert (g = f) by congruence. subst g. rewrite get_set_same in Hx0. inversion Hx0; subst x0.
    eapply keys_below_mono; [exact Hb|]. exact (HK _ _ _ Hf Hx).
  - assert (Hc : f_ctx g <> f_ctx f) by (intros Hc; apply Hne; eapply feed_ctx_inj; eauto).
    rewrite get_set_other in Hx0 by exact Hc. exact (HK _ _ _ Hg Hx0).
Qed.

Lemma Keys_set_vals s name f x l' :
  KeysInv s -> get name (feeds s) = Some f -> get (f_ctx f) (ctxs s) = Some x ->
  keys_below (batch_bound x) l' -> KeysInv (set_vals s name l').
Proof.
  intros HK Hf Hx Hl n g x0. unfold set_vals, feed_vals. cbn [feeds ctxs vals]. intros Hg Hx0.
  destruct (Z.eq_dec n name) as [->|Hne].
  - assert (g = f) by congruence. subst g. assert (x0 = x) by congruence. subst x0.
    rewrite get_set_same. exact Hl.
  - rewrite get_set_other by exact Hne. exact (HK _ _ _ Hg Hx0).
Qed.

Lemma Keys_set_feed s name f f' :
  KeysInv s -> get name (feeds s) = Some f -> f_ctx f' = f_ctx f -> KeysInv (set_feed s name f').
Proof.
  intros HK Hf Hc n g x0. unfold set_feed, feed_vals. cbn [feeds ctxs vals]. intros Hg Hx0.
  destruct (Z.eq_dec n name) as [->|Hne].
  - rewrite get_set_same in Hg. inversion Hg; subst g. rewrite Hc in Hx0. exact (HK _ _ _ Hf Hx0).
  - rewrite get_set_other in Hg by exact Hne. exact (HK _ _ _ Hg Hx0).
Qed.

Lemma Keys_create s a : Inv s -> KeysInv s -> KeysInv (snd (do_create s a)).
Proof.
  intros HI HK. unfold do_create.
  destruct (create_basic a) eqn:Hb; [|exact HK]. cbn [negb].
  destruct (has (c_name a) (feeds s)) eqn:Hh; [exact HK|].
  destruct (create_ctx_ok a); [|exact HK]. cbn [negb snd].
  assert (Hn : get (c_name a) (feeds s) = None).
  { unfold has in Hh. destruct (get (c_name a) (feeds s)); [discriminate|reflexivity]. }
  destruct (inv_nofeed s HI _ Hn) as (Vn & _).
  intros n g x0. unfold enqueue, set_feed, feed_vals. cbn [feeds byctx vals idx_run idx_pau ctxs next_ctx].
  replace (PAUSED =? RUNNING) with false by reflexivity. cbn [feeds byctx vals idx_run idx_pau ctxs next_ctx].
  intros Hg Hx0. destruct (Z.eq_dec n (c_name a)) as [->|Hne].
  - unfold feed_vals in Vn. rewrite Vn. constructor.
  - rewrite get_set_other in Hg by exact Hne.
    destruct (inv_feed s HI _ _ Hg) as (_ & _ & _ & x1 & Hx1 & _).
    destruct (inv_ctx s HI _ _ Hx1) as (Hlt & _).
    rewrite get_set_other in Hx0 by lia. exact (HK _ _ _ Hg Hx0).
Qed.

Lemma Keys_start s name sender : Inv s -> KeysInv s -> KeysInv (snd (do_start s name sender)).
Proof.
  intros HI HK. unfold do_start. destruct (sender <? 0); [exact HK|].
  destruct (get name (feeds s)) as [f|] eqn:Hf; [|exact HK].
  destruct (negb (sender =? f_creator f)); [exact HK|].
  destruct (get (f_ctx f) (ctxs s)) as [x|] eqn:Hx; [|exact HK].
  destruct (x_state x =? RUNNING); [exact HK|].
  destruct (negb (sender =? x_consumer x)); [exact HK|].
  destruct (negb (x_state x =? PAUSED)); [exact HK|]. cbn [snd]. rewrite start_state.
  eapply Keys_upd; eauto. unfold batch_bound. cbn [ctx_with_state x_bc x_open]. lia.
Qed.

Lemma Keys_pause s name sender : Inv s -> KeysInv s -> KeysInv (snd (do_pause s name sender)).
Proof.
  intros HI HK. unfold do_pause. destruct (sender <? 0); [exact HK|].
  destruct (get name (feeds s)) as [f|] eqn:Hf; [|exact HK].
  destruct (negb (sender =? f_creator f)); [exact HK|].
  destruct (get (f_ctx f) (ctxs s)) as [x|] eqn:Hx; [|exact HK].
  destruct (negb (x_state x =? RUNNING)); [exact HK|].
  destruct (negb (sender =? x_consumer x)); [exact HK|]. cbn [snd]. rewrite pause_state.
  eapply Keys_upd; eauto. unfold batch_bound. cbn [ctx_with_state x_bc x_open]. lia.
Qed.

(** what an edit does to the state, in one equation *)
Definition edit_result (s : state) (a : edit_args) (f : feed) (x' : sctx) : state :=
  let s1 := set_ctx s (f_ctx f) x' in
  if 0 <? e_lh a then
    set_feed (set_vals s1 (e_name a) (edit_trim (e_lh a) (feed_vals s (e_name a)))) (e_name a)
             (mkFeed (f_agg f) (f_path f) (e_lh a) (f_ctx f) (f_creator f))
  else set_feed s1 (e_name a) f.

Lemma do_edit_cases s a :
  (fst (do_edit s a) = Rej /\ snd (do_edit s a) = s)
  \/ exists f x x', edit_basic a = true /\ get (e_name a) (feeds s) = Some f /\ e_sender a = f_creator f
       /\ get (f_ctx f) (ctxs s) = Some x /\ update_ctx x a = Some x' /\ fst (do_edit s a) = Ok
       /\ (forall n, feed_vals (snd (do_edit s a)) n = feed_vals (edit_result s a f x') n)
       /\ feeds (snd (do_edit s a)) = feeds (edit_result s a f x')
       /\ ctxs (snd (do_edit s a)) = ctxs (edit_result s a f x').
Proof.
  unfold do_edit. destruct (edit_basic a) eqn:Hb; [|left; split; reflexivity]. cbn [negb].
  destruct (get (e_name a) (feeds s)) as [f|] eqn:Hf; [|left; split; reflexivity].
  destruct (e_sender a =? f_creator f) eqn:Hs; [|left; split; reflexivity]. cbn [negb].
  destruct (get (f_ctx f) (ctxs s)) as [x|] eqn:Hx; [|left; split; reflexivity].
  destruct (update_ctx x a) as [x'|] eqn:Hu; [|left; split; reflexivity].
  right. exists f, x, x'. split; [reflexivity|]. split; [reflexivity|]. split; [lia|].
  split; [exact Hx|]. split; [exact Hu|].
  unfold edit_result. cbv zeta. destruct (0 <? e_lh a) eqn:Hpos; cbn [fst snd].
  - split; [reflexivity|].
    change (feed_vals (set_ctx s (f_ctx f) x') (e_name a)) with (feed_vals s (e_name a)).
    unfold edit_trim. cbv zeta.
    destruct (e_lh a <? Z.of_nat (length (feed_vals s (e_name a)))) eqn:Ht.
    + split; [|split]; reflexivity.
    + split; [|split; reflexivity]. intros n. unfold feed_vals, set_feed, set_vals, set_ctx. cbn [vals].
      destruct (Z.eq_dec n (e_name a)) as [->|Hne].
      * rewrite get_set_same. reflexivity.
      * rewrite get_set_other by exact Hne. reflexivity.
  - split; [reflexivity|]. split; [|split]; reflexivity.
Qed.

Lemma Keys_edit s a : Inv s -> KeysInv s -> KeysInv (snd (do_edit s a)).
Proof.
  intros HI HK.
  destruct (do_edit_cases s a) as [[_ E]|(f & x & x' & Hb & Hf & Hs & Hx & Hu & _ & FV & FE & CE)]; [rewrite E; exact HK|].
  intros n g x0. rewrite FV, FE, CE. revert n g x0. fold (KeysInv (edit_result s a f x')).
  destruct (update_ctx_frame x a x' Hu) as (U1 & U2 & U3 & U4 & U5 & U6 & _).
  assert (Hbb : batch_bound x' = batch_bound x) by (unfold batch_bound; rewrite U3, U5; reflexivity).
  assert (HK1 : KeysInv (set_ctx s (f_ctx f) x')).
  { rewrite set_ctx_upd. eapply Keys_upd; eauto. lia. }
  assert (Hx1 : get (f_ctx f) (ctxs (set_ctx s (f_ctx f) x')) = Some x').
  { unfold set_ctx. cbn [ctxs]. apply get_set_same. }
  unfold edit_result. cbv zeta. destruct (0 <? e_lh a).
  - eapply Keys_set_feed; [|exact Hf|reflexivity].
    eapply Keys_set_vals; [exact HK1|exact Hf|exact Hx1|].
    apply edit_trim_keys. rewrite Hbb. exact (HK _ _ _ Hf Hx).
  - eapply Keys_set_feed; [exact HK1|exact Hf|reflexivity].
Qed.

(** the response callback as one equation *)
Lemma handler_response_eq s now c outs x name f :
  Inv s -> get c (ctxs s) = Some x -> feed_by_ctx s c = Some (name, f) ->
  handler_response s now c outs
  = (Ok, if x_bthr x <=? Z.of_nat (length outs)
         then set_vals s name (set_feed_value (feed_vals s name) (x_bc x) (f_lh f)
                                 (aggregate (f_agg f) (map (extract (f_path f)) outs), now))
         else s).
Proof.
  intros HI Hx Hfb. destruct (inv_ctx s HI _ _ Hx) as (_ & _ & T2 & _).
  unfold handler_response. rewrite Hx, Hfb. destruct outs as [|o outs].
  - simpl length. destruct (Z.of_nat 0 <? x_bthr x) eqn:E; [|lia].
    destruct (x_bthr x <=? Z.of_nat 0) eqn:E2; [lia|reflexivity].
  - destruct (Z.of_nat (length (o :: outs)) <? x_bthr x) eqn:E;
      destruct (x_bthr x <=? Z.of_nat (length (o :: outs))) eqn:E2; try lia; reflexivity.
Qed.

Lemma feed_vals_close_batch s c n : feed_vals (close_batch s c) n = feed_vals s n.
Proof. unfold close_batch. destruct (get c (ctxs s)); reflexivity. Qed.

Lemma Keys_do_sev s now e : Inv s -> KeysInv s -> sev_wfb s e = true -> KeysInv (snd (do_sev s now e)).
Proof.
  intros HI HK Hwf. destruct e as [c|c bc bthr outs tol|c].
  - unfold do_sev. destruct (get c (ctxs s)) as [x|] eqn:Hx; [|exact HK]. cbn [snd].
    rewrite set_ctx_upd. destruct (ctx_has_feed s c x HI Hx) as (name & f & _ & Hf & Hc). subst c.
    eapply Keys_upd; eauto. unfold batch_bound. cbn [x_bc x_open]. destruct (x_open x); lia.
  - unfold do_sev. destruct (get c (ctxs s)) as [x|] eqn:Hx.
    + destruct (ctx_has_feed s c x HI Hx) as (name & f & Hfb & Hf & Hc).
      rewrite (handler_response_eq s now c outs x name f HI Hx Hfb). cbn [snd].
      unfold sev_wfb in Hwf. rewrite Hx in Hwf. subst c.
      pose proof (HK _ _ _ Hf Hx) as Hkeys. unfold batch_bound in Hkeys. rewrite Hwf, Z.add_0_r in Hkeys.
      set (s1 := if x_bthr x <=? Z.of_nat (length outs) then _ else s).
      assert (HI1 : Inv s1 /\ KeysInv (upd_state s1 (f_ctx f) (ctx_with_open x false) (idx_run s1) (idx_pau s1))).
      { unfold s1. destruct (x_bthr x <=? Z.of_nat (length outs)).
        - destruct (inv_feed s HI _ _ Hf) as (_ & L & _).
          set (l' := set_feed_value _ _ _ _).
          assert (HIv : Inv (set_vals s name l')).
          { eapply Inv_set_vals; eauto. apply set_feed_value_length. lia. }
          split; [exact HIv|].
          intros n g x0. unfold upd_state, set_vals, feed_vals. cbn [feeds ctxs vals]. intros Hg Hx0.
          destruct (Z.eq_dec n name) as [->|Hne].
          + assert (g = f) by congruence. subst g. rewrite get_set_same in Hx0. inversion Hx0; subst x0.
            rewrite get_set_same. unfold batch_bound. cbn [ctx_with_open x_bc x_open].
            apply set_feed_value_keys. exact Hkeys.
          + assert (Hc : f_ctx g <> f_ctx f) by (intros Hc; apply Hne; eapply feed_ctx_inj; eauto).
            rewrite get_set_other in Hx0 by exact Hc. rewrite get_set_other by exact Hne.
            exact (HK _ _ _ Hg Hx0).
        - split; [exact HI|]. eapply Keys_upd; eauto.
          unfold batch_bound. cbn [ctx_with_open x_bc x_open]. destruct (x_open x); lia. }
      assert (Hx1 : get (f_ctx f) (ctxs s1) = Some x).
      { unfold s1. destruct (x_bthr x <=? Z.of_nat (length outs)); exact Hx. }
      rewrite (close_batch_upd s1 _ x Hx1). exact (proj2 HI1).
    + unfold handler_response. rewrite Hx. cbn [snd]. unfold close_batch. rewrite Hx. exact HK.
  - destruct (get c (ctxs s)) as [x|] eqn:Hx.
    + destruct (ctx_has_feed s c x HI Hx) as (name & f & Hfb & Hf & Hc).
      rewrite (autopause_state s now c x name f Hx Hfb). cbn [snd]. subst c.
      eapply Keys_upd; eauto. unfold batch_bound. cbn [ctx_with_open ctx_with_state x_bc x_open].
      destruct (x_open x); lia.
    + unfold do_sev. rewrite Hx. exact HK.
Qed.

Lemma Keys_do_sevs now evs : forall s, Inv s -> KeysInv s -> sevs_wfb s now evs = true ->
  KeysInv (snd (do_sevs s now evs)).
Proof.
  induction evs as [|e evs IH]; intros s HI HK Hwf; simpl; [exact HK|].
  simpl in Hwf. apply andb_prop in Hwf. destruct Hwf as [Hw1 Hw2].
  destruct (Inv_do_sev s now e HI) as [Hok HI1]. pose proof (Keys_do_sev s now e HI HK Hw1) as HK1.
  destruct (do_sev s now e) as [o s1]. cbn [fst snd] in *. subst o. apply IH; assumption.
Qed.

Lemma Keys_exec s st : Inv s -> KeysInv s -> step_wfb s st = true -> KeysInv (exec_state s st).
Proof.
  intros HI HK Hwf. unfold exec_state. destruct st as [now o]. destruct o.
  - apply Keys_create; assumption.
  - apply Keys_start; assumption.
  - apply Keys_pause; assumption.
  - apply Keys_edit; assumption.
  - exact HK.
  - rewrite exec_svc by exact HI. apply Keys_do_sevs; assumption.
  - exact HK.
Qed.

Lemma Keys_run h : forall s, Inv s -> KeysInv s -> run_wfb s h = true -> KeysInv (run s h).
Proof.
  induction h as [|st h IH]; intros s HI HK Hwf; simpl; [exact HK|].
  simpl in Hwf. apply andb_prop in Hwf. destruct Hwf as [Hw1 Hw2].
  apply IH; [apply Inv_exec; exact HI|apply Keys_exec; assumption|exact Hw2].
Qed.

(** ** C17, clause by clause *)

Lemma query_values_newest s n : query_values s n = newest_first (feed_vals s n).
Proof. reflexivity. Qed.

Ltac destruct_matches :=
  repeat match goal with |- context [match ?t with _ => _ end] => destruct t end.

(** (a) a completed batch: exactly one value if the threshold was met - the aggregate, stamped
    with the block time, put in front of the newest [latest_history - 1] old values - and nothing
    otherwise; no other feed is touched *)
Lemma batch_completion_lemma s now c bc bthr outs tol x name f :
  Inv s -> KeysInv s -> get c (ctxs s) = Some x -> feed_by_ctx s c = Some (name, f) -> x_open x = true ->
  let s' := snd (do_sev s now (SDone c bc bthr outs tol)) in
  (forall n, n <> name -> query_values s' n = query_values s n)
  /\ query_values s' name =
     if x_bthr x <=? Z.of_nat (length outs)
     then (aggregate (f_agg f) (map (extract (f_path f)) outs), now)
            :: firstn (Z.to_nat (f_lh f - 1)) (query_values s name)
     else query_values s name.
Proof.
  intros HI HK Hx Hfb Hopen. cbv zeta. unfold do_sev.
  rewrite (handler_response_eq s now c outs x name f HI Hx Hfb). cbn [snd].
  destruct (feed_by_ctx_spec s c name f HI Hfb) as [Hf Hc]. subst c.
  pose proof (HK _ _ _ Hf Hx) as Hkeys. unfold batch_bound in Hkeys. rewrite Hopen, Z.add_0_r in Hkeys.
  split.
  - intros n Hne. rewrite !query_values_newest, feed_vals_close_batch.
    destruct (x_bthr x <=? Z.of_nat (length outs)); [|reflexivity].
    unfold feed_vals, set_vals. cbn [vals]. rewrite get_set_other by exact Hne. reflexivity.
  - rewrite !query_values_newest, feed_vals_close_batch.
    destruct (x_bthr x <=? Z.of_nat (length outs)); [|reflexivity].
    unfold feed_vals at 1. unfold set_vals. cbn [vals]. rewrite get_set_same.
    apply newest_first_set_feed_value. exact Hkeys.
Qed.

(** (b) the stored value is the configured aggregate in the specification's sense *)
Lemma aggregate_is_spec f o outs p :
  in_range (extract p o) ->
  aggregate f (map (extract p) (o :: outs)) = spec_aggregate f (map (extract p) (o :: outs)).
Proof. intros H. simpl map. apply aggregate_spec. exact H. Qed.

(** (c) no other service event and no message except a successful edit changes any stored value *)
Lemma sev_values_frame s now e n :
  (forall c bc bthr outs tol, e <> SDone c bc bthr outs tol) ->
  query_values (snd (do_sev s now e)) n = query_values s n.
Proof.
  intros Hne. rewrite !query_values_newest. f_equal. destruct e as [c|c bc bthr outs tol|c].
  - unfold do_sev. destruct (get c (ctxs s)); reflexivity.
  - exfalso. eapply Hne. reflexivity.
  - unfold do_sev. destruct (get c (ctxs s)); [|reflexivity]. cbn [snd].
    unfold handler_state_changed. destruct_matches; reflexivity.
Qed.

Lemma create_values s a n : query_values (snd (do_create s a)) n = query_values s n.
Proof. unfold do_create. destruct_matches; reflexivity. Qed.
Lemma start_values s name sender n : query_values (snd (do_start s name sender)) n = query_values s n.
Proof. unfold do_start. destruct_matches; reflexivity. Qed.
Lemma pause_values s name sender n : query_values (snd (do_pause s name sender)) n = query_values s n.
Proof. unfold do_pause. destruct_matches; reflexivity. Qed.

(** (d) an edit keeps exactly the newest [latest_history] values (all of them when it grows) *)
Definition is_ok (o : outcome) : bool := match o with Ok => true | _ => false end.
Definition edit_applies (s : state) (a : edit_args) (n : Z) : bool :=
  (e_name a =? n) && (0 <? e_lh a) && is_ok (fst (do_edit s a)).

Lemma edit_values s a n :
  query_values (snd (do_edit s a)) n =
  if edit_applies s a n then firstn (Z.to_nat (e_lh a)) (query_values s n) else query_values s n.
Proof.
  unfold edit_applies.
  destruct (do_edit_cases s a) as [[E1 E2]|(f & x & x' & Hb & Hf & Hs & Hx & Hu & Hok & FV & _)].
  - rewrite E1, E2. cbn [is_ok]. rewrite andb_false_r. reflexivity.
  - rewrite Hok. cbn [is_ok]. rewrite andb_true_r.
    rewrite !query_values_newest, FV. unfold edit_result. cbv zeta.
    destruct (0 <? e_lh a) eqn:Hpos.
    + rewrite andb_true_r. unfold feed_vals at 1. unfold set_feed, set_vals, set_ctx. cbn [vals].
      destruct (e_name a =? n) eqn:En.
      * assert (e_name a = n) by lia. subst n. rewrite get_set_same.
        apply newest_first_edit_trim. lia.
      * rewrite get_set_other by lia. reflexivity.
    + rewrite andb_false_r. reflexivity.
Qed.

(** ** The reference ledger of one feed: every value ever produced (newest first) and how many
    of them are kept.  It is updated by the two rules of the property only:
    a produced value is kept and the window is capped by latest-history; an edit caps the window. *)
Definition ledger := (list fval * Z)%type.

Definition ledger_sev (s : state) (now name : Z) (e : sev) (L : ledger) : ledger :=
  match e with
  | SDone c _ _ outs _ =>
      match get c (ctxs s), feed_by_ctx s c with
      | Some x, Some (n, f) =>
          if (n =? name) && (x_bthr x <=? Z.of_nat (length outs))
          then ((aggregate (f_agg f) (map (extract (f_path f)) outs), now) :: fst L,
                Z.min (f_lh f) (snd L + 1))
          else L
      | _, _ => L
      end
  | _ => L
  end.

Fixpoint ledger_sevs (s : state) (now name : Z) (evs : list sev) (L : ledger) : ledger :=
  match evs with
  | [] => L
  | e :: evs' => ledger_sevs (snd (do_sev s now e)) now name evs' (ledger_sev s now name e L)
  end.

Definition ledger_step (s : state) (st : step) (name : Z) (L : ledger) : ledger :=
  match snd st with
  | OSvc evs => ledger_sevs s (fst st) name evs L
  | OEdit a => if edit_applies s a name then (fst L, Z.min (snd L) (e_lh a)) else L
  | _ => L
  end.

Fixpoint ledger_run (s : state) (h : list step) (name : Z) (L : ledger) : ledger :=
  match h with
  | [] => L
  | st :: h' => ledger_run (exec_state s st) h' name (ledger_step s st name L)
  end.

(** the feed's query answers with the newest [snd L] values of the ledger *)
Definition ledger_ok (s : state) (name : Z) (L : ledger) : Prop :=
  query_values s name = firstn (Z.to_nat (snd L)) (fst L) /\ 0 <= snd L <= Z.of_nat (length (fst L)).

Lemma ledger_sev_ok s now name e L :
  Inv s -> KeysInv s -> sev_wfb s e = true -> ledger_ok s name L ->
  ledger_ok (snd (do_sev s now e)) name (ledger_sev s now name e L).
Proof.
  intros HI HK Hwf [Hq Hb].
  destruct e as [c|c bc bthr outs tol|c];
    try (unfold ledger_sev; split; [rewrite sev_values_frame by (intros; discriminate); exact Hq|exact Hb]).
  unfold ledger_sev, ledger_ok. destruct (get c (ctxs s)) as [x|] eqn:Hx.
  - destruct (ctx_has_feed s c x HI Hx) as (n0 & f & Hfb & Hf & Hc). rewrite Hfb.
    unfold sev_wfb in Hwf. rewrite Hx in Hwf.
    destruct (batch_completion_lemma s now c bc bthr outs tol x n0 f HI HK Hx Hfb Hwf) as [Hoth Hme].
    cbv zeta in Hoth, Hme. destruct (n0 =? name) eqn:En.
    + assert (n0 = name) by lia. subst n0. cbn [andb]. rewrite Hme.
      destruct (x_bthr x <=? Z.of_nat (length outs)); [|split; assumption].
      destruct (inv_feed s HI _ _ Hf) as (_ & L1 & _).
      cbn [fst snd]. split.
      * rewrite Hq. apply firstn_window_push; lia.
      * simpl length. lia.
    + cbn [andb]. split; [|exact Hb]. rewrite Hoth by lia. exact Hq.
  - split; [|exact Hb]. unfold do_sev, handler_response. rewrite Hx. cbn [snd].
    unfold close_batch. rewrite Hx. exact Hq.
Qed.

Lemma ledger_sevs_ok now name evs : forall s L,
  Inv s -> KeysInv s -> sevs_wfb s now evs = true -> ledger_ok s name L ->
  ledger_ok (snd (do_sevs s now evs)) name (ledger_sevs s now name evs L).
Proof.
  induction evs as [|e evs IH]; intros s L HI HK Hwf HL; simpl; [exact HL|].
  simpl in Hwf. apply andb_prop in Hwf. destruct Hwf as [Hw1 Hw2].
  destruct (Inv_do_sev s now e HI) as [Hok HI1]. pose proof (Keys_do_sev s now e HI HK Hw1) as HK1.
  pose proof (ledger_sev_ok s now name e L HI HK Hw1 HL) as HL1.
  destruct (do_sev s now e) as [o s1]. cbn [fst snd] in *. subst o. apply IH; assumption.
Qed.

Lemma ledger_step_ok s st name L :
  Inv s -> KeysInv s -> step_wfb s st = true -> ledger_ok s name L ->
  ledger_ok (exec_state s st) name (ledger_step s st name L).
Proof.
  intros HI HK Hwf [Hq Hb]. unfold exec_state, ledger_step. destruct st as [now o]. destruct o; cbn [fst snd exec].
  - split; [rewrite create_values; exact Hq|exact Hb].
  - split; [rewrite start_values; exact Hq|exact Hb].
  - split; [rewrite pause_values; exact Hq|exact Hb].
  - unfold ledger_ok. rewrite edit_values. destruct (edit_applies s a name) eqn:Ea; [|split; assumption].
    cbn [fst snd]. unfold edit_applies in Ea.
    apply andb_prop in Ea. destruct Ea as [Ea _]. apply andb_prop in Ea. destruct Ea as [_ Hpos].
    split; [|lia]. rewrite Hq. apply firstn_window_trim; lia.
  - split; assumption.
  - change (ledger_ok (snd (exec s (now, OSvc evs))) name (ledger_sevs s now name evs L)).
    rewrite exec_svc by exact HI. cbn [snd]. apply ledger_sevs_ok; try assumption. split; assumption.
  - split; assumption.
Qed.

Lemma ledger_run_ok h : forall s name L,
  Inv s -> KeysInv s -> run_wfb s h = true -> ledger_ok s name L ->
  ledger_ok (run s h) name (ledger_run s h name L).
Proof.
  induction h as [|st h IH]; intros s name L HI HK Hwf HL; simpl; [exact HL|].
  simpl in Hwf. apply andb_prop in Hwf. destruct Hwf as [Hw1 Hw2].
  apply IH; [apply Inv_exec; exact HI|apply Keys_exec; assumption|exact Hw2|].
  apply ledger_step_ok; assumption.
Qed.

Lemma ledger_ok_init name : ledger_ok init name ([], 0).
Proof. split; [reflexivity|simpl; lia]. Qed.

(** the window never exceeds latest-history *)
Lemma stored_at_most_lh s name f : Inv s -> get name (feeds s) = Some f ->
  Z.of_nat (length (query_values s name)) <= f_lh f /\ 1 <= f_lh f <= MaxLatestHistory.
Proof.
  intros HI Hf. destruct (inv_feed s HI _ _ Hf) as (_ & L & Len & _).
  rewrite query_values_newest, newest_first_length. split; assumption.
Qed.

Lemma no_feed_no_values s name : Inv s -> get name (feeds s) = None -> query_values s name = [].
Proof.
  intros HI Hn. destruct (inv_nofeed s HI _ Hn) as (V & _). rewrite query_values_newest, V. reflexivity.
Qed.

(** (e) the running / paused index mirrors the state of the service context *)
Lemma mirror_lemma s name f : Inv s -> get name (feeds s) = Some f ->
  exists x, get (f_ctx f) (ctxs s) = Some x
    /\ (x_state x = RUNNING \/ x_state x = PAUSED)
    /\ (smem name (idx_run s) = true <-> x_state x = RUNNING)
    /\ (smem name (idx_pau s) = true <-> x_state x = PAUSED).
Proof.
  intros HI Hf. destruct (feed_ctx_known s name f HI Hf) as (x & Hx & _ & R & P & _ & _ & St).
  exists x. split; [exact Hx|]. split; [exact St|]. rewrite R, P. split; lia.
Qed.

Lemma unknown_feed_not_indexed s name : Inv s -> get name (feeds s) = None ->
  smem name (idx_run s) = false /\ smem name (idx_pau s) = false.
Proof. intros HI Hn. destruct (inv_nofeed s HI _ Hn) as (_ & R & P). split; assumption. Qed.

(** the automatic pause (consumer out of funds): the context is paused and the feed moves to the
    paused index in the same step *)
Lemma auto_pause_lemma s now c x name f :
  Inv s -> get c (ctxs s) = Some x -> feed_by_ctx s c = Some (name, f) ->
  let s' := snd (do_sev s now (SAutoPause c)) in
  (exists x', get c (ctxs s') = Some x' /\ x_state x' = PAUSED)
  /\ smem name (idx_run s') = false /\ smem name (idx_pau s') = true.
Proof.
  intros HI Hx Hfb. cbv zeta. rewrite (autopause_state s now c x name f Hx Hfb). cbn [snd].
  unfold upd_state. cbn [ctxs idx_run idx_pau]. split; [|split].
  - eexists. rewrite get_set_same. split; reflexivity.
  - apply smem_srem_same.
  - apply smem_sadd_same.
Qed.

(** (f) only the creator controls the feed *)
Lemma stranger_rejected s now o name sender :
  control_of o = Some (name, sender) ->
  (forall f, get name (feeds s) = Some f -> sender <> f_creator f) ->
  exec s (now, o) = (Rej, s).
Proof.
  intros Hc Hs. destruct o; simpl in Hc; try discriminate; inversion Hc; subst; cbn [exec].
  - unfold do_start. destruct (sender <? 0); [reflexivity|].
    destruct (get name (feeds s)) as [f|] eqn:Hf; [|reflexivity].
    specialize (Hs f eq_refl). destruct (sender =? f_creator f) eqn:E; [lia|reflexivity].
  - unfold do_pause. destruct (sender <? 0); [reflexivity|].
    destruct (get name (feeds s)) as [f|] eqn:Hf; [|reflexivity].
    specialize (Hs f eq_refl). destruct (sender =? f_creator f) eqn:E; [lia|reflexivity].
  - unfold do_edit. destruct (negb (edit_basic a)); [reflexivity|].
    destruct (get (e_name a) (feeds s)) as [f|] eqn:Hf; [|reflexivity].
    specialize (Hs f eq_refl). destruct (e_sender a =? f_creator f) eqn:E; [lia|reflexivity].
Qed.

Lemma direct_service_message_rejected s now name sender kind :
  exec s (now, ODirect name sender kind) = (Rej, s).
Proof. reflexivity. Qed.

Lemma do_sev_feeds s now e : Inv s -> feeds (snd (do_sev s now e)) = feeds s.
Proof.
  intros HI. destruct e as [c|c bc bthr outs tol|c].
  - unfold do_sev. destruct (get c (ctxs s)); reflexivity.
  - unfold do_sev. destruct (Inv_handler_response s now c outs HI) as (Hok & _ & F & _).
    destruct (handler_response s now c outs) as [o s1]. cbn [fst snd] in *. subst o. cbn [snd].
    rewrite <- F. unfold close_batch. destruct (get c (ctxs s1)); reflexivity.
  - unfold do_sev. destruct (get c (ctxs s)); [|reflexivity]. cbn [snd].
    unfold handler_state_changed. destruct_matches; reflexivity.
Qed.

Lemma do_sevs_feeds now evs : forall s, Inv s -> feeds (snd (do_sevs s now evs)) = feeds s.
Proof.
  induction evs as [|e evs IH]; intros s HI; simpl; [reflexivity|].
  destruct (Inv_do_sev s now e HI) as [Hok HI1]. pose proof (do_sev_feeds s now e HI) as F.
  destruct (do_sev s now e) as [o s1]. cbn [fst snd] in *. subst o. rewrite IH by exact HI1. exact F.
Qed.

(** a feed never disappears and its creator, context, aggregate function and value path never change *)
Definition same_identity (f f' : feed) : Prop :=
  f_creator f' = f_creator f /\ f_ctx f' = f_ctx f /\ f_agg f' = f_agg f /\ f_path f' = f_path f.

Lemma feed_identity_exec s st name f : Inv s -> get name (feeds s) = Some f ->
  exists f', get name (feeds (exec_state s st)) = Some f' /\ same_identity f f'.
Proof.
  intros HI Hf. unfold exec_state. destruct st as [now o]. destruct o; cbn [exec].
  - unfold do_create. destruct (negb (create_basic a)); [exists f; repeat split; assumption|].
    destruct (has (c_name a) (feeds s)) eqn:Hh; [exists f; repeat split; assumption|].
    destruct (negb (create_ctx_ok a)); [exists f; repeat split; assumption|]. cbn [snd].
    exists f. split; [|repeat split]. unfold enqueue, set_feed.
    replace (PAUSED =? RUNNING) with false by reflexivity. cbn [feeds].
    rewrite get_set_other; [exact Hf|]. intros E. subst name. unfold has in Hh. rewrite Hf in Hh. discriminate.
  - exists f. split; [|repeat split]. rewrite <- Hf. f_equal. unfold do_start. destruct_matches; reflexivity.
  - exists f. split; [|repeat split]. rewrite <- Hf. f_equal. unfold do_pause. destruct_matches; reflexivity.
  - destruct (do_edit_cases s a) as [[_ E]|(g & x & x' & Hb & Hg & Hs & Hx & Hu & _ & _ & FE & _)].
    + rewrite E. exists f. repeat split; assumption.
    + rewrite FE. unfold edit_result. cbv zeta. destruct (0 <? e_lh a); unfold set_feed; cbn [feeds].
      * destruct (Z.eq_dec name (e_name a)) as [->|Hne].
        -- rewrite get_set_same. eexists. split; [reflexivity|]. assert (g = f) by congruence. subst g.
           repeat split.
        -- rewrite get_set_other by exact Hne. exists f. repeat split; assumption.
      * destruct (Z.eq_dec name (e_name a)) as [->|Hne].
        -- rewrite get_set_same. exists g. split; [reflexivity|]. assert (g = f) by congruence. subst g.
           repeat split.
        -- rewrite get_set_other by exact Hne. exists f. repeat split; assumption.
  - exists f. repeat split; assumption.
  - change (exists f', get name (feeds (snd (exec s (now, OSvc evs)))) = Some f' /\ same_identity f f').
    rewrite exec_svc by exact HI. cbn [snd]. rewrite do_sevs_feeds by exact HI.
    exists f. repeat split; assumption.
  - exists f. repeat split; assumption.
Qed.

Lemma feed_identity_run h : forall s name f, Inv s -> get name (feeds s) = Some f ->
  exists f', get name (feeds (run s h)) = Some f' /\ same_identity f f'.
Proof.
  induction h as [|st h IH]; intros s name f HI Hf; simpl.
  - exists f. repeat split; assumption.
  - destruct (feed_identity_exec s st name f HI Hf) as (f1 & Hf1 & I1 & I2 & I3 & I4).
    destruct (IH _ name f1 (Inv_exec s st HI) Hf1) as (f2 & Hf2 & J1 & J2 & J3 & J4).
    exists f2. split; [exact Hf2|]. unfold same_identity. repeat split; congruence.
Qed.

(** ** The statements over whole histories, from the initial state *)

Lemma reachable_Inv h : Inv (run init h).
Proof. apply Inv_run. exact Inv_init. Qed.

Lemma reachable_Keys h : run_wfb init h = true -> KeysInv (run init h).
Proof. intros Hwf. apply Keys_run; [exact Inv_init|exact KeysInv_init|exact Hwf]. Qed.

Lemma one_value_per_successful_batch_lemma :
  forall (h : list step) (now c bc bthr : Z) (outs : list output) (tol : Z) (x : sctx) (name : Z) (f : feed),
    run_wfb init h = true ->
    let s := run init h in
    get c (ctxs s) = Some x -> feed_by_ctx s c = Some (name, f) -> x_open x = true ->
    let s' := snd (do_sev s now (SDone c bc bthr outs tol)) in
    1 <= x_bthr x
    /\ (forall n, n <> name -> query_values s' n = query_values s n)
    /\ query_values s' name =
       if x_bthr x <=? Z.of_nat (length outs)
       then (aggregate (f_agg f) (map (extract (f_path f)) outs), now)
              :: firstn (Z.to_nat (f_lh f - 1)) (query_values s name)
       else query_values s name.
Proof.
  intros h now c bc bthr outs tol x name f Hwf s Hx Hfb Hopen.
  pose proof (reachable_Inv h) as HI. pose proof (reachable_Keys h Hwf) as HK.
  destruct (inv_ctx _ HI _ _ Hx) as (_ & _ & T2 & _). split; [exact T2|].
  exact (batch_completion_lemma _ now c bc bthr outs tol x name f HI HK Hx Hfb Hopen).
Qed.

Lemma stamped_with_block_time_lemma :
  forall (h : list step) (now c bc bthr : Z) (outs : list output) (tol : Z) (x : sctx) (name : Z) (f : feed),
    run_wfb init h = true ->
    let s := run init h in
    get c (ctxs s) = Some x -> feed_by_ctx s c = Some (name, f) -> x_open x = true ->
    x_bthr x <= Z.of_nat (length outs) ->
    exists d rest, query_values (snd (do_sev s now (SDone c bc bthr outs tol))) name = (d, now) :: rest.
Proof.
  intros h now c bc bthr outs tol x name f Hwf s Hx Hfb Hopen Hmet.
  destruct (one_value_per_successful_batch_lemma h now c bc bthr outs tol x name f Hwf Hx Hfb Hopen) as (_ & _ & Hq).
  cbv zeta in Hq. fold s in Hq. rewrite Hq. destruct (x_bthr x <=? Z.of_nat (length outs)) eqn:E; [|lia].
  eexists. eexists. reflexivity.
Qed.

(** everything else leaves every stored value alone, except that a successful edit trims *)
Lemma values_change_only_by_batches_and_edits_lemma :
  forall (h : list step) (st : step) (n : Z),
    let s := run init h in
    match snd st with
    | OSvc _ => True
    | OEdit a => query_values (exec_state s st) n =
                 if edit_applies s a n then firstn (Z.to_nat (e_lh a)) (query_values s n) else query_values s n
    | _ => query_values (exec_state s st) n = query_values s n
    end.
Proof.
  intros h [now o] n s. unfold exec_state. destruct o; cbn [snd fst exec].
  - apply create_values.
  - apply start_values.
  - apply pause_values.
  - apply edit_values.
  - reflexivity.
  - exact I.
  - reflexivity.
Qed.

Lemma sev_other_than_completion_lemma :
  forall (s : state) (now : Z) (e : sev) (n : Z),
    (forall c bc bthr outs tol, e <> SDone c bc bthr outs tol) ->
    query_values (snd (do_sev s now e)) n = query_values s n.
Proof. intros. apply sev_values_frame. assumption. Qed.

Lemma value_is_configured_aggregate_lemma :
  forall (agg : Z) (p : Z) (o : output) (outs : list output),
    in_range (extract p o) ->
    let data := map (extract p) (o :: outs) in
    exists a : q, qwf a /\ aggregate agg data = round8 a
      /\ (agg = AGG_MAX -> is_max a data)
      /\ (agg = AGG_MIN -> is_min a data)
      /\ (agg <> AGG_MAX -> agg <> AGG_MIN ->
          (toQ a == Qsum (map toQ data) / inject_Z (Z.of_nat (length data)))%Q).
Proof.
  intros agg p o outs Hr data.
  assert (Hwf : Forall qwf data) by apply extract_all_wf.
  assert (Hne : data <> []) by (unfold data; simpl; discriminate).
  destruct Hr as [Hr1 Hr2].
  unfold aggregate. unfold AGG_MAX, AGG_MIN in *. destruct (agg =? 0) eqn:E1; [|destruct (agg =? 1) eqn:E2].
  - exists (agg_max data). unfold data. simpl map. rewrite agg_max_spec by exact Hr1.
    pose proof (spec_max_is_max _ _ Hwf) as Hm. split.
    + destruct Hm as [Hin _]. rewrite Forall_forall in Hwf. apply Hwf. exact Hin.
    + split; [reflexivity|]. split; [intros _; exact Hm|]. split; intros; lia.
  - exists (agg_min data). unfold data. simpl map. rewrite agg_min_spec by exact Hr2.
    pose proof (spec_min_is_min _ _ Hwf) as Hm. split.
    + destruct Hm as [Hin _]. rewrite Forall_forall in Hwf. apply Hwf. exact Hin.
    + split; [reflexivity|]. split; [intros; lia|]. split; [intros _; exact Hm|]. intros; lia.
  - exists (agg_avg data). split; [apply agg_avg_wf; assumption|]. split; [reflexivity|].
    split; [intros; lia|]. split; [intros; lia|]. intros _ _. apply agg_avg_is_mean; assumption.
Qed.

Lemma rounded_to_8_decimals_lemma :
  forall (n d : Z), 0 < d ->
    let r := round8 (n, d) in
    2 * Z.abs (r * d - n * scale8) <= d
    /\ (2 * Z.abs (r * d - n * scale8) = d -> Z.even r = true)
    /\ (forall z, Z.abs (r * d - n * scale8) <= Z.abs (z * d - n * scale8)).
Proof.
  intros n d Hd r. destruct (round8_nearest n d Hd) as [H1 H2]. split; [exact H1|]. split; [exact H2|].
  intros z. apply round8_best. exact Hd.
Qed.

Lemma keeps_newest_latest_history_lemma :
  forall (h : list step) (name : Z),
    run_wfb init h = true ->
    let L := ledger_run init h name ([], 0) in
    query_values (run init h) name = firstn (Z.to_nat (snd L)) (fst L)
    /\ 0 <= snd L <= Z.of_nat (length (fst L))
    /\ (forall f, get name (feeds (run init h)) = Some f -> snd L <= f_lh f <= MaxLatestHistory).
Proof.
  intros h name Hwf L.
  destruct (ledger_run_ok h init name ([], 0) Inv_init KeysInv_init Hwf (ledger_ok_init name)) as [Hq Hb].
  fold L in Hq, Hb. split; [exact Hq|]. split; [exact Hb|].
  intros f Hf. destruct (stored_at_most_lh _ name f (reachable_Inv h) Hf) as [Hlen Hlh].
  rewrite Hq, firstn_length in Hlen. lia.
Qed.

(** the two rules of the ledger, spelled out *)
Lemma ledger_rule_batch_lemma :
  forall (s : state) (now name c bc bthr : Z) (outs : list output) (tol : Z) (x : sctx) (f : feed) (L : ledger),
    get c (ctxs s) = Some x -> feed_by_ctx s c = Some (name, f) ->
    ledger_sev s now name (SDone c bc bthr outs tol) L =
    if x_bthr x <=? Z.of_nat (length outs)
    then ((aggregate (f_agg f) (map (extract (f_path f)) outs), now) :: fst L, Z.min (f_lh f) (snd L + 1))
    else L.
Proof. intros. unfold ledger_sev. rewrite H, H0, Z.eqb_refl. reflexivity. Qed.

Lemma ledger_rule_edit_lemma :
  forall (s : state) (now : Z) (a : edit_args) (L : ledger),
    0 < e_lh a -> fst (do_edit s a) = Ok ->
    ledger_step s (now, OEdit a) (e_name a) L = (fst L, Z.min (snd L) (e_lh a)).
Proof.
  intros s now a L Hpos Hok. unfold ledger_step, edit_applies. cbn [snd]. rewrite Hok, Z.eqb_refl.
  destruct (0 <? e_lh a) eqn:E; [reflexivity|lia].
Qed.

Lemma state_mirrors_context_lemma :
  forall (h : list step) (name : Z),
    let s := run init h in
    match get name (feeds s) with
    | Some f => exists x, get (f_ctx f) (ctxs s) = Some x
                  /\ (x_state x = RUNNING \/ x_state x = PAUSED)
                  /\ (smem name (idx_run s) = true <-> x_state x = RUNNING)
                  /\ (smem name (idx_pau s) = true <-> x_state x = PAUSED)
    | None => smem name (idx_run s) = false /\ smem name (idx_pau s) = false
    end.
Proof.
  intros h name s. destruct (get name (feeds s)) as [f|] eqn:Hf.
  - apply mirror_lemma; [apply reachable_Inv|exact Hf].
  - apply unknown_feed_not_indexed; [apply reachable_Inv|exact Hf].
Qed.

Lemma auto_pause_mirrored_lemma :
  forall (h : list step) (now c : Z) (x : sctx),
    let s := run init h in
    get c (ctxs s) = Some x ->
    exists name f, feed_by_ctx s c = Some (name, f) /\
      let s' := snd (do_sev s now (SAutoPause c)) in
      (exists x', get c (ctxs s') = Some x' /\ x_state x' = PAUSED)
      /\ smem name (idx_run s') = false /\ smem name (idx_pau s') = true.
Proof.
  intros h now c x s Hx. pose proof (reachable_Inv h) as HI.
  destruct (ctx_has_feed _ c x HI Hx) as (name & f & Hfb & _). exists name, f. split; [exact Hfb|].
  exact (auto_pause_lemma _ now c x name f HI Hx Hfb).
Qed.

Lemma creator_is_permanent_lemma :
  forall (h h' : list step) (name : Z) (f : feed),
    get name (feeds (run init h)) = Some f ->
    exists f', get name (feeds (run init (h ++ h'))) = Some f' /\ same_identity f f'.
Proof.
  intros h h' name f Hf.
  assert (E : forall l s, run s (l ++ h') = run (run s l) h').
  { induction l as [|st l IH]; intros s; simpl; [reflexivity|apply IH]. }
  rewrite E. apply feed_identity_run; [apply reachable_Inv|exact Hf].
Qed.

Lemma no_panic_lemma : forall (h : list step) (st : step), fst (exec (run init h) st) <> Abort.
Proof. intros h st. apply exec_no_abort. apply reachable_Inv. Qed.

(** ** Closed form of the window while latest-history is not edited *)

Definition step_keeps_lh (s : state) (st : step) (name : Z) : bool :=
  match snd st with OEdit a => negb (edit_applies s a name) | _ => true end.
Fixpoint no_lh_editb (s : state) (h : list step) (name : Z) : bool :=
  match h with
  | [] => true
  | st :: h' => step_keeps_lh s st name && no_lh_editb (exec_state s st) h' name
  end.

Lemma feed_unchanged_exec s st name f : Inv s -> get name (feeds s) = Some f ->
  step_keeps_lh s st name = true -> get name (feeds (exec_state s st)) = Some f.
Proof.
  intros HI Hf Hk. unfold exec_state. destruct st as [now o]. unfold step_keeps_lh in Hk. cbn [snd] in Hk.
  destruct o; cbn [exec].
  - unfold do_create. destruct (negb (create_basic a)); [exact Hf|].
    destruct (has (c_name a) (feeds s)) eqn:Hh; [exact Hf|].
    destruct (negb (create_ctx_ok a)); [exact Hf|]. cbn [snd].
    unfold enqueue, set_feed. replace (PAUSED =? RUNNING) with false by reflexivity. cbn [feeds].
    rewrite get_set_other; [exact Hf|]. intros E. subst name. unfold has in Hh. rewrite Hf in Hh. discriminate.
  - rewrite <- Hf. f_equal. unfold do_start. destruct_matches; reflexivity.
  - rewrite <- Hf. f_equal. unfold do_pause. destruct_matches; reflexivity.
  - destruct (do_edit_cases s a) as [[_ E]|(g & x & x' & Hb & Hg & Hs & Hx & Hu & Hok & _ & FE & _)].
    + rewrite E. exact Hf.
    + rewrite FE. unfold edit_applies in Hk. rewrite Hok in Hk. cbn [is_ok] in Hk. rewrite andb_true_r in Hk.
      unfold edit_result. cbv zeta. destruct (0 <? e_lh a) eqn:Hpos; unfold set_feed; cbn [feeds].
      * rewrite andb_true_r in Hk. rewrite get_set_other by lia. exact Hf.
      * destruct (Z.eq_dec name (e_name a)) as [->|Hne].
        -- rewrite get_set_same. congruence.
        -- rewrite get_set_other by exact Hne. exact Hf.
  - exact Hf.
  - change (get name (feeds (snd (exec s (now, OSvc evs)))) = Some f).
    rewrite exec_svc by exact HI. cbn [snd]. rewrite do_sevs_feeds by exact HI. exact Hf.
  - exact Hf.
Qed.

Lemma ledger_sevs_closed now name f evs : forall s all k,
  Inv s -> get name (feeds s) = Some f -> 0 <= k <= f_lh f ->
  exists new, ledger_sevs s now name evs (all, k) = (new ++ all, Z.min (f_lh f) (k + Z.of_nat (length new))).
Proof.
  induction evs as [|e evs IH]; intros s all k HI Hf Hk; simpl.
  - exists []. simpl. f_equal. lia.
  - destruct (Inv_do_sev s now e HI) as [_ HI1].
    assert (Hf1 : get name (feeds (snd (do_sev s now e))) = Some f) by (rewrite do_sev_feeds by exact HI; exact Hf).
    assert (Hstep : ledger_sev s now name e (all, k) = (all, k)
                    \/ exists v, ledger_sev s now name e (all, k) = (v :: all, Z.min (f_lh f) (k + 1))).
    { destruct e as [c|c bc bthr outs tol|c]; try (left; reflexivity). unfold ledger_sev.
      destruct (get c (ctxs s)) as [x|] eqn:Hx; [|left; reflexivity].
      destruct (feed_by_ctx s c) as [[n g]|] eqn:Hfb; [|left; reflexivity].
      destruct ((n =? name) && (x_bthr x <=? Z.of_nat (length outs))) eqn:E; [|left; reflexivity].
      right. apply andb_prop in E. destruct E as [En _]. assert (n = name) by lia. subst n.
      destruct (feed_by_ctx_spec s c name g HI Hfb) as [Hg _]. assert (g = f) by congruence. subst g.
      eexists. reflexivity. }
    destruct Hstep as [E|[v E]]; rewrite E.
    + apply IH; assumption.
    + destruct (IH (snd (do_sev s now e)) (v :: all) (Z.min (f_lh f) (k + 1)) HI1 Hf1 ltac:(lia)) as [new Hn].
      exists (new ++ [v]). rewrite Hn, <- app_assoc, app_length. simpl. f_equal. lia.
Qed.

Lemma ledger_run_closed h : forall s name f all k,
  Inv s -> get name (feeds s) = Some f -> no_lh_editb s h name = true -> 0 <= k <= f_lh f ->
  get name (feeds (run s h)) = Some f
  /\ exists new, ledger_run s h name (all, k) = (new ++ all, Z.min (f_lh f) (k + Z.of_nat (length new))).
Proof.
  induction h as [|st h IH]; intros s name f all k HI Hf Hno Hk; simpl.
  - split; [exact Hf|]. exists []. simpl. f_equal. lia.
  - simpl in Hno. apply andb_prop in Hno. destruct Hno as [Hn1 Hn2].
    pose proof (feed_unchanged_exec s st name f HI Hf Hn1) as Hf1.
    pose proof (Inv_exec s st HI) as HI1.
    assert (Hstep : exists new1, ledger_step s st name (all, k)
                     = (new1 ++ all, Z.min (f_lh f) (k + Z.of_nat (length new1)))).
    { unfold ledger_step. unfold step_keeps_lh in Hn1. destruct st as [now o]. cbn [snd fst] in *.
      destruct o; try (exists []; simpl; f_equal; lia).
      - destruct (edit_applies s a name); [discriminate|]. exists []. simpl. f_equal. lia.
      - apply ledger_sevs_closed; assumption. }
    destruct Hstep as [new1 E1]. rewrite E1.
    destruct (IH (exec_state s st) name f (new1 ++ all) (Z.min (f_lh f) (k + Z.of_nat (length new1)))
                 HI1 Hf1 Hn2 ltac:(lia)) as [Hf2 [new2 E2]].
    split; [exact Hf2|]. exists (new2 ++ new1). rewrite E2, <- app_assoc, app_length. f_equal. lia.
Qed.

Lemma ledger_run_app h1 : forall h2 s name L,
  ledger_run s (h1 ++ h2) name L = ledger_run (run s h1) h2 name (ledger_run s h1 name L).
Proof. induction h1 as [|st h1 IH]; intros; simpl; [reflexivity|apply IH]. Qed.

Lemma run_app h1 : forall h2 s, run s (h1 ++ h2) = run (run s h1) h2.
Proof. induction h1 as [|st h1 IH]; intros; simpl; [reflexivity|apply IH]. Qed.

Lemma run_wfb_app h1 : forall h2 s, run_wfb s (h1 ++ h2) = true -> run_wfb s h1 = true /\ run_wfb (run s h1) h2 = true.
Proof.
  induction h1 as [|st h1 IH]; intros h2 s H; simpl in *; [split; [reflexivity|exact H]|].
  apply andb_prop in H. destruct H as [H1 H2]. destruct (IH _ _ H2) as [A B]. rewrite H1, A. split; [reflexivity|exact B].
Qed.

(** while latest-history stays [lh]: the feed shows the newest min(lh, kept-before + produced-since)
    values; in particular, from the creation on, the newest min(lh, produced) *)
Lemma newest_min_lh_produced_lemma :
  forall (h1 h2 : list step) (name : Z) (f : feed),
    run_wfb init (h1 ++ h2) = true ->
    get name (feeds (run init h1)) = Some f ->
    no_lh_editb (run init h1) h2 name = true ->
    let L1 := ledger_run init h1 name ([], 0) in
    exists new,
      fst (ledger_run init (h1 ++ h2) name ([], 0)) = new ++ fst L1
      /\ query_values (run init (h1 ++ h2)) name
         = firstn (Z.to_nat (Z.min (f_lh f) (snd L1 + Z.of_nat (length new)))) (new ++ fst L1)
      /\ get name (feeds (run init (h1 ++ h2))) = Some f.
Proof.
  intros h1 h2 name f Hwf Hf Hno L1.
  destruct (run_wfb_app h1 h2 init Hwf) as [Hwf1 _].
  destruct (keeps_newest_latest_history_lemma h1 name Hwf1) as (_ & Hb1 & Hlh1). fold L1 in Hb1, Hlh1.
  specialize (Hlh1 f Hf).
  destruct (keeps_newest_latest_history_lemma (h1 ++ h2) name Hwf) as (Hq & _).
  rewrite ledger_run_app in Hq. fold L1 in Hq. rewrite ledger_run_app. fold L1.
  destruct (ledger_run_closed h2 (run init h1) name f (fst L1) (snd L1) (reachable_Inv h1) Hf Hno ltac:(lia))
    as [Hf2 [new E]].
  rewrite <- surjective_pairing in E. rewrite E in Hq. rewrite E. cbn [fst snd] in *.
  exists new. split; [reflexivity|]. split; [exact Hq|]. rewrite run_app. exact Hf2.
Qed.

(** ** The oracle price service (keeper.ModuleServiceRequest) *)

(** the window of the ledger is at least 1 as soon as a value has been produced *)
Definition window_pos (L : ledger) : Prop := 0 <= snd L /\ (fst L <> [] -> 1 <= snd L).

Lemma ledger_sev_pos s now name e L : Inv s -> window_pos L -> window_pos (ledger_sev s now name e L).
Proof.
  intros HI [H0 H1]. destruct e as [c|c bc bthr outs tol|c]; try (split; assumption). unfold ledger_sev.
  destruct (get c (ctxs s)) as [x|]; [|split; assumption].
  destruct (feed_by_ctx s c) as [[n f]|] eqn:Hfb; [|split; assumption].
  destruct ((n =? name) && (x_bthr x <=? Z.of_nat (length outs))); [|split; assumption].
  destruct (feed_by_ctx_spec s c n f HI Hfb) as [Hf _]. destruct (inv_feed s HI _ _ Hf) as (_ & Hlh & _).
  split; cbn [fst snd]; [lia|intros _; lia].
Qed.

Lemma ledger_sevs_pos now name evs : forall s L, Inv s -> window_pos L -> window_pos (ledger_sevs s now name evs L).
Proof.
  induction evs as [|e evs IH]; intros s L HI HP; simpl; [exact HP|].
  apply IH; [apply Inv_do_sev; exact HI|apply ledger_sev_pos; assumption].
Qed.

Lemma ledger_step_pos s st name L : Inv s -> window_pos L -> window_pos (ledger_step s st name L).
Proof.
  intros HI HP. unfold ledger_step. destruct st as [now o]. cbn [snd fst]. destruct o; try exact HP.
  - destruct (edit_applies s a name) eqn:Ea; [|exact HP]. unfold edit_applies in Ea.
    apply andb_prop in Ea. destruct Ea as [Ea _]. apply andb_prop in Ea. destruct Ea as [_ Hpos].
    destruct HP as [H0 H1]. split; cbn [fst snd]; [lia|intros Hne; specialize (H1 Hne); lia].
  - apply ledger_sevs_pos; assumption.
Qed.

Lemma ledger_run_pos h : forall s name L, Inv s -> window_pos L -> window_pos (ledger_run s h name L).
Proof.
  induction h as [|st h IH]; intros s name L HI HP; simpl; [exact HP|].
  apply IH; [apply Inv_exec; exact HI|apply ledger_step_pos; assumption].
Qed.

(** the price service answers from the newest value ever produced for the feed: 400 if the feed
    does not exist, 401 if no batch ever met its threshold, 402 if that newest value is older than
    5 minutes of block time, else 200 with exactly that value *)
Lemma price_service_lemma :
  forall (h : list step) (name now : Z),
    run_wfb init h = true ->
    let s := run init h in
    let L := ledger_run init h name ([], 0) in
    price_request s now name = price_answer (has name (feeds s)) (fst L) now
    /\ price_request s now name = price_answer (has name (feeds s)) (query_values s name) now.
Proof.
  intros h name now Hwf s L. split; [|reflexivity].
  destruct (keeps_newest_latest_history_lemma h name Hwf) as (Hq & _). fold s L in Hq.
  assert (HP : window_pos L).
  { apply ledger_run_pos; [exact Inv_init|]. split; cbn [fst snd]; [lia|intros E; exfalso; apply E; reflexivity]. }
  unfold price_request. rewrite Hq. unfold price_answer. destruct (negb (has name (feeds s))); [reflexivity|].
  destruct (fst L) as [|[d ts] r] eqn:E; [rewrite firstn_nil; reflexivity|].
  destruct HP as [_ H1]. assert (1 <= snd L) by (apply H1; rewrite E; intros E'; discriminate E').
  replace (Z.to_nat (snd L)) with (S (Z.to_nat (snd L - 1))) by lia. reflexivity.
Qed.

(** the price service does not change the state *)
Lemma price_is_a_read s now name code data : exec s (now, OPrice name code data) = (Ok, s).
Proof. reflexivity. Qed.
