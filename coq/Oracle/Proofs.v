(** * Oracle: invariants of the model and the C17 lemmas (induction over histories) *)
From Irismod Require Import Oracle.Model Oracle.Check Oracle.ProofsList.
From Coq Require Import ZifyBool.
Open Scope Z_scope.

(** ** Sets of names *)
Lemma smem_cons x y l : smem x (y :: l) = (x =? y) || smem x l.
Proof. reflexivity. Qed.

Lemma smem_sadd_same x l : smem x (sadd x l) = true.
Proof.
  unfold sadd. destruct (smem x l) eqn:E; [exact E|]. rewrite smem_cons, Z.eqb_refl. reflexivity.
Qed.

Lemma smem_sadd_other x y l : y <> x -> smem y (sadd x l) = smem y l.
Proof.
  intros Hne. unfold sadd. destruct (smem x l); [reflexivity|]. rewrite smem_cons.
  destruct (y =? x) eqn:E; [lia|reflexivity].
Qed.

Lemma smem_srem_same x l : smem x (srem x l) = false.
Proof.
  unfold srem, smem. induction l as [|y l IH]; simpl; [reflexivity|].
  destruct (y =? x) eqn:E; simpl; [exact IH|]. rewrite IH. destruct (x =? y) eqn:E2; [lia|reflexivity].
Qed.

Lemma smem_srem_other x y l : y <> x -> smem y (srem x l) = smem y l.
Proof.
  intros Hne. unfold srem, smem. induction l as [|z l IH]; simpl; [reflexivity|].
  destruct (z =? x) eqn:E; simpl.
  - rewrite IH. destruct (y =? z) eqn:E2; [lia|reflexivity].
  - rewrite IH. reflexivity.
Qed.

(** ** The state invariant *)

(** what must hold of an existing feed: reverse index, context known and below the id counter,
    latest-history within its bounds and respected by the store, the context's consumer is the
    creator, and the running / paused index MIRRORS the state of the service context *)
Definition feed_ok (s : state) (name : Z) (f : feed) : Prop :=
  get (f_ctx f) (byctx s) = Some name
  /\ 1 <= f_lh f <= MaxLatestHistory
  /\ Z.of_nat (length (feed_vals s name)) <= f_lh f
  /\ exists x, get (f_ctx f) (ctxs s) = Some x
       /\ x_consumer x = f_creator f
       /\ smem name (idx_run s) = (x_state x =? RUNNING)
       /\ smem name (idx_pau s) = (x_state x =? PAUSED).

Definition nofeed_ok (s : state) (name : Z) : Prop :=
  feed_vals s name = [] /\ smem name (idx_run s) = false /\ smem name (idx_pau s) = false.

Definition ctx_ok (s : state) (c : Z) (x : sctx) : Prop :=
  c < next_ctx s /\ 1 <= x_thr x /\ 1 <= x_bthr x
  /\ (x_state x = RUNNING \/ x_state x = PAUSED)
  /\ exists name f, get name (feeds s) = Some f /\ f_ctx f = c.

Record Inv (s : state) : Prop := mkInv {
  inv_feed : forall name f, get name (feeds s) = Some f -> feed_ok s name f;
  inv_nofeed : forall name, get name (feeds s) = None -> nofeed_ok s name;
  inv_byctx : forall c name, get c (byctx s) = Some name ->
              exists f, get name (feeds s) = Some f /\ f_ctx f = c;
  inv_ctx : forall c x, get c (ctxs s) = Some x -> ctx_ok s c x
}.

Lemma Inv_init : Inv init.
Proof.
  constructor; simpl; try discriminate.
  intros name _. repeat split.
Qed.

Lemma feed_ctx_inj s n1 f1 n2 f2 :
  Inv s -> get n1 (feeds s) = Some f1 -> get n2 (feeds s) = Some f2 -> f_ctx f1 = f_ctx f2 -> n1 = n2.
Proof.
  intros HI H1 H2 Hc.
  destruct (inv_feed s HI _ _ H1) as (B1 & _). destruct (inv_feed s HI _ _ H2) as (B2 & _).
  rewrite Hc in B1. congruence.
Qed.

Lemma feed_by_ctx_spec s c name f :
  Inv s -> feed_by_ctx s c = Some (name, f) -> get name (feeds s) = Some f /\ f_ctx f = c.
Proof.
  intros HI. unfold feed_by_ctx. destruct (get c (byctx s)) as [n|] eqn:Hb; [|discriminate].
  destruct (get n (feeds s)) as [g|] eqn:Hg; [|discriminate]. intros Heq. inversion Heq; subst.
  destruct (inv_byctx s HI _ _ Hb) as (f0 & Hf0 & Hc). split; [exact Hg|]. congruence.
Qed.

Lemma feed_by_ctx_of_feed s name f :
  Inv s -> get name (feeds s) = Some f -> feed_by_ctx s (f_ctx f) = Some (name, f).
Proof.
  intros HI Hf. destruct (inv_feed s HI _ _ Hf) as (Hb & _).
  unfold feed_by_ctx. rewrite Hb, Hf. reflexivity.
Qed.

Lemma ctx_has_feed s c x : Inv s -> get c (ctxs s) = Some x ->
  exists name f, feed_by_ctx s c = Some (name, f) /\ get name (feeds s) = Some f /\ f_ctx f = c.
Proof.
  intros HI Hx. destruct (inv_ctx s HI _ _ Hx) as (_ & _ & _ & _ & name & f & Hf & Hc).
  exists name, f. subst c. split; [apply feed_by_ctx_of_feed; assumption|auto].
Qed.

(** ** Three ways a state changes *)

(** (1) the context of feed [name] and the two indexes change *)
Definition upd_state (s : state) (c : Z) (x' : sctx) (run' pau' : list Z) : state :=
  mkState (feeds s) (byctx s) (vals s) run' pau' (set c x' (ctxs s)) (next_ctx s).

Lemma Inv_upd s name f x x' run' pau' :
  Inv s -> get name (feeds s) = Some f -> get (f_ctx f) (ctxs s) = Some x ->
  x_consumer x' = x_consumer x -> 1 <= x_thr x' -> 1 <= x_bthr x' ->
  (x_state x' = RUNNING \/ x_state x' = PAUSED) ->
  smem name run' = (x_state x' =? RUNNING) -> smem name pau' = (x_state x' =? PAUSED) ->
  (forall n, n <> name -> smem n run' = smem n (idx_run s) /\ smem n pau' = smem n (idx_pau s)) ->
  Inv (upd_state s (f_ctx f) x' run' pau').
Proof.
  intros HI Hf Hx Hcons Hthr Hbthr Hst Hrun Hpau Hoth.
  constructor; unfold upd_state; cbn [feeds byctx vals idx_run idx_pau ctxs next_ctx].
  - intros n g Hg. destruct (inv_feed s HI _ _ Hg) as (B & L & Len & x0 & Hx0 & C0 & R0 & P0).
    unfold feed_ok, feed_vals. cbn [feeds byctx vals idx_run idx_pau ctxs next_ctx].
    split; [exact B|]. split; [exact L|]. split; [exact Len|].
    destruct (Z.eq_dec n name) as [->|Hne].
    + assert (g = f) by congruence. subst g. exists x'. rewrite get_set_same.
      repeat split; try assumption. rewrite Hcons. congruence.
    + assert (Hc : f_ctx g <> f_ctx f).
      { intros Hc. apply Hne. eapply feed_ctx_inj; eauto. }
      exists x0. rewrite get_set_other by exact Hc. destruct (Hoth n Hne) as [E1 E2].
      rewrite E1, E2. repeat split; assumption.
  - intros n Hn. destruct (inv_nofeed s HI _ Hn) as (V & R0 & P0).
    assert (Hne : n <> name) by congruence. destruct (Hoth n Hne) as [E1 E2].
    unfold nofeed_ok, feed_vals. cbn [feeds byctx vals idx_run idx_pau ctxs next_ctx].
    rewrite E1, E2. repeat split; assumption.
  - exact (inv_byctx s HI).
  - intros c x0 Hx0. unfold ctx_ok. cbn [feeds byctx vals idx_run idx_pau ctxs next_ctx].
    destruct (Z.eq_dec c (f_ctx f)) as [->|Hne].
    + rewrite get_set_same in Hx0. inversion Hx0; subst x0.
      destruct (inv_ctx s HI _ _ Hx) as (Hlt & _ & _ & _ & Hex). repeat split; assumption.
    + rewrite get_set_other in Hx0 by exact Hne. exact (inv_ctx s HI _ _ Hx0).
Qed.

(** (2) the stored values of feed [name] change, staying within latest-history *)
Lemma Inv_set_vals s name f l' :
  Inv s -> get name (feeds s) = Some f -> Z.of_nat (length l') <= f_lh f ->
  Inv (set_vals s name l').
Proof.
  intros HI Hf Hlen.
  assert (FV : forall n, feed_vals (set_vals s name l') n = if Z.eq_dec n name then l' else feed_vals s n).
  { intros n. unfold feed_vals, set_vals. cbn [vals]. destruct (Z.eq_dec n name) as [->|Hne].
    - rewrite get_set_same. reflexivity.
    - rewrite get_set_other by exact Hne. reflexivity. }
  constructor.
  - intros n g Hg. change (get n (feeds s) = Some g) in Hg.
    destruct (inv_feed s HI _ _ Hg) as (B & L & Len & Hex).
    unfold feed_ok. rewrite FV. split; [exact B|]. split; [exact L|]. split; [|exact Hex].
    destruct (Z.eq_dec n name) as [->|Hne]; [|exact Len]. assert (g = f) by congruence. subst g. exact Hlen.
  - intros n Hn. change (get n (feeds s) = None) in Hn. destruct (inv_nofeed s HI _ Hn) as (V & R0 & P0).
    unfold nofeed_ok. rewrite FV. destruct (Z.eq_dec n name) as [->|Hne]; [congruence|].
    repeat split; assumption.
  - exact (inv_byctx s HI).
  - exact (inv_ctx s HI).
Qed.

(** (3) the latest-history of feed [name] changes *)
Definition with_lh (f : feed) (lh : Z) : feed := mkFeed (f_agg f) (f_path f) lh (f_ctx f) (f_creator f).

Lemma Inv_set_feed s name f f' :
  Inv s -> get name (feeds s) = Some f ->
  f_ctx f' = f_ctx f -> f_creator f' = f_creator f ->
  1 <= f_lh f' <= MaxLatestHistory -> Z.of_nat (length (feed_vals s name)) <= f_lh f' ->
  Inv (set_feed s name f').
Proof.
  intros HI Hf Hc Hcr Hlh Hlen.
  destruct (inv_feed s HI _ _ Hf) as (Bf & _ & _ & xf & Hxf & Cf & Rf & Pf).
  assert (GB : forall c, get c (byctx (set_feed s name f')) = get c (byctx s)).
  { intros c. unfold set_feed. cbn [byctx]. rewrite Hc. destruct (Z.eq_dec c (f_ctx f)) as [->|Hne].
    - rewrite get_set_same. symmetry. exact Bf.
    - rewrite get_set_other by exact Hne. reflexivity. }
  assert (GF : forall n, get n (feeds (set_feed s name f')) = if Z.eq_dec n name then Some f' else get n (feeds s)).
  { intros n. unfold set_feed. cbn [feeds]. destruct (Z.eq_dec n name) as [->|Hne].
    - rewrite get_set_same. reflexivity.
    - rewrite get_set_other by exact Hne. reflexivity. }
  constructor.
  - intros n g Hg. rewrite GF in Hg. unfold feed_ok. rewrite GB.
    change (feed_vals (set_feed s name f') n) with (feed_vals s n).
    change (ctxs (set_feed s name f')) with (ctxs s).
    change (idx_run (set_feed s name f')) with (idx_run s).
    change (idx_pau (set_feed s name f')) with (idx_pau s).
    destruct (Z.eq_dec n name) as [->|Hne].
    + inversion Hg; subst g. rewrite Hc, Hcr. split; [exact Bf|]. split; [exact Hlh|]. split; [exact Hlen|].
      exists xf. repeat split; assumption.
    + exact (inv_feed s HI _ _ Hg).
  - intros n Hn. rewrite GF in Hn. destruct (Z.eq_dec n name) as [->|Hne]; [discriminate|].
    exact (inv_nofeed s HI _ Hn).
  - intros c n Hb. rewrite GB in Hb. destruct (inv_byctx s HI _ _ Hb) as (g & Hg & Hgc).
    rewrite GF. destruct (Z.eq_dec n name) as [->|Hne].
    + exists f'. split; [reflexivity|]. assert (g = f) by congruence. subst g. congruence.
    + exists g. split; assumption.
  - intros c x Hx. change (get c (ctxs s) = Some x) in Hx.
    destruct (inv_ctx s HI _ _ Hx) as (Hlt & T1 & T2 & St & n & g & Hg & Hgc).
    unfold ctx_ok. change (next_ctx (set_feed s name f')) with (next_ctx s).
    repeat split; try assumption.
    destruct (Z.eq_dec n name) as [->|Hne].
    + exists name, f'. rewrite GF. destruct (Z.eq_dec name name); [|congruence].
      split; [reflexivity|]. assert (g = f) by congruence. subst g. congruence.
    + exists n, g. rewrite GF. destruct (Z.eq_dec n name); [congruence|]. split; assumption.
Qed.

(** ** The operations preserve the invariant *)

Lemma create_basic_bounds a : create_basic a = true ->
  1 <= c_lh a <= MaxLatestHistory /\ 1 <= c_thr a.
Proof.
  unfold create_basic. intros H.
  apply andb_prop in H. destruct H as [H H7]. apply andb_prop in H. destruct H as [H H6].
  apply andb_prop in H. destruct H as [H H5]. apply andb_prop in H. destruct H as [H H4].
  apply andb_prop in H. destruct H as [H H3]. apply andb_prop in H. destruct H as [H1 H2].
  clear H3 H4 H5 H6. unfold MaxLatestHistory in *.
  destruct (c_thr a <? 1) eqn:E; [rewrite orb_true_r in H7; discriminate|]. lia.
Qed.

Lemma Inv_create s a : Inv s -> Inv (snd (do_create s a)).
Proof.
  intros HI. unfold do_create.
  destruct (create_basic a) eqn:Hb; [|exact HI]. cbn [negb].
  destruct (has (c_name a) (feeds s)) eqn:Hh; [exact HI|].
  destruct (create_ctx_ok a); [|exact HI]. cbn [negb snd].
  destruct (create_basic_bounds a Hb) as [Hlh Hthr].
  set (name := c_name a) in *. set (c := next_ctx s).
  set (x := mkCtx (c_sender a) PAUSED (c_thr a) (c_nprov a) (c_timeout a)
                  (if c_freq a =? 0 then c_timeout a else c_freq a) 0 (c_thr a) false).
  set (f := mkFeed (c_agg a) (c_path a) (c_lh a) c (c_sender a)).
  assert (Hn : get name (feeds s) = None).
  { unfold has in Hh. destruct (get name (feeds s)); [discriminate|reflexivity]. }
  destruct (inv_nofeed s HI _ Hn) as (Vn & Rn & Pn).
  assert (Hctx_lt : forall n g, get n (feeds s) = Some g -> f_ctx g < c).
  { intros n g Hg. destruct (inv_feed s HI _ _ Hg) as (_ & _ & _ & x0 & Hx0 & _).
    destruct (inv_ctx s HI _ _ Hx0) as (Hlt & _). exact Hlt. }
  assert (Hbc : get c (byctx s) = None).
  { destruct (get c (byctx s)) as [n|] eqn:E; [|reflexivity].
    destruct (inv_byctx s HI _ _ E) as (g & Hg & Hgc). specialize (Hctx_lt _ _ Hg). lia. }
  unfold enqueue, set_feed. cbn [feeds byctx vals idx_run idx_pau ctxs next_ctx].
  replace (PAUSED =? RUNNING) with false by reflexivity.
  cbn [feeds byctx vals idx_run idx_pau ctxs next_ctx f_ctx].
  fold name. fold c. fold x. fold f. change (f_ctx f) with c.
  constructor; cbn [feeds byctx vals idx_run idx_pau ctxs next_ctx].
  - intros n g Hg. unfold feed_ok, feed_vals. cbn [feeds byctx vals idx_run idx_pau ctxs next_ctx].
    destruct (Z.eq_dec n name) as [->|Hne].
    + rewrite get_set_same in Hg. inversion Hg; subst g. cbn [f f_ctx f_lh f_creator].
      rewrite !get_set_same. split; [reflexivity|]. split; [exact Hlh|].
      unfold feed_vals in Vn. rewrite Vn. split; [simpl; lia|].
      exists x. split; [reflexivity|]. split; [reflexivity|].
      rewrite Rn, smem_sadd_same. split; reflexivity.
    + rewrite get_set_other in Hg by exact Hne.
      destruct (inv_feed s HI _ _ Hg) as (B & L & Len & x0 & Hx0 & C0 & R0 & P0).
      pose proof (Hctx_lt _ _ Hg) as Hlt.
      rewrite !get_set_other by lia. split; [exact B|]. split; [exact L|]. split; [exact Len|].
      exists x0. rewrite smem_sadd_other by exact Hne. repeat split; assumption.
  - intros n Hg. destruct (Z.eq_dec n name) as [->|Hne]; [rewrite get_set_same in Hg; discriminate|].
    rewrite get_set_other in Hg by exact Hne. destruct (inv_nofeed s HI _ Hg) as (V & R0 & P0).
    unfold nofeed_ok, feed_vals. cbn [feeds byctx vals idx_run idx_pau ctxs next_ctx].
    rewrite smem_sadd_other by exact Hne. repeat split; assumption.
  - intros c0 n Hb0. destruct (Z.eq_dec c0 c) as [->|Hne].
    + rewrite get_set_same in Hb0. inversion Hb0; subst n. exists f. rewrite get_set_same. split; reflexivity.
    + rewrite get_set_other in Hb0 by exact Hne. destruct (inv_byctx s HI _ _ Hb0) as (g & Hg & Hgc).
      assert (n <> name) by congruence. exists g. rewrite get_set_other by assumption. split; assumption.
  - intros c0 x0 Hx0. unfold ctx_ok. cbn [feeds byctx vals idx_run idx_pau ctxs next_ctx].
    destruct (Z.eq_dec c0 c) as [->|Hne].
    + rewrite get_set_same in Hx0. inversion Hx0; subst x0. cbn [x x_thr x_bthr x_state].
      split; [lia|]. split; [exact Hthr|]. split; [exact Hthr|]. split; [right; reflexivity|].
      exists name, f. rewrite get_set_same. split; reflexivity.
    + rewrite get_set_other in Hx0 by exact Hne.
      destruct (inv_ctx s HI _ _ Hx0) as (Hlt & T1 & T2 & St & n & g & Hg & Hgc).
      split; [lia|]. repeat split; try assumption.
      assert (n <> name) by congruence. exists n, g. rewrite get_set_other by assumption. split; assumption.
Qed.

Lemma feed_ctx_known s name f : Inv s -> get name (feeds s) = Some f ->
  exists x, get (f_ctx f) (ctxs s) = Some x /\ x_consumer x = f_creator f
            /\ smem name (idx_run s) = (x_state x =? RUNNING) /\ smem name (idx_pau s) = (x_state x =? PAUSED)
            /\ 1 <= x_thr x /\ 1 <= x_bthr x /\ (x_state x = RUNNING \/ x_state x = PAUSED).
Proof.
  intros HI Hf. destruct (inv_feed s HI _ _ Hf) as (_ & _ & _ & x & Hx & C & R & P).
  destruct (inv_ctx s HI _ _ Hx) as (_ & T1 & T2 & St & _). exists x. repeat split; assumption.
Qed.

Lemma start_state s name f x :
  dequeue_enqueue (set_ctx s (f_ctx f) x) name PAUSED RUNNING
  = upd_state s (f_ctx f) x (sadd name (idx_run s)) (srem name (idx_pau s)).
Proof. reflexivity. Qed.

Lemma pause_state s name c x :
  dequeue_enqueue (set_ctx s c x) name RUNNING PAUSED
  = upd_state s c x (srem name (idx_run s)) (sadd name (idx_pau s)).
Proof. reflexivity. Qed.

Lemma Inv_start s name sender : Inv s -> Inv (snd (do_start s name sender)).
Proof.
  intros HI. unfold do_start. destruct (sender <? 0); [exact HI|].
  destruct (get name (feeds s)) as [f|] eqn:Hf; [|exact HI].
  destruct (negb (sender =? f_creator f)); [exact HI|].
  destruct (get (f_ctx f) (ctxs s)) as [x|] eqn:Hx; [|exact HI].
  destruct (x_state x =? RUNNING); [exact HI|].
  destruct (negb (sender =? x_consumer x)); [exact HI|].
  destruct (negb (x_state x =? PAUSED)); [exact HI|]. cbn [snd]. rewrite start_state.
  destruct (feed_ctx_known s name f HI Hf) as (x0 & Hx0 & C & R & P & T1 & T2 & St).
  assert (x0 = x) by congruence. subst x0.
  apply (Inv_upd s name f x _ _ _ HI Hf Hx); cbn [ctx_with_state x_consumer x_thr x_bthr x_state].
  - reflexivity.
  - exact T1.
  - exact T2.
  - left; reflexivity.
  - apply smem_sadd_same.
  - apply smem_srem_same.
  - intros n Hne. rewrite smem_sadd_other, smem_srem_other by exact Hne. split; reflexivity.
Qed.

Lemma Inv_pause s name sender : Inv s -> Inv (snd (do_pause s name sender)).
Proof.
  intros HI. unfold do_pause. destruct (sender <? 0); [exact HI|].
  destruct (get name (feeds s)) as [f|] eqn:Hf; [|exact HI].
  destruct (negb (sender =? f_creator f)); [exact HI|].
  destruct (get (f_ctx f) (ctxs s)) as [x|] eqn:Hx; [|exact HI].
  destruct (negb (x_state x =? RUNNING)); [exact HI|].
  destruct (negb (sender =? x_consumer x)); [exact HI|]. cbn [snd]. rewrite pause_state.
  destruct (feed_ctx_known s name f HI Hf) as (x0 & Hx0 & C & R & P & T1 & T2 & St).
  assert (x0 = x) by congruence. subst x0.
  apply (Inv_upd s name f x _ _ _ HI Hf Hx); cbn [ctx_with_state x_consumer x_thr x_bthr x_state].
  - reflexivity.
  - exact T1.
  - exact T2.
  - right; reflexivity.
  - apply smem_srem_same.
  - apply smem_sadd_same.
  - intros n Hne. rewrite smem_sadd_other, smem_srem_other by exact Hne. split; reflexivity.
Qed.

(** service UpdateRequestContext touches neither consumer, state nor the batch *)
Lemma update_ctx_frame x a x' : update_ctx x a = Some x' ->
  x_consumer x' = x_consumer x /\ x_state x' = x_state x /\ x_bc x' = x_bc x
  /\ x_bthr x' = x_bthr x /\ x_open x' = x_open x /\ (1 <= x_thr x -> 1 <= x_thr x')
  /\ e_sender a = x_consumer x.
Proof.
  unfold update_ctx. intros H.
  destruct (negb (e_sender a =? x_consumer x)) eqn:E0; [discriminate|].
  destruct (x_state x =? COMPLETED); [discriminate|].
  destruct (e_dup a); [discriminate|].
  destruct (e_timeout a <? 0); [discriminate|].
  destruct (negb (e_timeout a =? 0) && negb (e_freq a =? 0) && (e_freq a <? uint64_of (e_timeout a))); [discriminate|].
  cbv zeta in H.
  destruct ((if e_nprov a =? 0 then x_nprov x else e_nprov a) <? (if e_thr a =? 0 then x_thr x else e_thr a)); [discriminate|].
  destruct (MaxRequestTimeout <? e_timeout a); [discriminate|].
  destruct ((if e_freq a =? 0 then x_freq x else e_freq a) <? uint64_of (if e_timeout a =? 0 then x_timeout x else e_timeout a)); [discriminate|].
  inversion H; subst x'. cbn [x_consumer x_state x_bc x_bthr x_open x_thr].
  repeat split; try reflexivity; [|lia].
  intros Hthr. destruct (0 <? (if e_thr a =? 0 then x_thr x else e_thr a)) eqn:E; lia.
Qed.

Lemma set_ctx_upd s c x : set_ctx s c x = upd_state s c x (idx_run s) (idx_pau s).
Proof. reflexivity. Qed.

Lemma edit_basic_lh a : edit_basic a = true -> e_lh a = 0 \/ 1 <= e_lh a <= MaxLatestHistory.
Proof.
  unfold edit_basic, MaxLatestHistory. intros H.
  apply andb_prop in H. destruct H as [H _]. apply andb_prop in H. destruct H as [H _].
  apply andb_prop in H. destruct H as [H _]. lia.
Qed.

Lemma Inv_edit s a : Inv s -> Inv (snd (do_edit s a)).
Proof.
  intros HI. unfold do_edit. destruct (edit_basic a) eqn:Hb; [|exact HI]. cbn [negb].
  destruct (get (e_name a) (feeds s)) as [f|] eqn:Hf; [|exact HI].
  destruct (negb (e_sender a =? f_creator f)); [exact HI|].
  destruct (get (f_ctx f) (ctxs s)) as [x|] eqn:Hx; [|exact HI].
  destruct (update_ctx x a) as [x'|] eqn:Hu; [|exact HI].
  destruct (update_ctx_frame x a x' Hu) as (U1 & U2 & U3 & U4 & U5 & U6 & _).
  destruct (feed_ctx_known s _ f HI Hf) as (x0 & Hx0 & C & R & P & T1 & T2 & St).
  assert (x0 = x) by congruence. subst x0.
  set (name := e_name a) in *.
  assert (HI1 : Inv (set_ctx s (f_ctx f) x')).
  { rewrite set_ctx_upd. apply (Inv_upd s name f x _ _ _ HI Hf Hx).
    - exact U1.
    - auto.
    - lia.
    - rewrite U2. exact St.
    - rewrite U2. exact R.
    - rewrite U2. exact P.
    - intros n _. split; reflexivity. }
  assert (Hf1 : get name (feeds (set_ctx s (f_ctx f) x')) = Some f) by exact Hf.
  destruct (inv_feed _ HI1 _ _ Hf1) as (_ & L1 & Len1 & _).
  cbv zeta. destruct (0 <? e_lh a) eqn:Hpos; cbn [snd].
  - destruct (edit_basic_lh a Hb) as [H0|Hlh]; [lia|].
    set (s1 := set_ctx s (f_ctx f) x') in *. set (l := feed_vals s1 name) in *.
    destruct (e_lh a <? Z.of_nat (length l)) eqn:Htrim.
    + assert (HI2 : Inv (set_vals s1 name (delete_oldest (Z.of_nat (length l) - e_lh a) l))).
      { eapply Inv_set_vals; eauto.
        pose proof (delete_oldest_length (Z.of_nat (length l) - e_lh a) l). lia. }
      apply (Inv_set_feed _ name f (mkFeed (f_agg f) (f_path f) (e_lh a) (f_ctx f) (f_creator f)) HI2 Hf eq_refl eq_refl Hlh). cbn [f_lh].
      unfold feed_vals, set_vals. cbn [vals]. rewrite get_set_same.
      pose proof (delete_oldest_length (Z.of_nat (length l) - e_lh a) l). lia.
    + apply (Inv_set_feed _ name f (mkFeed (f_agg f) (f_path f) (e_lh a) (f_ctx f) (f_creator f)) HI1 Hf eq_refl eq_refl Hlh). cbn [f_lh]. fold l. lia.
  - apply (Inv_set_feed _ name f f HI1 Hf eq_refl eq_refl L1 Len1).
Qed.

(** the response callback: nothing but the values of the context's feed can change *)
Lemma handler_response_cases s now c outs : Inv s ->
  handler_response s now c outs = (Ok, s)
  \/ (exists x name f, get c (ctxs s) = Some x /\ feed_by_ctx s c = Some (name, f)
        /\ outs <> [] /\ (Z.of_nat (length outs) <? x_bthr x) = false
        /\ handler_response s now c outs
           = (Ok, set_vals s name (set_feed_value (feed_vals s name) (x_bc x) (f_lh f)
                                     (aggregate (f_agg f) (map (extract (f_path f)) outs), now)))).
Proof.
  intros HI. unfold handler_response.
  destruct (get c (ctxs s)) as [x|] eqn:Hx; [|left; reflexivity].
  destruct (inv_ctx s HI _ _ Hx) as (_ & _ & T2 & _).
  destruct (ctx_has_feed s c x HI Hx) as (name & f & Hfb & Hf & Hc).
  destruct outs as [|o outs].
  - simpl length. destruct (Z.of_nat 0 <? x_bthr x) eqn:E; [left; reflexivity|]. lia.
  - destruct (Z.of_nat (length (o :: outs)) <? x_bthr x) eqn:E; [left; reflexivity|].
    right. exists x, name, f. rewrite Hfb. repeat split; try assumption. discriminate.
Qed.

Lemma Inv_handler_response s now c outs : Inv s ->
  let r := handler_response s now c outs in
  fst r = Ok /\ Inv (snd r) /\ feeds (snd r) = feeds s /\ byctx (snd r) = byctx s /\ ctxs (snd r) = ctxs s
  /\ idx_run (snd r) = idx_run s /\ idx_pau (snd r) = idx_pau s /\ next_ctx (snd r) = next_ctx s.
Proof.
  intros HI. cbv zeta.
  destruct (handler_response_cases s now c outs HI) as [E|(x & name & f & Hx & Hfb & Hne & Hthr & E)]; rewrite E.
  - cbn [fst snd]. split; [reflexivity|]. split; [exact HI|]. repeat split.
  - cbn [fst snd]. split; [reflexivity|]. split; [|repeat split].
    destruct (feed_by_ctx_spec s c name f HI Hfb) as [Hf Hc].
    destruct (inv_feed s HI _ _ Hf) as (_ & L & _).
    eapply Inv_set_vals; eauto. apply set_feed_value_length. lia.
Qed.

Lemma close_batch_upd s c x : get c (ctxs s) = Some x ->
  close_batch s c = upd_state s c (ctx_with_open x false) (idx_run s) (idx_pau s).
Proof. intros H. unfold close_batch. rewrite H. reflexivity. Qed.

Lemma Inv_close_batch s c : Inv s -> Inv (close_batch s c).
Proof.
  intros HI. destruct (get c (ctxs s)) as [x|] eqn:Hx.
  - rewrite (close_batch_upd s c x Hx).
    destruct (ctx_has_feed s c x HI Hx) as (name & f & _ & Hf & Hc). subst c.
    destruct (feed_ctx_known s name f HI Hf) as (x0 & Hx0 & C & R & P & T1 & T2 & St).
    assert (x0 = x) by congruence. subst x0.
    apply (Inv_upd s name f x _ _ _ HI Hf Hx); cbn [ctx_with_open x_consumer x_thr x_bthr x_state]; try assumption.
    + reflexivity.
    + intros n _. split; reflexivity.
  - unfold close_batch. rewrite Hx. exact HI.
Qed.

Lemma autopause_state s now c x name f :
  get c (ctxs s) = Some x -> feed_by_ctx s c = Some (name, f) ->
  do_sev s now (SAutoPause c)
  = (Ok, upd_state s c (ctx_with_open (ctx_with_state x PAUSED) false)
                   (srem name (idx_run s)) (sadd name (idx_pau s))).
Proof.
  intros Hx Hfb. unfold do_sev. rewrite Hx. unfold handler_state_changed.
  set (x1 := ctx_with_open (ctx_with_state x PAUSED) false).
  assert (G1 : get c (ctxs (set_ctx s c x1)) = Some x1) by (unfold set_ctx; cbn [ctxs]; apply get_set_same).
  assert (G2 : feed_by_ctx (set_ctx s c x1) c = Some (name, f)) by exact Hfb.
  rewrite G1, G2. reflexivity.
Qed.

Lemma Inv_do_sev s now e : Inv s -> fst (do_sev s now e) = Ok /\ Inv (snd (do_sev s now e)).
Proof.
  intros HI. destruct e as [c|c bc bthr outs tol|c].
  - unfold do_sev. destruct (get c (ctxs s)) as [x|] eqn:Hx; [|split; [reflexivity|exact HI]].
    cbn [fst snd]. split; [reflexivity|]. rewrite set_ctx_upd.
    destruct (ctx_has_feed s c x HI Hx) as (name & f & _ & Hf & Hc). subst c.
    destruct (feed_ctx_known s name f HI Hf) as (x0 & Hx0 & C & R & P & T1 & T2 & St).
    assert (x0 = x) by congruence. subst x0.
    apply (Inv_upd s name f x _ _ _ HI Hf Hx); cbn [x_consumer x_thr x_bthr x_state]; try assumption.
    + reflexivity.
    + intros n _. split; reflexivity.
  - unfold do_sev. destruct (Inv_handler_response s now c outs HI) as (Hok & HI1 & _).
    destruct (handler_response s now c outs) as [o s1]. cbn [fst snd] in *. subst o.
    cbn [fst snd]. split; [reflexivity|]. apply Inv_close_batch. exact HI1.
  - destruct (get c (ctxs s)) as [x|] eqn:Hx.
    + destruct (ctx_has_feed s c x HI Hx) as (name & f & Hfb & Hf & Hc).
      rewrite (autopause_state s now c x name f Hx Hfb). cbn [fst snd]. split; [reflexivity|].
      subst c. destruct (feed_ctx_known s name f HI Hf) as (x0 & Hx0 & C & R & P & T1 & T2 & St).
      assert (x0 = x) by congruence. subst x0.
      apply (Inv_upd s name f x _ _ _ HI Hf Hx); cbn [ctx_with_open ctx_with_state x_consumer x_thr x_bthr x_state].
      * reflexivity.
      * exact T1.
      * exact T2.
      * right; reflexivity.
      * apply smem_srem_same.
      * apply smem_sadd_same.
      * intros n Hne. rewrite smem_sadd_other, smem_srem_other by exact Hne. split; reflexivity.
    + unfold do_sev. rewrite Hx. split; [reflexivity|exact HI].
Qed.

Lemma Inv_do_sevs now evs : forall s, Inv s -> fst (do_sevs s now evs) = Ok /\ Inv (snd (do_sevs s now evs)).
Proof.
  induction evs as [|e evs IH]; intros s HI; simpl; [split; [reflexivity|exact HI]|].
  destruct (Inv_do_sev s now e HI) as [Hok HI1].
  destruct (do_sev s now e) as [o s1]. cbn [fst snd] in *. subst o. apply IH. exact HI1.
Qed.

Lemma exec_svc s now evs : Inv s -> exec s (now, OSvc evs) = (Ok, snd (do_sevs s now evs)).
Proof.
  intros HI. unfold exec. destruct (Inv_do_sevs now evs s HI) as [Hok _].
  destruct (do_sevs s now evs) as [o s1]. cbn [fst snd] in *. subst o. reflexivity.
Qed.

Lemma Inv_exec s st : Inv s -> Inv (exec_state s st).
Proof.
  intros HI. unfold exec_state. destruct st as [now o]. destruct o.
  - apply Inv_create. exact HI.
  - apply Inv_start. exact HI.
  - apply Inv_pause. exact HI.
  - apply Inv_edit. exact HI.
  - exact HI.
  - rewrite exec_svc by exact HI. apply Inv_do_sevs. exact HI.
Qed.

Lemma Inv_run h : forall s, Inv s -> Inv (run s h).
Proof. induction h as [|st h IH]; intros s HI; simpl; [exact HI|]. apply IH. apply Inv_exec. exact HI. Qed.

(** no panic: [err.Error()] on a nil error cannot happen because batch thresholds are >= 1 *)
Lemma exec_no_abort s st : Inv s -> fst (exec s st) <> Abort.
Proof.
  intros HI. destruct st as [now o]. destruct o; cbn [exec].
  - unfold do_create. destruct (negb (create_basic a)); [discriminate|].
    destruct (has (c_name a) (feeds s)); [discriminate|]. destruct (negb (create_ctx_ok a)); discriminate.
  - unfold do_start. destruct (sender <? 0); [discriminate|]. destruct (get name (feeds s)); [|discriminate].
    destruct (negb (sender =? f_creator f)); [discriminate|]. destruct (get (f_ctx f) (ctxs s)); [|discriminate].
    destruct (x_state s0 =? RUNNING); [discriminate|]. destruct (negb (sender =? x_consumer s0)); [discriminate|].
    destruct (negb (x_state s0 =? PAUSED)); discriminate.
  - unfold do_pause. destruct (sender <? 0); [discriminate|]. destruct (get name (feeds s)); [|discriminate].
    destruct (negb (sender =? f_creator f)); [discriminate|]. destruct (get (f_ctx f) (ctxs s)); [|discriminate].
    destruct (negb (x_state s0 =? RUNNING)); [discriminate|]. destruct (negb (sender =? x_consumer s0)); discriminate.
  - unfold do_edit. destruct (negb (edit_basic a)); [discriminate|]. destruct (get (e_name a) (feeds s)); [|discriminate].
    destruct (negb (e_sender a =? f_creator f)); [discriminate|]. destruct (get (f_ctx f) (ctxs s)); [|discriminate].
    destruct (update_ctx s0 a); [|discriminate]. cbv zeta. destruct (0 <? e_lh a); discriminate.
  - discriminate.
  - change (fst (exec s (now, OSvc evs)) <> Abort). rewrite exec_svc by exact HI. discriminate.
Qed.
