(** * C17, link theorems: the hypothesis [run_wfb] of the C17 theorems about values (Props/C17.v),
    derived from the service group's model.  Kept apart from Props/C17.v: these are the only C17
    statements that depend on Service/*.  Built through [coq_targets] of check/propsd/oracle.py;
    a failure here is reported as a broken obligation of C17 without touching the theorems of
    Props/C17.v. *)
From Irismod Require Import Oracle.Model Oracle.Check Oracle.ProofsList Oracle.Proofs.
From Irismod Require Service.Model Service.ProofsSched Oracle.LinkService Oracle.LinkServiceOracle.
Open Scope Z_scope.

Definition ex_out (m : Z) : output := [(0, Some (m, 0))].

(** ** 7. the hypothesis [run_wfb], derived from the service group's model

    [run_wfb] ("the response callback arrives only while the context's batch is running") was a
    hypothesis validated on every run.  It is now a THEOREM about the service model
    (Service/Model.v) and its invariant [SInv] (Service/ProofsSched.v, ProofsBatch.v):

    (a) on the service side, reading the events a module sees off the service model's own ghost logs
        (callback log, batch-start log): over every history with fresh context ids every response
        callback of a module-owned context finds the flag "a batch was started and neither completed
        nor auto-paused since" set, and that flag equals [x_mod && x_brun] of the stored context; *)
Theorem service_callbacks_find_batch_running :
  forall (c : Irismod.Service.Model.config) (steps : list Irismod.Service.Model.step) (h0 t0 : Z)
         (l0 : Irismod.Base.Bank.ledger),
    Irismod.Service.ProofsSched.fresh_history c (Irismod.Service.Model.init h0 t0 l0) steps ->
    let evs := LinkService.run_events c (Irismod.Service.Model.init h0 t0 l0) steps in
    LinkService.evs_ok (fun _ => false) evs
    /\ LinkService.agree (LinkService.evs_app (fun _ => false) evs)
                         (Irismod.Service.Model.run c (Irismod.Service.Model.init h0 t0 l0) steps).
Proof. exact LinkService.service_events_wf. Qed.
Print Assumptions service_callbacks_find_batch_running.

(** (b) over every well-formed JOINT history - steps of the service model, each with the oracle
        events that are the image of its events under an injective naming [nu] of service contexts
        by oracle context ids, interleaved with oracle messages - the oracle projection satisfies
        [run_wfb].  ([jrun_wf]: fresh context ids, events matched, and a feed creation names a
        service context that is not running a batch.) *)
Theorem run_wfb_from_service_model :
  forall (c : Irismod.Service.Model.config) (nu : LinkServiceOracle.naming) (h0 t0 : Z)
         (l0 : Irismod.Base.Bank.ledger) (jh : list LinkServiceOracle.jstep),
    LinkServiceOracle.injective nu ->
    LinkServiceOracle.jrun_wf c nu (Irismod.Service.Model.init h0 t0 l0) init jh ->
    run_wfb init (map LinkServiceOracle.oproj jh) = true.
Proof. exact LinkServiceOracle.run_wfb_from_service_model. Qed.
Print Assumptions run_wfb_from_service_model.

(** non-vacuity: a service is defined and bound, the oracle creates and starts a feed (the keeper
    calls ModCreate / ModStart on the service side), an end-block opens batch 1, the provider
    answers (batch complete: response callback), two more end-blocks open batch 2 *)
Module LinkExample.
  Import LinkServiceOracle.
  Module SM := Irismod.Service.Model.
  Definition cfg := SM.mkCfg 50000000000000000 300000000000000000 6 2 100 4 false 2 9 99.
  Definition l0 : Irismod.Base.Bank.ledger := [((10, 0), 100000); ((20, 0), 1000)].
  Definition nu : naming := fun id => if Prelude.eqb id (3, 0) then Some 0 else None.
  Definition jh : list jstep :=
    [ JSvc (SM.Tx 1 (SM.MDefine 5 1 true)) 100 [];
      JSvc (SM.Tx 2 (SM.MBind 1 10 0 1000 (0, 5, [], []) 1 true 10)) 100 [];
      JSvc (SM.ModCreate 3 1 [10] 20 100 2 true 2 (-1) 1 1) 100 [];
      JOp 100 (OCreate (mkCreate 7 1 AGG_MAX 0 2 true 1 false 1 2 2));
      JSvc (SM.ModStart (3, 0) 20) 100 [];
      JOp 100 (OStart 7 1);
      JSvc (SM.EndBlock 5) 100 [SNewBatch 0];
      JSvc (SM.Tx 4 (SM.MRespond ((3, 0), 1, 1, 0) 10 1)) 105 [SDone 0 1 1 [ex_out 42] 0];
      JSvc (SM.EndBlock 5) 105 [];
      JSvc (SM.EndBlock 5) 110 [SNewBatch 0] ].

  Ltac ev_list := match goal with |- evs_match _ ?l _ =>
                    let e := eval vm_compute in l in change l with e end;
                  repeat first [apply mm_nil | apply mm_cons; [constructor; reflexivity|]].
  Ltac nu_closed := intros id H; unfold nu in H; destruct (Prelude.eqb id (3, 0)) eqn:E;
                    [apply (proj1 (Prelude.eqb_true_iff _ _)) in E; subst; vm_compute; reflexivity|discriminate].

  Example link_nonvacuous :
    injective nu /\ jrun_wf cfg nu (SM.init 1 1000 l0) init jh
    /\ query_values (run init (map oproj jh)) 7 = [(4200000000, 105)].
  Proof.
    split; [|split; [|vm_compute; reflexivity]].
    - intros i j c Hi Hj. unfold nu in *. destruct (Prelude.eqb i (3, 0)) eqn:Ei; [|discriminate].
      destruct (Prelude.eqb j (3, 0)) eqn:Ej; [|discriminate].
      apply (proj1 (Prelude.eqb_true_iff _ _)) in Ei. apply (proj1 (Prelude.eqb_true_iff _ _)) in Ej. congruence.
    - unfold jh. cbn [jrun_wf jstep_wf japply oproj].
      repeat split; try exact I; try (vm_compute; reflexivity); try ev_list; try (intros evs; discriminate); try nu_closed.
  Qed.
End LinkExample.
