(** * Oracle: lemmas about the pure parts of the model
    - the ordered value store of one feed ([vins], [delete_oldest], [set_feed_value]);
    - the aggregates ([qmax_from], [qmin_from], [agg_avg]) and the rounding [round8]. *)
From Irismod Require Import Oracle.Model Oracle.Check.
From Coq Require Import ZifyBool QArith.
Open Scope Z_scope.

(** ** The value store of one feed *)

Definition keys_below (b : Z) (l : list (Z * fval)) : Prop := Forall (fun kv => fst kv < b) l.

Lemma keys_below_mono b b' l : b <= b' -> keys_below b l -> keys_below b' l.
Proof.
  intros Hb H. unfold keys_below in *. rewrite Forall_forall in *. intros kv Hin.
  specialize (H kv Hin). lia.
Qed.

Lemma Forall_skipn {A} (P : A -> Prop) n l : Forall P l -> Forall P (skipn n l).
Proof.
  revert l. induction n as [|n IH]; intros l H; simpl; [exact H|].
  destruct l as [|x l]; [constructor|]. inversion H; subst. apply IH. assumption.
Qed.

Lemma keys_below_delete_oldest b d l : keys_below b l -> keys_below b (delete_oldest d l).
Proof.
  intros H. unfold delete_oldest. destruct (d <=? 0); [exact H|]. apply Forall_skipn. exact H.
Qed.

(** a batch counter above every stored key is inserted at the end (= newest) *)
Lemma vins_append bc v l : keys_below bc l -> vins bc v l = l ++ [(bc, v)].
Proof.
  induction l as [|[k w] l IH]; intros H; simpl; [reflexivity|].
  inversion H as [|? ? Hk Hl]; subst. simpl in Hk.
  destruct (bc <? k) eqn:E1; [lia|]. destruct (bc =? k) eqn:E2; [lia|].
  rewrite IH by assumption. reflexivity.
Qed.

Lemma vins_keys_below bc b v l : bc < b -> keys_below b l -> keys_below b (vins bc v l).
Proof.
  intros Hb. induction l as [|[k w] l IH]; intros H; simpl.
  - constructor; [simpl; lia|constructor].
  - inversion H as [|? ? Hk Hl]; subst. simpl in Hk.
    destruct (bc <? k); [constructor; [simpl; lia|exact H]|].
    destruct (bc =? k); [constructor; [simpl; lia|exact Hl]|].
    constructor; [exact Hk|apply IH; exact Hl].
Qed.

Lemma vins_length bc v l : (length (vins bc v l) <= S (length l))%nat.
Proof.
  induction l as [|[k w] l IH]; simpl; [lia|].
  destruct (bc <? k); [simpl; lia|]. destruct (bc =? k); simpl; lia.
Qed.

Lemma delete_oldest_length d l :
  Z.of_nat (length (delete_oldest d l)) = Z.of_nat (length l) - Z.max 0 (Z.min d (Z.of_nat (length l))).
Proof.
  unfold delete_oldest. destruct (d <=? 0) eqn:E; [lia|].
  rewrite skipn_length. lia.
Qed.

(** newest-first view of the store, as the FeedValue query returns it *)
Definition newest_first (l : list (Z * fval)) : list fval := map snd (rev l).

Lemma newest_first_length l : length (newest_first l) = length l.
Proof. unfold newest_first. rewrite map_length, rev_length. reflexivity. Qed.

(** [delete_oldest] keeps the newest [length - d] *)
Lemma newest_first_delete_oldest d l :
  newest_first (delete_oldest d l) = firstn (Z.to_nat (Z.of_nat (length l) - d)) (newest_first l).
Proof.
  unfold newest_first, delete_oldest. destruct (d <=? 0) eqn:E.
  - rewrite firstn_all2; [reflexivity|]. rewrite map_length, rev_length. lia.
  - rewrite firstn_map. f_equal. rewrite firstn_rev. f_equal.
    destruct (Z_le_gt_dec (Z.of_nat (length l)) d) as [Hge|Hlt].
    + rewrite !skipn_all2 by lia. reflexivity.
    + f_equal. lia.
Qed.

(** feed.go SetFeedValue, when the batch counter is above every stored key: the new value first,
    then the newest [lh - 1] old ones *)
Lemma newest_first_set_feed_value l bc lh v :
  keys_below bc l ->
  newest_first (set_feed_value l bc lh v) = v :: firstn (Z.to_nat (lh - 1)) (newest_first l).
Proof.
  intros Hk. unfold set_feed_value.
  rewrite vins_append by (apply keys_below_delete_oldest; exact Hk).
  unfold newest_first at 1. rewrite rev_app_distr. simpl. f_equal.
  fold (newest_first (delete_oldest (Z.of_nat (length l) - lh + 1) l)).
  rewrite newest_first_delete_oldest. f_equal. lia.
Qed.

Lemma set_feed_value_length l bc lh v :
  1 <= lh -> Z.of_nat (length (set_feed_value l bc lh v)) <= lh.
Proof.
  intros Hlh. unfold set_feed_value.
  pose proof (vins_length bc v (delete_oldest (Z.of_nat (length l) - lh + 1) l)) as H1.
  pose proof (delete_oldest_length (Z.of_nat (length l) - lh + 1) l) as H2. lia.
Qed.

Lemma set_feed_value_keys l bc lh v : keys_below bc l -> keys_below (bc + 1) (set_feed_value l bc lh v).
Proof.
  intros Hk. unfold set_feed_value. apply vins_keys_below; [lia|].
  apply keys_below_delete_oldest. eapply keys_below_mono; [|exact Hk]. lia.
Qed.

(** keeper.EditFeed's trimming: exactly the newest [lh] remain *)
Definition edit_trim (lh : Z) (l : list (Z * fval)) : list (Z * fval) :=
  let cnt := Z.of_nat (length l) in if lh <? cnt then delete_oldest (cnt - lh) l else l.

Lemma newest_first_edit_trim lh l :
  0 <= lh -> newest_first (edit_trim lh l) = firstn (Z.to_nat lh) (newest_first l).
Proof.
  intros Hlh. unfold edit_trim. cbv zeta. destruct (lh <? Z.of_nat (length l)) eqn:E.
  - rewrite newest_first_delete_oldest. f_equal. lia.
  - rewrite firstn_all2; [reflexivity|]. rewrite newest_first_length. lia.
Qed.

Lemma edit_trim_length lh l : 0 <= lh -> Z.of_nat (length (edit_trim lh l)) <= lh.
Proof.
  intros Hlh. unfold edit_trim. cbv zeta. destruct (lh <? Z.of_nat (length l)) eqn:E; [|lia].
  pose proof (delete_oldest_length (Z.of_nat (length l) - lh) l). lia.
Qed.

Lemma edit_trim_keys b lh l : keys_below b l -> keys_below b (edit_trim lh l).
Proof.
  intros H. unfold edit_trim. cbv zeta. destruct (lh <? Z.of_nat (length l)); [|exact H].
  apply keys_below_delete_oldest. exact H.
Qed.

(** the window arithmetic of the reference ledger *)
Lemma firstn_window_push {A} (v : A) (all : list A) (keep lh : Z) :
  1 <= lh -> 0 <= keep ->
  v :: firstn (Z.to_nat (lh - 1)) (firstn (Z.to_nat keep) all)
  = firstn (Z.to_nat (Z.min lh (keep + 1))) (v :: all).
Proof.
  intros Hlh Hk. rewrite firstn_firstn.
  replace (Z.to_nat (Z.min lh (keep + 1))) with (S (Init.Nat.min (Z.to_nat (lh - 1)) (Z.to_nat keep))) by lia.
  reflexivity.
Qed.

Lemma firstn_window_trim {A} (all : list A) (keep lh : Z) :
  0 <= lh -> 0 <= keep ->
  firstn (Z.to_nat lh) (firstn (Z.to_nat keep) all) = firstn (Z.to_nat (Z.min keep lh)) all.
Proof.
  intros Hlh Hk. rewrite firstn_firstn. f_equal. lia.
Qed.

(** ** Rationals *)

Definition qwf (a : q) : Prop := 0 < snd a.
Definition qle (a b : q) : bool := negb (qlt b a).

Lemma qlt_irrefl a : qlt a a = false.
Proof. unfold qlt. lia. Qed.

Lemma qlt_trans a b c : qwf a -> qwf b -> qwf c -> qlt a b = true -> qlt b c = true -> qlt a c = true.
Proof.
  unfold qwf, qlt. destruct a as [a1 a2], b as [b1 b2], c as [c1 c2]. simpl.
  intros Ha Hb Hc H1 H2.
  apply Z.ltb_lt in H1. apply Z.ltb_lt in H2. apply Z.ltb_lt.
  assert (E1 : a1 * b2 * c2 < b1 * a2 * c2) by (apply Z.mul_lt_mono_pos_r; assumption).
  assert (E2 : b1 * c2 * a2 < c1 * b2 * a2) by (apply Z.mul_lt_mono_pos_r; assumption).
  assert (E3 : (a1 * c2) * b2 < (c1 * a2) * b2) by lia.
  apply Z.mul_lt_mono_pos_r in E3; assumption.
Qed.

Lemma qle_trans a b c : qwf a -> qwf b -> qwf c -> qle a b = true -> qle b c = true -> qle a c = true.
Proof.
  unfold qwf, qle, qlt. destruct a as [a1 a2], b as [b1 b2], c as [c1 c2]. simpl.
  intros Ha Hb Hc H1 H2.
  assert (H1' : a1 * b2 <= b1 * a2) by lia. assert (H2' : b1 * c2 <= c1 * b2) by lia.
  assert (E1 : a1 * b2 * c2 <= b1 * a2 * c2) by (apply Z.mul_le_mono_nonneg_r; lia).
  assert (E2 : b1 * c2 * a2 <= c1 * b2 * a2) by (apply Z.mul_le_mono_nonneg_r; lia).
  assert (E3 : (a1 * c2) * b2 <= (c1 * a2) * b2) by lia.
  apply Z.mul_le_mono_pos_r in E3; [|assumption]. lia.
Qed.

Lemma qle_refl a : qle a a = true.
Proof. unfold qle. rewrite qlt_irrefl. reflexivity. Qed.

(** [m] is a greatest (least) element of [l] *)
Definition is_max (m : q) (l : list q) : Prop := In m l /\ Forall (fun x => qle x m = true) l.
Definition is_min (m : q) (l : list q) : Prop := In m l /\ Forall (fun x => qle m x = true) l.

Lemma qmax_from_spec l : forall acc, qwf acc -> Forall qwf l ->
  let m := qmax_from acc l in
  (m = acc \/ In m l) /\ qwf m /\ qle acc m = true /\ Forall (fun x => qle x m = true) l.
Proof.
  induction l as [|x l IH]; intros acc Hacc Hl; simpl.
  - repeat split; auto. apply qle_refl.
  - inversion Hl as [|? ? Hx Hl']; subst.
    set (acc' := if qlt acc x then x else acc).
    assert (Hacc' : qwf acc') by (unfold acc'; destruct (qlt acc x); assumption).
    destruct (IH acc' Hacc' Hl') as (Hin & Hwf & Hle & Hall).
    assert (Ha : qle acc acc' = true).
    { unfold acc'. destruct (qlt acc x) eqn:E; [|apply qle_refl].
      unfold qle, qlt in *. lia. }
    assert (Hxa : qle x acc' = true).
    { unfold acc'. destruct (qlt acc x) eqn:E; [apply qle_refl|]. unfold qle. rewrite E. reflexivity. }
    repeat split.
    + destruct Hin as [Hin|Hin]; [|right; right; exact Hin].
      rewrite Hin. unfold acc'. destruct (qlt acc x); [right; left; reflexivity|left; reflexivity].
    + exact Hwf.
    + eapply qle_trans; [| |exact Hwf|exact Ha|exact Hle]; assumption.
    + constructor; [|exact Hall].
      eapply qle_trans; [| |exact Hwf|exact Hxa|exact Hle]; assumption.
Qed.

Lemma qmin_from_spec l : forall acc, qwf acc -> Forall qwf l ->
  let m := qmin_from acc l in
  (m = acc \/ In m l) /\ qwf m /\ qle m acc = true /\ Forall (fun x => qle m x = true) l.
Proof.
  induction l as [|x l IH]; intros acc Hacc Hl; simpl.
  - repeat split; auto. apply qle_refl.
  - inversion Hl as [|? ? Hx Hl']; subst.
    set (acc' := if qlt x acc then x else acc).
    assert (Hacc' : qwf acc') by (unfold acc'; destruct (qlt x acc); assumption).
    destruct (IH acc' Hacc' Hl') as (Hin & Hwf & Hle & Hall).
    assert (Ha : qle acc' acc = true).
    { unfold acc'. destruct (qlt x acc) eqn:E; [|apply qle_refl].
      unfold qle, qlt in *. lia. }
    assert (Hxa : qle acc' x = true).
    { unfold acc'. destruct (qlt x acc) eqn:E; [apply qle_refl|]. unfold qle. rewrite E. reflexivity. }
    repeat split.
    + destruct Hin as [Hin|Hin]; [|right; right; exact Hin].
      rewrite Hin. unfold acc'. destruct (qlt x acc); [right; left; reflexivity|left; reflexivity].
    + exact Hwf.
    + eapply qle_trans; [exact Hwf| |exact Hacc|exact Hle|exact Ha]; assumption.
    + constructor; [|exact Hall].
      eapply qle_trans; [exact Hwf| |exact Hx|exact Hle|exact Hxa]; assumption.
Qed.

(** the specification's maximum / minimum really is one *)
Lemma spec_max_is_max x l : Forall qwf (x :: l) -> is_max (spec_max (x :: l)) (x :: l).
Proof.
  intros H. inversion H as [|? ? Hx Hl]; subst. simpl.
  destruct (qmax_from_spec l x Hx Hl) as (Hin & _ & Hle & Hall). split.
  - destruct Hin as [->|Hin]; [left; reflexivity|right; exact Hin].
  - constructor; assumption.
Qed.

Lemma spec_min_is_min x l : Forall qwf (x :: l) -> is_min (spec_min (x :: l)) (x :: l).
Proof.
  intros H. inversion H as [|? ? Hx Hl]; subst. simpl.
  destruct (qmin_from_spec l x Hx Hl) as (Hin & _ & Hle & Hall). split.
  - destruct Hin as [->|Hin]; [left; reflexivity|right; exact Hin].
  - constructor; assumption.
Qed.

(** a value is inside the open float64 range *)
Definition neg_max_float : q := (- fst max_float, 1).
Definition in_range (a : q) : Prop := qlt neg_max_float a = true /\ qlt a max_float = true.

(** the code's Max (seed -MaxFloat64) and Min (seed MaxFloat64) are the specification's on
    non-empty data whose first element is inside the float64 range *)
Lemma agg_max_spec x l : qlt neg_max_float x = true -> agg_max (x :: l) = spec_max (x :: l).
Proof.
  intros H. unfold agg_max, spec_max.
  change (qmax_from (- fst max_float, 1) (x :: l))
    with (qmax_from (if qlt neg_max_float x then x else neg_max_float) l).
  rewrite H. reflexivity.
Qed.

Lemma agg_min_spec x l : qlt x max_float = true -> agg_min (x :: l) = spec_min (x :: l).
Proof.
  intros H. unfold agg_min, spec_min.
  change (qmin_from max_float (x :: l)) with (qmin_from (if qlt x max_float then x else max_float) l).
  rewrite H. reflexivity.
Qed.

Lemma aggregate_spec f x l : in_range x -> aggregate f (x :: l) = spec_aggregate f (x :: l).
Proof.
  intros [H1 H2]. unfold aggregate, spec_aggregate.
  rewrite agg_max_spec, agg_min_spec by assumption. reflexivity.
Qed.

(** the Max as it was before the fix (seed math.SmallestNonzeroFloat64 = 2^-1074, positive) *)
Definition smallest_nonzero : q := (1, 2 ^ 1074).
Definition agg_max_unfixed (l : list q) : q := qmax_from smallest_nonzero l.

Lemma agg_max_unfixed_wrong :
  round8 (agg_max_unfixed [(-3, 1); (-5, 1)]) = 0 /\ round8 (spec_max [(-3, 1); (-5, 1)]) = -300000000.
Proof. split; vm_compute; reflexivity. Qed.

(** ** Average: the exact rational mean *)
Definition toQ (a : q) : Q := Qmake (fst a) (Z.to_pos (snd a)).
Fixpoint Qsum (l : list Q) : Q := match l with [] => 0%Q | x :: l' => (x + Qsum l')%Q end.

Lemma qsum_wf l : Forall qwf l -> qwf (qsum l).
Proof.
  induction l as [|x l IH]; intros H; simpl; [unfold qwf; simpl; lia|].
  inversion H; subst. unfold qwf, qadd in *. simpl. apply Z.mul_pos_pos; auto.
Qed.

Lemma toQ_qadd a b : qwf a -> qwf b -> (toQ (qadd a b) == toQ a + toQ b)%Q.
Proof.
  unfold qwf, toQ, qadd, Qeq, Qplus. destruct a as [a1 a2], b as [b1 b2]. simpl. intros Ha Hb.
  rewrite !Pos2Z.inj_mul, !Z2Pos.id by (try apply Z.mul_pos_pos; assumption). ring.
Qed.

Lemma toQ_qsum l : Forall qwf l -> (toQ (qsum l) == Qsum (map toQ l))%Q.
Proof.
  induction l as [|x l IH]; intros H; simpl; [reflexivity|].
  inversion H; subst. rewrite toQ_qadd by (try apply qsum_wf; assumption).
  rewrite IH by assumption. reflexivity.
Qed.

Lemma agg_avg_is_mean l : l <> [] -> Forall qwf l ->
  (toQ (agg_avg l) == Qsum (map toQ l) / inject_Z (Z.of_nat (length l)))%Q.
Proof.
  intros Hne H. rewrite <- toQ_qsum by assumption.
  pose proof (qsum_wf l H) as Hs. unfold agg_avg. cbv zeta.
  destruct (qsum l) as [s1 s2]. unfold qwf in Hs. simpl in Hs.
  assert (Hn : 0 < Z.of_nat (length l)) by (destruct l; [congruence|simpl; lia]).
  set (n := Z.of_nat (length l)) in *. clearbody n.
  unfold toQ. simpl fst. simpl snd.
  destruct n as [|p|p]; try lia.
  unfold Qeq, Qdiv, Qmult, Qinv, inject_Z. simpl Qnum. simpl Qden.
  rewrite Pos2Z.inj_mul, !Z2Pos.id by (try apply Z.mul_pos_pos; lia). ring.
Qed.

Lemma agg_avg_wf l : l <> [] -> Forall qwf l -> qwf (agg_avg l).
Proof.
  intros Hne H. pose proof (qsum_wf l H) as Hs. unfold agg_avg, qwf in *. cbv zeta. simpl.
  apply Z.mul_pos_pos; [exact Hs|]. destruct l; [congruence|simpl; lia].
Qed.

(** ** Rounding to 8 decimals: nearest, ties to even *)
Lemma round8_nearest n d : 0 < d ->
  let r := round8 (n, d) in
  2 * Z.abs (r * d - n * scale8) <= d
  /\ (2 * Z.abs (r * d - n * scale8) = d -> Z.even r = true).
Proof.
  intros Hd. unfold round8. simpl fst. simpl snd.
  set (N := n * scale8). clearbody N.
  pose proof (Z.div_mod N d ltac:(lia)) as Hdm.
  pose proof (Z.mod_pos_bound N d Hd) as Hb.
  set (fl := N / d) in *. set (rm := N mod d) in *. clearbody fl rm.
  assert (Hp : d * fl = fl * d) by ring.
  cbv zeta.
  destruct (2 * rm <? d) eqn:E1.
  - split; [lia|]. intros Ht. lia.
  - destruct (d <? 2 * rm) eqn:E2.
    + assert (Hq : (fl + 1) * d = fl * d + d) by ring. split; [lia|]. intros Ht. lia.
    + destruct (Z.even fl) eqn:E3.
      * split; [lia|]. intros _. exact E3.
      * assert (Hq : (fl + 1) * d = fl * d + d) by ring. split; [lia|]. intros _.
        rewrite Z.even_add, E3. reflexivity.
Qed.

(** no other integer is nearer *)
Lemma round8_best n d z : 0 < d ->
  Z.abs (round8 (n, d) * d - n * scale8) <= Z.abs (z * d - n * scale8).
Proof.
  intros Hd. destruct (round8_nearest n d Hd) as [H _]. cbv zeta in H.
  set (r := round8 (n, d)) in *. clearbody r. set (N := n * scale8) in *. clearbody N.
  destruct (Z.eq_dec z r) as [->|Hne]; [lia|].
  assert (Hdist : d <= Z.abs (z * d - r * d)).
  { replace (z * d - r * d) with ((z - r) * d) by ring. rewrite Z.abs_mul.
    assert (1 <= Z.abs (z - r)) by lia. rewrite (Z.abs_eq d) by lia. nia. }
  lia.
Qed.

(** ** Extracted values are well-formed rationals *)
Lemma q_of_dec_wf d : qwf (q_of_dec d).
Proof.
  destruct d as [m e]. unfold q_of_dec, qwf. destruct (0 <=? e) eqn:E; simpl; [lia|].
  apply Z.pow_pos_nonneg; lia.
Qed.

Lemma extract_wf p o : qwf (extract p o).
Proof.
  unfold extract. destruct (get p o) as [[d|]|]; try (unfold qwf; simpl; lia). apply q_of_dec_wf.
Qed.

Lemma extract_all_wf p outs : Forall qwf (map (extract p) outs).
Proof. induction outs; simpl; constructor; [apply extract_wf|assumption]. Qed.

(** ** Feed genesis import (oracle/genesis.go InitGenesis, after "fix: oracle InitGenesis keeps the
    order of a feed's exported values"): the exported values (newest first) are stored oldest
    first, each under its own key, the newest under max(batch counter, n-1).  Not reachable by
    messages (chain export / import only); modelled here as a pure function, not tied to traces
    (the genesis group's check covers InitGenesis/ExportGenesis). *)
Fixpoint import_vals (l : list (Z * fval)) (k lh : Z) (oldest_first : list fval) : list (Z * fval) :=
  match oldest_first with
  | [] => l
  | v :: r => import_vals (set_feed_value l k lh v) (k + 1) lh r
  end.

Definition genesis_import (bc lh : Z) (vals : list fval) : list (Z * fval) :=
  let n := Z.of_nat (length vals) in
  let base := if bc + 1 <? n then n - 1 else bc in
  import_vals [] (base - (n - 1)) lh (rev vals).

Lemma import_vals_spec lh : 1 <= lh -> forall r l k,
  keys_below k l -> Z.of_nat (length l) + Z.of_nat (length r) <= lh ->
  newest_first (import_vals l k lh r) = rev r ++ newest_first l
  /\ keys_below (k + Z.of_nat (length r)) (import_vals l k lh r).
Proof.
  intros Hlh r. induction r as [|v r IH]; intros l k Hk Hlen; simpl import_vals.
  - simpl. split; [reflexivity|]. eapply keys_below_mono; [|exact Hk]. simpl. lia.
  - simpl length in Hlen.
    assert (E : newest_first (set_feed_value l k lh v) = v :: newest_first l).
    { rewrite newest_first_set_feed_value by exact Hk. f_equal. apply firstn_all2. rewrite newest_first_length. lia. }
    assert (Hl' : length (set_feed_value l k lh v) = S (length l)).
    { rewrite <- newest_first_length, E. simpl. rewrite newest_first_length. reflexivity. }
    destruct (IH (set_feed_value l k lh v) (k + 1)) as [A B].
    + apply set_feed_value_keys. exact Hk.
    + rewrite Hl'. lia.
    + split.
      * rewrite A, E. simpl. rewrite <- app_assoc. reflexivity.
      * eapply keys_below_mono; [|exact B]. simpl length. lia.
Qed.

(** importing what was exported restores exactly the exported values, newest first, and every
    key is at most max(batch counter, n - 1): the next batch of the context is newer than all *)
Lemma genesis_import_restores bc lh vals :
  1 <= lh -> Z.of_nat (length vals) <= lh ->
  newest_first (genesis_import bc lh vals) = vals
  /\ keys_below (Z.max bc (Z.of_nat (length vals) - 1) + 1) (genesis_import bc lh vals).
Proof.
  intros Hlh Hlen. unfold genesis_import. cbv zeta.
  set (n := Z.of_nat (length vals)) in *. set (base := if bc + 1 <? n then n - 1 else bc).
  destruct (import_vals_spec lh Hlh (rev vals) [] (base - (n - 1))) as [A B].
  - constructor.
  - rewrite rev_length. simpl. fold n. lia.
  - split.
    + rewrite A, rev_involutive. apply app_nil_r.
    + eapply keys_below_mono; [|exact B]. rewrite rev_length. fold n. unfold base.
      destruct (bc + 1 <? n) eqn:E; lia.
Qed.
