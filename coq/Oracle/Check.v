(** * Oracle: correspondence check and the C17 trace predicate, evaluated by [vm_compute]
    on the cases the harness writes.  Depends on Model.v only. *)
From Irismod Require Export Oracle.Model.

(** ** Specification of the aggregates (what "the configured aggregate" means), independent
    of how the code computes them *)
Definition spec_max (l : list q) : q := match l with [] => qzero | x :: l' => qmax_from x l' end.
Definition spec_min (l : list q) : q := match l with [] => qzero | x :: l' => qmin_from x l' end.
Definition spec_avg (l : list q) : q := let s := qsum l in (fst s, snd s * Z.of_nat (length l)).
Definition spec_aggregate (f : Z) (l : list q) : Z :=
  if f =? AGG_MAX then round8 (spec_max l)
  else if f =? AGG_MIN then round8 (spec_min l)
  else round8 (spec_avg l).

(** ** What the implementation showed after a step *)
Record fobs := mkFobs {
  fo_feed : option (Z * Z * Z * Z * Z);      (* aggregate function, path, latest history, context id, creator *)
  fo_vals : list (Z * Z);                    (* (data * 10^8, unix time), newest first (FeedValue query) *)
  fo_run : bool;                             (* listed by Feeds(state = running) *)
  fo_pau : bool;                             (* listed by Feeds(state = paused) *)
  fo_ctx : option (Z * Z * Z * Z * bool)     (* service context: state, batch counter, threshold, batch threshold, batch running *)
}.
Record obs := mkObs { o_code : Z; o_feeds : list (Z * fobs) }.

Definition case := list (step * obs).

(** ** Correspondence *)

(** tolerance table: (context, batch counter) -> tolerance of the data comparison
    (0 exact, 1: one unit of 10^-8, -1: not compared; see the harness' guard band) *)
Definition tols := list (Z * Z * Z).
Fixpoint tol_of (t : tols) (c bc : Z) : Z :=
  match t with
  | [] => 0
  | (c', bc', x) :: t' => if (c =? c') && (bc =? bc') then x else tol_of t' c bc
  end.

Definition data_close (tol a b : Z) : bool :=
  if tol <? 0 then true else Z.abs (a - b) <=? tol.

Fixpoint vals_corr (t : tols) (c : Z) (m : list (Z * fval)) (o : list (Z * Z)) : bool :=
  match m, o with
  | [], [] => true
  | (bc, (d, ts)) :: m', (d', ts') :: o' => data_close (tol_of t c bc) d d' && (ts =? ts') && vals_corr t c m' o'
  | _, _ => false
  end.

Definition feed_proj (f : feed) : Z * Z * Z * Z * Z := (f_agg f, f_path f, f_lh f, f_ctx f, f_creator f).
Definition ctx_proj (x : sctx) : Z * Z * Z * Z * bool := (x_state x, x_bc x, x_thr x, x_bthr x, x_open x).

Definition corr_feed (t : tols) (s : state) (nf : Z * fobs) : bool :=
  let '(name, fo) := nf in
  match get name (feeds s), fo_feed fo with
  | None, None => match fo_vals fo with [] => true | _ => false end
                  && negb (fo_run fo) && negb (fo_pau fo) && negb (smem name (idx_run s)) && negb (smem name (idx_pau s))
  | Some f, Some p =>
      eqb (feed_proj f) p
      && vals_corr t (f_ctx f) (rev (feed_vals s name)) (fo_vals fo)
      && Bool.eqb (fo_run fo) (smem name (idx_run s))
      && Bool.eqb (fo_pau fo) (smem name (idx_pau s))
      && match get (f_ctx f) (ctxs s), fo_ctx fo with
         | Some x, Some xp => eqb (ctx_proj x) xp
         | _, _ => false
         end
  | _, _ => false
  end.

(** the batch counter and threshold the implementation reported with each completed batch must be
    the model's at that moment *)
Fixpoint sevs_consistent (s : state) (now : Z) (evs : list sev) : bool :=
  match evs with
  | [] => true
  | e :: evs' =>
      match e with
      | SDone c bc bthr _ _ =>
          match get c (ctxs s) with
          | Some x => (x_bc x =? bc) && (x_bthr x =? bthr) && x_open x
          | None => false
          end
      | _ => true
      end && sevs_consistent (snd (do_sev s now e)) now evs'
  end.

Fixpoint add_tols (t : tols) (evs : list sev) : tols :=
  match evs with
  | [] => t
  | SDone c bc _ _ tol :: evs' => add_tols ((c, bc, tol) :: t) evs'
  | _ :: evs' => add_tols t evs'
  end.

(** the price service's answer: the code exactly, the data within the tolerance of the batch that
    produced the feed's newest value (the model's stored value may differ from the float64 result
    inside the guard band) *)
Definition price_corr (t : tols) (s : state) (now n code d : Z) : bool :=
  let '(mc, md) := price_request s now n in
  (mc =? code)
  && match get n (feeds s), rev (feed_vals s n) with
     | Some f, (bc, _) :: _ => data_close (tol_of t (f_ctx f) bc) md d
     | _, _ => md =? d
     end.

Definition corr_step (t : tols) (s : state) (st : step) (o : obs) : bool :=
  let '(oc, s') := exec s st in
  match snd st with
  | OSvc evs => (if eqb oc Ok then negb (o_code o =? 2) else (o_code o =? outcome_code oc))
                && sevs_consistent s (fst st) evs
  | OPrice n code d => (o_code o =? 0) && price_corr t s (fst st) n code d
  | _ => o_code o =? outcome_code oc
  end
  && forallb (corr_feed t s') (o_feeds o).

(** ** The property, on the implementation's own observations

    clause codes:
    1  a stored value is not the configured aggregate of the responses sent
    2  a stored value is not stamped with the block time
    3  the history is not "the new value, then the newest latest-history - 1 old ones" /
       an edit did not keep exactly the newest latest-history values / more than latest-history kept
    4  running/paused index does not mirror the service context
    5  somebody other than the creator started, paused or edited the feed
    6  the values changed although no batch completed with its threshold met (or the other way round)
    7  the price service did not answer with the newest stored value / its expiry by block time *)

Definition ventry := (Z * Z * Z * bool)%type.    (* data, time, tolerance, fresh *)

Definition old_entries (l : list (Z * Z)) : list ventry := map (fun '(d, ts) => (d, ts, 0, false)) l.

Definition fobs_of (o : list (Z * fobs)) (name : Z) : option fobs := get name o.

(** expected history of feed [name] after the service events, starting from [cur] *)
Fixpoint expect_sevs (f : Z * Z * Z * Z * Z) (now : Z) (evs : list sev) (cur : list ventry) : list ventry :=
  match evs with
  | [] => cur
  | SDone c _ bthr outs tol :: evs' =>
      let '(agg, path, lh, fc, _) := f in
      let n := Z.of_nat (length outs) in
      if (c =? fc) && (bthr <=? n) && (0 <? n)
      then expect_sevs f now evs'
             ((spec_aggregate agg (map (extract path) outs), now, tol, true) :: firstn (Z.to_nat (lh - 1)) cur)
      else expect_sevs f now evs' cur
  | _ :: evs' => expect_sevs f now evs' cur
  end.

Fixpoint match_vals (e : list ventry) (o : list (Z * Z)) : Z :=
  match e, o with
  | [], [] => 0
  | (d, ts, tol, fresh) :: e', (d', ts') :: o' =>
      if negb (data_close tol d d') then (if fresh then 1 else 3)
      else if negb (ts =? ts') then (if fresh then 2 else 3)
      else match_vals e' o'
  | _, _ => 3
  end.

Definition count_fresh (e : list ventry) : nat := length (filter (fun '(_, _, _, fr) => fr) e).

Definition mirror_ok (fo : fobs) : bool :=
  match fo_feed fo, fo_ctx fo with
  | Some _, Some (st, _, _, _, _) => Bool.eqb (fo_run fo) (st =? RUNNING) && Bool.eqb (fo_pau fo) (st =? PAUSED)
  | Some _, None => false
  | None, _ => negb (fo_run fo) && negb (fo_pau fo)
  end.

Definition fobs_eqb (a b : fobs) : bool :=
  eqb (fo_feed a) (fo_feed b) && eqb (fo_vals a) (fo_vals b) && Bool.eqb (fo_run a) (fo_run b)
  && Bool.eqb (fo_pau a) (fo_pau b) && eqb (fo_ctx a) (fo_ctx b).

(** is the step a start/pause/edit of [name] by [sender]? *)
Definition control_of (o : op) : option (Z * Z) :=
  match o with
  | OStart n s => Some (n, s)
  | OPause n s => Some (n, s)
  | OEdit a => Some (e_name a, e_sender a)
  | _ => None
  end.

Definition empty_fobs : fobs := mkFobs None [] false false None.

Definition prop_feed (prev : list (Z * fobs)) (st : step) (code : Z) (nf : Z * fobs) : Z :=
  let '(name, fo) := nf in
  let po := match fobs_of prev name with Some p => p | None => empty_fobs end in
  let '(now, o) := st in
  if negb (mirror_ok fo) then 4 else
  (* creator control *)
  let stranger :=
    match control_of o, fo_feed po with
    | Some (n, sender), Some (_, _, _, _, creator) => (n =? name) && negb (sender =? creator)
    | _, _ => false
    end in
  if stranger && ((code =? 0) || negb (fobs_eqb po fo)) then 5 else
  (* values *)
  let expected :=
    match o, fo_feed po with
    | OSvc evs, Some f => expect_sevs f now evs (old_entries (fo_vals po))
    | OEdit a, Some _ =>
        if (e_name a =? name) && (code =? 0) && (0 <? e_lh a)
        then firstn (Z.to_nat (e_lh a)) (old_entries (fo_vals po))
        else old_entries (fo_vals po)
    | _, _ => old_entries (fo_vals po)
    end in
  let lh_ok := match fo_feed fo with
               | Some (_, _, lh, _, _) => Z.of_nat (length (fo_vals fo)) <=? lh
               | None => match fo_vals fo with [] => true | _ => false end
               end in
  if negb (Nat.eqb (length expected) (length (fo_vals fo))) then
    (match o with OEdit _ => 3 | _ => if Nat.eqb (count_fresh expected) 0 then 6 else
                                       if eqb (fo_vals fo) (fo_vals po) then 6 else 3 end)
  else
    let m := match_vals expected (fo_vals fo) in
    if negb (m =? 0) then (match o with OSvc _ => m | OEdit _ => 3 | _ => 6 end) else
    if negb lh_ok then 3 else 0.

Fixpoint first_nonzero (l : list Z) : Z :=
  match l with [] => 0 | x :: l' => if x =? 0 then first_nonzero l' else x end.

(** the price service, on the implementation's own previous observation of the feed *)
Definition price_prop (prev : list (Z * fobs)) (st : step) : Z :=
  match snd st with
  | OPrice n code d =>
      let po := match fobs_of prev n with Some p => p | None => empty_fobs end in
      let exists_ := match fo_feed po with Some _ => true | None => false end in
      if eqb (price_answer exists_ (fo_vals po) (fst st)) (code, d) then 0 else 7
  | _ => 0
  end.

Definition prop_step (prev : list (Z * fobs)) (st : step) (o : obs) : Z :=
  let p := price_prop prev st in
  if p =? 0 then first_nonzero (map (prop_feed prev st (o_code o)) (o_feeds o)) else p.

Fixpoint check_from (s : state) (t : tols) (prev : list (Z * fobs)) (c : case) (i : Z) (corr prop code : Z) : Z * Z * Z :=
  match c with
  | [] => (corr, prop, code)
  | (st, o) :: rest =>
      let t' := match snd st with OSvc evs => add_tols t evs | _ => t end in
      let s' := exec_state s st in
      let corr' := if (corr <? 0) && negb (corr_step t' s st o) then i else corr in
      let pc := prop_step prev st o in
      let '(prop', code') := if (prop <? 0) && negb (pc =? 0) then (i, pc) else (prop, code) in
      check_from s' t' (o_feeds o) rest (i + 1) corr' prop' code'
  end.

(** (index of the first diverging step or -1, index of the first step violating C17 or -1, clause code) *)
Definition check_case (c : case) : Z * Z * Z := check_from init [] [] c 0 (-1) (-1) 0.

(** ** Compressed cases, as the harness writes them: a feed whose observation did not change since
    the previous step is written [None] (the case terms are several times smaller; Coq spends its
    time parsing them).  [expand_from] restores the full case. *)
Record cobs := mkCObs { co_code : Z; co_feeds : list (Z * option fobs) }.
Definition ccase := list (step * cobs).

Definition expand_feed (prev : list (Z * fobs)) (nf : Z * option fobs) : Z * fobs :=
  let '(n, ofo) := nf in
  (n, match ofo with
      | Some fo => fo
      | None => match get n prev with Some p => p | None => empty_fobs end
      end).

Fixpoint expand_from (prev : list (Z * fobs)) (c : ccase) : case :=
  match c with
  | [] => []
  | (st, o) :: rest =>
      let fs := map (expand_feed prev) (co_feeds o) in
      (st, mkObs (co_code o) fs) :: expand_from fs rest
  end.

Definition check_case_c (c : ccase) : Z * Z * Z := check_case (expand_from [] c).
