(** * cosmossdk.io/math v1.3.0 arithmetic, restated: [Int] (256-bit checked big integers) and
    [LegacyDec] (an integer scaled by 10^18).

    [big.Int.Quo] truncates toward zero = [Z.quot].  [Mul]/[Quo] round half-to-even at the 18th
    digit ([chopPrecisionAndRound]); the [Truncate] variants chop; the [RoundUp] variants round
    away from zero for positive values only (negative values are truncated), as the library does.
    These definitions are differential-tested against the library on every run (driver [arith]). *)
From Irismod Require Export Base.Prelude.

Definition P18 : Z := 1000000000000000000.
Definition P36 : Z := P18 * P18.
Definition half18 : Z := 500000000000000000.

(** [sdkmath.Int] panics when a result needs more than 256 bits *)
Definition two256 : Z := 2 ^ 256.
Definition int_ok (x : Z) : bool := Z.abs x <? two256.

Definition chop_round_pos (d : Z) : Z :=
  let q := d / P18 in
  let r := d mod P18 in
  if r =? 0 then q
  else if r <? half18 then q
  else if half18 <? r then q + 1
  else if Z.even q then q else q + 1.

Definition chop_round (d : Z) : Z :=
  if d <? 0 then - chop_round_pos (- d) else chop_round_pos d.

Definition chop_trunc (d : Z) : Z := Z.quot d P18.

Definition chop_up (d : Z) : Z :=
  if d <? 0 then Z.quot d P18
  else if d mod P18 =? 0 then d / P18 else d / P18 + 1.

(** a [dec] is the scaled integer *)
Definition dec := Z.
Definition dec_of_int (i : Z) : dec := i * P18.
Definition dec_mul (a b : dec) : dec := chop_round (a * b).
Definition dec_mul_trunc (a b : dec) : dec := chop_trunc (a * b).
Definition dec_mul_up (a b : dec) : dec := chop_up (a * b).
Definition dec_mul_int (a : dec) (i : Z) : dec := a * i.
Definition dec_quo (a b : dec) : dec := chop_round (Z.quot (a * P36) b).
Definition dec_quo_trunc (a b : dec) : dec := chop_trunc (Z.quot (a * P36) b).
Definition dec_quo_up (a b : dec) : dec := chop_up (Z.quot (a * P36) b).
Definition dec_quo_int (a : dec) (i : Z) : dec := Z.quot a i.
Definition dec_truncate_int (a : dec) : Z := Z.quot a P18.
Definition dec_round_int (a : dec) : Z := chop_round a.
Definition dec_ceil (a : dec) : dec :=
  let q := Z.quot a P18 in let r := Z.rem a P18 in
  if r <=? 0 then dec_of_int q else dec_of_int (q + 1).

(** ** Facts used by the module proofs (non-negative operands, where [quot] = [/]) *)
Lemma quot_div_nonneg a b : 0 <= a -> 0 < b -> Z.quot a b = a / b.
Proof. intros. apply Z.quot_div_nonneg; lia. Qed.

Lemma chop_trunc_nonneg d : 0 <= d -> chop_trunc d = d / P18.
Proof. intros. unfold chop_trunc. apply quot_div_nonneg; [assumption|reflexivity]. Qed.

Lemma dec_truncate_int_nonneg d : 0 <= d -> dec_truncate_int d = d / P18.
Proof. exact (chop_trunc_nonneg d). Qed.

Lemma div_le_mul a b : 0 < b -> (a / b) * b <= a.
Proof. intros. rewrite Z.mul_comm. apply Z.mul_div_le; lia. Qed.

Lemma div_gt_mul a b : 0 < b -> a < (a / b + 1) * b.
Proof.
  intros. rewrite Z.mul_comm. replace (a / b + 1) with (Z.succ (a / b)) by lia.
  apply Z.mul_succ_div_gt; lia.
Qed.

Lemma chop_round_pos_bounds d : 0 <= d ->
  d - half18 <= chop_round_pos d * P18 <= d + half18.
Proof.
  intros Hd. unfold chop_round_pos.
  pose proof (Z.div_mod d P18 ltac:(discriminate)) as Hdm.
  pose proof (Z.mod_pos_bound d P18 ltac:(reflexivity)) as Hm.
  destruct (d mod P18 =? 0) eqn:E0; [unfold half18, P18 in *; lia|].
  destruct (d mod P18 <? half18) eqn:E1; [unfold half18, P18 in *; lia|].
  destruct (half18 <? d mod P18) eqn:E2; [unfold half18, P18 in *; lia|].
  destruct (Z.even (d / P18)); unfold half18, P18 in *; lia.
Qed.

Lemma chop_round_pos_nonneg d : 0 <= d -> 0 <= chop_round_pos d.
Proof.
  intros Hd. unfold chop_round_pos.
  assert (0 <= d / P18) by (apply Z.div_pos; [assumption|reflexivity]).
  repeat match goal with |- context [if ?c then _ else _] => destruct c end; lia.
Qed.
