(** * The bank as the models see it: a ledger (account, denom) -> amount and a supply per denom.
    The SDK bank keeper is modelled, not verified; its agreement with this model is observed at
    every step of every correspondence run (balances and supplies are part of the traces). *)
From Irismod Require Export Base.Prelude.

Definition acct := Z.
Definition denom := Z.
Definition ledger := amap (acct * denom) Z.

Definition bal (l : ledger) (a : acct) (d : denom) : Z :=
  match get (a, d) l with Some x => x | None => 0 end.

Definition credit (l : ledger) (a : acct) (d : denom) (x : Z) : ledger := set (a, d) (bal l a d + x) l.

Definition debit (l : ledger) (a : acct) (d : denom) (x : Z) : option ledger :=
  if (0 <=? x) && (x <=? bal l a d) then Some (set (a, d) (bal l a d - x) l) else None.

Definition send (l : ledger) (from to : acct) (d : denom) (x : Z) : option ledger :=
  match debit l from d x with Some l' => Some (credit l' to d x) | None => None end.

Lemma bal_credit_same l a d x : bal (credit l a d x) a d = bal l a d + x.
Proof. unfold credit, bal at 1. rewrite get_set_same. reflexivity. Qed.

Lemma bal_credit_other l a d x a' d' : (a', d') <> (a, d) -> bal (credit l a d x) a' d' = bal l a' d'.
Proof. intros Hne. unfold credit, bal at 1. rewrite get_set_other by exact Hne. reflexivity. Qed.

Lemma debit_Some l a d x l' : debit l a d x = Some l' ->
  0 <= x <= bal l a d /\ bal l' a d = bal l a d - x
  /\ forall a' d', (a', d') <> (a, d) -> bal l' a' d' = bal l a' d'.
Proof.
  unfold debit. destruct ((0 <=? x) && (x <=? bal l a d)) eqn:E; [|discriminate].
  intros H; inversion H; subst; clear H.
  apply andb_true_iff in E. destruct E as [E1 E2]. apply Z.leb_le in E1. apply Z.leb_le in E2.
  split; [lia|]. split.
  - unfold bal at 1. rewrite get_set_same. reflexivity.
  - intros a' d' Hne. unfold bal at 1. rewrite get_set_other by exact Hne. reflexivity.
Qed.

Lemma send_Some l from to d x l' : send l from to d x = Some l' ->
  0 <= x <= bal l from d
  /\ (from <> to -> bal l' from d = bal l from d - x /\ bal l' to d = bal l to d + x)
  /\ (from = to -> bal l' from d = bal l from d)
  /\ forall a' d', (a', d') <> (from, d) -> (a', d') <> (to, d) -> bal l' a' d' = bal l a' d'.
Proof.
  unfold send. destruct (debit l from d x) as [l1|] eqn:E; [|discriminate].
  intros H; inversion H; subst; clear H.
  destruct (debit_Some _ _ _ _ _ E) as (Hx & Hfrom & Hother).
  split; [exact Hx|]. split; [|split].
  - intros Hne. split.
    + rewrite bal_credit_other by congruence. exact Hfrom.
    + rewrite bal_credit_same. rewrite Hother by congruence. reflexivity.
  - intros ->. rewrite bal_credit_same. lia.
  - intros a' d' H1 H2. rewrite bal_credit_other by exact H2. apply Hother. exact H1.
Qed.
