(** * Differential check of [Base/Dec.v] against cosmossdk.io/math (driver [arith]). *)
From Irismod Require Export Base.Dec.

(** (operation, a, b, what the library returned; None = it panicked) *)
Definition arith_case := list (Z * Z * Z * option Z).

Definition dec_model (op a b : Z) : option Z :=
  match op with
  | 0 => Some (dec_mul a b)
  | 1 => Some (dec_mul_trunc a b)
  | 2 => Some (dec_mul_up a b)
  | 3 => if b =? 0 then None else Some (dec_quo a b)
  | 4 => if b =? 0 then None else Some (dec_quo_trunc a b)
  | 5 => if b =? 0 then None else Some (dec_quo_up a b)
  | 6 => if b =? 0 then None else Some (dec_quo_int a b)
  | 7 => Some (dec_mul_int a b)
  | 8 => Some (dec_truncate_int a)
  | 9 => Some (dec_round_int a)
  | 10 => Some (dec_ceil a)
  | _ => None
  end.

Definition check_arith (c : arith_case) : Z * Z * Z :=
  (find_index (fun '(op, a, b, r) => negb (eqb (dec_model op a b) r)) c 0, -1, 0).
