(** * Shared prelude: decidable equality, association-list maps, outcomes.

    Stdlib only.  Everything here is executable (used by [vm_compute] in the
    correspondence check) and every lemma is closed under the global context. *)
From Coq Require Export List ZArith Bool Lia.
Export ListNotations.
Open Scope Z_scope.

(** ** Decidable equality as a class *)
Class EqDec (A : Type) := eq_dec : forall x y : A, {x = y} + {x <> y}.

#[export] Instance EqDec_Z : EqDec Z := Z.eq_dec.
#[export] Instance EqDec_nat : EqDec nat := Nat.eq_dec.
#[export] Instance EqDec_bool : EqDec bool := Bool.bool_dec.
#[export] Instance EqDec_unit : EqDec unit.
Proof. intros [] []; left; reflexivity. Defined.
#[export] Instance EqDec_prod {A B} `{EqDec A} `{EqDec B} : EqDec (A * B).
Proof.
  intros [a b] [a' b']. destruct (eq_dec a a'); [|right; congruence].
  destruct (eq_dec b b'); [left|right]; congruence.
Defined.
#[export] Instance EqDec_list {A} `{EqDec A} : EqDec (list A).
Proof. intros x y. apply list_eq_dec. exact eq_dec. Defined.
#[export] Instance EqDec_option {A} `{EqDec A} : EqDec (option A).
Proof.
  intros [a|] [b|]; try (right; congruence); [|left; reflexivity].
  destruct (eq_dec a b); [left|right]; congruence.
Defined.

Definition eqb {A} `{EqDec A} (x y : A) : bool := if eq_dec x y then true else false.

Lemma eqb_true_iff {A} `{EqDec A} (x y : A) : eqb x y = true <-> x = y.
Proof. unfold eqb. destruct (eq_dec x y); split; congruence. Qed.
Lemma eqb_false_iff {A} `{EqDec A} (x y : A) : eqb x y = false <-> x <> y.
Proof. unfold eqb. destruct (eq_dec x y); split; congruence. Qed.
Lemma eqb_refl {A} `{EqDec A} (x : A) : eqb x x = true.
Proof. apply eqb_true_iff. reflexivity. Qed.

(** ** Finite maps as association lists (first binding wins, [set] replaces in place) *)
Section AMap.
  Context {K V : Type} `{EqDec K}.

  Definition amap := list (K * V).

  Fixpoint get (k : K) (m : amap) : option V :=
    match m with
    | [] => None
    | (k', v) :: m' => if eq_dec k k' then Some v else get k m'
    end.

  Fixpoint set (k : K) (v : V) (m : amap) : amap :=
    match m with
    | [] => [(k, v)]
    | (k', v') :: m' => if eq_dec k k' then (k, v) :: m' else (k', v') :: set k v m'
    end.

  Fixpoint del (k : K) (m : amap) : amap :=
    match m with
    | [] => []
    | (k', v') :: m' => if eq_dec k k' then del k m' else (k', v') :: del k m'
    end.

  Definition keys (m : amap) : list K := map fst m.
  Definition has (k : K) (m : amap) : bool := match get k m with Some _ => true | None => false end.

  Lemma get_set_same k v m : get k (set k v m) = Some v.
  Proof.
    induction m as [|[k' v'] m IH]; simpl.
    - destruct (eq_dec k k); congruence.
    - destruct (eq_dec k k') as [->|Hne]; simpl.
      + destruct (eq_dec k' k'); congruence.
      + destruct (eq_dec k k'); [contradiction|exact IH].
  Qed.

  Lemma get_set_other k k' v m : k' <> k -> get k' (set k v m) = get k' m.
  Proof.
    intros Hne. induction m as [|[k0 v0] m IH]; simpl.
    - destruct (eq_dec k' k); [contradiction|reflexivity].
    - destruct (eq_dec k k0) as [->|Hk]; simpl.
      + destruct (eq_dec k' k0); [contradiction|reflexivity].
      + destruct (eq_dec k' k0); [reflexivity|exact IH].
  Qed.

  Lemma get_del_same k m : get k (del k m) = None.
  Proof.
    induction m as [|[k0 v0] m IH]; simpl; [reflexivity|].
    destruct (eq_dec k k0) as [->|Hk]; simpl; [exact IH|].
    destruct (eq_dec k k0); [contradiction|exact IH].
  Qed.

  Lemma get_del_other k k' m : k' <> k -> get k' (del k m) = get k' m.
  Proof.
    intros Hne. induction m as [|[k0 v0] m IH]; simpl; [reflexivity|].
    destruct (eq_dec k k0) as [->|Hk]; simpl.
    - destruct (eq_dec k' k0); [contradiction|exact IH].
    - destruct (eq_dec k' k0); [reflexivity|exact IH].
  Qed.

  Lemma get_In k v m : get k m = Some v -> In (k, v) m.
  Proof.
    induction m as [|[k0 v0] m IH]; simpl; [discriminate|].
    destruct (eq_dec k k0) as [->|Hk]; intros Hg.
    - left. congruence.
    - right. auto.
  Qed.

  Lemma get_None_notin k m : get k m = None -> ~ In k (keys m).
  Proof.
    induction m as [|[k0 v0] m IH]; simpl; [tauto|].
    destruct (eq_dec k k0) as [->|Hk]; [discriminate|].
    intros Hg [Heq|Hin]; [congruence|]. exact (IH Hg Hin).
  Qed.

  Lemma keys_set_NoDup k v m : NoDup (keys m) -> NoDup (keys (set k v m)).
  Proof.
    induction m as [|[k0 v0] m IH]; simpl; intros Hnd.
    - constructor; [simpl; tauto|constructor].
    - inversion Hnd as [|? ? Hnotin Hnd']; subst.
      destruct (eq_dec k k0) as [->|Hk]; simpl.
      + constructor; assumption.
      + constructor; [|auto].
        intros Hin. apply Hnotin.
        clear -Hin Hk. induction m as [|[k1 v1] m IHm]; simpl in *.
        * destruct Hin as [Heq|[]]. congruence.
        * destruct (eq_dec k k1) as [->|Hk1]; simpl in *.
          { destruct Hin as [Heq|Hin]; [congruence|right; exact Hin]. }
          { destruct Hin as [Heq|Hin]; [left; exact Heq|right; exact (IHm Hin)]. }
  Qed.
End AMap.
Arguments amap : clear implicits.

(** ** Outcome of an operation: success, ordinary rejection, abort (panic) *)
Inductive outcome := Ok | Rej | Abort.
#[export] Instance EqDec_outcome : EqDec outcome.
Proof. intros x y. decide equality. Defined.
Definition outcome_code (o : outcome) : Z := match o with Ok => 0 | Rej => 1 | Abort => 2 end.

(** ** Small list utilities *)
Fixpoint zsum (l : list Z) : Z := match l with [] => 0 | x :: l' => x + zsum l' end.

Lemma zsum_app a b : zsum (a ++ b) = zsum a + zsum b.
Proof. induction a as [|x a IH]; simpl; lia. Qed.

Fixpoint find_index {A} (p : A -> bool) (l : list A) (i : Z) : Z :=
  match l with
  | [] => -1
  | x :: l' => if p x then i else find_index p l' (i + 1)
  end.

(** first index at which a list of booleans is false, or -1 *)
Definition first_false (l : list bool) : Z := find_index negb l 0.

Lemma find_index_none {A} (p : A -> bool) l i : 0 <= i -> find_index p l i = -1 -> forall x, In x l -> p x = false.
Proof.
  revert i. induction l as [|y l IH]; simpl; intros i Hi Hf x Hin; [tauto|].
  destruct (p y) eqn:Hp; [lia|].
  destruct Hin as [->|Hin]; [exact Hp|]. apply (IH (i+1)); auto; lia.
Qed.
