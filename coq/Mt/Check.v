(** * MT: correspondence check and the C15 trace predicate, evaluated by [vm_compute] on the
    cases the harness writes (one case = one history with what the real keeper showed after
    every step). Depends on the model only. *)
From Irismod Require Export Mt.Model.

(** what the implementation showed after a step (ids translated to their sequence numbers by
    the harness's SHA-256 table; actors to their indices) *)
Record obs := mkObs {
  o_code : Z;                                   (* 0 ok, 1 rejected, 2 abort *)
  o_dseq : Z;                                   (* GetDenomSequence *)
  o_mseq : Z;                                   (* GetMTSequence *)
  o_new : Z;                                    (* id named by the step's event (class id for issue-denom, token id for mint), 0 if none *)
  o_denoms : list (did * (Z * addr * Z));       (* Denoms query: id -> name, owner, data *)
  o_mts : list ((did * mid) * (Z * Z));         (* MTs query per class: data, supply *)
  o_sup : list ((did * mid) * Z);               (* MTSupply query per known token *)
  o_dcount : list (did * Z);                    (* GetDenomSupply per class *)
  o_bal : list ((addr * did * mid) * Z);        (* Balances query per (actor, class) *)
  o_invbroken : bool                            (* the module's own SupplyInvariant reports broken *)
}.

Definition obs0 : obs := mkObs 0 1 1 0 [] [] [] [] [] false.

Definition case := list (step * obs).

Section Maps.
  Context {K V : Type} `{EqDec K} `{EqDec V}.
  (** equal as finite maps *)
  Definition map_eqb (a b : amap K V) : bool :=
    forallb (fun '(k, v) => eqb (get k b) (Some v)) a && forallb (fun '(k, v) => eqb (get k a) (Some v)) b.
End Maps.
(** equal as maps into Z where an absent key means 0 *)
Definition zmap_eqb {K} `{EqDec K} (a b : amap K Z) : bool :=
  forallb (fun '(k, v) => getz k b =? v) a && forallb (fun '(k, v) => getz k a =? v) b.
(** ... except at the listed keys *)
Definition zmap_eqb_except {K} `{EqDec K} (ex : list K) (a b : amap K Z) : bool :=
  let other k := negb (existsb (eqb k) ex) in
  forallb (fun '(k, v) => negb (other k) || (getz k b =? v)) a
  && forallb (fun '(k, v) => negb (other k) || (getz k a =? v)) b.

(** ** correspondence of one step *)
Definition expected_new (s : state) (st : step) : Z :=
  if ok s st then
    match st with
    | Msg (IssueDenom _ _ _) => dseq s
    | Msg (Mint _ _ m _ _ _) => if nonblank m then m else mseq s
    | _ => 0
    end
  else 0.

Definition corr_step (s s' : state) (st : step) (o : obs) : bool :=
  (o_code o =? (if ok s st then 0 else 1))
  && (o_dseq o =? dseq s') && (o_mseq o =? mseq s')
  && (o_new o =? expected_new s st)
  && map_eqb (o_denoms o) (denoms s')
  && map_eqb (map (fun '(k, (dt, _)) => (k, dt)) (o_mts o)) (mts s')
  && forallb (fun '((d, m), (_, sp)) => sp =? supply s' d m) (o_mts o)
  && zmap_eqb (o_sup o) (sup s')
  && zmap_eqb (o_dcount o) (dcount s')
  && zmap_eqb (o_bal o) (bal s')
  && negb (o_invbroken o).

(** ** C15 on the implementation's own observations: [p] before the step, [o] after it *)
Definition obal (o : obs) k := getz k (o_bal o).
Definition osup (o : obs) dm := getz dm (o_sup o).
Definition oowner (o : obs) (d : did) : option addr :=
  match get d (o_denoms o) with Some (_, ow, _) => Some ow | None => None end.
Definition in_range (x : Z) : bool := (0 <=? x) && (x <=? max64).

(** 1: for every token the holders' balances sum to the recorded supply (both supply views),
    nobody holds a token that does not exist, all numbers are 64-bit *)
Definition p_sum (o : obs) : bool :=
  forallb (fun '(dm, (_, sp)) => (total dm (o_bal o) =? sp) && (osup o dm =? sp) && in_range sp) (o_mts o)
  && forallb (fun '(k, v) => (has (key_dm k) (o_mts o) || (v =? 0)) && in_range v) (o_bal o)
  && forallb (fun '(dm, v) => has dm (o_mts o) || (v =? 0)) (o_sup o).

(** 2: a successful transfer needs the amount and moves exactly it *)
Definition p_transfer (p o : obs) (st : step) : bool :=
  match st with
  | Msg (Transfer a d m x r) =>
      if o_code o =? 0 then
        (x <=? obal p (a, d, m))
        && zmap_eqb (o_sup p) (o_sup o)
        && (if a =? r then zmap_eqb (o_bal p) (o_bal o)
            else (obal o (a, d, m) =? obal p (a, d, m) - x)
                 && (obal o (r, d, m) =? obal p (r, d, m) + x)
                 && zmap_eqb_except [(a, d, m); (r, d, m)] (o_bal p) (o_bal o))
      else true
  | _ => true
  end.

(** 3: a successful burn needs the amount and takes exactly it from the burner and the supply *)
Definition p_burn (p o : obs) (st : step) : bool :=
  match st with
  | Msg (Burn a d m x) =>
      if o_code o =? 0 then
        (x <=? obal p (a, d, m))
        && (obal o (a, d, m) =? obal p (a, d, m) - x)
        && (osup o (d, m) =? osup p (d, m) - x)
        && zmap_eqb_except [(a, d, m)] (o_bal p) (o_bal o)
        && zmap_eqb_except [(d, m)] (o_sup p) (o_sup o)
      else true
  | _ => true
  end.

(** 4: a successful mint adds exactly the amount, in unbounded integers (no wrap-around) *)
Definition p_mint (p o : obs) (st : step) : bool :=
  match st with
  | Msg (Mint a d m x _ r) =>
      if o_code o =? 0 then
        let t := o_new o in
        let rc := if r =? -1 then a else r in
        (osup o (d, t) =? osup p (d, t) + x)
        && (obal o (rc, d, t) =? obal p (rc, d, t) + x)
        && zmap_eqb_except [(rc, d, t)] (o_bal p) (o_bal o)
        && zmap_eqb_except [(d, t)] (o_sup p) (o_sup o)
      else true
  | _ => true
  end.

(** 5: minting, editing and handing over succeed only for the class owner; an owner changes only
    by a hand-over of the previous owner; token data only by an owner's edit *)
Definition p_auth (p o : obs) (st : step) : bool :=
  (if o_code o =? 0 then
     match st with
     | Msg (Mint a d _ _ _ _) | Msg (Edit a d _ _) | Msg (TransferDenom a d _) => eqb (oowner p d) (Some a)
     | _ => true
     end
   else true)
  && forallb (fun '(d, (n, ow, dt)) =>
       match get d (o_denoms o) with
       | Some (n', ow', dt') =>
           (n' =? n) && (dt' =? dt)
           && ((ow' =? ow)
               || match st with
                  | Msg (TransferDenom a d' r) => (o_code o =? 0) && (a =? ow) && (d' =? d) && (r =? ow')
                  | _ => false
                  end)
       | None => true   (* disappearance is clause 6 *)
       end) (o_denoms p)
  && forallb (fun '((d, m), (dt, _)) =>
       match get (d, m) (o_mts o) with
       | Some (dt', _) =>
           (dt' =? dt)
           || match st with
              | Msg (Edit a d' m' ndt) => (o_code o =? 0) && (d' =? d) && (m' =? m) && (ndt =? dt') && eqb (oowner p d) (Some a)
              | _ => false
              end
       | None => true
       end) (o_mts p).

(** 6: generated ids are fresh, nothing disappears, sequences only grow by the creations *)
Definition p_ids (p o : obs) (st : step) : bool :=
  forallb (fun '(d, _) => has d (o_denoms o)) (o_denoms p)
  && forallb (fun '(dm, _) => has dm (o_mts o)) (o_mts p)
  && match st with
     | Msg (IssueDenom a _ _) =>
         if o_code o =? 0 then
           negb (has (o_new o) (o_denoms p)) && eqb (oowner o (o_new o)) (Some a)
           && (Z.of_nat (length (o_denoms o)) =? Z.of_nat (length (o_denoms p)) + 1)
           && (o_dseq p <? o_dseq o) && (o_mseq o =? o_mseq p)
         else (Z.of_nat (length (o_denoms o)) =? Z.of_nat (length (o_denoms p)))
     | Msg (Mint _ d m _ _ _) =>
         if (o_code o =? 0) && negb (nonblank m) then
           negb (existsb (fun '((_, m'), _) => m' =? o_new o) (o_mts p))
           && has (d, o_new o) (o_mts o)
           && (Z.of_nat (length (o_mts o)) =? Z.of_nat (length (o_mts p)) + 1)
           && (o_mseq p <? o_mseq o) && (o_dseq o =? o_dseq p)
         else (Z.of_nat (length (o_mts o)) =? Z.of_nat (length (o_mts p)))
              && (o_mseq o =? o_mseq p) && (o_dseq o =? o_dseq p)
     | _ => (Z.of_nat (length (o_denoms o)) =? Z.of_nat (length (o_denoms p)))
            && (Z.of_nat (length (o_mts o)) =? Z.of_nat (length (o_mts p)))
            && (o_mseq o =? o_mseq p) && (o_dseq o =? o_dseq p)
     end.

(** 7: a step changes only what its kind may change; a failed step changes nothing *)
Definition p_frame (p o : obs) (st : step) : bool :=
  let okk := o_code o =? 0 in
  let kind := match st with
              | Msg (IssueDenom _ _ _) => 1 | Msg (Mint _ _ _ _ _ _) => 2 | Msg (Edit _ _ _ _) => 3
              | Msg (Transfer _ _ _ _ _) => 4 | Msg (Burn _ _ _ _) => 5 | Msg (TransferDenom _ _ _) => 6
              | Block => 0 end in
  let may l := okk && existsb (Z.eqb kind) l in
  (may [2; 4; 5] || zmap_eqb (o_bal p) (o_bal o))
  && (may [2; 5] || zmap_eqb (o_sup p) (o_sup o))
  && (may [1; 6] || map_eqb (o_denoms p) (o_denoms o))
  && (may [2; 3] || map_eqb (map (fun '(k, (dt, _)) => (k, dt)) (o_mts p)) (map (fun '(k, (dt, _)) => (k, dt)) (o_mts o))).

(** first violated clause (0 = none) *)
Definition prop_step (p o : obs) (st : step) : Z :=
  if negb (p_sum o) then 1
  else if negb (p_transfer p o st) then 2
  else if negb (p_burn p o st) then 3
  else if negb (p_mint p o st) then 4
  else if negb (p_auth p o st) then 5
  else if negb (p_ids p o st) then 6
  else if negb (p_frame p o st) then 7
  else 0.

Fixpoint check_from (s : state) (p : obs) (c : case) (i : Z) (corr prop code : Z) : Z * Z * Z :=
  match c with
  | [] => (corr, prop, code)
  | (st, o) :: rest =>
      let s' := next s st in
      let corr' := if (corr <? 0) && negb (corr_step s s' st o) then i else corr in
      let cl := prop_step p o st in
      let '(prop', code') := if (prop <? 0) && negb (cl =? 0) then (i, cl) else (prop, code) in
      check_from s' o rest (i + 1) corr' prop' code'
  end.

(** (index of the first step where model and implementation differ or -1,
     index of the first step where C15 fails on the implementation's observations or -1,
     violated clause) *)
Definition check_case (c : case) : Z * Z * Z := check_from init obs0 c 0 (-1) (-1) 0.
