(** * MT: proofs for C15 — balances add up to supply, exact transfers and burns, no 64-bit
    wrap-around in any reachable execution. *)
From Irismod Require Import Mt.Model.
From Coq Require Import ZifyBool.

(** ** 64-bit arithmetic *)
Lemma two64_pos : 0 < two64. Proof. reflexivity. Qed.
Lemma max64_eq : max64 = two64 - 1. Proof. reflexivity. Qed.

Lemma usub_exact a b : 0 <= b <= a -> a <= max64 -> usub a b = a - b.
Proof. intros H1 H2. unfold usub. rewrite max64_eq in H2. apply Z.mod_small. lia. Qed.

Lemma uadd_exact a b : 0 <= a -> 0 <= b -> a + b <= max64 -> uadd a b = a + b.
Proof. intros H1 H2 H3. unfold uadd. rewrite max64_eq in H3. apply Z.mod_small. lia. Qed.

(** ** maps into Z *)
Section GetZ.
  Context {K : Type} `{EqDec K}.
  Lemma getz_set_same (k : K) v m : getz k (set k v m) = v.
  Proof. unfold getz. rewrite get_set_same. reflexivity. Qed.
  Lemma getz_set_other (k k' : K) v m : k' <> k -> getz k' (set k v m) = getz k' m.
  Proof. intros Hne. unfold getz. rewrite get_set_other by exact Hne. reflexivity. Qed.
  Lemma in_set (k k0 : K) (v v0 : Z) m : In (k0, v0) (set k v m) -> (k0, v0) = (k, v) \/ In (k0, v0) m.
  Proof.
    induction m as [|[k1 v1] m IH]; simpl.
    - intros [Heq|[]]. left. congruence.
    - destruct (eq_dec k k1) as [->|Hne]; simpl.
      + intros [Heq|Hin]; [left; congruence|right; right; exact Hin].
      + intros [Heq|Hin]; [right; left; exact Heq|].
        destruct (IH Hin) as [Heq|Hin']; [left; exact Heq|right; right; exact Hin'].
  Qed.
End GetZ.

(** ** the sum of the holders' balances of one token *)
Lemma total_nil dm : total dm [] = 0.
Proof. reflexivity. Qed.

Lemma total_cons dm k v b :
  total dm ((k, v) :: b) = (if eqb (key_dm k) dm then v else 0) + total dm b.
Proof. unfold total. simpl. destruct (eqb (key_dm k) dm); simpl; lia. Qed.

Lemma total_set dm k v b :
  total dm (set k v b) = total dm b + (if eqb (key_dm k) dm then v - getz k b else 0).
Proof.
  induction b as [|[k1 v1] b IH].
  - simpl set. rewrite total_cons, total_nil. unfold getz; simpl. destruct (eqb (key_dm k) dm); lia.
  - simpl set. destruct (eq_dec k k1) as [->|Hne].
    + rewrite !total_cons. unfold getz; simpl. destruct (eq_dec k1 k1) as [_|Hc]; [|congruence].
      destruct (eqb (key_dm k1) dm); lia.
    + rewrite !total_cons, IH. unfold getz; simpl. destruct (eq_dec k k1) as [Hc|_]; [congruence|].
      destruct (eqb (key_dm k) dm); lia.
Qed.

Lemma total_nonneg dm b : (forall k v, In (k, v) b -> 0 <= v) -> 0 <= total dm b.
Proof.
  induction b as [|[k1 v1] b IH]; intros Hnn.
  - rewrite total_nil. lia.
  - rewrite total_cons. assert (0 <= v1) by (apply (Hnn k1); left; reflexivity).
    assert (0 <= total dm b) by (apply IH; intros k v Hin; apply (Hnn k); right; exact Hin).
    destruct (eqb (key_dm k1) dm); lia.
Qed.

(** a holder's balance is at most the sum over all holders *)
Lemma getz_le_total dm k b :
  (forall k v, In (k, v) b -> 0 <= v) -> key_dm k = dm -> 0 <= getz k b <= total dm b.
Proof.
  intros Hnn Hk. induction b as [|[k1 v1] b IH].
  - unfold getz; simpl. rewrite total_nil. lia.
  - rewrite total_cons.
    assert (Hv1 : 0 <= v1) by (apply (Hnn k1); left; reflexivity).
    assert (Hnn' : forall k v, In (k, v) b -> 0 <= v) by (intros k0 v Hin; apply (Hnn k0); right; exact Hin).
    pose proof (total_nonneg dm b Hnn') as Ht.
    unfold getz; simpl. destruct (eq_dec k k1) as [->|Hne].
    + rewrite Hk. rewrite eqb_refl. lia.
    + specialize (IH Hnn'). unfold getz in IH. destruct (eqb (key_dm k1) dm); lia.
Qed.

(** ** the invariant *)
Definition BalInv (s : state) : Prop :=
  NoDup (keys (bal s))
  /\ (forall k v, In (k, v) (bal s) -> 0 <= v)
  /\ (forall d m, holders_total s d m = supply s d m)
  /\ (forall d m, supply s d m <= max64).

Lemma BalInv_init : BalInv init.
Proof.
  unfold BalInv, holders_total, supply, getz; simpl. repeat split.
  - constructor.
  - intros k v [].
  - unfold max64, two64. lia.
Qed.

Lemma BalInv_balance s a d m : BalInv s -> 0 <= balance s a d m <= supply s d m.
Proof.
  intros (_ & Hnn & Hsum & _). rewrite <- Hsum. unfold balance, holders_total.
  apply getz_le_total; [exact Hnn|reflexivity].
Qed.

Lemma BalInv_balance_max s a d m : BalInv s -> 0 <= balance s a d m <= max64.
Proof.
  intros Hinv. pose proof (BalInv_balance s a d m Hinv) as Hb.
  destruct Hinv as (_ & _ & _ & Hmax). specialize (Hmax d m). lia.
Qed.

(** events *)
Definition amount_ev_ok (e : arith) : Prop :=
  match e with
  | USub a b => 0 <= b <= a /\ a <= max64
  | UAdd a b => 0 <= a /\ 0 <= b /\ a + b <= max64
  | UInc _ => True
  end.
Definition counter_ev_ok (e : arith) : Prop :=
  match e with UInc a => 0 <= a /\ a + 1 <= max64 | _ => True end.

Lemma amount_ok_range x : amount_ok x = true -> 0 < x <= max64.
Proof. unfold amount_ok. lia. Qed.

(** ** the three composite ledger operations, with explicit post-states *)

(** keeper.MintMT *)
Lemma mint_mt_spec d m x rc s r ev :
  BalInv s -> 0 < x <= max64 -> mint_mt d m x rc s = (r, ev) ->
  Forall amount_ev_ok ev /\ Forall counter_ev_ok ev
  /\ match r with
     | None => True
     | Some s' =>
         supply s d m + x <= max64
         /\ s' = with_bal (with_sup s (set (d, m) (supply s d m + x) (sup s)))
                          (set (rc, d, m) (balance s rc d m + x) (bal s))
     end.
Proof.
  intros Hinv Hx Hrun. unfold mint_mt, increase_mt_supply in Hrun.
  pose proof (BalInv_balance s rc d m Hinv) as Hb.
  assert (Hs0 : 0 <= supply s d m) by lia.
  destruct (max64 - supply s d m <? x) eqn:G1.
  - simpl in Hrun. inversion Hrun; subst. repeat split; constructor.
  - assert (Hfit : supply s d m + x <= max64) by lia.
    unfold bindR, add_balance in Hrun.
    change (balance (with_sup s (set (d, m) (uadd (supply s d m) x) (sup s))) rc d m) with (balance s rc d m) in Hrun.
    destruct (max64 - balance s rc d m <? x) eqn:G2.
    + inversion Hrun; subst. simpl. repeat split; repeat constructor; lia.
    + inversion Hrun; subst. simpl. repeat split; repeat constructor; try lia.
      rewrite !uadd_exact by lia. reflexivity.
Qed.

(** balance.go Transfer, called under the caller's guard [amount <= balance of from] *)
Lemma transfer_spec d m x from to s r ev :
  BalInv s -> 0 < x -> x <= balance s from d m -> transfer d m x from to s = (r, ev) ->
  Forall amount_ev_ok ev /\ Forall counter_ev_ok ev
  /\ r = Some (with_bal s (set (to, d, m)
                 (getz (to, d, m) (set (from, d, m) (balance s from d m - x) (bal s)) + x)
                 (set (from, d, m) (balance s from d m - x) (bal s)))).
Proof.
  intros Hinv Hx Hheld Hrun. unfold transfer, sub_balance, bindR, add_balance in Hrun.
  pose proof (BalInv_balance s from d m Hinv) as Hbf.
  pose proof (BalInv_balance_max s from d m Hinv) as Hbfm.
  destruct Hinv as (Hnd & Hnn & Hsum & Hmax).
  rewrite (usub_exact (balance s from d m) x) in Hrun by lia.
  set (b1 := set (from, d, m) (balance s from d m - x) (bal s)) in *.
  change (balance (with_bal s b1) to d m) with (getz (to, d, m) b1) in Hrun.
  (* in the intermediate state the holders' total is the supply minus x *)
  assert (Hnn1 : forall k v, In (k, v) b1 -> 0 <= v).
  { intros k v Hin. apply in_set in Hin. destruct Hin as [Heq|Hin]; [inversion Heq; lia|exact (Hnn k v Hin)]. }
  assert (Htot1 : total (d, m) b1 = supply s d m - x).
  { unfold b1. rewrite total_set. simpl key_dm. rewrite eqb_refl.
    specialize (Hsum d m). unfold holders_total in Hsum. unfold balance. lia. }
  pose proof (getz_le_total (d, m) (to, d, m) b1 Hnn1 eq_refl) as Hb2.
  specialize (Hmax d m).
  destruct (max64 - getz (to, d, m) b1 <? x) eqn:G; [lia|].
  inversion Hrun; subst. repeat split.
  - repeat constructor; lia.
  - repeat constructor.
  - rewrite uadd_exact by lia. reflexivity.
Qed.

(** keeper.BurnMT after its guard *)
Lemma burn_spec d m x a s r ev :
  BalInv s -> 0 < x -> x <= balance s a d m ->
  bindR (sub_balance d m x a s) (decrease_mt_supply d m x) = (r, ev) ->
  Forall amount_ev_ok ev /\ Forall counter_ev_ok ev
  /\ r = Some (with_sup (with_bal s (set (a, d, m) (balance s a d m - x) (bal s)))
                        (set (d, m) (supply s d m - x) (sup s))).
Proof.
  intros Hinv Hx Hheld Hrun. unfold sub_balance, bindR, decrease_mt_supply in Hrun.
  pose proof (BalInv_balance s a d m Hinv) as Hb.
  destruct Hinv as (Hnd & Hnn & Hsum & Hmax). specialize (Hmax d m).
  change (supply (with_bal s (set (a, d, m) (usub (balance s a d m) x) (bal s))) d m) with (supply s d m) in Hrun.
  rewrite (usub_exact (balance s a d m) x) in Hrun by lia.
  rewrite (usub_exact (supply s d m) x) in Hrun by lia.
  inversion Hrun; subst. repeat split; repeat constructor; lia.
Qed.

(** ** preservation of the invariant by explicit post-states *)
Lemma BalInv_credit s a d m x :
  BalInv s -> 0 <= x -> supply s d m + x <= max64 ->
  BalInv (with_bal (with_sup s (set (d, m) (supply s d m + x) (sup s)))
                   (set (a, d, m) (balance s a d m + x) (bal s))).
Proof.
  intros Hinv Hx Hfit. pose proof (BalInv_balance s a d m Hinv) as Hb.
  destruct Hinv as (Hnd & Hnn & Hsum & Hmax).
  unfold BalInv, holders_total, supply; simpl. repeat split.
  - apply keys_set_NoDup. exact Hnd.
  - intros k v Hin. apply in_set in Hin. destruct Hin as [Heq|Hin]; [inversion Heq; lia|exact (Hnn k v Hin)].
  - intros d' m'. rewrite total_set. simpl key_dm.
    destruct (eq_dec (d, m) (d', m')) as [Heq|Hne].
    + inversion Heq; subst. rewrite eqb_refl, getz_set_same.
      specialize (Hsum d' m'). unfold holders_total, supply in Hsum. unfold balance, supply. lia.
    + assert (Hf : eqb (d, m) (d', m') = false) by (apply eqb_false_iff; exact Hne). rewrite Hf.
      rewrite getz_set_other by congruence. specialize (Hsum d' m'). unfold holders_total, supply in Hsum. lia.
  - intros d' m'. destruct (eq_dec (d', m') (d, m)) as [Heq|Hne].
    + rewrite Heq, getz_set_same. exact Hfit.
    + rewrite getz_set_other by exact Hne. exact (Hmax d' m').
Qed.

Lemma BalInv_move s from to d m x :
  BalInv s -> 0 < x -> x <= balance s from d m ->
  BalInv (with_bal s (set (to, d, m)
            (getz (to, d, m) (set (from, d, m) (balance s from d m - x) (bal s)) + x)
            (set (from, d, m) (balance s from d m - x) (bal s)))).
Proof.
  intros Hinv Hx Hheld. destruct Hinv as (Hnd & Hnn & Hsum & Hmax).
  set (b1 := set (from, d, m) (balance s from d m - x) (bal s)).
  assert (Hnn1 : forall k v, In (k, v) b1 -> 0 <= v).
  { intros k v Hin. apply in_set in Hin. destruct Hin as [Heq|Hin]; [inversion Heq; lia|exact (Hnn k v Hin)]. }
  pose proof (getz_le_total (d, m) (to, d, m) b1 Hnn1 eq_refl) as Hb2.
  unfold BalInv, holders_total, supply; simpl. repeat split.
  - apply keys_set_NoDup. apply keys_set_NoDup. exact Hnd.
  - intros k v Hin. apply in_set in Hin. destruct Hin as [Heq|Hin]; [inversion Heq; lia|exact (Hnn1 k v Hin)].
  - intros d' m'. rewrite total_set. unfold b1 at 1. rewrite total_set. simpl key_dm.
    specialize (Hsum d' m'). unfold holders_total, supply in Hsum. unfold balance.
    destruct (eqb (d, m) (d', m')); lia.
  - exact Hmax.
Qed.

Lemma BalInv_debit s a d m x :
  BalInv s -> 0 < x -> x <= balance s a d m ->
  BalInv (with_sup (with_bal s (set (a, d, m) (balance s a d m - x) (bal s)))
                   (set (d, m) (supply s d m - x) (sup s))).
Proof.
  intros Hinv Hx Hheld. pose proof (BalInv_balance s a d m Hinv) as Hb.
  destruct Hinv as (Hnd & Hnn & Hsum & Hmax).
  unfold BalInv, holders_total, supply; simpl. repeat split.
  - apply keys_set_NoDup. exact Hnd.
  - intros k v Hin. apply in_set in Hin. destruct Hin as [Heq|Hin]; [inversion Heq; lia|exact (Hnn k v Hin)].
  - intros d' m'. rewrite total_set. simpl key_dm.
    destruct (eq_dec (d, m) (d', m')) as [Heq|Hne].
    + inversion Heq; subst. rewrite eqb_refl, getz_set_same.
      specialize (Hsum d' m'). unfold holders_total, supply in Hsum. unfold balance, supply. lia.
    + assert (Hf : eqb (d, m) (d', m') = false) by (apply eqb_false_iff; exact Hne). rewrite Hf.
      rewrite getz_set_other by congruence. specialize (Hsum d' m'). unfold holders_total, supply in Hsum. lia.
  - intros d' m'. destruct (eq_dec (d', m') (d, m)) as [Heq|Hne].
    + rewrite Heq, getz_set_same. specialize (Hmax d m). unfold supply in *. lia.
    + rewrite getz_set_other by exact Hne. exact (Hmax d' m').
Qed.

(** the invariant only reads the balance and supply tables *)
Lemma BalInv_ext s s' : bal s' = bal s -> sup s' = sup s -> BalInv s -> BalInv s'.
Proof. unfold BalInv, holders_total, supply. intros -> ->. tauto. Qed.

(** ** every message: the invariant is kept and no executed operation wraps *)
Lemma Forall_app_intro {A} (P : A -> Prop) l1 l2 : Forall P l1 -> Forall P l2 -> Forall P (l1 ++ l2).
Proof. intros H1 H2. apply Forall_app. split; assumption. Qed.

Lemma issue_mt_unfold d id x data rc s :
  issue_mt d id x data rc s =
  let s1 := with_mts s (set (d, id) data (mts s)) in
  let s2 := with_dcount s1 (set d (uadd (getz d (dcount s1)) 1) (dcount s1)) in
  let '(r, e) := mint_mt d id x rc s2 in (r, UInc (getz d (dcount s1)) :: e).
Proof. reflexivity. Qed.

Lemma mint_inv s a d m x dt r res ev :
  BalInv s -> mint s a d m x dt r = (res, ev) ->
  Forall amount_ev_ok ev /\ match res with Some s' => BalInv s' | None => True end.
Proof.
  intros Hinv Hrun. unfold mint in Hrun.
  destruct (nonblank d && amount_ok x && negb (nonblank m && nonblank dt) && addr_ok a
            && ((r =? -1) || addr_ok r)) eqn:Hvb; [|inversion Hrun; subst; split; [constructor|exact I]].
  assert (Hx : 0 < x <= max64) by (apply amount_ok_range; lia).
  destruct (authorize s d a); [|inversion Hrun; subst; split; [constructor|exact I]].
  destruct (nonblank m).
  - destruct (has (d, m) (mts s)); [|inversion Hrun; subst; split; [constructor|exact I]].
    destruct (mint_mt_spec _ _ _ _ _ _ _ Hinv Hx Hrun) as (He & _ & Hres). split; [exact He|].
    destruct res as [s'|]; [|exact I]. destruct Hres as (Hfit & ->).
    apply BalInv_credit; [exact Hinv|lia|exact Hfit].
  - unfold bindR in Hrun. rewrite issue_mt_unfold in Hrun. cbv zeta in Hrun.
    set (s2 := with_dcount _ _) in Hrun.
    assert (Hinv2 : BalInv s2) by (apply (BalInv_ext s); [reflexivity|reflexivity|exact Hinv]).
    destruct (mint_mt d (mseq s) x (if r =? -1 then a else r) s2) as [res2 ev2] eqn:Hm.
    destruct (mint_mt_spec _ _ _ _ _ _ _ Hinv2 Hx Hm) as (He & _ & Hres).
    inversion Hrun; subst. split.
    + constructor; [exact I|]. constructor; [exact I|exact He].
    + destruct res as [s'|]; [|exact I]. destruct Hres as (Hfit & ->).
      apply BalInv_credit; [exact Hinv2|lia|exact Hfit].
Qed.

Lemma exec_msg_inv s msg res ev :
  BalInv s -> exec_msg s msg = (res, ev) ->
  Forall amount_ev_ok ev /\ match res with Some s' => BalInv s' | None => True end.
Proof.
  intros Hinv Hrun. destruct msg as [a n dt|a d m x dt r|a d m dt|a d m x r|a d m x|a d r]; simpl in Hrun.
  - unfold issue_denom in Hrun. destruct (addr_ok a && nonblank n); inversion Hrun; subst.
    + split; [repeat constructor|]. apply (BalInv_ext s); [reflexivity|reflexivity|exact Hinv].
    + split; [constructor|exact I].
  - exact (mint_inv _ _ _ _ _ _ _ _ _ Hinv Hrun).
  - unfold edit in Hrun.
    destruct (nonblank m && nonblank d && addr_ok a); [|inversion Hrun; subst; split; [constructor|exact I]].
    destruct (authorize s d a); [|inversion Hrun; subst; split; [constructor|exact I]].
    destruct (has (d, m) (mts s)); [|inversion Hrun; subst; split; [constructor|exact I]].
    destruct (dt =? do_not_modify); inversion Hrun; subst; (split; [constructor|]); [exact Hinv|].
    apply (BalInv_ext s); [reflexivity|reflexivity|exact Hinv].
  - unfold transfer_mt in Hrun.
    destruct (nonblank m && nonblank d && amount_ok x && addr_ok a && addr_ok r) eqn:Hvb;
      [|inversion Hrun; subst; split; [constructor|exact I]].
    assert (Hx : 0 < x <= max64) by (apply amount_ok_range; lia).
    destruct (balance s a d m <? x) eqn:G; [inversion Hrun; subst; split; [constructor|exact I]|].
    assert (Hheld : x <= balance s a d m) by lia.
    destruct (transfer_spec _ _ _ _ _ _ _ _ Hinv (proj1 Hx) Hheld Hrun) as (He & _ & ->).
    split; [exact He|]. apply BalInv_move; [exact Hinv|lia|exact Hheld].
  - unfold burn in Hrun.
    destruct (nonblank m && nonblank d && amount_ok x && addr_ok a) eqn:Hvb;
      [|inversion Hrun; subst; split; [constructor|exact I]].
    assert (Hx : 0 < x <= max64) by (apply amount_ok_range; lia).
    destruct (balance s a d m <? x) eqn:G; [inversion Hrun; subst; split; [constructor|exact I]|].
    assert (Hheld : x <= balance s a d m) by lia.
    destruct (burn_spec _ _ _ _ _ _ _ Hinv (proj1 Hx) Hheld Hrun) as (He & _ & ->).
    split; [exact He|]. apply BalInv_debit; [exact Hinv|lia|exact Hheld].
  - unfold transfer_denom in Hrun.
    destruct (nonblank d && addr_ok a && addr_ok r); [|inversion Hrun; subst; split; [constructor|exact I]].
    destruct (authorize s d a); [|inversion Hrun; subst; split; [constructor|exact I]].
    destruct (get d (denoms s)) as [[[n o] dt]|]; inversion Hrun; subst; (split; [constructor|]); [|exact I].
    apply (BalInv_ext s); [reflexivity|reflexivity|exact Hinv].
Qed.

Lemma step_inv s st : BalInv s -> BalInv (next s st) /\ Forall amount_ev_ok (events s st).
Proof.
  intros Hinv. unfold next, events. destruct st as [msg|]; simpl.
  - destruct (exec_msg s msg) as [res ev] eqn:E. destruct (exec_msg_inv _ _ _ _ Hinv E) as (He & Hres).
    simpl. split; [|exact He]. destruct res; [exact Hres|exact Hinv].
  - split; [exact Hinv|constructor].
Qed.

Lemma run_inv steps : forall s, BalInv s -> BalInv (run s steps) /\ Forall amount_ev_ok (all_events s steps).
Proof.
  induction steps as [|st rest IH]; simpl; intros s Hinv; [split; [exact Hinv|constructor]|].
  destruct (step_inv s st Hinv) as (H1 & H2). destruct (IH _ H1) as (H3 & H4).
  split; [exact H3|]. apply Forall_app_intro; assumption.
Qed.

(** ** C15 statements over all histories *)

(** in every state reachable from any state satisfying the invariant (in particular the empty
    chain), every token's holders' balances add up to its recorded supply, each holder is listed
    once, and everything is a 64-bit number *)
Lemma balances_sum_to_supply_lemma :
  forall (s0 : state) (steps : list step), BalInv s0 ->
    let s := run s0 steps in
    NoDup (keys (bal s))
    /\ (forall d m, holders_total s d m = supply s d m)
    /\ (forall a d m, 0 <= balance s a d m <= supply s d m)
    /\ (forall d m, supply s d m <= max64).
Proof.
  intros s0 steps H0 s. destruct (run_inv steps s0 H0) as (Hinv & _). fold s in Hinv.
  pose proof (fun a d m => BalInv_balance s a d m Hinv) as Hb.
  destruct Hinv as (Hnd & _ & Hsum & Hmax). auto.
Qed.

(** no unchecked subtraction or addition on amounts ever wraps: every operand pair logged by any
    execution from a state satisfying the invariant is in range *)
Lemma no_wrap_lemma :
  forall (s0 : state) (steps : list step) (e : arith), BalInv s0 ->
    In e (all_events s0 steps) ->
    match e with
    | USub a b => 0 <= b <= a /\ a <= max64 /\ usub a b = a - b
    | UAdd a b => 0 <= a /\ 0 <= b /\ a + b <= max64 /\ uadd a b = a + b
    | UInc _ => True
    end.
Proof.
  intros s0 steps e H0 Hin. destruct (run_inv steps s0 H0) as (_ & Hev).
  rewrite Forall_forall in Hev. specialize (Hev e Hin). destruct e as [a b|a b|a]; simpl in Hev; [| |exact I].
  - destruct Hev as (H1 & H2). repeat split; try lia. apply usub_exact; lia.
  - destruct Hev as (H1 & H2 & H3). repeat split; try lia. apply uadd_exact; lia.
Qed.

(** exact transfer *)
Lemma transfer_exact_lemma :
  forall s a d m x r s' ev, BalInv s ->
    exec_msg s (Transfer a d m x r) = (Some s', ev) ->
    0 < x <= balance s a d m
    /\ (forall d' m', supply s' d' m' = supply s d' m')
    /\ (a = r -> forall a' d' m', balance s' a' d' m' = balance s a' d' m')
    /\ (a <> r -> balance s' a d m = balance s a d m - x /\ balance s' r d m = balance s r d m + x)
    /\ (forall a' d' m', (a', d', m') <> (a, d, m) -> (a', d', m') <> (r, d, m) ->
          balance s' a' d' m' = balance s a' d' m')
    /\ denoms s' = denoms s /\ mts s' = mts s.
Proof.
  intros s a d m x r s' ev Hinv Hrun. simpl in Hrun. unfold transfer_mt in Hrun.
  destruct (nonblank m && nonblank d && amount_ok x && addr_ok a && addr_ok r) eqn:Hvb; [|discriminate].
  assert (Hx : 0 < x <= max64) by (apply amount_ok_range; lia).
  destruct (balance s a d m <? x) eqn:G; [discriminate|].
  assert (Hheld : x <= balance s a d m) by lia.
  destruct (transfer_spec _ _ _ _ _ _ _ _ Hinv (proj1 Hx) Hheld Hrun) as (_ & _ & Heq).
  inversion Heq; subst s'; clear Heq. split; [lia|]. unfold balance, supply; simpl.
  split; [reflexivity|]. split; [|split; [|split; [|split; reflexivity]]].
  - intros <- a' d' m'. destruct (eq_dec (a', d', m') (a, d, m)) as [Heq|Hne].
    + rewrite Heq. rewrite !getz_set_same. unfold balance. lia.
    + rewrite !getz_set_other by exact Hne. reflexivity.
  - intros Hne. split.
    + rewrite getz_set_other by congruence. rewrite getz_set_same. reflexivity.
    + rewrite getz_set_same. rewrite getz_set_other by congruence. reflexivity.
  - intros a' d' m' H1 H2. rewrite !getz_set_other by assumption. reflexivity.
Qed.

(** exact burn *)
Lemma burn_exact_lemma :
  forall s a d m x s' ev, BalInv s ->
    exec_msg s (Burn a d m x) = (Some s', ev) ->
    0 < x <= balance s a d m
    /\ balance s' a d m = balance s a d m - x
    /\ supply s' d m = supply s d m - x
    /\ (forall a' d' m', (a', d', m') <> (a, d, m) -> balance s' a' d' m' = balance s a' d' m')
    /\ (forall d' m', (d', m') <> (d, m) -> supply s' d' m' = supply s d' m')
    /\ denoms s' = denoms s /\ mts s' = mts s.
Proof.
  intros s a d m x s' ev Hinv Hrun. simpl in Hrun. unfold burn in Hrun.
  destruct (nonblank m && nonblank d && amount_ok x && addr_ok a) eqn:Hvb; [|discriminate].
  assert (Hx : 0 < x <= max64) by (apply amount_ok_range; lia).
  destruct (balance s a d m <? x) eqn:G; [discriminate|].
  assert (Hheld : x <= balance s a d m) by lia.
  destruct (burn_spec _ _ _ _ _ _ _ Hinv (proj1 Hx) Hheld Hrun) as (_ & _ & Heq).
  inversion Heq; subst s'; clear Heq. split; [lia|]. unfold balance, supply; simpl.
  rewrite !getz_set_same. split; [reflexivity|]. split; [reflexivity|].
  split; [|split; [|split; reflexivity]].
  - intros a' d' m' Hne. rewrite getz_set_other by exact Hne. reflexivity.
  - intros d' m' Hne. rewrite getz_set_other by exact Hne. reflexivity.
Qed.

(** exact mint (in unbounded integers: the new supply is the old one plus the amount and still a
    64-bit number) *)
Lemma mint_exact_lemma :
  forall s a d m x dt r s' ev, BalInv s ->
    exec_msg s (Mint a d m x dt r) = (Some s', ev) ->
    let t := if nonblank m then m else mseq s in
    let rc := if r =? -1 then a else r in
    0 < x
    /\ supply s' d t = supply s d t + x /\ supply s' d t <= max64
    /\ balance s' rc d t = balance s rc d t + x
    /\ (forall a' d' m', (a', d', m') <> (rc, d, t) -> balance s' a' d' m' = balance s a' d' m')
    /\ (forall d' m', (d', m') <> (d, t) -> supply s' d' m' = supply s d' m').
Proof.
  intros s a d m x dt r s' ev Hinv Hrun t rc. simpl in Hrun. unfold mint in Hrun.
  destruct (nonblank d && amount_ok x && negb (nonblank m && nonblank dt) && addr_ok a
            && ((r =? -1) || addr_ok r)) eqn:Hvb; [|discriminate].
  assert (Hx : 0 < x <= max64) by (apply amount_ok_range; lia).
  destruct (authorize s d a); [|discriminate].
  unfold t. destruct (nonblank m).
  - destruct (has (d, m) (mts s)); [|discriminate].
    destruct (mint_mt_spec _ _ _ _ _ _ _ Hinv Hx Hrun) as (_ & _ & Hfit & ->).
    unfold balance, supply; simpl. rewrite !getz_set_same. fold (supply s d m). fold (balance s rc d m).
    repeat split; try lia.
    + intros a' d' m' Hne. rewrite getz_set_other by exact Hne. reflexivity.
    + intros d' m' Hne. rewrite getz_set_other by exact Hne. reflexivity.
  - unfold bindR in Hrun. rewrite issue_mt_unfold in Hrun. cbv zeta in Hrun.
    set (s2 := with_dcount _ _) in Hrun. fold rc in Hrun.
    assert (Hinv2 : BalInv s2) by (apply (BalInv_ext s); [reflexivity|reflexivity|exact Hinv]).
    destruct (mint_mt d (mseq s) x rc s2) as [res2 ev2] eqn:Hm.
    destruct (mint_mt_spec _ _ _ _ _ _ _ Hinv2 Hx Hm) as (_ & _ & Hres).
    inversion Hrun; subst res2. destruct Hres as (Hfit & ->).
    unfold balance, supply in *; simpl in *. rewrite !getz_set_same.
    repeat split; try lia.
    + intros a' d' m' Hne. rewrite getz_set_other by exact Hne. reflexivity.
    + intros d' m' Hne. rewrite getz_set_other by exact Hne. reflexivity.
Qed.

(** holding the amount is not only necessary but sufficient: a well-formed transfer of at most
    what the sender holds always succeeds (the recipient's balance cannot overflow, because it is
    bounded by the supply) *)
Lemma transfer_succeeds_lemma :
  forall s a d m x r, BalInv s ->
    nonblank m && nonblank d && addr_ok a && addr_ok r = true ->
    0 < x <= balance s a d m ->
    exists s', fst (exec_msg s (Transfer a d m x r)) = Some s'.
Proof.
  intros s a d m x r Hinv Hvb Hx. simpl. unfold transfer_mt.
  pose proof (BalInv_balance_max s a d m Hinv) as Hmax.
  assert (Ha : amount_ok x = true) by (unfold amount_ok; lia).
  assert (Hc : nonblank m && nonblank d && amount_ok x && addr_ok a && addr_ok r = true) by lia.
  rewrite Hc. destruct (balance s a d m <? x) eqn:G; [lia|].
  destruct (transfer d m x a r s) as [res ev] eqn:E.
  destruct (transfer_spec _ _ _ _ _ _ _ _ Hinv (proj1 Hx) (proj2 Hx) E) as (_ & _ & ->).
  eexists. reflexivity.
Qed.

(** ** explicit post-states of the successful messages *)
Definition credit_state (s : state) (rc : addr) (d : did) (t : mid) (x : Z) : state :=
  with_bal (with_sup s (set (d, t) (supply s d t + x) (sup s))) (set (rc, d, t) (balance s rc d t + x) (bal s)).

Definition new_token_state (s : state) (d : did) (dt : Z) : state :=
  let s0 := with_mseq s (uadd (mseq s) 1) in
  let s1 := with_mts s0 (set (d, mseq s) dt (mts s0)) in
  with_dcount s1 (set d (uadd (getz d (dcount s1)) 1) (dcount s1)).

Lemma issue_denom_post s a n dt s' ev :
  exec_msg s (IssueDenom a n dt) = (Some s', ev) ->
  addr_ok a = true /\ nonblank n = true /\ ev = [UInc (dseq s)]
  /\ s' = with_denoms (with_dseq s (uadd (dseq s) 1)) (set (dseq s) (n, a, dt) (denoms s)).
Proof.
  simpl. unfold issue_denom. destruct (addr_ok a) eqn:Ha; destruct (nonblank n) eqn:Hn; simpl; intros H; inversion H.
  auto.
Qed.

Lemma mint_post s a d m x dt r s' ev :
  BalInv s -> exec_msg s (Mint a d m x dt r) = (Some s', ev) ->
  let rc := if r =? -1 then a else r in
  authorize s d a = true /\ 0 < x <= max64 /\ addr_ok rc = true
  /\ (if nonblank m
      then has (d, m) (mts s) = true /\ s' = credit_state s rc d m x /\ Forall counter_ev_ok ev
      else s' = credit_state (new_token_state s d dt) rc d (mseq s) x
           /\ exists ev', ev = UInc (mseq s) :: UInc (getz d (dcount s)) :: ev' /\ Forall counter_ev_ok ev').
Proof.
  intros Hinv Hrun rc. simpl in Hrun. unfold mint in Hrun.
  destruct (nonblank d && amount_ok x && negb (nonblank m && nonblank dt) && addr_ok a
            && ((r =? -1) || addr_ok r)) eqn:Hvb; [|discriminate].
  assert (Hx : 0 < x <= max64) by (apply amount_ok_range; lia).
  assert (Hrc : addr_ok rc = true) by (unfold rc; destruct (r =? -1) eqn:Hr; lia).
  destruct (authorize s d a); [|discriminate]. split; [reflexivity|]. split; [exact Hx|]. split; [exact Hrc|].
  fold rc in Hrun. destruct (nonblank m).
  - destruct (has (d, m) (mts s)); [|discriminate]. split; [reflexivity|].
    destruct (mint_mt_spec _ _ _ _ _ _ _ Hinv Hx Hrun) as (_ & Hc & _ & ->). split; [reflexivity|exact Hc].
  - unfold bindR in Hrun. rewrite issue_mt_unfold in Hrun. cbv zeta in Hrun.
    set (s2 := with_dcount _ _) in Hrun.
    assert (Hs2 : s2 = new_token_state s d dt) by reflexivity.
    assert (Hinv2 : BalInv s2) by (apply (BalInv_ext s); [reflexivity|reflexivity|exact Hinv]).
    destruct (mint_mt d (mseq s) x rc s2) as [res2 ev2] eqn:Hm.
    destruct (mint_mt_spec _ _ _ _ _ _ _ Hinv2 Hx Hm) as (_ & Hc & Hres).
    inversion Hrun as [[Hr He]]. rewrite Hr in Hres. destruct Hres as (_ & ->). rewrite <- Hs2.
    split; [reflexivity|]. exists ev2. split; [reflexivity|exact Hc].
Qed.

Lemma edit_post s a d m dt s' ev :
  exec_msg s (Edit a d m dt) = (Some s', ev) ->
  authorize s d a = true /\ has (d, m) (mts s) = true /\ ev = []
  /\ s' = if dt =? do_not_modify then s else with_mts s (set (d, m) dt (mts s)).
Proof.
  simpl. unfold edit. destruct (nonblank m && nonblank d && addr_ok a); [|discriminate].
  destruct (authorize s d a); [|discriminate]. destruct (has (d, m) (mts s)); [|discriminate].
  destruct (dt =? do_not_modify); intros H; inversion H; auto.
Qed.

Lemma transfer_denom_post s a d r s' ev :
  exec_msg s (TransferDenom a d r) = (Some s', ev) ->
  authorize s d a = true /\ addr_ok r = true /\ ev = []
  /\ exists n dt, get d (denoms s) = Some (n, a, dt) /\ s' = with_denoms s (set d (n, r, dt) (denoms s)).
Proof.
  simpl. unfold transfer_denom. destruct (nonblank d && addr_ok a && addr_ok r) eqn:Hvb; [|discriminate].
  unfold authorize. destruct (get d (denoms s)) as [[[n o] dt]|] eqn:Hg; [|discriminate].
  destruct (o =? a) eqn:Ho; [|discriminate]. intros H; inversion H.
  assert (o = a) by lia. subst o. repeat split; try lia. exists n, dt. auto.
Qed.

Lemma transfer_post s a d m x r s' ev :
  BalInv s -> exec_msg s (Transfer a d m x r) = (Some s', ev) ->
  denoms s' = denoms s /\ mts s' = mts s /\ dcount s' = dcount s /\ dseq s' = dseq s /\ mseq s' = mseq s
  /\ Forall counter_ev_ok ev.
Proof.
  intros Hinv Hrun. simpl in Hrun. unfold transfer_mt in Hrun.
  destruct (nonblank m && nonblank d && amount_ok x && addr_ok a && addr_ok r) eqn:Hvb; [|discriminate].
  assert (Hx : 0 < x <= max64) by (apply amount_ok_range; lia).
  destruct (balance s a d m <? x) eqn:G; [discriminate|].
  assert (Hheld : x <= balance s a d m) by lia.
  destruct (transfer_spec _ _ _ _ _ _ _ _ Hinv (proj1 Hx) Hheld Hrun) as (_ & Hc & Heq).
  inversion Heq; subst s'. simpl. auto 10.
Qed.

Lemma burn_post s a d m x s' ev :
  BalInv s -> exec_msg s (Burn a d m x) = (Some s', ev) ->
  denoms s' = denoms s /\ mts s' = mts s /\ dcount s' = dcount s /\ dseq s' = dseq s /\ mseq s' = mseq s
  /\ Forall counter_ev_ok ev.
Proof.
  intros Hinv Hrun. simpl in Hrun. unfold burn in Hrun.
  destruct (nonblank m && nonblank d && amount_ok x && addr_ok a) eqn:Hvb; [|discriminate].
  assert (Hx : 0 < x <= max64) by (apply amount_ok_range; lia).
  destruct (balance s a d m <? x) eqn:G; [discriminate|].
  assert (Hheld : x <= balance s a d m) by lia.
  destruct (burn_spec _ _ _ _ _ _ _ Hinv (proj1 Hx) Hheld Hrun) as (_ & Hc & Heq).
  inversion Heq; subst s'. simpl. auto 10.
Qed.

(** ** authority *)
Lemma authorize_owner s d a : authorize s d a = true <-> owner_of s d = Some a.
Proof.
  unfold authorize, owner_of. destruct (get d (denoms s)) as [[[n o] dt]|]; [|split; discriminate].
  split; [intros H; f_equal; lia|intros H; inversion H; lia].
Qed.

(** minting (new token or more of an existing one), editing and handing over succeed only for
    the current owner of the class *)
Lemma only_owner_lemma :
  forall s msg s' ev, BalInv s -> exec_msg s msg = (Some s', ev) ->
    match msg with
    | Mint a d _ _ _ _ | Edit a d _ _ | TransferDenom a d _ => owner_of s d = Some a
    | _ => True
    end.
Proof.
  intros s msg s' ev Hinv Hrun. destruct msg as [a n dt|a d m x dt r|a d m dt|a d m x r|a d m x|a d r]; try exact I.
  - apply authorize_owner. exact (proj1 (mint_post _ _ _ _ _ _ _ _ _ Hinv Hrun)).
  - apply authorize_owner. exact (proj1 (edit_post _ _ _ _ _ _ _ Hrun)).
  - apply authorize_owner. exact (proj1 (transfer_denom_post _ _ _ _ _ _ Hrun)).
Qed.

(** ** sequences, freshness of generated ids, counters *)
Definition SeqInv (s : state) : Prop :=
  (1 <= dseq s <= max64) /\ (1 <= mseq s <= max64)
  /\ (forall d, get d (denoms s) <> None -> 1 <= d < dseq s)
  /\ (forall d m, get (d, m) (mts s) <> None -> 1 <= m < mseq s)
  /\ (forall d, 0 <= getz d (dcount s) < mseq s).

Lemma SeqInv_init : SeqInv init.
Proof.
  unfold SeqInv, init, getz, max64, two64; simpl. repeat split; try lia; intros; congruence.
Qed.

Lemma get_set_ne_None {K V} `{EqDec K} (k k0 : K) (v : V) m : get k0 m <> None -> get k0 (set k v m) <> None.
Proof.
  intros Hg. destruct (eq_dec k0 k) as [->|Hne]; [rewrite get_set_same; discriminate|].
  rewrite get_set_other by exact Hne. exact Hg.
Qed.

Lemma get_set_inv {K V} `{EqDec K} (k k0 : K) (v : V) m : get k0 (set k v m) <> None -> k0 = k \/ get k0 m <> None.
Proof.
  intros Hg. destruct (eq_dec k0 k) as [->|Hne]; [left; reflexivity|].
  rewrite get_set_other in Hg by exact Hne. right. exact Hg.
Qed.

(** what one step does to sequences and id tables *)
Record seq_step (s s' : state) (nd : list did) (nm : list mid) : Prop := {
  ss_inv : SeqInv s';
  ss_d : (nd = [] /\ dseq s' = dseq s) \/ (nd = [dseq s] /\ dseq s' = dseq s + 1 /\ get (dseq s) (denoms s') <> None);
  ss_m : (nm = [] /\ mseq s' = mseq s) \/ (nm = [mseq s] /\ mseq s' = mseq s + 1 /\ exists d, get (d, mseq s) (mts s') <> None);
  ss_keepd : forall d, get d (denoms s) <> None -> get d (denoms s') <> None;
  ss_keepm : forall d m, get (d, m) (mts s) <> None -> get (d, m) (mts s') <> None
}.

Lemma seq_step_same_meta s s' :
  SeqInv s -> denoms s' = denoms s -> mts s' = mts s -> dcount s' = dcount s -> dseq s' = dseq s -> mseq s' = mseq s ->
  seq_step s s' [] [].
Proof.
  intros Hs H1 H2 H3 H4 H5. constructor.
  - unfold SeqInv. rewrite H1, H2, H3, H4, H5. exact Hs.
  - left. auto.
  - left. auto.
  - rewrite H1. auto.
  - rewrite H2. auto.
Qed.

Lemma ok_true s msg s' ev : exec_msg s msg = (Some s', ev) -> ok s (Msg msg) = true /\ next s (Msg msg) = s' /\ events s (Msg msg) = ev.
Proof. intros H. unfold ok, next, events; simpl. rewrite H. auto. Qed.
Lemma ok_false s msg ev : exec_msg s msg = (None, ev) -> ok s (Msg msg) = false /\ next s (Msg msg) = s /\ events s (Msg msg) = ev.
Proof. intros H. unfold ok, next, events; simpl. rewrite H. auto. Qed.

Lemma new_ids_failed s st : ok s st = false -> new_denom s st = [] /\ new_mt s st = [].
Proof.
  intros Hok. destruct st as [msg|]; [|auto]. destruct msg; simpl; rewrite ?Hok; auto.
Qed.

Lemma step_seq s st :
  BalInv s -> SeqInv s -> dseq s < max64 -> mseq s < max64 ->
  seq_step s (next s st) (new_denom s st) (new_mt s st).
Proof.
  intros Hinv Hs Hd Hm. destruct st as [msg|]; [|apply seq_step_same_meta; auto].
  destruct (exec_msg s msg) as [[s'|] ev] eqn:E.
  2:{ destruct (ok_false _ _ _ E) as (Hok & -> & _). destruct (new_ids_failed _ _ Hok) as (-> & ->).
      apply seq_step_same_meta; auto. }
  destruct (ok_true _ _ _ _ E) as (Hok & -> & _).
  destruct Hs as (Hd1 & Hm1 & Hdk & Hmk & Hdc).
  destruct msg as [a n dt|a d m x dt r|a d m dt|a d m x r|a d m x|a d r].
  - (* issue class *)
    destruct (issue_denom_post _ _ _ _ _ _ E) as (_ & _ & _ & ->).
    unfold new_denom, new_mt. rewrite Hok. rewrite uadd_exact by lia. constructor; simpl.
    + unfold SeqInv; simpl. repeat split; try lia; auto.
      * apply get_set_inv in H. destruct H as [->|Hg]; [lia|]. specialize (Hdk _ Hg). lia.
      * apply get_set_inv in H. destruct H as [->|Hg]; [lia|]. specialize (Hdk _ Hg). lia.
      * exact (proj1 (Hmk _ _ H)).
      * exact (proj2 (Hmk _ _ H)).
      * exact (proj1 (Hdc d)).
      * exact (proj2 (Hdc d)).
    + right. split; [reflexivity|]. split; [reflexivity|]. rewrite get_set_same. discriminate.
    + left. auto.
    + intros d Hg. apply get_set_ne_None. exact Hg.
    + auto.
  - (* mint *)
    destruct (mint_post _ _ _ _ _ _ _ _ _ Hinv E) as (_ & _ & _ & Hcase).
    unfold new_denom, new_mt. rewrite Hok. destruct (nonblank m); simpl negb; simpl andb.
    + destruct Hcase as (_ & -> & _). apply seq_step_same_meta; auto. unfold SeqInv; auto 10.
    + destruct Hcase as (-> & _). unfold credit_state, new_token_state. rewrite !uadd_exact by (try lia; specialize (Hdc d); simpl; lia).
      constructor; simpl.
      * unfold SeqInv; simpl. repeat split; try lia; auto.
        -- exact (proj1 (Hdk _ H)).
        -- exact (proj2 (Hdk _ H)).
        -- apply get_set_inv in H. destruct H as [Heq|Hg]; [inversion Heq; lia|]. specialize (Hmk _ _ Hg). lia.
        -- apply get_set_inv in H. destruct H as [Heq|Hg]; [inversion Heq; lia|]. specialize (Hmk _ _ Hg). lia.
        -- destruct (eq_dec d0 d) as [->|Hne]; [rewrite getz_set_same; specialize (Hdc d); lia|].
           rewrite getz_set_other by exact Hne. specialize (Hdc d0); lia.
        -- destruct (eq_dec d0 d) as [->|Hne]; [rewrite getz_set_same; specialize (Hdc d); lia|].
           rewrite getz_set_other by exact Hne. specialize (Hdc d0); lia.
      * left. auto.
      * right. split; [reflexivity|]. split; [reflexivity|]. exists d. rewrite get_set_same. discriminate.
      * auto.
      * intros d0 m0 Hg. apply get_set_ne_None. exact Hg.
  - (* edit *)
    destruct (edit_post _ _ _ _ _ _ _ E) as (_ & _ & _ & ->).
    destruct (dt =? do_not_modify); [apply seq_step_same_meta; unfold SeqInv; auto 10|].
    constructor; simpl; auto.
    + unfold SeqInv; simpl. repeat split; try lia; auto.
      * exact (proj1 (Hdk _ H)).
      * exact (proj2 (Hdk _ H)).
      * apply get_set_inv in H. destruct H as [Heq|Hg]; [|exact (proj1 (Hmk _ _ Hg))].
        inversion Heq; subst. destruct (edit_post _ _ _ _ _ _ _ E) as (_ & Hhas & _). unfold has in Hhas.
        destruct (get (d, m) (mts s)) eqn:Hg; [|discriminate]. apply (Hmk d m). congruence.
      * apply get_set_inv in H. destruct H as [Heq|Hg]; [|exact (proj2 (Hmk _ _ Hg))].
        inversion Heq; subst. destruct (edit_post _ _ _ _ _ _ _ E) as (_ & Hhas & _). unfold has in Hhas.
        destruct (get (d, m) (mts s)) eqn:Hg; [|discriminate]. apply (Hmk d m). congruence.
      * exact (proj1 (Hdc d0)).
      * exact (proj2 (Hdc d0)).
    + intros d0 m0 Hg. apply get_set_ne_None. exact Hg.
  - destruct (transfer_post _ _ _ _ _ _ _ _ Hinv E) as (H1 & H2 & H3 & H4 & H5 & _).
    apply seq_step_same_meta; unfold SeqInv; auto 10.
  - destruct (burn_post _ _ _ _ _ _ _ Hinv E) as (H1 & H2 & H3 & H4 & H5 & _).
    apply seq_step_same_meta; unfold SeqInv; auto 10.
  - (* hand-over *)
    destruct (transfer_denom_post _ _ _ _ _ _ E) as (_ & _ & _ & n & dt & Hg & ->).
    constructor; simpl; auto.
    + unfold SeqInv; simpl. repeat split; try lia; auto.
      * apply get_set_inv in H. destruct H as [->|Hg']; [apply (Hdk d); congruence|exact (proj1 (Hdk _ Hg'))].
      * apply get_set_inv in H. destruct H as [->|Hg']; [apply (Hdk d); congruence|exact (proj2 (Hdk _ Hg'))].
      * exact (proj1 (Hmk _ _ H)).
      * exact (proj2 (Hmk _ _ H)).
      * exact (proj1 (Hdc d0)).
      * exact (proj2 (Hdc d0)).
    + intros d0 Hg'. apply get_set_ne_None. exact Hg'.
Qed.

(** counters: no [++] / [sequence+1] wraps while fewer than 2^64-1 ids have been generated *)
Lemma exec_msg_counter s msg res ev :
  BalInv s -> SeqInv s -> dseq s < max64 -> mseq s < max64 ->
  exec_msg s msg = (res, ev) -> Forall counter_ev_ok ev.
Proof.
  intros Hinv (Hd1 & Hm1 & _ & _ & Hdc) Hd Hm Hrun.
  destruct msg as [a n dt|a d m x dt r|a d m dt|a d m x r|a d m x|a d r]; simpl in Hrun.
  - unfold issue_denom in Hrun. destruct (addr_ok a && nonblank n); inversion Hrun; subst; repeat constructor; lia.
  - unfold mint in Hrun.
    destruct (nonblank d && amount_ok x && negb (nonblank m && nonblank dt) && addr_ok a
              && ((r =? -1) || addr_ok r)) eqn:Hvb; [|inversion Hrun; constructor].
    assert (Hx : 0 < x <= max64) by (apply amount_ok_range; lia).
    destruct (authorize s d a); [|inversion Hrun; constructor].
    destruct (nonblank m).
    + destruct (has (d, m) (mts s)); [|inversion Hrun; constructor].
      exact (proj1 (proj2 (mint_mt_spec _ _ _ _ _ _ _ Hinv Hx Hrun))).
    + unfold bindR in Hrun. rewrite issue_mt_unfold in Hrun. cbv zeta in Hrun.
      set (s2 := with_dcount _ _) in Hrun.
      assert (Hinv2 : BalInv s2) by (apply (BalInv_ext s); [reflexivity|reflexivity|exact Hinv]).
      destruct (mint_mt d (mseq s) x (if r =? -1 then a else r) s2) as [res2 ev2] eqn:E2.
      pose proof (proj1 (proj2 (mint_mt_spec _ _ _ _ _ _ _ Hinv2 Hx E2))) as Hc.
      inversion Hrun; subst. simpl. specialize (Hdc d).
      constructor; [simpl; lia|]. constructor; [simpl; lia|exact Hc].
  - unfold edit in Hrun.
    destruct (nonblank m && nonblank d && addr_ok a); [|inversion Hrun; constructor].
    destruct (authorize s d a); [|inversion Hrun; constructor].
    destruct (has (d, m) (mts s)); [|inversion Hrun; constructor].
    destruct (dt =? do_not_modify); inversion Hrun; constructor.
  - unfold transfer_mt in Hrun.
    destruct (nonblank m && nonblank d && amount_ok x && addr_ok a && addr_ok r) eqn:Hvb; [|inversion Hrun; constructor].
    assert (Hx : 0 < x <= max64) by (apply amount_ok_range; lia).
    destruct (balance s a d m <? x) eqn:G; [inversion Hrun; constructor|].
    assert (Hheld : x <= balance s a d m) by lia.
    exact (proj1 (proj2 (transfer_spec _ _ _ _ _ _ _ _ Hinv (proj1 Hx) Hheld Hrun))).
  - unfold burn in Hrun.
    destruct (nonblank m && nonblank d && amount_ok x && addr_ok a) eqn:Hvb; [|inversion Hrun; constructor].
    assert (Hx : 0 < x <= max64) by (apply amount_ok_range; lia).
    destruct (balance s a d m <? x) eqn:G; [inversion Hrun; constructor|].
    assert (Hheld : x <= balance s a d m) by lia.
    exact (proj1 (proj2 (burn_spec _ _ _ _ _ _ _ Hinv (proj1 Hx) Hheld Hrun))).
  - unfold transfer_denom in Hrun.
    destruct (nonblank d && addr_ok a && addr_ok r); [|inversion Hrun; constructor].
    destruct (authorize s d a); [|inversion Hrun; constructor].
    destruct (get d (denoms s)) as [[[n o] dt]|]; inversion Hrun; constructor.
Qed.

(** strictly increasing, starting at or above [lo] *)
Fixpoint increasing_from (lo : Z) (l : list Z) : Prop :=
  match l with [] => True | x :: l' => lo <= x /\ increasing_from (x + 1) l' end.

Lemma increasing_from_weaken l : forall lo lo', lo' <= lo -> increasing_from lo l -> increasing_from lo' l.
Proof. destruct l as [|x l]; simpl; intros lo lo' Hle H; [exact I|]. destruct H. split; [lia|assumption]. Qed.

Lemma increasing_from_lower l : forall lo x, increasing_from lo l -> In x l -> lo <= x.
Proof.
  induction l as [|y l IH]; simpl; intros lo x H Hin; [tauto|].
  destruct H as (Hy & Hrest). destruct Hin as [->|Hin]; [exact Hy|].
  specialize (IH _ _ Hrest Hin). lia.
Qed.

Lemma increasing_from_NoDup l : forall lo, increasing_from lo l -> NoDup l.
Proof.
  induction l as [|y l IH]; simpl; intros lo H; [constructor|].
  destruct H as (Hy & Hrest). constructor; [|exact (IH _ Hrest)].
  intros Hin. pose proof (increasing_from_lower _ _ _ Hrest Hin). lia.
Qed.

Lemma history_ids steps : forall s,
  BalInv s -> SeqInv s ->
  dseq s + Z.of_nat (length steps) <= max64 -> mseq s + Z.of_nat (length steps) <= max64 ->
  let s' := run s steps in
  increasing_from (dseq s) (created_denoms s steps)
  /\ increasing_from (mseq s) (created_mts s steps)
  /\ (forall id, In id (created_denoms s steps) -> id < dseq s' /\ get id (denoms s') <> None)
  /\ (forall id, In id (created_mts s steps) -> id < mseq s' /\ exists d, get (d, id) (mts s') <> None)
  /\ dseq s <= dseq s' /\ mseq s <= mseq s'
  /\ (forall d, get d (denoms s) <> None -> get d (denoms s') <> None)
  /\ (forall d m, get (d, m) (mts s) <> None -> get (d, m) (mts s') <> None)
  /\ Forall counter_ev_ok (all_events s steps)
  /\ SeqInv s'.
Proof.
  induction steps as [|st rest IH]; intros s Hinv Hs Hd Hm.
  - simpl. split; [exact I|]. split; [exact I|]. split; [intros id []|]. split; [intros id []|].
    split; [lia|]. split; [lia|]. split; [auto|]. split; [auto|]. split; [constructor|exact Hs].
  - simpl length in Hd, Hm. rewrite Nat2Z.inj_succ in Hd, Hm.
    assert (Hd' : dseq s < max64) by lia. assert (Hm' : mseq s < max64) by lia.
    pose proof (step_seq s st Hinv Hs Hd' Hm') as [Hs1 Hsd Hsm Hkd Hkm].
    pose proof (proj1 (step_inv s st Hinv)) as Hinv1.
    assert (Hcev : Forall counter_ev_ok (events s st)).
    { unfold events. destruct st as [msg|]; simpl; [|constructor].
      destruct (exec_msg s msg) as [res ev] eqn:E. exact (exec_msg_counter _ _ _ _ Hinv Hs Hd' Hm' E). }
    assert (Hd1 : dseq (next s st) + Z.of_nat (length rest) <= max64) by (destruct Hsd as [(_ & ->)|(_ & -> & _)]; lia).
    assert (Hm1 : mseq (next s st) + Z.of_nat (length rest) <= max64) by (destruct Hsm as [(_ & ->)|(_ & -> & _)]; lia).
    destruct (IH _ Hinv1 Hs1 Hd1 Hm1) as (I1 & I2 & I3 & I4 & I5 & I6 & I7 & I8 & I9 & I10).
    simpl. split; [|split; [|split; [|split; [|split; [|split; [|split; [|split; [|split]]]]]]]].
    + destruct Hsd as [(-> & Heq)|(-> & Heq & _)]; simpl; [rewrite <- Heq; exact I1|].
      split; [lia|]. rewrite <- Heq. exact I1.
    + destruct Hsm as [(-> & Heq)|(-> & Heq & _)]; simpl; [rewrite <- Heq; exact I2|].
      split; [lia|]. rewrite <- Heq. exact I2.
    + intros id H. apply in_app_or in H. destruct H as [Hin|Hin]; [|exact (I3 _ Hin)].
      destruct Hsd as [(Hnil & _)|(Hone & Heq & Hex)]; [rewrite Hnil in Hin; destruct Hin|].
      rewrite Hone in Hin. destruct Hin as [<-|[]]. split; [lia|apply I7; exact Hex].
    + intros id H. apply in_app_or in H. destruct H as [Hin|Hin]; [|exact (I4 _ Hin)].
      destruct Hsm as [(Hnil & _)|(Hone & Heq & d & Hex)]; [rewrite Hnil in Hin; destruct Hin|].
      rewrite Hone in Hin. destruct Hin as [<-|[]]. split; [lia|exists d; apply I8; exact Hex].
    + destruct Hsd as [(_ & Heq)|(_ & Heq & _)]; lia.
    + destruct Hsm as [(_ & Heq)|(_ & Heq & _)]; lia.
    + intros d Hg. apply I7. apply Hkd. exact Hg.
    + intros d m Hg. apply I8. apply Hkm. exact Hg.
    + apply Forall_app_intro; assumption.
    + exact I10.
Qed.

(** ids generated along a history: strictly increasing sequence numbers (hence pairwise
    distinct), not in use before, and in use ever after *)
Lemma generated_ids_lemma :
  forall (steps : list step) (s : state),
    BalInv s -> SeqInv s ->
    dseq s + Z.of_nat (length steps) <= max64 -> mseq s + Z.of_nat (length steps) <= max64 ->
    increasing_from (dseq s) (created_denoms s steps) /\ NoDup (created_denoms s steps)
    /\ increasing_from (mseq s) (created_mts s steps) /\ NoDup (created_mts s steps)
    /\ (forall id, In id (created_denoms s steps) ->
          get id (denoms s) = None /\ get id (denoms (run s steps)) <> None)
    /\ (forall id, In id (created_mts s steps) ->
          (forall d, get (d, id) (mts s) = None) /\ exists d, get (d, id) (mts (run s steps)) <> None).
Proof.
  intros steps s Hinv Hs Hd Hm.
  destruct (history_ids steps s Hinv Hs Hd Hm) as (I1 & I2 & I3 & I4 & _).
  destruct Hs as (_ & _ & Hdk & Hmk & _).
  split; [exact I1|]. split; [exact (increasing_from_NoDup _ _ I1)|].
  split; [exact I2|]. split; [exact (increasing_from_NoDup _ _ I2)|]. split.
  - intros id Hin. split; [|exact (proj2 (I3 _ Hin))].
    pose proof (increasing_from_lower _ _ _ I1 Hin) as Hlo.
    destruct (get id (denoms s)) eqn:Hg; [|reflexivity].
    assert (Hne : get id (denoms s) <> None) by congruence. specialize (Hdk _ Hne). lia.
  - intros id Hin. split; [|exact (proj2 (I4 _ Hin))].
    pose proof (increasing_from_lower _ _ _ I2 Hin) as Hlo. intros d.
    destruct (get (d, id) (mts s)) eqn:Hg; [|reflexivity].
    assert (Hne : get (d, id) (mts s) <> None) by congruence. specialize (Hmk _ _ Hne). lia.
Qed.

Lemma counters_no_wrap_lemma :
  forall (steps : list step) (s : state) (c : Z),
    BalInv s -> SeqInv s ->
    dseq s + Z.of_nat (length steps) <= max64 -> mseq s + Z.of_nat (length steps) <= max64 ->
    In (UInc c) (all_events s steps) -> 0 <= c /\ c + 1 <= max64 /\ uadd c 1 = c + 1.
Proof.
  intros steps s c Hinv Hs Hd Hm Hin.
  destruct (history_ids steps s Hinv Hs Hd Hm) as (_ & _ & _ & _ & _ & _ & _ & _ & Hev & _).
  rewrite Forall_forall in Hev. specialize (Hev _ Hin). simpl in Hev.
  repeat split; try lia. apply uadd_exact; lia.
Qed.

(** ** who can change what *)
Lemma owner_of_some s d o : owner_of s d = Some o -> get d (denoms s) <> None.
Proof. unfold owner_of. destruct (get d (denoms s)); congruence. Qed.

Lemma owner_change_lemma :
  forall s msg s' ev d o, BalInv s -> SeqInv s ->
    exec_msg s msg = (Some s', ev) -> owner_of s d = Some o ->
    owner_of s' d = Some o \/ exists r, msg = TransferDenom o d r /\ owner_of s' d = Some r.
Proof.
  intros s msg s' ev d o Hinv Hs E Ho. destruct Hs as (_ & _ & Hdk & _).
  destruct msg as [a n dt|a d0 m x dt r|a d0 m dt|a d0 m x r|a d0 m x|a d0 r].
  - destruct (issue_denom_post _ _ _ _ _ _ E) as (_ & _ & _ & ->). left.
    pose proof (Hdk _ (owner_of_some _ _ _ Ho)) as Hlt.
    unfold owner_of in *; simpl. rewrite get_set_other by lia. exact Ho.
  - destruct (mint_post _ _ _ _ _ _ _ _ _ Hinv E) as (_ & _ & _ & Hcase). left.
    destruct (nonblank m); [destruct Hcase as (_ & -> & _)|destruct Hcase as (-> & _)]; exact Ho.
  - destruct (edit_post _ _ _ _ _ _ _ E) as (_ & _ & _ & ->). left. destruct (dt =? do_not_modify); exact Ho.
  - destruct (transfer_post _ _ _ _ _ _ _ _ Hinv E) as (H1 & _). left. unfold owner_of. rewrite H1. exact Ho.
  - destruct (burn_post _ _ _ _ _ _ _ Hinv E) as (H1 & _). left. unfold owner_of. rewrite H1. exact Ho.
  - destruct (transfer_denom_post _ _ _ _ _ _ E) as (_ & _ & _ & n & dt & Hg & ->).
    unfold owner_of in *; simpl. destruct (eq_dec d d0) as [->|Hne].
    + right. rewrite Hg in Ho. inversion Ho; subst o. exists r. rewrite get_set_same. auto.
    + left. rewrite get_set_other by exact Hne. exact Ho.
Qed.

Lemma data_change_lemma :
  forall s msg s' ev d m dt, BalInv s -> SeqInv s ->
    exec_msg s msg = (Some s', ev) -> get (d, m) (mts s) = Some dt ->
    get (d, m) (mts s') = Some dt
    \/ exists a dt', msg = Edit a d m dt' /\ owner_of s d = Some a /\ get (d, m) (mts s') = Some dt'.
Proof.
  intros s msg s' ev d m dt Hinv Hs E Hg. destruct Hs as (_ & _ & _ & Hmk & _).
  destruct msg as [a n dt0|a d0 m0 x dt0 r|a d0 m0 dt0|a d0 m0 x r|a d0 m0 x|a d0 r].
  - destruct (issue_denom_post _ _ _ _ _ _ E) as (_ & _ & _ & ->). left. exact Hg.
  - destruct (mint_post _ _ _ _ _ _ _ _ _ Hinv E) as (_ & _ & _ & Hcase). left.
    destruct (nonblank m0); [destruct Hcase as (_ & -> & _); exact Hg|destruct Hcase as (-> & _)].
    simpl. destruct (eq_dec (d, m) (d0, mseq s)) as [Heq|Hne].
    + assert (Hne2 : get (d, m) (mts s) <> None) by (rewrite Hg; discriminate).
      specialize (Hmk _ _ Hne2). inversion Heq. lia.
    + rewrite get_set_other by exact Hne. exact Hg.
  - destruct (edit_post _ _ _ _ _ _ _ E) as (Hauth & _ & _ & ->).
    destruct (dt0 =? do_not_modify); [left; exact Hg|]. simpl.
    destruct (eq_dec (d, m) (d0, m0)) as [Heq|Hne].
    + inversion Heq; subst. right. exists a, dt0. rewrite get_set_same. apply authorize_owner in Hauth. auto.
    + left. rewrite get_set_other by exact Hne. exact Hg.
  - destruct (transfer_post _ _ _ _ _ _ _ _ Hinv E) as (_ & H2 & _). left. rewrite H2. exact Hg.
  - destruct (burn_post _ _ _ _ _ _ _ Hinv E) as (_ & H2 & _). left. rewrite H2. exact Hg.
  - destruct (transfer_denom_post _ _ _ _ _ _ E) as (_ & _ & _ & n & dt1 & _ & ->). left. exact Hg.
Qed.

Lemma supply_growth_lemma :
  forall s msg s' ev d m, BalInv s ->
    exec_msg s msg = (Some s', ev) -> supply s d m < supply s' d m ->
    exists a m0 x dt r, msg = Mint a d m0 x dt r /\ owner_of s d = Some a.
Proof.
  intros s msg s' ev d m Hinv E Hlt.
  destruct msg as [a n dt0|a d0 m0 x dt0 r|a d0 m0 dt0|a d0 m0 x r|a d0 m0 x|a d0 r].
  - destruct (issue_denom_post _ _ _ _ _ _ E) as (_ & _ & _ & ->). unfold supply in Hlt; simpl in Hlt. lia.
  - pose proof (only_owner_lemma _ _ _ _ Hinv E) as Ho. simpl in Ho.
    destruct (mint_exact_lemma _ _ _ _ _ _ _ _ _ Hinv E) as (_ & _ & _ & _ & _ & Hother).
    destruct (eq_dec d d0) as [->|Hne]; [exists a, m0, x, dt0, r; auto|].
    rewrite Hother in Hlt by congruence. lia.
  - destruct (edit_post _ _ _ _ _ _ _ E) as (_ & _ & _ & ->).
    destruct (dt0 =? do_not_modify); unfold supply in Hlt; simpl in Hlt; lia.
  - destruct (transfer_exact_lemma _ _ _ _ _ _ _ _ Hinv E) as (_ & Hsup & _). rewrite Hsup in Hlt. lia.
  - destruct (burn_exact_lemma _ _ _ _ _ _ _ Hinv E) as (Hx & _ & Hs1 & _ & Hs2 & _).
    destruct (eq_dec (d, m) (d0, m0)) as [Heq|Hne]; [inversion Heq; subst; lia|].
    rewrite Hs2 in Hlt by exact Hne. lia.
  - destruct (transfer_denom_post _ _ _ _ _ _ E) as (_ & _ & _ & n & dt1 & _ & ->).
    unfold supply in Hlt; simpl in Hlt. lia.
Qed.

(** a rejected step leaves the state untouched *)
Lemma rejected_changes_nothing s st : ok s st = false -> next s st = s.
Proof. unfold ok, next. destruct (fst (exec_R s st)); [discriminate|reflexivity]. Qed.

(** reachability from the empty chain *)
Lemma reachable_inv steps : BalInv (run init steps) /\ SeqInv (run init steps) \/ max64 < Z.of_nat (length steps) + 1.
Proof.
  destruct (Z_le_gt_dec (1 + Z.of_nat (length steps)) max64) as [Hle|Hgt]; [left|right; lia].
  split; [exact (proj1 (run_inv steps init BalInv_init))|].
  assert (H1 : dseq init + Z.of_nat (length steps) <= max64) by (change (dseq init) with 1; lia).
  assert (H2 : mseq init + Z.of_nat (length steps) <= max64) by (change (mseq init) with 1; lia).
  exact (proj2 (proj2 (proj2 (proj2 (proj2 (proj2 (proj2 (proj2 (proj2
           (history_ids steps init BalInv_init SeqInv_init H1 H2)))))))))).
Qed.

(** ** reachable states *)
(** reachable from the empty chain by any history *)
Definition Reachable (s : state) : Prop := exists steps, s = run init steps.
(** ... by a history of fewer than 2^64-1 steps (so that the two id sequences cannot have wrapped) *)
Definition Reachable64 (s : state) : Prop :=
  exists steps, s = run init steps /\ 1 + Z.of_nat (length steps) <= max64.

Lemma Reachable64_Reachable s : Reachable64 s -> Reachable s.
Proof. intros (steps & -> & _). exists steps. reflexivity. Qed.

Lemma Reachable_BalInv s : Reachable s -> BalInv s.
Proof. intros (steps & ->). exact (proj1 (run_inv steps init BalInv_init)). Qed.

Lemma Reachable64_inv s : Reachable64 s -> BalInv s /\ SeqInv s.
Proof. intros (steps & -> & Hlen). destruct (reachable_inv steps) as [H|H]; [exact H|lia]. Qed.

Lemma Reachable_step s st : Reachable s -> Reachable (next s st).
Proof.
  intros (steps & ->). exists (steps ++ [st]).
  assert (Happ : forall l s0, run s0 (l ++ [st]) = next (run s0 l) st).
  { induction l as [|x l IH]; simpl; intros s0; [reflexivity|apply IH]. }
  rewrite Happ. reflexivity.
Qed.

Lemma r_balances_sum_to_supply s : Reachable s ->
  NoDup (keys (bal s))
  /\ (forall d m, holders_total s d m = supply s d m)
  /\ (forall a d m, 0 <= balance s a d m <= supply s d m)
  /\ (forall d m, supply s d m <= max64).
Proof. intros (steps & ->). exact (balances_sum_to_supply_lemma init steps BalInv_init). Qed.

Lemma r_no_wrap steps e : In e (all_events init steps) ->
  match e with
  | USub a b => 0 <= b <= a /\ a <= max64 /\ usub a b = a - b
  | UAdd a b => 0 <= a /\ 0 <= b /\ a + b <= max64 /\ uadd a b = a + b
  | UInc _ => True
  end.
Proof. exact (no_wrap_lemma init steps e BalInv_init). Qed.

Lemma r_no_wrap_step s st e : Reachable s -> In e (events s st) ->
  match e with
  | USub a b => 0 <= b <= a /\ a <= max64 /\ usub a b = a - b
  | UAdd a b => 0 <= a /\ 0 <= b /\ a + b <= max64 /\ uadd a b = a + b
  | UInc _ => True
  end.
Proof.
  intros Hr Hin. apply (no_wrap_lemma s [st] e (Reachable_BalInv s Hr)). simpl. rewrite app_nil_r. exact Hin.
Qed.

Lemma r_counters_no_wrap steps c :
  1 + Z.of_nat (length steps) <= max64 -> In (UInc c) (all_events init steps) ->
  0 <= c /\ c + 1 <= max64 /\ uadd c 1 = c + 1.
Proof.
  intros Hlen. apply (counters_no_wrap_lemma steps init c BalInv_init SeqInv_init);
    [change (dseq init) with 1|change (mseq init) with 1]; lia.
Qed.

Lemma r_transfer_exact s a d m x r s' ev : Reachable s ->
  exec_msg s (Transfer a d m x r) = (Some s', ev) ->
  0 < x <= balance s a d m
  /\ (forall d' m', supply s' d' m' = supply s d' m')
  /\ (a = r -> forall a' d' m', balance s' a' d' m' = balance s a' d' m')
  /\ (a <> r -> balance s' a d m = balance s a d m - x /\ balance s' r d m = balance s r d m + x)
  /\ (forall a' d' m', (a', d', m') <> (a, d, m) -> (a', d', m') <> (r, d, m) ->
        balance s' a' d' m' = balance s a' d' m')
  /\ denoms s' = denoms s /\ mts s' = mts s.
Proof. intros Hr. apply transfer_exact_lemma. exact (Reachable_BalInv s Hr). Qed.

Lemma r_transfer_succeeds s a d m x r : Reachable s ->
  nonblank m && nonblank d && addr_ok a && addr_ok r = true ->
  0 < x <= balance s a d m ->
  exists s', fst (exec_msg s (Transfer a d m x r)) = Some s'.
Proof. intros Hr. apply transfer_succeeds_lemma. exact (Reachable_BalInv s Hr). Qed.

Lemma r_burn_exact s a d m x s' ev : Reachable s ->
  exec_msg s (Burn a d m x) = (Some s', ev) ->
  0 < x <= balance s a d m
  /\ balance s' a d m = balance s a d m - x
  /\ supply s' d m = supply s d m - x
  /\ (forall a' d' m', (a', d', m') <> (a, d, m) -> balance s' a' d' m' = balance s a' d' m')
  /\ (forall d' m', (d', m') <> (d, m) -> supply s' d' m' = supply s d' m')
  /\ denoms s' = denoms s /\ mts s' = mts s.
Proof. intros Hr. apply burn_exact_lemma. exact (Reachable_BalInv s Hr). Qed.

Lemma r_mint_exact s a d m x dt r s' ev : Reachable s ->
  exec_msg s (Mint a d m x dt r) = (Some s', ev) ->
  let t := if nonblank m then m else mseq s in
  let rc := if r =? -1 then a else r in
  0 < x
  /\ supply s' d t = supply s d t + x /\ supply s' d t <= max64
  /\ balance s' rc d t = balance s rc d t + x
  /\ (forall a' d' m', (a', d', m') <> (rc, d, t) -> balance s' a' d' m' = balance s a' d' m')
  /\ (forall d' m', (d', m') <> (d, t) -> supply s' d' m' = supply s d' m').
Proof. intros Hr. apply mint_exact_lemma. exact (Reachable_BalInv s Hr). Qed.

Lemma r_only_owner s msg s' ev : Reachable s -> exec_msg s msg = (Some s', ev) ->
  match msg with
  | Mint a d _ _ _ _ | Edit a d _ _ | TransferDenom a d _ => owner_of s d = Some a
  | _ => True
  end.
Proof. intros Hr. apply only_owner_lemma. exact (Reachable_BalInv s Hr). Qed.

Lemma r_owner_change s msg s' ev d o : Reachable64 s ->
  exec_msg s msg = (Some s', ev) -> owner_of s d = Some o ->
  owner_of s' d = Some o \/ exists r, msg = TransferDenom o d r /\ owner_of s' d = Some r.
Proof. intros Hr. destruct (Reachable64_inv s Hr). apply owner_change_lemma; assumption. Qed.

Lemma r_data_change s msg s' ev d m dt : Reachable64 s ->
  exec_msg s msg = (Some s', ev) -> get (d, m) (mts s) = Some dt ->
  get (d, m) (mts s') = Some dt
  \/ exists a dt', msg = Edit a d m dt' /\ owner_of s d = Some a /\ get (d, m) (mts s') = Some dt'.
Proof. intros Hr. destruct (Reachable64_inv s Hr). apply data_change_lemma; assumption. Qed.

Lemma r_supply_growth s msg s' ev d m : Reachable s ->
  exec_msg s msg = (Some s', ev) -> supply s d m < supply s' d m ->
  exists a m0 x dt r, msg = Mint a d m0 x dt r /\ owner_of s d = Some a.
Proof. intros Hr. apply supply_growth_lemma. exact (Reachable_BalInv s Hr). Qed.

Lemma r_generated_ids steps :
  1 + Z.of_nat (length steps) <= max64 ->
  increasing_from 1 (created_denoms init steps) /\ NoDup (created_denoms init steps)
  /\ increasing_from 1 (created_mts init steps) /\ NoDup (created_mts init steps)
  /\ (forall id, In id (created_denoms init steps) -> get id (denoms (run init steps)) <> None)
  /\ (forall id, In id (created_mts init steps) -> exists d, get (d, id) (mts (run init steps)) <> None).
Proof.
  intros Hlen.
  assert (H1 : dseq init + Z.of_nat (length steps) <= max64) by (change (dseq init) with 1; lia).
  assert (H2 : mseq init + Z.of_nat (length steps) <= max64) by (change (mseq init) with 1; lia).
  destruct (generated_ids_lemma steps init BalInv_init SeqInv_init H1 H2) as (G1 & G2 & G3 & G4 & G5 & G6).
  repeat split; auto.
  - intros id Hin. exact (proj2 (G5 id Hin)).
  - intros id Hin. exact (proj2 (G6 id Hin)).
Qed.

(** the same from any intermediate state: ids generated later are not in use now *)
Lemma r_generated_ids_fresh s steps : Reachable64 s ->
  dseq s + Z.of_nat (length steps) <= max64 -> mseq s + Z.of_nat (length steps) <= max64 ->
  NoDup (created_denoms s steps) /\ NoDup (created_mts s steps)
  /\ (forall id, In id (created_denoms s steps) -> get id (denoms s) = None)
  /\ (forall id, In id (created_mts s steps) -> forall d, get (d, id) (mts s) = None)
  /\ (forall d, get d (denoms s) <> None -> get d (denoms (run s steps)) <> None)
  /\ (forall d m, get (d, m) (mts s) <> None -> get (d, m) (mts (run s steps)) <> None).
Proof.
  intros Hr H1 H2. destruct (Reachable64_inv s Hr) as (Hb & Hs).
  destruct (generated_ids_lemma steps s Hb Hs H1 H2) as (_ & G2 & _ & G4 & G5 & G6).
  destruct (history_ids steps s Hb Hs H1 H2) as (_ & _ & _ & _ & _ & _ & K1 & K2 & _).
  repeat split; auto.
  - intros id Hin. exact (proj1 (G5 id Hin)).
  - intros id Hin. exact (proj1 (G6 id Hin)).
Qed.
