(** * MT: the export view of the model state and what a genesis validator may rely on.

    [Keeper.ExportGenesisState] (modules/mt/keeper/keeper.go) writes the collections — every class
    with its MTs, each MT with its *current* supply ([GetMTs] overrides the stored field by
    [GetMTSupply]) — and the owners (every stored balance entry, zero entries included).  This file
    states that view over the model state of [Mt/Model.v] and proves, for every state reachable by a
    history of fewer than 2^64-1 steps, the facts [types.ValidateGenesis] / [InitGenesis] and the C12
    model ([Genesis/Mt.v], invariant [invb]) need:

    - class ids are pairwise distinct, MT ids are pairwise distinct (within a class and globally:
      they come from one sequence), every MT belongs to an exported class;
    - every balance entry refers to an existing MT, every MT has a balance entry, the supply store
      has exactly one entry per MT;
    - exported supply of an MT = sum of the exported balances of that MT (as integers), every number
      is a uint64;
    - the per-class MT counter = number of MTs of the class; the next class sequence = number of
      classes + 1 and the next MT sequence = number of MTs + 1, both larger than every issued id;
    - class owners and balance holders are valid addresses.

    Order of the lists (store key order in Go) is not part of this view: the model keeps insertion
    order; everything below is about membership, lookups and sums. *)
From Irismod Require Import Mt.Model Mt.Check Mt.Proofs Mt.Sound.

(** ** the export view *)
Definition tokens_of (s : state) (d : did) : list (mid * (Z * Z)) :=
  map (fun e : (did * mid) * Z => (snd (fst e), (snd e, supply s (fst (fst e)) (snd (fst e)))))
      (filter (fun e : (did * mid) * Z => fst (fst e) =? d) (mts s)).

(** Collections: (class id, (name, owner, data)), its MTs (id, (data, current supply)) *)
Definition export_collections (s : state) : list ((did * (Z * addr * Z)) * list (mid * (Z * Z))) :=
  map (fun c => (c, tokens_of s (fst c))) (denoms s).
(** Owners, flattened: (holder, class, MT) -> amount *)
Definition export_owners (s : state) : list ((addr * did * mid) * Z) := bal s.

Definition n_tokens (s : state) (d : did) : Z :=
  Z.of_nat (length (filter (fun k : did * mid => fst k =? d) (keys (mts s)))).

(** ** keys of association lists *)
Section Keys.
  Context {K V : Type} `{EqDec K}.
  Lemma In_keys_set (k' k : K) (v : V) m : In k' (keys (set k v m)) <-> k' = k \/ In k' (keys m).
  Proof.
    induction m as [|[k0 v0] m IH]; simpl.
    - split; intros [Hx|Hx]; auto; contradiction.
    - destruct (eq_dec k k0) as [->|Hne]; simpl.
      + split; [intros [Hx|Hx]; auto|intros [Hx|[Hx|Hx]]; auto].
      + rewrite IH. split; [intros [Hx|[Hx|Hx]]; auto|intros [Hx|[Hx|Hx]]; auto].
  Qed.
  Lemma get_in_keys (k : K) (m : amap K V) : get k m <> None <-> In k (keys m).
  Proof.
    induction m as [|[k0 v0] m IH]; simpl; [tauto|].
    destruct (eq_dec k k0) as [->|Hk].
    - split; intros; [left; reflexivity|discriminate].
    - rewrite IH. split; [tauto|]. intros [Heq|Hin]; [congruence|exact Hin].
  Qed.
  Lemma keys_set_absent (k : K) (v : V) m : get k m = None -> keys (set k v m) = keys m ++ [k].
  Proof.
    induction m as [|[k0 v0] m IH]; simpl; [reflexivity|].
    destruct (eq_dec k k0) as [->|Hk]; simpl; [discriminate|]. intros Hg. f_equal. exact (IH Hg).
  Qed.
  Lemma keys_set_present (k : K) (v : V) m : get k m <> None -> keys (set k v m) = keys m.
  Proof.
    induction m as [|[k0 v0] m IH]; simpl; [congruence|].
    destruct (eq_dec k k0) as [->|Hk]; simpl; [reflexivity|]. intros Hg. f_equal. exact (IH Hg).
  Qed.
End Keys.

Lemma getz_nonzero_in {K} `{EqDec K} (k : K) (m : amap K Z) : getz k m <> 0 -> In k (keys m).
Proof. unfold getz. intros Hz. apply get_in_keys. destruct (get k m); congruence. Qed.

(** ** the invariant behind the export *)
Record ExpInv (s : state) : Prop := {
  ei_nd_denoms : NoDup (keys (denoms s));
  ei_nd_mts : NoDup (keys (mts s));
  ei_nd_sup : NoDup (keys (sup s));
  ei_nd_dcount : NoDup (keys (dcount s));
  (** every balance entry refers to an existing MT *)
  ei_bal_mt : forall k, In k (keys (bal s)) -> In (key_dm k) (keys (mts s));
  (** every MT has a balance entry *)
  ei_mt_bal : forall dm, In dm (keys (mts s)) -> exists a, In (a, fst dm, snd dm) (keys (bal s));
  (** the supply store has an entry exactly for the MTs *)
  ei_sup_mt : forall dm, In dm (keys (sup s)) <-> In dm (keys (mts s));
  (** every MT belongs to a class *)
  ei_mt_class : forall d m, In (d, m) (keys (mts s)) -> In d (keys (denoms s));
  (** MT ids are unique across classes *)
  ei_mid_unique : NoDup (map snd (keys (mts s)));
  (** counters *)
  ei_dcount : forall d, getz d (dcount s) = n_tokens s d;
  ei_dseq : dseq s = 1 + Z.of_nat (length (denoms s));
  ei_mseq : mseq s = 1 + Z.of_nat (length (mts s));
  (** addresses *)
  ei_owner_addr : forall d n o dt, get d (denoms s) = Some (n, o, dt) -> 0 <= o;
  ei_holder_addr : forall a d m, In (a, d, m) (keys (bal s)) -> 0 <= a
}.

Lemma ExpInv_init : ExpInv init.
Proof.
  constructor; simpl; try constructor; try (intros; contradiction); try (intros; discriminate); try reflexivity.
Qed.

Lemma n_tokens_other s s' : mts s' = mts s -> forall d, n_tokens s' d = n_tokens s d.
Proof. intros E d. unfold n_tokens. rewrite E. reflexivity. Qed.

Lemma authorize_class s d a : authorize s d a = true -> In d (keys (denoms s)).
Proof.
  unfold authorize. intros Ha. apply get_in_keys. destruct (get d (denoms s)); [discriminate|discriminate Ha].
Qed.

Lemma addr_of_mint s a d m x dt r s' ev : exec_msg s (Mint a d m x dt r) = (Some s', ev) -> 0 <= (if r =? -1 then a else r).
Proof.
  simpl. unfold mint.
  destruct (nonblank d && amount_ok x && negb (nonblank m && nonblank dt) && addr_ok a && ((r =? -1) || addr_ok r)) eqn:Hv; [|discriminate].
  intros _. unfold addr_ok in Hv. destruct (r =? -1) eqn:Hr; lia.
Qed.
Lemma addr_of_issue s a n dt s' ev : exec_msg s (IssueDenom a n dt) = (Some s', ev) -> 0 <= a.
Proof. intros E. destruct (issue_denom_post _ _ _ _ _ _ E) as (Ha & _). unfold addr_ok in Ha. lia. Qed.
Lemma addr_of_transfer s a d m x r s' ev : exec_msg s (Transfer a d m x r) = (Some s', ev) -> 0 <= a /\ 0 <= r.
Proof.
  simpl. unfold transfer_mt. destruct (nonblank m && nonblank d && amount_ok x && addr_ok a && addr_ok r) eqn:Hv; [|discriminate].
  intros _. unfold addr_ok in Hv. lia.
Qed.
Lemma addr_of_handover s a d r s' ev : exec_msg s (TransferDenom a d r) = (Some s', ev) -> 0 <= r.
Proof. intros E. destruct (transfer_denom_post _ _ _ _ _ _ E) as (_ & Hr & _). unfold addr_ok in Hr. lia. Qed.

Lemma NoDup_snoc {A} (x : A) l : NoDup l -> ~ In x l -> NoDup (l ++ [x]).
Proof.
  intros Hnd Hn. induction Hnd as [|y l Hy Hnd IH]; simpl.
  - constructor; [simpl; tauto|constructor].
  - constructor.
    + rewrite in_app_iff. simpl. intros [H1|[H2|[]]]; [contradiction|]. subst. apply Hn. left. reflexivity.
    + apply IH. intros Hin. apply Hn. right. exact Hin.
Qed.

Lemma has_in_keys {K V} `{EqDec K} (k : K) (m : amap K V) : has k m = true -> In k (keys m).
Proof. intros Hh. apply get_in_keys. apply has_true. exact Hh. Qed.

Lemma sender_key s a d m x : 0 < x <= balance s a d m -> In (a, d, m) (keys (bal s)).
Proof. intros Hx. apply getz_nonzero_in. unfold balance in Hx. lia. Qed.

Ltac sproj := cbn [denoms mts bal sup dcount dseq mseq with_denoms with_mts with_bal with_sup with_dcount with_dseq with_mseq
                       credit_state new_token_state transfer_state burn_state].

Lemma ExpInv_step s msg s' ev :
  BalInv s -> SeqInv s -> dseq s < max64 -> mseq s < max64 -> ExpInv s ->
  exec_msg s msg = (Some s', ev) -> ExpInv s'.
Proof.
  intros HB HS Hdlt Hmlt HI E. pose proof (exec_post s msg s' ev HB E) as Hp.
  destruct HS as (Hd1 & Hm1 & Hdk & Hmk & Hdc).
  destruct HI as [Ind Inm Ins Inc Ibm Imb Ism Imc Imu Idc Ids Ims Ioa Iha].
  destruct Hp as [a n dt|a d m x dt r Hnb Hhas Hauth Hx|a d m x dt r Hnb Hauth Hx|a d m dt Hdt Hhas Hauth
                 |a d m dt Hdt Hhas Hauth|a d m x r Hx|a d m x Hx|a d r n dt Hg].
  - (* issue *)
    assert (Hfree : get (dseq s) (denoms s) = None).
    { destruct (get (dseq s) (denoms s)) eqn:Hg; [|reflexivity].
      assert (Hx : get (dseq s) (denoms s) <> None) by congruence. specialize (Hdk _ Hx). lia. }
    constructor; sproj; auto.
    + apply keys_set_NoDup. exact Ind.
    + intros d m Hin. apply In_keys_set. right. eapply Imc. exact Hin.
    + rewrite (uadd_exact (dseq s) 1) by lia. rewrite (length_set_absent _ _ _ Hfree), Nat2Z.inj_succ. unfold did, mid, addr in *. lia.
    + intros d n0 o dt0. rewrite get_set. destruct (eq_dec d (dseq s)) as [_|_]; [|apply Ioa].
      intros Heq. inversion Heq; subst. eapply addr_of_issue. exact E.
  - (* more of an existing MT *)
    pose proof (has_in_keys _ _ Hhas) as Hin. pose proof (addr_of_mint _ _ _ _ _ _ _ _ _ E) as Hrc.
    constructor; sproj; auto.
    + apply keys_set_NoDup. exact Ins.
    + intros k Hk. apply In_keys_set in Hk. destruct Hk as [->|Hk]; [exact Hin|apply Ibm; exact Hk].
    + intros dm Hdm. destruct (Imb dm Hdm) as [a0 Ha0]. exists a0. apply In_keys_set. right. exact Ha0.
    + intros dm. rewrite In_keys_set, Ism. split; [intros [->|H]; auto|auto].
    + intros a0 d0 m0 Hk. apply In_keys_set in Hk. destruct Hk as [Heq|Hk]; [inversion Heq; subst; exact Hrc|eapply Iha; exact Hk].
  - (* a new MT *)
    assert (Hfree : get (d, mseq s) (mts s) = None).
    { destruct (get (d, mseq s) (mts s)) eqn:Hg; [|reflexivity].
      assert (Hy : get (d, mseq s) (mts s) <> None) by congruence. specialize (Hmk _ _ Hy). lia. }
    pose proof (addr_of_mint _ _ _ _ _ _ _ _ _ E) as Hrc.
    constructor; sproj; auto.
    + apply keys_set_NoDup. exact Inm.
    + apply keys_set_NoDup. exact Ins.
    + apply keys_set_NoDup. exact Inc.
    + intros k Hk. apply In_keys_set. apply In_keys_set in Hk. destruct Hk as [->|Hk]; [left; reflexivity|right; apply Ibm; exact Hk].
    + intros dm Hdm. apply In_keys_set in Hdm. destruct Hdm as [->|Hdm].
      * exists (if r =? -1 then a else r). apply In_keys_set. left. reflexivity.
      * destruct (Imb dm Hdm) as [a0 Ha0]. exists a0. apply In_keys_set. right. exact Ha0.
    + intros dm. rewrite !In_keys_set, Ism. tauto.
    + intros d0 m0 Hk. apply In_keys_set in Hk. destruct Hk as [Heq|Hk]; [|eapply Imc; exact Hk].
      inversion Heq; subst. apply authorize_class with (a := a). exact Hauth.
    + rewrite (keys_set_absent _ _ _ Hfree), map_app. cbn [map snd]. apply NoDup_snoc; [exact Imu|].
      intros Hin. apply in_map_iff in Hin. destruct Hin as ([d0 m0] & Heq & Hin). simpl in Heq. subst m0.
      apply get_in_keys in Hin. specialize (Hmk _ _ Hin). lia.
    + intros d0. unfold n_tokens. sproj. rewrite (keys_set_absent _ _ _ Hfree), filter_app, app_length, Nat2Z.inj_add.
      rewrite getz_set. fold (n_tokens s d0). cbn [filter fst length].
      destruct (eq_dec d0 d) as [->|Hne].
      * rewrite Z.eqb_refl. cbn [length]. specialize (Hdc d). rewrite (uadd_exact (getz d (dcount s)) 1) by lia. rewrite Idc. unfold n_tokens, did, mid, addr in *. lia.
      * assert (Hf : d =? d0 = false) by (apply Z.eqb_neq; congruence). rewrite Hf. cbn [length]. rewrite Idc. unfold n_tokens, did, mid, addr in *. lia.
    + rewrite (uadd_exact (mseq s) 1) by lia. rewrite (length_set_absent _ _ _ Hfree), Nat2Z.inj_succ. unfold did, mid, addr in *. lia.
    + intros a0 d0 m0 Hk. apply In_keys_set in Hk. destruct Hk as [Heq|Hk]; [inversion Heq; subst; exact Hrc|eapply Iha; exact Hk].
  - (* edit, sentinel *)
    constructor; auto.
  - (* edit *)
    assert (Hpres : get (d, m) (mts s) <> None) by (apply has_true; exact Hhas).
    constructor; sproj; rewrite ?(keys_set_present _ _ _ Hpres); auto.
    + intros d0. unfold n_tokens. sproj. rewrite (keys_set_present _ _ _ Hpres). apply Idc.
    + rewrite (length_set_present _ _ _ Hpres). exact Ims.
  - (* transfer *)
    pose proof (sender_key s a d m x Hx) as Hsk. pose proof (Ibm _ Hsk) as Hmt.
    destruct (addr_of_transfer _ _ _ _ _ _ _ _ E) as [Ha Hr].
    constructor; sproj; auto.
    + intros k Hk. apply In_keys_set in Hk. destruct Hk as [->|Hk]; [exact Hmt|].
      apply In_keys_set in Hk. destruct Hk as [->|Hk]; [exact Hmt|apply Ibm; exact Hk].
    + intros dm Hdm. destruct (Imb dm Hdm) as [a0 Ha0]. exists a0. apply In_keys_set. right. apply In_keys_set. right. exact Ha0.
    + intros a0 d0 m0 Hk. apply In_keys_set in Hk. destruct Hk as [Heq|Hk]; [inversion Heq; subst; exact Hr|].
      apply In_keys_set in Hk. destruct Hk as [Heq|Hk]; [inversion Heq; subst; exact Ha|eapply Iha; exact Hk].
  - (* burn *)
    pose proof (sender_key s a d m x Hx) as Hsk. pose proof (Ibm _ Hsk) as Hmt.
    constructor; sproj; auto.
    + apply keys_set_NoDup. exact Ins.
    + intros k Hk. apply In_keys_set in Hk. destruct Hk as [->|Hk]; [exact Hmt|apply Ibm; exact Hk].
    + intros dm Hdm. destruct (Imb dm Hdm) as [a0 Ha0]. exists a0. apply In_keys_set. right. exact Ha0.
    + intros dm. rewrite In_keys_set, Ism. split; [intros [->|H]; auto|auto].
    + intros a0 d0 m0 Hk. apply In_keys_set in Hk. destruct Hk as [Heq|Hk]; [inversion Heq; subst; eapply Iha; exact Hsk|eapply Iha; exact Hk].
  - (* hand-over *)
    assert (Hpres : get d (denoms s) <> None) by congruence.
    constructor; sproj; rewrite ?(keys_set_present _ _ _ Hpres); auto.
    + rewrite (length_set_present _ _ _ Hpres). exact Ids.
    + intros d0 n0 o dt0. rewrite get_set. destruct (eq_dec d0 d) as [_|_]; [|apply Ioa].
      intros Heq. inversion Heq; subst. eapply addr_of_handover. exact E.
Qed.

Lemma ExpInv_run steps : forall s, BalInv s -> SeqInv s -> ExpInv s ->
  dseq s + Z.of_nat (length steps) <= max64 -> mseq s + Z.of_nat (length steps) <= max64 ->
  ExpInv (run s steps).
Proof.
  induction steps as [|st rest IH]; intros s HB HS HI Hd Hm; [exact HI|].
  cbn [length] in Hd, Hm. rewrite Nat2Z.inj_succ in Hd, Hm. cbn [run].
  assert (Hd0 : dseq s < max64) by lia. assert (Hm0 : mseq s < max64) by lia.
  pose proof (proj1 (step_inv s st HB)) as HB'.
  destruct (step_seq s st HB HS Hd0 Hm0) as [HS' Hsd Hsm _ _].
  apply IH; auto.
  - destruct (next_cases s st) as [[-> _]|(msg & s' & ev & -> & He & -> & _)]; [exact HI|].
    exact (ExpInv_step s msg s' ev HB HS Hd0 Hm0 HI He).
  - destruct Hsd as [[_ E]|[_ [E _]]]; rewrite E; lia.
  - destruct Hsm as [[_ E]|[_ [E _]]]; rewrite E; lia.
Qed.

Lemma Reachable64_ExpInv s : Reachable64 s -> ExpInv s.
Proof.
  intros (steps & -> & Hlen).
  apply ExpInv_run; [apply BalInv_init|apply SeqInv_init|apply ExpInv_init| |]; change (dseq init) with 1; change (mseq init) with 1; lia.
Qed.

(** ** the facts, stated on the export view *)
Lemma NoDup_map_filter {A B} (f : A -> B) (p : A -> bool) l : NoDup (map f l) -> NoDup (map f (filter p l)).
Proof.
  induction l as [|x l IH]; simpl; [auto|]. intros Hnd. inversion Hnd as [|? ? Hx Hnd']; subst.
  destruct (p x); simpl; [|apply IH; exact Hnd']. constructor; [|apply IH; exact Hnd'].
  intros Hin. apply Hx. apply in_map_iff in Hin. destruct Hin as (y & Hy & Hiny). apply filter_In in Hiny.
  apply in_map_iff. exists y. tauto.
Qed.

Lemma tokens_of_ids s d : map fst (tokens_of s d) = map snd (filter (fun k : did * mid => fst k =? d) (keys (mts s))).
Proof.
  unfold tokens_of, keys. induction (mts s) as [|[[d0 m0] dt] l IH]; simpl; [reflexivity|].
  destruct (d0 =? d); simpl; [f_equal|]; exact IH.
Qed.

Lemma tokens_of_length s d : Z.of_nat (length (tokens_of s d)) = n_tokens s d.
Proof. unfold n_tokens. rewrite <- (map_length fst (tokens_of s d)), tokens_of_ids, map_length. reflexivity. Qed.

Lemma in_tokens_of s d m dt sp : In (m, (dt, sp)) (tokens_of s d) -> In ((d, m), dt) (mts s) /\ sp = supply s d m.
Proof.
  unfold tokens_of. intros Hin. apply in_map_iff in Hin. destruct Hin as ([[d0 m0] dt0] & Heq & Hin).
  apply filter_In in Hin. destruct Hin as [Hin Hd]. simpl in *. apply Z.eqb_eq in Hd. subst d0. inversion Heq; subst. auto.
Qed.

Lemma in_keys {K V} (k : K) (v : V) (m : amap K V) : In (k, v) m -> In k (keys m).
Proof. intros Hin. unfold keys. apply in_map_iff. exists (k, v). auto. Qed.

(** Σ over the classes of the number of their MTs = number of MTs *)
Lemma sum_by_class (ds : list did) (ks : list (did * mid)) :
  NoDup ds -> (forall k, In k ks -> In (fst k) ds) ->
  zsum (map (fun d => Z.of_nat (length (filter (fun k : did * mid => fst k =? d) ks))) ds) = Z.of_nat (length ks).
Proof.
  intros Hnd. induction ks as [|k ks IH]; intros Hcov.
  - simpl. clear. induction ds as [|d ds IHd]; simpl; [reflexivity|exact IHd].
  - assert (Hone : forall ds0, NoDup ds0 ->
              zsum (map (fun d => Z.of_nat (length (filter (fun k0 : did * mid => fst k0 =? d) (k :: ks)))) ds0)
              = zsum (map (fun d => Z.of_nat (length (filter (fun k0 : did * mid => fst k0 =? d) ks))) ds0)
                + (if existsb (Z.eqb (fst k)) ds0 then 1 else 0)).
    { clear. induction ds0 as [|d ds0 IHd]; intros Hnd; [reflexivity|]. inversion Hnd as [|? ? Hx Hnd']; subst.
      cbn [map zsum existsb]. rewrite (IHd Hnd'). cbn [filter].
      destruct (fst k =? d) eqn:Hk.
      - apply Z.eqb_eq in Hk. subst d. cbn [length]. rewrite Nat2Z.inj_succ.
        assert (Hno : existsb (Z.eqb (fst k)) ds0 = false).
        { destruct (existsb (Z.eqb (fst k)) ds0) eqn:He; [|reflexivity]. apply existsb_exists in He.
          destruct He as (y & Hy & Heq). apply Z.eqb_eq in Heq. subst y. contradiction. }
        rewrite Hno. simpl. lia.
      - simpl. lia. }
    rewrite (Hone ds Hnd), IH by (intros k0 Hk0; apply Hcov; right; exact Hk0).
    assert (Hex : existsb (Z.eqb (fst k)) ds = true).
    { apply existsb_exists. exists (fst k). split; [apply Hcov; left; reflexivity|apply Z.eqb_refl]. }
    rewrite Hex. cbn [length]. rewrite Nat2Z.inj_succ. lia.
Qed.

(** What a genesis validator / importer may rely on, for every state reachable in fewer than
    2^64-1 steps. *)
Theorem export_wellformed :
  forall s : state, Reachable64 s ->
    let cs := export_collections s in
    let os := export_owners s in
    (* class ids pairwise distinct; MT ids pairwise distinct, within a class and across classes *)
    NoDup (map (fun c => fst (fst c)) cs)
    /\ (forall c, In c cs -> NoDup (map fst (snd c)))
    /\ NoDup (map snd (keys (mts s)))
    (* holders listed once *)
    /\ NoDup (keys os)
    (* every class: id below the next sequence, owner an address, MT counter = number of its MTs *)
    /\ (forall d n o dt ts, In ((d, (n, o, dt)), ts) cs ->
          1 <= d < dseq s /\ 0 <= o /\ getz d (dcount s) = Z.of_nat (length ts))
    (* every MT: id below the next sequence, exported supply = sum of the exported balances, a uint64,
       has a supply entry and at least one balance entry *)
    /\ (forall c m dt sp, In c cs -> In (m, (dt, sp)) (snd c) ->
          1 <= m < mseq s /\ sp = total (fst (fst c), m) os /\ 0 <= sp <= max64
          /\ In (fst (fst c), m) (keys (sup s)) /\ exists a, In (a, fst (fst c), m) (keys os))
    (* every balance entry: holder an address, amount a uint64, its MT is exported under its class *)
    /\ (forall a d m v, In ((a, d, m), v) os ->
          0 <= a /\ 0 <= v <= max64
          /\ exists c, In c cs /\ fst (fst c) = d /\ In m (map fst (snd c)))
    (* the supply store holds nothing else *)
    /\ (forall dm, In dm (keys (sup s)) -> In dm (keys (mts s)))
    (* sequences count the objects ever created *)
    /\ dseq s = 1 + Z.of_nat (length cs)
    /\ mseq s = 1 + zsum (map (fun c => Z.of_nat (length (snd c))) cs).
Proof.
  intros s Hr. pose proof (Reachable64_ExpInv s Hr) as HI. destruct (Reachable64_inv s Hr) as [HB HS].
  destruct HI as [Ind Inm Ins Inc Ibm Imb Ism Imc Imu Idc Ids Ims Ioa Iha].
  destruct HS as (Hd1 & Hm1 & Hdk & Hmk & Hdc). pose proof HB as (Hnb & Hnn & Hsum & Hmax).
  cbv zeta. unfold export_collections, export_owners.
  assert (Hids : map (fun c : did * (Z * addr * Z) * list (mid * (Z * Z)) => fst (fst c))
                     (map (fun c => (c, tokens_of s (fst c))) (denoms s)) = keys (denoms s)).
  { unfold keys. rewrite map_map. apply map_ext. intros [d i]. reflexivity. }
  split; [rewrite Hids; exact Ind|].
  split.
  { intros c Hin. apply in_map_iff in Hin. destruct Hin as (c0 & <- & _). simpl.
    rewrite tokens_of_ids. apply NoDup_map_filter. exact Imu. }
  split; [exact Imu|]. split; [exact Hnb|].
  split.
  { intros d n o dt ts Hin. apply in_map_iff in Hin. destruct Hin as ([d0 i0] & Heq & Hin). inversion Heq; subst. clear Heq.
    pose proof (In_get _ _ _ Ind Hin) as Hg.
    split; [apply Hdk; congruence|]. split; [eapply Ioa; exact Hg|].
    simpl. rewrite tokens_of_length. apply Idc. }
  split.
  { intros c m dt sp Hin Hm. apply in_map_iff in Hin. destruct Hin as ([d0 i0] & <- & Hin). simpl in *.
    destruct (in_tokens_of s d0 m dt sp Hm) as [Hmt ->].
    pose proof (in_keys _ _ _ Hmt) as Hk.
    split; [apply (Hmk d0 m); apply get_in_keys; exact Hk|].
    split; [symmetry; apply Hsum|].
    split; [pose proof (BalInv_balance s 0 d0 m HB); specialize (Hmax d0 m); lia|].
    split; [apply Ism; exact Hk|]. exact (Imb (d0, m) Hk). }
  split.
  { intros a d m v Hin. pose proof (in_keys _ _ _ Hin) as Hk.
    split; [eapply Iha; exact Hk|].
    split; [rewrite <- (getz_In _ _ _ Hnb Hin); exact (BalInv_balance_max s a d m HB)|].
    pose proof (Ibm _ Hk) as Hmt. simpl in Hmt. pose proof (Imc d m Hmt) as Hcl.
    apply get_in_keys in Hcl. destruct (get d (denoms s)) as [i|] eqn:Hg; [|congruence].
    exists ((d, i), tokens_of s d). split; [|split; [reflexivity|]].
    - apply in_map_iff. exists (d, i). split; [reflexivity|]. apply get_In. exact Hg.
    - simpl. rewrite tokens_of_ids. apply in_map_iff. exists (d, m). split; [reflexivity|].
      apply filter_In. split; [exact Hmt|]. simpl. apply Z.eqb_refl. }
  split; [intros dm; apply Ism|].
  split; [rewrite map_length; exact Ids|].
  rewrite Ims. f_equal. rewrite map_map. simpl.
  rewrite (map_ext _ (fun c : did * (Z * addr * Z) => Z.of_nat (length (filter (fun k : did * mid => fst k =? fst c) (keys (mts s))))))
    by (intros c; rewrite tokens_of_length; reflexivity).
  rewrite <- (map_map fst (fun d => Z.of_nat (length (filter (fun k : did * mid => fst k =? d) (keys (mts s)))))).
  change (map fst (denoms s)) with (keys (denoms s)).
  rewrite (sum_by_class (keys (denoms s)) (keys (mts s)) Ind).
  - unfold keys. rewrite map_length. reflexivity.
  - intros [d m] Hk. simpl. eapply Imc. exact Hk.
Qed.
Print Assumptions export_wellformed.

(** the hypotheses are satisfiable on a non-trivial state: the history of [Props/C15.v] *)
Example export_nonvacuous :
  let s := run init
    [ Msg (IssueDenom 0 2 5); Msg (Mint 0 1 0 18446744073709551615 6 1); Msg (Transfer 1 1 1 18446744073709551614 2);
      Msg (Burn 2 1 1 18446744073709551614); Msg (IssueDenom 1 3 0); Msg (Mint 1 2 0 7 0 (-1)); Msg (TransferDenom 0 1 3) ] in
  Reachable64 s
  /\ export_collections s = [((1, (2, 3, 5)), [(1, (6, 1))]); ((2, (3, 1, 0)), [(2, (0, 7))])]
  /\ export_owners s = [((1, 1, 1), 1); ((2, 1, 1), 0); ((1, 2, 2), 7)]
  /\ dseq s = 3 /\ mseq s = 3.
Proof.
  cbv zeta. split; [eexists; split; [reflexivity|vm_compute; discriminate]|].
  vm_compute. repeat split; reflexivity.
Qed.
