(** * MT module: executable model
    (modules/mt/keeper/{keeper,balance,mt,denom,msg_server}.go, types/msgs.go)

    Amounts are [uint64] in Go.  The model keeps them in [Z] and performs the arithmetic the
    way the Go code does: where Go subtracts or adds without a check ([SubBalance],
    [decreaseMTSupply], the [+=] after the overflow guard, the [++] of the counters) the model
    computes modulo 2^64; where Go checks ([math.MaxUint64-balance < amount]) the model checks
    the same inequality.  Every such operation is also *logged* with its operands
    ([arith] events), so that "no wrap-around ever happens" is a theorem about the logged
    operands of all reachable executions (Props/C15.v, [no_wrap]).

    Ids: a class id is [hex(sha256("mt-denom-<n>"))] and a token id [hex(sha256("mt-<n>"))]
    with [n] the respective sequence (genDenomID / genMTID).  SHA-256 is modelled as
    injective: the model's id IS the sequence number; the harness checks on every creation
    that the real id is the SHA-256 of exactly that pre-image and translates ids in messages
    and queries through the same table.  Id vocabulary in messages: [n > 0] the id generated
    from sequence [n] (whether or not it exists yet), [0] the empty / blank string, [n < 0]
    some other non-blank string.  Address vocabulary: [a >= 0] a valid bech32 address,
    [-1] the empty string, other negatives a non-empty string that is not an address.
    Byte-string vocabulary (names, data): interned, [0] = empty/blank, [1] = "[do-not-modify]". *)
From Irismod Require Export Base.Prelude.

Definition two64 : Z := 18446744073709551616.
Definition max64 : Z := two64 - 1.                       (* math.MaxUint64 *)

(** Go's unchecked uint64 arithmetic *)
Definition usub (a b : Z) : Z := (a - b) mod two64.
Definition uadd (a b : Z) : Z := (a + b) mod two64.

(** the unchecked operations an execution performed, with their operands *)
Inductive arith :=
| USub (a b : Z)      (* a - b, unchecked *)
| UAdd (a b : Z)      (* a + b, executed after whatever guard the code has *)
| UInc (a : Z).       (* a + 1 of a counter / sequence *)

Definition getz {K} `{EqDec K} (k : K) (m : amap K Z) : Z :=
  match get k m with Some v => v | None => 0 end.

Definition did := Z.   (* class ("denom") id = pre-image = denom sequence *)
Definition mid := Z.   (* token id = pre-image = mt sequence *)
Definition addr := Z.

Record state := mkState {
  denoms : amap did (Z * addr * Z);        (* id -> (name, owner, data)         store 0x01 *)
  mts    : amap (did * mid) Z;             (* (class, token) -> data            store 0x02 *)
  bal    : amap (addr * did * mid) Z;      (* (holder, class, token) -> amount  store 0x03 *)
  sup    : amap (did * mid) Z;             (* (class, token) -> supply          store 0x04 *)
  dcount : amap did Z;                     (* class -> number of tokens         store 0x04, empty token id *)
  dseq   : Z;                              (* nextDenomSequence *)
  mseq   : Z                               (* nextMTSequence *)
}.

(** GetDenomSequence / GetMTSequence return 1 when nothing is stored *)
Definition init : state := mkState [] [] [] [] [] 1 1.

Definition with_denoms s x := mkState x (mts s) (bal s) (sup s) (dcount s) (dseq s) (mseq s).
Definition with_mts s x := mkState (denoms s) x (bal s) (sup s) (dcount s) (dseq s) (mseq s).
Definition with_bal s x := mkState (denoms s) (mts s) x (sup s) (dcount s) (dseq s) (mseq s).
Definition with_sup s x := mkState (denoms s) (mts s) (bal s) x (dcount s) (dseq s) (mseq s).
Definition with_dcount s x := mkState (denoms s) (mts s) (bal s) (sup s) x (dseq s) (mseq s).
Definition with_dseq s x := mkState (denoms s) (mts s) (bal s) (sup s) (dcount s) x (mseq s).
Definition with_mseq s x := mkState (denoms s) (mts s) (bal s) (sup s) (dcount s) (dseq s) x.

Definition balance (s : state) (a : addr) (d : did) (m : mid) : Z := getz (a, d, m) (bal s).
Definition supply (s : state) (d : did) (m : mid) : Z := getz (d, m) (sup s).
Definition owner_of (s : state) (d : did) : option addr :=
  match get d (denoms s) with Some (_, o, _) => Some o | None => None end.

(** result of running keeper code: the new state, or [None] for an error (the transaction is
    rolled back), together with the unchecked operations executed up to that point *)
Definition R := (option state * list arith)%type.

Definition bindR (r : R) (f : state -> R) : R :=
  match r with
  | (Some s, e) => let '(r', e') := f s in (r', e ++ e')
  | (None, e) => (None, e)
  end.

(** balance.go AddBalance: guard [MaxUint64-balance < amount], then [balance += amount] *)
Definition add_balance (d : did) (m : mid) (x : Z) (a : addr) (s : state) : R :=
  let b := balance s a d m in
  if max64 - b <? x then (None, [])
  else (Some (with_bal s (set (a, d, m) (uadd b x) (bal s))), [UAdd b x]).

(** balance.go SubBalance: [balance -= amount], no guard *)
Definition sub_balance (d : did) (m : mid) (x : Z) (a : addr) (s : state) : R :=
  let b := balance s a d m in
  (Some (with_bal s (set (a, d, m) (usub b x) (bal s))), [USub b x]).

(** balance.go IncreaseMTSupply: guard, then [supply += amount] *)
Definition increase_mt_supply (d : did) (m : mid) (x : Z) (s : state) : R :=
  let t := supply s d m in
  if max64 - t <? x then (None, [])
  else (Some (with_sup s (set (d, m) (uadd t x) (sup s))), [UAdd t x]).

(** balance.go decreaseMTSupply: [supply -= amount], no guard *)
Definition decrease_mt_supply (d : did) (m : mid) (x : Z) (s : state) : R :=
  let t := supply s d m in
  (Some (with_sup s (set (d, m) (usub t x) (sup s))), [USub t x]).

(** balance.go IncreaseDenomSupply: [supply++] *)
Definition increase_denom_supply (d : did) (s : state) : R :=
  let c := getz d (dcount s) in
  (Some (with_dcount s (set d (uadd c 1) (dcount s))), [UInc c]).

(** balance.go Transfer: SubBalance(from) then AddBalance(to) *)
Definition transfer (d : did) (m : mid) (x : Z) (from to : addr) (s : state) : R :=
  bindR (sub_balance d m x from s) (add_balance d m x to).

(** mt.go Authorize *)
Definition authorize (s : state) (d : did) (a : addr) : bool :=
  match get d (denoms s) with Some (_, o, _) => o =? a | None => false end.

Definition addr_ok (a : addr) : bool := 0 <=? a.
Definition nonblank (i : Z) : bool := negb (i =? 0).
(** ValidateBasic [Amount <= 0] on a uint64 field: the amount is a positive 64-bit number *)
Definition amount_ok (x : Z) : bool := (0 <? x) && (x <=? max64).
Definition do_not_modify : Z := 1.

Inductive msg :=
| IssueDenom (sender : addr) (name data : Z)
| Mint (sender : addr) (d : did) (m : mid) (amount : Z) (data : Z) (recipient : addr)
| Edit (sender : addr) (d : did) (m : mid) (data : Z)
| Transfer (sender : addr) (d : did) (m : mid) (amount : Z) (recipient : addr)
| Burn (sender : addr) (d : did) (m : mid) (amount : Z)
| TransferDenom (sender : addr) (d : did) (recipient : addr).

Definition reject : R := (None, []).

(** msgServer.IssueDenom + keeper.IssueDenom + genDenomID *)
Definition issue_denom (s : state) (sender : addr) (name data : Z) : R :=
  if addr_ok sender && nonblank name then
    let id := dseq s in
    let s1 := with_dseq s (uadd (dseq s) 1) in
    (Some (with_denoms s1 (set id (name, sender, data) (denoms s1))), [UInc (dseq s)])
  else reject.

(** keeper.IssueMT (id already generated) *)
Definition issue_mt (d : did) (id : mid) (x : Z) (data : Z) (recipient : addr) (s : state) : R :=
  let s1 := with_mts s (set (d, id) data (mts s)) in
  bindR (increase_denom_supply d s1) (fun s2 =>
  bindR (increase_mt_supply d id x s2) (add_balance d id x recipient)).

(** keeper.MintMT *)
Definition mint_mt (d : did) (m : mid) (x : Z) (recipient : addr) (s : state) : R :=
  bindR (increase_mt_supply d m x s) (add_balance d m x recipient).

(** msgServer.MintMT (after MsgMintMT.ValidateBasic) *)
Definition mint (s : state) (sender : addr) (d : did) (m : mid) (x : Z) (data : Z) (recipient : addr) : R :=
  if nonblank d && amount_ok x && negb (nonblank m && nonblank data) && addr_ok sender
     && ((recipient =? -1) || addr_ok recipient) then
    let rcpt := if recipient =? -1 then sender else recipient in
    if authorize s d sender then
      if nonblank m then
        if has (d, m) (mts s) then mint_mt d m x rcpt s else reject
      else
        (* genMTID: id from the sequence, sequence + 1 *)
        let id := mseq s in
        let s1 := with_mseq s (uadd (mseq s) 1) in
        bindR (Some s1, [UInc (mseq s)]) (issue_mt d id x data rcpt)
    else reject
  else reject.

(** msgServer.EditMT + keeper.EditMT *)
Definition edit (s : state) (sender : addr) (d : did) (m : mid) (data : Z) : R :=
  if nonblank m && nonblank d && addr_ok sender then
    if authorize s d sender then
      if has (d, m) (mts s) then
        if data =? do_not_modify then (Some s, [])
        else (Some (with_mts s (set (d, m) data (mts s))), [])
      else reject
    else reject
  else reject.

(** msgServer.TransferMT + keeper.TransferOwner: guard [balance < amount], then Transfer *)
Definition transfer_mt (s : state) (sender : addr) (d : did) (m : mid) (x : Z) (recipient : addr) : R :=
  if nonblank m && nonblank d && amount_ok x && addr_ok sender && addr_ok recipient then
    if balance s sender d m <? x then reject
    else transfer d m x sender recipient s
  else reject.

(** msgServer.BurnMT + keeper.BurnMT: guard, SubBalance, decreaseMTSupply *)
Definition burn (s : state) (sender : addr) (d : did) (m : mid) (x : Z) : R :=
  if nonblank m && nonblank d && amount_ok x && addr_ok sender then
    if balance s sender d m <? x then reject
    else bindR (sub_balance d m x sender s) (decrease_mt_supply d m x)
  else reject.

(** msgServer.TransferDenom + keeper.TransferDenomOwner *)
Definition transfer_denom (s : state) (sender : addr) (d : did) (recipient : addr) : R :=
  if nonblank d && addr_ok sender && addr_ok recipient then
    if authorize s d sender then
      match get d (denoms s) with
      | Some (name, _, data) => (Some (with_denoms s (set d (name, recipient, data) (denoms s))), [])
      | None => reject
      end
    else reject
  else reject.

Definition exec_msg (s : state) (m : msg) : R :=
  match m with
  | IssueDenom a n dt => issue_denom s a n dt
  | Mint a d m x dt r => mint s a d m x dt r
  | Edit a d m dt => edit s a d m dt
  | Transfer a d m x r => transfer_mt s a d m x r
  | Burn a d m x => burn s a d m x
  | TransferDenom a d r => transfer_denom s a d r
  end.

(** a step of a history: one message as its own transaction (atomic: on an error the state is
    the one before), or a block boundary (the module has no begin/end blocker) *)
Inductive step := Msg (m : msg) | Block.

Definition exec_R (s : state) (st : step) : R :=
  match st with Msg m => exec_msg s m | Block => (Some s, []) end.

Definition next (s : state) (st : step) : state :=
  match fst (exec_R s st) with Some s' => s' | None => s end.
Definition ok (s : state) (st : step) : bool :=
  match fst (exec_R s st) with Some _ => true | None => false end.
Definition events (s : state) (st : step) : list arith := snd (exec_R s st).

Fixpoint run (s : state) (steps : list step) : state :=
  match steps with [] => s | st :: rest => run (next s st) rest end.

(** ids generated by a step / along a history *)
Definition new_denom (s : state) (st : step) : list did :=
  match st with
  | Msg (IssueDenom _ _ _) => if ok s st then [dseq s] else []
  | _ => []
  end.
Definition new_mt (s : state) (st : step) : list mid :=
  match st with
  | Msg (Mint _ _ m _ _ _) => if ok s st && negb (nonblank m) then [mseq s] else []
  | _ => []
  end.
Fixpoint created_denoms (s : state) (steps : list step) : list did :=
  match steps with [] => [] | st :: rest => new_denom s st ++ created_denoms (next s st) rest end.
Fixpoint created_mts (s : state) (steps : list step) : list mid :=
  match steps with [] => [] | st :: rest => new_mt s st ++ created_mts (next s st) rest end.

(** all unchecked operations executed along a history (including those of transactions that
    were rolled back afterwards) *)
Fixpoint all_events (s : state) (steps : list step) : list arith :=
  match steps with [] => [] | st :: rest => events s st ++ all_events (next s st) rest end.

(** sum of the balances of all holders of token (d, m) *)
Definition key_dm (k : addr * did * mid) : did * mid := let '(_, d, m) := k in (d, m).
Definition total (dm : did * mid) (b : amap (addr * did * mid) Z) : Z :=
  zsum (map snd (filter (fun e => eqb (key_dm (fst e)) dm) b)).
Definition holders_total (s : state) (d : did) (m : mid) : Z := total (d, m) (bal s).

(** did the [n]-th step of a history succeed? *)
Definition ok_at (s : state) (steps : list step) (n : nat) : bool :=
  ok (run s (firstn n steps)) (nth n steps Block).
