(** * MT: the checker is sound for the model.

    [model_trace] is what an implementation that behaves exactly like the model would show
    (the observations of [Mt/Check.v] computed from the model state).  [model_passes_check]:
    on every such trace of fewer than 2^64-1 steps the checker answers (-1, -1, 0): no
    divergence and no violated clause.  Hence an alarm of the C15 check always means that the
    implementation's observations differ from the model's. *)
From Irismod Require Import Mt.Model Mt.Check Mt.Proofs.

(** ** generic list / map facts *)
Section MapFacts.
  Context {K V : Type} `{EqDec K}.
  Implicit Types (m : amap K V) (k : K).

  Lemma In_get k v m : NoDup (keys m) -> In (k, v) m -> get k m = Some v.
  Proof.
    induction m as [|[k0 v0] m IH]; simpl; [tauto|]. intros Hnd Hin.
    inversion Hnd as [|? ? Hnotin Hnd']; subst.
    destruct Hin as [Heq|Hin].
    - inversion Heq; subst. destruct (eq_dec k k); congruence.
    - destruct (eq_dec k k0) as [->|Hne]; [|apply IH; assumption].
      exfalso. apply Hnotin. change (In k0 (map fst m)). apply in_map_iff. exists (k0, v). auto.
  Qed.

  Lemma has_true k m : has k m = true <-> get k m <> None.
  Proof. unfold has. destruct (get k m); split; intros; congruence. Qed.
  Lemma has_false k m : has k m = false <-> get k m = None.
  Proof. unfold has. destruct (get k m); split; intros; congruence. Qed.

  Lemma get_set k k' v m : get k' (set k v m) = if eq_dec k' k then Some v else get k' m.
  Proof. destruct (eq_dec k' k) as [->|Hne]; [apply get_set_same|apply get_set_other; exact Hne]. Qed.

  Lemma length_set_absent k v m : get k m = None -> length (set k v m) = S (length m).
  Proof.
    induction m as [|[k0 v0] m IH]; simpl; [reflexivity|].
    destruct (eq_dec k k0) as [->|Hk]; simpl; [discriminate|]. intros Hg. f_equal. exact (IH Hg).
  Qed.
  Lemma length_set_present k v m : get k m <> None -> length (set k v m) = length m.
  Proof.
    induction m as [|[k0 v0] m IH]; simpl; [congruence|].
    destruct (eq_dec k k0) as [->|Hk]; simpl; [reflexivity|]. intros Hg. f_equal. exact (IH Hg).
  Qed.

  Lemma get_map_values {W} (f : K -> V -> W) k m :
    get k (map (fun '(k0, v) => (k0, f k0 v)) m) = match get k m with Some v => Some (f k v) | None => None end.
  Proof.
    induction m as [|[k0 v0] m IH]; simpl; [reflexivity|].
    destruct (eq_dec k k0) as [->|Hne]; [reflexivity|exact IH].
  Qed.
  Lemma keys_map_values {W} (f : K -> V -> W) m : keys (map (fun '(k0, v) => (k0, f k0 v)) m) = keys m.
  Proof. unfold keys. rewrite map_map. apply map_ext. intros [k0 v0]. reflexivity. Qed.
End MapFacts.

Lemma map_eqb_intro {K V} `{EqDec K} `{EqDec V} (a b : amap K V) :
  NoDup (keys a) -> NoDup (keys b) -> (forall k, get k a = get k b) -> map_eqb a b = true.
Proof.
  intros Ha Hb Heq. unfold map_eqb. apply andb_true_intro. split; apply forallb_forall; intros [k v] Hin; apply eqb_true_iff.
  - rewrite <- Heq. apply In_get; assumption.
  - rewrite Heq. apply In_get; assumption.
Qed.

Lemma getz_In {K} `{EqDec K} (k : K) v (m : amap K Z) : NoDup (keys m) -> In (k, v) m -> getz k m = v.
Proof. intros Hnd Hin. unfold getz. rewrite (In_get k v m Hnd Hin). reflexivity. Qed.

Lemma zmap_eqb_intro {K} `{EqDec K} (a b : amap K Z) :
  NoDup (keys a) -> NoDup (keys b) -> (forall k, getz k a = getz k b) -> zmap_eqb a b = true.
Proof.
  intros Ha Hb Heq. unfold zmap_eqb. apply andb_true_intro. split; apply forallb_forall; intros [k v] Hin; apply Z.eqb_eq.
  - rewrite <- Heq. apply getz_In; assumption.
  - rewrite Heq. apply getz_In; assumption.
Qed.

Lemma existsb_eqb_In {A} `{EqDec A} (x : A) l : existsb (eqb x) l = true <-> In x l.
Proof.
  rewrite existsb_exists. split.
  - intros [y [Hin Heq]]. apply (proj1 (eqb_true_iff x y)) in Heq. subst. exact Hin.
  - intros Hin. exists x. split; [exact Hin|apply eqb_refl].
Qed.

Lemma zmap_eqb_except_intro {K} `{EqDec K} (ex : list K) (a b : amap K Z) :
  NoDup (keys a) -> NoDup (keys b) -> (forall k, ~ In k ex -> getz k a = getz k b) -> zmap_eqb_except ex a b = true.
Proof.
  intros Ha Hb Heq. unfold zmap_eqb_except. apply andb_true_intro.
  split; apply forallb_forall; intros [k v] Hin; destruct (existsb (eqb k) ex) eqn:He; simpl; try reflexivity; apply Z.eqb_eq.
  - rewrite <- Heq; [apply getz_In; assumption|]. intros Hx. apply existsb_eqb_In in Hx. congruence.
  - rewrite Heq; [apply getz_In; assumption|]. intros Hx. apply existsb_eqb_In in Hx. congruence.
Qed.

(** ** the model's own observations *)
Definition obs_mts (s : state) : list ((did * mid) * (Z * Z)) :=
  map (fun '(k, dt) => (k, (dt, getz k (sup s)))) (mts s).

Lemma get_obs_mts s k :
  get k (obs_mts s) = match get k (mts s) with Some dt => Some (dt, getz k (sup s)) | None => None end.
Proof. unfold obs_mts. apply (get_map_values (fun k0 dt => (dt, getz k0 (sup s)))). Qed.
Lemma keys_obs_mts s : keys (obs_mts s) = keys (mts s).
Proof. unfold obs_mts. apply (keys_map_values (fun k0 dt => (dt, getz k0 (sup s)))). Qed.
Lemma has_obs_mts s k : has k (obs_mts s) = has k (mts s).
Proof. unfold has. rewrite get_obs_mts. destruct (get k (mts s)); reflexivity. Qed.
Lemma length_obs_mts s : length (obs_mts s) = length (mts s).
Proof. unfold obs_mts. apply map_length. Qed.
Lemma data_obs_mts s : map (fun '(k, (dt, _)) => (k, dt)) (obs_mts s) = mts s.
Proof.
  unfold obs_mts. rewrite map_map. rewrite <- (map_id (mts s)) at 2. apply map_ext. intros [k dt]. reflexivity.
Qed.

Definition obs_of (s : state) (code new : Z) : obs :=
  mkObs code (dseq s) (mseq s) new (denoms s) (obs_mts s) (sup s) (dcount s) (bal s) false.

Fixpoint model_trace (s : state) (steps : list step) : case :=
  match steps with
  | [] => []
  | st :: rest =>
      (st, obs_of (next s st) (if ok s st then 0 else 1) (expected_new s st)) :: model_trace (next s st) rest
  end.

(** what the checker needs beyond [BalInv] and [SeqInv] *)
Definition KInv (s : state) : Prop :=
  NoDup (keys (denoms s)) /\ NoDup (keys (mts s)) /\ NoDup (keys (sup s)) /\ NoDup (keys (dcount s))
  /\ (forall k, getz k (bal s) <> 0 -> has (key_dm k) (mts s) = true)
  /\ (forall dm, getz dm (sup s) <> 0 -> has dm (mts s) = true).

Lemma KInv_init : KInv init.
Proof. unfold KInv, init, getz. simpl. repeat split; try constructor; intros; congruence. Qed.

(** ** explicit post-states of transfer and burn *)
Definition transfer_state (s : state) (a : addr) (d : did) (m : mid) (x : Z) (r : addr) : state :=
  let b1 := set (a, d, m) (balance s a d m - x) (bal s) in
  with_bal s (set (r, d, m) (getz (r, d, m) b1 + x) b1).
Definition burn_state (s : state) (a : addr) (d : did) (m : mid) (x : Z) : state :=
  with_sup (with_bal s (set (a, d, m) (balance s a d m - x) (bal s))) (set (d, m) (supply s d m - x) (sup s)).

Lemma transfer_explicit s a d m x r s' ev : BalInv s -> exec_msg s (Transfer a d m x r) = (Some s', ev) ->
  0 < x <= balance s a d m /\ s' = transfer_state s a d m x r.
Proof.
  intros Hinv Hrun. simpl in Hrun. unfold transfer_mt in Hrun.
  destruct (nonblank m && nonblank d && amount_ok x && addr_ok a && addr_ok r) eqn:Hvb; [|discriminate].
  assert (Hx : 0 < x <= max64) by (apply amount_ok_range; lia).
  destruct (balance s a d m <? x) eqn:G; [discriminate|].
  assert (Hheld : x <= balance s a d m) by lia.
  destruct (transfer_spec _ _ _ _ _ _ _ _ Hinv (proj1 Hx) Hheld Hrun) as (_ & _ & Heq).
  inversion Heq; subst s'. split; [lia|reflexivity].
Qed.

Lemma burn_explicit s a d m x s' ev : BalInv s -> exec_msg s (Burn a d m x) = (Some s', ev) ->
  0 < x <= balance s a d m /\ s' = burn_state s a d m x.
Proof.
  intros Hinv Hrun. simpl in Hrun. unfold burn in Hrun.
  destruct (nonblank m && nonblank d && amount_ok x && addr_ok a) eqn:Hvb; [|discriminate].
  assert (Hx : 0 < x <= max64) by (apply amount_ok_range; lia).
  destruct (balance s a d m <? x) eqn:G; [discriminate|].
  assert (Hheld : x <= balance s a d m) by lia.
  destruct (burn_spec _ _ _ _ _ _ _ Hinv (proj1 Hx) Hheld Hrun) as (_ & _ & Heq).
  inversion Heq; subst s'. split; [lia|reflexivity].
Qed.

Lemma getz_set {K} `{EqDec K} (k k' : K) v (m : amap K Z) :
  getz k' (set k v m) = if eq_dec k' k then v else getz k' m.
Proof. unfold getz. rewrite get_set. destruct (eq_dec k' k); reflexivity. Qed.

Lemma has_set {K V} `{EqDec K} (k k' : K) (v : V) m : has k' (set k v m) = if eq_dec k' k then true else has k' m.
Proof. unfold has. rewrite get_set. destruct (eq_dec k' k); reflexivity. Qed.

(** the successful messages, one explicit post-state each *)
Inductive post (s : state) : msg -> state -> Prop :=
| P_issue a n dt : post s (IssueDenom a n dt)
    (with_denoms (with_dseq s (uadd (dseq s) 1)) (set (dseq s) (n, a, dt) (denoms s)))
| P_mint_more a d m x dt r : nonblank m = true -> has (d, m) (mts s) = true -> authorize s d a = true -> 0 < x ->
    post s (Mint a d m x dt r) (credit_state s (if r =? -1 then a else r) d m x)
| P_mint_new a d m x dt r : nonblank m = false -> authorize s d a = true -> 0 < x ->
    post s (Mint a d m x dt r) (credit_state (new_token_state s d dt) (if r =? -1 then a else r) d (mseq s) x)
| P_edit_keep a d m dt : dt = do_not_modify -> has (d, m) (mts s) = true -> authorize s d a = true ->
    post s (Edit a d m dt) s
| P_edit a d m dt : dt <> do_not_modify -> has (d, m) (mts s) = true -> authorize s d a = true ->
    post s (Edit a d m dt) (with_mts s (set (d, m) dt (mts s)))
| P_transfer a d m x r : 0 < x <= balance s a d m -> post s (Transfer a d m x r) (transfer_state s a d m x r)
| P_burn a d m x : 0 < x <= balance s a d m -> post s (Burn a d m x) (burn_state s a d m x)
| P_handover a d r n dt : get d (denoms s) = Some (n, a, dt) ->
    post s (TransferDenom a d r) (with_denoms s (set d (n, r, dt) (denoms s))).

Lemma exec_post s msg s' ev : BalInv s -> exec_msg s msg = (Some s', ev) -> post s msg s'.
Proof.
  intros Hinv E. destruct msg as [a n dt|a d m x dt r|a d m dt|a d m x r|a d m x|a d r].
  - destruct (issue_denom_post _ _ _ _ _ _ E) as (_ & _ & _ & ->). constructor.
  - destruct (mint_post _ _ _ _ _ _ _ _ _ Hinv E) as (Hauth & Hx & _ & Hcase).
    destruct (nonblank m) eqn:Hm.
    + destruct Hcase as (Hhas & -> & _). apply P_mint_more; auto; lia.
    + destruct Hcase as (-> & _). apply P_mint_new; auto; lia.
  - destruct (edit_post _ _ _ _ _ _ _ E) as (Hauth & Hhas & _ & ->).
    destruct (dt =? do_not_modify) eqn:Hd.
    + apply P_edit_keep; auto. apply Z.eqb_eq. exact Hd.
    + apply P_edit; auto. apply Z.eqb_neq. exact Hd.
  - destruct (transfer_explicit _ _ _ _ _ _ _ _ Hinv E) as (Hx & ->). constructor. exact Hx.
  - destruct (burn_explicit _ _ _ _ _ _ _ Hinv E) as (Hx & ->). constructor. exact Hx.
  - destruct (transfer_denom_post _ _ _ _ _ _ E) as (_ & _ & _ & n & dt & Hg & ->). apply (P_handover s a d r n dt). exact Hg.
Qed.

Lemma KInv_post s msg s' : KInv s -> post s msg s' -> KInv s'.
Proof.
  intros (Hd & Hm & Hs & Hc & Hb & Hsp) Hp.
  destruct Hp as [a n dt|a d m x dt r Hnb Hhas Hauth Hx|a d m x dt r Hnb Hauth Hx|a d m dt Hdt Hhas Hauth
                 |a d m dt Hdt Hhas Hauth|a d m x r Hx|a d m x Hx|a d r n dt Hg]; unfold KInv; simpl.
  - repeat split; auto. apply keys_set_NoDup. exact Hd.
  - repeat split; auto; try (apply keys_set_NoDup; assumption).
    + intros k. rewrite getz_set. destruct (eq_dec k _) as [->|_]; [intros _; exact Hhas|apply Hb].
    + intros dm. rewrite getz_set. destruct (eq_dec dm _) as [->|_]; [intros _; exact Hhas|apply Hsp].
  - repeat split; auto; try (apply keys_set_NoDup; assumption).
    + intros k. rewrite getz_set, has_set. destruct (eq_dec k _) as [->|_].
      * intros _. simpl. destruct (eq_dec _ _) as [_|Hne]; [reflexivity|exfalso; apply Hne; reflexivity].
      * intros Hk. destruct (eq_dec (key_dm k) _); [reflexivity|]. apply Hb. exact Hk.
    + intros dm. rewrite getz_set, has_set. destruct (eq_dec dm _) as [->|_]; [reflexivity|apply Hsp].
  - repeat split; auto.
  - repeat split; auto; try (apply keys_set_NoDup; assumption).
    + intros k Hk. rewrite has_set. destruct (eq_dec (key_dm k) _); [reflexivity|]. apply Hb. exact Hk.
    + intros dm Hk. rewrite has_set. destruct (eq_dec dm _); [reflexivity|]. apply Hsp. exact Hk.
  - assert (Hhas : has (d, m) (mts s) = true) by (apply (Hb (a, d, m)); unfold balance in Hx; lia).
    repeat split; auto.
    intros k. rewrite !getz_set. destruct (eq_dec k _) as [->|_]; [intros _; exact Hhas|].
    destruct (eq_dec k _) as [->|_]; [intros _; exact Hhas|apply Hb].
  - assert (Hhas : has (d, m) (mts s) = true) by (apply (Hb (a, d, m)); unfold balance in Hx; lia).
    repeat split; auto; try (apply keys_set_NoDup; assumption).
    + intros k. rewrite getz_set. destruct (eq_dec k _) as [->|_]; [intros _; exact Hhas|apply Hb].
    + intros dm. rewrite getz_set. destruct (eq_dec dm _) as [->|_]; [intros _; exact Hhas|apply Hsp].
  - repeat split; auto. apply keys_set_NoDup. exact Hd.
Qed.

(** ** correspondence: the model agrees with its own observations *)
Notation code_of s st := (if ok s st then 0 else 1).

Lemma corr_sound s st : BalInv (next s st) -> KInv (next s st) ->
  corr_step s (next s st) st (obs_of (next s st) (code_of s st) (expected_new s st)) = true.
Proof.
  set (s' := next s st). intros (Hnb & _) (Hd & Hm & Hs & Hc & _).
  unfold corr_step, obs_of. cbn [o_code o_dseq o_mseq o_new o_denoms o_mts o_sup o_dcount o_bal o_invbroken].
  rewrite !Z.eqb_refl, data_obs_mts.
  rewrite (map_eqb_intro _ _ Hd Hd (fun _ => eq_refl)), (map_eqb_intro _ _ Hm Hm (fun _ => eq_refl)).
  rewrite (zmap_eqb_intro _ _ Hs Hs (fun _ => eq_refl)), (zmap_eqb_intro _ _ Hc Hc (fun _ => eq_refl)),
    (zmap_eqb_intro _ _ Hnb Hnb (fun _ => eq_refl)).
  simpl. rewrite !Bool.andb_true_r.
  apply forallb_forall. intros [[d m] [dt sp]] Hin. unfold obs_mts in Hin. apply in_map_iff in Hin.
  destruct Hin as ([k dt0] & Heq & _). inversion Heq; subst. apply Z.eqb_refl.
Qed.

(** ** clause 1 *)
Lemma in_range_spec x : in_range x = true <-> 0 <= x <= max64.
Proof. unfold in_range. rewrite Bool.andb_true_iff, !Z.leb_le. tauto. Qed.

Lemma p_sum_sound s code new : BalInv s -> KInv s -> p_sum (obs_of s code new) = true.
Proof.
  intros HB (Hd & Hm & Hs & Hc & Hb & Hsp). pose proof HB as (Hnb & Hnn & Hsum & Hmax).
  unfold p_sum, obs_of, osup. cbn [o_mts o_bal o_sup].
  apply andb_true_intro. split; [apply andb_true_intro; split|]; apply forallb_forall.
  - intros [[d m] [dt sp]] Hin. unfold obs_mts in Hin. apply in_map_iff in Hin.
    destruct Hin as ([k dt0] & Heq & _). inversion Heq; subst. clear Heq.
    change (getz (d, m) (sup s)) with (supply s d m).
    change (total (d, m) (bal s)) with (holders_total s d m). rewrite Hsum, !Z.eqb_refl. simpl.
    apply in_range_spec. pose proof (BalInv_balance s 0 d m HB). specialize (Hmax d m). lia.
  - intros [[[a d] m] v] Hin. pose proof (getz_In _ _ _ Hnb Hin) as Hv.
    apply andb_true_intro. split.
    + rewrite has_obs_mts. destruct (v =? 0) eqn:Hz; [apply Bool.orb_true_r|].
      apply Z.eqb_neq in Hz. rewrite (Hb (a, d, m)); [reflexivity|]. rewrite Hv. exact Hz.
    + apply in_range_spec. rewrite <- Hv. exact (BalInv_balance_max s a d m HB).
  - intros [dm v] Hin. pose proof (getz_In _ _ _ Hs Hin) as Hv.
    rewrite has_obs_mts. destruct (v =? 0) eqn:Hz; [apply Bool.orb_true_r|].
    apply Z.eqb_neq in Hz. rewrite (Hsp dm); [reflexivity|]. rewrite Hv. exact Hz.
Qed.

(** ** two consecutive model observations *)
Lemma next_cases s st :
  (next s st = s /\ (st = Block \/ ok s st = false))
  \/ (exists msg s' ev, st = Msg msg /\ exec_msg s msg = (Some s', ev) /\ next s st = s' /\ ok s st = true).
Proof.
  unfold next, ok. destruct st as [msg|]; simpl; [|left; auto].
  destruct (exec_msg s msg) as [[s'|] ev] eqn:He; simpl; [right; exists msg, s', ev; auto|left; auto].
Qed.

Lemma quiet_code s st new : (st = Block \/ ok s st = false) ->
  st = Block \/ (o_code (obs_of (next s st) (code_of s st) new) =? 0) = false.
Proof. intros [Hb|Hf]; [left; exact Hb|right]. unfold obs_of. cbn [o_code]. rewrite Hf. reflexivity. Qed.

(** clause 2 *)
Lemma p_transfer_sound s st c0 n0 new : BalInv s -> KInv s -> KInv (next s st) -> BalInv (next s st) ->
  p_transfer (obs_of s c0 n0) (obs_of (next s st) (code_of s st) new) st = true.
Proof.
  intros HB HK HK' HB'. unfold p_transfer.
  destruct st as [[a n dt|a d m x dt r|a d m dt|a d m x r|a d m x|a d r]|]; try reflexivity.
  destruct (next_cases s (Msg (Transfer a d m x r))) as [[_ Hq]|(msg & s' & ev & Hst & He & Hn & Hok)].
  - destruct (quiet_code s _ new Hq) as [Hb|Hk]; [discriminate|]. rewrite Hk. reflexivity.
  - inversion Hst; subst msg. rewrite Hn in *. rewrite Hok. cbn [o_code]. change (0 =? 0) with true. cbv iota.
    destruct (transfer_exact_lemma s a d m x r s' ev HB He) as (Hx & Hsup & Hself & Hmove & Hother & _).
    destruct HK as (_ & _ & Hs & _). destruct HK' as (_ & _ & Hs' & _). destruct HB as (Hnb & _). destruct HB' as (Hnb' & _).
    unfold obal, obs_of. cbn [o_bal o_sup].
    change (getz (a, d, m) (bal s)) with (balance s a d m).
    change (getz (a, d, m) (bal s')) with (balance s' a d m).
    change (getz (r, d, m) (bal s)) with (balance s r d m).
    change (getz (r, d, m) (bal s')) with (balance s' r d m).
    assert (H1 : x <=? balance s a d m = true) by (apply Z.leb_le; lia). rewrite H1.
    rewrite (zmap_eqb_intro _ _ Hs Hs') by (intros [d' m']; symmetry; apply Hsup). simpl.
    destruct (a =? r) eqn:Har.
    + apply Z.eqb_eq in Har. apply (zmap_eqb_intro _ _ Hnb Hnb'). intros [[a' d'] m']. symmetry. apply (Hself Har).
    + apply Z.eqb_neq in Har. destruct (Hmove Har) as [E1 E2]. rewrite E1, E2, !Z.eqb_refl. simpl.
      apply (zmap_eqb_except_intro _ _ _ Hnb Hnb'). intros [[a' d'] m'] Hnin. symmetry. apply Hother.
      * intros Heq. apply Hnin. left. symmetry. exact Heq.
      * intros Heq. apply Hnin. right. left. symmetry. exact Heq.
Qed.

(** clause 3 *)
Lemma p_burn_sound s st c0 n0 new : BalInv s -> KInv s -> KInv (next s st) -> BalInv (next s st) ->
  p_burn (obs_of s c0 n0) (obs_of (next s st) (code_of s st) new) st = true.
Proof.
  intros HB HK HK' HB'. unfold p_burn.
  destruct st as [[a n dt|a d m x dt r|a d m dt|a d m x r|a d m x|a d r]|]; try reflexivity.
  destruct (next_cases s (Msg (Burn a d m x))) as [[_ Hq]|(msg & s' & ev & Hst & He & Hn & Hok)].
  - destruct (quiet_code s _ new Hq) as [Hb|Hk]; [discriminate|]. rewrite Hk. reflexivity.
  - inversion Hst; subst msg. rewrite Hn in *. rewrite Hok. cbn [o_code]. change (0 =? 0) with true. cbv iota.
    destruct (burn_exact_lemma s a d m x s' ev HB He) as (Hx & Hb1 & Hs1 & Hbo & Hso & _).
    destruct HK as (_ & _ & Hs & _). destruct HK' as (_ & _ & Hs' & _). destruct HB as (Hnb & _). destruct HB' as (Hnb' & _).
    unfold obal, osup, obs_of. cbn [o_bal o_sup].
    change (getz (a, d, m) (bal s)) with (balance s a d m).
    change (getz (a, d, m) (bal s')) with (balance s' a d m).
    change (getz (d, m) (sup s)) with (supply s d m).
    change (getz (d, m) (sup s')) with (supply s' d m).
    assert (H1 : x <=? balance s a d m = true) by (apply Z.leb_le; lia). rewrite H1, Hb1, Hs1, !Z.eqb_refl. simpl.
    apply andb_true_intro. split.
    + apply (zmap_eqb_except_intro _ _ _ Hnb Hnb'). intros [[a' d'] m'] Hnin. symmetry. apply Hbo.
      intros Heq. apply Hnin. left. symmetry. exact Heq.
    + apply (zmap_eqb_except_intro _ _ _ Hs Hs'). intros [d' m'] Hnin. symmetry. apply Hso.
      intros Heq. apply Hnin. left. symmetry. exact Heq.
Qed.

(** clause 4 *)
Lemma p_mint_sound s st c0 n0 : BalInv s -> KInv s -> KInv (next s st) -> BalInv (next s st) ->
  p_mint (obs_of s c0 n0) (obs_of (next s st) (code_of s st) (expected_new s st)) st = true.
Proof.
  intros HB HK HK' HB'. unfold p_mint.
  destruct st as [[a n dt|a d m x dt r|a d m dt|a d m x r|a d m x|a d r]|]; try reflexivity.
  destruct (next_cases s (Msg (Mint a d m x dt r))) as [[_ Hq]|(msg & s' & ev & Hst & He & Hn & Hok)].
  - destruct (quiet_code s _ (expected_new s (Msg (Mint a d m x dt r))) Hq) as [Hb|Hk]; [discriminate|]. rewrite Hk. reflexivity.
  - inversion Hst; subst msg. rewrite Hn in *. unfold expected_new, obs_of, obal, osup. rewrite Hok. cbn [o_code o_new o_bal o_sup]. change (0 =? 0) with true. cbv beta iota zeta.
    destruct (mint_exact_lemma s a d m x dt r s' ev HB He) as (Hx & Hs1 & _ & Hb1 & Hbo & Hso).
    destruct HK as (_ & _ & Hs & _). destruct HK' as (_ & _ & Hs' & _). destruct HB as (Hnb & _). destruct HB' as (Hnb' & _).
    set (t := if nonblank m then m else mseq s) in *. set (rc := if r =? -1 then a else r) in *.
    apply andb_true_intro. split; [apply andb_true_intro; split; [apply andb_true_intro; split|]|].
    + apply Z.eqb_eq. exact Hs1.
    + apply Z.eqb_eq. exact Hb1.
    + apply (zmap_eqb_except_intro _ _ _ Hnb Hnb'). intros [[a' d'] m'] Hnin. symmetry. apply Hbo.
      intros Heq. apply Hnin. left. symmetry. exact Heq.
    + apply (zmap_eqb_except_intro _ _ _ Hs Hs'). intros [d' m'] Hnin. symmetry. apply Hso.
      intros Heq. apply Hnin. left. symmetry. exact Heq.
Qed.

(** clause 5 *)
Lemma denoms_step s msg s' n ow dt d : SeqInv s -> post s msg s' -> get d (denoms s) = Some (n, ow, dt) ->
  get d (denoms s') = Some (n, ow, dt)
  \/ (exists r, msg = TransferDenom ow d r /\ get d (denoms s') = Some (n, r, dt)).
Proof.
  intros (_ & _ & Hdk & _) Hp Hg.
  destruct Hp as [a n1 dt1|a d1 m x dt1 r Hnb Hhas Hauth Hx|a d1 m x dt1 r Hnb Hauth Hx|a d1 m dt1 Hdt Hhas Hauth
                 |a d1 m dt1 Hdt Hhas Hauth|a d1 m x r Hx|a d1 m x Hx|a d1 r n1 dt1 Hg1]; simpl; try (left; exact Hg).
  - left. rewrite get_set_other; [exact Hg|]. assert (Hd : get d (denoms s) <> None) by congruence. specialize (Hdk d Hd). lia.
  - destruct (Z.eq_dec d d1) as [->|Hne].
    + right. exists r. rewrite get_set_same. rewrite Hg1 in Hg. inversion Hg; subst. auto.
    + left. rewrite get_set_other by exact Hne. exact Hg.
Qed.

Lemma p_auth_sound s st c0 n0 new : BalInv s -> SeqInv s -> KInv s ->
  p_auth (obs_of s c0 n0) (obs_of (next s st) (code_of s st) new) st = true.
Proof.
  intros HB HS (Hd & Hm & _). unfold p_auth.
  apply andb_true_intro. split; [apply andb_true_intro; split|].
  - destruct (next_cases s st) as [[_ Hq]|(msg & s' & ev & -> & He & Hn & Hok)].
    + destruct (quiet_code s st new Hq) as [->|Hk]; [reflexivity|]. rewrite Hk. reflexivity.
    + rewrite Hn, Hok. cbn [o_code obs_of]. change (0 =? 0) with true. cbv iota.
      pose proof (only_owner_lemma s msg s' ev HB He) as Ho.
      destruct msg as [a n dt|a d m x dt r|a d m dt|a d m x r|a d m x|a d r]; try reflexivity;
        apply eqb_true_iff; exact Ho.
  - apply forallb_forall. intros [d [[n ow] dt]] Hin. unfold obs_of in Hin. cbn [o_denoms] in Hin.
    pose proof (In_get d _ _ Hd Hin) as Hg.
    destruct (next_cases s st) as [[Hn _]|(msg & s' & ev & -> & He & Hn & Hok)]; rewrite Hn; unfold obs_of at 1; cbn [o_denoms].
    + rewrite Hg, !Z.eqb_refl. reflexivity.
    + destruct (denoms_step s msg s' n ow dt d HS (exec_post s msg s' ev HB He) Hg) as [Hg'|(r & -> & Hg')]; rewrite Hg'.
      * rewrite !Z.eqb_refl. reflexivity.
      * rewrite Hok. cbn [o_code obs_of]. rewrite !Z.eqb_refl. simpl. apply Bool.orb_true_r.
  - apply forallb_forall. intros [[d m] [dt sp]] Hin. unfold obs_of in Hin. cbn [o_mts] in Hin.
    assert (Hg : get (d, m) (mts s) = Some dt).
    { unfold obs_mts in Hin. apply in_map_iff in Hin. destruct Hin as ([k dt0] & Heq & Hin). inversion Heq; subst.
      apply In_get; assumption. }
    destruct (next_cases s st) as [[Hn _]|(msg & s' & ev & -> & He & Hn & Hok)]; rewrite Hn; unfold obs_of at 1; cbn [o_mts]; rewrite get_obs_mts.
    + rewrite Hg, Z.eqb_refl. reflexivity.
    + destruct (data_change_lemma s msg s' ev d m dt HB HS He Hg) as [Hg'|(a & dt' & -> & Ho & Hg')]; rewrite Hg'.
      * rewrite Z.eqb_refl. reflexivity.
      * rewrite Hok. cbn [o_code obs_of]. rewrite !Z.eqb_refl. simpl.
        assert (Ho' : eqb (oowner (obs_of s c0 n0) d) (Some a) = true) by (apply eqb_true_iff; exact Ho).
        rewrite Ho'. apply Bool.orb_true_r.
Qed.

(** clause 6 *)
Lemma len_succ n : (Z.of_nat (S n) =? Z.of_nat n + 1) = true.
Proof. apply Z.eqb_eq. lia. Qed.

Lemma p_ids_sound s st c0 n0 : BalInv s -> SeqInv s -> KInv s -> dseq s < max64 -> mseq s < max64 ->
  p_ids (obs_of s c0 n0) (obs_of (next s st) (code_of s st) (expected_new s st)) st = true.
Proof.
  intros HB HS (Hd & Hm & _) Hdlt Hmlt. pose proof HS as (Hd1 & Hm1 & Hdk & Hmk & _). unfold p_ids.
  apply andb_true_intro. split; [apply andb_true_intro; split|].
  - (* classes persist *)
    apply forallb_forall. intros [d [[n ow] dt]] Hin. unfold obs_of in Hin. cbn [o_denoms] in Hin.
    pose proof (In_get d _ _ Hd Hin) as Hg. unfold obs_of. cbn [o_denoms]. apply has_true.
    destruct (next_cases s st) as [[Hn _]|(msg & s' & ev & -> & He & Hn & Hok)]; rewrite Hn; [congruence|].
    destruct (denoms_step s msg s' n ow dt d HS (exec_post s msg s' ev HB He) Hg) as [Hg'|(r & _ & Hg')]; congruence.
  - (* tokens persist *)
    apply forallb_forall. intros [[d m] [dt sp]] Hin. unfold obs_of in Hin. cbn [o_mts] in Hin.
    assert (Hg : get (d, m) (mts s) = Some dt).
    { unfold obs_mts in Hin. apply in_map_iff in Hin. destruct Hin as ([k dt0] & Heq & Hin). inversion Heq; subst.
      apply In_get; assumption. }
    unfold obs_of. cbn [o_mts]. rewrite has_obs_mts. apply has_true.
    destruct (next_cases s st) as [[Hn _]|(msg & s' & ev & -> & He & Hn & Hok)]; rewrite Hn; [congruence|].
    destruct (data_change_lemma s msg s' ev d m dt HB HS He Hg) as [Hg'|(a & dt' & _ & _ & Hg')]; congruence.
  - (* creations and sequences *)
    unfold obs_of. cbn [o_code o_new o_denoms o_mts o_dseq o_mseq]. rewrite !length_obs_mts.
    destruct (next_cases s st) as [[Hn Hq]|(msg & s' & ev & -> & He & Hn & Hok)].
    + rewrite Hn, !Z.eqb_refl.
      destruct st as [[a n dt|a d m x dt r|a d m dt|a d m x r|a d m x|a d r]|]; try reflexivity.
      * destruct (code_of s (Msg (IssueDenom a n dt)) =? 0) eqn:Hc; [|reflexivity].
        destruct Hq as [Hq|Hq]; [discriminate|]. rewrite Hq in Hc. discriminate.
      * destruct Hq as [Hq|Hq]; [discriminate|]. rewrite Hq. reflexivity.
    + rewrite Hn. unfold expected_new. rewrite Hok. change (0 =? 0) with true.
      pose proof (exec_post s msg s' ev HB He) as Hp.
      destruct Hp as [a n dt|a d m x dt r Hnb Hhas Hauth Hx|a d m x dt r Hnb Hauth Hx|a d m dt Hdt Hhas Hauth
                     |a d m dt Hdt Hhas Hauth|a d m x r Hx|a d m x Hx|a d r n dt Hg]; simpl.
      * (* issue *)
        assert (Hfree : get (dseq s) (denoms s) = None).
        { destruct (get (dseq s) (denoms s)) eqn:Hg; [|reflexivity].
          assert (Hx : get (dseq s) (denoms s) <> None) by congruence. specialize (Hdk _ Hx). lia. }
        unfold has at 1. rewrite Hfree. unfold oowner. cbn [o_denoms]. rewrite get_set_same, eqb_refl.
        rewrite (length_set_absent _ _ _ Hfree), len_succ, Z.eqb_refl, (uadd_exact (dseq s) 1) by lia. simpl.
        rewrite ?Bool.andb_true_r. apply Z.ltb_lt. lia.
      * (* more of an existing token *)
        rewrite Hnb, !Z.eqb_refl. reflexivity.
      * (* a new token *)
        rewrite Hnb. simpl.
        assert (Hfree : get (d, mseq s) (mts s) = None).
        { destruct (get (d, mseq s) (mts s)) eqn:Hg; [|reflexivity].
          assert (Hy : get (d, mseq s) (mts s) <> None) by congruence. specialize (Hmk _ _ Hy). lia. }
        rewrite (length_set_absent _ _ _ Hfree), len_succ, Z.eqb_refl, (uadd_exact (mseq s) 1) by lia.
        rewrite has_obs_mts. simpl. rewrite has_set.
        destruct (eq_dec _ _) as [_|Hne]; [|exfalso; apply Hne; reflexivity]. rewrite !Bool.andb_true_r.
        apply andb_true_intro. split; [|apply Z.ltb_lt; lia].
        apply Bool.negb_true_iff.
        match goal with |- existsb ?f (obs_mts s) = false => destruct (existsb f (obs_mts s)) eqn:Hex end; [|reflexivity].
        apply existsb_exists in Hex. destruct Hex as ([[d' m'] [dt' sp']] & Hin & Heq). apply Z.eqb_eq in Heq. subst m'.
        unfold obs_mts in Hin. apply in_map_iff in Hin. destruct Hin as ([k dt0] & Heq & Hin). inversion Heq; subst.
        assert (Hy : get (d', mseq s) (mts s) <> None) by (rewrite (In_get _ _ _ Hm Hin); discriminate).
        specialize (Hmk _ _ Hy). lia.
      * rewrite !Z.eqb_refl. reflexivity.
      * rewrite length_set_present by (apply has_true; exact Hhas). rewrite !Z.eqb_refl. reflexivity.
      * rewrite !Z.eqb_refl. reflexivity.
      * rewrite !Z.eqb_refl. reflexivity.
      * rewrite length_set_present by congruence. rewrite !Z.eqb_refl. reflexivity.
Qed.

(** clause 7 *)
Lemma zrefl {K} `{EqDec K} (m : amap K Z) : NoDup (keys m) -> zmap_eqb m m = true.
Proof. intros Hnd. apply zmap_eqb_intro; auto. Qed.
Lemma mrefl {K V} `{EqDec K} `{EqDec V} (m : amap K V) : NoDup (keys m) -> map_eqb m m = true.
Proof. intros Hnd. apply map_eqb_intro; auto. Qed.

Lemma p_frame_sound s st c0 n0 new : BalInv s -> KInv s ->
  p_frame (obs_of s c0 n0) (obs_of (next s st) (code_of s st) new) st = true.
Proof.
  intros HB (Hd & Hm & Hs & Hc & _). pose proof HB as (Hnb & _).
  unfold p_frame, obs_of. cbn [o_code o_bal o_sup o_denoms o_mts]. rewrite !data_obs_mts.
  destruct (next_cases s st) as [[Hn _]|(msg & s' & ev & -> & He & Hn & Hok)]; rewrite Hn.
  - rewrite (zrefl _ Hnb), (zrefl _ Hs), (mrefl _ Hd), (mrefl _ Hm), !Bool.orb_true_r. reflexivity.
  - rewrite Hok. change (0 =? 0) with true.
    pose proof (exec_post s msg s' ev HB He) as Hp.
    destruct Hp as [a n dt|a d m x dt r Hnb' Hhas Hauth Hx|a d m x dt r Hnb' Hauth Hx|a d m dt Hdt Hhas Hauth
                   |a d m dt Hdt Hhas Hauth|a d m x r Hx|a d m x Hx|a d r n dt Hg]; simpl;
      rewrite ?(zrefl _ Hnb), ?(zrefl _ Hs), ?(mrefl _ Hd), ?(mrefl _ Hm); reflexivity.
Qed.

(** ** the checker on a model trace *)
Lemma prop_sound s st c0 n0 : BalInv s -> SeqInv s -> KInv s -> dseq s < max64 -> mseq s < max64 ->
  BalInv (next s st) -> KInv (next s st) ->
  prop_step (obs_of s c0 n0) (obs_of (next s st) (code_of s st) (expected_new s st)) st = 0.
Proof.
  intros HB HS HK Hd Hm HB' HK'. unfold prop_step.
  rewrite (p_sum_sound _ _ _ HB' HK'), (p_transfer_sound s st c0 n0 _ HB HK HK' HB'), (p_burn_sound s st c0 n0 _ HB HK HK' HB'),
    (p_mint_sound s st c0 n0 HB HK HK' HB'), (p_auth_sound s st c0 n0 _ HB HS HK), (p_ids_sound s st c0 n0 HB HS HK Hd Hm),
    (p_frame_sound s st c0 n0 _ HB HK).
  reflexivity.
Qed.

Lemma KInv_next s st : BalInv s -> KInv s -> KInv (next s st).
Proof.
  intros HB HK. destruct (next_cases s st) as [[-> _]|(msg & s' & ev & -> & He & -> & _)]; [exact HK|].
  exact (KInv_post s msg s' HK (exec_post s msg s' ev HB He)).
Qed.

Lemma check_sound steps : forall s c0 n0 i, BalInv s -> SeqInv s -> KInv s ->
  dseq s + Z.of_nat (length steps) <= max64 -> mseq s + Z.of_nat (length steps) <= max64 ->
  check_from s (obs_of s c0 n0) (model_trace s steps) i (-1) (-1) 0 = (-1, -1, 0).
Proof.
  induction steps as [|st rest IH]; intros s c0 n0 i HB HS HK Hd Hm; [reflexivity|].
  cbn [length] in Hd, Hm. rewrite Nat2Z.inj_succ in Hd, Hm.
  assert (Hd0 : dseq s < max64) by lia. assert (Hm0 : mseq s < max64) by lia.
  pose proof (proj1 (step_inv s st HB)) as HB'. pose proof (KInv_next s st HB HK) as HK'.
  destruct (step_seq s st HB HS Hd0 Hm0) as [HS' Hsd Hsm _ _].
  cbn [model_trace check_from].
  rewrite (corr_sound s st HB' HK'), (prop_sound s st c0 n0 HB HS HK Hd0 Hm0 HB' HK'). simpl.
  apply IH; auto.
  - destruct Hsd as [[_ E]|[_ [E _]]]; rewrite E; lia.
  - destruct Hsm as [[_ E]|[_ [E _]]]; rewrite E; lia.
Qed.

Lemma model_passes_check_lemma steps : 1 + Z.of_nat (length steps) <= max64 ->
  check_case (model_trace init steps) = (-1, -1, 0).
Proof.
  intros Hlen. unfold check_case. change obs0 with (obs_of init 0 0).
  apply check_sound; [apply BalInv_init|apply SeqInv_init|apply KInv_init| |]; change (dseq init) with 1; change (mseq init) with 1; lia.
Qed.
