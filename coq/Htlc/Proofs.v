(** * HTLC: lemmas and the invariant of reachable states (C03, C04)

    Part 1: generic facts (association lists, weighted sums over the contract table, coins and
    the ledger).  Part 2: the invariant [Inv] and the two transition shapes ("a contract is
    opened", "an open contract is closed") that preserve it.  Part 3: every operation of the
    model has one of these shapes (or touches only windows / the clock). *)
From Irismod Require Import Htlc.Model.
From Coq Require Import Lia.

Ltac pne := let E := fresh "E" in intro E; inversion E; subst; try congruence; try lia.
Ltac sproj := cbn [st_params st_contracts st_queue st_bank st_supply st_assets st_prev st_height st_time st_log st_win].

(** ** Part 1: generic facts *)
Section AMapMore.
  Context {K V : Type} `{EqDec K}.

  Lemma get_set (k : K) (v : V) (m : amap K V) k' :
    get k' (set k v m) = if eq_dec k' k then Some v else get k' m.
  Proof. destruct (eq_dec k' k) as [->|Hne]; [apply get_set_same|apply get_set_other; exact Hne]. Qed.

  Lemma In_set (k : K) (v : V) (m : amap K V) k' v' :
    In (k', v') (set k v m) -> (k', v') = (k, v) \/ In (k', v') m.
  Proof.
    induction m as [|[k0 v0] m IH]; simpl.
    - intros [E|[]]; left; congruence.
    - destruct (eq_dec k k0) as [->|Hne]; simpl.
      + intros [E|Hin]; [left; congruence|right; right; exact Hin].
      + intros [E|Hin]; [right; left; exact E|].
        destruct (IH Hin) as [E|Hin']; [left; exact E|right; right; exact Hin'].
  Qed.
End AMapMore.

Definition wsum {K : Type} (w : contract -> Z) (m : list (K * contract)) : Z :=
  zsum (map (fun kv => w (snd kv)) m).

Lemma wsum_set {K} `{EqDec K} (w : contract -> Z) (k : K) v (m : amap K contract) :
  wsum w (set k v m) = wsum w m - (match get k m with Some o => w o | None => 0 end) + w v.
Proof.
  unfold wsum. induction m as [|[k0 v0] m IH]; simpl; [lia|].
  destruct (eq_dec k k0) as [->|Hne]; simpl; [lia|]. rewrite IH. lia.
Qed.

Lemma wsum_nonneg {K} (w : contract -> Z) (m : list (K * contract)) :
  (forall k v, In (k, v) m -> 0 <= w v) -> 0 <= wsum w m.
Proof.
  unfold wsum. induction m as [|[k0 v0] m IH]; simpl; intros Hw; [lia|].
  assert (0 <= w v0) by (apply (Hw k0); left; reflexivity).
  assert (0 <= zsum (map (fun kv => w (snd kv)) m)) by (apply IH; intros k v Hin; apply (Hw k); right; exact Hin).
  lia.
Qed.

Lemma wsum_get_le {K} `{EqDec K} (w : contract -> Z) (m : amap K contract) k c :
  (forall k v, In (k, v) m -> 0 <= w v) -> get k m = Some c -> w c <= wsum w m.
Proof.
  induction m as [|[k0 v0] m IH]; simpl; intros Hw Hg; [discriminate|].
  change (w c <= w v0 + wsum w m).
  assert (H0: 0 <= w v0) by (apply (Hw k0); left; reflexivity).
  assert (Hm: forall k v, In (k, v) m -> 0 <= w v) by (intros k1 v1 Hin; apply (Hw k1); right; exact Hin).
  destruct (eq_dec k k0) as [->|Hne].
  - inversion Hg; subst. pose proof (wsum_nonneg w m Hm). lia.
  - pose proof (IH Hm Hg). lia.
Qed.

(** *** coins *)
Definition coins_pos (cs : coins) : Prop := Forall (fun c : denom * Z => 0 < snd c) cs.

Lemma amt_of_nonneg cs d : coins_pos cs -> 0 <= amt_of cs d.
Proof.
  induction 1 as [|[d0 x] cs Hx Hf IH]; simpl in *; [lia|]. destruct (d0 =? d); lia.
Qed.

Lemma coins_valid_pos cs : coins_valid cs = true -> coins_pos cs.
Proof.
  unfold coins_valid. destruct cs as [|c cs]; [discriminate|]. intros Hv.
  apply andb_true_iff in Hv. destruct Hv as [Hv _].
  apply Forall_forall. intros y Hy. rewrite forallb_forall in Hv. apply Z.ltb_lt. apply Hv. exact Hy.
Qed.

(** *** the ledger *)
Lemma send_ok l from to d x : 0 <= x <= bal l from d -> exists l1, send l from to d x = Some l1.
Proof.
  intros Hx. unfold send, debit.
  replace ((0 <=? x) && (x <=? bal l from d)) with true; [eexists; reflexivity|].
  symmetry. apply andb_true_iff. split; apply Z.leb_le; lia.
Qed.

Lemma send_bal l from to d0 x l1 : from <> to -> send l from to d0 x = Some l1 ->
  forall a d, bal l1 a d = bal l a d + (if (a =? to) && (d0 =? d) then x else 0)
                                     - (if (a =? from) && (d0 =? d) then x else 0).
Proof.
  intros Hft Hs a d. destruct (send_Some _ _ _ _ _ _ Hs) as (Hx & Hne & _ & Hoth).
  destruct (Hne Hft) as [Hf Ht].
  destruct (Z.eqb_spec a to) as [Eto|Hato]; destruct (Z.eqb_spec a from) as [Efr|Hafrom];
    destruct (Z.eqb_spec d0 d) as [Ed|Hd]; simpl; subst;
    first [ congruence | rewrite Hf; lia | rewrite Ht; lia | rewrite Hoth by pne; lia ].
Qed.

Lemma send_coins_bal cs : forall l from to l', from <> to -> send_coins l from to cs = Some l' ->
  forall a d, bal l' a d = bal l a d + (if a =? to then amt_of cs d else 0) - (if a =? from then amt_of cs d else 0).
Proof.
  induction cs as [|[d0 x] cs IH]; simpl; intros l from to l' Hft Hs a d.
  - inversion Hs; subst. destruct (a =? to), (a =? from); lia.
  - destruct (send l from to d0 x) as [l1|] eqn:E1; [|discriminate].
    rewrite (IH _ _ _ _ Hft Hs a d). rewrite (send_bal _ _ _ _ _ _ Hft E1 a d).
    destruct (a =? to), (a =? from), (d0 =? d); simpl; lia.
Qed.

Lemma send_coins_ok cs : forall l from to, from <> to -> coins_pos cs ->
  (forall d, amt_of cs d <= bal l from d) -> exists l', send_coins l from to cs = Some l'.
Proof.
  induction cs as [|[d0 x] cs IH]; simpl; intros l from to Hft Hpos Hle; [eexists; reflexivity|].
  inversion Hpos as [|? ? Hx Hpos']; subst. simpl in Hx.
  pose proof (amt_of_nonneg cs d0 Hpos') as Hnn. pose proof (Hle d0) as Hd0. rewrite Z.eqb_refl in Hd0.
  destruct (send_ok l from to d0 x) as [l1 E1]; [lia|]. rewrite E1.
  apply IH; [exact Hft|exact Hpos'|]. intros d.
  rewrite (send_bal _ _ _ _ _ _ Hft E1 from d). rewrite Z.eqb_refl.
  replace (from =? to) with false by (symmetry; apply Z.eqb_neq; exact Hft).
  pose proof (Hle d) as Hd. simpl. destruct (d0 =? d); simpl; lia.
Qed.

Lemma sup_of_set m d v d' : sup_of (set d v m) d' = if d' =? d then v else sup_of m d'.
Proof.
  unfold sup_of. rewrite get_set. destruct (Z.eqb_spec d' d) as [->|Hne].
  - destruct (eq_dec d d); [reflexivity|congruence].
  - destruct (eq_dec d' d); [congruence|reflexivity].
Qed.

Lemma amt_of_single d x d' : amt_of [(d, x)] d' = if d =? d' then x else 0.
Proof. simpl. destruct (d =? d'); lia. Qed.

Lemma get_param_denom P d p : get_param P d = Some p -> ap_denom p = d.
Proof. unfold get_param. intros H. apply find_some in H. destruct H as [_ H]. apply Z.eqb_eq. exact H. Qed.

Lemma get_param_In P p : In p P -> get_param P (ap_denom p) <> None.
Proof.
  unfold get_param. intros Hin Hn. apply (find_none _ _ Hn) in Hin. rewrite Z.eqb_refl in Hin. discriminate.
Qed.

(** ** Part 2: the invariant *)
Definition amt (c : contract) (d : denom) : Z := amt_of (c_amount c) d.
Definition openb (c : contract) : bool := match c_state c with Open => true | _ => false end.
Definition complb (c : contract) : bool := match c_state c with Completed => true | _ => false end.
Definition is_in (c : contract) : bool := c_transfer c && match c_dir c with Incoming => true | _ => false end.
Definition is_out (c : contract) : bool := c_transfer c && match c_dir c with Outgoing => true | _ => false end.
(** does the contract hold coins in escrow while open: ordinary contracts and outgoing transfers *)
Definition locksb (c : contract) : bool := negb (c_transfer c) || is_out c.
Definition w_esc (d : denom) (c : contract) : Z := if openb c && locksb c then amt c d else 0.
Definition w_in (d : denom) (c : contract) : Z := if openb c && is_in c then amt c d else 0.
Definition w_out (d : denom) (c : contract) : Z := if openb c && is_out c then amt c d else 0.
Definition w_cur (d : denom) (c : contract) : Z :=
  if complb c then (if is_in c then amt c d else if is_out c then - amt c d else 0) else 0.

(** a table entry: the id is the pre-image of its fixed fields; positive amounts; the parties are
    not the module accounts; a transfer carries one coin of a supported asset and a direction *)
Definition wfc (P : list aparam) (id : cid) (c : contract) : Prop :=
  id = (c_hl c, c_sender c, c_to c, c_amount c)
  /\ coins_pos (c_amount c)
  /\ c_sender c <> ESC /\ c_sender c <> BLK /\ c_to c <> ESC /\ c_to c <> BLK
  /\ (0 <= c_sender c /\ 0 <= c_to c)
  /\ (if c_transfer c then (exists d x, c_amount c = [(d, x)] /\ get_param P d <> None) /\ c_dir c <> DNone
      else c_dir c = DNone).

Definition ev_id (e : event) : cid :=
  match e with EvLock id _ _ | EvOut id _ _ | EvMint id _ | EvBurn id _ => id end.
Definition ev_for (id : cid) (e : event) : bool := eqb (ev_id e) id.

Definition open_events (id : cid) (c : contract) : list event :=
  if locksb c then [EvLock id (c_sender c) (c_amount c)] else [].
(** the coin movements of closing [c] into state [st], newest first *)
Definition close_events (id : cid) (c : contract) (st : cstate) : list event :=
  match st with
  | Completed => if is_in c then [EvOut id (c_to c) (c_amount c); EvMint id (c_amount c)]
                 else if is_out c then [EvBurn id (c_amount c)]
                 else [EvOut id (c_to c) (c_amount c)]
  | Refunded => if locksb c then [EvOut id (c_sender c) (c_amount c)] else []
  | Open => []
  end.
Definition expected_log (id : cid) (oc : option contract) : list event :=
  match oc with None => [] | Some c => close_events id c (c_state c) ++ open_events id c end.

Definition lim_ok (p : aparam) (a : asup) : Prop :=
  as_cur a + as_in a <= ap_limit p /\ as_out a <= as_cur a /\ 0 <= as_tlc a
  /\ (ap_tl p = true -> as_tlc a + as_in a <= ap_tbl p).

Record Inv (s : state) : Prop := mkInv {
  inv_wfc : forall id c, In (id, c) (st_contracts s) -> wfc (st_params s) id c;
  inv_esc : forall d, bal (st_bank s) ESC d = wsum (w_esc d) (st_contracts s);
  inv_asset : forall d p, get_param (st_params s) d = Some p ->
     exists a, get d (st_assets s) = Some a
       /\ as_in a = wsum (w_in d) (st_contracts s) /\ as_out a = wsum (w_out d) (st_contracts s)
       /\ as_cur a = wsum (w_cur d) (st_contracts s) /\ sup_of (st_supply s) d = as_cur a
       /\ lim_ok p a /\ (ap_tl p = true -> as_tlc a = sup_of (st_win s) d);
  inv_qnodup : NoDup (map snd (st_queue s));
  inv_qopen : forall h id, In (h, id) (st_queue s) ->
     exists c, get id (st_contracts s) = Some c /\ c_state c = Open /\ c_exp c = h;
  inv_openq : forall id c, get id (st_contracts s) = Some c -> c_state c = Open ->
     In (c_exp c, id) (st_queue s) /\ st_height s <= c_exp c;
  inv_log : forall id, filter (ev_for id) (st_log s) = expected_log id (get id (st_contracts s));
  inv_keys : NoDup (keys (st_contracts s)) }.

(** "contract [c] is opened under the fresh id [id]" *)
Record open_rel (s s' : state) (id : cid) (c : contract) : Prop := mkOpenRel {
  or_params : st_params s' = st_params s;
  or_height : st_height s' = st_height s;
  or_fresh : get id (st_contracts s) = None;
  or_open : c_state c = Open;
  or_wfc : wfc (st_params s) id c;
  or_exp : st_height s <= c_exp c;
  or_contracts : st_contracts s' = set id c (st_contracts s);
  or_queue : st_queue s' = (c_exp c, id) :: st_queue s;
  or_esc : forall d, bal (st_bank s') ESC d = bal (st_bank s) ESC d + w_esc d c;
  or_asset : forall d p a, get_param (st_params s) d = Some p -> get d (st_assets s) = Some a ->
     exists a', get d (st_assets s') = Some a'
       /\ as_in a' = as_in a + w_in d c /\ as_out a' = as_out a + w_out d c /\ as_cur a' = as_cur a
       /\ as_tlc a' = as_tlc a /\ lim_ok p a';
  or_supply : st_supply s' = st_supply s;
  or_win : st_win s' = st_win s;
  or_log : st_log s' = open_events id c ++ st_log s }.

(** "the open contract [c] under [id] is closed into state [st]" *)
Record close_rel (s s' : state) (id : cid) (c : contract) (st : cstate) : Prop := mkCloseRel {
  cr_params : st_params s' = st_params s;
  cr_height : st_height s' = st_height s;
  cr_get : get id (st_contracts s) = Some c;
  cr_open : c_state c = Open;
  cr_st : st <> Open;
  cr_contracts : st_contracts s' = set id (close c st (st_height s)) (st_contracts s);
  cr_queue : st_queue s' = filter (fun e => negb (eqb e (c_exp c, id))) (st_queue s);
  cr_esc : forall d, bal (st_bank s') ESC d = bal (st_bank s) ESC d - w_esc d c;
  cr_asset : forall d p a, get_param (st_params s) d = Some p -> get d (st_assets s) = Some a ->
     exists a', get d (st_assets s') = Some a'
       /\ as_in a' = as_in a - w_in d c /\ as_out a' = as_out a - w_out d c
       /\ as_cur a' = as_cur a + w_cur d (close c st (st_height s))
       /\ sup_of (st_supply s') d = sup_of (st_supply s) d + w_cur d (close c st (st_height s))
       /\ lim_ok p a'
       /\ (ap_tl p = true -> as_tlc a' - as_tlc a = sup_of (st_win s') d - sup_of (st_win s) d);
  cr_log : st_log s' = close_events id c st ++ st_log s }.

Lemma open_w_cur d c : c_state c = Open -> w_cur d c = 0.
Proof. intros H. unfold w_cur, complb. rewrite H. reflexivity. Qed.

Lemma closed_w d c st h : st <> Open ->
  w_esc d (close c st h) = 0 /\ w_in d (close c st h) = 0 /\ w_out d (close c st h) = 0.
Proof. intros H. unfold w_esc, w_in, w_out, openb. cbn. destruct st; [congruence| |]; auto. Qed.

Lemma filter_ev_same id l : (forall e, In e l -> ev_id e = id) -> filter (ev_for id) l = l.
Proof.
  induction l as [|e l IH]; simpl; intros H; [reflexivity|].
  unfold ev_for at 1. rewrite (H e) by (left; reflexivity). rewrite eqb_refl.
  f_equal. apply IH. intros e' Hin. apply H. right. exact Hin.
Qed.

Lemma filter_ev_other id id' l : id' <> id -> (forall e, In e l -> ev_id e = id) -> filter (ev_for id') l = [].
Proof.
  intros Hne. induction l as [|e l IH]; simpl; intros H; [reflexivity|].
  unfold ev_for at 1. rewrite (H e) by (left; reflexivity).
  replace (eqb id id') with false by (symmetry; apply eqb_false_iff; congruence).
  apply IH. intros e' Hin. apply H. right. exact Hin.
Qed.

Lemma open_events_id id c e : In e (open_events id c) -> ev_id e = id.
Proof. unfold open_events. destruct (locksb c); simpl; [intros [<-|[]]; reflexivity|tauto]. Qed.

Lemma close_events_id id c st e : In e (close_events id c st) -> ev_id e = id.
Proof.
  unfold close_events. destruct st; simpl; [tauto| |].
  - destruct (is_in c); [|destruct (is_out c)]; simpl; intuition (subst; reflexivity).
  - destruct (locksb c); simpl; intuition (subst; reflexivity).
Qed.

Lemma NoDup_map_filter {A B} (f : A -> B) (p : A -> bool) l : NoDup (map f l) -> NoDup (map f (filter p l)).
Proof.
  induction l as [|x l IH]; simpl; intros H; [constructor|].
  inversion H as [|? ? Hnin Hnd]; subst. destruct (p x); simpl; [|auto].
  constructor; [|auto]. intros Hin. apply Hnin.
  apply in_map_iff in Hin. destruct Hin as (y & Hy & Hin). apply filter_In in Hin.
  apply in_map_iff. exists y. tauto.
Qed.

Lemma open_rel_inv s s' id c : Inv s -> open_rel s s' id c -> Inv s'.
Proof.
  intros I R. destruct R. constructor.
  - intros id' c' Hin. rewrite or_contracts0 in Hin. rewrite or_params0.
    destruct (In_set _ _ _ _ _ Hin) as [E|Hin']; [inversion E; subst; exact or_wfc0|exact (inv_wfc _ I _ _ Hin')].
  - intros d. rewrite or_esc0, or_contracts0, wsum_set, or_fresh0, (inv_esc _ I). lia.
  - intros d p Hp. rewrite or_params0 in Hp.
    destruct (inv_asset _ I d p Hp) as (a & Ha & Hin & Hout & Hcur & Hsup & Hlim & Hwin).
    destruct (or_asset0 d p a Hp Ha) as (a' & Ha' & Hin' & Hout' & Hcur' & Htlc' & Hlim').
    exists a'. rewrite or_contracts0, !wsum_set, or_fresh0, or_supply0, or_win0, (open_w_cur d c or_open0).
    split; [exact Ha'|]. split; [lia|]. split; [lia|]. split; [lia|]. split; [lia|]. split; [exact Hlim'|].
    intros Htl. rewrite Htlc'. exact (Hwin Htl).
  - rewrite or_queue0. simpl. constructor; [|exact (inv_qnodup _ I)].
    intros Hin. apply in_map_iff in Hin. destruct Hin as ([h id0] & E & Hin). simpl in E. subst id0.
    destruct (inv_qopen _ I _ _ Hin) as (c0 & Hg & _). congruence.
  - intros h id' Hin. rewrite or_queue0 in Hin. rewrite or_contracts0. destruct Hin as [E|Hin].
    + inversion E; subst. exists c. rewrite get_set_same. auto.
    + destruct (inv_qopen _ I _ _ Hin) as (c0 & Hg & Ho & He). exists c0.
      rewrite get_set_other by congruence. auto.
  - intros id' c' Hg Ho. rewrite or_contracts0, get_set in Hg. rewrite or_queue0, or_height0.
    destruct (eq_dec id' id) as [->|Hne].
    + inversion Hg; subst. split; [left; reflexivity|exact or_exp0].
    + destruct (inv_openq _ I _ _ Hg Ho). split; [right; assumption|assumption].
  - intros id'. rewrite or_log0, filter_app, (inv_log _ I), or_contracts0, get_set.
    destruct (eq_dec id' id) as [->|Hne].
    + rewrite or_fresh0. rewrite (filter_ev_same id _ (open_events_id id c)). simpl.
      rewrite or_open0. simpl. rewrite app_nil_r. reflexivity.
    + rewrite (filter_ev_other id id' _ Hne (open_events_id id c)). reflexivity.
  - rewrite or_contracts0. apply keys_set_NoDup. exact (inv_keys _ I).
Qed.

Lemma close_rel_inv s s' id c st : Inv s -> close_rel s s' id c st -> Inv s'.
Proof.
  intros I R. destruct R.
  pose proof (closed_w) as CW.
  constructor.
  - intros id' c' Hin. rewrite cr_contracts0 in Hin. rewrite cr_params0.
    destruct (In_set _ _ _ _ _ Hin) as [E|Hin']; [|exact (inv_wfc _ I _ _ Hin')].
    inversion E; subst. exact (inv_wfc _ I _ _ (get_In _ _ _ cr_get0)).
  - intros d. destruct (CW d c st (st_height s) cr_st0) as (E1 & _ & _).
    rewrite cr_esc0, cr_contracts0, wsum_set, cr_get0, (inv_esc _ I), E1. lia.
  - intros d p Hp. rewrite cr_params0 in Hp.
    destruct (CW d c st (st_height s) cr_st0) as (_ & E2 & E3).
    destruct (inv_asset _ I d p Hp) as (a & Ha & Hin & Hout & Hcur & Hsup & Hlim & Hwin).
    destruct (cr_asset0 d p a Hp Ha) as (a' & Ha' & Hin' & Hout' & Hcur' & Hsup' & Hlim' & Hwin').
    exists a'. rewrite cr_contracts0, !wsum_set, cr_get0, E2, E3, (open_w_cur d c cr_open0).
    split; [exact Ha'|]. split; [lia|]. split; [lia|]. split; [lia|]. split; [lia|]. split; [exact Hlim'|].
    intros Htl. pose proof (Hwin Htl). pose proof (Hwin' Htl). lia.
  - rewrite cr_queue0. apply NoDup_map_filter. exact (inv_qnodup _ I).
  - intros h id' Hin. rewrite cr_queue0 in Hin. apply filter_In in Hin. destruct Hin as [Hin Hne].
    destruct (inv_qopen _ I _ _ Hin) as (c0 & Hg & Ho & He). exists c0. rewrite cr_contracts0.
    rewrite get_set_other; [auto|]. intros ->. rewrite cr_get0 in Hg. inversion Hg; subst.
    rewrite eqb_refl in Hne. discriminate.
  - intros id' c' Hg Ho. rewrite cr_contracts0, get_set in Hg. rewrite cr_queue0, cr_height0.
    destruct (eq_dec id' id) as [->|Hne].
    + inversion Hg; subst. cbn in Ho. congruence.
    + destruct (inv_openq _ I _ _ Hg Ho) as [Hq Hh]. split; [|exact Hh].
      apply filter_In. split; [exact Hq|]. apply negb_true_iff. apply eqb_false_iff. congruence.
  - intros id'. rewrite cr_log0, filter_app, (inv_log _ I), cr_contracts0, get_set.
    destruct (eq_dec id' id) as [->|Hne].
    + rewrite cr_get0. rewrite (filter_ev_same id _ (close_events_id id c st)). simpl.
      rewrite cr_open0. reflexivity.
    + rewrite (filter_ev_other id id' _ Hne (close_events_id id c st)). reflexivity.
  - rewrite cr_contracts0. apply keys_set_NoDup. exact (inv_keys _ I).
Qed.

(** ** Part 3: the operations *)

(** [compat_b] (Model.v): a parameter change is compatible with the current usage *)
(** well-formedness of an operation IN A STATE: the signer of a create message is not a module account
    (module accounts cannot sign); an accepted parameter change is compatible with the current usage *)
Definition wf_op (s : state) (o : op) : Prop :=
  match o with
  | Create m => m_sender m <> ESC /\ m_sender m <> BLK
  | SetParams who P' => step_ok s o = true -> compat_b s P' = true
  | _ => True
  end.

(** ... along a history *)
Fixpoint wf_run (s : state) (ops : list op) : Prop :=
  match ops with [] => True | o :: rest => wf_op s o /\ wf_run (step s o) rest end.

Lemma with_asset_Some s d f s1 : with_asset s d f = Some s1 ->
  exists a p a', get d (st_assets s) = Some a /\ get_param (st_params s) d = Some p /\ f p a = Some a'
    /\ s1 = mkSt (st_params s) (st_contracts s) (st_queue s) (st_bank s) (st_supply s)
                 (set d a' (st_assets s)) (st_prev s) (st_height s) (st_time s) (st_log s) (st_win s).
Proof.
  unfold with_asset. destruct (get d (st_assets s)) as [a|]; [|discriminate].
  destruct (get_param (st_params s) d) as [p|]; [|discriminate].
  destruct (f p a) as [a'|] eqn:Hf; [|discriminate].
  intros H; inversion H. exists a, p, a'. auto.
Qed.

Lemma with_supply_Some s d f s1 : with_supply s d f = Some s1 ->
  exists a a', get d (st_assets s) = Some a /\ f no_param a = Some a'
    /\ s1 = mkSt (st_params s) (st_contracts s) (st_queue s) (st_bank s) (st_supply s)
                 (set d a' (st_assets s)) (st_prev s) (st_height s) (st_time s) (st_log s) (st_win s).
Proof.
  unfold with_supply. destruct (get d (st_assets s)) as [a|]; [|discriminate].
  destruct (f no_param a) as [a'|] eqn:Hf; [|discriminate].
  intros H; inversion H. exists a, a'. auto.
Qed.

Lemma with_supply_ok s d f a a' : get d (st_assets s) = Some a -> f no_param a = Some a' ->
  with_supply s d f = Some (mkSt (st_params s) (st_contracts s) (st_queue s) (st_bank s) (st_supply s)
                                (set d a' (st_assets s)) (st_prev s) (st_height s) (st_time s) (st_log s) (st_win s)).
Proof. intros Ha Hf. unfold with_supply. rewrite Ha, Hf. reflexivity. Qed.

Lemma inv_lim s d p a : Inv s -> get_param (st_params s) d = Some p -> get d (st_assets s) = Some a -> lim_ok p a.
Proof.
  intros I Hp Ha. destruct (inv_asset _ I d p Hp) as (a0 & Ha0 & _ & _ & _ & _ & Hl & _).
  rewrite Ha in Ha0. inversion Ha0; subst. exact Hl.
Qed.

Lemma create_htlt_Some s m s1 dr : create_htlt s m = Some (s1, dr) ->
  exists d x p, m_amount m = [(d, x)] /\ get_param (st_params s) d = Some p /\
   ((dr = Incoming /\ with_asset s d (inc_incoming x) = Some s1) \/
    (dr = Outgoing /\ exists s0, with_asset s d (inc_outgoing x) = Some s0
                       /\ lock_coins s0 (id_of m) (m_sender m) [(d, x)] = Some s1)).
Proof.
  unfold create_htlt. destruct (m_amount m) as [|[d x] [|c2 cs]] eqn:Ham; try discriminate.
  destruct (get_param (st_params s) d) as [p|] eqn:Hp; [|discriminate].
  destruct (negb (ap_active p)); [discriminate|].
  destruct ((x <? ap_min p) || (ap_max p <? x)); [discriminate|].
  destruct ((m_ts m <? unix (st_time s - 900 * ns)) || (unix (st_time s + 1800 * ns) <=? m_ts m)); [discriminate|].
  destruct (m_sender m =? ap_deputy p).
  - destruct (m_to m =? ap_deputy p); [discriminate|].
    destruct (with_asset s d (inc_incoming x)) as [s1'|] eqn:Hw; [|discriminate].
    intros H; inversion H; subst. exists d, x, p. auto.
  - destruct (negb (m_to m =? ap_deputy p)); [discriminate|].
    destruct ((m_lock m <? ap_minlock p) || (ap_maxlock p <? m_lock m)); [discriminate|].
    destruct (x <? ap_fee p + ap_min p); [discriminate|].
    destruct (with_asset s d (inc_outgoing x)) as [s0|] eqn:Hw; [|discriminate].
    destruct (lock_coins s0 (id_of m) (m_sender m) [(d, x)]) as [s2|] eqn:Hl; [|discriminate].
    intros H; inversion H; subst. exists d, x, p. split; [reflexivity|]. split; [exact Hp|].
    right. split; [reflexivity|]. exists s0. auto.
Qed.

Lemma create_basic_facts m : create_basic m = true ->
  coins_pos (m_amount m) /\ 50 <= m_lock m.
Proof.
  unfold create_basic. intros H.
  apply andb_true_iff in H. destruct H as [H _].
  apply andb_true_iff in H. destruct H as [H H5].
  apply andb_true_iff in H. destruct H as [_ H4].
  split; [exact (coins_valid_pos _ H4)|]. unfold MinTimeLock in H5. apply Z.leb_le in H5. exact H5.
Qed.

Lemma create_basic_addrs m : create_basic m = true -> 0 <= m_sender m /\ 0 <= m_to m.
Proof.
  unfold create_basic, addr_ok. intros H.
  apply andb_true_iff in H. destruct H as [H _].
  apply andb_true_iff in H. destruct H as [H _].
  apply andb_true_iff in H. destruct H as [H _].
  apply andb_true_iff in H. destruct H as [H _].
  apply andb_true_iff in H. destruct H as [H1 H2]. apply Z.leb_le in H1, H2. auto.
Qed.

Definition new_contract (s : state) (m : create_msg) (dr : dir) : contract :=
  mkC (m_sender m) (m_to m) (m_amount m) (m_hl m) (m_ts m) (st_height s + m_lock m) Open 0 (m_transfer m) dr.

Lemma create_open_rel s m s' : Inv s -> wf_op s (Create m) -> create s m = Some s' ->
  exists dr, open_rel s s' (id_of m) (new_contract s m dr).
Proof.
  intros I (Hs1 & Hs2). unfold create.
  destruct (negb (create_basic m)) eqn:Hb; [discriminate|]. apply negb_false_iff in Hb.
  destruct (create_basic_facts m Hb) as [Hpos Hlock]. pose proof (create_basic_addrs m Hb) as Hrng.
  destruct (blocked (m_to m)) eqn:Hbl; [discriminate|].
  assert (Ht2 : m_to m <> BLK) by (unfold blocked in Hbl; apply Z.eqb_neq; exact Hbl).
  destruct (m_to m =? ESC) eqn:Hte; [discriminate|].
  assert (Ht1 : m_to m <> ESC) by (apply Z.eqb_neq; exact Hte).
  cbv zeta. destruct (has (id_of m) (st_contracts s)) eqn:Hhas; [discriminate|].
  assert (Hfresh : get (id_of m) (st_contracts s) = None)
    by (unfold has in Hhas; destruct (get (id_of m) (st_contracts s)); [discriminate|reflexivity]).
  assert (Hesc : (ESC =? m_sender m) = false) by (apply Z.eqb_neq; congruence).
  unfold new_contract.
  destruct (m_transfer m) eqn:Htr.
  - (* transfer *)
    destruct (create_htlt s m) as [[s1 dr]|] eqn:Hh; [|discriminate]. intros H; inversion H; subst s'; clear H.
    exists dr. destruct (create_htlt_Some _ _ _ _ Hh) as (d & x & p & Ham & Hp & [[-> Hw]|[-> (s0 & Hw & Hl)]]).
    + (* incoming *)
      destruct (with_asset_Some _ _ _ _ Hw) as (a & p' & a' & Ha & Hp' & Hf & ->).
      rewrite Hp in Hp'. inversion Hp'; subst p'; clear Hp'.
      pose proof (inv_lim _ _ _ _ I Hp Ha) as (L1 & L2 & L3 & L4).
      unfold inc_incoming in Hf.
      destruct (ap_limit p <? as_cur a + as_in a + x) eqn:C1; [discriminate|].
      destruct (ap_tl p && (ap_tbl p <? as_tlc a + as_in a + x)) eqn:C2; [discriminate|].
      inversion Hf; subst a'; clear Hf. apply Z.ltb_ge in C1.
      unfold add_contract, set_bank_log; constructor; sproj; try reflexivity; try assumption.
      * unfold wfc. cbn. split; [unfold id_of; reflexivity|]. split; [exact Hpos|]. split; [exact Hs1|].
        split; [exact Hs2|]. split; [exact Ht1|]. split; [exact Ht2|]. split; [exact Hrng|].
        split; [exists d, x; split; [exact Ham|congruence]|discriminate].
      * cbn. lia.
      * intros d0. unfold w_esc. cbn. lia.
      * intros d0 p0 a0 Hp0 Ha0. rewrite get_set. unfold w_in, w_out, amt. cbn. rewrite Ham.
        destruct (eq_dec d0 d) as [->|Hne].
        -- rewrite Hp in Hp0. rewrite Ha in Ha0. inversion Hp0; inversion Ha0; subst.
           eexists; split; [reflexivity|]. cbn. rewrite Z.eqb_refl. unfold lim_ok. cbn.
           repeat split; try lia. intros Htl. rewrite Htl in C2. cbn in C2. apply Z.ltb_ge in C2. lia.
        -- exists a0. split; [exact Ha0|]. cbn.
           replace (d =? d0) with false by (symmetry; apply Z.eqb_neq; congruence).
           split; [lia|]. split; [lia|]. split; [lia|]. split; [lia|]. exact (inv_lim _ _ _ _ I Hp0 Ha0).
    + (* outgoing *)
      destruct (with_asset_Some _ _ _ _ Hw) as (a & p' & a' & Ha & Hp' & Hf & ->).
      rewrite Hp in Hp'. inversion Hp'; subst p'; clear Hp'.
      pose proof (inv_lim _ _ _ _ I Hp Ha) as (L1 & L2 & L3 & L4).
      unfold inc_outgoing in Hf.
      destruct (as_cur a <? as_out a + x) eqn:C1; [discriminate|].
      inversion Hf; subst a'; clear Hf. apply Z.ltb_ge in C1.
      unfold lock_coins in Hl. sproj. cbn [st_bank] in Hl.
      destruct (send_coins (st_bank s) (m_sender m) ESC [(d, x)]) as [l'|] eqn:Hsend; [|discriminate].
      inversion Hl; subst s1; clear Hl.
      unfold add_contract, set_bank_log; constructor; sproj; try reflexivity; try assumption.
      * unfold wfc. cbn. split; [unfold id_of; reflexivity|]. split; [exact Hpos|]. split; [exact Hs1|].
        split; [exact Hs2|]. split; [exact Ht1|]. split; [exact Ht2|]. split; [exact Hrng|].
        split; [exists d, x; split; [exact Ham|congruence]|discriminate].
      * cbn. lia.
      * intros d0. cbn. rewrite (send_coins_bal _ _ _ _ _ Hs1 Hsend ESC d0). rewrite Z.eqb_refl, Hesc.
        unfold w_esc, amt. rewrite ?Ham. cbn. lia.
      * intros d0 p0 a0 Hp0 Ha0. cbn. rewrite get_set. unfold w_in, w_out, amt. cbn. rewrite Ham.
        destruct (eq_dec d0 d) as [->|Hne].
        -- rewrite Hp in Hp0. rewrite Ha in Ha0. inversion Hp0; inversion Ha0; subst.
           eexists; split; [reflexivity|]. cbn. rewrite Z.eqb_refl. unfold lim_ok. cbn.
           repeat split; try lia. exact L4.
        -- exists a0. split; [exact Ha0|]. cbn.
           replace (d =? d0) with false by (symmetry; apply Z.eqb_neq; congruence).
           split; [lia|]. split; [lia|]. split; [lia|]. split; [lia|]. exact (inv_lim _ _ _ _ I Hp0 Ha0).
      * cbn. unfold open_events. cbn. rewrite Ham. reflexivity.
  - (* ordinary contract *)
    unfold lock_coins.
    destruct (send_coins (st_bank s) (m_sender m) ESC (m_amount m)) as [l'|] eqn:Hsend; [|discriminate].
    intros H; inversion H; subst s'; clear H. exists DNone.
    unfold add_contract, set_bank_log; constructor; sproj; try reflexivity; try assumption.
    + unfold wfc. cbn. split; [unfold id_of; reflexivity|]. split; [exact Hpos|]. split; [exact Hs1|].
      split; [exact Hs2|]. split; [exact Ht1|]. split; [exact Ht2|]. split; [exact Hrng|]. reflexivity.
    + cbn. lia.
    + intros d0. cbn. rewrite (send_coins_bal _ _ _ _ _ Hs1 Hsend ESC d0). rewrite Z.eqb_refl, Hesc.
      unfold w_esc, amt. cbn. lia.
    + intros d0 p0 a0 Hp0 Ha0. cbn. exists a0. split; [exact Ha0|]. unfold w_in, w_out. cbn.
      split; [lia|]. split; [lia|]. split; [lia|]. split; [lia|]. exact (inv_lim _ _ _ _ I Hp0 Ha0).
Qed.

Lemma w_nonneg s : Inv s -> forall d k v, In (k, v) (st_contracts s) ->
  0 <= w_esc d v /\ 0 <= w_in d v /\ 0 <= w_out d v.
Proof.
  intros I d k v Hin. destruct (inv_wfc _ I _ _ Hin) as (_ & Hpos & _).
  pose proof (amt_of_nonneg _ d Hpos) as Hnn. unfold w_esc, w_in, w_out, amt.
  destruct (openb v && locksb v), (openb v && is_in v), (openb v && is_out v); lia.
Qed.

Lemma esc_ge s id c d : Inv s -> get id (st_contracts s) = Some c -> w_esc d c <= bal (st_bank s) ESC d.
Proof.
  intros I Hg. rewrite (inv_esc _ I). apply (wsum_get_le (w_esc d) _ id c); [|exact Hg].
  intros k v Hin. apply (w_nonneg _ I d k v Hin).
Qed.

Lemma esc_nonneg s d : Inv s -> 0 <= bal (st_bank s) ESC d.
Proof.
  intros I. rewrite (inv_esc _ I). apply wsum_nonneg. intros k v Hin. apply (w_nonneg _ I d k v Hin).
Qed.

Lemma in_out_ge s id c d p a : Inv s -> get id (st_contracts s) = Some c ->
  get_param (st_params s) d = Some p -> get d (st_assets s) = Some a ->
  w_in d c <= as_in a /\ w_out d c <= as_out a.
Proof.
  intros I Hg Hp Ha. destruct (inv_asset _ I d p Hp) as (a0 & Ha0 & Hin & Hout & _).
  rewrite Ha in Ha0. inversion Ha0; subst a0. rewrite Hin, Hout. split.
  - apply (wsum_get_le (w_in d) _ id c); [|exact Hg]. intros k v Hi. apply (w_nonneg _ I d k v Hi).
  - apply (wsum_get_le (w_out d) _ id c); [|exact Hg]. intros k v Hi. apply (w_nonneg _ I d k v Hi).
Qed.

Lemma with_asset_ok s d f a p a' : get d (st_assets s) = Some a -> get_param (st_params s) d = Some p ->
  f p a = Some a' ->
  with_asset s d f = Some (mkSt (st_params s) (st_contracts s) (st_queue s) (st_bank s) (st_supply s)
                                (set d a' (st_assets s)) (st_prev s) (st_height s) (st_time s) (st_log s) (st_win s)).
Proof. intros Ha Hp Hf. unfold with_asset. rewrite Ha, Hp, Hf. reflexivity. Qed.

Definition close_body (s : state) (id : cid) (c : contract) : option state :=
  if c_transfer c then claim_htlt s id c else pay_out s id (c_to c) (c_amount c).

(** in a reachable state the body of a claim on an open contract always succeeds, and the claim
    has the closing shape *)
Lemma claim_complete s id c : Inv s -> get id (st_contracts s) = Some c -> c_state c = Open ->
  exists s1, close_body s id c = Some s1
    /\ close_rel s (dequeue (set_contract s1 id (close c Completed (st_height s))) (c_exp c) id) id c Completed.
Proof.
  intros I Hg Ho.
  destruct (inv_wfc _ I _ _ (get_In _ _ _ Hg)) as (Hid & Hpos & Hs1 & Hs2 & Ht1 & Ht2 & Hrng & Hkind).
  assert (Hbl : blocked (c_to c) = false) by (unfold blocked; apply Z.eqb_neq; exact Ht2).
  assert (Hescto : (ESC =? c_to c) = false) by (apply Z.eqb_neq; congruence).
  assert (Hne : ESC <> c_to c) by congruence.
  unfold close_body. destruct (c_transfer c) eqn:Htr.
  - destruct Hkind as [(d & x & Ham & Hpn) Hdir].
    destruct (get_param (st_params s) d) as [p|] eqn:Hp; [clear Hpn|congruence].
    destruct (inv_asset _ I d p Hp) as (a & Ha & Hain & Haout & Hacur & Hasup & (L1 & L2 & L3 & L4) & Hawin).
    destruct (in_out_ge _ _ _ d p a I Hg Hp Ha) as [Gin Gout].
    pose proof (esc_ge _ _ _ d I Hg) as Gesc. pose proof (esc_nonneg _ d I) as Gnn.
    assert (Hx : 0 < x) by (rewrite Ham in Hpos; inversion Hpos; assumption).
    unfold w_in, w_out, w_esc, locksb, is_in, is_out, openb, amt in Gin, Gout, Gesc.
    rewrite Ho, Htr, Ham in Gin, Gout, Gesc. cbn in Gin, Gout, Gesc. rewrite Z.eqb_refl in Gin, Gout, Gesc.
    unfold claim_htlt. rewrite Ham.
    destruct (c_dir c) eqn:Hd; [congruence| |].
    + (* incoming: decrement incoming, increment current, mint, pay the recipient *)
      cbn in Gin.
      assert (F1 : dec_incoming x no_param a = Some (mkAS (as_in a - x) (as_out a) (as_cur a) (as_tlc a) (as_el a))).
      { unfold dec_incoming. replace (as_in a - x <? 0) with false by (symmetry; apply Z.ltb_ge; lia). reflexivity. }
      rewrite (with_supply_ok _ _ _ _ _ Ha F1).
      set (a1 := mkAS (as_in a - x) (as_out a) (as_cur a) (as_tlc a) (as_el a)).
      set (a2 := mkAS (as_in a - x) (as_out a) (as_cur a + x) (if ap_tl p then as_tlc a + x else as_tlc a) (as_el a)).
      assert (F2 : inc_current x p a1 = Some a2).
      { unfold inc_current, a1, a2. cbn.
        replace (ap_limit p <? as_cur a + x) with false by (symmetry; apply Z.ltb_ge; lia).
        destruct (ap_tl p) eqn:Htl; [|reflexivity].
        pose proof (L4 eq_refl).
        replace (ap_tbl p <? as_tlc a + x) with false by (symmetry; apply Z.ltb_ge; lia). reflexivity. }
      match goal with |- context [with_asset ?s1 d (inc_current x)] =>
        rewrite (with_asset_ok s1 d (inc_current x) a1 p a2 (get_set_same _ _ _) Hp F2) end.
      unfold pay_out. rewrite Hbl. unfold add_win, mint, set_bank_log. sproj. cbn [credit_coins].
      destruct (send_coins_ok [(d, x)] (credit (st_bank s) ESC d x) ESC (c_to c) Hne) as [l' Hsend].
      { rewrite <- Ham. exact Hpos. }
      { intros d0. cbn. destruct (Z.eqb_spec d d0) as [->|Hdd].
        - rewrite bal_credit_same. lia.
        - rewrite bal_credit_other by pne. pose proof (esc_nonneg _ d0 I). lia. }
      rewrite Hsend. eexists. split; [reflexivity|].
      unfold dequeue, set_contract. constructor; sproj; try reflexivity; try assumption; try discriminate.
      * intros d0. rewrite (send_coins_bal _ _ _ _ _ Hne Hsend ESC d0). rewrite Z.eqb_refl, Hescto.
        unfold w_esc, locksb, is_out. rewrite Htr, Hd. cbn. rewrite andb_false_r.
        destruct (Z.eqb_spec d d0) as [->|Hdd].
        -- rewrite bal_credit_same. lia.
        -- rewrite bal_credit_other by pne. lia.
      * intros d0 p0 a0 Hp0 Ha0. rewrite !get_set. cbn [sup_add]. rewrite !sup_of_set. rewrite Z.mul_1_l.
        unfold w_in, w_out, w_cur, complb, is_in, is_out, openb, amt. cbn. rewrite Ho, Htr, Hd, Ham. cbn.
        destruct (eq_dec d0 d) as [->|Hdd].
        -- rewrite Hp in Hp0. rewrite Ha in Ha0. inversion Hp0; inversion Ha0; subst p0 a0.
           exists a2. split; [reflexivity|]. rewrite !Z.eqb_refl. unfold a2, lim_ok. cbn.
           split; [lia|]. split; [lia|]. split; [lia|]. split; [lia|].
           split; [destruct (ap_tl p); repeat split; try lia; intros; try lia; discriminate|].
           intros Htl. rewrite Htl. lia.
        -- exists a0. split; [exact Ha0|].
           replace (d =? d0) with false by (symmetry; apply Z.eqb_neq; congruence).
           replace (d0 =? d) with false by (symmetry; apply Z.eqb_neq; congruence).
           split; [lia|]. split; [lia|]. split; [lia|]. split; [lia|].
           split; [exact (inv_lim _ _ _ _ I Hp0 Ha0)|]. intros; lia.
      * unfold close_events, is_in. rewrite Htr, Hd, Ham. reflexivity.
    + (* outgoing: decrement outgoing and current, burn *)
      cbn in Gout, Gesc.
      assert (F1 : dec_outgoing x no_param a = Some (mkAS (as_in a) (as_out a - x) (as_cur a) (as_tlc a) (as_el a))).
      { unfold dec_outgoing. replace (as_out a - x <? 0) with false by (symmetry; apply Z.ltb_ge; lia). reflexivity. }
      rewrite (with_supply_ok _ _ _ _ _ Ha F1).
      set (a1 := mkAS (as_in a) (as_out a - x) (as_cur a) (as_tlc a) (as_el a)).
      set (a2 := mkAS (as_in a) (as_out a - x) (as_cur a - x) (as_tlc a) (as_el a)).
      assert (F2 : dec_current x no_param a1 = Some a2).
      { unfold dec_current, a1, a2. cbn.
        replace (as_cur a - x <? 0) with false by (symmetry; apply Z.ltb_ge; lia). reflexivity. }
      match goal with |- context [with_supply ?s1 d (dec_current x)] =>
        rewrite (with_supply_ok s1 d (dec_current x) a1 a2 (get_set_same _ _ _) F2) end.
      unfold burn, set_bank_log. sproj. cbn [debit_coins]. unfold debit.
      replace ((0 <=? x) && (x <=? bal (st_bank s) ESC d)) with true
        by (symmetry; apply andb_true_iff; split; apply Z.leb_le; lia).
      eexists. split; [reflexivity|].
      unfold dequeue, set_contract. constructor; sproj; try reflexivity; try assumption; try discriminate.
      * intros d0. unfold w_esc, locksb, is_out, openb, amt. rewrite Ho, Htr, Hd, Ham. cbn.
        destruct (Z.eqb_spec d d0) as [->|Hdd].
        -- unfold bal at 1. rewrite get_set_same. lia.
        -- unfold bal at 1. rewrite get_set_other by pne. fold (bal (st_bank s) ESC d0). lia.
      * intros d0 p0 a0 Hp0 Ha0. rewrite !get_set. cbn [sup_add]. rewrite !sup_of_set. replace (-1 * x) with (- x) by lia.
        unfold w_in, w_out, w_cur, complb, is_in, is_out, openb, amt. cbn. rewrite Ho, Htr, Hd, Ham. cbn.
        destruct (eq_dec d0 d) as [->|Hdd].
        -- rewrite Hp in Hp0. rewrite Ha in Ha0. inversion Hp0; inversion Ha0; subst p0 a0.
           exists a2. split; [reflexivity|]. rewrite !Z.eqb_refl. unfold a2, lim_ok. cbn.
           split; [lia|]. split; [lia|]. split; [lia|]. split; [lia|].
           split; [repeat split; try lia; exact L4|]. intros; lia.
        -- exists a0. split; [exact Ha0|].
           replace (d =? d0) with false by (symmetry; apply Z.eqb_neq; congruence).
           replace (d0 =? d) with false by (symmetry; apply Z.eqb_neq; congruence).
           split; [lia|]. split; [lia|]. split; [lia|]. split; [lia|].
           split; [exact (inv_lim _ _ _ _ I Hp0 Ha0)|]. intros; lia.
      * unfold close_events, is_in, is_out. rewrite Htr, Hd, Ham. reflexivity.
  - (* ordinary contract: pay the recipient out of escrow *)
    unfold pay_out. rewrite Hbl.
    destruct (send_coins_ok (c_amount c) (st_bank s) ESC (c_to c) Hne Hpos) as [l' Hsend].
    { intros d0. pose proof (esc_ge _ _ _ d0 I Hg) as G. unfold w_esc, locksb, openb, amt in G.
      rewrite Ho, Htr in G. exact G. }
    rewrite Hsend. eexists. split; [reflexivity|].
    unfold dequeue, set_contract, set_bank_log. constructor; sproj; try reflexivity; try assumption; try discriminate.
    + intros d0. rewrite (send_coins_bal _ _ _ _ _ Hne Hsend ESC d0). rewrite Z.eqb_refl, Hescto.
      unfold w_esc, locksb, openb, amt. rewrite Ho, Htr. cbn. lia.
    + intros d0 p0 a0 Hp0 Ha0. exists a0. split; [exact Ha0|].
      unfold w_in, w_out, w_cur, complb, is_in, is_out. cbn. rewrite Htr. cbn. rewrite !andb_false_r.
      split; [lia|]. split; [lia|]. split; [lia|]. split; [lia|].
      split; [exact (inv_lim _ _ _ _ I Hp0 Ha0)|]. intros; lia.
    + unfold close_events, is_in, is_out. rewrite Htr. reflexivity.
Qed.

(** in a reachable state the refund of an open contract never fails and has the closing shape *)
Lemma refund_complete s id c : Inv s -> get id (st_contracts s) = Some c -> c_state c = Open ->
  close_rel s (dequeue (refund s id c) (c_exp c) id) id c Refunded.
Proof.
  intros I Hg Ho.
  destruct (inv_wfc _ I _ _ (get_In _ _ _ Hg)) as (Hid & Hpos & Hs1 & Hs2 & Ht1 & Ht2 & Hrng & Hkind).
  assert (Hbl : blocked (c_sender c) = false) by (unfold blocked; apply Z.eqb_neq; exact Hs2).
  assert (Hescto : (ESC =? c_sender c) = false) by (apply Z.eqb_neq; congruence).
  assert (Hne : ESC <> c_sender c) by congruence.
  unfold refund. cbv zeta. destruct (c_transfer c) eqn:Htr.
  - destruct Hkind as [(d & x & Ham & Hpn) Hdir].
    destruct (get_param (st_params s) d) as [p|] eqn:Hp; [clear Hpn|congruence].
    destruct (inv_asset _ I d p Hp) as (a & Ha & Hain & Haout & Hacur & Hasup & (L1 & L2 & L3 & L4) & Hawin).
    destruct (in_out_ge _ _ _ d p a I Hg Hp Ha) as [Gin Gout].
    pose proof (esc_ge _ _ _ d I Hg) as Gesc.
    assert (Hx : 0 < x) by (rewrite Ham in Hpos; inversion Hpos; assumption).
    unfold w_in, w_out, w_esc, locksb, is_in, is_out, openb, amt in Gin, Gout, Gesc.
    rewrite Ho, Htr, Ham in Gin, Gout, Gesc. cbn in Gin, Gout, Gesc. rewrite Z.eqb_refl in Gin, Gout, Gesc.
    rewrite Ham.
    destruct (c_dir c) eqn:Hd; [congruence| |].
    + cbn in Gin.
      assert (F1 : dec_incoming x no_param a = Some (mkAS (as_in a - x) (as_out a) (as_cur a) (as_tlc a) (as_el a))).
      { unfold dec_incoming. replace (as_in a - x <? 0) with false by (symmetry; apply Z.ltb_ge; lia). reflexivity. }
      rewrite (with_supply_ok _ _ _ _ _ Ha F1).
      unfold dequeue, set_contract. constructor; sproj; try reflexivity; try assumption; try discriminate.
      * intros d0. unfold w_esc, locksb, is_out. rewrite Htr, Hd. cbn. rewrite andb_false_r. lia.
      * intros d0 p0 a0 Hp0 Ha0. rewrite !get_set.
        unfold w_in, w_out, w_cur, complb, is_in, is_out, openb, amt. cbn. rewrite Ho, Htr, Hd, Ham. cbn.
        destruct (eq_dec d0 d) as [->|Hdd].
        -- rewrite Hp in Hp0. rewrite Ha in Ha0. inversion Hp0; inversion Ha0; subst p0 a0.
           eexists. split; [reflexivity|]. rewrite !Z.eqb_refl. unfold lim_ok. cbn.
           split; [lia|]. split; [lia|]. split; [lia|]. split; [lia|].
           split; [split; [lia|]; split; [lia|]; split; [lia|]; intros Htl; pose proof (L4 Htl); lia|]. intros; lia.
        -- exists a0. split; [exact Ha0|].
           replace (d =? d0) with false by (symmetry; apply Z.eqb_neq; congruence).
           split; [lia|]. split; [lia|]. split; [lia|]. split; [lia|].
           split; [exact (inv_lim _ _ _ _ I Hp0 Ha0)|]. intros; lia.
      * unfold close_events, locksb, is_out. rewrite Htr, Hd. cbn. reflexivity.
    + cbn in Gout, Gesc.
      assert (F1 : dec_outgoing x no_param a = Some (mkAS (as_in a) (as_out a - x) (as_cur a) (as_tlc a) (as_el a))).
      { unfold dec_outgoing. replace (as_out a - x <? 0) with false by (symmetry; apply Z.ltb_ge; lia). reflexivity. }
      rewrite (with_supply_ok _ _ _ _ _ Ha F1).
      unfold pay_out. rewrite Hbl. sproj.
      destruct (send_coins_ok [(d, x)] (st_bank s) ESC (c_sender c) Hne) as [l' Hsend].
      { rewrite <- Ham. exact Hpos. }
      { intros d0. cbn. destruct (Z.eqb_spec d d0) as [->|Hdd]; [lia|]. pose proof (esc_nonneg _ d0 I). lia. }
      rewrite Hsend.
      unfold dequeue, set_contract, set_bank_log. constructor; sproj; try reflexivity; try assumption; try discriminate.
      * intros d0. rewrite (send_coins_bal _ _ _ _ _ Hne Hsend ESC d0). rewrite Z.eqb_refl, Hescto.
        unfold w_esc, locksb, is_out, openb, amt. rewrite Ho, Htr, Hd, Ham. cbn. lia.
      * intros d0 p0 a0 Hp0 Ha0. rewrite !get_set.
        unfold w_in, w_out, w_cur, complb, is_in, is_out, openb, amt. cbn. rewrite Ho, Htr, Hd, Ham. cbn.
        destruct (eq_dec d0 d) as [->|Hdd].
        -- rewrite Hp in Hp0. rewrite Ha in Ha0. inversion Hp0; inversion Ha0; subst p0 a0.
           eexists. split; [reflexivity|]. rewrite !Z.eqb_refl. unfold lim_ok. cbn.
           split; [lia|]. split; [lia|]. split; [lia|]. split; [lia|].
           split; [split; [lia|]; split; [lia|]; split; [lia|]; exact L4|]. intros; lia.
        -- exists a0. split; [exact Ha0|].
           replace (d =? d0) with false by (symmetry; apply Z.eqb_neq; congruence).
           split; [lia|]. split; [lia|]. split; [lia|]. split; [lia|].
           split; [exact (inv_lim _ _ _ _ I Hp0 Ha0)|]. intros; lia.
      * unfold close_events, locksb, is_out. rewrite Htr, Hd, Ham. cbn. reflexivity.
  - unfold pay_out. rewrite Hbl.
    destruct (send_coins_ok (c_amount c) (st_bank s) ESC (c_sender c) Hne Hpos) as [l' Hsend].
    { intros d0. pose proof (esc_ge _ _ _ d0 I Hg) as G. unfold w_esc, locksb, openb, amt in G.
      rewrite Ho, Htr in G. exact G. }
    rewrite Hsend.
    unfold dequeue, set_contract, set_bank_log. constructor; sproj; try reflexivity; try assumption; try discriminate.
    + intros d0. rewrite (send_coins_bal _ _ _ _ _ Hne Hsend ESC d0). rewrite Z.eqb_refl, Hescto.
      unfold w_esc, locksb, openb, amt. rewrite Ho, Htr. cbn. lia.
    + intros d0 p0 a0 Hp0 Ha0. exists a0. split; [exact Ha0|].
      unfold w_in, w_out, w_cur, complb, is_in, is_out. cbn. rewrite Htr. cbn. rewrite !andb_false_r.
      split; [lia|]. split; [lia|]. split; [lia|]. split; [lia|].
      split; [exact (inv_lim _ _ _ _ I Hp0 Ha0)|]. intros; lia.
    + unfold close_events, locksb. rewrite Htr. reflexivity.
Qed.

(** ** Part 4: blocks *)

(** at every operation boundary an open contract has not reached its expiration height *)
Definition Strict (s : state) : Prop :=
  forall id c, get id (st_contracts s) = Some c -> c_state c = Open -> st_height s < c_exp c.

Lemma new_block_inv s dt : Inv s -> Strict s -> Inv (new_block s dt).
Proof.
  intros I S. unfold new_block. constructor; sproj; try apply I.
  intros id c Hg Ho. destruct (inv_openq _ I _ _ Hg Ho) as [Hq _]. split; [exact Hq|].
  pose proof (S _ _ Hg Ho). lia.
Qed.

Definition refunded_in (l : list cid) (h : Z) (id : cid) (c : contract) : contract :=
  if existsb (eqb id) l then close c Refunded h else c.

Lemma refund_fold h : forall l s, Inv s -> NoDup l -> (forall id, In id l -> In (h, id) (st_queue s)) ->
  let s' := fold_left (refund_one h) l s in
  Inv s' /\ st_height s' = st_height s /\ st_params s' = st_params s /\ st_time s' = st_time s
  /\ st_prev s' = st_prev s
  /\ (forall e, In e (st_queue s') -> In e (st_queue s))
  /\ (forall id, get id (st_contracts s') = option_map (refunded_in l (st_height s) id) (get id (st_contracts s))).
Proof.
  induction l as [|id l IH]; intros s I Hnd Hq; cbn zeta.
  - simpl. split; [exact I|]. repeat (split; [reflexivity|]). split; [auto|].
    intros id. unfold refunded_in. simpl. destruct (get id (st_contracts s)); reflexivity.
  - simpl. inversion Hnd as [|? ? Hnin Hnd']; subst.
    destruct (inv_qopen _ I h id (Hq id (or_introl eq_refl))) as (c & Hg & Ho & He).
    subst h.
    pose proof (refund_complete s id c I Hg Ho) as R.
    set (s1 := dequeue (refund s id c) (c_exp c) id) in *.
    assert (E1 : refund_one (c_exp c) s id = s1) by (unfold refund_one; rewrite Hg; reflexivity).
    rewrite E1.
    pose proof (close_rel_inv _ _ _ _ _ I R) as I1.
    assert (Hq1 : forall id', In id' l -> In (c_exp c, id') (st_queue s1)).
    { intros id' Hin. rewrite (cr_queue _ _ _ _ _ R). apply filter_In. split.
      - apply Hq. right. exact Hin.
      - apply negb_true_iff. apply eqb_false_iff. intros E. inversion E; subst. contradiction. }
    destruct (IH s1 I1 Hnd' Hq1) as (I' & Hh & Hp & Ht & Hpv & Hqs & Hc).
    split; [exact I'|]. rewrite Hh, Hp, Ht, Hpv, (cr_height _ _ _ _ _ R), (cr_params _ _ _ _ _ R).
    split; [reflexivity|]. split; [reflexivity|].
    assert (Htime : st_time s1 = st_time s /\ st_prev s1 = st_prev s).
    { unfold s1, dequeue, refund. cbv zeta. sproj.
      destruct (c_transfer c).
      - destruct (c_amount c) as [|[d x] cs]; [split; reflexivity|]. destruct (c_dir c); [split; reflexivity| |].
        + destruct (with_supply s d (dec_incoming x)) as [s2|] eqn:Hw; [|split; reflexivity].
          destruct (with_supply_Some _ _ _ _ Hw) as (? & ? & _ & _ & ->). split; reflexivity.
        + destruct (with_supply s d (dec_outgoing x)) as [s2|] eqn:Hw; [|split; reflexivity].
          destruct (with_supply_Some _ _ _ _ Hw) as (? & ? & _ & _ & ->).
          unfold pay_out. destruct (blocked (c_sender c)); [split; reflexivity|]. sproj.
          destruct (send_coins _ _ _ _); split; reflexivity.
      - unfold pay_out. destruct (blocked (c_sender c)); [split; reflexivity|].
        destruct (send_coins _ _ _ _); split; reflexivity. }
    destruct Htime as [-> ->]. split; [reflexivity|]. split; [reflexivity|].
    split.
    + intros e Hin. apply Hqs in Hin. rewrite (cr_queue _ _ _ _ _ R) in Hin. apply filter_In in Hin. tauto.
    + intros id0. rewrite Hc. rewrite (cr_contracts _ _ _ _ _ R), get_set, (cr_height _ _ _ _ _ R).
      unfold refunded_in. simpl. destruct (eq_dec id0 id) as [->|Hne].
      * rewrite Hg. simpl. rewrite eqb_refl. simpl.
        replace (existsb (eqb id) l) with false; [reflexivity|].
        symmetry. apply not_true_iff_false. intros Hex. apply existsb_exists in Hex.
        destruct Hex as (y & Hy & Hey). apply (proj1 (eqb_true_iff id y)) in Hey. apply Hnin. rewrite Hey. exact Hy.
      * replace (eqb id0 id) with false by (symmetry; apply eqb_false_iff; exact Hne). reflexivity.
Qed.

Lemma get_param_of_In P p : In p P -> exists p', get_param P (ap_denom p) = Some p'.
Proof. intros Hin. pose proof (get_param_In P p Hin). destruct (get_param P (ap_denom p)); [eauto|congruence]. Qed.

Lemma tick_asset_inv el s p : Inv s -> In p (st_params s) ->
  Inv (tick_asset el s p) /\ st_params (tick_asset el s p) = st_params s
  /\ st_contracts (tick_asset el s p) = st_contracts s /\ st_queue (tick_asset el s p) = st_queue s
  /\ st_height (tick_asset el s p) = st_height s /\ st_time (tick_asset el s p) = st_time s
  /\ st_log (tick_asset el s p) = st_log s /\ st_bank (tick_asset el s p) = st_bank s.
Proof.
  intros I Hin. split; [|unfold tick_asset; cbv zeta; sproj; repeat split; reflexivity].
  destruct (get_param_of_In _ _ Hin) as [p1 Hp1].
  destruct (inv_asset _ I _ _ Hp1) as (a & Ha & Hain & Haout & Hacur & Hasup & (L1 & L2 & L3 & L4) & Hawin).
  unfold tick_asset. cbv zeta. rewrite Ha.
  set (keep := ap_tl p && (as_el a + el <? ap_period p)).
  constructor; sproj; try apply I.
  intros d p0 Hp0. rewrite get_set. destruct (eq_dec d (ap_denom p)) as [->|Hne].
  - rewrite Hp1 in Hp0. inversion Hp0; subst p0.
    eexists. split; [reflexivity|]. destruct keep; cbn.
    + split; [exact Hain|]. split; [exact Haout|]. split; [exact Hacur|]. split; [exact Hasup|].
      split; [unfold lim_ok; cbn; tauto|exact Hawin].
    + split; [exact Hain|]. split; [exact Haout|]. split; [exact Hacur|]. split; [exact Hasup|].
      split.
      * unfold lim_ok. cbn. split; [lia|]. split; [lia|]. split; [lia|]. intros Htl. pose proof (L4 Htl). lia.
      * intros _. rewrite sup_of_set, Z.eqb_refl. reflexivity.
  - destruct (inv_asset _ I _ _ Hp0) as (a0 & Ha0 & H1 & H2 & H3 & H4 & H5 & H6).
    exists a0. split; [exact Ha0|]. split; [exact H1|]. split; [exact H2|]. split; [exact H3|]. split; [exact H4|].
    split; [exact H5|]. intros Htl. rewrite (H6 Htl). destruct keep; [reflexivity|].
    rewrite sup_of_set. replace (d =? ap_denom p) with false by (symmetry; apply Z.eqb_neq; exact Hne). reflexivity.
Qed.

Definition same_core (s s' : state) : Prop :=
  st_params s' = st_params s /\ st_contracts s' = st_contracts s /\ st_queue s' = st_queue s
  /\ st_height s' = st_height s /\ st_time s' = st_time s /\ st_log s' = st_log s /\ st_bank s' = st_bank s.

Lemma tick_fold el : forall l s, Inv s -> (forall p, In p l -> In p (st_params s)) ->
  Inv (fold_left (tick_asset el) l s) /\ same_core s (fold_left (tick_asset el) l s).
Proof.
  induction l as [|p l IH]; intros s I Hl; simpl.
  - split; [exact I|]. unfold same_core. repeat split; reflexivity.
  - destruct (tick_asset_inv el s p I (Hl p (or_introl eq_refl))) as (I1 & E1 & E2 & E3 & E4 & E5 & E6 & E7).
    destruct (IH (tick_asset el s p) I1) as (I2 & F1 & F2 & F3 & F4 & F5 & F6 & F7).
    { intros p' Hp'. rewrite E1. apply Hl. right. exact Hp'. }
    split; [exact I2|]. unfold same_core. rewrite F1, F2, F3, F4, F5, F6, F7. repeat split; assumption.
Qed.

Lemma update_windows_inv s : Inv s -> Inv (update_windows s) /\ same_core s (update_windows s).
Proof.
  intros I. unfold update_windows. destruct (st_params s) as [|p0 P] eqn:HP.
  - split; [exact I|]. unfold same_core. repeat split; reflexivity.
  - rewrite <- HP. destruct (tick_fold (st_time s - st_prev s) (st_params s) s I (fun p H => H)) as (I1 & C).
    set (s1 := fold_left (tick_asset (st_time s - st_prev s)) (st_params s) s) in *.
    split; [|unfold same_core in *; sproj; tauto].
    constructor; sproj; apply I1.
Qed.

Lemma due_In h q id : In id (due h q) <-> In (h, id) q.
Proof.
  unfold due. rewrite in_map_iff. split.
  - intros ([h' id'] & E & Hin). simpl in E. subst id'. apply filter_In in Hin. destruct Hin as [Hin Hh].
    simpl in Hh. apply Z.eqb_eq in Hh. subst. exact Hin.
  - intros Hin. exists (h, id). split; [reflexivity|]. apply filter_In. split; [exact Hin|]. simpl. apply Z.eqb_refl.
Qed.

(** what one block boundary does to a contract: refunded iff open and expiring at the new height *)
Definition block_effect (h : Z) (c : contract) : contract :=
  if openb c && (c_exp c =? h) then close c Refunded h else c.

Lemma begin_block_spec s dt : Inv s -> Strict s ->
  Inv (begin_block s dt) /\ Strict (begin_block s dt)
  /\ st_height (begin_block s dt) = st_height s + 1
  /\ st_params (begin_block s dt) = st_params s
  /\ (forall id, get id (st_contracts (begin_block s dt))
                 = option_map (block_effect (st_height s + 1)) (get id (st_contracts s))).
Proof.
  intros I S. unfold begin_block. cbv zeta.
  pose proof (new_block_inv s dt I S) as I0.
  set (s0 := new_block s dt) in *.
  assert (Hh0 : st_height s0 = st_height s + 1) by reflexivity.
  assert (Hc0 : st_contracts s0 = st_contracts s) by reflexivity.
  assert (Hp0 : st_params s0 = st_params s) by reflexivity.
  set (h := st_height s0) in *.
  destruct (refund_fold h (due h (st_queue s0)) s0 I0) as (I1 & Hh1 & Hp1 & _ & _ & Hq1 & Hc1).
  { unfold due. apply NoDup_map_filter. exact (inv_qnodup _ I0). }
  { intros id Hin. apply due_In. exact Hin. }
  set (s1 := fold_left (refund_one h) (due h (st_queue s0)) s0) in *.
  destruct (update_windows_inv s1 I1) as (I2 & E1 & E2 & E3 & E4 & _).
  assert (Hget : forall id, get id (st_contracts (update_windows s1))
                            = option_map (block_effect (st_height s + 1)) (get id (st_contracts s))).
  { intros id. rewrite E2, Hc1, Hc0. fold h. rewrite <- Hh0. fold h.
    destruct (get id (st_contracts s)) as [c|] eqn:Hg; [|reflexivity]. simpl. f_equal.
    unfold refunded_in, block_effect.
    assert (Hex : existsb (eqb id) (due h (st_queue s0)) = openb c && (c_exp c =? h)).
    { apply eq_true_iff_eq. rewrite existsb_exists, andb_true_iff. split.
      - intros (y & Hy & Hey). apply (proj1 (eqb_true_iff id y)) in Hey. subst y. apply due_In in Hy.
        destruct (inv_qopen _ I0 _ _ Hy) as (c' & Hg' & Ho' & He'). rewrite Hc0, Hg in Hg'. inversion Hg'; subst c'.
        unfold openb. rewrite Ho'. split; [reflexivity|]. apply Z.eqb_eq. exact He'.
      - intros [Ho He]. unfold openb in Ho. destruct (c_state c) eqn:Hst; try discriminate.
        apply Z.eqb_eq in He. exists id. split; [|apply eqb_refl]. apply due_In. rewrite <- He.
        apply (inv_openq _ I0 id c); [rewrite Hc0; exact Hg|exact Hst]. }
    change (st_queue s) with (st_queue s0). rewrite Hex. reflexivity. }
  split; [exact I2|]. split; [|split; [rewrite E4, Hh1; exact Hh0|split; [rewrite E1, Hp1; exact Hp0|exact Hget]]].
  intros id c' Hg' Ho'. rewrite E4, Hh1. fold h.
  rewrite Hget in Hg'. destruct (get id (st_contracts s)) as [c|] eqn:Hg; [|discriminate].
  simpl in Hg'. inversion Hg'; subst c'; clear Hg'. unfold block_effect in *. rewrite <- Hh0 in *. fold h in Ho' |- *.
  destruct (openb c && (c_exp c =? h)) eqn:Hb; [cbn in Ho'; discriminate|].
  assert (Hg0 : get id (st_contracts s0) = Some c) by (rewrite Hc0; exact Hg).
  destruct (inv_openq _ I0 _ _ Hg0 Ho') as [_ Hle]. fold h in Hle.
  unfold openb in Hb. rewrite Ho' in Hb. simpl in Hb. apply Z.eqb_neq in Hb. lia.
Qed.

Lemma adv_spec : forall dts s, Inv s -> Strict s ->
  let s' := fold_left begin_block dts s in
  Inv s' /\ Strict s' /\ st_params s' = st_params s
  /\ forall id c, get id (st_contracts s) = Some c ->
       exists c', get id (st_contracts s') = Some c'
         /\ (c' = c \/ (c_state c = Open /\ exists h, st_height s < h /\ c' = close c Refunded h)).
Proof.
  induction dts as [|dt dts IH]; intros s I S; cbn zeta; simpl.
  - split; [exact I|]. split; [exact S|]. split; [reflexivity|]. intros id c Hg. exists c. auto.
  - destruct (begin_block_spec s dt I S) as (I1 & S1 & Hh & Hp & Hc).
    destruct (IH _ I1 S1) as (I2 & S2 & Hp2 & Hc2). split; [exact I2|]. split; [exact S2|].
    split; [rewrite Hp2; exact Hp|]. intros id c Hg.
    pose proof (Hc id) as Hcid. rewrite Hg in Hcid. simpl in Hcid.
    destruct (Hc2 id _ Hcid) as (c' & Hg' & Hor). exists c'. split; [exact Hg'|].
    unfold block_effect in Hor. destruct (openb c && (c_exp c =? st_height s + 1)) eqn:Hb.
    + right. apply andb_true_iff in Hb. destruct Hb as [Ho _]. unfold openb in Ho.
      destruct (c_state c) eqn:Hst; try discriminate. split; [reflexivity|].
      destruct Hor as [->|[Hbad _]]; [|cbn in Hbad; discriminate].
      exists (st_height s + 1). split; [lia|reflexivity].
    + destruct Hor as [->|(Ho & h & Hlt & ->)]; [left; reflexivity|]. right. split; [exact Ho|].
      exists h. split; [lia|reflexivity].
Qed.

(** ** Part 5: steps and histories *)

Lemma create_lock s m s' : create s m = Some s' -> 50 <= m_lock m.
Proof.
  unfold create. destruct (negb (create_basic m)) eqn:Hb; [discriminate|]. apply negb_false_iff in Hb.
  intros _. exact (proj2 (create_basic_facts m Hb)).
Qed.

(** a claim is accepted exactly when it presents the pre-image of the lock (bound to the contract's
    timestamp) of an open contract; its effect is the closing shape *)
Lemma claim_spec s who id secret : Inv s ->
  match claim s who id secret with
  | Some s' => addr_ok who = true /\ exists c, get id (st_contracts s) = Some c /\ c_state c = Open
                 /\ secret_ok c secret = true /\ close_rel s s' id c Completed
  | None => addr_ok who = false \/ get id (st_contracts s) = None
            \/ exists c, get id (st_contracts s) = Some c /\ (c_state c <> Open \/ secret_ok c secret = false)
  end.
Proof.
  intros I. unfold claim. destruct (addr_ok who); simpl; [|left; reflexivity].
  destruct (get id (st_contracts s)) as [c|] eqn:Hg; [|right; left; reflexivity].
  destruct (c_state c) eqn:Hst.
  - destruct (secret_ok c secret) eqn:Hsec; simpl.
    + destruct (claim_complete s id c I Hg Hst) as (s1 & Hb & R). unfold close_body in Hb. rewrite Hb.
      split; [reflexivity|]. exists c. auto.
    + right; right. exists c. auto.
  - right; right. exists c. split; [reflexivity|]. left. congruence.
  - right; right. exists c. split; [reflexivity|]. left. congruence.
Qed.

Lemma close_rel_strict s s' id c st : Strict s -> close_rel s s' id c st -> Strict s'.
Proof.
  intros S R id' c' Hg Ho. rewrite (cr_contracts _ _ _ _ _ R), get_set in Hg. rewrite (cr_height _ _ _ _ _ R).
  destruct (eq_dec id' id) as [->|Hne].
  - inversion Hg; subst c'. cbn in Ho. destruct (cr_st _ _ _ _ _ R Ho).
  - exact (S _ _ Hg Ho).
Qed.

(** *** parameter changes *)
Definition same_denoms (P P' : list aparam) : Prop :=
  forall d, get_param P d = None <-> get_param P' d = None.

(** the new limits cover the current usage of every asset *)
Definition covers (s : state) (P' : list aparam) : Prop :=
  forall d p' a, get_param P' d = Some p' -> get d (st_assets s) = Some a ->
    lim_ok p' a /\ (ap_tl p' = true -> as_tlc a = sup_of (st_win s) d).

Lemma wfc_params P P' id c : same_denoms P P' -> wfc P id c -> wfc P' id c.
Proof.
  intros SD (H1 & H2 & H3 & H4 & H5 & H6 & H7 & H8). unfold wfc. repeat (split; [assumption|]).
  destruct (c_transfer c); [|exact H8]. destruct H8 as [(d & x & Ha & Hp) Hd]. split; [|exact Hd].
  exists d, x. split; [exact Ha|]. intros Hn. apply Hp. apply SD. exact Hn.
Qed.

Lemma same_denoms_lookup P P' d p' : same_denoms P P' -> get_param P' d = Some p' -> exists p, get_param P d = Some p.
Proof.
  intros SD Hp'. destruct (get_param P d) as [p|] eqn:E; [eauto|]. apply SD in E. congruence.
Qed.

Lemma inv_after_compatible_param_change_lemma s P' : Inv s -> Strict s ->
  same_denoms (st_params s) P' -> covers s P' ->
  Inv (set_params s P') /\ Strict (set_params s P').
Proof.
  intros I S SD CV. split; [|exact S]. unfold set_params. constructor; sproj; try apply I.
  - intros id c Hin. exact (wfc_params _ _ _ _ SD (inv_wfc _ I _ _ Hin)).
  - intros d p' Hp'. destruct (same_denoms_lookup _ _ _ _ SD Hp') as (p & Hp).
    destruct (inv_asset _ I d p Hp) as (a & Ha & H1 & H2 & H3 & H4 & _ & _).
    destruct (CV d p' a Hp' Ha) as [L W]. exists a. auto 10.
Qed.

Lemma lim_ok_b_sound p a : lim_ok_b p a = true -> lim_ok p a.
Proof.
  unfold lim_ok_b, lim_ok. intros H. apply andb_true_iff in H. destruct H as [H H4].
  apply andb_true_iff in H. destruct H as [H H3]. apply andb_true_iff in H. destruct H as [H1 H2].
  apply Z.leb_le in H1, H2, H3. repeat (split; [assumption|]). intros Htl. rewrite Htl in H4. simpl in H4.
  apply Z.leb_le. exact H4.
Qed.

Lemma has_param_of_In P p : In p P -> has_param P (ap_denom p) = true.
Proof. intros Hin. unfold has_param. destruct (get_param_of_In _ _ Hin) as (p' & ->). reflexivity. Qed.

Lemma compat_b_sound s P' : compat_b s P' = true -> same_denoms (st_params s) P' /\ covers s P'.
Proof.
  unfold compat_b, same_denoms_b. intros H. apply andb_true_iff in H. destruct H as [H H3]. apply andb_true_iff in H. destruct H as [H1 H2].
  rewrite forallb_forall in H1, H2, H3. split.
  - intros d. split; intros Hn.
    + destruct (get_param P' d) as [p'|] eqn:E; [|reflexivity]. exfalso.
      pose proof (get_param_denom _ _ _ E) as Hd. unfold get_param in E. apply find_some in E. destruct E as [Hin _].
      pose proof (H2 p' Hin) as Hh. unfold has_param in Hh. rewrite Hd, Hn in Hh. discriminate.
    + destruct (get_param (st_params s) d) as [p|] eqn:E; [|reflexivity]. exfalso.
      pose proof (get_param_denom _ _ _ E) as Hd. unfold get_param in E. apply find_some in E. destruct E as [Hin _].
      pose proof (H1 p Hin) as Hh. unfold has_param in Hh. rewrite Hd, Hn in Hh. discriminate.
  - intros d p' a Hp' Ha. pose proof (get_param_denom _ _ _ Hp') as Hd. unfold get_param in Hp'. apply find_some in Hp'.
    destruct Hp' as [Hin _]. pose proof (H3 p' Hin) as Hc. rewrite Hd, Ha in Hc.
    apply andb_true_iff in Hc. destruct Hc as [Hl Hw]. split; [exact (lim_ok_b_sound _ _ Hl)|].
    intros Htl. rewrite Htl in Hw. simpl in Hw. apply Z.eqb_eq. exact Hw.
Qed.

(** the parameters after a step *)
Definition params_after (s : state) (o : op) : list aparam :=
  match o with SetParams who P' => if step_ok s o then P' else st_params s | _ => st_params s end.

Lemma step_inv s o : Inv s -> Strict s -> wf_op s o ->
  Inv (step s o) /\ Strict (step s o) /\ st_params (step s o) = params_after s o.
Proof.
  intros I S W. unfold step. destruct o as [m|who id secret|dts|gw gP]; simpl.
  - destruct (create s m) as [s'|] eqn:Hc; [|auto].
    destruct (create_open_rel s m s' I W Hc) as (dr & R). pose proof (create_lock _ _ _ Hc) as Hl.
    split; [exact (open_rel_inv _ _ _ _ I R)|]. split; [|exact (or_params _ _ _ _ R)].
    intros id' c' Hg Ho. rewrite (or_contracts _ _ _ _ R), get_set in Hg. rewrite (or_height _ _ _ _ R).
    destruct (eq_dec id' (id_of m)) as [->|Hne].
    + inversion Hg; subst c'. cbn. lia.
    + exact (S _ _ Hg Ho).
  - pose proof (claim_spec s who id secret I) as Hs. destruct (claim s who id secret) as [s'|]; [|auto].
    destruct Hs as (_ & c & Hg & Ho & _ & R).
    split; [exact (close_rel_inv _ _ _ _ _ I R)|]. split; [exact (close_rel_strict _ _ _ _ _ S R)|exact (cr_params _ _ _ _ _ R)].
  - destruct (adv_spec dts s I S) as (I' & S' & Hp & _). auto.
  - unfold wf_op, step_ok in W. cbn [exec] in W. unfold step_ok. cbn [exec].
    destruct ((gw =? GOV) && params_valid gP) eqn:E; [|auto].
    destruct (compat_b_sound s gP (W eq_refl)) as [SD CV].
    destruct (inv_after_compatible_param_change_lemma s gP I S SD CV) as [I' S']. auto.
Qed.

(** one step never deletes a contract and changes it at most by closing it, if it was open *)
Lemma step_contract s o : Inv s -> Strict s -> wf_op s o -> forall id c, get id (st_contracts s) = Some c ->
  exists c', get id (st_contracts (step s o)) = Some c'
    /\ (c' = c \/ (c_state c = Open /\ exists st h, st <> Open /\ c' = close c st h)).
Proof.
  intros I S W id c Hg. unfold step. destruct o as [m|who id0 secret|dts|gw gP]; simpl.
  - destruct (create s m) as [s'|] eqn:Hc; [|exists c; auto].
    destruct (create_open_rel s m s' I W Hc) as (dr & R).
    exists c. split; [|left; reflexivity]. rewrite (or_contracts _ _ _ _ R), get_set_other; [exact Hg|].
    intros ->. rewrite (or_fresh _ _ _ _ R) in Hg. discriminate.
  - pose proof (claim_spec s who id0 secret I) as Hs. destruct (claim s who id0 secret) as [s'|]; [|exists c; auto].
    destruct Hs as (_ & c0 & Hg0 & Ho & _ & R). rewrite (cr_contracts _ _ _ _ _ R), get_set.
    destruct (eq_dec id id0) as [->|Hne].
    + rewrite Hg in Hg0. inversion Hg0; subst c0. eexists. split; [reflexivity|]. right. split; [exact Ho|].
      exists Completed, (st_height s). split; [discriminate|reflexivity].
    + exists c. auto.
  - destruct (adv_spec dts s I S) as (_ & _ & _ & Hc). destruct (Hc id c Hg) as (c' & Hg' & Hor).
    exists c'. split; [exact Hg'|]. destruct Hor as [->|(Ho & h & _ & ->)]; [left; reflexivity|].
    right. split; [exact Ho|]. exists Refunded, h. split; [discriminate|reflexivity].
  - destruct ((gw =? GOV) && params_valid gP); exists c; auto.
Qed.

Definition params_ok (P : list aparam) : Prop := Forall (fun p => 0 <= ap_limit p /\ 0 <= ap_tbl p) P.
Definition escrow_empty (b : ledger) : Prop := forall d, bal b ESC d = 0.

Lemma init_assets P d p : get_param P d = Some p -> get d (map (fun p => (ap_denom p, zero_sup)) P) = Some zero_sup.
Proof.
  unfold get_param. induction P as [|p0 P IH]; simpl; [discriminate|].
  destruct (Z.eqb_spec (ap_denom p0) d) as [E|Hne].
  - intros _. destruct (eq_dec d (ap_denom p0)); [reflexivity|congruence].
  - intros H. destruct (eq_dec d (ap_denom p0)); [congruence|]. exact (IH H).
Qed.

Lemma init_inv P b t0 : params_ok P -> escrow_empty b -> Inv (init P b t0) /\ Strict (init P b t0).
Proof.
  intros HP HE. split.
  - unfold init. constructor; sproj; simpl; try tauto; try (intros; discriminate).
    + intros d p Hp. exists zero_sup. split; [exact (init_assets P d p Hp)|]. cbn.
      repeat (split; [reflexivity|]).
      unfold get_param in Hp. apply find_some in Hp. destruct Hp as [Hin _].
      unfold params_ok in HP. rewrite Forall_forall in HP. destruct (HP p Hin) as [H1 H2].
      split; [unfold lim_ok; cbn; repeat split; try lia; intros; lia|reflexivity].
    + constructor.
    + constructor.
  - intros id c Hg. discriminate.
Qed.

Lemma run_inv : forall ops s, Inv s -> Strict s -> wf_run s ops -> Inv (run s ops) /\ Strict (run s ops).
Proof.
  unfold run. induction ops as [|o ops IH]; intros s I S W; simpl; [auto|].
  destruct W as [Wo Wops]. destruct (step_inv s o I S Wo) as (I1 & S1 & _). exact (IH _ I1 S1 Wops).
Qed.

Definition no_param_change (ops : list op) : Prop := Forall (fun o => forall who P', o <> SetParams who P') ops.

Lemma run_params : forall ops s, Inv s -> Strict s -> wf_run s ops -> no_param_change ops -> st_params (run s ops) = st_params s.
Proof.
  unfold run. induction ops as [|o ops IH]; intros s I S W N; simpl; [reflexivity|].
  destruct W as [Wo Wops]. inversion N as [|? ? No Nops]; subst. destruct (step_inv s o I S Wo) as (I1 & S1 & P1).
  rewrite (IH _ I1 S1 Wops Nops), P1. destruct o; try reflexivity. exfalso. exact (No _ _ eq_refl).
Qed.

Lemma wf_run_app : forall a s b, wf_run s (a ++ b) <-> wf_run s a /\ wf_run (run s a) b.
Proof.
  unfold run. induction a as [|o a IH]; intros s b; simpl; [tauto|]. rewrite IH. tauto.
Qed.

(** reachable states: any history of well-formed operations from genesis *)
Definition reachable (P : list aparam) (b : ledger) (t0 : Z) (ops : list op) : state := run (init P b t0) ops.

Lemma reach_inv P b t0 ops : params_ok P -> escrow_empty b -> wf_run (init P b t0) ops ->
  Inv (reachable P b t0 ops) /\ Strict (reachable P b t0 ops).
Proof.
  intros HP HE W. destruct (init_inv P b t0 HP HE) as [I S]. exact (run_inv ops _ I S W).
Qed.

(** over any further history a contract is never deleted; a closed contract never changes again; an
    open one stays as it is or is closed exactly once *)
Lemma run_contract : forall ops s, Inv s -> Strict s -> wf_run s ops ->
  forall id c, get id (st_contracts s) = Some c ->
  exists c', get id (st_contracts (run s ops)) = Some c'
    /\ (c' = c \/ (c_state c = Open /\ exists st h, st <> Open /\ c' = close c st h)).
Proof.
  unfold run. induction ops as [|o ops IH]; intros s I S W id c Hg; simpl; [exists c; auto|].
  destruct W as [Wo Wops]. destruct (step_inv s o I S Wo) as (I1 & S1 & _).
  destruct (step_contract s o I S Wo id c Hg) as (c1 & Hg1 & Hor1).
  destruct (IH _ I1 S1 Wops id c1 Hg1) as (c2 & Hg2 & Hor2). exists c2. split; [exact Hg2|].
  destruct Hor1 as [->|(Ho & st & h & Hst & ->)]; [exact Hor2|].
  right. split; [exact Ho|]. destruct Hor2 as [->|(Hbad & _)]; [exists st, h; auto|].
  cbn in Hbad. congruence.
Qed.

(** ** Part 6: the statements of Props/C03.v and Props/C04.v *)

Lemma rejected_changes_nothing s o : step_ok s o = false -> step s o = s.
Proof. unfold step, step_ok. destruct (exec s o); [discriminate|reflexivity]. Qed.

Lemma claim_iff_preimage_lemma s who id secret : Inv s ->
  (step_ok s (Claim who id secret) = true <->
   addr_ok who = true /\ exists c, get id (st_contracts s) = Some c /\ c_state c = Open /\ secret_ok c secret = true).
Proof.
  intros I. unfold step_ok. simpl. pose proof (claim_spec s who id secret I) as Hs.
  destruct (claim s who id secret) as [s'|].
  - destruct Hs as (Hw & c & Hg & Ho & Hsec & _). split; [intros _|reflexivity]. split; [exact Hw|]. exists c. auto.
  - split; [discriminate|]. intros (Hw & c & Hg & Ho & Hsec).
    destruct Hs as [Hn|[Hn|(c' & Hg' & Hor)]]; [congruence|congruence|].
    rewrite Hg in Hg'. inversion Hg'; subst c'. destruct Hor; congruence.
Qed.

(** the effect of an accepted claim *)
Lemma claim_effect_lemma s who id secret : Inv s -> Strict s -> step_ok s (Claim who id secret) = true ->
  exists c, get id (st_contracts s) = Some c /\ c_state c = Open /\ secret_ok c secret = true
    /\ st_height s < c_exp c
    /\ get id (st_contracts (step s (Claim who id secret))) = Some (close c Completed (st_height s))
    /\ st_log (step s (Claim who id secret)) = close_events id c Completed ++ st_log s
    /\ ~ In (c_exp c, id) (st_queue (step s (Claim who id secret))).
Proof.
  intros I S. unfold step_ok, step. simpl. pose proof (claim_spec s who id secret I) as Hs.
  destruct (claim s who id secret) as [s'|]; [|discriminate]. intros _.
  destruct Hs as (_ & c & Hg & Ho & Hsec & R). exists c.
  split; [exact Hg|]. split; [exact Ho|]. split; [exact Hsec|]. split; [exact (S _ _ Hg Ho)|].
  split; [rewrite (cr_contracts _ _ _ _ _ R); apply get_set_same|]. split; [exact (cr_log _ _ _ _ _ R)|].
  rewrite (cr_queue _ _ _ _ _ R). intros Hin. apply filter_In in Hin. destruct Hin as [_ Hn].
  rewrite eqb_refl in Hn. discriminate.
Qed.

Lemma duplicate_rejected_lemma s m : has (id_of m) (st_contracts s) = true -> step_ok s (Create m) = false.
Proof.
  intros H. unfold step_ok. simpl. unfold create.
  destruct (negb (create_basic m)); [reflexivity|]. destruct (blocked (m_to m)); [reflexivity|].
  destruct (m_to m =? ESC); [reflexivity|]. cbv zeta. rewrite H. reflexivity.
Qed.

(** the block whose height equals the expiration height refunds exactly the contracts still open *)
Lemma refund_at_expiry_lemma s dt : Inv s -> Strict s ->
  forall id c, get id (st_contracts s) = Some c ->
    get id (st_contracts (begin_block s dt)) =
      Some (if openb c && (c_exp c =? st_height s + 1) then close c Refunded (st_height s + 1) else c).
Proof.
  intros I S id c Hg. destruct (begin_block_spec s dt I S) as (_ & _ & _ & _ & Hc).
  rewrite Hc, Hg. reflexivity.
Qed.

(** *** the ghost log, per contract *)
Definition escrow_out_ev (e : event) : bool := match e with EvOut _ _ _ | EvBurn _ _ => true | _ => false end.
Definition n_escrow_out (id : cid) (log : list event) : nat := length (filter escrow_out_ev (filter (ev_for id) log)).
Definition n_mint (id : cid) (log : list event) : nat :=
  length (filter (fun e => match e with EvMint _ _ => true | _ => false end) (filter (ev_for id) log)).

Lemma leaves_escrow_once_lemma s id c : Inv s -> get id (st_contracts s) = Some c -> locksb c = true ->
  n_escrow_out id (st_log s) = if openb c then 0%nat else 1%nat.
Proof.
  intros I Hg Hl. unfold n_escrow_out. rewrite (inv_log _ I), Hg. unfold expected_log, open_events, close_events.
  rewrite Hl. unfold locksb, is_out, is_in, openb in *.
  destruct (c_state c), (c_transfer c), (c_dir c); simpl in *; try discriminate; reflexivity.
Qed.

Lemma ordinary_log_lemma s id c : Inv s -> get id (st_contracts s) = Some c -> c_transfer c = false ->
  filter (ev_for id) (st_log s) =
    match c_state c with
    | Open => [EvLock id (c_sender c) (c_amount c)]
    | Completed => [EvOut id (c_to c) (c_amount c); EvLock id (c_sender c) (c_amount c)]
    | Refunded => [EvOut id (c_sender c) (c_amount c); EvLock id (c_sender c) (c_amount c)]
    end.
Proof.
  intros I Hg Ht. rewrite (inv_log _ I), Hg. unfold expected_log, open_events, close_events, locksb, is_in, is_out.
  rewrite Ht. destruct (c_state c); reflexivity.
Qed.

Lemma outgoing_log_lemma s id c : Inv s -> get id (st_contracts s) = Some c -> is_out c = true ->
  filter (ev_for id) (st_log s) =
    match c_state c with
    | Open => [EvLock id (c_sender c) (c_amount c)]
    | Completed => [EvBurn id (c_amount c); EvLock id (c_sender c) (c_amount c)]
    | Refunded => [EvOut id (c_sender c) (c_amount c); EvLock id (c_sender c) (c_amount c)]
    end.
Proof.
  intros I Hg Ht. rewrite (inv_log _ I), Hg. unfold expected_log, open_events, close_events, locksb, is_in.
  rewrite Ht. unfold is_out in Ht. apply andb_true_iff in Ht. destruct Ht as [Ht Hd]. rewrite Ht.
  destruct (c_dir c); try discriminate. rewrite orb_true_r. destruct (c_state c); reflexivity.
Qed.

Lemma incoming_log_lemma s id c : Inv s -> get id (st_contracts s) = Some c -> is_in c = true ->
  filter (ev_for id) (st_log s) =
    match c_state c with
    | Completed => [EvOut id (c_to c) (c_amount c); EvMint id (c_amount c)]
    | _ => []
    end.
Proof.
  intros I Hg Ht. rewrite (inv_log _ I), Hg. unfold expected_log, open_events, close_events, locksb, is_out.
  rewrite Ht. unfold is_in in Ht. apply andb_true_iff in Ht. destruct Ht as [Ht Hd]. rewrite Ht.
  destruct (c_dir c); try discriminate. simpl. destruct (c_state c); reflexivity.
Qed.

Lemma no_contract_no_events_lemma s id : Inv s -> get id (st_contracts s) = None -> filter (ev_for id) (st_log s) = [].
Proof. intros I Hg. rewrite (inv_log _ I), Hg. reflexivity. Qed.

(** *** C04 *)
Definition Inv_C04 (s : state) : Prop :=
  (forall d, bal (st_bank s) ESC d = wsum (w_esc d) (st_contracts s))
  /\ forall d p, get_param (st_params s) d = Some p ->
       exists a, get d (st_assets s) = Some a
         /\ as_in a = wsum (w_in d) (st_contracts s)
         /\ as_out a = wsum (w_out d) (st_contracts s)
         /\ as_cur a = wsum (w_cur d) (st_contracts s)
         /\ sup_of (st_supply s) d = as_cur a
         /\ as_cur a + as_in a <= ap_limit p
         /\ 0 <= as_out a <= as_cur a
         /\ (ap_tl p = true -> as_tlc a = sup_of (st_win s) d /\ 0 <= sup_of (st_win s) d <= ap_tbl p).

Lemma Inv_C04_of_Inv s : Inv s -> Inv_C04 s.
Proof.
  intros I. split; [exact (inv_esc _ I)|]. intros d p Hp.
  destruct (inv_asset _ I d p Hp) as (a & Ha & Hin & Hout & Hcur & Hsup & (L1 & L2 & L3 & L4) & Hwin).
  exists a. split; [exact Ha|]. split; [exact Hin|]. split; [exact Hout|]. split; [exact Hcur|]. split; [exact Hsup|].
  assert (0 <= as_in a) by (rewrite Hin; apply wsum_nonneg; intros k v Hi; apply (w_nonneg _ I d k v Hi)).
  assert (0 <= as_out a) by (rewrite Hout; apply wsum_nonneg; intros k v Hi; apply (w_nonneg _ I d k v Hi)).
  split; [exact L1|]. split; [lia|]. intros Htl. pose proof (L4 Htl). rewrite <- (Hwin Htl). split; [reflexivity|lia].
Qed.

(** ** Part 7: the ghost log accounts for every movement of the bank (no hypothesis on the history) *)
Definition ev_effect (e : event) (a : acct) (d : denom) : Z :=
  match e with
  | EvLock _ from amt => (if a =? ESC then amt_of amt d else 0) - (if a =? from then amt_of amt d else 0)
  | EvOut _ rcpt amt => (if a =? rcpt then amt_of amt d else 0) - (if a =? ESC then amt_of amt d else 0)
  | EvMint _ amt => if a =? ESC then amt_of amt d else 0
  | EvBurn _ amt => - (if a =? ESC then amt_of amt d else 0)
  end.
Definition log_effect (l : list event) (a : acct) (d : denom) : Z := zsum (map (fun e => ev_effect e a d) l).

Lemma log_effect_app l1 l2 a d : log_effect (l1 ++ l2) a d = log_effect l1 a d + log_effect l2 a d.
Proof. unfold log_effect. rewrite map_app, zsum_app. reflexivity. Qed.

Definition Acc (s s' : state) : Prop :=
  exists evs, st_log s' = evs ++ st_log s
    /\ forall a d, bal (st_bank s') a d = bal (st_bank s) a d + log_effect evs a d.

Lemma Acc_same s s' : st_log s' = st_log s -> st_bank s' = st_bank s -> Acc s s'.
Proof. intros Hl Hb. exists []. split; [exact Hl|]. intros a d. rewrite Hb. unfold log_effect. simpl. lia. Qed.

Lemma Acc_refl s : Acc s s.
Proof. apply Acc_same; reflexivity. Qed.

Lemma Acc_trans s1 s2 s3 : Acc s1 s2 -> Acc s2 s3 -> Acc s1 s3.
Proof.
  intros (e1 & L1 & B1) (e2 & L2 & B2). exists (e2 ++ e1). split.
  - rewrite L2, L1, app_assoc. reflexivity.
  - intros a d. rewrite B2, B1, log_effect_app. lia.
Qed.

Lemma send_bal' l from to d0 x l1 : send l from to d0 x = Some l1 ->
  forall a d, bal l1 a d = bal l a d + (if (a =? to) && (d0 =? d) then x else 0)
                                     - (if (a =? from) && (d0 =? d) then x else 0).
Proof.
  intros Hs. destruct (Z.eq_dec from to) as [E|Hne]; [|exact (send_bal _ _ _ _ _ _ Hne Hs)].
  subst to. destruct (send_Some _ _ _ _ _ _ Hs) as (Hx & _ & Heq & Hoth). intros a d.
  destruct (Z.eqb_spec a from) as [Ea|Hna]; destruct (Z.eqb_spec d0 d) as [Ed|Hnd]; simpl; subst;
    first [ rewrite (Heq eq_refl); lia | rewrite Hoth by pne; lia ].
Qed.

Lemma send_coins_bal' cs : forall l from to l', send_coins l from to cs = Some l' ->
  forall a d, bal l' a d = bal l a d + (if a =? to then amt_of cs d else 0) - (if a =? from then amt_of cs d else 0).
Proof.
  induction cs as [|[d0 x] cs IH]; simpl; intros l from to l' Hs a d.
  - inversion Hs; subst. destruct (a =? to), (a =? from); lia.
  - destruct (send l from to d0 x) as [l1|] eqn:E1; [|discriminate].
    rewrite (IH _ _ _ _ Hs a d). rewrite (send_bal' _ _ _ _ _ _ E1 a d).
    destruct (a =? to), (a =? from), (d0 =? d); simpl; lia.
Qed.

Lemma credit_coins_bal cs : forall l a a' d', 
  bal (credit_coins l a cs) a' d' = bal l a' d' + (if a' =? a then amt_of cs d' else 0).
Proof.
  induction cs as [|[d x] cs IH]; simpl; intros l a a' d'.
  - destruct (a' =? a); lia.
  - rewrite IH. destruct (Z.eqb_spec a' a) as [Ea|Hna]; destruct (Z.eqb_spec d d') as [Ed|Hnd]; subst;
      first [ rewrite bal_credit_same; lia | rewrite bal_credit_other by pne; lia ].
Qed.

Lemma debit_coins_bal cs : forall l a l', debit_coins l a cs = Some l' ->
  forall a' d', bal l' a' d' = bal l a' d' - (if a' =? a then amt_of cs d' else 0).
Proof.
  induction cs as [|[d x] cs IH]; simpl; intros l a l' Hs a' d'.
  - inversion Hs; subst. destruct (a' =? a); lia.
  - destruct (debit l a d x) as [l1|] eqn:E1; [|discriminate].
    rewrite (IH _ _ _ Hs a' d'). destruct (debit_Some _ _ _ _ _ E1) as (_ & Hsame & Hoth).
    destruct (Z.eqb_spec a' a) as [Ea|Hna]; destruct (Z.eqb_spec d d') as [Ed|Hnd]; subst;
      first [ rewrite Hsame; lia | rewrite Hoth by pne; lia ].
Qed.

Lemma lock_coins_Acc s id from amt s' : lock_coins s id from amt = Some s' -> Acc s s'.
Proof.
  unfold lock_coins. destruct (send_coins (st_bank s) from ESC amt) as [l|] eqn:E; [|discriminate].
  intros H; inversion H; subst. exists [EvLock id from amt]. split; [reflexivity|].
  intros a d. unfold set_bank_log. sproj. rewrite (send_coins_bal' _ _ _ _ _ E a d).
  unfold log_effect. simpl. lia.
Qed.

Lemma pay_out_Acc s id rcpt amt s' : pay_out s id rcpt amt = Some s' -> Acc s s'.
Proof.
  unfold pay_out. destruct (blocked rcpt); [discriminate|].
  destruct (send_coins (st_bank s) ESC rcpt amt) as [l|] eqn:E; [|discriminate].
  intros H; inversion H; subst. exists [EvOut id rcpt amt]. split; [reflexivity|].
  intros a d. unfold set_bank_log. sproj. rewrite (send_coins_bal' _ _ _ _ _ E a d).
  unfold log_effect. simpl. lia.
Qed.

Lemma mint_Acc s id amt : Acc s (mint s id amt).
Proof.
  exists [EvMint id amt]. split; [reflexivity|]. intros a d. unfold mint, set_bank_log. sproj.
  rewrite credit_coins_bal. unfold log_effect. simpl. lia.
Qed.

Lemma burn_Acc s id amt s' : burn s id amt = Some s' -> Acc s s'.
Proof.
  unfold burn. destruct (debit_coins (st_bank s) ESC amt) as [l|] eqn:E; [|discriminate].
  intros H; inversion H; subst. exists [EvBurn id amt]. split; [reflexivity|].
  intros a d. unfold set_bank_log. sproj. rewrite (debit_coins_bal _ _ _ _ E a d).
  unfold log_effect. simpl. lia.
Qed.

Lemma with_asset_Acc s d f s' : with_asset s d f = Some s' -> Acc s s'.
Proof. intros H. destruct (with_asset_Some _ _ _ _ H) as (? & ? & ? & _ & _ & _ & ->). apply Acc_same; reflexivity. Qed.

Lemma with_supply_Acc s d f s' : with_supply s d f = Some s' -> Acc s s'.
Proof. intros H. destruct (with_supply_Some _ _ _ _ H) as (? & ? & _ & _ & ->). apply Acc_same; reflexivity. Qed.

Lemma create_Acc s m s' : create s m = Some s' -> Acc s s'.
Proof.
  unfold create. destruct (negb (create_basic m)); [discriminate|]. destruct (blocked (m_to m)); [discriminate|].
  destruct (m_to m =? ESC); [discriminate|].
  cbv zeta. destruct (has (id_of m) (st_contracts s)); [discriminate|]. destruct (m_transfer m).
  - destruct (create_htlt s m) as [[s1 dr]|] eqn:Hh; [|discriminate]. intros H; inversion H; subst s'.
    apply (Acc_trans _ s1); [|apply Acc_same; reflexivity].
    destruct (create_htlt_Some _ _ _ _ Hh) as (d & x & p & Ham & Hp & [[_ Hw]|[_ (s0 & Hw & Hl)]]).
    + exact (with_asset_Acc _ _ _ _ Hw).
    + exact (Acc_trans _ _ _ (with_asset_Acc _ _ _ _ Hw) (lock_coins_Acc _ _ _ _ _ Hl)).
  - destruct (lock_coins s (id_of m) (m_sender m) (m_amount m)) as [s1|] eqn:Hl; [|discriminate].
    intros H; inversion H; subst s'. apply (Acc_trans _ s1); [exact (lock_coins_Acc _ _ _ _ _ Hl)|apply Acc_same; reflexivity].
Qed.

Lemma claim_htlt_Acc s id c s' : claim_htlt s id c = Some s' -> Acc s s'.
Proof.
  unfold claim_htlt. destruct (c_amount c) as [|[d x] cs]; [discriminate|]. destruct (c_dir c); [discriminate| |].
  - destruct (with_supply s d (dec_incoming x)) as [s1|] eqn:H1; [|discriminate].
    destruct (with_asset s1 d (inc_current x)) as [s2|] eqn:H2; [|discriminate]. intros H3.
    apply (Acc_trans _ s1); [exact (with_supply_Acc _ _ _ _ H1)|].
    apply (Acc_trans _ s2); [exact (with_asset_Acc _ _ _ _ H2)|].
    apply (Acc_trans _ (mint s2 id ((d, x) :: cs))); [apply mint_Acc|].
    apply (Acc_trans _ (add_win (mint s2 id ((d, x) :: cs)) d x)); [apply Acc_same; reflexivity|].
    exact (pay_out_Acc _ _ _ _ _ H3).
  - destruct (with_supply s d (dec_outgoing x)) as [s1|] eqn:H1; [|discriminate].
    destruct (with_supply s1 d (dec_current x)) as [s2|] eqn:H2; [|discriminate]. intros H3.
    apply (Acc_trans _ s1); [exact (with_supply_Acc _ _ _ _ H1)|].
    apply (Acc_trans _ s2); [exact (with_supply_Acc _ _ _ _ H2)|]. exact (burn_Acc _ _ _ _ H3).
Qed.

Lemma claim_Acc s who id secret s' : claim s who id secret = Some s' -> Acc s s'.
Proof.
  unfold claim. destruct (negb (addr_ok who)); [discriminate|].
  destruct (get id (st_contracts s)) as [c|]; [|discriminate]. destruct (c_state c); try discriminate.
  destruct (negb (secret_ok c secret)); [discriminate|].
  destruct (if c_transfer c then claim_htlt s id c else pay_out s id (c_to c) (c_amount c)) as [s1|] eqn:Hb; [|discriminate].
  intros H; inversion H; subst s'. apply (Acc_trans _ s1); [|apply Acc_same; reflexivity].
  destruct (c_transfer c); [exact (claim_htlt_Acc _ _ _ _ Hb)|exact (pay_out_Acc _ _ _ _ _ Hb)].
Qed.

Lemma refund_Acc s id c : Acc s (refund s id c).
Proof.
  unfold refund. cbv zeta. destruct (c_transfer c).
  - destruct (c_amount c) as [|[d x] cs]; [apply Acc_refl|]. destruct (c_dir c); [apply Acc_refl| |].
    + destruct (with_supply s d (dec_incoming x)) as [s1|] eqn:H1; [|apply Acc_refl].
      apply (Acc_trans _ s1); [exact (with_supply_Acc _ _ _ _ H1)|apply Acc_same; reflexivity].
    + destruct (with_supply s d (dec_outgoing x)) as [s1|] eqn:H1; [|apply Acc_refl].
      apply (Acc_trans _ s1); [exact (with_supply_Acc _ _ _ _ H1)|].
      destruct (pay_out s1 id (c_sender c) ((d, x) :: cs)) as [s2|] eqn:H2; [|apply Acc_refl].
      apply (Acc_trans _ s2); [exact (pay_out_Acc _ _ _ _ _ H2)|apply Acc_same; reflexivity].
  - destruct (pay_out s id (c_sender c) (c_amount c)) as [s1|] eqn:H1; [|apply Acc_refl].
    apply (Acc_trans _ s1); [exact (pay_out_Acc _ _ _ _ _ H1)|apply Acc_same; reflexivity].
Qed.

Lemma refund_one_Acc h s id : Acc s (refund_one h s id).
Proof.
  unfold refund_one. destruct (get id (st_contracts s)) as [c|].
  - apply (Acc_trans _ (refund s id c)); [apply refund_Acc|apply Acc_same; reflexivity].
  - apply Acc_same; reflexivity.
Qed.

Lemma fold_Acc {A} (f : state -> A -> state) : (forall s x, Acc s (f s x)) -> forall l s, Acc s (fold_left f l s).
Proof.
  intros Hf. induction l as [|x l IH]; intros s; simpl; [apply Acc_refl|].
  exact (Acc_trans _ _ _ (Hf s x) (IH _)).
Qed.

Lemma begin_block_Acc s dt : Acc s (begin_block s dt).
Proof.
  unfold begin_block. cbv zeta. apply (Acc_trans _ (new_block s dt)); [apply Acc_same; reflexivity|].
  set (s0 := new_block s dt). set (s1 := fold_left _ _ s0).
  apply (Acc_trans _ s1); [apply fold_Acc; intros; apply refund_one_Acc|].
  unfold update_windows. destruct (st_params s1); [apply Acc_refl|].
  set (s2 := fold_left _ _ s1). apply (Acc_trans _ s2); [|apply Acc_same; reflexivity].
  apply fold_Acc. intros sx x. apply Acc_same; reflexivity.
Qed.

Lemma step_Acc s o : Acc s (step s o).
Proof.
  unfold step. destruct o as [m|who id secret|dts|gw gP]; simpl.
  - destruct (create s m) eqn:H; [exact (create_Acc _ _ _ H)|apply Acc_refl].
  - destruct (claim s who id secret) eqn:H; [exact (claim_Acc _ _ _ _ _ H)|apply Acc_refl].
  - apply fold_Acc. intros; apply begin_block_Acc.
  - destruct ((gw =? GOV) && params_valid gP); [apply Acc_same; reflexivity|apply Acc_refl].
Qed.

Lemma bank_is_log_lemma P b t0 ops a d :
  bal (st_bank (reachable P b t0 ops)) a d = bal b a d + log_effect (st_log (reachable P b t0 ops)) a d.
Proof.
  unfold reachable, run.
  destruct (fold_Acc step step_Acc ops (init P b t0)) as (evs & Hl & Hb).
  rewrite Hb, Hl. simpl. rewrite app_nil_r. reflexivity.
Qed.

(** ** Part 8: statements over histories from genesis *)
Lemma reachable_app P b t0 pre post : reachable P b t0 (pre ++ post) = run (reachable P b t0 pre) post.
Proof. unfold reachable, run. apply fold_left_app. Qed.

Lemma state_machine_lemma P b t0 pre post id c :
  params_ok P -> escrow_empty b -> wf_run (init P b t0) (pre ++ post) ->
  get id (st_contracts (reachable P b t0 pre)) = Some c ->
  exists c', get id (st_contracts (reachable P b t0 (pre ++ post))) = Some c'
    /\ (c' = c \/ (c_state c = Open /\ exists st h, st <> Open /\ c' = close c st h)).
Proof.
  intros HP HE W Hg. apply wf_run_app in W. destruct W as [W1 W2].
  destruct (reach_inv P b t0 pre HP HE W1) as (I & S). rewrite reachable_app.
  exact (run_contract post _ I S W2 id c Hg).
Qed.

(** a contract comes into existence only open, never closed *)
Lemma created_open_lemma s o id c : Inv s -> Strict s -> wf_op s o ->
  get id (st_contracts s) = None -> get id (st_contracts (step s o)) = Some c ->
  c_state c = Open /\ c_closed c = 0 /\ st_height s < c_exp c /\ exists m, o = Create m /\ id = id_of m.
Proof.
  intros I S W Hn Hg. unfold step in Hg. destruct o as [m|who id0 secret|dts|gw gP]; simpl in Hg.
  - destruct (create s m) as [s'|] eqn:Hc; [|congruence].
    destruct (create_open_rel s m s' I W Hc) as (dr & R). pose proof (create_lock _ _ _ Hc) as Hl.
    rewrite (or_contracts _ _ _ _ R), get_set in Hg. destruct (eq_dec id (id_of m)) as [->|Hne]; [|congruence].
    inversion Hg; subst c. cbn. split; [reflexivity|]. split; [reflexivity|]. split; [lia|]. exists m. auto.
  - pose proof (claim_spec s who id0 secret I) as Hs. destruct (claim s who id0 secret) as [s'|]; [|congruence].
    destruct Hs as (_ & c0 & Hg0 & _ & _ & R). rewrite (cr_contracts _ _ _ _ _ R), get_set in Hg.
    destruct (eq_dec id id0) as [->|Hne]; congruence.
  - assert (H : forall dts s, Inv s -> Strict s -> get id (st_contracts s) = None ->
                 get id (st_contracts (fold_left begin_block dts s)) = None).
    { clear. induction dts as [|dt dts IH]; intros s I S Hn; simpl; [exact Hn|].
      destruct (begin_block_spec s dt I S) as (I1 & S1 & _ & _ & Hc). apply IH; [exact I1|exact S1|].
      rewrite Hc, Hn. reflexivity. }
    rewrite (H dts s I S Hn) in Hg. discriminate.
  - destruct ((gw =? GOV) && params_valid gP); simpl in Hg; congruence.
Qed.

Lemma claim_htlt_win s id c s' d x cs : c_amount c = (d, x) :: cs -> claim_htlt s id c = Some s' ->
  st_win s' = match c_dir c with Incoming => set d (sup_of (st_win s) d + x) (st_win s) | _ => st_win s end.
Proof.
  intros Ham. unfold claim_htlt. rewrite Ham. destruct (c_dir c); [discriminate| |].
  - destruct (with_supply s d (dec_incoming x)) as [s1|] eqn:H1; [|discriminate].
    destruct (with_supply_Some _ _ _ _ H1) as (? & ? & _ & _ & ->).
    match goal with |- context [with_asset ?t d (inc_current x)] => destruct (with_asset t d (inc_current x)) as [s2|] eqn:H2; [|discriminate] end.
    destruct (with_asset_Some _ _ _ _ H2) as (? & ? & ? & _ & _ & _ & ->).
    unfold pay_out. destruct (blocked (c_to c)); [discriminate|]. sproj.
    match goal with |- context [send_coins ?l ESC (c_to c) ?cs] => destruct (send_coins l ESC (c_to c) cs); [|discriminate] end.
    intros H; inversion H; subst s'. reflexivity.
  - destruct (with_supply s d (dec_outgoing x)) as [s1|] eqn:H1; [|discriminate].
    destruct (with_supply_Some _ _ _ _ H1) as (? & ? & _ & _ & ->).
    match goal with |- context [with_supply ?t d (dec_current x)] => destruct (with_supply t d (dec_current x)) as [s2|] eqn:H2; [|discriminate] end.
    destruct (with_supply_Some _ _ _ _ H2) as (? & ? & _ & _ & ->).
    unfold burn. sproj.
    match goal with |- context [debit_coins ?l ESC ?cs] => destruct (debit_coins l ESC cs); [|discriminate] end.
    intros H; inversion H; subst s'. reflexivity.
Qed.

(** the window ghost follows the reset rule of UpdateTimeBasedSupplyLimits *)
Lemma window_reset_rule el s p a : get (ap_denom p) (st_assets s) = Some a ->
  let keep := ap_tl p && (as_el a + el <? ap_period p) in
  sup_of (st_win (tick_asset el s p)) (ap_denom p) = (if keep then sup_of (st_win s) (ap_denom p) else 0)
  /\ option_map as_el (get (ap_denom p) (st_assets (tick_asset el s p))) = Some (if keep then as_el a + el else 0).
Proof.
  intros Ha. unfold tick_asset. cbv zeta. rewrite Ha. sproj. rewrite get_set_same.
  destruct (ap_tl p && (as_el a + el <? ap_period p)); simpl; split; try reflexivity.
  rewrite sup_of_set, Z.eqb_refl. reflexivity.
Qed.
