(** * HTLC module: executable model
    (modules/htlc/keeper/{htlc,asset,params,msg_server}.go, abci.go, types/{htlc,msgs,validation}.go)

    Vocabulary.  Accounts are numbers: actors [0..], [ESC] = the htlc module account (escrow),
    [BLK] = a module account the bank blocks as recipient, negative = not an address.  Denoms are
    numbers whose order is the lexicographic order of the real denom strings (the harness picks
    the names that way), amounts are [Z], times are nanoseconds since the Unix epoch.

    Hashes are identifiers only.  A hash lock is modelled by its pre-image [(secret, ts)]
    = sha256(secret ++ be64 ts), resp. sha256(secret) when [ts = 0] (types.GetHashLock; secrets
    are 32 bytes, so the two shapes cannot collide); a contract id by its pre-image
    [(hash lock, sender, to, amount)] = sha256(hashlock ++ sender ++ to ++ amount.Sort().String())
    (types.GetID).  The harness checks that every real id is the SHA-256 of exactly that
    pre-image and computes every real hash lock from the model's pre-image.

    The last two fields of [state] are ghosts (not stored by the Go code): the log of every coin
    movement through the escrow account, written at exactly the places where the model moves
    coins, and the amount of incoming transfers completed since the last window reset. *)
From Irismod Require Export Base.Prelude Base.Bank.

Definition hlock := (Z * Z)%type.                 (* secret, timestamp inside the pre-image *)
Definition coins := list (denom * Z).
Definition cid := (hlock * Z * Z * coins)%type.   (* hash lock, sender, to, amount *)

Inductive cstate := Open | Completed | Refunded.   (* types.HTLCState 0,1,2 *)
Inductive dir := DNone | Incoming | Outgoing.      (* types.SwapDirection 0,1,2 *)

#[export] Instance EqDec_cstate : EqDec cstate.
Proof. intros x y. decide equality. Defined.
#[export] Instance EqDec_dir : EqDec dir.
Proof. intros x y. decide equality. Defined.

Record contract := mkC {
  c_sender : Z; c_to : Z; c_amount : coins; c_hl : hlock; c_ts : Z; c_exp : Z;
  c_state : cstate; c_closed : Z; c_transfer : bool; c_dir : dir }.

(** types.AssetParam (+ SupplyLimit) *)
Record aparam := mkAP {
  ap_denom : denom; ap_limit : Z; ap_tl : bool; ap_tbl : Z; ap_period : Z;
  ap_active : bool; ap_deputy : Z; ap_fee : Z; ap_min : Z; ap_max : Z;
  ap_minlock : Z; ap_maxlock : Z }.

(** types.AssetSupply: incoming, outgoing, current, time-limited current, time elapsed *)
Record asup := mkAS { as_in : Z; as_out : Z; as_cur : Z; as_tlc : Z; as_el : Z }.

Inductive event :=
| EvLock (id : cid) (from : Z) (amt : coins)     (* account -> escrow *)
| EvOut (id : cid) (rcpt : Z) (amt : coins)      (* escrow -> account *)
| EvMint (id : cid) (amt : coins)                (* minted into escrow *)
| EvBurn (id : cid) (amt : coins).               (* burned from escrow *)

Record state := mkSt {
  st_params : list aparam;
  st_contracts : amap cid contract;
  st_queue : list (Z * cid);          (* expiry queue: (expiration height, id) *)
  st_bank : ledger;
  st_supply : amap denom Z;           (* bank supply per denom (absent = 0) *)
  st_assets : amap denom asup;
  st_prev : Z;                        (* previous block time *)
  st_height : Z; st_time : Z;
  st_log : list event;                (* ghost, newest first *)
  st_win : amap denom Z               (* ghost: incoming completed in the current window *)
}.

Definition ESC : acct := 100.
Definition BLK : acct := 101.
Definition blocked (a : Z) : bool := a =? BLK.
Definition addr_ok (a : Z) : bool := 0 <=? a.

Definition zero_sup : asup := mkAS 0 0 0 0 0.

(** genesis: params, one zero supply per asset, previous block time = genesis time, height 1 *)
Definition init (P : list aparam) (bank0 : ledger) (t0 : Z) : state :=
  mkSt P [] [] bank0 [] (map (fun p => (ap_denom p, zero_sup)) P) t0 1 t0 [] [].

(** ** Coins *)
Fixpoint amt_of (cs : coins) (d : denom) : Z :=
  match cs with [] => 0 | (d', x) :: cs' => (if d' =? d then x else 0) + amt_of cs' d end.

Fixpoint coins_sorted (cs : coins) : bool :=
  match cs with
  | [] => true
  | (d, _) :: cs' => match cs' with [] => true | (d', _) :: _ => (d <? d') && coins_sorted cs' end
  end.

(** sdk.Coins.IsValid && IsAllPositive: non-empty, strictly sorted denoms, positive amounts *)
Definition coins_valid (cs : coins) : bool :=
  match cs with [] => false | _ => forallb (fun c : denom * Z => 0 <? snd c) cs && coins_sorted cs end.

Fixpoint send_coins (l : ledger) (from to : acct) (cs : coins) : option ledger :=
  match cs with
  | [] => Some l
  | (d, x) :: cs' => match send l from to d x with Some l' => send_coins l' from to cs' | None => None end
  end.

Definition sup_of (m : amap denom Z) (d : denom) : Z := match get d m with Some x => x | None => 0 end.

(** ** Parameters (keeper/params.go) *)
Definition get_param (P : list aparam) (d : denom) : option aparam :=
  find (fun p => ap_denom p =? d) P.

(** ** Asset supply (keeper/asset.go); [None] = the Go function returns an error *)
Definition with_asset (s : state) (d : denom) (f : aparam -> asup -> option asup) : option state :=
  match get d (st_assets s), get_param (st_params s) d with
  | Some a, Some p =>
      match f p a with
      | Some a' => Some (mkSt (st_params s) (st_contracts s) (st_queue s) (st_bank s) (st_supply s)
                              (set d a' (st_assets s)) (st_prev s) (st_height s) (st_time s) (st_log s) (st_win s))
      | None => None
      end
  | _, _ => None
  end.

(** the counter updates that do NOT consult the asset parameters (DecrementIncoming / DecrementOutgoing /
    DecrementCurrentAssetSupply only read the supply record): they work for an asset whose parameters
    have been removed.  The update functions keep their parameter argument and ignore it. *)
Definition no_param : aparam := mkAP 0 0 false 0 0 false 0 0 0 0 0 0.
Definition with_supply (s : state) (d : denom) (f : aparam -> asup -> option asup) : option state :=
  match get d (st_assets s) with
  | Some a =>
      match f no_param a with
      | Some a' => Some (mkSt (st_params s) (st_contracts s) (st_queue s) (st_bank s) (st_supply s)
                              (set d a' (st_assets s)) (st_prev s) (st_height s) (st_time s) (st_log s) (st_win s))
      | None => None
      end
  | None => None
  end.

(** IncrementCurrentAssetSupply *)
Definition inc_current (x : Z) (p : aparam) (a : asup) : option asup :=
  if ap_limit p <? as_cur a + x then None
  else if ap_tl p then
    if ap_tbl p <? as_tlc a + x then None
    else Some (mkAS (as_in a) (as_out a) (as_cur a + x) (as_tlc a + x) (as_el a))
  else Some (mkAS (as_in a) (as_out a) (as_cur a + x) (as_tlc a) (as_el a)).

(** DecrementCurrentAssetSupply *)
Definition dec_current (x : Z) (p : aparam) (a : asup) : option asup :=
  if as_cur a - x <? 0 then None
  else Some (mkAS (as_in a) (as_out a) (as_cur a - x) (as_tlc a) (as_el a)).

(** IncrementIncomingAssetSupply *)
Definition inc_incoming (x : Z) (p : aparam) (a : asup) : option asup :=
  if ap_limit p <? as_cur a + as_in a + x then None
  else if ap_tl p && (ap_tbl p <? as_tlc a + as_in a + x) then None
  else Some (mkAS (as_in a + x) (as_out a) (as_cur a) (as_tlc a) (as_el a)).

(** DecrementIncomingAssetSupply *)
Definition dec_incoming (x : Z) (p : aparam) (a : asup) : option asup :=
  if as_in a - x <? 0 then None
  else Some (mkAS (as_in a - x) (as_out a) (as_cur a) (as_tlc a) (as_el a)).

(** IncrementOutgoingAssetSupply *)
Definition inc_outgoing (x : Z) (p : aparam) (a : asup) : option asup :=
  if as_cur a <? as_out a + x then None
  else Some (mkAS (as_in a) (as_out a + x) (as_cur a) (as_tlc a) (as_el a)).

(** DecrementOutgoingAssetSupply *)
Definition dec_outgoing (x : Z) (p : aparam) (a : asup) : option asup :=
  if as_out a - x <? 0 then None
  else Some (mkAS (as_in a) (as_out a - x) (as_cur a) (as_tlc a) (as_el a)).

(** ** Bank movements through escrow; every one is logged (ghost) *)
Definition set_bank_log (s : state) (l : ledger) (sup : amap denom Z) (e : event) : state :=
  mkSt (st_params s) (st_contracts s) (st_queue s) l sup (st_assets s) (st_prev s)
       (st_height s) (st_time s) (e :: st_log s) (st_win s).

(** bankKeeper.SendCoinsFromAccountToModule(sender, htlc, amount) *)
Definition lock_coins (s : state) (id : cid) (from : Z) (amt : coins) : option state :=
  match send_coins (st_bank s) from ESC amt with
  | Some l => Some (set_bank_log s l (st_supply s) (EvLock id from amt))
  | None => None
  end.

(** bankKeeper.SendCoinsFromModuleToAccount(htlc, rcpt, amount): refuses blocked recipients *)
Definition pay_out (s : state) (id : cid) (rcpt : Z) (amt : coins) : option state :=
  if blocked rcpt then None else
  match send_coins (st_bank s) ESC rcpt amt with
  | Some l => Some (set_bank_log s l (st_supply s) (EvOut id rcpt amt))
  | None => None
  end.

Fixpoint credit_coins (l : ledger) (a : acct) (cs : coins) : ledger :=
  match cs with [] => l | (d, x) :: cs' => credit_coins (credit l a d x) a cs' end.

Fixpoint debit_coins (l : ledger) (a : acct) (cs : coins) : option ledger :=
  match cs with
  | [] => Some l
  | (d, x) :: cs' => match debit l a d x with Some l' => debit_coins l' a cs' | None => None end
  end.

Fixpoint sup_add (m : amap denom Z) (sign : Z) (cs : coins) : amap denom Z :=
  match cs with [] => m | (d, x) :: cs' => sup_add (set d (sup_of m d + sign * x) m) sign cs' end.

(** bankKeeper.MintCoins(htlc, amount) *)
Definition mint (s : state) (id : cid) (amt : coins) : state :=
  set_bank_log s (credit_coins (st_bank s) ESC amt) (sup_add (st_supply s) 1 amt) (EvMint id amt).

(** bankKeeper.BurnCoins(htlc, amount) *)
Definition burn (s : state) (id : cid) (amt : coins) : option state :=
  match debit_coins (st_bank s) ESC amt with
  | Some l => Some (set_bank_log s l (sup_add (st_supply s) (-1) amt) (EvBurn id amt))
  | None => None
  end.

(** ** Messages *)
Definition ns : Z := 1000000000.
Definition unix (t : Z) : Z := t / ns.
Definition MinTimeLock : Z := 50.
Definition MaxTimeLock : Z := 34560.

Record create_msg := mkCreate {
  m_sender : Z; m_to : Z; m_amount : coins; m_hl : hlock; m_ts : Z; m_lock : Z; m_transfer : bool }.

Definition id_of (m : create_msg) : cid := (m_hl m, m_sender m, m_to m, m_amount m).

(** MsgCreateHTLC.ValidateBasic *)
Definition create_basic (m : create_msg) : bool :=
  addr_ok (m_sender m) && addr_ok (m_to m)
  && (if m_transfer m then match m_amount m with [_] => true | _ => false end else true)
  && coins_valid (m_amount m)
  && (MinTimeLock <=? m_lock m) && (m_lock m <=? MaxTimeLock).

(** Keeper.createHTLT: direction and all asset checks; returns the direction *)
Definition create_htlt (s : state) (m : create_msg) : option (state * dir) :=
  match m_amount m with
  | [(d, x)] =>
      match get_param (st_params s) d with
      | None => None                                             (* GetAsset: not supported *)
      | Some p =>
          if negb (ap_active p) then None                        (* ValidateLiveAsset *)
          else if (x <? ap_min p) || (ap_max p <? x) then None   (* swap amount limits *)
          else if (m_ts m <? unix (st_time s - 900 * ns)) || (unix (st_time s + 1800 * ns) <=? m_ts m) then None
          else if m_sender m =? ap_deputy p then
            if m_to m =? ap_deputy p then None
            else match with_asset s d (inc_incoming x) with
                 | Some s1 => Some (s1, Incoming)
                 | None => None
                 end
          else if negb (m_to m =? ap_deputy p) then None
          else if (m_lock m <? ap_minlock p) || (ap_maxlock p <? m_lock m) then None
          else if x <? ap_fee p + ap_min p then None
          else match with_asset s d (inc_outgoing x) with
               | Some s1 =>
                   match lock_coins s1 (id_of m) (m_sender m) (m_amount m) with
                   | Some s2 => Some (s2, Outgoing)
                   | None => None
                   end
               | None => None
               end
      end
  | _ => None
  end.

Definition add_contract (s : state) (id : cid) (c : contract) : state :=
  mkSt (st_params s) (set id c (st_contracts s)) ((c_exp c, id) :: st_queue s) (st_bank s) (st_supply s)
       (st_assets s) (st_prev s) (st_height s) (st_time s) (st_log s) (st_win s).

(** msgServer.CreateHTLC + Keeper.CreateHTLC *)
Definition create (s : state) (m : create_msg) : option state :=
  if negb (create_basic m) then None
  else if blocked (m_to m) then None
  else if m_to m =? ESC then None       (* the module's own account cannot be the recipient (msgServer.CreateHTLC) *)
  else
    let id := id_of m in
    if has id (st_contracts s) then None
    else
      let exp := st_height s + m_lock m in
      let mk dr := mkC (m_sender m) (m_to m) (m_amount m) (m_hl m) (m_ts m) exp Open 0 (m_transfer m) dr in
      if m_transfer m then
        match create_htlt s m with
        | Some (s1, dr) => Some (add_contract s1 id (mk dr))
        | None => None
        end
      else
        match lock_coins s id (m_sender m) (m_amount m) with
        | Some s1 => Some (add_contract s1 id (mk DNone))
        | None => None
        end.

Definition set_contract (s : state) (id : cid) (c : contract) : state :=
  mkSt (st_params s) (set id c (st_contracts s)) (st_queue s) (st_bank s) (st_supply s)
       (st_assets s) (st_prev s) (st_height s) (st_time s) (st_log s) (st_win s).

Definition dequeue (s : state) (h : Z) (id : cid) : state :=
  mkSt (st_params s) (st_contracts s) (filter (fun e => negb (eqb e (h, id))) (st_queue s)) (st_bank s)
       (st_supply s) (st_assets s) (st_prev s) (st_height s) (st_time s) (st_log s) (st_win s).

Definition add_win (s : state) (d : denom) (x : Z) : state :=
  mkSt (st_params s) (st_contracts s) (st_queue s) (st_bank s) (st_supply s) (st_assets s) (st_prev s)
       (st_height s) (st_time s) (st_log s) (set d (sup_of (st_win s) d + x) (st_win s)).

Definition close (c : contract) (st : cstate) (h : Z) : contract :=
  mkC (c_sender c) (c_to c) (c_amount c) (c_hl c) (c_ts c) (c_exp c) st h (c_transfer c) (c_dir c).

(** Keeper.claimHTLT *)
Definition claim_htlt (s : state) (id : cid) (c : contract) : option state :=
  match c_amount c with
  | (d, x) :: _ =>
      match c_dir c with
      | Incoming =>
          match with_supply s d (dec_incoming x) with
          | Some s1 =>
              match with_asset s1 d (inc_current x) with
              | Some s2 => pay_out (add_win (mint s2 id (c_amount c)) d x) id (c_to c) (c_amount c)
              | None => None
              end
          | None => None
          end
      | Outgoing =>
          match with_supply s d (dec_outgoing x) with
          | Some s1 =>
              match with_supply s1 d (dec_current x) with
              | Some s2 => burn s2 id (c_amount c)
              | None => None
              end
          | None => None
          end
      | DNone => None
      end
  | [] => None
  end.

(** the hash-lock test of Keeper.ClaimHTLC: GetHashLock(secret, htlc.Timestamp) == htlc.HashLock *)
Definition secret_ok (c : contract) (secret : Z) : bool := eqb (secret, c_ts c) (c_hl c).

(** msgServer.ClaimHTLC + Keeper.ClaimHTLC ([who] only signs) *)
Definition claim (s : state) (who : Z) (id : cid) (secret : Z) : option state :=
  if negb (addr_ok who) then None else
  match get id (st_contracts s) with
  | None => None
  | Some c =>
      match c_state c with
      | Open =>
          if negb (secret_ok c secret) then None
          else
            match (if c_transfer c then claim_htlt s id c else pay_out s id (c_to c) (c_amount c)) with
            | Some s1 => Some (dequeue (set_contract s1 id (close c Completed (st_height s))) (c_exp c) id)
            | None => None
            end
      | _ => None
      end
  end.

(** ** Begin block (abci.go) *)

(** Keeper.RefundHTLC; note: no state check, errors are ignored by the caller, and writes made
    before an error stay (the begin blocker does not run in a cache context) *)
Definition refund (s : state) (id : cid) (c : contract) : state :=
  let done s' := set_contract s' id (close c Refunded (st_height s)) in
  if c_transfer c then
    match c_amount c with
    | (d, x) :: _ =>
        match c_dir c with
        | Incoming => match with_supply s d (dec_incoming x) with Some s1 => done s1 | None => s end
        | Outgoing =>
            match with_supply s d (dec_outgoing x) with
            | Some s1 => match pay_out s1 id (c_sender c) (c_amount c) with Some s2 => done s2 | None => s1 end
            | None => s
            end
        | DNone => s
        end
    | [] => s
    end
  else match pay_out s id (c_sender c) (c_amount c) with Some s1 => done s1 | None => s end.

Definition refund_one (h : Z) (s : state) (id : cid) : state :=
  dequeue (match get id (st_contracts s) with Some c => refund s id c | None => s end) h id.

Definition due (h : Z) (q : list (Z * cid)) : list cid := map snd (filter (fun e => fst e =? h) q).

(** Keeper.UpdateTimeBasedSupplyLimits, one asset *)
Definition tick_asset (el : Z) (s : state) (p : aparam) : state :=
  let d := ap_denom p in
  let a := match get d (st_assets s) with Some a => a | None => zero_sup end in
  let nel := as_el a + el in
  let keep := ap_tl p && (nel <? ap_period p) in
  let a' := if keep then mkAS (as_in a) (as_out a) (as_cur a) (as_tlc a) nel
            else mkAS (as_in a) (as_out a) (as_cur a) 0 0 in
  mkSt (st_params s) (st_contracts s) (st_queue s) (st_bank s) (st_supply s) (set d a' (st_assets s))
       (st_prev s) (st_height s) (st_time s) (st_log s)
       (if keep then st_win s else set d 0 (st_win s)).

Definition update_windows (s : state) : state :=
  match st_params s with
  | [] => s
  | _ =>
      let s1 := fold_left (tick_asset (st_time s - st_prev s)) (st_params s) s in
      mkSt (st_params s1) (st_contracts s1) (st_queue s1) (st_bank s1) (st_supply s1) (st_assets s1)
           (st_time s1) (st_height s1) (st_time s1) (st_log s1) (st_win s1)
  end.

Definition new_block (s : state) (dt : Z) : state :=
  mkSt (st_params s) (st_contracts s) (st_queue s) (st_bank s) (st_supply s) (st_assets s) (st_prev s)
       (st_height s + 1) (st_time s + dt) (st_log s) (st_win s).

(** one block boundary: header of the next block, then htlc.BeginBlocker *)
Definition begin_block (s : state) (dt : Z) : state :=
  let s0 := new_block s dt in
  let h := st_height s0 in
  update_windows (fold_left (refund_one h) (due h (st_queue s0)) s0).

(** ** Parameter changes (keeper/msg_server.go UpdateParams, keeper/params.go SetParams,
    types/params.go validateAssetParams).  [GOV] = the authority (the gov module account).  SetParams
    validates and stores the new set; nothing else is touched (the supply record of a new asset is
    created by the next begin blocker, see [tick_asset]).  Denoms are numbers here: the harness only
    generates well-formed "htlt..." names, so the denom-syntax test is not modelled. *)
Definition GOV : acct := 102.
Definition two256 : Z := 2 ^ 256.

Definition param_valid (p : aparam) : bool :=
  (0 <=? ap_limit p) && (0 <=? ap_tbl p) && (ap_tbl p <=? ap_limit p)
  && addr_ok (ap_deputy p) && (0 <=? ap_fee p)
  && (MinTimeLock <=? ap_minlock p) && (ap_maxlock p <=? MaxTimeLock) && (ap_minlock p <=? ap_maxlock p)
  && (0 <? ap_min p) && (0 <? ap_max p) && (ap_min p <=? ap_max p)
  && (ap_fee p + ap_min p <? two256).

Fixpoint nodupb (l : list Z) : bool :=
  match l with [] => true | x :: l' => negb (existsb (Z.eqb x) l') && nodupb l' end.

Definition params_valid (P : list aparam) : bool := forallb param_valid P && nodupb (map ap_denom P).

Definition set_params (s : state) (P' : list aparam) : state :=
  mkSt P' (st_contracts s) (st_queue s) (st_bank s) (st_supply s) (st_assets s) (st_prev s)
       (st_height s) (st_time s) (st_log s) (st_win s).

(** ** A parameter change is COMPATIBLE with the current usage (decidable; used as a hypothesis of the
    theorems and by the checker's per-case guard, not by [exec]): the supported denoms stay the same and,
    for every asset with a supply record, current + incoming <= new limit, outgoing <= current, for a
    time-limited asset time-limited supply + incoming <= new time-based limit and the time-limited supply
    is the window ghost *)
Definition lim_ok_b (p : aparam) (a : asup) : bool :=
  (as_cur a + as_in a <=? ap_limit p) && (as_out a <=? as_cur a) && (0 <=? as_tlc a)
  && (negb (ap_tl p) || (as_tlc a + as_in a <=? ap_tbl p)).

Definition has_param (P : list aparam) (d : denom) : bool := match get_param P d with Some _ => true | None => false end.

Definition same_denoms_b (s : state) (P' : list aparam) : bool :=
  forallb (fun p => has_param P' (ap_denom p)) (st_params s)
  && forallb (fun p' => has_param (st_params s) (ap_denom p')) P'.

Definition compat_b (s : state) (P' : list aparam) : bool :=
  same_denoms_b s P'
  && forallb (fun p' => match get (ap_denom p') (st_assets s) with
                        | Some a => lim_ok_b p' a && (negb (ap_tl p') || (as_tlc a =? sup_of (st_win s) (ap_denom p')))
                        | None => true
                        end) P'.


(** ** Histories *)
Inductive op :=
| Create (m : create_msg)
| Claim (who : Z) (id : cid) (secret : Z)
| Adv (dts : list Z)                  (* block boundaries, each with its time step *)
| SetParams (who : Z) (P' : list aparam).   (* MsgUpdateParams signed by [who] *)

Definition exec (s : state) (o : op) : option state :=
  match o with
  | Create m => create s m
  | Claim who id secret => claim s who id secret
  | Adv dts => Some (fold_left begin_block dts s)
  | SetParams who P' => if (who =? GOV) && params_valid P' then Some (set_params s P') else None
  end.

(** a message is a transaction: on error nothing is written *)
Definition step (s : state) (o : op) : state := match exec s o with Some s' => s' | None => s end.
Definition step_ok (s : state) (o : op) : bool := match exec s o with Some _ => true | None => false end.

Definition run (s : state) (ops : list op) : state := fold_left step ops s.
