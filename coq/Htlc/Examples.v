(** * HTLC: one concrete history used by the non-vacuity examples of Props/C03.v and Props/C04.v

    One time-limited asset (denom 0, deputy = actor 3); actors 0 and 1 hold 1000 of denom 4.
    An ordinary contract is claimed (after a wrong secret, and then claimed again); an incoming
    transfer is claimed (200 coins minted); an outgoing transfer of 50 is created (a duplicate is
    refused) and expires; an ordinary contract with timestamp 0 is claimed in the last block
    before its expiration height; a claim after the refund is refused. *)
From Irismod Require Import Htlc.Model.

Definition ts0 : Z := 1700000000.
Definition exP : list aparam := [mkAP 0 1000 true 500 (60 * ns) true 3 1 1 400 50 100].
Definition exB : ledger := [((0, 4), 1000); ((1, 4), 1000)].
Definition id1 : cid := ((7, ts0), 0, 1, [(4, 100)]).
Definition id2 : cid := ((8, ts0), 3, 0, [(0, 200)]).
Definition id3 : cid := ((9, ts0), 0, 3, [(0, 50)]).
Definition id4 : cid := ((10, 0), 1, 0, [(4, 30)]).
Definition exOps : list op :=
  [ Create (mkCreate 0 1 [(4, 100)] (7, ts0) ts0 50 false);
    Claim 2 id1 6;
    Claim 2 id1 7;
    Claim 2 id1 7;
    Create (mkCreate 3 0 [(0, 200)] (8, ts0) ts0 50 true);
    Claim 0 id2 8;
    Create (mkCreate 0 3 [(0, 50)] (9, ts0) ts0 50 true);
    Create (mkCreate 0 3 [(0, 50)] (9, ts0) ts0 60 true);
    Create (mkCreate 1 0 [(4, 30)] (10, 0) 0 50 false);
    Adv (repeat ns 49);
    Claim 0 id4 10;
    Adv [ns];
    Claim 3 id3 9 ].

(** the pinned code's creation of an ORDINARY contract: [create] without the recipient <> escrow test
    (used only by the refuted-on-pinned-code witness of Props/C04.v) *)
Definition create_pinned (s : state) (m : create_msg) : option state :=
  let id := id_of m in
  if negb (create_basic m) || blocked (m_to m) || has id (st_contracts s) then None
  else match lock_coins s id (m_sender m) (m_amount m) with
       | Some s1 => Some (add_contract s1 id (mkC (m_sender m) (m_to m) (m_amount m) (m_hl m) (m_ts m)
                                                   (st_height s + m_lock m) Open 0 false DNone))
       | None => None
       end.


(** the same history with parameter changes: the authority raises the limits (compatible), a stranger
    tries to cut them (rejected), the authority submits an invalid set (time-based limit > limit: rejected) *)
Definition exRaise : list aparam := [mkAP 0 1500 true 600 (45 * ns) true 4 2 1 500 50 110].
Definition exBadCut : list aparam := [mkAP 0 10 true 10 (60 * ns) true 3 1 1 400 50 100].
Definition exInvalid : list aparam := [mkAP 0 100 true 101 (60 * ns) true 3 1 1 400 50 100].
Definition exOps2 : list op :=
  firstn 7 exOps ++ [SetParams GOV exRaise; SetParams 0 exBadCut; SetParams GOV exInvalid] ++ skipn 7 exOps.
