(** * HTLC: what holds along EVERY history, whatever the parameter changes

    [InvCore] (ParamChange.v: escrow = open contracts, counters = sums, bank supply = current, outgoing
    <= current, queue <-> open contracts, per-contract log) holds in every state reached by a history
    whose create messages are not signed by module accounts and whose accepted parameter changes keep the
    supported denoms - limits may be cut below the usage, time-based limits, periods, flags, deputies,
    fees and bounds changed at will, between any messages and blocks.

    Proof idea: a state [s] with [InvCore] is shadowed by a state [t] that differs from it only in the
    (relaxed: large enough) limits and in the window ghost, and satisfies the full invariant [Inv]; every
    operation ACCEPTED in [s] is accepted in [t] with the same effect (raising limits never turns an
    accepted operation into a rejected one), so the full-invariant theory applies to [t] and its
    parameter-independent clauses transfer back to [s]. *)
From Irismod Require Import Htlc.Model Htlc.Proofs Htlc.ParamChange.
From Coq Require Import Lia.

Definition agree (s t : state) : Prop :=
  st_contracts s = st_contracts t /\ st_queue s = st_queue t /\ st_bank s = st_bank t /\ st_supply s = st_supply t
  /\ st_assets s = st_assets t /\ st_prev s = st_prev t /\ st_height s = st_height t /\ st_time s = st_time t
  /\ st_log s = st_log t.

Definition relaxes (p q : aparam) : Prop :=
  ap_denom q = ap_denom p /\ ap_limit p <= ap_limit q /\ ap_tl q = ap_tl p /\ ap_tbl p <= ap_tbl q
  /\ ap_period q = ap_period p /\ ap_active q = ap_active p /\ ap_deputy q = ap_deputy p /\ ap_fee q = ap_fee p
  /\ ap_min q = ap_min p /\ ap_max q = ap_max p /\ ap_minlock q = ap_minlock p /\ ap_maxlock q = ap_maxlock p.

Lemma relaxed_lookup P Q : Forall2 relaxes P Q -> forall d,
  match get_param P d with
  | Some p => exists q, get_param Q d = Some q /\ relaxes p q
  | None => get_param Q d = None
  end.
Proof.
  unfold get_param. induction 1 as [|p q P Q R _ IH]; intros d; simpl; [reflexivity|].
  destruct R as (Rd & R'). rewrite Rd. destruct (ap_denom p =? d); [|exact (IH d)].
  exists q. split; [reflexivity|]. split; assumption.
Qed.

Lemma relaxed_same_denoms P Q : Forall2 relaxes P Q -> same_denoms P Q.
Proof.
  intros R d. pose proof (relaxed_lookup P Q R d) as H. destruct (get_param P d) as [p|].
  - destruct H as (q & Hq & _). rewrite Hq. split; discriminate.
  - rewrite H. tauto.
Qed.

(** raising the limits keeps an accepted counter update accepted, with the same result *)
Lemma inc_incoming_relax x p q a a' : relaxes p q -> inc_incoming x p a = Some a' -> inc_incoming x q a = Some a'.
Proof.
  intros (_ & Rl & Rt & Rb & _). unfold inc_incoming. rewrite Rt.
  destruct (ap_limit p <? as_cur a + as_in a + x) eqn:C1; [discriminate|]. apply Z.ltb_ge in C1.
  replace (ap_limit q <? as_cur a + as_in a + x) with false by (symmetry; apply Z.ltb_ge; lia).
  destruct (ap_tl p); simpl; [|auto].
  destruct (ap_tbl p <? as_tlc a + as_in a + x) eqn:C2; [discriminate|]. apply Z.ltb_ge in C2.
  replace (ap_tbl q <? as_tlc a + as_in a + x) with false by (symmetry; apply Z.ltb_ge; lia). auto.
Qed.

Lemma inc_current_relax x p q a a' : relaxes p q -> inc_current x p a = Some a' -> inc_current x q a = Some a'.
Proof.
  intros (_ & Rl & Rt & Rb & _). unfold inc_current. rewrite Rt.
  destruct (ap_limit p <? as_cur a + x) eqn:C1; [discriminate|]. apply Z.ltb_ge in C1.
  replace (ap_limit q <? as_cur a + x) with false by (symmetry; apply Z.ltb_ge; lia).
  destruct (ap_tl p); [|auto].
  destruct (ap_tbl p <? as_tlc a + x) eqn:C2; [discriminate|]. apply Z.ltb_ge in C2.
  replace (ap_tbl q <? as_tlc a + x) with false by (symmetry; apply Z.ltb_ge; lia). auto.
Qed.

Lemma inc_outgoing_relax x p q a : inc_outgoing x q a = inc_outgoing x p a.
Proof. reflexivity. Qed.

Definition Shadow (s t : state) : Prop := agree s t /\ Forall2 relaxes (st_params s) (st_params t).

Ltac explode_shadow s t A R :=
  destruct s as [Ps Cs Qs Bs Us As pvs hs tms lgs Ws]; destruct t as [Pt Ct Qt Bt Ut At pvt ht tmt lgt Wt];
  unfold agree in A; cbn in A, R; destruct A as (? & ? & ? & ? & ? & ? & ? & ? & ?); subst Ct Qt Bt Ut At pvt ht tmt lgt.

Lemma shadow_mk Ps Pt C Q B U A pv h tm lg Ws Wt : Forall2 relaxes Ps Pt ->
  Shadow (mkSt Ps C Q B U A pv h tm lg Ws) (mkSt Pt C Q B U A pv h tm lg Wt).
Proof. intros R. split; [repeat split|exact R]. Qed.

Lemma create_sim s t m s' : Shadow s t -> create s m = Some s' -> exists t', create t m = Some t' /\ Shadow s' t'.
Proof.
  intros [A R]. explode_shadow s t A R. unfold create. cbn [st_params st_contracts st_queue st_bank st_supply st_assets st_prev st_height st_time st_log st_win].
  destruct (negb (create_basic m)); [discriminate|]. destruct (blocked (m_to m)); [discriminate|].
  destruct (m_to m =? ESC); [discriminate|]. cbv zeta. destruct (has (id_of m) Cs); [discriminate|].
  destruct (m_transfer m).
  - unfold create_htlt. cbn [st_params st_time].
    destruct (m_amount m) as [|[d x] [|c2 cs]]; try discriminate.
    pose proof (relaxed_lookup _ _ R d) as L. destruct (get_param Ps d) as [p|] eqn:Hp; [|discriminate].
    destruct L as (q & Hq & Rq). rewrite Hq.
    pose proof Rq as (Rd & Rl & Rt & Rb & Rp & Ra & Rdep & Rf & Rmin & Rmax & Rml & RMl).
    rewrite Ra, Rmin, Rmax, Rdep, Rml, RMl, Rf.
    destruct (negb (ap_active p)); [discriminate|].
    destruct ((x <? ap_min p) || (ap_max p <? x)); [discriminate|].
    destruct ((m_ts m <? unix (tms - 900 * ns)) || (unix (tms + 1800 * ns) <=? m_ts m)); [discriminate|].
    destruct (m_sender m =? ap_deputy p).
    + destruct (m_to m =? ap_deputy p); [discriminate|].
      unfold with_asset. cbn [st_assets st_params]. destruct (get d As) as [a|]; [|discriminate]. rewrite Hp, Hq.
      destruct (inc_incoming x p a) as [a'|] eqn:Hf; [|discriminate]. rewrite (inc_incoming_relax _ _ _ _ _ Rq Hf).
      intros H; inversion H; subst s'. eexists. split; [reflexivity|]. unfold add_contract. cbn. apply shadow_mk. exact R.
    + destruct (negb (m_to m =? ap_deputy p)); [discriminate|].
      destruct ((m_lock m <? ap_minlock p) || (ap_maxlock p <? m_lock m)); [discriminate|].
      destruct (x <? ap_fee p + ap_min p); [discriminate|].
      unfold with_asset. cbn [st_assets st_params]. destruct (get d As) as [a|]; [|discriminate]. rewrite Hp, Hq.
      change (inc_outgoing x q a) with (inc_outgoing x p a).
      destruct (inc_outgoing x p a) as [a'|]; [|discriminate].
      unfold lock_coins. cbn [st_bank]. destruct (send_coins Bs (m_sender m) ESC [(d, x)]) as [l|]; [|discriminate].
      intros H; inversion H; subst s'. eexists. split; [reflexivity|]. unfold add_contract, set_bank_log. cbn. apply shadow_mk. exact R.
  - unfold lock_coins. cbn [st_bank]. destruct (send_coins Bs (m_sender m) ESC (m_amount m)) as [l|]; [|discriminate].
    intros H; inversion H; subst s'. eexists. split; [reflexivity|]. unfold add_contract, set_bank_log. cbn. apply shadow_mk. exact R.
Qed.

Lemma claim_sim s t who id secret s' : Shadow s t -> claim s who id secret = Some s' ->
  exists t', claim t who id secret = Some t' /\ Shadow s' t'.
Proof.
  intros [A R]. explode_shadow s t A R. unfold claim. cbn [st_params st_contracts st_queue st_bank st_supply st_assets st_prev st_height st_time st_log st_win].
  destruct (negb (addr_ok who)); [discriminate|]. destruct (get id Cs) as [c|]; [|discriminate].
  destruct (c_state c); try discriminate. destruct (negb (secret_ok c secret)); [discriminate|].
  destruct (c_transfer c).
  - unfold claim_htlt. destruct (c_amount c) as [|[d x] cs]; [discriminate|]. destruct (c_dir c); [discriminate| |].
    + unfold with_supply. cbn [st_assets st_params st_contracts st_queue st_bank st_supply st_prev st_height st_time st_log st_win].
      destruct (get d As) as [a|]; [|discriminate]. destruct (dec_incoming x no_param a) as [a1|]; [|discriminate].
      unfold with_asset. cbn [st_assets st_params st_contracts st_queue st_bank st_supply st_prev st_height st_time st_log st_win].
      destruct (get d (set d a1 As)) as [a1'|]; [|discriminate].
      pose proof (relaxed_lookup _ _ R d) as L. destruct (get_param Ps d) as [p|] eqn:Hp; [|discriminate].
      destruct L as (q & Hq & Rq). rewrite Hq.
      destruct (inc_current x p a1') as [a2|] eqn:Hf; [|discriminate]. rewrite (inc_current_relax _ _ _ _ _ Rq Hf).
      unfold pay_out, add_win, mint, set_bank_log. cbn [st_assets st_params st_contracts st_queue st_bank st_supply st_prev st_height st_time st_log st_win].
      destruct (blocked (c_to c)); [discriminate|].
      destruct (send_coins (credit_coins Bs ESC ((d, x) :: cs)) ESC (c_to c) ((d, x) :: cs)) as [l|]; [|discriminate].
      intros H; inversion H; subst s'. eexists. split; [reflexivity|]. unfold dequeue, set_contract. cbn. apply shadow_mk. exact R.
    + unfold with_supply. cbn [st_assets st_params st_contracts st_queue st_bank st_supply st_prev st_height st_time st_log st_win].
      destruct (get d As) as [a|]; [|discriminate]. destruct (dec_outgoing x no_param a) as [a1|]; [|discriminate].
      cbn [st_assets st_params st_contracts st_queue st_bank st_supply st_prev st_height st_time st_log st_win].
      destruct (get d (set d a1 As)) as [a1'|]; [|discriminate]. destruct (dec_current x no_param a1') as [a2|]; [|discriminate].
      unfold burn, set_bank_log. cbn [st_assets st_params st_contracts st_queue st_bank st_supply st_prev st_height st_time st_log st_win].
      destruct (debit_coins Bs ESC ((d, x) :: cs)) as [l|]; [|discriminate].
      intros H; inversion H; subst s'. eexists. split; [reflexivity|]. unfold dequeue, set_contract. cbn. apply shadow_mk. exact R.
  - unfold pay_out, set_bank_log. cbn [st_bank]. destruct (blocked (c_to c)); [discriminate|].
    destruct (send_coins Bs ESC (c_to c) (c_amount c)) as [l|]; [|discriminate].
    intros H; inversion H; subst s'. eexists. split; [reflexivity|]. unfold dequeue, set_contract. cbn. apply shadow_mk. exact R.
Qed.

Lemma refund_one_sim h s t id : Shadow s t -> Shadow (refund_one h s id) (refund_one h t id).
Proof.
  intros [A R]. explode_shadow s t A R. unfold refund_one. cbn [st_contracts].
  destruct (get id Cs) as [c|]; [|unfold dequeue; cbn; apply shadow_mk; exact R].
  unfold refund. cbv zeta. cbn [st_height]. destruct (c_transfer c).
  - destruct (c_amount c) as [|[d x] cs]; [unfold dequeue; cbn; apply shadow_mk; exact R|].
    destruct (c_dir c); [unfold dequeue; cbn; apply shadow_mk; exact R| |].
    + unfold with_supply. cbn [st_assets st_params st_contracts st_queue st_bank st_supply st_prev st_height st_time st_log st_win].
      destruct (get d As) as [a|]; [|unfold dequeue; cbn; apply shadow_mk; exact R].
      destruct (dec_incoming x no_param a) as [a1|]; unfold dequeue, set_contract; cbn; apply shadow_mk; exact R.
    + unfold with_supply. cbn [st_assets st_params st_contracts st_queue st_bank st_supply st_prev st_height st_time st_log st_win].
      destruct (get d As) as [a|]; [|unfold dequeue; cbn; apply shadow_mk; exact R].
      destruct (dec_outgoing x no_param a) as [a1|]; [|unfold dequeue; cbn; apply shadow_mk; exact R].
      unfold pay_out, set_bank_log. cbn [st_assets st_params st_contracts st_queue st_bank st_supply st_prev st_height st_time st_log st_win].
      destruct (blocked (c_sender c)); [unfold dequeue; cbn; apply shadow_mk; exact R|].
      destruct (send_coins Bs ESC (c_sender c) ((d, x) :: cs)) as [l|]; unfold dequeue, set_contract; cbn; apply shadow_mk; exact R.
  - unfold pay_out, set_bank_log. cbn [st_bank]. destruct (blocked (c_sender c)); [unfold dequeue; cbn; apply shadow_mk; exact R|].
    destruct (send_coins Bs ESC (c_sender c) (c_amount c)) as [l|]; unfold dequeue, set_contract; cbn; apply shadow_mk; exact R.
Qed.

Lemma refund_fold_sim h : forall l s t, Shadow s t -> Shadow (fold_left (refund_one h) l s) (fold_left (refund_one h) l t).
Proof. induction l as [|id l IH]; intros s t H; simpl; [exact H|]. apply IH. apply refund_one_sim. exact H. Qed.

Lemma tick_sim el s t p q : agree s t -> relaxes p q -> agree (tick_asset el s p) (tick_asset el t q).
Proof.
  intros A (Rd & _ & Rt & _ & Rp & _).
  destruct s as [Ps Cs Qs Bs Us As pvs hs tms lgs Ws]; destruct t as [Pt Ct Qt Bt Ut At pvt ht tmt lgt Wt].
  unfold agree in *. cbn in A. destruct A as (? & ? & ? & ? & ? & ? & ? & ? & ?); subst Ct Qt Bt Ut At pvt ht tmt lgt.
  unfold tick_asset. cbv zeta. cbn. rewrite Rd, Rt, Rp. repeat split; reflexivity.
Qed.

Lemma tick_params el s p : st_params (tick_asset el s p) = st_params s.
Proof. reflexivity. Qed.

Lemma tick_fold_sim el : forall P Q, Forall2 relaxes P Q -> forall s t, agree s t ->
  agree (fold_left (tick_asset el) P s) (fold_left (tick_asset el) Q t)
  /\ st_params (fold_left (tick_asset el) P s) = st_params s /\ st_params (fold_left (tick_asset el) Q t) = st_params t.
Proof.
  induction 1 as [|p q P Q Rpq _ IH]; intros s t A; simpl; [auto|].
  destruct (IH _ _ (tick_sim el s t p q A Rpq)) as (A' & E1 & E2). auto.
Qed.

Lemma begin_block_sim s t dt : Shadow s t -> Shadow (begin_block s dt) (begin_block t dt).
Proof.
  intros H. unfold begin_block. cbv zeta.
  assert (H0 : Shadow (new_block s dt) (new_block t dt)).
  { destruct H as [A R]. explode_shadow s t A R. unfold new_block. cbn. apply shadow_mk. exact R. }
  assert (Eh : st_height (new_block t dt) = st_height (new_block s dt)) by (destruct H0 as [(_ & _ & _ & _ & _ & _ & E & _) _]; auto).
  assert (Eq : st_queue (new_block t dt) = st_queue (new_block s dt)) by (destruct H0 as [(_ & E & _) _]; auto).
  rewrite Eh, Eq.
  pose proof (refund_fold_sim (st_height (new_block s dt)) (due (st_height (new_block s dt)) (st_queue (new_block s dt))) _ _ H0) as [A1 R1].
  set (s1 := fold_left _ _ (new_block s dt)) in *. set (t1 := fold_left _ _ (new_block t dt)) in *.
  unfold update_windows.
  destruct (st_params s1) as [|p0 P] eqn:EP; destruct (st_params t1) as [|q0 Q] eqn:ET; try (inversion R1; fail).
  - split; [exact A1|]. rewrite EP, ET. constructor.
  - rewrite <- EP, <- ET in *.
    assert (Et : st_time t1 - st_prev t1 = st_time s1 - st_prev s1)
      by (destruct A1 as (_ & _ & _ & _ & _ & E6 & _ & E8 & _); rewrite E6, E8; reflexivity).
    rewrite Et. destruct (tick_fold_sim (st_time s1 - st_prev s1) _ _ R1 s1 t1 A1) as (A2 & E3 & E4).
    split; [|cbn [st_params]; rewrite E3, E4; exact R1].
    destruct A2 as (B1 & B2 & B3 & B4 & B5 & B6 & B7 & B8 & B9). unfold agree. cbn. repeat split; assumption.
Qed.

(** *** the shadow of a state: limits raised to the usage, window ghost reset to the time-limited supply *)
Definition relax_p (s : state) (p : aparam) : aparam :=
  match get (ap_denom p) (st_assets s) with
  | Some a => mkAP (ap_denom p) (Z.max (ap_limit p) (as_cur a + as_in a)) (ap_tl p) (Z.max (ap_tbl p) (as_tlc a + as_in a))
                   (ap_period p) (ap_active p) (ap_deputy p) (ap_fee p) (ap_min p) (ap_max p) (ap_minlock p) (ap_maxlock p)
  | None => p
  end.
Definition tlc_of (s : state) (p : aparam) : Z :=
  match get (ap_denom p) (st_assets s) with Some a => as_tlc a | None => 0 end.
Definition lift (s : state) : state :=
  mkSt (map (relax_p s) (st_params s)) (st_contracts s) (st_queue s) (st_bank s) (st_supply s) (st_assets s)
       (st_prev s) (st_height s) (st_time s) (st_log s) (map (fun p => (ap_denom p, tlc_of s p)) (st_params s)).

Lemma relax_p_relaxes s p : relaxes p (relax_p s p).
Proof.
  unfold relax_p, relaxes. destruct (get (ap_denom p) (st_assets s)) as [a|]; cbn; repeat split; try reflexivity; lia.
Qed.

Lemma relax_denom s p : ap_denom (relax_p s p) = ap_denom p.
Proof. exact (proj1 (relax_p_relaxes s p)). Qed.

Lemma lift_shadow s : Shadow s (lift s).
Proof.
  split; [unfold lift, agree; cbn; repeat split|]. unfold lift. cbn.
  induction (st_params s) as [|p P IH]; simpl; constructor; [apply relax_p_relaxes|exact IH].
Qed.

Lemma get_param_map s P d : get_param (map (relax_p s) P) d = option_map (relax_p s) (get_param P d).
Proof.
  unfold get_param. induction P as [|p P IH]; simpl; [reflexivity|]. rewrite relax_denom.
  destruct (ap_denom p =? d); [reflexivity|exact IH].
Qed.

Lemma sup_of_map (g : aparam -> Z) P d :
  sup_of (map (fun p => (ap_denom p, g p)) P) d = match get_param P d with Some p => g p | None => 0 end.
Proof.
  unfold sup_of, get_param. induction P as [|p P IH]; simpl; [reflexivity|].
  destruct (eq_dec d (ap_denom p)) as [->|Hne]; [rewrite Z.eqb_refl; reflexivity|].
  replace (ap_denom p =? d) with false by (symmetry; apply Z.eqb_neq; congruence). exact IH.
Qed.

Lemma lift_inv s : InvCore s -> Strict s -> Inv (lift s) /\ Strict (lift s).
Proof.
  intros C S. split; [|exact S].
  pose proof (relaxed_same_denoms _ _ (proj2 (lift_shadow s))) as SD.
  unfold lift in *. cbn [st_params] in SD. constructor; sproj; try apply C.
  - intros id c Hin. exact (wfc_params _ _ _ _ SD (ic_wfc _ C _ _ Hin)).
  - intros d q Hq. rewrite get_param_map in Hq. destruct (get_param (st_params s) d) as [p|] eqn:Hp; [|discriminate].
    simpl in Hq. inversion Hq; subst q; clear Hq. pose proof (get_param_denom _ _ _ Hp) as Hd.
    destruct (ic_asset _ C d p Hp) as (a & Ha & H1 & H2 & H3 & H4 & L1 & L2).
    exists a. split; [exact Ha|]. split; [exact H1|]. split; [exact H2|]. split; [exact H3|]. split; [exact H4|].
    unfold relax_p. rewrite Hd, Ha. split.
    + unfold lim_ok. cbn. split; [lia|]. split; [exact L1|]. split; [exact L2|]. intros _. lia.
    + cbn. intros _. rewrite sup_of_map, Hp. unfold tlc_of. rewrite Hd, Ha. reflexivity.
Qed.

Lemma core_transfer s t : InvCore t -> agree s t -> same_denoms (st_params t) (st_params s) -> InvCore s.
Proof.
  intros C A SD.
  destruct s as [Ps Cs Qs Bs Us As pvs hs tms lgs Ws]; destruct t as [Pt Ct Qt Bt Ut At pvt ht tmt lgt Wt].
  unfold agree in A. cbn in A, SD. destruct A as (? & ? & ? & ? & ? & ? & ? & ? & ?); subst Ct Qt Bt Ut At pvt ht tmt lgt.
  destruct C as [C1 C2 C3 C4 C5 C6 C7 C8]. cbn in *. constructor; cbn; auto.
  - intros id c Hin. exact (wfc_params _ _ _ _ SD (C1 _ _ Hin)).
  - intros d p Hp. destruct (same_denoms_lookup _ _ _ _ SD Hp) as (q & Hq). exact (C3 d q Hq).
Qed.

Lemma strict_transfer s t : Strict t -> agree s t -> Strict s.
Proof.
  intros S (E1 & _ & _ & _ & _ & _ & E7 & _) id c Hg Ho. rewrite E1 in Hg. rewrite E7. exact (S id c Hg Ho).
Qed.

Lemma same_denoms_sym P Q : same_denoms P Q -> same_denoms Q P.
Proof. intros H d. symmetry. apply H. Qed.

(** *** every step *)
Definition wf_core (s : state) (o : op) : Prop :=
  match o with
  | Create m => m_sender m <> ESC /\ m_sender m <> BLK
  | SetParams who P' => step_ok s o = true -> same_denoms (st_params s) P'
  | _ => True
  end.
Fixpoint wf_core_run (s : state) (ops : list op) : Prop :=
  match ops with [] => True | o :: rest => wf_core s o /\ wf_core_run (step s o) rest end.

Lemma core_back s t s' t' : Shadow s t -> Shadow s' t' -> Inv t' -> Strict t' -> InvCore s' /\ Strict s'.
Proof.
  intros _ [A' R'] I' S'. split; [|exact (strict_transfer _ _ S' A')].
  exact (core_transfer s' t' (inv_core_of_inv _ I') A' (same_denoms_sym _ _ (relaxed_same_denoms _ _ R'))).
Qed.

Lemma block_core s dt : InvCore s -> Strict s -> InvCore (begin_block s dt) /\ Strict (begin_block s dt).
Proof.
  intros C S. destruct (lift_inv s C S) as [I St].
  destruct (begin_block_spec (lift s) dt I St) as (I' & S' & _).
  exact (core_back s (lift s) _ _ (lift_shadow s) (begin_block_sim _ _ dt (lift_shadow s)) I' S').
Qed.

Lemma step_core s o : InvCore s -> Strict s -> wf_core s o -> InvCore (step s o) /\ Strict (step s o).
Proof.
  intros C S W. destruct (lift_inv s C S) as [I St]. unfold step. destruct o as [m|who id secret|dts|gw gP]; cbn [exec].
  - destruct (create s m) as [s'|] eqn:Hc; [|auto].
    destruct (create_sim s (lift s) m s' (lift_shadow s) Hc) as (t' & Hc' & Sh').
    destruct (step_inv (lift s) (Create m) I St W) as (I' & S' & _). unfold step in I', S'. cbn [exec] in I', S'. rewrite Hc' in I', S'.
    exact (core_back s (lift s) s' t' (lift_shadow s) Sh' I' S').
  - destruct (claim s who id secret) as [s'|] eqn:Hc; [|auto].
    destruct (claim_sim s (lift s) who id secret s' (lift_shadow s) Hc) as (t' & Hc' & Sh').
    destruct (step_inv (lift s) (Claim who id secret) I St Logic.I) as (I' & S' & _). unfold step in I', S'. cbn [exec] in I', S'. rewrite Hc' in I', S'.
    exact (core_back s (lift s) s' t' (lift_shadow s) Sh' I' S').
  - clear I St W. revert s C S. induction dts as [|dt dts IH]; intros s C S; simpl; [auto|].
    destruct (block_core s dt C S) as [C1 S1]. exact (IH _ C1 S1).
  - unfold wf_core, step_ok in W. cbn [exec] in W. destruct ((gw =? GOV) && params_valid gP); [|auto].
    split; [exact (inv_core_after_param_change_lemma s gP C (W eq_refl))|exact S].
Qed.

Lemma run_core : forall ops s, InvCore s -> Strict s -> wf_core_run s ops -> InvCore (run s ops) /\ Strict (run s ops).
Proof.
  unfold run. induction ops as [|o ops IH]; intros s C S W; simpl; [auto|].
  destruct W as [Wo Wr]. destruct (step_core s o C S Wo) as [C1 S1]. exact (IH _ C1 S1 Wr).
Qed.

(** the sums hold along EVERY history from genesis, whatever the (denom-keeping) parameter changes *)
Theorem core_reachable_lemma P b t0 ops : params_ok P -> escrow_empty b -> wf_core_run (init P b t0) ops ->
  InvCore (reachable P b t0 ops) /\ Strict (reachable P b t0 ops).
Proof.
  intros HP HE W. destruct (init_inv P b t0 HP HE) as [I S]. exact (run_core ops _ (inv_core_of_inv _ I) S W).
Qed.

(** a history with an INCOMPATIBLE change: an incoming transfer of 200 is pending, the authority cuts the
    limit to 150; the claim with the right secret is then rejected and the transfer expires *)
Definition exOps3 : list op :=
  [ Create (mkCreate 3 0 [(0, 200)] (8, Examples.ts0) Examples.ts0 50 true);
    SetParams GOV exCut;
    Claim 0 Examples.id2 8;
    Adv (repeat ns 50) ].

Lemma exOps3_facts :
  let s0 := init Examples.exP Examples.exB (Examples.ts0 * ns) in
  wf_core_run s0 exOps3
  /\ ~ wf_run s0 exOps3
  /\ map (fun n => step_ok (run s0 (firstn n exOps3)) (nth n exOps3 (Adv []))) [0; 1; 2; 3]%nat = [true; true; false; true]
  /\ option_map c_state (get Examples.id2 (st_contracts (run s0 exOps3))) = Some Refunded.
Proof.
  cbv zeta. split; [|split; [|split]].
  - simpl. split; [split; discriminate|]. split; [|auto].
    intros _ d.
    unfold get_param, Examples.exP, exCut. simpl. destruct d; simpl; split; intros; try discriminate; reflexivity.
  - simpl. intros (_ & H & _). assert (H' := H ltac:(vm_compute; reflexivity)). vm_compute in H'. discriminate.
  - vm_compute. reflexivity.
  - vm_compute. reflexivity.
Qed.

(** "leaves escrow exactly once" needs only the log clause: it holds along every such history too *)
Lemma leaves_escrow_once_core s id c : InvCore s -> get id (st_contracts s) = Some c -> locksb c = true ->
  n_escrow_out id (st_log s) = if openb c then 0%nat else 1%nat.
Proof.
  intros C Hg Hl. unfold n_escrow_out. rewrite (ic_log _ C), Hg. unfold expected_log, open_events, close_events.
  rewrite Hl. unfold locksb, is_out, is_in, openb in *.
  destruct (c_state c), (c_transfer c), (c_dir c); simpl in *; try discriminate; reflexivity.
Qed.
