(** * HTLC: correspondence check and the C03 / C04 trace predicates, evaluated by [vm_compute]
    on the cases the harness writes.

    A case carries the asset parameters, the table of id pre-images (position = interned real
    id), the observation at genesis and, per step, the operation and what the implementation
    showed afterwards.  Three things are computed in one pass:
    - correspondence: the model, run on the same operations, shows the same observables;
    - C03 and C04 monitors: decidable predicates over the implementation's observations alone
      (the model state is not consulted), clause by clause the statements of Props/C03.v and
      Props/C04.v. *)
From Irismod Require Export Htlc.Model.

Definition cobs := (Z * Z * Z * Z * Z * Z)%type.   (* state, closed block, expiration, timestamp, transfer, direction *)

Record obs := mkObs {
  o_code : Z;                                  (* 0 ok, 1 rejected, 2 abort *)
  o_height : Z; o_time : Z;
  o_contracts : list (option cobs);            (* by table position, through the HTLC query *)
  o_queue : list (Z * Z);                      (* expiry queue: (height, table position) *)
  o_bals : list (list Z);                      (* accounts (actors, ESC, BLK) x denoms *)
  o_sups : list (option (Z * Z * Z * Z * Z));  (* per asset: incoming, outgoing, current, time-limited current, elapsed *)
  o_bsups : list Z;                            (* bank supply per asset denom *)
  o_prev : Z;                                  (* previous block time *)
  o_params : list aparam }.                    (* the stored asset parameters (Params query) *)

#[export] Instance EqDec_aparam : EqDec aparam.
Proof. intros x y. decide equality; try apply Z.eq_dec; apply Bool.bool_dec. Defined.

Inductive cop :=
| CCreate (idx : Z) (m : create_msg)
| CClaim (who idx secret : Z)
| CAdv (dts : list Z)
| CAdvN (n dt : Z)                  (* [n] block boundaries with the same time step (long idle stretches) *)
| CSetParams (who : Z) (P' : list aparam).   (* MsgUpdateParams signed by [who] (GOV = the authority) *)

(** what the harness writes per step: the entries of the full observation that differ from the
    previous one (it reads everything after every step and compares; writing only the changes
    keeps the case files small).  [undiff] rebuilds the full observation. *)
Record dobs := mkD {
  d_code : Z; d_height : Z; d_time : Z; d_prev : Z;
  d_contracts : list (Z * option cobs);              (* position, new value *)
  d_queue : option (list (Z * Z));                   (* [None]: unchanged *)
  d_bals : list (Z * Z * Z);                         (* account row, denom column, new value *)
  d_sups : list (Z * option (Z * Z * Z * Z * Z));    (* asset position, new value *)
  d_bsups : list (Z * Z);
  d_params : option (list aparam) }.                 (* [None]: unchanged *)

Record case := mkCase {
  k_params : list aparam; k_nactors : Z; k_ids : list cid; k_obs0 : obs; k_steps : list (cop * dobs) }.

Fixpoint replace_at {A} (i : nat) (x : A) (l : list A) : list A :=
  match l, i with
  | [], _ => []
  | _ :: l', O => x :: l'
  | y :: l', S i' => y :: replace_at i' x l'
  end.

Fixpoint map_at {A} (i : nat) (f : A -> A) (l : list A) : list A :=
  match l, i with
  | [], _ => []
  | y :: l', O => f y :: l'
  | y :: l', S i' => y :: map_at i' f l'
  end.

Definition undiff (po : obs) (d : dobs) : obs :=
  mkObs (d_code d) (d_height d) (d_time d)
    (fold_left (fun l (e : Z * option cobs) => replace_at (Z.to_nat (fst e)) (snd e) l) (d_contracts d) (o_contracts po))
    (match d_queue d with Some q => q | None => o_queue po end)
    (fold_left (fun rows (e : Z * Z * Z) => let '(r, c, v) := e in map_at (Z.to_nat r) (replace_at (Z.to_nat c) v) rows)
               (d_bals d) (o_bals po))
    (fold_left (fun l (e : Z * option (Z * Z * Z * Z * Z)) => replace_at (Z.to_nat (fst e)) (snd e) l) (d_sups d) (o_sups po))
    (fold_left (fun l (e : Z * Z) => replace_at (Z.to_nat (fst e)) (snd e) l) (d_bsups d) (o_bsups po))
    (d_prev d)
    (match d_params d with Some P => P | None => o_params po end).

(** ** helpers *)
Definition nthZ {A} (i : Z) (l : list A) : option A := if i <? 0 then None else nth_error l (Z.to_nat i).

Fixpoint index_from {A} `{EqDec A} (x : A) (l : list A) (i : Z) : Z :=
  match l with [] => -1 | y :: l' => if eqb x y then i else index_from x l' (i + 1) end.

Definition zseq (n : nat) : list Z := map Z.of_nat (seq 0 n).

Definition accounts (k : case) : list Z := zseq (Z.to_nat (k_nactors k)) ++ [ESC; BLK].
Definition denoms_of (o : obs) : list Z := zseq (length (hd [] (o_bals o))).

Definition bank_of (k : case) (o : obs) : ledger :=
  flat_map (fun ar : Z * list Z => map (fun dx : Z * Z => ((fst ar, fst dx), snd dx)) (combine (denoms_of o) (snd ar)))
           (combine (accounts k) (o_bals o)).

Definition state_code (st : cstate) : Z := match st with Open => 0 | Completed => 1 | Refunded => 2 end.
Definition dir_code (d : dir) : Z := match d with DNone => 0 | Incoming => 1 | Outgoing => 2 end.

Definition proj_contract (c : contract) : cobs :=
  (state_code (c_state c), c_closed c, c_exp c, c_ts c, if c_transfer c then 1 else 0, dir_code (c_dir c)).

Definition id_at (k : case) (idx : Z) : cid := match nthZ idx (k_ids k) with Some id => id | None => ((-1, -1), -1, -1, []) end.

Definition to_op (k : case) (c : cop) : op :=
  match c with
  | CCreate _ m => Create m
  | CClaim who idx secret => Claim who (id_at k idx) secret
  | CAdv dts => Adv dts
  | CAdvN n dt => Adv (repeat dt (Z.to_nat n))
  | CSetParams who P' => SetParams who P'
  end.

(** ** correspondence: the model state against one observation *)
Definition corr_obs (k : case) (s : state) (code : Z) (o : obs) : bool :=
  (o_code o =? code) && (o_height o =? st_height s) && (o_time o =? st_time s) && (o_prev o =? st_prev s)
  && eqb (o_contracts o) (map (fun id => option_map proj_contract (get id (st_contracts s))) (k_ids k))
  && (Nat.eqb (length (o_queue o)) (length (st_queue s)))
  && forallb (fun e : Z * cid => existsb (fun q : Z * Z => (fst q =? fst e) && (snd q =? index_from (snd e) (k_ids k) 0)) (o_queue o)) (st_queue s)
  && eqb (o_bals o) (map (fun a => map (fun d => bal (st_bank s) a d) (denoms_of o)) (accounts k))
  && eqb (o_sups o) (map (fun p => option_map (fun a => (as_in a, as_out a, as_cur a, as_tlc a, as_el a)) (get (ap_denom p) (st_assets s))) (k_params k))
  && eqb (o_bsups o) (map (fun p => sup_of (st_supply s) (ap_denom p)) (k_params k))
  && eqb (o_params o) (st_params s).

(** well-formedness of a create step of the case: its table position names the model's id *)
Definition op_wf (k : case) (c : cop) : bool :=
  match c with CCreate idx m => eqb (nthZ idx (k_ids k)) (Some (id_of m)) | _ => true end.

(** ** Monitors: only observations from here on *)
Definition c_state_of (c : cobs) : Z := let '(st, _, _, _, _, _) := c in st.
Definition c_closed_of (c : cobs) : Z := let '(_, cl, _, _, _, _) := c in cl.
Definition c_exp_of (c : cobs) : Z := let '(_, _, e, _, _, _) := c in e.
Definition c_ts_of (c : cobs) : Z := let '(_, _, _, t, _, _) := c in t.
Definition c_tr_of (c : cobs) : Z := let '(_, _, _, _, tr, _) := c in tr.
Definition c_dir_of (c : cobs) : Z := let '(_, _, _, _, _, d) := c in d.
Definition static_of (c : cobs) : Z * Z * Z * Z := (c_exp_of c, c_ts_of c, c_tr_of c, c_dir_of c).

(** does the contract hold coins in escrow while open: ordinary contracts and outgoing transfers *)
Definition locks (c : cobs) : bool := (c_tr_of c =? 0) || (c_dir_of c =? 2).

Definition id_hl (id : cid) : hlock := let '(hl, _, _, _) := id in hl.
Definition id_sender (id : cid) : Z := let '(_, sd, _, _) := id in sd.
Definition id_to (id : cid) : Z := let '(_, _, to, _) := id in to.
Definition id_amount (id : cid) : coins := let '(_, _, _, am) := id in am.

(** *** clause 1: state machine, per contract *)
Definition trans_ok (h0 h1 : Z) (p c : option cobs) : bool :=
  match p, c with
  | None, None => true
  | None, Some c' => (c_state_of c' =? 0) && (c_closed_of c' =? 0)
  | Some p', Some c' =>
      eqb p' c'
      || ((c_state_of p' =? 0) && ((c_state_of c' =? 1) || (c_state_of c' =? 2))
          && eqb (static_of p') (static_of c') && (h0 <=? c_closed_of c') && (c_closed_of c' <=? h1))
  | Some _, None => false
  end.

Fixpoint forallb2 {A B} (f : A -> B -> bool) (l1 : list A) (l2 : list B) : bool :=
  match l1, l2 with
  | [], [] => true
  | a :: l1', b :: l2' => f a b && forallb2 f l1' l2'
  | _, _ => false
  end.

(** *** clause 2: coins move exactly as the observed transitions dictate *)
Definition row_index (k : case) (a : Z) : Z :=
  if a =? ESC then k_nactors k else if a =? BLK then k_nactors k + 1 else a.

Fixpoint add_at (i : nat) (x : Z) (row : list Z) : list Z :=
  match row, i with
  | [], _ => []
  | y :: row', O => (y + x) :: row'
  | y :: row', S i' => y :: add_at i' x row'
  end.

Definition add_coins_row (sign : Z) (cs : coins) (row : list Z) : list Z :=
  fold_left (fun r (c : denom * Z) => add_at (Z.to_nat (fst c)) (sign * snd c) r) cs row.

Definition move (k : case) (a : Z) (sign : Z) (cs : coins) (rows : list (list Z)) : list (list Z) :=
  map_at (Z.to_nat (row_index k a)) (add_coins_row sign cs) rows.

(** the effect one observed transition must have on the balance sheet and on the bank supply
    of asset [d] *)
Definition trans_moves (k : case) (id : cid) (p c : option cobs) (rows : list (list Z)) : list (list Z) :=
  match p, c with
  | None, Some c' =>
      if locks c' then move k ESC 1 (id_amount id) (move k (id_sender id) (-1) (id_amount id) rows) else rows
  | Some p', Some c' =>
      if (c_state_of p' =? 0) && (c_state_of c' =? 1) then
        if c_tr_of c' =? 0 then move k (id_to id) 1 (id_amount id) (move k ESC (-1) (id_amount id) rows)
        else if c_dir_of c' =? 1 then move k (id_to id) 1 (id_amount id) rows
        else move k ESC (-1) (id_amount id) rows
      else if (c_state_of p' =? 0) && (c_state_of c' =? 2) then
        if locks c' then move k (id_sender id) 1 (id_amount id) (move k ESC (-1) (id_amount id) rows) else rows
      else rows
  | _, _ => rows
  end.

Definition trans_supply (d : denom) (id : cid) (p c : option cobs) : Z :=
  match p, c with
  | Some p', Some c' =>
      if (c_state_of p' =? 0) && (c_state_of c' =? 1) && (c_tr_of c' =? 1) then
        if c_dir_of c' =? 1 then amt_of (id_amount id) d else - amt_of (id_amount id) d
      else 0
  | _, _ => 0
  end.

Fixpoint fold3 {A B C S} (f : A -> B -> C -> S -> S) (l1 : list A) (l2 : list B) (l3 : list C) (s : S) : S :=
  match l1, l2, l3 with
  | a :: l1', b :: l2', c :: l3' => fold3 f l1' l2' l3' (f a b c s)
  | _, _, _ => s
  end.

Definition moves_ok (k : case) (po o : obs) : bool :=
  eqb (o_bals o) (fold3 (trans_moves k) (k_ids k) (o_contracts po) (o_contracts o) (o_bals po))
  && eqb (o_bsups o)
       (map (fun pb : aparam * Z =>
               snd pb + fold3 (fun id p c acc => acc + trans_supply (ap_denom (fst pb)) id p c)
                              (k_ids k) (o_contracts po) (o_contracts o) 0)
            (combine (k_params k) (o_bsups po))).

(** *** the C03 monitor for one step; 0 = holds, otherwise the violated clause:
    1 state_machine, 2 leaves_escrow_once / recipient_sender_exactly_once / incoming_mints_once
    (coins moved differently from what the state transitions dictate), 3 claim_iff_preimage,
    4 refund_at_expiry, 5 rejections_move_nothing, 6 duplicate id accepted / created record wrong *)
Definition same_view (po o : obs) : bool :=
  eqb (o_contracts po) (o_contracts o) && eqb (o_queue po) (o_queue o) && eqb (o_bals po) (o_bals o)
  && eqb (o_sups po) (o_sups o) && eqb (o_bsups po) (o_bsups o) && (o_prev po =? o_prev o).

Definition first_nonzero (l : list Z) : Z := match filter (fun x => negb (x =? 0)) l with x :: _ => x | [] => 0 end.

(** [strict]: "a claim succeeds IF AND ONLY IF it presents the pre-image of an open contract"; after an
    incompatible parameter change only "... ONLY IF ..." is demanded (a valid claim of an incoming transfer
    may then legitimately be refused by the supply limits) *)
Definition p03 (k : case) (strict : bool) (po : obs) (c : cop) (o : obs) : Z :=
  let h0 := o_height po in
  let h1 := o_height o in
  let sm := if forallb2 (trans_ok h0 h1) (o_contracts po) (o_contracts o) then 0 else 1 in
  let mv := if moves_ok k po o then 0 else 2 in
  match c with
  | CCreate idx m =>
      if negb (o_code o =? 0) then (if same_view po o then 0 else 5)
      else
        let opv := match nthZ idx (o_contracts po), nthZ idx (o_contracts o) with
                   | Some None, Some (Some c') =>
                       if eqb (o_contracts o) (replace_at (Z.to_nat idx) (Some c') (o_contracts po))
                          && (c_state_of c' =? 0) && (c_closed_of c' =? 0) && (c_exp_of c' =? h0 + m_lock m)
                          && (c_ts_of c' =? m_ts m) && (c_tr_of c' =? (if m_transfer m then 1 else 0))
                          && (if m_transfer m then (c_dir_of c' =? 1) || (c_dir_of c' =? 2) else c_dir_of c' =? 0)
                       then 0 else 6
                   | _, _ => 6     (* the id existed already (open or closed), or nothing appeared *)
                   end in
        first_nonzero [sm; opv; mv]
  | CClaim who idx secret =>
      let id := id_at k idx in
      let expect := match nthZ idx (o_contracts po) with
                    | Some (Some p') => (c_state_of p' =? 0) && eqb (secret, c_ts_of p') (id_hl id) && (0 <=? who)
                    | _ => false
                    end in
      if (if strict then negb (eqb (o_code o =? 0) expect) else (o_code o =? 0) && negb expect) then 3
      else if negb (o_code o =? 0) then (if same_view po o then 0 else 5)
      else
        let opv := match nthZ idx (o_contracts po), nthZ idx (o_contracts o) with
                   | Some (Some p'), Some (Some c') =>
                       if eqb (o_contracts o) (replace_at (Z.to_nat idx) (Some c') (o_contracts po))
                          && (c_state_of c' =? 1) && (c_closed_of c' =? h1) && eqb (static_of p') (static_of c')
                       then 0 else 1
                   | _, _ => 1
                   end in
        first_nonzero [sm; opv; mv]
  | CAdv _ | CAdvN _ _ =>
      let due_ok :=
        forallb2 (fun p c : option cobs =>
                    match p with
                    | Some p' =>
                        if (c_state_of p' =? 0) && (h0 <? c_exp_of p') && (c_exp_of p' <=? h1) then
                          match c with
                          | Some c' => (c_state_of c' =? 2) && (c_closed_of c' =? c_exp_of p') && eqb (static_of p') (static_of c')
                          | None => false
                          end
                        else eqb p c
                    | None => eqb p c
                    end) (o_contracts po) (o_contracts o) in
      let live := forallb (fun c : option cobs => match c with Some c' => negb (c_state_of c' =? 0) || (h1 <? c_exp_of c') | None => true end)
                          (o_contracts o) in
      first_nonzero [sm; (if due_ok && live && (o_code o =? 0) then 0 else 4); mv]
  | CSetParams _ _ =>
      (* a parameter change, accepted or not, moves nothing that C03 talks about *)
      if same_view po o then 0 else 5
  end.

(** ** The C04 monitor *)
Definition sum_where (k : case) (o : obs) (pred : cobs -> bool) (d : denom) : Z :=
  fold3 (fun id (c : option cobs) (_ : unit) acc =>
           match c with Some c' => if pred c' then acc + amt_of (id_amount id) d else acc | None => acc end)
        (k_ids k) (o_contracts o) (map (fun _ => tt) (k_ids k)) 0.

Definition is_open (c : cobs) : bool := c_state_of c =? 0.

(** window bookkeeping of the monitor, per asset: (elapsed, completed incoming in this window);
    the windows are those of the reset rule (keeper/asset.go UpdateTimeBasedSupplyLimits) applied to
    the block times of the history *)
Definition wtick (P : list aparam) (dt : Z) (pw : aparam * (Z * Z)) : Z * Z :=
  let '(p0, (el, w)) := pw in
  match get_param P (ap_denom p0) with
  | Some p => if ap_tl p && (el + dt <? ap_period p) then (el + dt, w) else (0, 0)
  | None => (el, w)          (* no parameters for this asset: the begin blocker does not touch its record *)
  end.

(** [P] = the asset parameters in force (the stored parameters as observed); the positions of the
    bookkeeping are those of the case's genesis list [k_params k] (the universe of assets) *)
Definition wticks (k : case) (P : list aparam) (ws : list (Z * Z)) (dts : list Z) : list (Z * Z) :=
  fold_left (fun ws dt => map (wtick P dt) (combine (k_params k) ws)) dts ws.

Definition wclaims (k : case) (po o : obs) (ws : list (Z * Z)) : list (Z * Z) :=
  map (fun pw : aparam * (Z * Z) =>
         let '(p, (el, w)) := pw in
         (el, w + fold3 (fun id pc c acc =>
                           match pc, c with
                           | Some p', Some c' =>
                               if (c_state_of p' =? 0) && (c_state_of c' =? 1) && (c_tr_of c' =? 1) && (c_dir_of c' =? 1)
                               then acc + amt_of (id_amount id) (ap_denom p) else acc
                           | _, _ => acc
                           end) (k_ids k) (o_contracts po) (o_contracts o) 0))
      (combine (k_params k) ws).

(** 0 = holds; 1 escrow_eq_open, 2 incoming_outgoing_eq_open, 3 current_eq_minted_minus_burned
    (and = bank supply), 4 limits_respected *)
Definition p04 (k : case) (lim : bool) (P : list aparam) (o : obs) (ws : list (Z * Z)) : Z :=
  let esc := match nthZ (k_nactors k) (o_bals o) with Some r => r | None => [] end in
  let c1 := eqb esc (map (fun d => sum_where k o (fun c => is_open c && locks c) d) (denoms_of o)) in
  let per_asset (f : aparam -> (Z * Z * Z * Z * Z) -> Z -> Z * Z -> bool) : bool :=
    forallb (fun x : aparam * option (Z * Z * Z * Z * Z) * Z * (Z * Z) =>
               let '(p, s, b, w) := x in match s with Some s' => f p s' b w | None => false end)
            (combine (combine (combine (k_params k) (o_sups o)) (o_bsups o)) ws) in
  let c2 := per_asset (fun p s _ _ =>
              let '(i, og, _, _, _) := s in
              (i =? sum_where k o (fun c => is_open c && (c_tr_of c =? 1) && (c_dir_of c =? 1)) (ap_denom p))
              && (og =? sum_where k o (fun c => is_open c && (c_tr_of c =? 1) && (c_dir_of c =? 2)) (ap_denom p))) in
  let c3 := per_asset (fun p s b _ =>
              let '(_, _, cur, _, _) := s in
              let net := sum_where k o (fun c => (c_state_of c =? 1) && (c_tr_of c =? 1) && (c_dir_of c =? 1)) (ap_denom p)
                         - sum_where k o (fun c => (c_state_of c =? 1) && (c_tr_of c =? 1) && (c_dir_of c =? 2)) (ap_denom p) in
              (cur =? net) && (b =? net)) in
  let c4 := per_asset (fun p0 s _ w =>
              let '(i, og, cur, _, _) := s in
              match get_param P (ap_denom p0) with   (* the limits of the parameters IN FORCE *)
              | Some p => (cur + i <=? ap_limit p) && (0 <=? og) && (og <=? cur) && (negb (ap_tl p) || (snd w <=? ap_tbl p))
              | None => true
              end) in
  if negb c1 then 1 else if negb c2 then 2 else if negb c3 then 3 else if lim && negb c4 then 4 else 0.

(** ** one pass over the case *)
Record verdict := mkV { v_corr : Z; v_p03 : Z; v_c03 : Z; v_p04 : Z; v_c04 : Z }.

(** Parameter changes.  The limit clauses of [p04] and the window bookkeeping use the parameters IN FORCE
    (the stored parameters as observed, [o_params]).  Two flags:
    - [full]: everything is checked.  It stays on across rejected and across COMPATIBLE accepted changes
      ([compat_b] on the model state: denoms kept, the new limits cover the usage) - the histories of the
      main theorems.
    - after an INCOMPATIBLE accepted change that keeps the denoms ([same_denoms_b]) the monitors go on
      WITHOUT the limit clause of [p04] and with the "only if" half of the claim clause of [p03] - what
      Htlc/CoreHist.v proves for every such history ([act] on, [full] off);
    - after a change that removes or adds an asset only the correspondence is checked ([act] off). *)
Definition is_setparams (c : cop) : bool := match c with CSetParams _ _ => true | _ => false end.

Fixpoint check_from (k : case) (act full : bool) (s : state) (po : obs) (ws : list (Z * Z)) (steps : list (cop * dobs)) (i : Z) (v : verdict) : verdict :=
  match steps with
  | [] => v
  | (c, d) :: rest =>
      let o := undiff po d in
      let mo := to_op k c in
      let s' := step s mo in
      let code := if step_ok s mo then 0 else 1 in
      let corr := if (v_corr v <? 0) && negb (op_wf k c && corr_obs k s' code o) then i else v_corr v in
      let incompatible := match c with
                          | CSetParams _ P' => (o_code o =? 0) && negb (compat_b s P')
                          | _ => false
                          end in
      let denoms_changed := match c with
                            | CSetParams _ P' => (o_code o =? 0) && negb (same_denoms_b s P')
                            | _ => false
                            end in
      let act' := act && negb denoms_changed in
      let full' := full && negb incompatible in
      let r03 := if act then p03 k full po c o else 0 in
      let ws' := match c with
                 | CAdv dts => wticks k (o_params po) ws dts
                 | CAdvN n dt => wticks k (o_params po) ws (repeat dt (Z.to_nat n))
                 | _ => wclaims k po o ws
                 end in
      let r04 := if act' then p04 k full' (o_params o) o ws' else 0 in
      let v' := mkV corr
                    (if (v_p03 v <? 0) && negb (r03 =? 0) then i else v_p03 v)
                    (if (v_p03 v <? 0) && negb (r03 =? 0) then r03 else v_c03 v)
                    (if (v_p04 v <? 0) && negb (r04 =? 0) then i else v_p04 v)
                    (if (v_p04 v <? 0) && negb (r04 =? 0) then r04 else v_c04 v) in
      check_from k act' full' s' o ws' rest (i + 1) v'
  end.

(** ** the hypotheses of the theorems of Props/C03.v and Props/C04.v, decided per case: asset limits
    not negative, nothing in escrow at genesis, no create message signed by a module account or
    naming the escrow account as recipient ([Htlc/Sound.v]: [hyps_b k = true] implies them).  A case
    outside [hyps0_b] (the same without "no parameter change") is a harness defect and is reported as a
    divergence at step 0. *)
Definition wf_op_b (s : state) (o : op) : bool :=
  match o with
  | Create m => negb (m_sender m =? ESC) && negb (m_sender m =? BLK)
  | SetParams _ P' => negb (step_ok s o) || compat_b s P'
  | _ => true
  end.
Fixpoint wf_run_b (s : state) (ops : list op) : bool :=
  match ops with [] => true | o :: rest => wf_op_b s o && wf_run_b (step s o) rest end.
(** the part of the hypotheses every case must satisfy (parameter changes are allowed in a case) *)
Definition wf_sign_b (o : op) : bool :=
  match o with
  | Create m => negb (m_sender m =? ESC) && negb (m_sender m =? BLK)
  | _ => true
  end.
Definition params_ok_b (P : list aparam) : bool := forallb (fun p => (0 <=? ap_limit p) && (0 <=? ap_tbl p)) P.
Definition escrow_empty_b (l : ledger) : bool :=
  forallb (fun e : acct * denom * Z => negb (fst (fst e) =? ESC) || (snd e =? 0)) l.
Definition case_ops (k : case) : list op := map (fun cd : cop * dobs => to_op k (fst cd)) (k_steps k).
Definition hyps_b (k : case) : bool :=
  params_ok_b (k_params k) && escrow_empty_b (bank_of k (k_obs0 k))
  && wf_run_b (init (k_params k) (bank_of k (k_obs0 k)) (o_time (k_obs0 k))) (case_ops k).
Definition hyps0_b (k : case) : bool :=
  params_ok_b (k_params k) && escrow_empty_b (bank_of k (k_obs0 k)) && forallb wf_sign_b (case_ops k).

Definition check_all (k : case) : verdict :=
  let s0 := init (k_params k) (bank_of k (k_obs0 k)) (o_time (k_obs0 k)) in
  let ws0 := map (fun _ => (0, 0)) (k_params k) in
  let v0 := mkV (if corr_obs k s0 0 (k_obs0 k) && hyps0_b k then -1 else 0) (-1) 0
                (if p04 k true (o_params (k_obs0 k)) (k_obs0 k) ws0 =? 0 then -1 else 0) (p04 k true (o_params (k_obs0 k)) (k_obs0 k) ws0) in
  check_from k true true s0 (k_obs0 k) ws0 (k_steps k) 0 v0.

(** (first diverging step or -1, first step violating the property or -1, violated clause) *)
Definition check_case_C03 (k : case) : Z * Z * Z := let v := check_all k in (v_corr v, v_p03 v, v_c03 v).
Definition check_case_C04 (k : case) : Z * Z * Z := let v := check_all k in (v_corr v, v_p04 v, v_c04 v).
