(** * HTLC: a concrete case built from the model's own observations (non-vacuity of
    [model_passes_check]): the history of [Examples.v] with its three parameter-change steps (16 operations), 5 actors, 5 denoms. *)
From Irismod Require Import Htlc.Model Htlc.Check Htlc.Proofs Htlc.Sound Htlc.Passes Htlc.Examples.

Definition model_obs (k : case) (nd : nat) (s : state) (code : Z) : obs :=
  mkObs code (st_height s) (st_time s) (cproj k s) (qproj k s) (mat (accounts k) nd (bal (st_bank s)))
        (sproj_assets k s) (bsproj k s) (st_prev s) (st_params s).

(** the diff that rewrites every entry *)
Definition full_diff (o : obs) : dobs :=
  mkD (o_code o) (o_height o) (o_time o) (o_prev o)
      (combine (zseq (length (o_contracts o))) (o_contracts o))
      (Some (o_queue o))
      (flat_map (fun rr : Z * list Z => map (fun cv : Z * Z => (fst rr, fst cv, snd cv)) (combine (zseq (length (snd rr))) (snd rr)))
                (combine (zseq (length (o_bals o))) (o_bals o)))
      (combine (zseq (length (o_sups o))) (o_sups o))
      (combine (zseq (length (o_bsups o))) (o_bsups o))
      (Some (o_params o)).

Fixpoint mk_steps (k : case) (nd : nat) (s : state) (cops : list cop) : list (cop * dobs) :=
  match cops with
  | [] => []
  | c :: rest =>
      let s' := step s (to_op k c) in
      (c, full_diff (model_obs k nd s' (if step_ok s (to_op k c) then 0 else 1))) :: mk_steps k nd s' rest
  end.

Definition exIds : list cid := [id1; id2; id3; id4].
Definition exCops : list cop :=
  [ CCreate 0 (mkCreate 0 1 [(4, 100)] (7, ts0) ts0 50 false);
    CClaim 2 0 6; CClaim 2 0 7; CClaim 2 0 7;
    CCreate 1 (mkCreate 3 0 [(0, 200)] (8, ts0) ts0 50 true);
    CClaim 0 1 8;
    CCreate 2 (mkCreate 0 3 [(0, 50)] (9, ts0) ts0 50 true);
    CSetParams GOV exRaise; CSetParams 0 exBadCut; CSetParams GOV exInvalid;
    CCreate 2 (mkCreate 0 3 [(0, 50)] (9, ts0) ts0 60 true);
    CCreate 3 (mkCreate 1 0 [(4, 30)] (10, 0) 0 50 false);
    CAdvN 49 ns;
    CClaim 0 3 10;
    CAdv [ns];
    CClaim 3 2 9 ].

Definition exK0 : case := mkCase exP 5 exIds (mkObs 0 0 0 [] [] [] [] [] 0 []) [].
Definition exObs0 : obs := model_obs exK0 5 (init exP exB (ts0 * ns)) 0.
Definition exK1 : case := mkCase exP 5 exIds exObs0 [].
Definition exCase : case := mkCase exP 5 exIds exObs0 (mk_steps exK1 5 (case_init exK1) exCops).

(** decidable versions of [Vw] and [trace_ok] (so that the example is closed by one [vm_compute] on a boolean) *)
Definition Vw_b (k : case) (nd : nat) (s : state) (code : Z) (o : obs) : bool :=
  (o_code o =? code) && (o_height o =? st_height s) && (o_time o =? st_time s) && (o_prev o =? st_prev s)
  && eqb (o_contracts o) (cproj k s) && eqb (o_queue o) (qproj k s)
  && eqb (o_bals o) (mat (accounts k) nd (bal (st_bank s)))
  && eqb (o_sups o) (sproj_assets k s) && eqb (o_bsups o) (bsproj k s) && eqb (o_params o) (st_params s).

Lemma Vw_b_sound k nd s code o : Vw_b k nd s code o = true -> Vw k nd s code o.
Proof.
  unfold Vw_b. intros H.
  repeat match type of H with (_ && _ = true) => apply andb_true_iff in H; let H' := fresh "H" in destruct H as [H H'] end.
  constructor; first [apply Z.eqb_eq; assumption | apply (proj1 (eqb_true_iff _ _)); assumption].
Qed.

Fixpoint trace_ok_b (k : case) (nd : nat) (s : state) (po : obs) (steps : list (cop * dobs)) : bool :=
  match steps with
  | [] => true
  | (c, d) :: rest =>
      let s' := step s (to_op k c) in
      op_wf k c && Vw_b k nd s' (if step_ok s (to_op k c) then 0 else 1) (undiff po d) && trace_ok_b k nd s' (undiff po d) rest
  end.

Lemma trace_ok_b_sound k nd : forall steps s po, trace_ok_b k nd s po steps = true -> trace_ok k nd s po steps.
Proof.
  induction steps as [|[c d] rest IH]; intros s po H; simpl in *; [exact Logic.I|].
  apply andb_true_iff in H. destruct H as [H H3]. apply andb_true_iff in H. destruct H as [H1 H2].
  split; [exact H1|]. split; [exact (Vw_b_sound _ _ _ _ _ H2)|exact (IH _ _ H3)].
Qed.

Lemma exCase_hyps : hyps_b exCase = true.
Proof. vm_compute. reflexivity. Qed.

Lemma exCase_table : table_ok exCase.
Proof.
  unfold table_ok. split; [|split; [|split]].
  - repeat constructor; simpl; intuition discriminate.
  - unfold nact_ok. simpl. lia.
  - repeat constructor; simpl; tauto.
  - intros id Hin. simpl in Hin. unfold denoms_nonneg.
    destruct Hin as [<-|[<-|[<-|[<-|[]]]]]; simpl; (split; [lia|split; [lia|repeat constructor; simpl; lia]]).
Qed.

Lemma exCase_init_view : Vw exCase 5 (case_init exCase) 0 (k_obs0 exCase).
Proof. apply Vw_b_sound. vm_compute. reflexivity. Qed.

Lemma exCase_trace : trace_ok exCase 5 (case_init exCase) (k_obs0 exCase) (k_steps exCase).
Proof. apply trace_ok_b_sound. vm_compute. reflexivity. Qed.

Lemma exCase_passes : check_case_C03 exCase = (-1, -1, 0) /\ check_case_C04 exCase = (-1, -1, 0).
Proof. exact (model_passes_check_lemma exCase 5 exCase_hyps exCase_table exCase_init_view exCase_trace). Qed.
